package main

// A small Go -> Lean translator for the integer loops of key.go (intLayer, uintLayer).
// `vh -translate <file.lean>` regenerates the Lean definitions from /repo's current source on
// every run; Props/C14.lean proves the generated definitions equal to the model's layer
// functions.  The supported subset is deliberately tiny; anything outside it is an error (the
// check then reports the broken tie and searches for a failing input with the `format` family).
//
// Supported: func f(v T, branchFactor uint) uint8 with a body of the form
//
//	x := uint8(0)
//	for ; COND; x++ { v /= CONV(branchFactor) }      (any number of simple statements)
//	return x
//
// expressions: identifiers, integer literals, conversions uint8/uint64/int64/int/uint(e),
// binary + - * / % == != < <= > >= && ||, unary !, parentheses.
// Semantics: int64 / and % are Go's truncated division (Lean `Int.tdiv`, `Int.tmod`); uint64 ones
// are Nat division; a uint8 increment wraps (`% 256`); the for loop runs under a fuel of 64
// iterations with the residual loop condition returned as a flag, so that the Lean proof has to
// show that 64 suffices (it does: the operand at least halves every round).

import (
	"fmt"
	"go/ast"
	"go/parser"
	"go/token"
	"os"
	"path/filepath"
	"strings"
)

type trCtx struct {
	signed map[string]bool // variable -> is a signed (Int) variable
	errs   []string
}

func (c *trCtx) fail(format string, a ...interface{}) string {
	c.errs = append(c.errs, fmt.Sprintf(format, a...))
	return "sorry_unsupported"
}

// exprType: "int" (Lean Int), "nat" (Lean Nat), "bool"
func (c *trCtx) expr(e ast.Expr, want string) string {
	switch x := e.(type) {
	case *ast.ParenExpr:
		return "(" + c.expr(x.X, want) + ")"
	case *ast.Ident:
		if want == "int" && !c.signed[x.Name] {
			return "(Int.ofNat " + x.Name + ")"
		}
		if want == "nat" && c.signed[x.Name] {
			return c.fail("signed variable %s used as unsigned", x.Name)
		}
		return x.Name
	case *ast.BasicLit:
		if x.Kind != token.INT {
			return c.fail("literal %s", x.Value)
		}
		if want == "int" {
			return "(" + x.Value + " : Int)"
		}
		return "(" + x.Value + " : Nat)"
	case *ast.CallExpr:
		// conversions only
		id, ok := x.Fun.(*ast.Ident)
		if !ok || len(x.Args) != 1 {
			return c.fail("call")
		}
		switch id.Name {
		case "int64", "int":
			if want != "int" {
				return c.fail("signed conversion in unsigned context")
			}
			return c.expr(x.Args[0], "int")
		case "uint64", "uint":
			if want == "int" {
				return "(Int.ofNat " + c.expr(x.Args[0], "nat") + ")"
			}
			return c.expr(x.Args[0], "nat")
		case "uint8":
			if want == "int" {
				return c.fail("uint8 in signed context")
			}
			return "(" + c.expr(x.Args[0], "nat") + " % 256)"
		}
		return c.fail("call of %s", id.Name)
	case *ast.UnaryExpr:
		if x.Op == token.NOT {
			return "(¬ " + c.expr(x.X, "bool") + ")"
		}
		return c.fail("unary %s", x.Op)
	case *ast.BinaryExpr:
		switch x.Op {
		case token.LAND:
			return "(" + c.expr(x.X, "bool") + " ∧ " + c.expr(x.Y, "bool") + ")"
		case token.LOR:
			return "(" + c.expr(x.X, "bool") + " ∨ " + c.expr(x.Y, "bool") + ")"
		case token.EQL, token.NEQ, token.LSS, token.LEQ, token.GTR, token.GEQ:
			t := "nat"
			if c.isSigned(x.X) || c.isSigned(x.Y) {
				t = "int"
			}
			op := map[token.Token]string{token.EQL: "=", token.NEQ: "≠", token.LSS: "<", token.LEQ: "≤", token.GTR: ">", token.GEQ: "≥"}[x.Op]
			return "(" + c.expr(x.X, t) + " " + op + " " + c.expr(x.Y, t) + ")"
		case token.ADD, token.SUB, token.MUL:
			t := want
			op := map[token.Token]string{token.ADD: "+", token.SUB: "-", token.MUL: "*"}[x.Op]
			return "(" + c.expr(x.X, t) + " " + op + " " + c.expr(x.Y, t) + ")"
		case token.QUO, token.REM:
			if c.isSigned(x.X) || c.isSigned(x.Y) || want == "int" {
				f := "Int.tdiv"
				if x.Op == token.REM {
					f = "Int.tmod"
				}
				return "(" + f + " " + c.expr(x.X, "int") + " " + c.expr(x.Y, "int") + ")"
			}
			op := "/"
			if x.Op == token.REM {
				op = "%"
			}
			return "(" + c.expr(x.X, "nat") + " " + op + " " + c.expr(x.Y, "nat") + ")"
		}
		return c.fail("binary %s", x.Op)
	}
	return c.fail("expression %T", e)
}

func (c *trCtx) isSigned(e ast.Expr) bool {
	switch x := e.(type) {
	case *ast.ParenExpr:
		return c.isSigned(x.X)
	case *ast.Ident:
		return c.signed[x.Name]
	case *ast.CallExpr:
		if id, ok := x.Fun.(*ast.Ident); ok {
			return id.Name == "int64" || id.Name == "int"
		}
	case *ast.BinaryExpr:
		return c.isSigned(x.X) || c.isSigned(x.Y)
	}
	return false
}

// translateLoopFunc emits  def <name> (v : T) (branchFactor : Nat) : Nat × Bool
// (result, "the loop condition still held when the fuel ran out").
func translateLoopFunc(fn *ast.FuncDecl) (string, []string) {
	c := &trCtx{signed: map[string]bool{}}
	name := "go_" + fn.Name.Name
	var params []string
	for _, f := range fn.Type.Params.List {
		tn := fmt.Sprint(f.Type)
		for _, n := range f.Names {
			switch tn {
			case "int64", "int":
				c.signed[n.Name] = true
				params = append(params, "("+n.Name+" : Int)")
			case "uint64", "uint":
				params = append(params, "("+n.Name+" : Nat)")
			default:
				c.fail("parameter type %s", tn)
			}
		}
	}
	body := inlineHoisted(fn.Body.List)
	if len(body) != 3 {
		c.fail("%s: expected 3 statements, found %d", fn.Name.Name, len(body))
		return "", c.errs
	}
	// x := uint8(0)
	as, ok := body[0].(*ast.AssignStmt)
	if !ok || as.Tok != token.DEFINE || len(as.Lhs) != 1 {
		c.fail("%s: first statement is not a short variable declaration", fn.Name.Name)
		return "", c.errs
	}
	acc := as.Lhs[0].(*ast.Ident).Name
	init := c.expr(as.Rhs[0], "nat")
	// for ; COND; acc++ { v OP= e ... }
	fs, ok := body[1].(*ast.ForStmt)
	if !ok || fs.Init != nil || fs.Cond == nil {
		c.fail("%s: second statement is not `for ; cond; post`", fn.Name.Name)
		return "", c.errs
	}
	cond := c.expr(fs.Cond, "bool")
	post, ok := fs.Post.(*ast.IncDecStmt)
	if !ok || post.Tok != token.INC || fmt.Sprint(post.X) != acc {
		c.fail("%s: loop post statement is not %s++", fn.Name.Name, acc)
		return "", c.errs
	}
	// loop variables: every parameter and the accumulator
	var loopVars []string
	for _, f := range fn.Type.Params.List {
		for _, n := range f.Names {
			loopVars = append(loopVars, n.Name)
		}
	}
	var lets []string
	for _, st := range fs.Body.List {
		a, ok := st.(*ast.AssignStmt)
		if !ok || len(a.Lhs) != 1 {
			c.fail("%s: loop body statement %T", fn.Name.Name, st)
			continue
		}
		lhs := fmt.Sprint(a.Lhs[0])
		t := "nat"
		if c.signed[lhs] {
			t = "int"
		}
		var rhs string
		switch a.Tok {
		case token.ASSIGN:
			rhs = c.expr(a.Rhs[0], t)
		case token.QUO_ASSIGN:
			rhs = c.expr(&ast.BinaryExpr{X: a.Lhs[0], Op: token.QUO, Y: a.Rhs[0]}, t)
		case token.REM_ASSIGN:
			rhs = c.expr(&ast.BinaryExpr{X: a.Lhs[0], Op: token.REM, Y: a.Rhs[0]}, t)
		default:
			c.fail("%s: assignment operator %s", fn.Name.Name, a.Tok)
		}
		lets = append(lets, fmt.Sprintf("let %s := %s", lhs, rhs))
	}
	ret, ok := body[2].(*ast.ReturnStmt)
	if !ok || len(ret.Results) != 1 || fmt.Sprint(ret.Results[0]) != acc {
		c.fail("%s: last statement is not `return %s`", fn.Name.Name, acc)
	}
	var sb strings.Builder
	args := strings.Join(loopVars, " ")
	fmt.Fprintf(&sb, "/-- loop of `%s` (key.go), %d rounds of fuel -/\n", fn.Name.Name, 64)
	fmt.Fprintf(&sb, "def %s.loop : Nat → %s → (%s : Nat) → Nat × Bool\n", name, paramTypes(params), acc)
	pat := strings.Join(loopVars, ", ")
	fmt.Fprintf(&sb, "  | 0, %s, %s => (%s, decide %s)\n", pat, acc, acc, cond)
	fmt.Fprintf(&sb, "  | fuel+1, %s, %s =>\n", pat, acc)
	fmt.Fprintf(&sb, "      if %s then\n", cond)
	for _, l := range lets {
		fmt.Fprintf(&sb, "        %s\n", l)
	}
	fmt.Fprintf(&sb, "        %s.loop fuel %s ((%s + 1) %% 256)\n", name, args, acc)
	fmt.Fprintf(&sb, "      else (%s, false)\n\n", acc)
	fmt.Fprintf(&sb, "def %s %s : Nat × Bool := %s.loop 64 %s %s\n\n", name, strings.Join(params, " "), name, args, init)
	return sb.String(), c.errs
}

// inlineHoisted: leading `name := expr` statements whose expression mentions only variables that
// are never assigned in the function (a loop-invariant conversion hoisted out of the loop) are
// substituted into the statements that follow, so that the hoisted and the unhoisted spelling
// translate to the same definitions.
func inlineHoisted(body []ast.Stmt) []ast.Stmt {
	assigned := map[string]bool{}
	for _, st := range body {
		ast.Inspect(st, func(n ast.Node) bool {
			switch x := n.(type) {
			case *ast.AssignStmt:
				if x.Tok != token.DEFINE {
					for _, l := range x.Lhs {
						if id, ok := l.(*ast.Ident); ok {
							assigned[id.Name] = true
						}
					}
				}
			case *ast.IncDecStmt:
				if id, ok := x.X.(*ast.Ident); ok {
					assigned[id.Name] = true
				}
			}
			return true
		})
	}
	for len(body) > 3 {
		as, ok := body[0].(*ast.AssignStmt)
		if !ok || as.Tok != token.DEFINE || len(as.Lhs) != 1 || len(as.Rhs) != 1 {
			break
		}
		id, ok := as.Lhs[0].(*ast.Ident)
		if !ok || assigned[id.Name] {
			break
		}
		invariant := true
		ast.Inspect(as.Rhs[0], func(n ast.Node) bool {
			if x, ok := n.(*ast.Ident); ok && assigned[x.Name] {
				invariant = false
			}
			return true
		})
		if !invariant {
			break
		}
		var subst func(e ast.Expr) ast.Expr
		subst = func(e ast.Expr) ast.Expr {
			switch x := e.(type) {
			case *ast.Ident:
				if x.Name == id.Name {
					return &ast.ParenExpr{X: as.Rhs[0]}
				}
				return x
			case *ast.ParenExpr:
				return &ast.ParenExpr{X: subst(x.X)}
			case *ast.BinaryExpr:
				return &ast.BinaryExpr{X: subst(x.X), Op: x.Op, Y: subst(x.Y)}
			case *ast.UnaryExpr:
				return &ast.UnaryExpr{Op: x.Op, X: subst(x.X)}
			case *ast.CallExpr:
				args := make([]ast.Expr, len(x.Args))
				for i, a := range x.Args {
					args[i] = subst(a)
				}
				return &ast.CallExpr{Fun: x.Fun, Args: args}
			}
			return e
		}
		var substStmt func(st ast.Stmt) ast.Stmt
		substStmt = func(st ast.Stmt) ast.Stmt {
			switch x := st.(type) {
			case *ast.AssignStmt:
				rhs := make([]ast.Expr, len(x.Rhs))
				for i, r := range x.Rhs {
					rhs[i] = subst(r)
				}
				return &ast.AssignStmt{Lhs: x.Lhs, Tok: x.Tok, Rhs: rhs}
			case *ast.ForStmt:
				nb := &ast.BlockStmt{}
				for _, b := range x.Body.List {
					nb.List = append(nb.List, substStmt(b))
				}
				var cond ast.Expr
				if x.Cond != nil {
					cond = subst(x.Cond)
				}
				return &ast.ForStmt{Init: x.Init, Cond: cond, Post: x.Post, Body: nb}
			case *ast.ReturnStmt:
				res := make([]ast.Expr, len(x.Results))
				for i, r := range x.Results {
					res[i] = subst(r)
				}
				return &ast.ReturnStmt{Results: res}
			}
			return st
		}
		var rest []ast.Stmt
		for _, st := range body[1:] {
			rest = append(rest, substStmt(st))
		}
		body = rest
	}
	return body
}

func paramTypes(params []string) string {
	var ts []string
	for _, p := range params {
		// "(v : Int)" -> "Int"
		i := strings.Index(p, ": ")
		ts = append(ts, strings.TrimSuffix(p[i+2:], ")"))
	}
	return strings.Join(ts, " → ")
}

func runTranslate(out string) int {
	fset := token.NewFileSet()
	f, err := parser.ParseFile(fset, filepath.Join(repoDir(), "key.go"), nil, 0)
	if err != nil {
		fmt.Fprintln(os.Stderr, "translate:", err)
		return 1
	}
	want := []string{"intLayer", "uintLayer"}
	found := map[string]*ast.FuncDecl{}
	for _, d := range f.Decls {
		if fn, ok := d.(*ast.FuncDecl); ok && fn.Recv == nil {
			found[fn.Name.Name] = fn
		}
	}
	var sb strings.Builder
	sb.WriteString("/-! GENERATED by `vh -translate` from /repo/key.go on every run — do not edit. -/\nnamespace Mast.Gen\n\n")
	var errs []string
	for _, n := range want {
		fn := found[n]
		if fn == nil {
			errs = append(errs, "function "+n+" not found in key.go")
			continue
		}
		s, e := translateLoopFunc(fn)
		errs = append(errs, e...)
		sb.WriteString(s)
	}
	sb.WriteString("end Mast.Gen\n")
	if len(errs) > 0 {
		for _, e := range errs {
			fmt.Fprintln(os.Stderr, "translate: unsupported:", e)
		}
		return 1
	}
	if err := os.WriteFile(out, []byte(sb.String()), 0o644); err != nil {
		fmt.Fprintln(os.Stderr, "translate:", err)
		return 1
	}
	return 0
}
