package main

import (
	"context"
	"errors"
	"fmt"
	"math/rand"
	"sort"
	"strconv"
	"strings"
	"sync"
	"time"

	"github.com/jrhy/mast"
)

// execFlush: MakeRoot under a scheduler that decides when each concurrent Store call
// completes and which ones fail.  The observation is the result plus the event trace
// s (Store starts) / o (ends ok) / e (ends with error) / R, X (MakeRoot returns ok / error).
func (s *Session) execFlush(slot, rslot int, seed int64, fails map[int]bool, cancelAt int) (obs, viol string) {
	m := s.Trees[slot]
	if m == nil {
		return "bad-slot", ""
	}
	r := rand.New(rand.NewSource(seed))
	var mu sync.Mutex
	var trace strings.Builder
	type waiter struct {
		ch chan error
		n  int
	}
	var waiting []waiter
	inflight, maxInflight := 0, 0
	done := false
	// cancelAt >= 0: the caller's context is cancelled when that Store call starts.  The store
	// (like the in-memory and file stores) does not look at the context, so every write still
	// happens or fails as scheduled; what MakeRoot then reports must still be true.
	ctx, cancel := context.WithCancel(s.ctx)
	defer cancel()
	s.Store.Gate = func(n int, name string) error {
		if n == cancelAt {
			cancel()
		}
		ch := make(chan error, 1)
		mu.Lock()
		trace.WriteByte('s')
		inflight++
		if inflight > maxInflight {
			maxInflight = inflight
		}
		waiting = append(waiting, waiter{ch, n})
		mu.Unlock()
		return <-ch
	}
	s.Store.End = func(n int, name string, err error) {}
	ctl := make(chan struct{})
	go func() {
		defer close(ctl)
		idle := 0
		for {
			mu.Lock()
			if done && len(waiting) == 0 {
				mu.Unlock()
				return
			}
			// let the pool fill up now and then before releasing anything
			if len(waiting) > 0 && (len(waiting) >= 40 || idle > 3 || r.Intn(3) == 0) {
				i := r.Intn(len(waiting))
				w := waiting[i]
				waiting = append(waiting[:i], waiting[i+1:]...)
				inflight--
				if fails[w.n] {
					trace.WriteByte('e')
					w.ch <- errors.New("injected store failure")
				} else {
					trace.WriteByte('o')
					w.ch <- nil
				}
				idle = 0
				mu.Unlock()
				continue
			}
			idle++
			mu.Unlock()
			time.Sleep(time.Duration(2+r.Intn(30)) * time.Microsecond)
		}
	}()
	s.Store.ResetTraffic()
	root, err := m.MakeRoot(ctx)
	mu.Lock()
	if err == nil {
		trace.WriteByte('R')
	} else {
		trace.WriteByte('X')
	}
	late := len(waiting)
	done = true
	mu.Unlock()
	<-ctl
	s.Store.Gate, s.Store.End = nil, nil
	calls := s.Store.TakeStores()
	tr := trace.String()
	s.lastFlushTrace = tr
	if late > 0 {
		viol = fmt.Sprintf("MakeRoot returned while %d Store calls were still in flight", late)
	}
	if maxInflight > 40 {
		viol = fmt.Sprintf("%d Store calls in flight at once", maxInflight)
	}
	s.lastMaxInflight = maxInflight
	if err != nil {
		if !strings.Contains(tr, "e") && viol == "" && cancelAt < 0 {
			viol = "MakeRoot failed although no write failed: " + err.Error()
		}
		// the tree must stay fully usable
		if viol == "" {
			l, ierr := s.iterList(m)
			if ierr != nil {
				viol = "after a failed MakeRoot the tree cannot be iterated: " + ierr.Error()
			} else if l != sortedList(s.Oracle[slot]) {
				viol = "after a failed MakeRoot the tree iterates " + l + ", it held " + sortedList(s.Oracle[slot])
			}
		}
		return "err " + tr, viol
	}
	if strings.Contains(tr, "e") && viol == "" {
		viol = "MakeRoot reported success although a write failed"
	}
	link := "-"
	if root.Link != nil {
		link = *root.Link
	}
	// every node reachable from the returned root must be in the store
	if viol == "" {
		plink := ""
		if root.Link != nil {
			plink = *root.Link
		}
		_, n, v := s.PersistedShape(plink, int(root.Height))
		if v != "" {
			viol = "returned root is not completely in the store: " + v
		} else if uint64(n) != root.Size {
			viol = fmt.Sprintf("returned root records size %d, %d entries reachable in the store", root.Size, n)
		}
	}
	_ = calls
	rr := *root
	s.Roots[rslot] = &rr
	s.ROracle[rslot] = copyMap(s.Oracle[slot])
	s.setBase(slot, root)
	return fmt.Sprintf("ok %s %d %d %d %s", link, root.Size, root.Height, root.BranchFactor, tr), viol
}

// execTwoStore: the contents of a tree are persisted once more into a SECOND store (another URL
// prefix) that shares this session's node cache; every node of that root must be in the second
// store — none may be skipped because the cache has seen it under the first store.
var twoStoreSeq int

func (s *Session) execTwoStore(slot int) (obs, viol string) {
	o := s.Oracle[slot]
	if o == nil {
		return "bad-slot", ""
	}
	if s.Cache == nil {
		return "ok", ""
	}
	twoStoreSeq++
	// a prefix names a store: a fresh one each time — every second time one that differs from the
	// first store's only by what a path cleaner would remove (still a different name)
	prefix2 := fmt.Sprintf("rec-other-%d", twoStoreSeq)
	if twoStoreSeq%2 == 0 {
		v := []string{"%s/", "./%s", "%s/.", "%s//"}[(twoStoreSeq/2)%4]
		// (always relative to THIS session's first store: the cache is per session, so a name near a
		// second store of an earlier session can collide with nothing)
		prefix2 = fmt.Sprintf(v, s.Store.Prefix)
	}
	st2 := NewRecStore(prefix2)
	cfg := s.remoteConfig()
	cfg.StoreImmutablePartsWith = st2
	m, err := mast.NewRoot(createOpts(s.Cfg)).LoadMast(s.ctx, cfg)
	if err != nil {
		return "ok", "second store: new tree failed: " + err.Error()
	}
	keys := make([]uint64, 0, len(o))
	for k := range o {
		keys = append(keys, k)
	}
	sort.Slice(keys, func(i, j int) bool { return keys[i] < keys[j] })
	for _, k := range keys {
		if err := m.Insert(s.ctx, s.Cfg.Key(k), s.Cfg.Val(o[k])); err != nil {
			return "ok", "second store: insert failed: " + err.Error()
		}
	}
	root, err := m.MakeRoot(s.ctx)
	if err != nil {
		return "ok", "second store: MakeRoot failed: " + err.Error()
	}
	link := ""
	if root.Link != nil {
		link = *root.Link
	}
	old := s.Store
	s.Store = st2
	_, n, v := s.PersistedShape(link, int(root.Height))
	s.Store = old
	if v != "" {
		return "ok", "persisted into a second store that shares the node cache, the root is not complete there: " + v
	}
	if n != len(o) {
		return "ok", fmt.Sprintf("second store holds %d entries under the root, %d expected", n, len(o))
	}
	return "ok", ""
}

func parseFails(s string) map[int]bool {
	out := map[int]bool{}
	if s == "-" {
		return out
	}
	for _, x := range strings.Split(s, ",") {
		n, _ := strconv.Atoi(x)
		out[n] = true
	}
	return out
}

// genFlushCase: trees with many dirty nodes (so that the 40-slot pool fills), flushed under
// random completion orders, with every single fault position on small trees and random
// subsets on larger ones, each followed by retries; and two stores sharing one cache.
func genFlushCase(r *rand.Rand, cfg Cfg, big bool) Case {
	if cfg.Cache == "tiny" || cfg.Cache == "one" {
		cfg.Cache = "none"
	}
	us := 5 + r.Intn(40)
	if big {
		us = 120 + r.Intn(200)
		cfg.BF = pick(r, []uint{2, 3})
	}
	uni := Universe(r, cfg, us)
	ops := []string{"new 0"}
	live := map[uint64]uint64{}
	nroot := 0
	for cyc := 0; cyc < 1+r.Intn(3); cyc++ {
		n := len(uni) / 2
		if cyc > 0 {
			n = 1 + r.Intn(10)
		}
		for i := 0; i < n; i++ {
			if len(live) > 0 && r.Intn(4) == 0 {
				var ks []uint64
				for _, u := range uni {
					if _, ok := live[u]; ok {
						ks = append(ks, u)
					}
				}
				k := pick(r, ks)
				ops = append(ops, opDel(0, k, live[k]))
				delete(live, k)
			} else {
				k, v := pick(r, uni), uint64(r.Intn(3))
				live[k] = v
				ops = append(ops, opIns(0, k, v))
			}
		}
		// a few failing attempts, then a clean one
		attempts := r.Intn(3)
		if big && cyc == 0 && attempts == 0 {
			attempts = 1
		}
		for a := 0; a < attempts; a++ {
			var fs []string
			for j := 0; j < 1+r.Intn(2); j++ {
				fs = append(fs, strconv.Itoa(r.Intn(2+len(live)/2)))
			}
			if big && cyc == 0 && a == 0 {
				// a failure among the very first writes of a flush of a hundred nodes or more: dozens
				// of successful writes follow it (every pool slot is used again afterwards)
				fs = []string{strconv.Itoa(r.Intn(5))}
			}
			ops = append(ops, fmt.Sprintf("flush 0 %d %d %s", nroot, r.Int63n(1<<30), strings.Join(fs, ",")), "iter 0", "stat 0")
			nroot++
		}
		if r.Intn(3) == 0 {
			// the caller gives up (cancels its context) while the writes are under way; whatever
			// MakeRoot answers, a root it returns must be complete and the tree must stay usable
			ops = append(ops, fmt.Sprintf("flush 0 %d %d - c%d", nroot, r.Int63n(1<<30), r.Intn(2+len(live)/3)), "iter 0", "stat 0")
			nroot++
		}
		ops = append(ops, fmt.Sprintf("flush 0 %d %d -", nroot, r.Int63n(1<<30)), fmt.Sprintf("pshape %d", nroot), "stat 0")
		if cfg.Cache != "none" && r.Intn(2) == 0 {
			ops = append(ops, "twostore 0")
		}
		if r.Intn(2) == 0 {
			ops = append(ops, fmt.Sprintf("load %d 0", nroot), "iter 0")
		}
		nroot++
	}
	return Case{cfg, ops}
}

func famFlush(f *FamCtx) {
	f.Report.Rule = "trees with 3..300 dirty nodes persisted through a Persist whose Store calls block until a seeded scheduler releases them in random order (the 40-slot pool is allowed to fill), with no failure, every single failing position (small trees) or random failing subsets, each failed MakeRoot followed by iteration, IsDirty and retries; event traces (Store start / end ok / end err / MakeRoot return) replayed through the Lean pool model's observer, results and roots compared with the model; the returned root's nodes all decoded from the store; non-trivial = reached height >= 1 and changed height"
	f.Gen = func() Case { return genFlushCase(f.Rand, RandCfg(f.Rand), f.Rand.Intn(4) == 0) }
	n := f.N(100, 4000)
	maxIn := 0
	rn := Runner{Mk: func(c Cfg) Executor { return NewSession(c) }}
	for i := 0; i < n; i++ {
		f.RunTreeCase(f.Gen(), rn, multiLevel)
		if lastSessionMaxInflight > maxIn {
			maxIn = lastSessionMaxInflight
		}
	}
	f.Report.Stats = map[string]interface{}{"max_store_calls_in_flight_observed": maxIn}
}

var lastSessionMaxInflight int

var _ = mast.DefaultBranchFactor
