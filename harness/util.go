package main

import (
	"encoding/json"
	"sort"
	"strconv"
	"strings"
)

func joinU(xs []uint64) string {
	s := make([]string, len(xs))
	for i, x := range xs {
		s[i] = strconv.FormatUint(x, 10)
	}
	return strings.Join(s, " ")
}

func sortU(xs []uint64) { sort.Slice(xs, func(i, j int) bool { return xs[i] < xs[j] }) }

func jsonKey(c Cfg, k uint64) []byte {
	b, err := json.Marshal(c.Key(k))
	if err != nil {
		panic(err)
	}
	return b
}

func jsonCounts(b []byte) ([3]int, error) {
	var out [3]int
	var sn struct {
		Key   []json.RawMessage
		Value []json.RawMessage
		Link  []json.RawMessage
	}
	if err := json.Unmarshal(b, &sn); err != nil {
		return out, err
	}
	out[0], out[1], out[2] = len(sn.Key), len(sn.Value), len(sn.Link)
	return out, nil
}
