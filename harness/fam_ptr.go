package main

import (
	"fmt"
	"math/rand"
	"os"
	"runtime/debug"
	"sort"
	"strings"

	"github.com/jrhy/mast"
)

// Family `ptr`: the tie of the object-level model (lean/Mastverif/Model/Ptr.lean).
//
// After EVERY operation the object graph of every live tree and of the node cache is rendered in
// a canonical form (objects numbered in first-visit order over all trees, flags, source name,
// entries, links; persisted children by their real names) and compared with the graph the model
// computes for the same history.  A difference in a single flag of a single object — a node not
// copied before it is written, a copy that is not marked dirty, a committed node that is not
// marked shared, a parent that keeps a pointer where the code prunes — shows up in the operation
// that makes it, not when (and if) it later corrupts somebody's contents.

// measured over a run: operations with an injected load failure, how many of them returned an
// error, and how many of those left the tree changed (the recorded C12 findings)
var ptrFaultOps, ptrFaultErrs, ptrFaultChanged int

type ptrExec struct {
	*Session
	last     string
	lastK    int
	tickSkew int // store loads made by the harness itself (counting runs), unknown to the model
}

func (p *ptrExec) ModelLine(line string) string {
	t := strings.Fields(line)
	if len(t) > 2 && t[0] == "pfailr" {
		return fmt.Sprintf("pfail %d %s", p.lastK, strings.Join(t[2:], " "))
	}
	return p.Session.ModelLine(line)
}

func ptrExecutor(c Cfg) Executor {
	return &ptrExec{Session: NewSession(c), last: "-"}
}

var ptrRunner = Runner{Mk: ptrExecutor, Norm: func(line, obs string) string {
	if strings.HasPrefix(line, "pfail") {
		return "" // the functional model knows no faults: only the following pgraph is compared
	}
	return obs
}}

func (p *ptrExec) Exec(line string) (obs, viol string) {
	t := strings.Fields(line)
	if len(t) == 0 {
		return "bad-op", ""
	}
	switch t[0] {
	case "pnew":
		// pnew <slot> <cache 0|1>: `new`, and the model switches its object-level part on
		line = "new " + t[1]
		t = strings.Fields(line)
	case "plinks":
		// plinks <old> <new>: DiffLinks between two live trees; the link events (a name, or *obj for
		// an in-memory node object) are compared with the object-level model through `last`
		var o, n int
		fmt.Sscan(t[1], &o)
		fmt.Sscan(t[2], &n)
		old, nw := p.Trees[o], p.Trees[n]
		if old == nil || nw == nil {
			return "bad-op", ""
		}
		var evs []string
		err := nw.DiffLinks(p.ctx, old, func(rem bool, link interface{}) (bool, error) {
			name, ok := link.(string)
			if !ok {
				name = "*obj"
			}
			if rem {
				evs = append(evs, "-"+name)
			} else {
				evs = append(evs, "+"+name)
			}
			return true, nil
		})
		if err != nil {
			p.last = "err"
			return "bad-op", "DiffLinks failed on a healthy store: " + err.Error()
		}
		p.last = "ok:" + strings.Join(evs, ",")
		return "bad-op", ""
	case "pgraph":
		return p.pgraph(), ""
	case "ptick":
		// the number of store loads so far: the model counts them in `PS.tick`
		return fmt.Sprint(p.Store.TotalLoads - p.tickSkew), ""
	case "pfail", "pfailr":
		// pfail <k> <op...>: the k-th store load of the operation fails (1-based); the outcome is
		// compared through the next pgraph (the model predicts the state an error leaves behind)
		var k int
		fmt.Sscan(t[1], &k)
		if t[0] == "pfailr" {
			// k = 1 + (r mod the number of store loads the operation performs), counted on a throwaway
			// clone when there is no cache (with a cache the count run would warm it)
			k = 1 + k%3
			var slot int
			if len(t) >= 4 {
				fmt.Sscan(t[3], &slot)
			}
			if m := p.Trees[slot]; m != nil && p.Cache == nil && (t[2] == "ins" || t[2] == "del" || t[2] == "get" || t[2] == "iter" || t[2] == "seek") {
				var r int
				fmt.Sscan(t[1], &r)
				before := p.Store.TotalLoads
				if c, err := m.Clone(p.ctx); err == nil {
					saveT, saveO := p.Trees[slot], p.Oracle[slot]
					p.Trees[slot], p.Oracle[slot] = &c, copyMap(saveO)
					p.Store.ResetTraffic()
					p.Session.Exec(strings.Join(t[2:], " "))
					n := len(p.Store.Loads)
					p.Trees[slot], p.Oracle[slot] = saveT, saveO
					if n > 0 {
						k = 1 + r%n
					}
				}
				p.tickSkew += p.Store.TotalLoads - before
			}
		}
		p.lastK = k
		p.Store.ResetTraffic()
		p.Store.FailLoad = func(n int, name string) error {
			if n == k-1 {
				return errInjected
			}
			return nil
		}
		line = strings.Join(t[2:], " ")
		t = t[2:]
		ptrFaultOps++
		var szBefore uint64
		var slot = -1
		if len(t) >= 2 {
			fmt.Sscan(t[1], &slot)
			if m := p.Trees[slot]; m != nil {
				szBefore = m.Size()
			}
		}
		defer func() {
			p.Store.FailLoad = nil
			viol = ""
			if os.Getenv("VERIF_PTR_DEBUG") != "" {
				fmt.Fprintf(os.Stderr, "pfail k=%d cache=%s loads=%d %s -> %.60s\n", k, p.Cfg.Cache, len(p.Store.Loads), line, obs)
			}
			if strings.HasPrefix(obs, "err other") {
				ptrFaultErrs++
				if m := p.Trees[slot]; m != nil && m.Size() != szBefore {
					ptrFaultChanged++
				}
			}
		}()
	}
	obs, viol = p.Session.Exec(line)
	switch t[0] {
	case "new", "ins", "del", "get", "iter", "seek", "diff", "clone", "root", "roots", "load", "cur", "cmin", "cmax", "cfwd", "cbwd", "cceil":
		switch {
		case obs == "bad-slot" || obs == "bad-op":
		case strings.HasPrefix(obs, "err"):
			p.last = "err"
		case strings.HasPrefix(obs, "panic"):
			p.last = "panic"
		default:
			p.last = "ok"
		}
	}
	return obs, viol
}

type pgDump struct {
	seen  map[uintptr]int
	nodes map[uintptr]mast.VerifNode
	out   []string
	s     *Session
}

func (d *pgDump) link(l mast.VerifLink) string {
	switch l.Kind {
	case "nil":
		return "n"
	case "name":
		return "r" + l.Name
	case "ptr":
		if i, ok := d.seen[l.ID]; ok {
			return fmt.Sprintf("p%d", i)
		}
		i := len(d.seen)
		d.seen[l.ID] = i
		n, ok := d.nodes[l.ID]
		if !ok {
			return fmt.Sprintf("p%d!dangling", i)
		}
		slot := len(d.out)
		d.out = append(d.out, "")
		ls := make([]string, len(n.Links))
		for j, c := range n.Links {
			ls[j] = d.link(c)
		}
		ks := make([]uint64, len(n.Keys))
		for j := range n.Keys {
			ks[j] = d.s.Cfg.KeyNat(n.Keys[j])
		}
		vs := make([]uint64, len(n.Values))
		for j := range n.Values {
			vs[j] = d.s.Cfg.ValNat(n.Values[j])
		}
		b := func(x bool) string {
			if x {
				return "1"
			}
			return "0"
		}
		src := "-"
		if n.HasSource {
			src = n.Source
		}
		d.out[slot] = fmt.Sprintf("%d/%s%s/%s/%s/%s/%s", i, b(n.Shared), b(n.Dirty), src, natList(ks), natList(vs), strings.Join(ls, ","))
		return fmt.Sprintf("p%d", i)
	}
	return "?"
}

// pgraph renders the object graph of all trees and of the cache (see Mastverif/Model/PtrDriver.lean).
func (p *ptrExec) pgraph() string {
	s := p.Session
	d := &pgDump{seen: map[uintptr]int{}, nodes: map[uintptr]mast.VerifNode{}, s: s}
	slots := make([]int, 0, len(s.Trees))
	for k := range s.Trees {
		slots = append(slots, k)
	}
	sort.Ints(slots)
	roots := map[int]mast.VerifLink{}
	for _, sl := range slots {
		r, nodes := mast.VerifDump(s.Trees[sl])
		roots[sl] = r
		for _, n := range nodes {
			d.nodes[n.ID] = n
		}
	}
	type centry struct {
		name string
		node *mast.VerifNode
	}
	var cents []centry
	if rc, ok := s.Cache.(*recCache); ok {
		for k, v := range rc.seen {
			if vn := mast.VerifCachedNode(v); vn != nil {
				d.nodes[vn.ID] = *vn
				name := k
				if i := strings.LastIndex(k, "/"); i >= 0 {
					name = k[i+1:]
				}
				cents = append(cents, centry{name, vn})
			}
		}
		sort.Slice(cents, func(i, j int) bool { return cents[i].name < cents[j].name })
	}
	// cursors: each has a tree of its own (the clone made by Cursor()) and a path of node objects
	cids := make([]int, 0, len(s.curs))
	for c := range s.curs {
		cids = append(cids, c)
	}
	sort.Ints(cids)
	type curDump struct {
		m    *mast.Mast
		root mast.VerifLink
		path []mast.VerifPathEntry
	}
	curDumps := map[int]curDump{}
	for _, c := range cids {
		cm, path := mast.VerifCursor(s.curs[c].c)
		r, nodes := mast.VerifDump(cm)
		for _, n := range nodes {
			d.nodes[n.ID] = n
		}
		for _, pe := range path {
			d.nodes[pe.Node.ID] = pe.Node
		}
		curDumps[c] = curDump{cm, r, path}
	}
	var parts []string
	for _, sl := range slots {
		m := s.Trees[sl]
		before := len(d.out)
		r := d.link(roots[sl])
		ga, sb := mast.VerifThresholds(m)
		parts = append(parts, fmt.Sprintf("T%d:%d,%d,%d,%d,%s{%s}", sl, m.Size(), m.Height(), ga, sb, r, strings.Join(d.out[before:], ";")))
	}
	for _, c := range cids {
		cd := curDumps[c]
		before := len(d.out)
		r := d.link(cd.root)
		var ps []string
		for _, pe := range cd.path {
			ps = append(ps, fmt.Sprintf("%s:%d", d.link(mast.VerifLink{Kind: "ptr", ID: pe.Node.ID}), pe.Index))
		}
		ga, sb := mast.VerifThresholds(cd.m)
		parts = append(parts, fmt.Sprintf("K%d:%d,%d,%d,%d,%s{%s}[%s]", c, cd.m.Size(), cd.m.Height(), ga, sb, r, strings.Join(d.out[before:], ";"), strings.Join(ps, ",")))
	}
	var cparts []string
	for _, c := range cents {
		before := len(d.out)
		r := d.link(mast.VerifLink{Kind: "ptr", ID: c.node.ID})
		if len(d.out) == before {
			cparts = append(cparts, fmt.Sprintf("%s=%s", c.name, r))
		} else {
			cparts = append(cparts, fmt.Sprintf("%s=%s{%s}", c.name, r, strings.Join(d.out[before:], ";")))
		}
	}
	// X: the driver's cross-check of its two models (object-level vs functional) must say ok
	return "last=" + p.last + " " + strings.Join(parts, " ") + " C:" + strings.Join(cparts, ",") + " X:ok"
}

// genPtrCase: up to 5 live trees derived from one another by Clone and MakeRoot+LoadMast, with
// inserts, updates, deletes (biased towards high-layer keys: merges and height reductions),
// lookups and full iterations (which fill the cache) interleaved on any of them.
func genPtrCase(r *rand.Rand, cfg Cfg) Case {
	cfg.Cache = pick(r, []string{"none", "recbig"})
	if r.Intn(2) == 0 {
		cfg.BF = pick(r, []uint{2, 2, 3, 4})
	}
	uni := Universe(r, cfg, 4+r.Intn(40))
	pn := "pnew 0 0"
	if cfg.Cache == "recbig" {
		pn = "pnew 0 1"
	}
	ops := []string{pn, "pgraph"}
	slots := []int{0}
	has := map[int]bool{0: true}
	live := map[int]map[uint64]uint64{0: {}}
	rootMaps := map[int]map[uint64]uint64{}
	nroot := 0
	ncur := 0
	n := 10 + r.Intn(70)
	for i := 0; i < n; i++ {
		s := pick(r, slots)
		m := live[s]
		x := r.Intn(100)
		switch {
		case x < 42:
			k, v := pick(r, uni), uint64(r.Intn(3))
			m[k] = v
			ops = append(ops, opIns(s, k, v))
		case x < 64:
			var ks []uint64
			for _, u := range uni {
				if _, ok := m[u]; ok {
					ks = append(ks, u)
				}
			}
			if len(ks) == 0 || r.Intn(8) == 0 {
				// absent key / wrong value
				k := pick(r, uni)
				v, ok := m[k]
				if ok {
					v += 5
				}
				ops = append(ops, opDel(s, k, v))
				break
			}
			k := pick(r, ks)
			if r.Intn(3) == 0 {
				for _, u := range ks {
					if cfg.RefLayer(u) > cfg.RefLayer(k) {
						k = u
					}
				}
			}
			ops = append(ops, opDel(s, k, m[k]))
			delete(m, k)
			if r.Intn(2) == 0 {
				ops = append(ops, fmt.Sprintf("stat %d", s)) // IsDirty right after a delete (C13)
			}
		case x < 68 && ncur > 0 && r.Intn(2) == 0:
			// a move of an open cursor (the tree it was opened on may have been modified since:
			// the cursor works on its own clone)
			// (Min / Max / Ceil in the middle of a walk are relative to the position: placements
			// only follow Cursor())
			c := r.Intn(ncur)
			if r.Intn(2) == 0 {
				ops = append(ops, fmt.Sprintf("cfwd %d", c))
			} else {
				ops = append(ops, fmt.Sprintf("cbwd %d", c))
			}
		case x < 66 && ncur < 3 && r.Intn(3) == 0:
			// Cursor() and a placement
			ops = append(ops, fmt.Sprintf("cur %d %d", s, ncur), "pgraph", "ptick")
			switch r.Intn(3) {
			case 0:
				ops = append(ops, fmt.Sprintf("cmin %d", ncur))
			case 1:
				ops = append(ops, fmt.Sprintf("cmax %d", ncur))
			default:
				ops = append(ops, fmt.Sprintf("cceil %d %d", ncur, pick(r, uni)))
			}
			ncur++
		case x < 70:
			ops = append(ops, fmt.Sprintf("get %d %d", s, pick(r, uni)))
		case x < 73:
			if len(slots) > 1 && r.Intn(4) == 0 {
				ops = append(ops, fmt.Sprintf("plinks %d %d", pick(r, slots), s))
			} else if len(slots) > 1 && r.Intn(3) == 0 {
				// DiffIter between two live trees (clones, reloads, modified copies: any sharing of
				// node objects between them)
				o := pick(r, slots)
				ops = append(ops, fmt.Sprintf("diff %d %d", o, s))
			} else if r.Intn(2) == 0 {
				ops = append(ops, fmt.Sprintf("seek %d %d", s, pick(r, uni)))
			} else {
				ops = append(ops, fmt.Sprintf("iter %d", s))
			}
		case x < 80:
			d := r.Intn(5)
			ops = append(ops, fmt.Sprintf("clone %d %d", s, d))
			live[d] = copyMap(m)
			if !has[d] {
				has[d] = true
				slots = append(slots, d)
			}
		case x < 91:
			ops = append(ops, fmt.Sprintf("root %d %d", s, nroot))
			rootMaps[nroot] = copyMap(m)
			nroot++
		default:
			if nroot == 0 {
				continue
			}
			ri := r.Intn(nroot)
			d := r.Intn(5)
			ops = append(ops, fmt.Sprintf("load %d %d", ri, d))
			live[d] = copyMap(rootMaps[ri])
			if !has[d] {
				has[d] = true
				slots = append(slots, d)
			}
		}
		ops = append(ops, "pgraph", "ptick")
	}
	if r.Intn(3) != 0 {
		// last operation of the case: an insert / delete / lookup / iteration / clone / persist whose
		// k-th store load fails (the model predicts what the failed call leaves behind)
		s := pick(r, slots)
		m := live[s]
		if nroot > 0 && r.Intn(4) != 0 {
			// operate on a tree freshly loaded from a persisted root: its nodes are in the store
			ri := r.Intn(nroot)
			for j := 0; j < nroot; j++ {
				if len(rootMaps[j]) > len(rootMaps[ri]) && r.Intn(2) == 0 {
					ri = j // prefer the larger versions
				}
			}
			ops = append(ops, fmt.Sprintf("load %d 4", ri), "pgraph")
			s, m = 4, copyMap(rootMaps[ri])
			if r.Intn(2) == 0 {
				// ... and modified a little: the upper nodes are then private, dirty copies with
				// persisted children below them (an in-place edit before a failing load would show)
				for j := 0; j < 1+r.Intn(4); j++ {
					k := pick(r, uni)
					if v, ok := m[k]; ok && r.Intn(2) == 0 {
						ops = append(ops, opDel(4, k, v), "pgraph")
						delete(m, k)
					} else {
						v := uint64(3 + r.Intn(2))
						ops = append(ops, opIns(4, k, v), "pgraph")
						m[k] = v
					}
				}
			}
		}
		var op string
		switch r.Intn(6) {
		case 0, 1:
			op = opIns(s, pick(r, uni), uint64(7+r.Intn(2)))
		case 2, 3:
			var ks []uint64
			for _, u := range uni {
				if _, ok := m[u]; ok {
					ks = append(ks, u)
				}
			}
			if len(ks) == 0 {
				op = opIns(s, pick(r, uni), 7)
				break
			}
			k := pick(r, ks)
			if r.Intn(2) == 0 {
				for _, u := range ks {
					if cfg.RefLayer(u) > cfg.RefLayer(k) {
						k = u
					}
				}
			}
			op = opDel(s, k, m[k])
		case 4:
			op = pick(r, []string{fmt.Sprintf("get %d %d", s, pick(r, uni)), fmt.Sprintf("iter %d", s), fmt.Sprintf("seek %d %d", s, pick(r, uni)), fmt.Sprintf("diff %d %d", pick(r, slots), s)})
		default:
			op = pick(r, []string{fmt.Sprintf("clone %d %d", s, r.Intn(5)), fmt.Sprintf("root %d %d", s, nroot)})
		}
		if r.Intn(4) == 0 {
			// a cursor opened on that tree, placed, and a move whose k-th load fails; the same move
			// once more (a failed Forward / Backward leaves the cursor where it was)
			c := ncur
			place := pick(r, []string{fmt.Sprintf("cmin %d", c), fmt.Sprintf("cmax %d", c), fmt.Sprintf("cceil %d %d", c, pick(r, uni))})
			ops = append(ops, fmt.Sprintf("cur %d %d", s, c), "pgraph")
			if r.Intn(2) == 0 {
				// the placement itself with a failing k-th load: it leaves the path walked so far (compared
				// through pgraph), and the same placement called again resumes from there
				// (C12_failed_placement_resumes)
				ops = append(ops, fmt.Sprintf("pfail %d %s", pick(r, []int{1, 1, 1, 2, 2, 3}), place), "pgraph", "ptick")
			}
			ops = append(ops, place, "pgraph")
			mv := pick(r, []string{"cfwd", "cbwd"})
			for j := 0; j < r.Intn(4); j++ {
				ops = append(ops, fmt.Sprintf("%s %d", mv, c), "pgraph")
			}
			mv = pick(r, []string{"cfwd", "cbwd"})
			ops = append(ops, fmt.Sprintf("pfailr %d %s %d", r.Intn(1000), mv, c), "pgraph", "ptick", fmt.Sprintf("%s %d", mv, c), "pgraph", "ptick")
			return Case{cfg, ops}
		}
		ops = append(ops, fmt.Sprintf("pfailr %d %s", r.Intn(1000), op), "pgraph", "ptick")
	}
	return Case{cfg, ops}
}

func famPtr(f *FamCtx) {
	debug.SetGCPercent(-1) // object addresses identify objects
	f.Report.Rule = "up to 5 live trees derived from one another by Clone and by MakeRoot+LoadMast, inserts / updates / deletes (biased to high-layer keys) / lookups / iterations interleaved on any of them, without a cache and with a large recording cache; after EVERY operation the object graph of all trees and of the cache (flags dirty / shared, source name, entries, links, size, height, thresholds) must equal the graph computed by the object-level Lean model (Model/Ptr.lean), objects numbered in first-visit order, names compared as real BLAKE2b names; non-trivial = reached height >= 1 and changed height"
	f.Gen = func() Case { return genPtrCase(f.Rand, RandCfg(f.Rand)) }
	n := f.N(150, 5000)
	for i := 0; i < n; i++ {
		f.RunTreeCase(f.Gen(), ptrRunner, multiLevel)
	}
	if f.Report.Stats == nil {
		f.Report.Stats = map[string]interface{}{}
	}
	f.Report.Stats["ops_with_injected_load_failure"] = ptrFaultOps
	f.Report.Stats["of_those_returned_the_injected_error"] = ptrFaultErrs
	f.Report.Stats["of_those_left_a_changed_size"] = ptrFaultChanged
}
