package main

import (
	"encoding/json"
	"errors"
	"fmt"
	"math/rand"
	"strings"

	"github.com/jrhy/mast"
)

var errInjected = errors.New("injected fault")

type knownHit struct{ line, viol string }

// occurrences of recorded known findings met (and stepped over) during this run
var knownHits []knownHit

// faultSession: a Session whose trees are configured with a counting / failing KeyCompare and
// whose store can fail the n-th Load.
type faultSession struct {
	*Session
	cmpCount    int
	cmpFail     int // index of the comparison that fails, -1 = none
	aborted     bool
	lastObs     string
	positions   int
	marCount    int
	marFail     int
	unmCount    int
	unmFail     int // index of the Unmarshal callback call that fails, -1 = none
	lastErr     string
	lastViol    string
	interrupted string // model line of a Delete kept in its interrupted state
	kfSeen      int
	// noRetryApplied: the last faultnoretry op was applied after all (fault not reached / swallowed)
	noRetryApplied bool
}

func newFaultSession(c Cfg) *faultSession {
	fs := &faultSession{Session: NewSession(c), cmpFail: -1}
	fs.marFail = -1
	base := fs.Session.marshal
	if base == nil {
		base = json.Marshal
	}
	fs.Session.marshal = func(v interface{}) ([]byte, error) {
		n := fs.marCount
		fs.marCount++
		if n == fs.marFail {
			return nil, errInjected
		}
		return base(v)
	}
	fs.unmFail = -1
	ubase := fs.Session.unmarshal
	if ubase == nil {
		ubase = json.Unmarshal
	}
	if !c.RegMode() { // (registered-types decoding hands the whole node to the callback: left alone)
		fs.Session.unmarshal = func(b []byte, v interface{}) error {
			n := fs.unmCount
			fs.unmCount++
			if n == fs.unmFail {
				return errInjected
			}
			return ubase(b, v)
		}
	}
	def := mast.DefaultKeyCompare(fs.Session.marshal)
	fs.Session.keyCompare = func(a, b interface{}) (int, error) {
		n := fs.cmpCount
		fs.cmpCount++
		if n == fs.cmpFail {
			return 0, errInjected
		}
		return def(a, b)
	}
	return fs
}

func (fs *faultSession) snapshot(slot int) string {
	m := fs.Trees[slot]
	if m == nil {
		return "none"
	}
	l, err := fs.iterList(m)
	if err != nil {
		return "iter-error:" + err.Error()
	}
	return fmt.Sprintf("%s size=%d height=%d", l, m.Size(), m.Height())
}

func (fs *faultSession) Exec(line string) (obs, viol string) {
	if fs.aborted {
		fs.lastObs = "skipped"
		return "skipped", ""
	}
	t := strings.Fields(line)
	if t[0] == "faultall" {
		// faultall <load|cmp> <op...>: every individual fault position of this operation, in turn,
		// on the same tree; the run in which the position is beyond the operation's last call is
		// the fault-free retry, whose result is compared with the model
		kind := t[1]
		op := strings.Join(t[2:], " ")
		slot := fs.slotOf(t[2:])
		var backup *mast.Mast
		if m := fs.Trees[slot]; m != nil {
			if c, err := m.Clone(fs.ctx); err == nil {
				backup = &c
			}
		}
		for idx := 0; idx < 500; idx++ {
			fs.interrupted = ""
			heightBefore := -1
			if m := fs.Trees[slot]; m != nil {
				heightBefore = int(m.Height())
			}
			before := fs.snapshot(slot)
			oracleBefore := copyMap(fs.Oracle[slot])
			o1, hit := fs.runWithFault(kind, idx, op)
			fs.positions++
			if !hit {
				fs.lastObs = o1
				return o1, fs.lastViol
			}
			if strings.HasPrefix(o1, "panic") {
				fs.aborted = true
				fs.lastObs = "panic-abort"
				return "panic-abort", ""
			}
			if v := fs.Session.faultReadsViol; v != "" {
				fs.Session.faultReadsViol = ""
				fs.aborted = true
				fs.lastObs = "state-changed"
				return "state-changed", v
			}
			if !strings.HasPrefix(o1, "err") {
				// fault swallowed, call succeeded: result compared with the model, and the
				// operation's own oracle applies to what it returned
				fs.lastObs = o1
				if fs.lastViol != "" {
					return o1, fmt.Sprintf("with call %d of kind %s failing once the call succeeded, and: %s", idx, kind, fs.lastViol)
				}
				return o1, ""
			}
			fs.Oracle[slot] = oracleBefore
			if after := fs.snapshot(slot); after != before {
				viol = fs.describeChange(t[2:], kind, idx, op, before, after, oracleBefore)
				if strings.HasPrefix(viol, "KF-delete-shrink: ") && fs.keepInterrupted(t[2:], heightBefore, slot, oracleBefore) {
					// the recorded known finding, and the history goes on FROM the state it leaves (a
					// consistent tree that is taller than its entries warrant: an entry-less top node
					// over a child, or fewer entries than the height asks for); the model follows
					knownHits = append(knownHits, knownHit{line, viol})
					return fs.lastObs, ""
				}
				if (strings.HasPrefix(viol, "KF-delete-shrink: ") || strings.HasPrefix(viol, "KF-insert-grow-layer: ")) && backup != nil {
					// the recorded known finding: note it once, put the tree back as it was and go on
					// with the fault-free call, so that the rest of the history is still exercised
					knownHits = append(knownHits, knownHit{line, viol})
					fs.Trees[slot] = backup
					o2, v2 := fs.Session.Exec(op)
					fs.lastObs = o2
					return o2, v2
				}
				fs.aborted = true
				fs.lastObs = "state-changed"
				return "state-changed", viol
			}
		}
		return "too-many-calls", "operation makes more than 500 fallible calls"
	}
	if t[0] == "faultnoretry" {
		// faultnoretry <kind> <i> <op...>: the op with its i-th fallible call failing, and NO retry:
		// what follows (stat, MakeRoot) sees the tree as the failed call left it.  Whether a failed
		// call may change contents is C12's business (family `faults`); here a change just ends the case.
		kind := t[1]
		var idx int
		fmt.Sscan(t[2], &idx)
		op := strings.Join(t[3:], " ")
		slot := fs.slotOf(t[3:])
		before := fs.snapshot(slot)
		oracleBefore := copyMap(fs.Oracle[slot])
		o1, hit := fs.runWithFault(kind, idx, op)
		fs.positions++
		if !hit || !strings.HasPrefix(o1, "err") {
			// the operation did not get that far, or swallowed the fault: it has been applied
			fs.noRetryApplied = true
			fs.lastObs = o1
			return o1, ""
		}
		fs.noRetryApplied = false
		fs.Oracle[slot] = oracleBefore
		if after := fs.snapshot(slot); after != before {
			fs.aborted = true
		}
		fs.lastObs = "failed-noretry"
		return "failed-noretry", ""
	}
	if t[0] != "fault" {
		fs.interrupted = ""
		obs, viol = fs.Session.Exec(line)
		fs.lastObs = obs
		return
	}
	// fault <load|cmp> <i> <op...>
	kind := t[1]
	var idx int
	fmt.Sscan(t[2], &idx)
	op := strings.Join(t[3:], " ")
	slot := fs.slotOf(t[3:])
	var backup *mast.Mast
	if m := fs.Trees[slot]; m != nil {
		if c, err := m.Clone(fs.ctx); err == nil {
			backup = &c
		}
	}
	fs.interrupted = ""
	heightBefore1 := -1
	if m := fs.Trees[slot]; m != nil {
		heightBefore1 = int(m.Height())
	}
	before := fs.snapshot(slot)
	oracleBefore := copyMap(fs.Oracle[slot])
	o1, hit := fs.runWithFault(kind, idx, op)
	fs.positions++
	if !hit {
		fs.lastObs = o1
		return o1, ""
	}
	if strings.HasPrefix(o1, "panic") {
		fs.aborted = true
		fs.lastObs = "panic-abort"
		return "panic-abort", ""
	}
	if !strings.HasPrefix(o1, "err") {
		// fault swallowed (or retried inside the call), the call succeeded: the operation's own
		// oracle applies to what it returned
		fs.lastObs = o1
		if fs.lastViol != "" {
			return o1, fmt.Sprintf("with call %d of kind %s failing once the call succeeded, and: %s", idx, kind, fs.lastViol)
		}
		return o1, ""
	}
	fs.Oracle[slot] = oracleBefore
	if after := fs.snapshot(slot); after != before {
		viol = fs.describeChange(t[3:], kind, idx, op, before, after, oracleBefore)
		if strings.HasPrefix(viol, "KF-delete-shrink: ") && fs.keepInterrupted(t[3:], heightBefore1, slot, oracleBefore) {
			knownHits = append(knownHits, knownHit{line, viol})
			return fs.lastObs, ""
		}
		if (strings.HasPrefix(viol, "KF-delete-shrink: ") || strings.HasPrefix(viol, "KF-insert-grow-layer: ")) && backup != nil {
			knownHits = append(knownHits, knownHit{line, viol})
			fs.Trees[slot] = backup
			o2, v2 := fs.Session.Exec(op)
			fs.lastObs = o2
			return o2, v2
		}
		fs.aborted = true
		fs.lastObs = "state-changed"
		return "state-changed", viol
	}
	o2, v2 := fs.Session.Exec(op)
	fs.lastObs = o2
	if v2 != "" {
		return o2, "retry after the fault cleared: " + v2
	}
	return o2, ""
}

// keepInterrupted: after a Delete that failed in its height reduction, keep the tree as the call
// left it (every second time), tell the model how many shrink steps had completed, and bring the
// oracle up to date.  The observation is "kf-del <size> <height>", which the model must give too.
func (fs *faultSession) keepInterrupted(op []string, heightBefore, slot int, oracleBefore map[uint64]uint64) bool {
	m := fs.Trees[slot]
	if m == nil || heightBefore < 0 || op[0] != "del" {
		return false
	}
	fs.kfSeen++
	if fs.kfSeen%2 == 0 {
		return false
	}
	var k uint64
	fmt.Sscan(op[2], &k)
	exp := copyMap(oracleBefore)
	delete(exp, k)
	fs.Oracle[slot] = exp
	fs.noteModified(slot, k)
	steps := heightBefore - int(m.Height())
	fs.interrupted = fmt.Sprintf("delns %s %s %s %d", op[1], op[2], op[3], steps)
	fs.lastObs = fmt.Sprintf("kf-del %d %d", m.Size(), m.Height())
	return true
}

// slotOf: the tree whose state an operation can change (its first slot argument)
func (fs *faultSession) slotOf(op []string) int {
	var slot int
	if len(op) >= 2 {
		fmt.Sscan(op[1], &slot)
	}
	return slot
}

// runWithFault runs op with the idx-th call of the given kind failing; hit tells whether the
// operation got that far.
func (fs *faultSession) runWithFault(kind string, idx int, op string) (string, bool) {
	hit := false
	switch kind {
	case "load":
		fs.Store.ResetTraffic()
		fs.Store.FailLoad = func(n int, name string) error {
			if n == idx {
				hit = true
				return errInjected
			}
			return nil
		}
	case "cmp":
		fs.cmpCount = 0
		fs.cmpFail = idx
	case "mar":
		fs.marCount = 0
		fs.marFail = idx
	case "unm":
		fs.unmCount = 0
		fs.unmFail = idx
	}
	fs.Session.transientFault = true
	fs.Session.faultReadsViol = ""
	o1, v1 := fs.Session.Exec(op)
	fs.Session.transientFault = false
	fs.lastErr = o1
	fs.lastViol = v1
	fs.Store.FailLoad = nil
	if kind == "cmp" {
		hit = fs.cmpCount > idx
		fs.cmpFail = -1
	}
	if kind == "mar" {
		hit = fs.marCount > idx
		fs.marFail = -1
	}
	if kind == "unm" {
		hit = fs.unmCount > idx
		fs.unmFail = -1
	}
	return o1, hit
}

func (fs *faultSession) describeChange(op []string, kind string, idx int, opline, before, after string, oracleBefore map[uint64]uint64) string {
	viol := fmt.Sprintf("%s returned an error (%s) after call %d of kind %s failed, and the tree changed: before %s, after %s", opline, fs.lastErr, idx, kind, before, after)
	if op[0] == "ins" && strings.HasPrefix(after, "[") && (strings.Contains(fs.lastErr, "canGrow:") || strings.Contains(fs.lastErr, "grow:")) {
		// recognise: the entry is in, the size was not incremented, the layer computation of the
		// growth step failed
		var k, v uint64
		fmt.Sscan(op[2], &k)
		fmt.Sscan(op[3], &v)
		exp := copyMap(oracleBefore)
		exp[k] = v
		if strings.HasPrefix(after, sortedList(exp)+" size="+fmt.Sprint(len(oracleBefore))+" ") {
			viol = "KF-insert-grow-layer: " + viol
		}
	}
	if op[0] == "del" && strings.HasPrefix(after, "[") && strings.Contains(fs.lastErr, "shrink:") {
		// recognise the known shape: the entry is gone, the size is one less, only the height reduction failed
		var k uint64
		fmt.Sscan(op[2], &k)
		exp := copyMap(oracleBefore)
		delete(exp, k)
		if strings.HasPrefix(after, sortedList(exp)+" size="+fmt.Sprint(len(exp))+" ") {
			viol = "KF-delete-shrink: " + viol
		}
	}
	return viol
}

func (fs *faultSession) ModelLine(line string) string {
	t := strings.Fields(line)
	if fs.lastObs == "skipped" || fs.lastObs == "panic-abort" || fs.lastObs == "state-changed" {
		return "echo " + fs.lastObs
	}
	if (t[0] == "fault" || t[0] == "faultall") && fs.interrupted != "" {
		return fs.interrupted
	}
	if t[0] == "faultnoretry" {
		if fs.noRetryApplied {
			return fs.Session.ModelLine(strings.Join(t[3:], " "))
		}
		return "echo failed-noretry"
	}
	if t[0] == "fault" {
		return fs.Session.ModelLine(strings.Join(t[3:], " "))
	}
	if t[0] == "faultall" {
		return fs.Session.ModelLine(strings.Join(t[2:], " "))
	}
	return fs.Session.ModelLine(line)
}

// genInterruptedDeleteCase: a persisted tree whose height hangs on few top-layer keys; one of
// them is deleted with every load position failing in turn — the position inside the height
// reduction leaves the recorded finding's state (entry gone, tree taller than warranted), which
// the session keeps — and the history goes on from there: diffs in both directions, iteration,
// cursor walks, lookups, clone, persist + reload, further updates.
func genInterruptedDeleteCase(r *rand.Rand, cfg Cfg) Case {
	cfg = noCache(cfg)
	cfg.KK = "vk"
	vk := func(id, layer int) uint64 { return uint64(id)<<8 | uint64(layer) }
	h := 1 + r.Intn(2)
	var keys []uint64
	top := vk(500+r.Intn(3)*400, h) // left of, inside, or right of the other keys
	keys = append(keys, top)
	for i := 0; i < 3+r.Intn(10); i++ {
		l := 0
		if h == 2 && r.Intn(4) == 0 {
			l = 1
		}
		keys = append(keys, vk(600+i*7, l))
	}
	victim, tv := top, 1
	var pre []string
	switch r.Intn(3) {
	case 0:
		// the top node (and so the whole path of the delete) is already a private, dirty node
		pre = []string{opIns(0, top, 2), opIns(0, keys[1], 3), opIns(0, keys[1], 1)}
		tv = 2
	case 1:
		// the other way to a height reduction: the size falls to bf^height.  bf^h + 1 entries, one
		// of the top layer in the middle; the victim is a leaf entry whose path is already private
		// and dirty, the top node's other child is still only in the store (the reduction loads it)
		cfg.BF = pick(r, []uint{2, 3, 4})
		n := 1
		for i := 0; i < h; i++ {
			n *= int(cfg.BF)
		}
		keys = []uint64{vk(500, h)}
		for i := 0; i < n; i++ {
			id := 100 + 10*i
			if i >= n/2 {
				id = 600 + 10*i
			}
			keys = append(keys, vk(id, 0))
		}
		top = keys[0]
		victim = keys[1]
		pre = []string{opIns(0, victim, 2)}
		tv = 2
	}
	ops := []string{"new 0"}
	for _, k := range keys {
		ops = append(ops, opIns(0, k, 1))
	}
	ops = append(ops, "root 0 0", "load 0 0", "load 0 2")
	ops = append(ops, pre...)
	ops = append(ops, fmt.Sprintf("faultall load del 0 %d %d", victim, tv),
		"stat 0", "iter 0", "diff 2 0", "diff 0 2", fmt.Sprintf("get 0 %d", keys[2]), fmt.Sprintf("cwalk 0 %d ffb", keys[2]),
		fmt.Sprintf("seek 0 %d", keys[2]), "clone 0 3", "iter 3", "diff 2 3", "roots 0 1", "pshape 1", "load 1 4", "iter 4", "stat 4", "diff 2 4",
		// the version just persisted has the shape an earlier release leaves (taller than warranted):
		// loaded and persisted again unmodified it writes nothing and returns the same root
		"roots 4 5", "stat 4", "load 5 6", "iter 6")
	if r.Intn(2) == 0 {
		ops = append(ops, opIns(0, vk(601, 0), 2), "iter 0", opDel(0, keys[2], 1), "iter 0", "stat 0", "root 0 2", "load 2 4", "iter 4")
	}
	return Case{cfg, ops}
}

func genFaultCase(r *rand.Rand, cfg Cfg) Case {
	if r.Intn(6) == 0 {
		return genInterruptedDeleteCase(r, cfg)
	}
	// one case in four runs over a node cache that is cold when the version is read back: a load
	// that fails must leave nothing in the cache that the retried call (or another tree) then finds
	cold := r.Intn(4) == 0
	if cold {
		cfg.Cache = pick(r, []string{"big", "tiny"})
	} else {
		cfg = noCache(cfg)
	}
	uni := Universe(r, cfg, 5+r.Intn(50))
	ops := []string{"new 0"}
	live := map[uint64]uint64{}
	for _, i := range r.Perm(len(uni))[:len(uni)*2/3] {
		live[uni[i]] = uint64(r.Intn(3))
		ops = append(ops, opIns(0, uni[i], live[uni[i]]))
	}
	ops = append(ops, "root 0 0")
	if cold {
		ops = append(ops, "coldcache")
	}
	ops = append(ops, "load 0 0", "load 0 2") // slot 2 keeps the first version: the old side of diffs
	nroot := 1
	for i := 0; i < 10+r.Intn(25); i++ {
		if r.Intn(6) == 0 { // back to a fully persisted tree; otherwise partly dirty
			ops = append(ops, fmt.Sprintf("root 0 %d", nroot), fmt.Sprintf("load %d 0", nroot))
			nroot++
		}
		kind := pick(r, []string{"load", "load", "cmp", "unm"})
		if cfg.KK == "sk" {
			kind = pick(r, []string{"load", "cmp", "mar", "mar"}) // struct keys: order and layer go through Marshal
		}
		idx := r.Intn(8)
		if kind == "cmp" || kind == "mar" || kind == "unm" {
			idx = r.Intn(30)
		}
		k := pick(r, uni)
		var op string
		if r.Intn(5) == 0 {
			// navigation calls on ONE cursor, each with a failing load; a call that fails is retried on
			// the same cursor (the fault has cleared) and must then give the normal result
			// (Min / Max / Ceil place a cursor relative to where it stands: only on a fresh cursor)
			place := pick(r, []string{"cmin 7", "cmax 7", fmt.Sprintf("cceil 7 %d", k)})
			ops = append(ops, "cur 0 7", pick(r, []string{"faultall load " + place, "faultall cmp " + place, place}))
			for j := 0; j < 2+r.Intn(6); j++ {
				nav := pick(r, []string{"cfwd 7", "cbwd 7"})
				if r.Intn(3) == 0 {
					ops = append(ops, fmt.Sprintf("fault load %d %s", r.Intn(4), nav))
				} else {
					ops = append(ops, "faultall load "+nav)
				}
			}
			continue
		}
		switch r.Intn(12) {
		case 9:
			op = pick(r, []string{"diff 2 0", "diffcr 2 0"})
		case 10:
			op = pick(r, []string{"diff 0 2", "diffcr 0 2"})
		case 11:
			mv := ""
			for j := 0; j < 1+r.Intn(6); j++ {
				mv += pick(r, []string{"f", "f", "b"})
			}
			op = fmt.Sprintf("cwalk 0 %d %s", k, mv)
		case 0, 1, 2:
			v := uint64(r.Intn(3))
			op = opIns(0, k, v)
			live[k] = v
		case 3, 4:
			var ks []uint64
			for _, u := range uni {
				if _, ok := live[u]; ok {
					ks = append(ks, u)
				}
			}
			if len(ks) == 0 {
				continue
			}
			k = pick(r, ks)
			op = opDel(0, k, live[k])
			delete(live, k)
		case 5:
			op = fmt.Sprintf("get 0 %d", k)
		case 6:
			op = "iter 0"
		case 7:
			op = fmt.Sprintf("seek 0 %d", k)
		default:
			op = "clone 0 1"
		}
		if r.Intn(4) == 0 {
			ops = append(ops, fmt.Sprintf("fault %s %d %s", kind, idx, op))
		} else {
			ops = append(ops, fmt.Sprintf("faultall %s %s", kind, op))
		}
		if r.Intn(3) == 0 {
			ops = append(ops, "iter 0", "stat 0")
		}
	}
	return Case{cfg, ops}
}

var faultRunner = Runner{Mk: func(c Cfg) Executor { return newFaultSession(c) }}

func famFaults(f *FamCtx) {
	f.Sig = func(o Outcome) string {
		if strings.HasPrefix(o.Viol, "KF-delete-shrink: ") {
			return "delete-committed-then-load-failed-during-height-reduction@pub.go:Delete->shrink"
		}
		if strings.HasPrefix(o.Viol, "KF-insert-grow-layer: ") {
			return "insert-committed-then-layer-callback-failed-during-growth@pub.go:Insert->canGrow/grow"
		}
		return ""
	}
	f.Report.Rule = "persisted and partly modified trees without cache; Insert (new / update / equal), Delete, Get, Iter, SeekIter, Clone, DiffIter against the first version (both directions) and cursor walks (Ceil, Forward, Backward) run with the i-th Persist.Load (i < 8) or the i-th KeyCompare call (i < 30) of that operation failing; if the call returns an error the contents, size and height are re-read through the fault-free view (struct keys add the Marshal callback as a third fault kind) and must be unchanged, then the same call is retried and its result compared with the model; a panic (validateNode panics on a failing comparison) ends the case; non-trivial = reached height >= 1 and changed height"
	rn := faultRunner
	f.Gen = func() Case {
		cfg := RandCfg(f.Rand)
		if f.Rand.Intn(5) == 0 {
			// struct keys: order and layer go through the Marshal callback (third fault kind)
			cfg.KK = "sk"
			cfg.BF = pick(f.Rand, []uint{2, 3})
		}
		return genFaultCase(f.Rand, cfg)
	}
	n := f.N(200, 8000)
	reported := map[string]bool{}
	// the witnesses of the recorded findings run first, so that every run meets them
	witnesses := Witnesses("C12")
	witnesses = append(witnesses, f.TakeCorpus()...)
	for i := 0; i < n+len(witnesses); i++ {
		var c Case
		if i < len(witnesses) {
			c = witnesses[i]
		} else {
			c = f.Gen()
		}
		before := len(knownHits)
		f.RunTreeCase(c, rn, multiLevel)
		for _, h := range knownHits[before:] {
			// report each recorded finding once, with the history on which it was first met
			sig := f.Sig(Outcome{Viol: h.viol})
			if !reported[sig] {
				reported[sig] = true
				f.Report.Findings = append(f.Report.Findings, Finding{Family: "faults", Property: "C12", Case: c, Shrunk: c,
					Outcome: Outcome{Kind: "oracle", Line: h.line, Viol: h.viol}, FailingInput: true, Signature: sig})
			}
		}
	}
	f.Report.Stats = map[string]interface{}{"known_finding_occurrences_stepped_over": len(knownHits)}
}
