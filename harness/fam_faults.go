package main

import (
	"errors"
	"fmt"
	"math/rand"
	"strings"

	"github.com/jrhy/mast"
)

var errInjected = errors.New("injected fault")

// faultSession: a Session whose trees are configured with a counting / failing KeyCompare and
// whose store can fail the n-th Load.
type faultSession struct {
	*Session
	cmpCount int
	cmpFail  int // index of the comparison that fails, -1 = none
	aborted  bool
	lastObs  string
}

func newFaultSession(c Cfg) *faultSession {
	fs := &faultSession{Session: NewSession(c), cmpFail: -1}
	def := mast.DefaultKeyCompare(nil)
	fs.Session.keyCompare = func(a, b interface{}) (int, error) {
		n := fs.cmpCount
		fs.cmpCount++
		if n == fs.cmpFail {
			return 0, errInjected
		}
		return def(a, b)
	}
	return fs
}

func (fs *faultSession) snapshot(slot int) string {
	m := fs.Trees[slot]
	if m == nil {
		return "none"
	}
	l, err := fs.iterList(m)
	if err != nil {
		return "iter-error:" + err.Error()
	}
	return fmt.Sprintf("%s size=%d height=%d", l, m.Size(), m.Height())
}

func (fs *faultSession) Exec(line string) (obs, viol string) {
	if fs.aborted {
		fs.lastObs = "skipped"
		return "skipped", ""
	}
	t := strings.Fields(line)
	if t[0] != "fault" {
		obs, viol = fs.Session.Exec(line)
		fs.lastObs = obs
		return
	}
	// fault <load|cmp> <i> <op...>
	kind := t[1]
	var idx int
	fmt.Sscan(t[2], &idx)
	op := strings.Join(t[3:], " ")
	var slot int
	fmt.Sscan(t[4], &slot)
	if t[3] == "diff" || t[3] == "cur" {
		fmt.Sscan(t[len(t)-1], &slot) // the tree whose state could change is the last argument's / none
		if t[3] == "cur" {
			fmt.Sscan(t[4], &slot)
		}
	}
	before := fs.snapshot(slot)
	oracleBefore := copyMap(fs.Oracle[slot])
	hit := false
	switch kind {
	case "load":
		fs.Store.ResetTraffic()
		fs.Store.FailLoad = func(n int, name string) error {
			if n == idx {
				hit = true
				return errInjected
			}
			return nil
		}
	case "cmp":
		fs.cmpCount = 0
		fs.cmpFail = idx
	}
	o1, _ := fs.Session.Exec(op)
	fs.Store.FailLoad = nil
	if kind == "cmp" {
		hit = fs.cmpCount > idx
		fs.cmpFail = -1
	}
	if !hit {
		// the operation makes fewer calls than idx: it ran normally
		fs.lastObs = o1
		return o1, ""
	}
	if strings.HasPrefix(o1, "panic") {
		fs.aborted = true
		fs.lastObs = "panic-abort"
		return "panic-abort", ""
	}
	if !strings.HasPrefix(o1, "err") {
		// the fault was swallowed and the call reported success: C12 says nothing; the result must
		// then be the normal one (compared with the model below)
		fs.lastObs = o1
		return o1, ""
	}
	// the call returned an error: nothing may have changed ...
	fs.Oracle[slot] = oracleBefore
	after := fs.snapshot(slot)
	if after != before {
		viol = fmt.Sprintf("%s returned an error after a failed %s call, and the tree changed: before %s, after %s", op, kind, before, after)
		if t[3] == "del" && strings.HasPrefix(after, "[") {
			// recognise the known shape: the entry is gone, the size is one less, only the height reduction failed
			var k, v uint64
			fmt.Sscan(t[5], &k)
			fmt.Sscan(t[6], &v)
			exp := copyMap(oracleBefore)
			delete(exp, k)
			if strings.HasPrefix(after, sortedList(exp)+" size="+fmt.Sprint(len(exp))+" ") && kind == "load" {
				viol = "KF-delete-shrink: " + viol
			}
		}
		fs.aborted = true
		fs.lastObs = "state-changed"
		return "state-changed", viol
	}
	// ... and the same call must now succeed with the normal result
	o2, v2 := fs.Session.Exec(op)
	fs.lastObs = o2
	if v2 != "" {
		return o2, "retry after the fault cleared: " + v2
	}
	return o2, ""
}

func (fs *faultSession) ModelLine(line string) string {
	t := strings.Fields(line)
	if fs.lastObs == "skipped" || fs.lastObs == "panic-abort" || fs.lastObs == "state-changed" {
		return "echo " + fs.lastObs
	}
	if t[0] == "fault" {
		return fs.Session.ModelLine(strings.Join(t[3:], " "))
	}
	return fs.Session.ModelLine(line)
}

func genFaultCase(r *rand.Rand, cfg Cfg) Case {
	cfg = noCache(cfg)
	uni := Universe(r, cfg, 5+r.Intn(50))
	ops := []string{"new 0"}
	live := map[uint64]uint64{}
	for _, i := range r.Perm(len(uni))[:len(uni)*2/3] {
		live[uni[i]] = uint64(r.Intn(3))
		ops = append(ops, opIns(0, uni[i], live[uni[i]]))
	}
	ops = append(ops, "root 0 0", "load 0 0")
	nroot := 1
	for i := 0; i < 10+r.Intn(25); i++ {
		if r.Intn(6) == 0 { // back to a fully persisted tree; otherwise partly dirty
			ops = append(ops, fmt.Sprintf("root 0 %d", nroot), fmt.Sprintf("load %d 0", nroot))
			nroot++
		}
		kind := pick(r, []string{"load", "load", "cmp"})
		idx := r.Intn(8)
		if kind == "cmp" {
			idx = r.Intn(30)
		}
		k := pick(r, uni)
		var op string
		switch r.Intn(9) {
		case 0, 1, 2:
			v := uint64(r.Intn(3))
			op = opIns(0, k, v)
			live[k] = v
		case 3, 4:
			var ks []uint64
			for _, u := range uni {
				if _, ok := live[u]; ok {
					ks = append(ks, u)
				}
			}
			if len(ks) == 0 {
				continue
			}
			k = pick(r, ks)
			op = opDel(0, k, live[k])
			delete(live, k)
		case 5:
			op = fmt.Sprintf("get 0 %d", k)
		case 6:
			op = "iter 0"
		case 7:
			op = fmt.Sprintf("seek 0 %d", k)
		default:
			op = "clone 0 1"
		}
		ops = append(ops, fmt.Sprintf("fault %s %d %s", kind, idx, op))
		if r.Intn(3) == 0 {
			ops = append(ops, "iter 0", "stat 0")
		}
	}
	return Case{cfg, ops}
}

func famFaults(f *FamCtx) {
	f.Sig = func(o Outcome) string {
		if strings.HasPrefix(o.Viol, "KF-delete-shrink: ") {
			return "delete-committed-then-load-failed-during-height-reduction@pub.go:Delete->shrink"
		}
		return ""
	}
	f.Report.Rule = "persisted and partly modified trees without cache; Insert (new / update / equal), Delete, Get, Iter, SeekIter, Clone run with the i-th Persist.Load (i < 8) or the i-th KeyCompare call (i < 30) of that operation failing; if the call returns an error the contents, size and height are re-read through the fault-free view and must be unchanged, then the same call is retried and its result compared with the model; a panic (validateNode panics on a failing comparison) ends the case; non-trivial = reached height >= 1 and changed height"
	rn := Runner{Mk: func(c Cfg) Executor { return newFaultSession(c) }}
	f.Gen = func() Case { return genFaultCase(f.Rand, RandCfg(f.Rand)) }
	n := f.N(200, 8000)
	for i := 0; i < n; i++ {
		f.RunTreeCase(f.Gen(), rn, multiLevel)
	}
}
