module verifharness

go 1.22.0

require (
	github.com/aws/aws-sdk-go v1.55.5
	github.com/jrhy/mast v0.0.0
)

require (
	github.com/hashicorp/golang-lru v1.0.2 // indirect
	github.com/jmespath/go-jmespath v0.4.0 // indirect
	github.com/minio/blake2b-simd v0.0.0-20160723061019-3f5f724cb5b1 // indirect
)

replace github.com/jrhy/mast => /repo
