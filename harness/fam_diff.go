package main

import (
	"fmt"
	"math/rand"
	"strings"
)

// genDiffCase builds up to four trees related in different ways (ancestor/descendant through
// clones, siblings, unrelated; emptied; different heights; persisted or in memory) and diffs
// ordered pairs through both interfaces, with stopping and failing callbacks.
func genDiffCase(r *rand.Rand, cfg Cfg) Case {
	uni := Universe(r, cfg, 4+r.Intn(70))
	ops := []string{"new 0"}
	live := map[int]map[uint64]uint64{0: {}}
	slots := []int{0}
	nroot := 0
	mutate := func(s, n int) {
		m := live[s]
		for i := 0; i < n; i++ {
			if len(m) > 0 && r.Intn(3) == 0 {
				var ks []uint64
				for _, u := range uni {
					if _, ok := m[u]; ok {
						ks = append(ks, u)
					}
				}
				k := pick(r, ks)
				ops = append(ops, opDel(s, k, m[k]))
				delete(m, k)
			} else {
				k, v := pick(r, uni), uint64(r.Intn(3))
				m[k] = v
				ops = append(ops, opIns(s, k, v))
			}
		}
	}
	mutate(0, r.Intn(60))
	for len(slots) < 2+r.Intn(3) {
		d := len(slots)
		switch r.Intn(4) {
		case 0: // unrelated tree
			ops = append(ops, fmt.Sprintf("new %d", d))
			live[d] = map[uint64]uint64{}
			mutate(d, r.Intn(60))
		case 1: // emptied tree
			ops = append(ops, fmt.Sprintf("new %d", d))
			live[d] = map[uint64]uint64{}
			mutate(d, 1+r.Intn(5))
			for _, u := range uni {
				if v, ok := live[d][u]; ok {
					ops = append(ops, opDel(d, u, v))
					delete(live[d], u)
				}
			}
		default: // descendant of an existing one
			src := pick(r, slots)
			if r.Intn(2) == 0 {
				ops = append(ops, fmt.Sprintf("root %d %d", src, nroot), fmt.Sprintf("load %d %d", nroot, d))
				nroot++
			} else {
				ops = append(ops, fmt.Sprintf("clone %d %d", src, d))
			}
			live[d] = copyMap(live[src])
			n := r.Intn(8)
			if r.Intn(4) == 0 {
				n = r.Intn(60)
			}
			mutate(d, n)
		}
		slots = append(slots, d)
		if r.Intn(3) == 0 {
			ops = append(ops, fmt.Sprintf("root %d %d", d, nroot))
			nroot++
		}
	}
	for i := 0; i < 3+r.Intn(6); i++ {
		a, b := pick(r, slots), pick(r, slots)
		if a == b {
			continue
		}
		as := fmt.Sprint(a)
		if r.Intn(10) == 0 {
			as = "-"
		}
		switch r.Intn(6) {
		case 0:
			ops = append(ops, fmt.Sprintf("diffc %s %d", as, b))
		case 1:
			ops = append(ops, fmt.Sprintf("diffstop %s %d %d", as, b, r.Intn(6)))
		case 2:
			ops = append(ops, fmt.Sprintf("differr %s %d %d", as, b, r.Intn(6)))
		default:
			ops = append(ops, fmt.Sprintf("diff %s %d", as, b))
		}
	}
	return Case{cfg, ops}
}

// diffNorm: `diffc` must produce what `diff` produces; the model has one `diff`.
func diffModelLine(line string) string { return line }

func famDiff(f *FamCtx) {
	f.Report.Rule = "2-4 trees per case: unrelated, emptied, clones and reloads of one another with small or large later changes, persisted or not, one case in ten a tree left too tall by a Delete whose height reduction a failing load interrupted; ordered pairs (also a nil old tree) diffed through DiffIter, the DiffCursor, and callbacks that stop or fail at event j; events compared with the model's literal diffOne and with a sorted-merge oracle over Go maps; non-trivial = reached height >= 1 and changed height"
	f.Gen = func() Case { return genDiffCase(f.Rand, RandCfg(f.Rand)) }
	n := f.N(200, 8000)
	for i := 0; i < n; i++ {
		if i%10 == 9 {
			// trees that are taller than their entries warrant (an entry-less top node over a child):
			// the state a Delete leaves when its height reduction is interrupted by a failing load,
			// diffed in both directions against the version it came from
			f.RunTreeCase(genInterruptedDeleteCase(f.Rand, RandCfg(f.Rand)), faultRunner, multiLevel)
			continue
		}
		if i%20 == 13 {
			// one very wide node: more than 255 entries of layer 0 (the tree cannot grow), two versions
			// of it differing in a few keys
			f.RunTreeCase(genWideDiffCase(f.Rand), exactRunner, func(CaseStats) bool { return true })
			continue
		}
		if i%10 == 7 {
			// set-like trees: some values are the untyped nil (never persisted: JSON would not give nil
			// back); added / removed / changed must not be told apart by looking at the values
			f.RunTreeCase(genNilDiffCase(f.Rand, RandCfg(f.Rand)), exactRunner, func(CaseStats) bool { return true })
			continue
		}
		if i%10 == 4 {
			// every tree persisted and read back, the diffs through ONE DiffCursor whose load number k
			// fails once: the failed NextEntry is retried on the same cursor and the events must still
			// be the difference, each differing key once
			f.RunTreeCase(genRetriedDiffCase(f.Rand, RandCfg(f.Rand)), faultRunner, multiLevel)
			continue
		}
		f.RunTreeCase(f.Gen(), exactRunner, multiLevel)
	}
}

// genNilDiffCase: two or three in-memory trees (clones of one another, or unrelated) whose values
// are 1 (= untyped nil), 2 or 3, diffed in both directions through both interfaces.
func genNilDiffCase(r *rand.Rand, cfg Cfg) Case {
	cfg.VKind = "nilu"
	cfg = noCache(cfg)
	uni := Universe(r, cfg, 4+r.Intn(30))
	ops := []string{"new 0"}
	live := map[int]map[uint64]uint64{0: {}}
	mutate := func(s, n int) {
		m := live[s]
		for i := 0; i < n; i++ {
			k := pick(r, uni)
			if v, ok := m[k]; ok && r.Intn(3) == 0 {
				ops = append(ops, opDel(s, k, v))
				delete(m, k)
				continue
			}
			v := uint64(1 + r.Intn(3))
			if r.Intn(2) == 0 {
				v = 1
			}
			m[k] = v
			ops = append(ops, opIns(s, k, v))
		}
	}
	mutate(0, 3+r.Intn(30))
	if r.Intn(2) == 0 {
		ops = append(ops, "clone 0 1")
		live[1] = copyMap(live[0])
	} else {
		ops = append(ops, "new 1")
		live[1] = map[uint64]uint64{}
	}
	mutate(1, 1+r.Intn(20))
	for i := 0; i < 4; i++ {
		a, b := i%2, 1-i%2
		ops = append(ops, fmt.Sprintf("%s %d %d", pick(r, []string{"diff", "diffc"}), a, b))
	}
	return Case{cfg, ops}
}

// genWideDiffCase: 250-300 keys of layer 0 (a single node, wider than a uint8 can count), cloned or
// reloaded, a few changes, diffed in both directions through both interfaces.
func genWideDiffCase(r *rand.Rand) Case {
	cfg := Cfg{BF: pick(r, []uint{4, 16}), Fmt: pick(r, []string{"bin", "json"}), KK: "vk", VKind: "u64", Cache: "none"}
	n := 250 + r.Intn(60)
	ops := []string{"new 0"}
	var keys []uint64
	for i := 0; i < n; i++ {
		k := uint64(i+1) << 8 // layer 0
		keys = append(keys, k)
		ops = append(ops, opIns(0, k, 1))
	}
	if r.Intn(2) == 0 {
		ops = append(ops, "root 0 0", "load 0 1")
	} else {
		ops = append(ops, "clone 0 1")
	}
	for i := 0; i < 1+r.Intn(5); i++ {
		k := pick(r, keys)
		switch r.Intn(3) {
		case 0:
			ops = append(ops, opIns(1, k, 2))
		case 1:
			ops = append(ops, opIns(1, uint64(n+2+i)<<8, 1))
		default:
			ops = append(ops, opIns(1, k, 3)) // (a delete needs the current value: an update is enough here)
		}
	}
	ops = append(ops, "diff 0 1", "diffc 1 0", "diffc 0 1", "diff 1 0")
	return Case{cfg, ops}
}

// genRetriedDiffCase: a genDiffCase history in which every tree is persisted and reloaded before
// the diffs (so that a diff has nodes to load), and each diff runs through a DiffCursor with one
// failing load, retried on the same cursor.
func genRetriedDiffCase(r *rand.Rand, cfg Cfg) Case {
	cfg = noCache(cfg)
	c := genDiffCase(r, cfg)
	nroot, nslot := 0, 1
	cut := len(c.Ops)
	for i, op := range c.Ops {
		t := strings.Fields(op)
		switch t[0] {
		case "root":
			nroot++
		case "new", "clone", "load":
			var d int
			fmt.Sscan(t[len(t)-1], &d)
			if d+1 > nslot {
				nslot = d + 1
			}
		}
		if strings.HasPrefix(t[0], "diff") && i < cut {
			cut = i
		}
	}
	ops := append([]string{}, c.Ops[:cut]...)
	for s := 0; s < nslot; s++ {
		ops = append(ops, fmt.Sprintf("root %d %d", s, nroot), fmt.Sprintf("load %d %d", nroot, s))
		nroot++
	}
	for _, op := range c.Ops[cut:] {
		t := strings.Fields(op)
		if len(t) < 3 || t[1] == "-" {
			ops = append(ops, op)
			continue
		}
		for j := 0; j < 1+r.Intn(3); j++ {
			ops = append(ops, fmt.Sprintf("fault load %d diffcr %s %s", r.Intn(14), t[1], t[2]))
		}
	}
	return Case{cfg, ops}
}

// genCursorCase: sparse multi-level trees, cursors placed by Min/Max/Ceil and walked.
func genCursorCase(r *rand.Rand, cfg Cfg) Case {
	uni := Universe(r, cfg, 3+r.Intn(60))
	ops := []string{"new 0"}
	live := map[uint64]uint64{}
	n := r.Intn(len(uni) + 1)
	if r.Intn(8) == 0 {
		n = r.Intn(3)
	}
	for _, i := range r.Perm(len(uni))[:n] {
		live[uni[i]] = uint64(r.Intn(3))
		ops = append(ops, opIns(0, uni[i], live[uni[i]]))
	}
	// delete some again (sparser shapes, emptied trees)
	for _, u := range uni {
		if v, ok := live[u]; ok && (r.Intn(5) == 0 || n <= 3 && r.Intn(2) == 0) {
			ops = append(ops, opDel(0, u, v))
			delete(live, u)
		}
	}
	if r.Intn(2) == 0 {
		ops = append(ops, "root 0 0")
		if r.Intn(2) == 0 {
			ops = append(ops, "load 0 0")
		}
	}
	probe := func() uint64 {
		if r.Intn(2) == 0 {
			return pick(r, uni)
		}
		k := pick(r, uni)
		switch cfg.KK {
		case "vk":
			return (k>>8+uint64(r.Intn(3)))<<8 | uint64(r.Intn(4)) // absent ids, any layer
		default:
			return k + uint64(r.Intn(5)) - 2
		}
	}
	nc := 0
	for i := 0; i < 2+r.Intn(4); i++ {
		ops = append(ops, fmt.Sprintf("cur 0 %d", nc))
		if r.Intn(4) == 0 {
			// the tree goes on changing after the cursor was opened: the cursor walks the entries the
			// tree held when Cursor() was called (also when it was empty then)
			for j := 0; j < 1+r.Intn(4); j++ {
				k := pick(r, uni)
				if v, ok := live[k]; ok && r.Intn(2) == 0 {
					ops = append(ops, opDel(0, k, v))
					delete(live, k)
				} else {
					live[k] = uint64(3 + r.Intn(3))
					ops = append(ops, opIns(0, k, live[k]))
				}
			}
		}
		switch r.Intn(3) {
		case 0:
			ops = append(ops, fmt.Sprintf("cmin %d", nc))
		case 1:
			ops = append(ops, fmt.Sprintf("cmax %d", nc))
		default:
			ops = append(ops, fmt.Sprintf("cceil %d %d", nc, probe()))
		}
		dir := r.Intn(2)
		for j := 0; j < r.Intn(50); j++ {
			if r.Intn(6) == 0 {
				dir = 1 - dir
			}
			if dir == 0 {
				ops = append(ops, fmt.Sprintf("cfwd %d", nc))
			} else {
				ops = append(ops, fmt.Sprintf("cbwd %d", nc))
			}
		}
		nc++
		if r.Intn(2) == 0 {
			ops = append(ops, fmt.Sprintf("seek 0 %d", probe()))
		} else {
			ops = append(ops, fmt.Sprintf("seekstop 0 %d %d", probe(), r.Intn(5)))
		}
	}
	return Case{cfg, ops}
}

func famCursor(f *FamCtx) {
	f.Report.Rule = "sparse multi-level trees (random subset of a layered universe, some deleted again, also empty and emptied trees; in memory, persisted, or reloaded); cursors (one in four kept while the tree is modified further) placed by Min, Max or Ceil(probe present/absent of any layer) and walked up to 50 steps with direction changes; SeekIter from probes, with and without a stopping callback; every position compared with the model's literal cursor functions and with an index into the sorted Go map; non-trivial = reached height >= 1 and changed height"
	f.Gen = func() Case { return genCursorCase(f.Rand, RandCfg(f.Rand)) }
	n := f.N(250, 10000)
	for i := 0; i < n; i++ {
		if i%12 == 11 {
			// walks over a tree that is taller than its entries warrant (an entry-less top node over
			// a child: an interrupted Delete, or a version written by an earlier release)
			c := genInterruptedDeleteCase(f.Rand, RandCfg(f.Rand))
			uni := []string{}
			for _, op := range c.Ops {
				if t := strings.Fields(op); t[0] == "ins" {
					uni = append(uni, t[2])
				}
			}
			for _, sl := range []string{"0", "4"} {
				for j := 0; j < 3; j++ {
					mv := ""
					for q := 0; q < 2+f.Rand.Intn(8); q++ {
						mv += pick(f.Rand, []string{"f", "f", "b"})
					}
					c.Ops = append(c.Ops, fmt.Sprintf("cwalk %s %s %s", sl, pick(f.Rand, uni), mv), fmt.Sprintf("seek %s %s", sl, pick(f.Rand, uni)))
				}
			}
			f.RunTreeCase(c, faultRunner, multiLevel)
			continue
		}
		f.RunTreeCase(f.Gen(), exactRunner, multiLevel)
	}
}
