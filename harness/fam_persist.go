package main

import (
	"fmt"
	"math/rand"
	"sort"
)

func noCache(c Cfg) Cfg { c.Cache = "none"; return c }

var exactRunner = Runner{Mk: treeExecutor}

// buildTo appends to ops a random history on `slot` that ends with exactly the entries of
// `final`: inserts in random order, detours through extra keys and wrong values that are
// later deleted / overwritten, optional clone / persist / reload points.
func buildTo(r *rand.Rand, ops []string, slot int, final map[uint64]uint64, extras []uint64, nroot *int, detours bool) []string {
	type kv struct{ k, v uint64 }
	var todo []kv
	for k, v := range final {
		todo = append(todo, kv{k, v})
	}
	sort.Slice(todo, func(i, j int) bool { return todo[i].k < todo[j].k })
	r.Shuffle(len(todo), func(i, j int) { todo[i], todo[j] = todo[j], todo[i] })
	cur := map[uint64]uint64{}
	var present []uint64 // extras currently in the tree
	for _, e := range todo {
		if detours && r.Intn(3) == 0 && len(extras) > 0 {
			x := pick(r, extras)
			if _, ok := cur[x]; !ok {
				if _, fin := final[x]; !fin {
					cur[x] = 9
					present = append(present, x)
					ops = append(ops, opIns(slot, x, 9))
				}
			}
		}
		if detours && r.Intn(4) == 0 {
			ops = append(ops, opIns(slot, e.k, e.v+7)) // wrong value first
		}
		ops = append(ops, opIns(slot, e.k, e.v))
		cur[e.k] = e.v
		if detours && r.Intn(12) == 0 {
			ops = append(ops, fmt.Sprintf("root %d %d", slot, *nroot))
			if r.Intn(2) == 0 {
				ops = append(ops, fmt.Sprintf("load %d %d", *nroot, slot))
			}
			*nroot++
		}
		if detours && r.Intn(15) == 0 {
			ops = append(ops, fmt.Sprintf("clone %d %d", slot, slot))
		}
	}
	r.Shuffle(len(present), func(i, j int) { present[i], present[j] = present[j], present[i] })
	for _, x := range present {
		ops = append(ops, opDel(slot, x, 9))
	}
	if detours && r.Intn(4) == 0 {
		// a dip: everything is deleted again (down through every height to the empty tree) and
		// re-inserted in another order on the same in-memory tree
		var ks []uint64
		for k := range final {
			ks = append(ks, k)
		}
		sort.Slice(ks, func(i, j int) bool { return ks[i] < ks[j] })
		r.Shuffle(len(ks), func(i, j int) { ks[i], ks[j] = ks[j], ks[i] })
		keep := 0
		if len(ks) > 0 {
			keep = r.Intn(2)
		}
		for _, k := range ks[keep:] {
			ops = append(ops, opDel(slot, k, final[k]))
		}
		ops = append(ops, fmt.Sprintf("thresholds %d", slot))
		r.Shuffle(len(ks), func(i, j int) { ks[i], ks[j] = ks[j], ks[i] })
		for _, k := range ks {
			ops = append(ops, opIns(slot, k, final[k]))
		}
	}
	ops = append(ops, fmt.Sprintf("thresholds %d", slot))
	return ops
}

func genCanonCase(r *rand.Rand, cfg Cfg) Case {
	us := 4 + r.Intn(70)
	uni := Universe(r, cfg, us)
	nf := r.Intn(len(uni) + 1)
	if r.Intn(6) == 0 {
		nf = r.Intn(3) // tiny final sets, incl. empty
	}
	// sizes around bf^h and bf^h +- 1 are where the height rule switches
	if r.Intn(3) == 0 {
		p := int(cfg.BF)
		for p*int(cfg.BF) <= len(uni) && r.Intn(2) == 0 {
			p *= int(cfg.BF)
		}
		nf = p + r.Intn(3) - 1
		if nf > len(uni) {
			nf = len(uni)
		}
		if nf < 0 {
			nf = 0
		}
	}
	perm := r.Perm(len(uni))
	final := map[uint64]uint64{}
	for _, i := range perm[:nf] {
		final[uni[i]] = uint64(r.Intn(4))
	}
	var extras []uint64
	for _, i := range perm[nf:] {
		extras = append(extras, uni[i])
	}
	nroot := 0
	ops := []string{"new 0", "new 1"}
	ops = buildTo(r, ops, 0, final, nil, &nroot, false)
	ops = buildTo(r, ops, 1, final, extras, &nroot, true)
	if r.Intn(3) == 0 { // a third route: delete down from the whole universe
		ops = append(ops, "new 2")
		all := map[uint64]uint64{}
		for _, k := range uni {
			if v, ok := final[k]; ok {
				all[k] = v
			} else {
				all[k] = 9
			}
		}
		ops = buildTo(r, ops, 2, all, nil, &nroot, false)
		ex := append([]uint64{}, extras...)
		r.Shuffle(len(ex), func(i, j int) { ex[i], ex[j] = ex[j], ex[i] })
		if r.Intn(2) == 0 {
			// keys of the highest layers go first: deleting them takes levels off the tree
			sort.Slice(ex, func(i, j int) bool { return cfg.RefLayer(ex[i]) > cfg.RefLayer(ex[j]) })
		}
		persistFirst := r.Intn(2) == 0
		for _, x := range ex {
			if persistFirst && r.Intn(3) != 0 {
				// the deletes then meet persisted, untouched children
				ops = append(ops, fmt.Sprintf("root 2 %d", nroot))
				if r.Intn(2) == 0 {
					ops = append(ops, fmt.Sprintf("load %d 2", nroot))
				}
				nroot++
			}
			ops = append(ops, opDel(2, x, 9))
		}
		ops = append(ops, "thresholds 2", "canonroot 2")
	}
	ops = append(ops, "canonroot 0", "canonroot 1", "iter 0", "iter 1")
	return Case{noCache(cfg), ops}
}

// genLonelyTopCase: all keys on layer 0 plus ONE key of a much higher layer at an end of the key
// range (so that the levels between are entry-less pass-through nodes); one route never sees
// that key, the other inserts it, persists (so that its children are untouched persisted nodes)
// and deletes it again.  Equal contents, so equal roots.
func genLonelyTopCase(r *rand.Rand, cfg Cfg) Case {
	cfg = noCache(cfg)
	cfg.KK = "vk"
	cfg.BF = pick(r, []uint{2, 3, 4, 4, 8, 16})
	bf := int(cfg.BF)
	n := bf*bf + 1 + r.Intn(bf*bf*bf)
	ids := r.Perm(4*n + 8)
	final := map[uint64]uint64{}
	lo, hi := uint64(1<<40), uint64(0)
	for _, id := range ids[:n] {
		k := uint64(id+2) << 8 // layer 0
		final[k] = uint64(r.Intn(3))
		if k < lo {
			lo = k
		}
		if k > hi {
			hi = k
		}
	}
	layer := uint64(2 + r.Intn(3))
	x := (hi>>8+1)<<8 | layer
	if r.Intn(2) == 0 {
		x = (lo>>8-1)<<8 | layer
	}
	nroot := 0
	ops := []string{"new 0", "new 1"}
	ops = buildTo(r, ops, 0, final, nil, &nroot, false)
	with := copyMap(final)
	with[x] = 9
	ops = buildTo(r, ops, 1, with, nil, &nroot, false)
	ops = append(ops, fmt.Sprintf("root 1 %d", nroot))
	if r.Intn(2) == 0 {
		ops = append(ops, fmt.Sprintf("load %d 1", nroot))
	}
	nroot++
	ops = append(ops, opDel(1, x, 9), "stat 1", "thresholds 1", "canonroot 0", "canonroot 1", "iter 1")
	return Case{cfg, ops}
}

// famCanon — C04.
func famCanon(f *FamCtx) {
	f.Report.Rule = "two or three histories ending in the same entry set (shuffled inserts; detours through extra keys, wrong values, clones, persist/reload points; delete-down from a superset with persist points between the deletes; one case in eight: all keys on layer 0 plus one lonely key of a much higher layer at an end of the range, inserted, persisted and deleted again), final sizes biased to bf^h-1..bf^h+1 and to 0..2; every root compared with the other routes' roots (oracle) and with the root of the Lean reference builder `Tree.canon` (names via the model's own BLAKE2b); non-trivial = reached height >= 1 and changed height"
	f.Gen = func() Case {
		if f.Rand.Intn(8) == 0 {
			return genLonelyTopCase(f.Rand, RandCfg(f.Rand))
		}
		return genCanonCase(f.Rand, RandCfg(f.Rand))
	}
	n := f.N(200, 8000)
	for i := 0; i < n; i++ {
		f.RunTreeCase(f.Gen(), exactRunner, multiLevel)
	}
}

// genPersistCase: mutate / persist (recording every Store) / reload cycles, shapes decoded
// from the stored bytes.
// genWideNodeCase: one node whose entry count walks over 127 / 128 / 129 (keys without any higher
// layer: the tree cannot grow), persisted and reloaded at each count, then shrunk back.
func genWideNodeCase(r *rand.Rand, cfg Cfg) Case {
	cfg = noCache(cfg)
	cfg.KK = "vk"
	var ops []string
	ops = append(ops, "new 0")
	n := 0
	ins := func(upto int) {
		for ; n < upto; n++ {
			ops = append(ops, opIns(0, uint64(1000+n*3)<<8, uint64(n%5)))
		}
	}
	ins(125 + r.Intn(2))
	nroot := 0
	for _, upto := range []int{127, 128, 129, 130} {
		ins(upto)
		ops = append(ops, fmt.Sprintf("roots 0 %d", nroot), fmt.Sprintf("pshape %d", nroot), fmt.Sprintf("load %d 1", nroot), "iter 1", "stat 1")
		nroot++
	}
	for d := 0; d < 3; d++ {
		k := r.Intn(n)
		ops = append(ops, opDel(0, uint64(1000+k*3)<<8, uint64(k%5)), fmt.Sprintf("roots 0 %d", nroot), fmt.Sprintf("load %d 1", nroot), "iter 1")
		nroot++
	}
	return Case{cfg, ops}
}

func genPersistCase(r *rand.Rand, cfg Cfg) Case {
	if r.Intn(20) == 0 {
		return genWideNodeCase(r, cfg)
	}
	cfg = noCache(cfg)
	uni := Universe(r, cfg, 4+r.Intn(80))
	ops := []string{"new 0"}
	live := map[uint64]uint64{}
	nroot := 0
	cycles := 1 + r.Intn(5)
	for c := 0; c < cycles; c++ {
		nm := 1 + r.Intn(40)
		if c > 0 && r.Intn(4) == 0 {
			nm = 0 // no-op cycle: persisting again must write nothing
		}
		for i := 0; i < nm; i++ {
			if len(live) > 0 && r.Intn(3) == 0 {
				var ks []uint64
				for _, u := range uni {
					if _, ok := live[u]; ok {
						ks = append(ks, u)
					}
				}
				k := pick(r, ks)
				ops = append(ops, opDel(0, k, live[k]))
				delete(live, k)
			} else {
				k, v := pick(r, uni), uint64(r.Intn(6))
				live[k] = v
				ops = append(ops, opIns(0, k, v))
			}
			if r.Intn(3) == 0 {
				ops = append(ops, "stat 0") // IsDirty after every kind of modification
			}
		}
		if r.Intn(6) == 0 { // delete down to empty
			for _, u := range uni {
				if v, ok := live[u]; ok {
					ops = append(ops, opDel(0, u, v))
					delete(live, u)
				}
			}
		}
		ops = append(ops, fmt.Sprintf("roots 0 %d", nroot), fmt.Sprintf("pshape %d", nroot), "stat 0")
		if r.Intn(2) == 0 {
			ops = append(ops, fmt.Sprintf("load %d 0", nroot), "iter 0", "stat 0")
			if r.Intn(3) == 0 {
				ops = append(ops, fmt.Sprintf("roots 0 %d", nroot+1))
				nroot++
			}
		}
		if r.Intn(3) == 0 {
			// a clone of the clean (just persisted or just reloaded) tree is itself clean: persisting it
			// writes nothing and returns the same root; after a few changes it is incremental
			ops = append(ops, "clone 0 1", "stat 1")
			if r.Intn(2) == 0 {
				for i := 0; i < 1+r.Intn(3); i++ {
					ops = append(ops, opIns(1, pick(r, uni), uint64(6+r.Intn(2))))
				}
			}
			ops = append(ops, fmt.Sprintf("roots 1 %d", nroot+1), "stat 1")
			nroot++
		}
		nroot++
	}
	ops = append(ops, "iter 0")
	return Case{cfg, ops}
}

// genSharedCachePersistCase: a multi-level version is loaded twice through one node cache; the
// first tree deletes keys from the highest layer downwards (merging cached children) and
// persists, then the second tree modifies the neighbourhood and persists; both persisted
// versions are decoded from the store and checked against the shape invariants and the model.
func genSharedCachePersistCase(r *rand.Rand, cfg Cfg) Case {
	cfg.Cache = "big"
	cfg.BF = pick(r, []uint{2, 3, 4, 4, 8, 16})
	uni := Universe(r, cfg, 20+r.Intn(50))
	ops := []string{"new 0"}
	m := map[uint64]uint64{}
	if r.Intn(3) == 0 {
		// "the same root name has the same contents", read through the cache: half of the universe
		// is persisted (the writer's own node objects enter the cache), then the same tree goes on
		// — new keys of every layer (splitting cached nodes), then updates and deletes of old keys
		// (in-place edits of whatever the splits produced) — and every recorded root is loaded
		// again through that cache before and after the next persist
		half := len(uni) / 2
		for _, k := range uni[:half] {
			m[k] = uint64(r.Intn(3))
			ops = append(ops, opIns(0, k, m[k]))
		}
		ops = append(ops, "root 0 0", "pshape 0")
		nroot := 1
		for round := 0; round < 1+r.Intn(3); round++ {
			for i := 0; i < 1+r.Intn(4); i++ {
				k := pick(r, uni[half:])
				m[k] = uint64(3 + r.Intn(3))
				ops = append(ops, opIns(0, k, m[k]))
			}
			for i := 0; i < 1+r.Intn(4); i++ {
				k := pick(r, uni[:half])
				if v, ok := m[k]; ok && r.Intn(2) == 0 {
					ops = append(ops, opDel(0, k, v))
					delete(m, k)
				} else {
					m[k] = uint64(6 + r.Intn(3))
					ops = append(ops, opIns(0, k, m[k]))
				}
			}
			for j := 0; j < nroot; j++ {
				ops = append(ops, fmt.Sprintf("load %d 5", j), "iter 5")
			}
			if r.Intn(2) == 0 {
				ops = append(ops, fmt.Sprintf("root 0 %d", nroot), fmt.Sprintf("pshape %d", nroot))
				nroot++
			}
		}
		ops = append(ops, fmt.Sprintf("root 0 %d", nroot), fmt.Sprintf("pshape %d", nroot), "iter 0")
		nroot++
		for j := 0; j < nroot; j++ {
			ops = append(ops, fmt.Sprintf("load %d 5", j), "iter 5", fmt.Sprintf("pshape %d", j))
		}
		return Case{cfg, ops}
	}
	for _, k := range uni {
		m[k] = uint64(r.Intn(3))
		ops = append(ops, opIns(0, k, m[k]))
	}
	ops = append(ops, "root 0 0", "pshape 0", "load 0 1", "load 0 2")
	ks := append([]uint64{}, uni...)
	sort.Slice(ks, func(i, j int) bool {
		if cfg.RefLayer(ks[i]) != cfg.RefLayer(ks[j]) {
			return cfg.RefLayer(ks[i]) > cfg.RefLayer(ks[j])
		}
		return ks[i] < ks[j]
	})
	nd := 1 + r.Intn(5)
	if nd > len(ks) {
		nd = len(ks)
	}
	for _, k := range ks[:nd] {
		ops = append(ops, opDel(1, k, m[k]))
	}
	if r.Intn(2) == 0 {
		// the second tree merges the same cached children as the first one did, after having
		// changed what stands next to them — and only then is the first tree persisted (its
		// merged nodes must not share anything with the cached nodes they were built from)
		m2 := map[uint64]uint64{}
		for k, v := range m {
			m2[k] = v
		}
		asc := append([]uint64{}, uni...)
		sort.Slice(asc, func(i, j int) bool { return asc[i] < asc[j] }) // the numbering of keys is order-preserving for every key kind
		for _, sep := range ks[:nd] {
			// a key from the node right of the separator goes first (or, sometimes, any key)
			for i, k := range asc {
				if k == sep && i+1 < len(asc) && r.Intn(4) != 0 {
					k2 := asc[i+1+r.Intn(min(2, len(asc)-i-1))]
					if v, ok := m2[k2]; ok && cfg.RefLayer(k2) < cfg.RefLayer(sep) {
						ops = append(ops, opDel(2, k2, v))
						delete(m2, k2)
					}
				}
			}
		}
		for i := 0; i < r.Intn(3); i++ {
			k := pick(r, ks[nd:])
			if v, ok := m2[k]; ok {
				ops = append(ops, opDel(2, k, v))
				delete(m2, k)
			}
		}
		for _, k := range ks[:nd] {
			if _, ok := m2[k]; ok && r.Intn(4) != 0 {
				ops = append(ops, opDel(2, k, m2[k]))
				delete(m2, k)
			}
		}
		ops = append(ops, "iter 1", "iter 2", "root 1 1", "pshape 1", "iter 1", "stat 1",
			"root 2 2", "pshape 2", "iter 2", "stat 2", "pshape 0", "pshape 1", "load 1 3", "iter 3")
		return Case{cfg, ops}
	}
	ops = append(ops, "root 1 1", "pshape 1", "iter 1", "stat 1")
	for i := 0; i < 2+r.Intn(8); i++ {
		k := pick(r, uni)
		ops = append(ops, opIns(2, k, uint64(5+r.Intn(3))))
	}
	ops = append(ops, "root 2 2", "pshape 2", "iter 2", "stat 2", "pshape 0", "load 2 3", "iter 3")
	return Case{cfg, ops}
}

func famPersist(f *FamCtx) {
	f.Report.Rule = "1-5 cycles of (batch of inserts/updates/deletes, sometimes empty, sometimes delete-to-empty) -> MakeRoot on a recording store without cache (every Store call's name and bytes compared with the model's encoder and BLAKE2b) -> shape decoded by the harness from the stored bytes (C09 invariants evaluated in Go, graph compared with the model) -> reload through a JSON round-trip of the Root; one case in twenty: a single node whose entry count walks over 127 / 128 / 129, persisted and reloaded at each count; one case in four: a multi-level version loaded twice through one node cache, interior keys deleted in one tree, the other modified afterwards (or: the other deletes next to and then the same interior keys before the first is persisted), both persisted versions decoded and checked; one case in twelve: a version in the shape an interrupted Delete (or an earlier release) leaves — taller than warranted — persisted, reloaded and persisted again unmodified; or: a version persisted through the cache, the tree modified further (new keys of every layer, then updates and deletes of old keys) and every recorded root re-read through the cache before and after the next persist; non-trivial = reached height >= 1 and changed height"
	f.Gen = func() Case {
		if f.Rand.Intn(4) == 0 {
			return genSharedCachePersistCase(f.Rand, RandCfg(f.Rand))
		}
		return genPersistCase(f.Rand, RandCfg(f.Rand))
	}
	n := f.N(200, 8000)
	for i := 0; i < n; i++ {
		if i%25 == 24 {
			// write-only history under ValuesLike == nil + registered types (binary format): inserts,
			// updates, deletes, then ONE MakeRoot whose Store calls are compared with the encoder
			cfg := RandCfg(f.Rand)
			cfg.Fmt, cfg.NoVL, cfg.Cache, cfg.Reg = "bin", true, "none", false
			uni := Universe(f.Rand, cfg, 6+f.Rand.Intn(40))
			ops := []string{"new 0"}
			live := map[uint64]uint64{}
			for j := 0; j < 5+f.Rand.Intn(60); j++ {
				k := pick(f.Rand, uni)
				if v, ok := live[k]; ok && f.Rand.Intn(3) == 0 {
					ops = append(ops, opDel(0, k, v))
					delete(live, k)
				} else {
					v := uint64(f.Rand.Intn(4))
					live[k] = v
					ops = append(ops, opIns(0, k, v))
				}
			}
			ops = append(ops, "root 0 0")
			f.RunTreeCase(Case{cfg, ops}, exactRunner, multiLevel)
			continue
		}
		if i%10 == 9 {
			// a failed call must not make the tree need a write: a persisted version reloaded (no
			// cache), operations on it with one of their loads failing and NOT retried, IsDirty and
			// MakeRoot after each (clean, same root, no Store call); then a real change and a MakeRoot
			cfg := noCache(RandCfg(f.Rand))
			cfg.KK = "vk"
			vk := func(id, layer int) uint64 { return uint64(id)<<8 | uint64(layer) }
			ops := []string{"new 0"}
			var keys []uint64
			for j := 0; j < 6+f.Rand.Intn(30); j++ {
				l := 0
				for l < 3 && f.Rand.Intn(int(cfg.BF)) == 0 {
					l++
				}
				k := vk(10+f.Rand.Intn(400), l)
				keys = append(keys, k)
				ops = append(ops, opIns(0, k, 1))
			}
			ops = append(ops, "root 0 0", "load 0 1")
			nr := 1
			for j := 0; j < 2+f.Rand.Intn(4); j++ {
				var op string
				switch f.Rand.Intn(4) {
				case 0, 1:
					// a new key of layer 1..3: its slot in an upper node usually has a child to split
					op = opIns(1, vk(10+f.Rand.Intn(400), 1+f.Rand.Intn(3)), 2)
				case 2:
					op = opDel(1, pick(f.Rand, keys), 1)
				default:
					op = opIns(1, pick(f.Rand, keys), 3)
				}
				ops = append(ops, fmt.Sprintf("faultnoretry load %d %s", f.Rand.Intn(4), op), "stat 1", fmt.Sprintf("root 1 %d", nr), "stat 1")
				nr++
			}
			ops = append(ops, opIns(1, vk(999, 0), 5), fmt.Sprintf("root 1 %d", nr), "stat 1")
			f.RunTreeCase(Case{cfg, ops}, faultRunner, multiLevel)
			continue
		}
		if i%12 == 11 {
			// a version in the shape an earlier release (or an interrupted Delete) leaves — taller than
			// its entries warrant, an entry-less top node over a child — persisted, reloaded, persisted
			// again unmodified (nothing written, same root), decoded and checked
			f.RunTreeCase(genInterruptedDeleteCase(f.Rand, RandCfg(f.Rand)), faultRunner, multiLevel)
			continue
		}
		f.RunTreeCase(f.Gen(), exactRunner, multiLevel)
	}
}
