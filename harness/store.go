package main

import (
	"bytes"
	"context"
	"fmt"
	"sort"
	"sync"
)

// RecStore is an in-memory mast.Persist that records its traffic and can inject faults.
type RecStore struct {
	mu        sync.Mutex
	m         map[string][]byte
	recent    []recentGiven
	Prefix    string
	Stores    []StoreCall // every Store call since the last Reset
	Loads     []string    // every Load call since the last Reset
	FailLoad  func(n int, name string) error
	FailStore func(n int, name string) error
	// Gate, when set, is called outside the lock at the start of every Store; it may block
	// (scheduling) and decides whether the call fails. End is called when the call finishes.
	Gate          func(n int, name string) error
	End           func(n int, name string, err error)
	nLoad, nStore int
	TotalLoads    int // every Load call ever made (never reset)
}

type StoreCall struct {
	Name  string
	Bytes []byte
}

// storeHandle is one more handle onto the same store: a distinct Persist value (as a program
// that opens a handle per LoadMast would have) with the same prefix, contents and recording.
type storeHandle struct{ *RecStore }

func NewRecStore(prefix string) *RecStore {
	return &RecStore{m: map[string][]byte{}, Prefix: prefix}
}

// recentGiven: the slices most recently handed to Store, as given (not copied), next to the copy
// taken at the time.  A Persist may keep the slice it is given (mast's own in-memory store does):
// the caller must not write to it again.  Every later Store / Load looks at the last few.
type recentGiven struct {
	name      string
	given, cp []byte
}

func (s *RecStore) noteGiven(name string, given, cp []byte) {
	s.recent = append(s.recent, recentGiven{name, given, cp})
	if len(s.recent) > 8 {
		s.recent = s.recent[len(s.recent)-8:]
	}
}

func (s *RecStore) auditGiven() error {
	for _, r := range s.recent {
		if !bytes.Equal(r.given, r.cp) {
			return fmt.Errorf("recstore: the byte slice handed to Persist.Store for %s was written to after Store had returned", r.name)
		}
	}
	return nil
}

func (s *RecStore) Store(ctx context.Context, name string, b []byte) (err error) {
	if s.Gate != nil {
		s.mu.Lock()
		n := s.nStore
		s.nStore++
		cp := append([]byte(nil), b...)
		s.Stores = append(s.Stores, StoreCall{name, cp})
		aerr := s.auditGiven()
		s.noteGiven(name, b, cp)
		s.mu.Unlock()
		if aerr != nil {
			return aerr
		}
		err = s.Gate(n, name)
		if err == nil {
			s.mu.Lock()
			s.m[name] = cp
			s.mu.Unlock()
		}
		if s.End != nil {
			s.End(n, name, err)
		}
		return err
	}
	s.mu.Lock()
	defer s.mu.Unlock()
	n := s.nStore
	s.nStore++
	cp := append([]byte(nil), b...)
	s.Stores = append(s.Stores, StoreCall{name, cp})
	if err := s.auditGiven(); err != nil {
		return err
	}
	s.noteGiven(name, b, cp)
	if s.FailStore != nil {
		if err := s.FailStore(n, name); err != nil {
			return err
		}
	}
	s.m[name] = cp
	return nil
}

func (s *RecStore) Load(ctx context.Context, name string) ([]byte, error) {
	s.mu.Lock()
	defer s.mu.Unlock()
	n := s.nLoad
	s.nLoad++
	s.TotalLoads++
	s.Loads = append(s.Loads, name)
	if err := s.auditGiven(); err != nil {
		return nil, err
	}
	if s.FailLoad != nil {
		if err := s.FailLoad(n, name); err != nil {
			return nil, err
		}
	}
	b, ok := s.m[name]
	if !ok {
		return nil, fmt.Errorf("recstore: %s not found", name)
	}
	return b, nil
}

func (s *RecStore) NodeURLPrefix() string { return s.Prefix }

func (s *RecStore) ResetTraffic() {
	s.mu.Lock()
	defer s.mu.Unlock()
	s.Stores = nil
	s.Loads = nil
	s.nLoad, s.nStore = 0, 0
}

func (s *RecStore) Has(name string) bool {
	s.mu.Lock()
	defer s.mu.Unlock()
	_, ok := s.m[name]
	return ok
}

func (s *RecStore) Get(name string) []byte {
	s.mu.Lock()
	defer s.mu.Unlock()
	return s.m[name]
}

func (s *RecStore) Names() []string {
	s.mu.Lock()
	defer s.mu.Unlock()
	out := make([]string, 0, len(s.m))
	for k := range s.m {
		out = append(out, k)
	}
	sort.Strings(out)
	return out
}

func (s *RecStore) TakeStores() []StoreCall {
	s.mu.Lock()
	defer s.mu.Unlock()
	out := s.Stores
	s.Stores = nil
	return out
}

func (s *RecStore) TakeLoads() []string {
	s.mu.Lock()
	defer s.mu.Unlock()
	out := s.Loads
	s.Loads = nil
	return out
}
