package main

import (
	"errors"
	"fmt"
	"sort"
	"strings"

	"github.com/jrhy/mast"
)

func sortedKeys64(m map[uint64]uint64) []uint64 {
	ks := make([]uint64, 0, len(m))
	for k := range m {
		ks = append(ks, k)
	}
	sort.Slice(ks, func(i, j int) bool { return ks[i] < ks[j] })
	return ks
}

// expectedDiff is the textbook sorted merge of two maps.
func expectedDiff(old, new map[uint64]uint64) []string {
	var out []string
	ko, kn := sortedKeys64(old), sortedKeys64(new)
	i, j := 0, 0
	for i < len(ko) || j < len(kn) {
		switch {
		case j >= len(kn) || (i < len(ko) && ko[i] < kn[j]):
			out = append(out, fmt.Sprintf("-%d=%d", ko[i], old[ko[i]]))
			i++
		case i >= len(ko) || kn[j] < ko[i]:
			out = append(out, fmt.Sprintf("+%d=%d", kn[j], new[kn[j]]))
			j++
		default:
			if old[ko[i]] != new[kn[j]] {
				out = append(out, fmt.Sprintf("~%d=%d>%d", ko[i], old[ko[i]], new[kn[j]]))
			}
			i++
			j++
		}
	}
	return out
}

type curState struct {
	c    *mast.Cursor
	keys []uint64
	vals map[uint64]uint64
	pos  int // index into keys; -1 = unplaced / off an end
	off  bool
	set  bool
	// height of the tree when the cursor was opened
	height int
}

var errStop = errors.New("harness: callback error")

func (s *Session) evString(added, removed bool, key, av, rv interface{}) string {
	k := s.Cfg.KeyNat(key)
	switch {
	case added && !removed:
		return fmt.Sprintf("+%d=%d", k, s.Cfg.ValNat(av))
	case removed && !added:
		return fmt.Sprintf("-%d=%d", k, s.Cfg.ValNat(rv))
	case !added && !removed:
		return fmt.Sprintf("~%d=%d>%d", k, s.Cfg.ValNat(rv), s.Cfg.ValNat(av))
	}
	return "?both"
}

// Exec2 handles the diff / cursor / seek operations.
func (s *Session) Exec2(t []string, num func(int) uint64) (obs, viol string, handled bool) {
	tree := func(i int) *mast.Mast { return s.Trees[int(num(i))] }
	switch t[0] {
	case "diff", "diffc", "diffcr", "diffstop", "differr", "diffloads":
		var old *mast.Mast
		oldO := map[uint64]uint64{}
		if t[1] != "-" {
			old = tree(1)
			if old == nil {
				return "bad-slot", "", true
			}
			oldO = s.Oracle[int(num(1))]
		}
		nw := tree(2)
		if nw == nil {
			return "bad-slot", "", true
		}
		want := expectedDiff(oldO, s.Oracle[int(num(2))])
		var evs []string
		switch t[0] {
		case "diff", "diffloads":
			s.Store.TakeLoads()
			for _, iso := range s.isoStores {
				iso.TakeLoads()
			}
			err := nw.DiffIter(s.ctx, old, func(added, removed bool, key, av, rv interface{}) (bool, error) {
				evs = append(evs, s.evString(added, removed, key, av, rv))
				return true, nil
			})
			if err != nil {
				return errClass(err), "diff failed on a healthy store: " + err.Error(), true
			}
			if strings.Join(evs, " ") != strings.Join(want, " ") {
				viol = "diff reports [" + strings.Join(evs, " ") + "], the trees differ in [" + strings.Join(want, " ") + "]"
			}
			if t[0] == "diffloads" {
				set := map[string]bool{}
				for _, n := range s.Store.TakeLoads() {
					set[n] = true
				}
				for _, iso := range s.isoStores { // versions opened on stores of their own
					for _, n := range iso.TakeLoads() {
						set[n] = true
					}
				}
				var names []string
				for n := range set {
					names = append(names, n)
				}
				sort.Strings(names)
				if viol == "" && t[1] != "-" {
					viol = s.checkDiffCost(int(num(1)), int(num(2)), names)
				}
				return strings.TrimSpace(fmt.Sprintf("%d %s", len(names), strings.Join(names, " "))), viol, true
			}
		case "diffc", "diffcr":
			dc, err := nw.StartDiff(s.ctx, old)
			if err != nil {
				return errClass(err), "StartDiff failed: " + err.Error(), true
			}
			retried := false
			for {
				d, err := dc.NextEntry(s.ctx)
				if err == mast.ErrNoMoreDiffs {
					break
				}
				if err != nil && t[0] == "diffcr" && !retried {
					// the same call, on the same cursor, once more (an injected fault has cleared by now)
					retried = true
					d, err = dc.NextEntry(s.ctx)
					if err == mast.ErrNoMoreDiffs {
						break
					}
				}
				if err != nil {
					return errClass(err), "NextEntry failed on a healthy store: " + err.Error(), true
				}
				evs = append(evs, s.evString(d.Type == mast.DiffType_Add, d.Type == mast.DiffType_Remove, d.Key, d.NewValue, d.OldValue))
			}
			// one more call after the end must keep saying so
			if _, err := dc.NextEntry(s.ctx); err != mast.ErrNoMoreDiffs {
				viol = "NextEntry after the end does not report ErrNoMoreDiffs"
			}
			if viol == "" && strings.Join(evs, " ") != strings.Join(want, " ") {
				viol = "diff cursor reports [" + strings.Join(evs, " ") + "], the trees differ in [" + strings.Join(want, " ") + "]"
			}
		case "diffstop", "differr":
			j := int(num(3))
			err := nw.DiffIter(s.ctx, old, func(added, removed bool, key, av, rv interface{}) (bool, error) {
				evs = append(evs, s.evString(added, removed, key, av, rv))
				if len(evs) > j {
					if t[0] == "differr" {
						return true, errStop
					}
					return false, nil
				}
				return true, nil
			})
			exp := want
			hit := len(want) > j
			if hit {
				exp = want[:j+1]
			}
			if strings.Join(evs, " ") != strings.Join(exp, " ") {
				viol = fmt.Sprintf("callback stopping at event %d saw [%s], expected [%s]", j, strings.Join(evs, " "), strings.Join(exp, " "))
			}
			res := "ok"
			if t[0] == "differr" && hit {
				if err == nil || !errors.Is(err, errStop) {
					viol = fmt.Sprintf("callback error not returned (got %v)", err)
				}
				res = "cberr"
			} else if err != nil {
				viol = "diff failed: " + err.Error()
				res = errClass(err)
			}
			return res + " " + strings.Join(evs, " "), viol, true
		}
		return strings.Join(evs, " "), viol, true
	case "cur":
		m := tree(1)
		if m == nil {
			return "bad-slot", "", true
		}
		c, err := m.Cursor(s.ctx)
		if err != nil {
			return errClass(err), "Cursor failed: " + err.Error(), true
		}
		o := s.Oracle[int(num(1))]
		s.curs[int(num(2))] = &curState{c: c, keys: sortedKeys64(o), vals: copyMap(o), pos: -1, height: int(m.Height())}
		return "ok", "", true
	case "cmin", "cmax", "cfwd", "cbwd", "cceil", "cget":
		cs := s.curs[int(num(1))]
		if cs == nil {
			return "bad-slot", "", true
		}
		var err error
		n := len(cs.keys)
		before := *cs
		switch t[0] {
		case "cmin":
			err = cs.c.Min(s.ctx)
			cs.pos, cs.off, cs.set = 0, n == 0, true
		case "cmax":
			err = cs.c.Max(s.ctx)
			cs.pos, cs.off, cs.set = n-1, n == 0, true
		case "cceil":
			k := num(2)
			err = cs.c.Ceil(s.ctx, s.Cfg.Key(k))
			cs.pos = sort.Search(n, func(i int) bool { return cs.keys[i] >= k })
			cs.off = cs.pos >= n
			cs.set = true
		case "cfwd":
			err = cs.c.Forward(s.ctx)
			if cs.set && !cs.off {
				cs.pos++
				cs.off = cs.pos >= n
			}
		case "cbwd":
			err = cs.c.Backward(s.ctx)
			if cs.set && !cs.off {
				cs.pos--
				cs.off = cs.pos < 0
			}
		}
		if err != nil {
			// a failed call does not move the cursor: the same call, retried, gives the normal result
			cs.pos, cs.off, cs.set = before.pos, before.off, before.set
			return errClass(err), "cursor call failed on a healthy store: " + err.Error(), true
		}
		k, v, ok := cs.c.Get()
		if !ok {
			obs = "none"
			if !cs.off && cs.placed() {
				viol = fmt.Sprintf("cursor reports no entry, sorted sequence is at key %d", cs.keys[cs.pos])
			}
			return obs, viol, true
		}
		kn, vn := s.Cfg.KeyNat(k), s.Cfg.ValNat(v)
		obs = fmt.Sprintf("%d=%d", kn, vn)
		if cs.placed() {
			if cs.off {
				viol = "cursor reports entry " + obs + " after stepping off the end"
			} else if cs.keys[cs.pos] != kn || cs.vals[kn] != vn {
				viol = fmt.Sprintf("cursor at %s, sorted sequence is at %d=%d", obs, cs.keys[cs.pos], cs.vals[cs.keys[cs.pos]])
			}
		}
		return obs, viol, true
	case "cwalk":
		// cwalk <tree> <probe> <moves f|b...>: a fresh cursor placed by Ceil, then moved; the
		// entries read after each call, against the sorted Go map (used under injected faults)
		m := tree(1)
		if m == nil {
			return "bad-slot", "", true
		}
		o := s.Oracle[int(num(1))]
		keys := sortedKeys64(o)
		// C16's catch-all clause on navigation: no call reads more than one node per level
		budget := func(what string, limit int) {
			if n := len(s.Store.TakeLoads()); n > limit && viol == "" && s.Cache == nil {
				viol = fmt.Sprintf("%s read %d nodes of a tree of height %d", what, n, m.Height())
			}
		}
		s.Store.TakeLoads()
		c, err := m.Cursor(s.ctx)
		if err != nil {
			return errClass(err), "Cursor failed: " + err.Error(), true
		}
		budget("Cursor()", 1)
		k := num(2)
		if err := c.Ceil(s.ctx, s.Cfg.Key(k)); err != nil {
			return errClass(err), "Ceil failed: " + err.Error(), true
		}
		budget("Ceil", int(m.Height())+1)
		pos := sort.Search(len(keys), func(i int) bool { return keys[i] >= k })
		off := pos >= len(keys)
		var got []string
		read := func() {
			kk, vv, ok := c.Get()
			if !ok {
				got = append(got, "none")
				if !off && viol == "" {
					viol = fmt.Sprintf("cursor reports no entry, sorted sequence is at key %d", keys[pos])
				}
				return
			}
			kn, vn := s.Cfg.KeyNat(kk), s.Cfg.ValNat(vv)
			got = append(got, fmt.Sprintf("%d=%d", kn, vn))
			if viol == "" && (off || keys[pos] != kn || o[kn] != vn) {
				viol = fmt.Sprintf("cursor at %d=%d, sorted sequence says otherwise (position %d, off=%v)", kn, vn, pos, off)
			}
		}
		read()
		moves := ""
		if len(t) > 3 {
			moves = t[3]
		}
		for _, mv := range moves {
			if mv == 'f' {
				err = c.Forward(s.ctx)
				if !off {
					pos++
					off = pos >= len(keys)
				}
			} else {
				err = c.Backward(s.ctx)
				if !off {
					pos--
					off = pos < 0
				}
			}
			if err != nil {
				return errClass(err), "cursor move failed: " + err.Error(), true
			}
			budget("a cursor move", int(m.Height())+1)
			read()
		}
		return strings.Join(got, ","), viol, true
	case "seek", "seekstop":
		m := tree(1)
		if m == nil {
			return "bad-slot", "", true
		}
		k := num(2)
		stop := -1
		if t[0] == "seekstop" {
			stop = int(num(3))
		}
		var got []string
		done, after := false, 0
		err := m.SeekIter(s.ctx, s.Cfg.Key(k), func(key, val interface{}) error {
			if done {
				after++ // the callback has signalled done: it must not be called again
				return mast.ErrIterDone
			}
			if stop >= 0 && len(got) >= stop {
				done = true
				return mast.ErrIterDone
			}
			got = append(got, fmt.Sprintf("%d=%d", s.Cfg.KeyNat(key), s.Cfg.ValNat(val)))
			return nil
		})
		if err != nil {
			return errClass(err), "SeekIter failed on a healthy store: " + err.Error(), true
		}
		if after > 0 {
			viol = fmt.Sprintf("SeekIter called the callback %d more time(s) after it had signalled done", after)
		}
		o := s.Oracle[int(num(1))]
		var want []string
		for _, kk := range sortedKeys64(o) {
			if kk >= k && (stop < 0 || len(want) < stop) {
				want = append(want, fmt.Sprintf("%d=%d", kk, o[kk]))
			}
		}
		obs = "[" + strings.Join(got, ",") + "]"
		if viol == "" && obs != "["+strings.Join(want, ",")+"]" {
			viol = fmt.Sprintf("SeekIter from %d yields %s, entries not smaller than the probe are [%s]", k, obs, strings.Join(want, ","))
		}
		return obs, viol, true
	}
	return "", "", false
}

// placed: the oracle position is defined only once the cursor has been placed by
// Min / Max / Ceil (the position right after Cursor() is not constrained by C10).
func (cs *curState) placed() bool { return cs.set }
