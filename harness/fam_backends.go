package main

import (
	"bytes"
	"context"
	"encoding/hex"
	"errors"
	"fmt"
	"io"
	"math/rand"
	"os"
	"path/filepath"
	"strconv"
	"strings"
	"sync"

	"github.com/aws/aws-sdk-go/aws"
	"github.com/aws/aws-sdk-go/aws/awserr"
	"github.com/aws/aws-sdk-go/aws/request"
	"github.com/aws/aws-sdk-go/service/s3"
	"github.com/jrhy/mast"
	mfile "github.com/jrhy/mast/persist/file"
	ms3 "github.com/jrhy/mast/persist/s3"
)

// fakeS3 is a recording in-process S3Interface with error injection.
type fakeS3 struct {
	mu       sync.Mutex
	objects  map[string][]byte // "bucket\x00key"
	calls    []string          // "PUT bucket key" / "GET bucket key"
	failNext error
	// failN: the next failN calls fail with failErr (a service that answers 503 a few times)
	failN   int
	failErr error
	// failBody: the next GET succeeds but its body fails after that many bytes
	failBody int // -1 = off
	gets     int
}

// chunkReader hands out the object in small pieces (an HTTP body does not arrive in one Read)
// and can fail midway.
type chunkReader struct {
	b      []byte
	chunk  int
	failAt int // -1 = never
	read   int
	// ctx: the context of the request that produced this body; as over a real HTTP transport, the
	// body can only be read while that context is live
	ctx aws.Context
}

func (c *chunkReader) Read(p []byte) (int, error) {
	if c.ctx != nil {
		if err := c.ctx.Err(); err != nil {
			return 0, err
		}
	}
	if c.failAt >= 0 && c.read >= c.failAt {
		return 0, errors.New("injected S3 body failure")
	}
	if len(c.b) == 0 {
		return 0, io.EOF
	}
	n := c.chunk
	if n > len(c.b) {
		n = len(c.b)
	}
	if n > len(p) {
		n = len(p)
	}
	if c.failAt >= 0 && c.read+n > c.failAt {
		n = c.failAt - c.read
		if n == 0 {
			return 0, errors.New("injected S3 body failure")
		}
	}
	copy(p, c.b[:n])
	c.b = c.b[n:]
	c.read += n
	return n, nil
}
func (c *chunkReader) Close() error { return nil }

func (f *fakeS3) take() error {
	if f.failN > 0 {
		f.failN--
		return f.failErr
	}
	e := f.failNext
	f.failNext = nil
	return e
}

func (f *fakeS3) DeleteObjectWithContext(ctx aws.Context, in *s3.DeleteObjectInput, _ ...request.Option) (*s3.DeleteObjectOutput, error) {
	return &s3.DeleteObjectOutput{}, nil
}

func (f *fakeS3) GetObjectWithContext(ctx aws.Context, in *s3.GetObjectInput, _ ...request.Option) (*s3.GetObjectOutput, error) {
	f.mu.Lock()
	defer f.mu.Unlock()
	f.calls = append(f.calls, "GET "+*in.Bucket+" "+*in.Key)
	if e := f.take(); e != nil {
		return nil, e
	}
	b, ok := f.objects[*in.Bucket+"\x00"+*in.Key]
	if !ok {
		return nil, errors.New("NoSuchKey")
	}
	f.gets++
	fb := f.failBody
	f.failBody = -1
	out := &s3.GetObjectOutput{Body: &chunkReader{b: b, chunk: []int{1, 3, 7, 512, 1 << 20}[f.gets%5], failAt: fb, ctx: ctx}}
	if f.gets%3 != 0 { // an answer need not carry a Content-Length (chunked transfer, hand-written clients)
		cl := int64(len(b))
		out.ContentLength = &cl
	}
	return out, nil
}

func (f *fakeS3) PutObjectWithContext(ctx aws.Context, in *s3.PutObjectInput, _ ...request.Option) (*s3.PutObjectOutput, error) {
	b, err := io.ReadAll(in.Body)
	if err != nil {
		return nil, err
	}
	f.mu.Lock()
	defer f.mu.Unlock()
	f.calls = append(f.calls, "PUT "+*in.Bucket+" "+*in.Key)
	if e := f.take(); e != nil {
		return nil, e
	}
	f.objects[*in.Bucket+"\x00"+*in.Key] = b
	return &s3.PutObjectOutput{}, nil
}

type backendExec struct {
	dir       string
	backends  map[string]mast.Persist
	s3f       *fakeS3
	written   map[string]map[string][]byte // per backend: what a successful Store wrote
	failed    bool                         // the last op had an injected backend error
	plainBody bool                         // the last bloadbody met an empty object and was an ordinary load
	flakyOK   bool                         // the last bstoreflaky / bloadflaky reported success
	held      []heldBytes                  // what earlier Loads returned (the caller still holds it)
}

// heldBytes: a byte slice an earlier Load returned, and a private copy of what it held then.
type heldBytes struct {
	what string
	got  []byte
	copy []byte
}

// checkHeld: what a Load returned belongs to the caller; no later call of the backend may change it.
func (e *backendExec) checkHeld() string {
	for _, h := range e.held {
		if !bytes.Equal(h.got, h.copy) {
			return "the bytes returned by an earlier load (" + h.what + ") changed during a later backend call"
		}
	}
	return ""
}

const s3Bucket, s3Prefix = "bucket-b", "pre/fix-"

func newBackendExec() *backendExec {
	dir, err := os.MkdirTemp("", "verif-backends-")
	if err != nil {
		panic(err)
	}
	e := &backendExec{dir: dir, backends: map[string]mast.Persist{}, written: map[string]map[string][]byte{}}
	e.backends["mem"] = mast.NewInMemoryStore()
	os.Mkdir(filepath.Join(dir, "nodes"), 0755)
	e.backends["file"] = mfile.NewPersistForPath(filepath.Join(dir, "nodes"))
	// a base path that is a regular file, not a directory
	os.WriteFile(filepath.Join(dir, "notadir"), []byte("x"), 0644)
	e.backends["filebad"] = mfile.NewPersistForPath(filepath.Join(dir, "notadir"))
	e.s3f = &fakeS3{objects: map[string][]byte{}, failBody: -1}
	p := ms3.NewPersist(e.s3f, "http://endpoint", s3Bucket, s3Prefix)
	e.backends["s3"] = &p
	for k := range e.backends {
		e.written[k] = map[string][]byte{}
	}
	return e
}

func (e *backendExec) Close() { os.RemoveAll(e.dir) }

func (e *backendExec) Exec(line string) (obs, viol string) {
	defer func() {
		if p := recover(); p != nil {
			obs = "panic " + fmt.Sprint(p)
			viol = "backend call panicked: " + obs
		}
		if viol == "" {
			viol = e.checkHeld()
		}
	}()
	ctx := context.Background()
	t := strings.Fields(line)
	e.failed = false
	switch t[0] {
	case "bstore", "bstorefail", "bstorepar":
		be := e.backends[t[1]]
		var b []byte
		if t[3] != "-" {
			b, _ = hex.DecodeString(t[3])
		}
		if t[0] == "bstorefail" {
			e.s3f.failNext = errors.New("injected S3 failure")
			e.failed = true
		}
		ncalls := len(e.s3f.calls)
		var err error
		if t[0] == "bstorepar" {
			n, _ := strconv.Atoi(t[4])
			var wg sync.WaitGroup
			errs := make([]error, n)
			for i := 0; i < n; i++ {
				wg.Add(1)
				go func(i int) {
					defer wg.Done()
					errs[i] = be.Store(ctx, t[2], b)
				}(i)
			}
			wg.Wait()
			for _, x := range errs {
				if x != nil {
					err = x
				}
			}
		} else {
			err = be.Store(ctx, t[2], b)
		}
		if t[1] == "filebad" {
			e.failed = true
			if err == nil {
				return "ok", "file store reported success although its base path is not a directory (nothing can have been written)"
			}
			return "err", ""
		}
		if t[0] == "bstorefail" {
			if err == nil {
				return "ok", "backend error was not returned to the caller"
			}
			return "err", ""
		}
		if err != nil {
			return "err", "store failed on a healthy backend: " + err.Error()
		}
		if t[1] == "s3" {
			for _, c := range e.s3f.calls[ncalls:] {
				if c != "PUT "+s3Bucket+" "+s3Prefix+t[2] {
					viol = "S3 backend touched " + c + ", expected PUT " + s3Bucket + " " + s3Prefix + t[2]
				}
			}
		}
		e.written[t[1]][t[2]] = b
		return "ok", viol
	case "bstoreflaky", "bloadflaky":
		// the service fails the next k requests with an error of the given kind — each failing PUT
		// after the request body has been consumed, as over HTTP — and is healthy again afterwards.
		// The call may report the error (the unchanged code does) or, if it tries again, succeed:
		// a reported success must be a complete write / the exact bytes.
		be := e.backends["s3"]
		k, _ := strconv.Atoi(t[3])
		if t[2] == "plain" {
			e.s3f.failErr = errors.New("injected S3 failure")
		} else {
			e.s3f.failErr = awserr.New(t[2], "injected S3 failure", nil)
		}
		e.s3f.failN = k
		e.failed = true
		key := s3Bucket + "\x00" + s3Prefix + t[4]
		if t[0] == "bstoreflaky" {
			var b []byte
			if t[5] != "-" {
				b, _ = hex.DecodeString(t[5])
			}
			err := be.Store(ctx, t[4], b)
			e.s3f.failN = 0
			e.flakyOK = err == nil
			if err != nil {
				return "err", ""
			}
			e.s3f.mu.Lock()
			got, ok := e.s3f.objects[key]
			e.s3f.mu.Unlock()
			if !ok || !bytes.Equal(got, b) {
				return "ok", fmt.Sprintf("Store reported success after %d transient S3 failure(s) (%s), but the object holds %d of the %d bytes", k, t[2], len(got), len(b))
			}
			e.written["s3"][t[4]] = b
			return "ok", ""
		}
		b, err := be.Load(ctx, t[4])
		e.s3f.failN = 0
		e.flakyOK = err == nil
		if err != nil {
			return "err", ""
		}
		want, ok := e.written["s3"][t[4]]
		if !ok {
			return "ok " + hexOrDash(b), "load of a name never written returned data instead of an error"
		}
		if !bytes.Equal(b, want) {
			return "ok " + hexOrDash(b), fmt.Sprintf("after %d transient S3 failure(s) (%s) Load returned %d bytes that differ from the %d bytes written", k, t[2], len(b), len(want))
		}
		return "ok " + hexOrDash(b), ""
	case "bload", "bloadfail", "bloadbody":
		be := e.backends[t[1]]
		if t[0] == "bloadfail" {
			e.s3f.failNext = errors.New("injected S3 failure")
			e.failed = true
		}
		if t[0] == "bloadbody" {
			// the GET succeeds, the body fails after a few bytes (a connection reset midway): unless
			// the object is shorter than that, Load must return an error, never a prefix
			want, written := e.written[t[1]][t[2]]
			e.plainBody = written && len(want) == 0
			if !e.plainBody {
				cut, _ := strconv.Atoi(t[3])
				if len(want) > 0 {
					cut = cut % len(want)
				}
				e.s3f.failBody = cut
				e.failed = true
				b, err := be.Load(ctx, t[2])
				e.s3f.failBody = -1
				if !written {
					return "err", ""
				}
				if err == nil {
					return "ok", fmt.Sprintf("the S3 body failed after %d of %d bytes, Load returned %d bytes and no error", cut, len(want), len(b))
				}
				return "err", ""
			}
			// (an empty object has no "midway": an ordinary load)
		}
		ncalls := len(e.s3f.calls)
		b, err := be.Load(ctx, t[2])
		if t[0] == "bloadfail" {
			if err == nil {
				return "ok", "backend error was not returned to the caller"
			}
			return "err", ""
		}
		if t[1] == "s3" {
			for _, c := range e.s3f.calls[ncalls:] {
				if c != "GET "+s3Bucket+" "+s3Prefix+t[2] {
					viol = "S3 backend touched " + c + ", expected GET " + s3Bucket + " " + s3Prefix + t[2]
				}
			}
		}
		want, ok := e.written[t[1]][t[2]]
		if err != nil {
			if ok {
				viol = "load of a successfully written name failed: " + err.Error()
			}
			return "err", viol
		}
		if !ok {
			return "ok " + hexOrDash(b), "load of a name never written returned data instead of an error"
		}
		if !bytes.Equal(b, want) {
			viol = fmt.Sprintf("load returned %d bytes that differ from the %d bytes written", len(b), len(want))
		}
		if len(e.held) < 64 {
			e.held = append(e.held, heldBytes{t[1] + " " + t[2], b, append([]byte(nil), b...)})
		}
		return "ok " + hexOrDash(b), viol
	}
	return "bad-op", ""
}

func hexOrDash(b []byte) string {
	if len(b) == 0 {
		return "-"
	}
	return hex.EncodeToString(b)
}

func (e *backendExec) ModelLine(line string) string {
	t := strings.Fields(line)
	switch t[0] {
	case "bstore", "bstorepar":
		if t[1] == "filebad" {
			return "kverr"
		}
		return "kvstore " + t[1] + " " + t[2] + " " + t[3]
	case "bloadbody":
		if e.plainBody {
			return "kvload " + t[1] + " " + t[2]
		}
		return "kverr"
	case "bstorefail", "bloadfail":
		return "kverr"
	case "bstoreflaky":
		if e.flakyOK {
			return "kvstore s3 " + t[4] + " " + t[5]
		}
		return "kverr"
	case "bloadflaky":
		if e.flakyOK {
			return "kvload s3 " + t[4]
		}
		return "kverr"
	case "bload":
		return "kvload " + t[1] + " " + t[2]
	}
	return line
}

const nameAlphabet = "ABCDEFGHIJKLMNOPQRSTUVWXYZabcdefghijklmnopqrstuvwxyz0123456789-_"

func genBackendCase(r *rand.Rand) Case {
	var names []string
	for i := 0; i < 4+r.Intn(6); i++ {
		b := make([]byte, 43)
		for j := range b {
			b[j] = nameAlphabet[r.Intn(64)]
		}
		if r.Intn(5) == 0 { // names that begin with '-' or '_' and all-same names
			b[0] = "-_"[r.Intn(2)]
		}
		names = append(names, string(b))
	}
	payload := func() string {
		switch r.Intn(6) {
		case 0:
			return "-"
		case 1:
			b := make([]byte, 1<<uint(10+r.Intn(8))) // up to 128 KiB here; 1 MiB in the thorough tier below
			r.Read(b)
			return hex.EncodeToString(b)
		default:
			b := make([]byte, 1+r.Intn(300))
			r.Read(b)
			return hex.EncodeToString(b)
		}
	}
	content := map[string]string{} // a name always carries the same bytes (content addressing)
	var ops []string
	bes := []string{"mem", "file", "s3"}
	for i := 0; i < 30+r.Intn(40); i++ {
		be := pick(r, bes)
		n := pick(r, names)
		if _, ok := content[n]; !ok {
			content[n] = payload()
		}
		switch r.Intn(12) {
		case 0, 1, 2, 3:
			ops = append(ops, fmt.Sprintf("bstore %s %s %s", be, n, content[n]))
		case 4:
			ops = append(ops, fmt.Sprintf("bstorepar %s %s %s %d", be, n, content[n], 2+r.Intn(6)))
		case 5:
			ops = append(ops, fmt.Sprintf("bstorefail s3 %s %s", n, content[n]))
		case 6:
			if r.Intn(2) == 0 {
				ops = append(ops, fmt.Sprintf("bloadbody s3 %s %d", n, r.Intn(1000)))
			} else {
				ops = append(ops, fmt.Sprintf("bloadfail s3 %s", n))
			}
		case 7:
			if r.Intn(2) == 0 {
				ops = append(ops, fmt.Sprintf("bstore filebad %s %s", n, content[n]))
			} else {
				kind := pick(r, []string{"SlowDown", "ServiceUnavailable", "InternalError", "RequestTimeout", "RequestError", "Throttling", "plain"})
				if r.Intn(3) == 0 {
					ops = append(ops, fmt.Sprintf("bloadflaky s3 %s %d %s", kind, 1+r.Intn(3), n))
				} else {
					ops = append(ops, fmt.Sprintf("bstoreflaky s3 %s %d %s %s", kind, 1+r.Intn(3), n, content[n]))
				}
			}
		default:
			ops = append(ops, fmt.Sprintf("bload %s %s", be, n))
		}
	}
	return Case{Cfg{BF: 16, Fmt: "bin", KK: "u64", VKind: "u64", Cache: "none"}, ops}
}

func famBackends(f *FamCtx) {
	f.Report.Rule = "random sequences of Store / Load (sequential, and 2-7 concurrent Stores of the same name and bytes) on the in-memory store, the file store in a fresh directory (and one whose base path is a regular file), and the S3 store over a recording fake S3Interface with injected Put/Get failures, bodies that arrive in pieces of 1 / 3 / 7 / 512 bytes and bodies that fail midway; names from the 43-character node-name alphabet (also starting with - or _), payloads empty / binary / up to 128 KiB (1 MiB in the thorough tier); every answer compared with the Lean key-value contract model and with what was written; the S3 bucket and key of every call checked; non-trivial = every case (30-70 operations over 3 backends)"
	var execs []*backendExec
	rn := Runner{Mk: func(Cfg) Executor { e := newBackendExec(); execs = append(execs, e); return e }}
	f.Gen = func() Case { return genBackendCase(f.Rand) }
	n := f.N(40, 1500)
	for i := 0; i < n; i++ {
		f.RunTreeCase(f.Gen(), rn, func(CaseStats) bool { return true })
		for _, e := range execs {
			e.Close()
		}
		execs = nil
	}
	if !f.Quick() { // one large payload per backend
		b := make([]byte, 1<<20)
		f.Rand.Read(b)
		hx := hex.EncodeToString(b)
		nm := strings.Repeat("A", 43)
		c := Case{Cfg{BF: 16, Fmt: "bin", KK: "u64", VKind: "u64", Cache: "none"}, []string{
			"bstore mem " + nm + " " + hx, "bload mem " + nm, "bstore file " + nm + " " + hx, "bload file " + nm, "bstore s3 " + nm + " " + hx, "bload s3 " + nm}}
		f.RunTreeCase(c, rn, func(CaseStats) bool { return true })
		for _, e := range execs {
			e.Close()
		}
	}
}
