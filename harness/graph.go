package main

import (
	"fmt"
	"sort"
	"strings"

	"github.com/jrhy/mast"
)

// recCache wraps a NodeCache and remembers every value it was given, so that cached node
// objects can be dumped (and stay alive, which keeps object addresses unique).
type recCache struct {
	inner mast.NodeCache
	seen  map[string]interface{}
	prev  *recCache // the cache this one replaced (`coldcache`): its objects are still dumped
}

func (c *recCache) Add(key, value interface{}) {
	c.seen[fmt.Sprint(key)] = value
	if c.inner != nil {
		c.inner.Add(key, value)
	}
}
func (c *recCache) Contains(key interface{}) bool {
	if c.inner == nil {
		return false
	}
	return c.inner.Contains(key)
}
func (c *recCache) Get(key interface{}) (interface{}, bool) {
	if c.inner == nil {
		return nil, false
	}
	return c.inner.Get(key)
}

type objInfo struct {
	idx    int
	snap   string
	shared bool
}

// graphTracker turns successive object-graph dumps into the primitive actions of the heap
// protocol model (alloc / write / publish).
type graphTracker struct {
	objs  map[uintptr]*objInfo
	names map[string]int
	keep  []interface{}
}

func newGraphTracker() *graphTracker {
	return &graphTracker{objs: map[uintptr]*objInfo{}, names: map[string]int{}}
}

func (g *graphTracker) nameID(n string) int {
	if id, ok := g.names[n]; ok {
		return id
	}
	id := len(g.names) + 1
	g.names[n] = id
	return id
}

func natList(xs []uint64) string {
	s := make([]string, len(xs))
	for i, x := range xs {
		s[i] = fmt.Sprint(x)
	}
	return strings.Join(s, ",")
}

// hsync computes the actions performed since the previous call, attributing writes to `actor`.
func (s *Session) hsync(actor int) string {
	g := s.graph
	type item struct {
		n     mast.VerifNode
		owner int
	}
	var items []item
	seenNow := map[uintptr]bool{}
	var chain []*recCache
	if rc, ok := s.Cache.(*recCache); ok {
		for ; rc != nil; rc = rc.prev {
			chain = append([]*recCache{rc}, chain...) // oldest first: object numbering is by first sight
		}
	}
	for _, rc := range chain {
		keys := make([]string, 0, len(rc.seen))
		for k := range rc.seen {
			keys = append(keys, k)
		}
		sort.Strings(keys)
		for _, k := range keys {
			if vn := mast.VerifCachedNode(rc.seen[k]); vn != nil && !seenNow[vn.ID] {
				seenNow[vn.ID] = true
				items = append(items, item{*vn, 0})
			}
		}
	}
	slots := make([]int, 0, len(s.Trees))
	for k := range s.Trees {
		slots = append(slots, k)
	}
	sort.Ints(slots)
	for _, sl := range slots {
		_, nodes := mast.VerifDump(s.Trees[sl])
		for i := len(nodes) - 1; i >= 0; i-- { // children before parents
			n := nodes[i]
			if seenNow[n.ID] {
				continue
			}
			seenNow[n.ID] = true
			items = append(items, item{n, sl + 1})
		}
	}
	var acts []string
	for _, it := range items {
		n := it.n
		ks := make([]uint64, len(n.Keys))
		vs := make([]uint64, len(n.Values))
		for i := range n.Keys {
			ks[i] = s.Cfg.KeyNat(n.Keys[i])
			vs[i] = s.Cfg.ValNat(n.Values[i])
		}
		links := make([]string, len(n.Links))
		hasPtr := false
		for i, l := range n.Links {
			switch l.Kind {
			case "nil":
				links[i] = "n"
			case "name":
				links[i] = fmt.Sprintf("r%d", g.nameID(l.Name))
			case "ptr":
				hasPtr = true
				if t, ok := g.objs[l.ID]; ok {
					links[i] = fmt.Sprintf("p%d", t.idx)
				} else {
					links[i] = "p999999" // target never seen: cannot satisfy any guard
				}
			}
		}
		b := func(x bool) string {
			if x {
				return "1"
			}
			return "0"
		}
		body := fmt.Sprintf("%s|%s|%s|%s|%s", b(n.Shared), b(n.Dirty), natList(ks), natList(vs), strings.Join(links, ","))
		info, known := g.objs[n.ID]
		switch {
		case !known:
			owner := it.owner
			if n.Shared {
				owner = 0
			}
			g.objs[n.ID] = &objInfo{idx: len(g.objs), snap: body, shared: n.Shared}
			acts = append(acts, fmt.Sprintf("A|%d|%s", owner, body))
		case info.snap != body:
			if !info.shared && n.Shared && !hasPtr {
				acts = append(acts, fmt.Sprintf("P|%d|%d|%s", actor+1, info.idx, strings.Join(links, ",")))
			} else {
				acts = append(acts, fmt.Sprintf("W|%d|%d|%s", actor+1, info.idx, body))
			}
			info.snap = body
			info.shared = n.Shared
		}
	}
	s.lastActs = len(acts)
	if len(acts) == 0 {
		return "hacts -"
	}
	return "hacts " + strings.Join(acts, ";")
}

// vcheck: every retained version (every tree slot, every root) still has exactly the contents
// it had when it was captured / last operated on.
func (s *Session) vcheck() string {
	slots := make([]int, 0, len(s.Trees))
	for k := range s.Trees {
		slots = append(slots, k)
	}
	sort.Ints(slots)
	for _, sl := range slots {
		l, err := s.iterList(s.Trees[sl])
		if err != nil {
			return fmt.Sprintf("tree %d can no longer be iterated: %v", sl, err)
		}
		if want := sortedList(s.Oracle[sl]); l != want {
			return fmt.Sprintf("tree %d changed without being operated on: holds %s, held %s", sl, l, want)
		}
	}
	rs := make([]int, 0, len(s.Roots))
	for k := range s.Roots {
		rs = append(rs, k)
	}
	sort.Ints(rs)
	for _, ri := range rs {
		m, err := s.Roots[ri].LoadMast(s.ctx, s.remoteConfig())
		if err != nil {
			return fmt.Sprintf("persisted root %d can no longer be loaded: %v", ri, err)
		}
		l, err := s.iterList(m)
		if err != nil {
			return fmt.Sprintf("persisted root %d can no longer be iterated: %v", ri, err)
		}
		if want := sortedList(s.ROracle[ri]); l != want {
			return fmt.Sprintf("persisted root %d changed: holds %s, held %s", ri, l, want)
		}
	}
	return ""
}
