package main

import (
	"fmt"
	"math/rand"
	"runtime/debug"
	"sort"
)

// genVersionsCase2: up to 6 live trees derived from one another by clone / persist+reload,
// interleaved mutations on any of them; after every operation the object graph is synced with
// the heap protocol model (hsync) and every retained version is re-read (vcheck).
func genSharingCase(r *rand.Rand, cfg Cfg) Case {
	cfg.Cache = pick(r, []string{"none", "recbig", "rectiny"})
	uni := Universe(r, cfg, 4+r.Intn(50))
	ops := []string{"new 0", "hsync 0"}
	slots := []int{0}
	has := map[int]bool{0: true}
	nroot := 0
	n := 15 + r.Intn(60)
	live := map[int]map[uint64]uint64{0: {}}
	rootMaps := map[int]map[uint64]uint64{}
	openCur := map[int]bool{}
	for i := 0; i < n; i++ {
		s := pick(r, slots)
		m := live[s]
		x := r.Intn(100)
		switch {
		case x < 41:
			k, v := pick(r, uni), uint64(r.Intn(3))
			m[k] = v
			ops = append(ops, opIns(s, k, v))
		case x < 45:
			// a change that is undone again, then persisted: the tree writes, from NEW node objects,
			// nodes whose names the store (and the cache, under another object) already has; other
			// versions that hold the earlier objects must not notice.  Sometimes followed by reading
			// an earlier root through a fresh cache (every node of it is decoded anew).
			if len(m) == 0 {
				continue
			}
			var ks []uint64
			for _, u := range uni {
				if _, ok := m[u]; ok {
					ks = append(ks, u)
				}
			}
			k := pick(r, ks)
			if r.Intn(2) == 0 {
				ops = append(ops, opDel(s, k, m[k]), fmt.Sprintf("hsync %d", s), "vcheck", opIns(s, k, m[k]))
			} else {
				ops = append(ops, opIns(s, k, m[k]+7), fmt.Sprintf("hsync %d", s), "vcheck", opIns(s, k, m[k]))
			}
			ops = append(ops, fmt.Sprintf("hsync %d", s), "vcheck", fmt.Sprintf("root %d %d", s, nroot))
			rootMaps[nroot] = copyMap(m)
			nroot++
			if r.Intn(2) == 0 {
				ops = append(ops, fmt.Sprintf("hsync %d", s), "vcheck")
				if cfg.Cache == "recbig" {
					ops = append(ops, "coldcache")
				}
				ri := r.Intn(nroot)
				d := r.Intn(6)
				ops = append(ops, fmt.Sprintf("load %d %d", ri, d))
				live[d] = copyMap(rootMaps[ri])
				if !has[d] {
					has[d] = true
					slots = append(slots, d)
				}
				s = d
			}
		case x < 65:
			if len(m) == 0 {
				continue
			}
			var ks []uint64
			for _, u := range uni {
				if _, ok := m[u]; ok {
					ks = append(ks, u)
				}
			}
			k := pick(r, ks)
			if r.Intn(3) == 0 {
				// remove the key of the highest layer: the top node may become entry-less and the
				// tree is then rebuilt one level lower out of its (possibly shared) children
				for _, u := range ks {
					if cfg.RefLayer(u) > cfg.RefLayer(k) {
						k = u
					}
				}
			}
			ops = append(ops, opDel(s, k, m[k]))
			delete(m, k)
		case x < 70:
			// a cursor captures the tree as it is now; it is walked later, after more modifications
			ops = append(ops, fmt.Sprintf("cur %d %d", s, s))
			openCur[s] = true
		case x < 74:
			var cs []int
			for c := range openCur {
				cs = append(cs, c)
			}
			if len(cs) == 0 {
				continue
			}
			sort.Ints(cs)
			c := pick(r, cs)
			ops = append(ops, pick(r, []string{fmt.Sprintf("cmin %d", c), fmt.Sprintf("cmax %d", c), fmt.Sprintf("cceil %d %d", c, pick(r, uni))}))
			for j := 0; j < 1+r.Intn(5); j++ {
				ops = append(ops, fmt.Sprintf("%s %d", pick(r, []string{"cfwd", "cfwd", "cbwd"}), c))
			}
			delete(openCur, c) // a walked cursor may be off an end: open a new one next time
		case x < 78:
			d := r.Intn(6)
			ops = append(ops, fmt.Sprintf("clone %d %d", s, d))
			live[d] = copyMap(m)
			if !has[d] {
				has[d] = true
				slots = append(slots, d)
			}
			s = d
		case x < 90:
			ops = append(ops, fmt.Sprintf("root %d %d", s, nroot))
			rootMaps[nroot] = copyMap(m)
			nroot++
		default:
			if nroot == 0 {
				continue
			}
			ri := r.Intn(nroot)
			d := r.Intn(6)
			ops = append(ops, fmt.Sprintf("load %d %d", ri, d))
			live[d] = copyMap(rootMaps[ri])
			if !has[d] {
				has[d] = true
				slots = append(slots, d)
			}
			s = d
		}
		ops = append(ops, fmt.Sprintf("hsync %d", s), "vcheck")
	}
	return Case{cfg, ops}
}

// genInteriorDeleteCase: a multi-level version is persisted and loaded twice through one shared
// cache; one of the loaded trees then deletes its keys from the highest layer downwards (every
// such delete merges two children that are cached, shared node objects), the other one is
// modified afterwards; every retained version is re-read after every operation.
func genInteriorDeleteCase(r *rand.Rand, cfg Cfg) Case {
	cfg.Cache = pick(r, []string{"recbig", "recbig", "rectiny"})
	cfg.BF = pick(r, []uint{2, 3, 4})
	uni := Universe(r, cfg, 25+r.Intn(50))
	ops := []string{"new 0", "hsync 0"}
	m := map[uint64]uint64{}
	for _, k := range uni {
		m[k] = uint64(r.Intn(3))
		ops = append(ops, opIns(0, k, m[k]))
	}
	ops = append(ops, "hsync 0", "root 0 0", "hsync 0", "load 0 1", "hsync 1", "load 0 2", "hsync 2", "vcheck")
	// keys by descending layer
	ks := append([]uint64{}, uni...)
	for i := 0; i < len(ks); i++ {
		for j := i + 1; j < len(ks); j++ {
			if cfg.RefLayer(ks[j]) > cfg.RefLayer(ks[i]) {
				ks[i], ks[j] = ks[j], ks[i]
			}
		}
	}
	nd := 1 + r.Intn(6)
	if nd > len(ks) {
		nd = len(ks)
	}
	for _, k := range ks[:nd] {
		ops = append(ops, opDel(1, k, m[k]), "hsync 1", "vcheck")
	}
	// now the other loaded tree works on the (shared) nodes next to the deleted keys: first the
	// same kind of deletes (in another order), then random work
	perm := r.Perm(nd)
	for _, pi := range perm[:1+r.Intn(nd)] {
		ops = append(ops, opDel(2, ks[pi], m[ks[pi]]), "hsync 2", "vcheck")
	}
	for i := 0; i < 3+r.Intn(6); i++ {
		k := pick(r, uni)
		if r.Intn(3) == 0 {
			ops = append(ops, opDel(2, k, m[k]))
		} else {
			ops = append(ops, opIns(2, k, uint64(5+r.Intn(3))))
		}
		ops = append(ops, "hsync 2", "vcheck")
	}
	ops = append(ops, "root 2 1", "hsync 2", "pshape 1", "root 1 2", "hsync 1", "pshape 2", "vcheck")
	return Case{cfg, ops}
}

func famVersions(f *FamCtx) {
	debug.SetGCPercent(-1) // object addresses identify objects: nothing may be freed and reused
	f.Report.Rule = "up to 6 live trees derived from one another by Clone and by MakeRoot+LoadMast, mutations interleaved on any of them, with no cache, a large recording cache and a 2-entry evicting cache; after EVERY operation (a) the reachable object graphs of all trees and the cache are diffed against the previous dump and the resulting alloc/write/publish actions must pass the guards of the Lean heap protocol (`applyAct`), (b) every tree and every persisted root is re-read and compared with its contents at capture; non-trivial = reached height >= 1 and changed height"
	f.Gen = func() Case {
		if f.Rand.Intn(4) == 0 {
			return genInteriorDeleteCase(f.Rand, RandCfg(f.Rand))
		}
		return genSharingCase(f.Rand, RandCfg(f.Rand))
	}
	n := f.N(150, 6000)
	for i := 0; i < n; i++ {
		f.RunTreeCase(f.Gen(), exactRunner, multiLevel)
	}
}
