package main

import (
	"errors"
	"fmt"
	"sort"
	"strings"

	"github.com/jrhy/mast"
)

// baseInfo: the persisted version a tree slot was loaded from / last persisted as, and what
// has been modified since (C13).
type baseInfo struct {
	link          string
	height        int
	contents      map[uint64]uint64
	modified      map[uint64]bool
	byPointer     bool                  // the tree is a clone that has not been persisted itself: it holds the version's top node by pointer
	ranges        map[string][2]*uint64 // name -> open bounds given by the parent (nil = unbounded)
	reach         map[string]bool
	heightChanged bool // the height differed from the base version's at some point since
}

func (s *Session) reachOf(link string, ranges map[string][2]*uint64) map[string]bool {
	out := map[string]bool{}
	var rec func(name string, lo, hi *uint64)
	rec = func(name string, lo, hi *uint64) {
		out[name] = true
		if ranges != nil {
			ranges[name] = [2]*uint64{lo, hi}
		}
		b := s.Store.Get(name)
		if b == nil {
			return
		}
		n, err := s.Cfg.DecodeNode(b)
		if err != nil || len(n.Links) != len(n.Keys)+1 {
			return
		}
		for i, l := range n.Links {
			if l == "" {
				continue
			}
			clo, chi := lo, hi
			if i > 0 {
				k := n.Keys[i-1]
				clo = &k
			}
			if i < len(n.Keys) {
				k := n.Keys[i]
				chi = &k
			}
			rec(l, clo, chi)
		}
	}
	if link != "" {
		rec(link, nil, nil)
	}
	return out
}

func (s *Session) setBase(slot int, r *mast.Root) {
	b := &baseInfo{height: int(r.Height), contents: copyMap(s.Oracle[slot]), modified: map[uint64]bool{}, ranges: map[string][2]*uint64{}}
	if r.Link != nil {
		b.link = *r.Link
	}
	b.reach = s.reachOf(b.link, b.ranges)
	s.bases[slot] = b
}

func (s *Session) noteModified(slot int, k uint64) {
	if b := s.bases[slot]; b != nil {
		b.modified[k] = true
		if m := s.Trees[slot]; m != nil && int(m.Height()) != b.height {
			b.heightChanged = true
		}
	}
}

// checkIncremental evaluates C13 on one MakeRoot: what was written, against the base version.
func (s *Session) checkIncremental(slot int, r *mast.Root, calls []StoreCall) string {
	link := ""
	if r.Link != nil {
		link = *r.Link
	}
	reach := s.reachOf(link, nil)
	for _, c := range calls {
		if !reach[c.Name] {
			return "stored node " + c.Name + " is not reachable from the returned root"
		}
	}
	b := s.bases[slot]
	if b == nil {
		return ""
	}
	if len(b.modified) == 0 {
		if len(calls) != 0 {
			return fmt.Sprintf("nothing modified since the base version, yet %d nodes were written", len(calls))
		}
		if link != b.link || int(r.Height) != b.height {
			return "nothing modified since the base version, yet the root changed"
		}
		return ""
	}
	if int(r.Height) == b.height && !b.heightChanged {
		for _, c := range calls {
			if !b.reach[c.Name] {
				continue
			}
			rg := b.ranges[c.Name]
			hit := false
			for k := range b.modified {
				if (rg[0] == nil || *rg[0] <= k) && (rg[1] == nil || k <= *rg[1]) {
					hit = true
				}
			}
			if !hit {
				return "base node " + c.Name + " rewritten although no modified key lies in its key range"
			}
		}
		if len(calls) > (2*b.height+2)*len(b.modified) {
			return fmt.Sprintf("%d nodes written for %d modified keys at height %d", len(calls), len(b.modified), b.height)
		}
	}
	return ""
}

// checkClean: a tree reports itself clean only if its contents equal the base version.
func (s *Session) checkClean(slot int, dirty bool) string {
	b := s.bases[slot]
	if dirty || b == nil {
		return ""
	}
	if sortedList(b.contents) != sortedList(s.Oracle[slot]) {
		return "tree reports clean but its contents differ from the version it was loaded from / persisted as"
	}
	return ""
}

// difflinks: C07 on two persisted, unmodified tree slots.
// execDiffLinksStop: the link callback says "stop" (keepGoing=false) or fails after j events;
// DiffLinks must then return nil resp. that error, having delivered exactly the first events
// of the complete run.
func (s *Session) execDiffLinksStop(oslot, nslot, j int, fail bool) (string, string) {
	old, nw := s.Trees[oslot], s.Trees[nslot]
	if old == nil || nw == nil {
		return "bad-slot", ""
	}
	var full []string
	if err := nw.DiffLinks(s.ctx, old, func(rem bool, link interface{}) (bool, error) {
		full = append(full, fmt.Sprintf("%v:%v", rem, link))
		return true, nil
	}); err != nil {
		return errClass(err), "DiffLinks failed on a healthy store: " + err.Error()
	}
	var got []string
	calls := 0
	err := nw.DiffLinks(s.ctx, old, func(rem bool, link interface{}) (bool, error) {
		calls++
		if len(got) > j {
			return false, nil // (already stopped: counted below)
		}
		got = append(got, fmt.Sprintf("%v:%v", rem, link))
		if len(got) > j {
			if fail {
				return true, errStop
			}
			return false, nil
		}
		return true, nil
	})
	want := full
	hit := len(full) > j
	if hit {
		want = full[:j+1]
	}
	viol := ""
	switch {
	case calls > len(want):
		viol = fmt.Sprintf("the link callback was called %d time(s) after it had stopped the diff", calls-len(want))
	case strings.Join(got, " ") != strings.Join(want, " "):
		viol = fmt.Sprintf("a link callback stopping after %d events saw %d events that are not the first events of the complete run", j+1, len(got))
	case hit && fail && (err == nil || !errors.Is(err, errStop)):
		viol = fmt.Sprintf("the link callback's error was not returned (got %v)", err)
	case !(hit && fail) && err != nil:
		viol = "DiffLinks stopped by its callback returned an error: " + err.Error()
	}
	res := "ok"
	if hit && fail {
		res = "cberr"
	}
	return fmt.Sprintf("%s-%d", res, len(got)), viol
}

func (s *Session) execDiffLinks(oslot, nslot int) (string, string) {
	old, nw := s.Trees[oslot], s.Trees[nslot]
	if old == nil || nw == nil {
		return "bad-slot", ""
	}
	var evs []string
	var added, removed []string
	viol := ""
	err := nw.DiffLinks(s.ctx, old, func(rem bool, link interface{}) (bool, error) {
		name, ok := link.(string)
		if !ok {
			// A clone that was never persisted itself is not "a persisted version" held by name:
			// it holds the version's (clean, loaded) top node as an object, and the diff reports
			// that object.  It is read as the name it was loaded from; any other object is a
			// violation (C07: nodes are reported by name).
			side := s.bases[nslot]
			if rem {
				side = s.bases[oslot]
			}
			vn := mast.VerifCachedNode(link)
			if side != nil && side.byPointer && vn != nil && !vn.Dirty && vn.HasSource {
				name = vn.Source
			} else {
				if viol == "" {
					viol = fmt.Sprintf("node diff reported a link that is not a name (%T)", link)
				}
				name = fmt.Sprintf("%T", link)
			}
		}
		if rem {
			evs = append(evs, "-"+name)
			removed = append(removed, name)
		} else {
			evs = append(evs, "+"+name)
			added = append(added, name)
		}
		return true, nil
	})
	if err != nil {
		return errClass(err), "DiffLinks failed on a healthy store: " + err.Error()
	}
	obs := strings.Join(evs, " ")
	bo, bn := s.bases[oslot], s.bases[nslot]
	if viol != "" || bo == nil || bn == nil || len(bo.modified) > 0 || len(bn.modified) > 0 {
		return obs, viol
	}
	check := func(what string, got []string, in, notIn map[string]bool) string {
		seen := map[string]bool{}
		for _, n := range got {
			if seen[n] && !s.transientFault {
				// (with a store that failed once during this very diff the property does not say
				// whether a name may be repeated; completeness and membership still apply)
				return what + " node " + n + " reported twice"
			}
			seen[n] = true
			if !in[n] {
				return what + " node " + n + " does not belong to that version"
			}
		}
		var missing []string
		for n := range in {
			if !notIn[n] && !seen[n] {
				missing = append(missing, n)
			}
		}
		sort.Strings(missing)
		if len(missing) > 0 {
			return what + " node " + missing[0] + " not reported"
		}
		return ""
	}
	if v := check("added", added, bn.reach, bo.reach); v != "" {
		return obs, v
	}
	if v := check("removed", removed, bo.reach, bn.reach); v != "" {
		return obs, v
	}
	// replica: a store holding the old version plus the added nodes must load the new one completely
	replica := NewRecStore("replica")
	for n := range bo.reach {
		replica.m[n] = s.Store.Get(n)
	}
	for _, n := range added {
		replica.m[n] = s.Store.Get(n)
	}
	cfg := s.remoteConfig()
	cfg.StoreImmutablePartsWith = replica
	cfg.NodeCache = nil
	link := bn.link
	r := &mast.Root{Size: uint64(len(bn.contents)), Height: uint8(bn.height), BranchFactor: s.Cfg.BF, NodeFormat: s.Cfg.NodeFormat()}
	if link != "" {
		r.Link = &link
	}
	m, err := r.LoadMast(s.ctx, cfg)
	if err != nil {
		return obs, "replica (old version + added nodes) cannot load the new root: " + err.Error()
	}
	got, err := s.iterList(m)
	if err != nil {
		return obs, "replica (old version + added nodes) cannot iterate the new version: " + err.Error()
	}
	if got != sortedList(bn.contents) {
		return obs, "replica iterates " + got + ", new version holds " + sortedList(bn.contents)
	}
	return obs, ""
}

// checkDiffCost: C15 on two persisted, unmodified versions read without a cache.
func (s *Session) checkDiffCost(oslot, nslot int, loaded []string) string {
	bo, bn := s.bases[oslot], s.bases[nslot]
	if bo == nil || bn == nil || len(bo.modified) > 0 || len(bn.modified) > 0 || s.Cfg.Cache != "none" {
		return ""
	}
	if bo.link == bn.link && bo.height == bn.height {
		if bo.byPointer || bn.byPointer {
			// a clone that was never persisted itself holds the top node as an object: the diff
			// cannot see that it is the other side's name and may read that one node
			if len(loaded) > 1 {
				return fmt.Sprintf("diff of a version with an unpersisted clone of itself read %d nodes", len(loaded))
			}
			return ""
		}
		if len(loaded) > 0 {
			return fmt.Sprintf("diff of a version with itself read %d nodes", len(loaded))
		}
		return ""
	}
	d := 0
	for n := range bo.reach {
		if !bn.reach[n] {
			d++
		}
	}
	for n := range bn.reach {
		if !bo.reach[n] {
			d++
		}
	}
	common := 0
	for _, n := range loaded {
		if bo.reach[n] && bn.reach[n] {
			common++
		}
	}
	if len(loaded) > 2*d+2 {
		return fmt.Sprintf("diff read %d distinct nodes (%d of them common to both versions), D=%d nodes belong to exactly one version: bound 2*D+2=%d exceeded", len(loaded), common, d, 2*d+2)
	}
	return ""
}
