package main

import (
	"context"
	"encoding/binary"
	"encoding/hex"
	"fmt"
	"math/rand"
	"strconv"
	"strings"
	"time"

	"github.com/jrhy/mast"
)

// badRootExec: builds a good persisted version, then loads perturbed roots / stores /
// configurations and records the outcome enum ok | err | panic | hang.
type badRootExec struct {
	cfg   Cfg
	store *RecStore
	root  *mast.Root
	keys  []uint64
	last  string // last observation, echoed to the model for cases the model does not cover
	// the last load met the recorded finding (the model is not consulted for it)
	lastKnown bool
}

var badRootKnown []knownHit

func encBinNode(keys, vals [][]byte, links []string, nlinks int) []byte {
	var buf []byte
	put := func(n int) {
		var tmp [10]byte
		k := binary.PutUvarint(tmp[:], uint64(n))
		buf = append(buf, tmp[:k]...)
	}
	put(len(keys))
	for _, k := range keys {
		put(len(k))
		buf = append(buf, k...)
	}
	put(len(vals))
	for _, v := range vals {
		put(len(v))
		buf = append(buf, v...)
	}
	put(nlinks)
	for i := 0; i < nlinks; i++ {
		l := ""
		if i < len(links) {
			l = links[i]
		}
		put(len(l))
		buf = append(buf, l...)
	}
	return buf
}

func (e *badRootExec) Exec(line string) (obs, viol string) {
	t := strings.Fields(line)
	switch t[0] {
	case "mk":
		// mk k1 k2 ... : a good version holding these keys
		e.store = NewRecStore("bad")
		s := NewSession(e.cfg)
		s.Store = e.store
		if o, v := s.Exec("new 0"); o != "ok" {
			return o, v
		}
		e.keys = nil
		for _, ks := range t[1:] {
			k, _ := strconv.ParseUint(ks, 10, 64)
			e.keys = append(e.keys, k)
			if o, v := s.Exec(opIns(0, k, 1)); !strings.HasPrefix(o, "ok") {
				return o, v
			}
		}
		if o, v := s.Exec("root 0 0"); v != "" {
			return o, v
		}
		e.root = s.Roots[0]
		return "ok", ""
	case "try":
		// try fmt=<s|same> kk=<kind|same> h=<n|same> bf=<n|same> order=<asc|desc> top=<same|missing|hex>
		if e.root == nil {
			return "bad-slot", ""
		}
		p := map[string]string{}
		for _, kv := range t[1:] {
			i := strings.IndexByte(kv, '=')
			p[kv[:i]] = kv[i+1:]
		}
		r := *e.root
		lcfg := e.cfg
		if p["fmt"] != "same" {
			r.NodeFormat = p["fmt"]
			if r.NodeFormat == "-" {
				r.NodeFormat = ""
			}
		}
		if p["kk"] != "same" {
			lcfg.KK = p["kk"]
		}
		if p["h"] != "same" {
			h, _ := strconv.Atoi(p["h"])
			r.Height = uint8(h)
		}
		if p["bf"] != "same" {
			b, _ := strconv.Atoi(p["bf"])
			r.BranchFactor = uint(b)
		}
		st := NewRecStore("bad2")
		for _, n := range e.store.Names() {
			st.m[n] = e.store.Get(n)
		}
		if r.Link != nil {
			switch {
			case p["top"] == "missing":
				delete(st.m, *r.Link)
			case p["top"] != "same":
				b, _ := hex.DecodeString(p["top"])
				if p["top"] == "-" {
					b = []byte{}
				}
				st.m[*r.Link] = b
			}
		}
		rc := &mast.RemoteConfig{KeysLike: lcfg.KeysLike(), ValuesLike: lcfg.ValuesLike(), StoreImmutablePartsWith: st}
		if p["cache"] == "warm" && p["top"] == "same" {
			// a node cache that a correctly configured reader has filled before: the mismatching
			// loader finds the top node there instead of decoding it
			cache := mast.NewNodeCache(1000)
			good := &mast.RemoteConfig{KeysLike: e.cfg.KeysLike(), ValuesLike: e.cfg.ValuesLike(), StoreImmutablePartsWith: st, NodeCache: cache}
			if gm, gerr := e.root.LoadMast(context.Background(), good); gerr == nil {
				_ = gm.Iter(context.Background(), func(interface{}, interface{}) error { return nil })
			}
			rc.NodeCache = cache
		}
		if p["order"] == "desc" {
			def := mast.DefaultKeyCompare(nil)
			rc.KeyCompare = func(a, b interface{}) (int, error) {
				c, err := def(a, b)
				return -c, err
			}
		}
		done := make(chan string, 1)
		go func() {
			defer func() {
				if pn := recover(); pn != nil {
					done <- "panic"
				}
			}()
			_, err := r.LoadMast(context.Background(), rc)
			if err != nil {
				done <- "err"
			} else {
				done <- "ok"
			}
		}()
		select {
		case obs = <-done:
		case <-time.After(5 * time.Second):
			obs = "hang"
		}
		e.last = obs
		bad, why := e.isBad(p, &r, lcfg, st)
		e.lastKnown = false
		if bad && obs != "err" {
			viol = fmt.Sprintf("root that %s was not rejected with an error: LoadMast outcome %s", why, obs)
			knownFmt := r.NodeFormat == "" || r.NodeFormat == "v1marshaler" || r.NodeFormat == "v1.1.5binary"
			if obs == "ok" && rc.NodeCache != nil && knownFmt && (lcfg.KK != e.cfg.KK || r.NodeFormat != e.root.NodeFormat) {
				// recorded finding: the top node is taken from a node cache that holds it decoded
				// under another key type or node format; the cache key does not include the decoding
				// configuration
				badRootKnown = append(badRootKnown, knownHit{line, "KF-cache-other-config: " + viol})
				e.lastKnown = true
				viol = ""
			}
		}
		return obs, viol
	}
	return "bad-op", ""
}

// isBad restates C19's list of rejecting conditions with the harness's own decoder and layer
// functions (independent of mast and of the Lean model).
func (e *badRootExec) isBad(p map[string]string, r *mast.Root, lcfg Cfg, st *RecStore) (bool, string) {
	switch r.NodeFormat {
	case "", "v1marshaler", "v1.1.5binary":
	default:
		return true, "names an unknown node format"
	}
	if r.BranchFactor < 2 {
		return false, "" // not among the listed conditions; observed only
	}
	if r.Link == nil {
		return false, ""
	}
	b := st.Get(*r.Link)
	if b == nil {
		return true, "points to a missing top node"
	}
	dc := lcfg
	dc.Fmt = "json"
	if r.NodeFormat == "v1.1.5binary" {
		dc.Fmt = "bin"
	}
	raw, err := dc.decodeCounts(b)
	if err != nil {
		return true, "has an undecodable top node"
	}
	if raw[0] != raw[1] || (raw[2] != 0 && raw[2] != raw[0]+1) {
		return true, "has a top node with mismatched entry and link counts"
	}
	n, err := dc.DecodeNode(b)
	if err != nil {
		return true, "has an undecodable top node"
	}
	for i := 1; i < len(n.Keys); i++ {
		asc := n.Keys[i-1] < n.Keys[i]
		if p["order"] == "desc" {
			asc = n.Keys[i-1] > n.Keys[i]
		}
		if !asc {
			return true, "has keys that are not strictly ascending under the configured key order"
		}
	}
	lc := lcfg
	lc.BF = r.BranchFactor
	for _, k := range n.Keys {
		if lc.RefLayer(k)&255 < int(r.Height) {
			return true, "has a key whose layer is below the recorded height"
		}
	}
	return false, ""
}

func (e *badRootExec) ModelLine(line string) string {
	t := strings.Fields(line)
	if t[0] != "try" || e.root == nil {
		return "defaults"[:0] + "kverr" // mk: the model has nothing to do; answer compared below is "ok" vs "err"?
	}
	p := map[string]string{}
	for _, kv := range t[1:] {
		i := strings.IndexByte(kv, '=')
		p[kv[:i]] = kv[i+1:]
	}
	fm := e.root.NodeFormat
	if p["fmt"] != "same" {
		fm = p["fmt"]
	}
	if fm == "" {
		fm = "-"
	}
	kk := e.cfg.KK
	if p["kk"] != "same" {
		kk = p["kk"]
	}
	h := fmt.Sprint(e.root.Height)
	if p["h"] != "same" {
		h = p["h"]
	}
	bf := fmt.Sprint(e.root.BranchFactor)
	if p["bf"] != "same" {
		bf = p["bf"]
	}
	link := "0"
	top := "missing"
	if e.root.Link != nil {
		link = "1"
		switch p["top"] {
		case "same":
			top = hex.EncodeToString(e.store.Get(*e.root.Link))
		case "missing":
		default:
			top = p["top"]
		}
	}
	if top == "" {
		top = "-"
	}
	if p["cache"] == "warm" && p["top"] == "same" {
		// the cached-loader model: the cache holds what a reader of the writer's configuration left
		return fmt.Sprintf("loadrootc %s %s %s %s %s %s %s %s %s", fm, kk, bf, h, p["order"], link, top, e.cfg.Fmt, e.cfg.KK)
	}
	return fmt.Sprintf("loadroot %s %s %s %s %s %s %s", fm, kk, bf, h, p["order"], link, top)
}

// decodeCounts returns the three element counts of a node without interpreting the elements.
func (c Cfg) decodeCounts(b []byte) ([3]int, error) {
	var out [3]int
	if c.Fmt == "bin" {
		rest := b
		for i := 0; i < 3; i++ {
			xs, r, err := readSlice(rest)
			if err != nil {
				return out, err
			}
			out[i] = len(xs)
			rest = r
		}
		return out, nil
	}
	n, err := jsonCounts(b)
	return n, err
}

func genBadRootCase(r *rand.Rand) Case {
	cfg := Cfg{BF: pick(r, []uint{2, 3, 4, 16}), Fmt: pick(r, []string{"bin", "bin", "json"}), KK: pick(r, []string{"vk", "u64", "i64", "str"}), VKind: "u64", Cache: "none"}
	uni := Universe(r, cfg, 3+r.Intn(40))
	ops := []string{"mk " + joinU(uni)}
	// a hand-encoded binary top node built from keys of the universe
	mkTop := func(kind string) string {
		ks := append([]uint64{}, uni...)
		r.Shuffle(len(ks), func(i, j int) { ks[i], ks[j] = ks[j], ks[i] })
		n := 1 + r.Intn(4)
		if n > len(ks) {
			n = len(ks)
		}
		ks = ks[:n]
		sortU(ks)
		var kb, vb [][]byte
		for _, k := range ks {
			kb = append(kb, jsonKey(cfg, k))
			vb = append(vb, []byte("1"))
		}
		nl := 0
		switch kind {
		case "good":
		case "unsorted":
			if len(kb) >= 2 {
				kb[0], kb[1] = kb[1], kb[0]
			}
		case "morekeys":
			vb = vb[:len(vb)-1]
		case "morelinks":
			nl = len(kb) + 2
		case "fewlinks":
			nl = len(kb)
			if nl == 0 {
				nl = 3
			}
		case "dupkey":
			if len(kb) >= 2 {
				kb[1] = kb[0]
			}
		}
		b := encBinNode(kb, vb, nil, nl)
		switch kind {
		case "truncated":
			b = b[:r.Intn(len(b))]
		case "bitflip":
			i := r.Intn(len(b))
			b[i] ^= 1 << uint(r.Intn(8))
		case "hugecount":
			b = append([]byte{0xff, 0xff, 0xff, 0xff, 0x7f}, b[1:]...)
		}
		if len(b) == 0 {
			return "-"
		}
		return hex.EncodeToString(b)
	}
	mkTopJSON := func(kind string) string {
		if kind == "missing" {
			return "missing"
		}
		ks := append([]uint64{}, uni...)
		r.Shuffle(len(ks), func(i, j int) { ks[i], ks[j] = ks[j], ks[i] })
		n := 1 + r.Intn(4)
		if n > len(ks) {
			n = len(ks)
		}
		ks = ks[:n]
		sortU(ks)
		var kb, vb []string
		for _, k := range ks {
			kb = append(kb, string(jsonKey(cfg, k)))
			vb = append(vb, "1")
		}
		nl := 0
		switch kind {
		case "unsorted":
			if len(kb) >= 2 {
				kb[0], kb[1] = kb[1], kb[0]
			}
		case "morekeys":
			vb = vb[:len(vb)-1]
		case "morelinks":
			nl = len(kb) + 2
		case "fewlinks":
			nl = len(kb)
		case "dupkey":
			if len(kb) >= 2 {
				kb[1] = kb[0]
			}
		}
		s := `{"Key":[` + strings.Join(kb, ",") + `],"Value":[` + strings.Join(vb, ",") + `]`
		if nl > 0 {
			ls := make([]string, nl)
			for i := range ls {
				ls[i] = "null"
			}
			s += `,"Link":[` + strings.Join(ls, ",") + `]`
		}
		s += "}"
		if kind == "truncated" {
			s = s[:r.Intn(len(s))]
		}
		if len(s) == 0 {
			return "-"
		}
		return hex.EncodeToString([]byte(s))
	}
	for i := 0; i < 12+r.Intn(12); i++ {
		p := map[string]string{"fmt": "same", "kk": "same", "h": "same", "bf": "same", "order": "asc", "top": "same"}
		switch r.Intn(9) {
		case 0:
			p["fmt"] = pick(r, []string{"v2", "V1Marshaler", "v1.1.5", "json", "-", "v1marshaler", "v1.1.5binary"})
		case 1:
			p["top"] = "missing"
		case 2:
			p["h"] = fmt.Sprint(r.Intn(5))
		case 3:
			p["bf"] = fmt.Sprint(pick(r, []int{2, 3, 4, 5, 16}))
		case 4:
			p["order"] = "desc"
		case 5:
			p["kk"] = pick(r, []string{"vk", "u64", "i64", "str"})
		default:
			if cfg.Fmt == "bin" {
				kinds := []string{"good", "unsorted", "morekeys", "morelinks", "fewlinks", "dupkey", "truncated", "hugecount"}
				if cfg.KK != "str" {
					// a flipped bit inside a string key gives another valid string outside the
					// harness's order-preserving key alphabet; numeric kinds have no such case
					kinds = append(kinds, "bitflip")
				}
				p["top"] = mkTop(pick(r, kinds))
				p["h"] = pick(r, []string{"same", "0", "0", "1"})
			} else {
				// hand-written top nodes in the canonical v1marshaler shape
				p["top"] = mkTopJSON(pick(r, []string{"good", "good", "unsorted", "morekeys", "morelinks", "fewlinks", "dupkey", "truncated", "missing"}))
				if p["top"] != "missing" {
					p["h"] = pick(r, []string{"same", "0", "0", "1"})
				}
			}
		}
		line := fmt.Sprintf("try fmt=%s kk=%s h=%s bf=%s order=%s top=%s", p["fmt"], p["kk"], p["h"], p["bf"], p["order"], p["top"])
		if p["top"] == "same" && r.Intn(2) == 0 {
			line += " cache=warm"
		}
		ops = append(ops, line)
	}
	return Case{cfg, ops}
}

var badRootRunner = Runner{Mk: func(c Cfg) Executor { return &badRootExec{cfg: c} }, Norm: func(line, obs string) string {
	if strings.HasPrefix(line, "mk") {
		return "ok" // the model takes no part in building the good version
	}
	return obs
}}

func famBadRoots(f *FamCtx) {
	f.Report.Rule = "a good persisted version, then LoadMast of perturbed roots (half of those that keep the stored top node also with a node cache warmed by a correctly configured reader): unknown/alternative format strings, missing top node, recorded height and branch factor changed, reversed KeyCompare, another key kind in the loader, hand-encoded top nodes of both formats (unsorted, duplicate key, more keys than values, too many / too few links, truncated; binary also bit-flipped and huge count); outcome enum ok|err|panic|hang compared with the Lean loader model (both formats; warm-cache loads with the cached-loader model `loadMastC`, whose cache entry is what a reader of the writer's configuration leaves) and with the harness's own restatement of C19's rejecting conditions; non-trivial = every case (each holds >= 12 perturbed loads)"
	rn := badRootRunner
	f.Sig = func(o Outcome) string {
		if strings.HasPrefix(o.Viol, "KF-cache-other-config: ") {
			return "top-node-taken-from-node-cache-decoded-under-another-configuration@store.go:loadPersisted(cache-hit)"
		}
		return ""
	}
	f.Gen = func() Case { return genBadRootCase(f.Rand) }
	n := f.N(150, 5000)
	witnesses := append(Witnesses("C19"), f.TakeCorpus()...)
	reported := map[string]bool{}
	for i := 0; i < n+len(witnesses); i++ {
		var c Case
		if i < len(witnesses) {
			c = witnesses[i]
		} else {
			c = f.Gen()
		}
		before := len(badRootKnown)
		f.RunTreeCase(c, rn, func(CaseStats) bool { return true })
		for _, h := range badRootKnown[before:] {
			sig := f.Sig(Outcome{Viol: h.viol})
			if !reported[sig] {
				reported[sig] = true
				f.Report.Findings = append(f.Report.Findings, Finding{Family: "badroots", Property: "C19", Case: c, Shrunk: c,
					Outcome: Outcome{Kind: "oracle", Line: h.line, Viol: h.viol}, FailingInput: true, Signature: sig})
			}
		}
	}
	f.Report.Stats = map[string]interface{}{"known_finding_occurrences_stepped_over": len(badRootKnown)}
}
