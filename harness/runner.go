package main

import (
	"crypto/sha256"
	"encoding/hex"
	"encoding/json"
	"fmt"
	"math/rand"
	"os"
	"sort"
	"strings"
)

// Case is one generated history: a configuration and protocol lines.
type Case struct {
	Cfg Cfg      `json:"cfg"`
	Ops []string `json:"ops"`
}

func (c Case) Hash() string {
	h := sha256.New()
	fmt.Fprintf(h, "%v\n", c.Cfg)
	for _, o := range c.Ops {
		h.Write([]byte(o))
		h.Write([]byte{'\n'})
	}
	return hex.EncodeToString(h.Sum(nil))[:16]
}

// Outcome of running a case on both sides.
type Outcome struct {
	Kind  string `json:"kind"` // "" | "disagree" | "oracle"
	Index int    `json:"index"`
	Line  string `json:"line,omitempty"`
	Impl  string `json:"impl,omitempty"`
	Model string `json:"model,omitempty"`
	Viol  string `json:"violation,omitempty"`
	// oracle violation met after the first disagreement, if any
	LaterViol      string `json:"later_violation,omitempty"`
	LaterViolIndex int    `json:"later_violation_index,omitempty"`
}

type CaseStats struct {
	MaxHeight     int
	HeightChanges int
	Ops           map[string]int
	FinalShapes   []string
}

// Executor abstracts "the implementation side" of a family, so that families with
// a different notion of session (file store, flush scheduling, ...) reuse the runner.
type Executor interface {
	Exec(line string) (obs string, viol string)
}

// RunCase runs the case in lockstep. The model is consulted until the first disagreement;
// the implementation keeps running to the end so that the property's own oracle can still
// turn a disagreement into a concrete failing input.
func RunCase(c Case, d *Driver, mk func(Cfg) Executor, st *CaseStats) Outcome {
	var out Outcome
	ex := mk(c.Cfg)
	if r := d.Ask(c.Cfg.Line()); r != "ok" {
		return Outcome{Kind: "disagree", Index: -1, Line: c.Cfg.Line(), Impl: "ok", Model: r}
	}
	lastH := 0
	for i, line := range c.Ops {
		impl, viol := ex.Exec(line)
		if st != nil {
			f := strings.Fields(line)
			if st.Ops == nil {
				st.Ops = map[string]int{}
			}
			st.Ops[f[0]]++
			if (f[0] == "ins" || f[0] == "del") && strings.HasPrefix(impl, "ok ") {
				var sz, h int
				fmt.Sscanf(impl, "ok %d %d", &sz, &h)
				if h > st.MaxHeight {
					st.MaxHeight = h
				}
				if h != lastH {
					st.HeightChanges++
				}
				lastH = h
			}
		}
		if out.Kind == "" {
			if viol != "" {
				return Outcome{Kind: "oracle", Index: i, Line: line, Impl: impl, Viol: viol}
			}
			model := d.Ask(line)
			if model != impl {
				out = Outcome{Kind: "disagree", Index: i, Line: line, Impl: impl, Model: model}
			}
		} else if viol != "" {
			out.LaterViol = viol
			out.LaterViolIndex = i
			return out
		}
	}
	return out
}

// Shrink minimises the op list while the outcome kind stays the same (delta debugging).
func Shrink(c Case, d *Driver, mk func(Cfg) Executor, kind string, budget int) Case {
	same := func(ops []string) bool {
		if budget <= 0 {
			return false
		}
		budget--
		o := RunCase(Case{c.Cfg, ops}, d, mk, nil)
		return o.Kind == kind
	}
	ops := c.Ops
	// first cut everything after the failing index
	if o := RunCase(c, d, mk, nil); o.Kind == kind && o.Index >= 0 && o.Index+1 < len(ops) && o.LaterViol == "" {
		if same(ops[:o.Index+1]) {
			ops = ops[:o.Index+1]
		}
	}
	n := 2
	for len(ops) >= 2 && budget > 0 {
		chunk := (len(ops) + n - 1) / n
		reduced := false
		for start := 0; start < len(ops); start += chunk {
			end := start + chunk
			if end > len(ops) {
				end = len(ops)
			}
			cand := append(append([]string{}, ops[:start]...), ops[end:]...)
			if len(cand) > 0 && same(cand) {
				ops = cand
				if n > 2 {
					n--
				}
				reduced = true
				break
			}
		}
		if !reduced {
			if n >= len(ops) {
				break
			}
			n *= 2
			if n > len(ops) {
				n = len(ops)
			}
		}
	}
	return Case{c.Cfg, ops}
}

// Finding is what a family reports for one broken case.
type Finding struct {
	Family   string  `json:"family"`
	Property string  `json:"property"`
	Case     Case    `json:"case"`
	Shrunk   Case    `json:"shrunk"`
	Outcome  Outcome `json:"outcome"`
	// FailingInput: the implementation contradicts the property's statement on this history.
	FailingInput bool   `json:"failing_input"`
	Signature    string `json:"signature,omitempty"`
	Note         string `json:"note,omitempty"`
}

// Report is the JSON the harness hands back to ./check.
type Report struct {
	Family        string                 `json:"family"`
	Property      string                 `json:"property"`
	Seed          int64                  `json:"seed"`
	Tier          string                 `json:"tier"`
	Cases         int                    `json:"cases"`
	OpsRun        int                    `json:"ops_run"`
	ModelLines    int                    `json:"model_lines"`
	Distinct      int                    `json:"distinct_cases"`
	Nontrivial    int                    `json:"distinct_nontrivial"`
	Rule          string                 `json:"rule"`
	Stats         map[string]interface{} `json:"stats"`
	Samples       []interface{}          `json:"samples"`
	Findings      []Finding              `json:"findings"`
	CorpusReplayed int                   `json:"corpus_replayed"`
}

type FamCtx struct {
	Rand   *rand.Rand
	Seed   int64
	Tier   string
	Driver *Driver
	Report *Report
	seen   map[string]bool
	nontr  map[string]bool
	opHist map[string]int
	hHist  map[int]int
}

func (f *FamCtx) Quick() bool { return f.Tier != "thorough" }

// N picks a case count by tier.
func (f *FamCtx) N(quick, thorough int) int {
	if f.Quick() {
		return quick
	}
	return thorough
}

// RunTreeCase runs one case with the standard tree session and book-keeping.
func (f *FamCtx) RunTreeCase(c Case, mk func(Cfg) Executor, nontrivial func(CaseStats) bool) {
	var st CaseStats
	o := RunCase(c, f.Driver, mk, &st)
	f.Report.Cases++
	f.Report.OpsRun += len(c.Ops)
	h := c.Hash()
	if !f.seen[h] {
		f.seen[h] = true
		if nontrivial(st) {
			f.nontr[h] = true
		}
	}
	for k, v := range st.Ops {
		f.opHist[k] += v
	}
	f.hHist[st.MaxHeight]++
	if len(f.Report.Samples) < 3 && len(c.Ops) > 0 {
		n := len(c.Ops)
		if n > 25 {
			n = 25
		}
		f.Report.Samples = append(f.Report.Samples, map[string]interface{}{"cfg": c.Cfg, "ops_total": len(c.Ops), "first_ops": c.Ops[:n]})
	}
	if o.Kind != "" {
		f.AddFinding(c, o, mk)
	}
}

func (f *FamCtx) AddFinding(c Case, o Outcome, mk func(Cfg) Executor) {
	if len(f.Report.Findings) >= 5 {
		return
	}
	sh := Shrink(c, f.Driver, mk, o.Kind, 400)
	so := RunCase(sh, f.Driver, mk, nil)
	if so.Kind == "" {
		sh, so = c, o
	}
	fi := Finding{Family: f.Report.Family, Property: f.Report.Property, Case: c, Shrunk: sh, Outcome: so}
	fi.FailingInput = so.Kind == "oracle" || so.LaterViol != ""
	f.Report.Findings = append(f.Report.Findings, fi)
}

func (f *FamCtx) Finish() {
	f.Report.Distinct = len(f.seen)
	f.Report.Nontrivial = len(f.nontr)
	f.Report.ModelLines = f.Driver.Lines
	if f.Report.Stats == nil {
		f.Report.Stats = map[string]interface{}{}
	}
	f.Report.Stats["ops_by_kind"] = f.opHist
	hh := map[string]int{}
	for k, v := range f.hHist {
		hh[fmt.Sprint(k)] = v
	}
	f.Report.Stats["cases_by_max_height"] = hh
}

func writeJSON(path string, v interface{}) {
	b, err := json.MarshalIndent(v, "", " ")
	if err != nil {
		panic(err)
	}
	if path == "" || path == "-" {
		os.Stdout.Write(b)
		os.Stdout.Write([]byte("\n"))
		return
	}
	if err := os.WriteFile(path, b, 0644); err != nil {
		panic(err)
	}
}

func sortedKeys(m map[string]int) []string {
	ks := make([]string, 0, len(m))
	for k := range m {
		ks = append(ks, k)
	}
	sort.Strings(ks)
	return ks
}
