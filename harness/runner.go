package main

import (
	"crypto/sha256"
	"encoding/hex"
	"encoding/json"
	"fmt"
	"math/rand"
	"os"
	"path/filepath"
	"sort"
	"strconv"
	"strings"
	"time"
)

// Case is one generated history: a configuration and protocol lines.
type Case struct {
	Cfg Cfg      `json:"cfg"`
	Ops []string `json:"ops"`
}

func (c Case) Hash() string {
	h := sha256.New()
	fmt.Fprintf(h, "%v\n", c.Cfg)
	for _, o := range c.Ops {
		h.Write([]byte(o))
		h.Write([]byte{'\n'})
	}
	return hex.EncodeToString(h.Sum(nil))[:16]
}

// Outcome of running a case on both sides.
type Outcome struct {
	Kind  string `json:"kind"` // "" | "disagree" | "oracle"
	Index int    `json:"index"`
	Line  string `json:"line,omitempty"`
	Impl  string `json:"impl,omitempty"`
	Model string `json:"model,omitempty"`
	Viol  string `json:"violation,omitempty"`
	// ModelAgrees: on an oracle violation, whether the model produced the same observation
	ModelAgrees bool `json:"model_agrees,omitempty"`
	// oracle violation met after the first disagreement, if any
	LaterViol      string `json:"later_violation,omitempty"`
	LaterViolIndex int    `json:"later_violation_index,omitempty"`
}

type CaseStats struct {
	MaxHeight     int
	HeightChanges int
	Ops           map[string]int
	FinalShapes   []string
}

// Executor abstracts "the implementation side" of a family, so that families with
// a different notion of session (file store, flush scheduling, ...) reuse the runner.
type Executor interface {
	Exec(line string) (obs string, viol string)
}

// RunCase runs the case in lockstep. The model is consulted until the first disagreement;
// the implementation keeps running to the end so that the property's own oracle can still
// turn a disagreement into a concrete failing input.
// Runner fixes, for a family, how cases are executed and which part of an observation
// belongs to the property's alphabet (Norm drops the rest before the comparison).
type Runner struct {
	Mk   func(Cfg) Executor
	Norm func(line, obs string) string
}

func (rn Runner) norm(line, obs string) string {
	obs = strings.TrimSpace(obs)
	if rn.Norm == nil {
		return obs
	}
	return rn.Norm(line, obs)
}

// hangSeen: an operation of the implementation did not return.  The call is abandoned (its
// goroutine stays behind), reported as a violation with the history so far as the failing input,
// and later waits are short; a case that hangs is not shrunk (every attempt would wait again).
var hangSeen bool

func opTimeout() time.Duration {
	if hangSeen {
		return 5 * time.Second
	}
	if v, err := strconv.Atoi(os.Getenv("VERIF_OP_TIMEOUT")); err == nil && v > 0 {
		return time.Duration(v) * time.Second
	}
	return 45 * time.Second
}

func execGuard(ex Executor, line string) (string, string) {
	type res struct{ obs, viol string }
	ch := make(chan res, 1)
	go func() {
		defer func() {
			if p := recover(); p != nil {
				ch <- res{"panic", fmt.Sprintf("panic outside the session's own recovery: %v", p)}
			}
		}()
		o, v := ex.Exec(line)
		ch <- res{o, v}
	}()
	t := opTimeout()
	select {
	case r := <-ch:
		return r.obs, r.viol
	case <-time.After(t):
		hangSeen = true
		return "hang", fmt.Sprintf("the call did not return within %v (abandoned): %s", t, line)
	}
}

func RunCase(c Case, d *Driver, rn Runner, st *CaseStats) Outcome {
	mk := rn.Mk
	var out Outcome
	ex := mk(c.Cfg)
	if r := d.Ask(c.Cfg.Line()); r != "ok" {
		return Outcome{Kind: "disagree", Index: -1, Line: c.Cfg.Line(), Impl: "ok", Model: r}
	}
	lastH := 0
	for i, line := range c.Ops {
		impl, viol := execGuard(ex, line)
		if st != nil {
			f := strings.Fields(line)
			if st.Ops == nil {
				st.Ops = map[string]int{}
			}
			st.Ops[f[0]]++
			if (f[0] == "ins" || f[0] == "del") && strings.HasPrefix(impl, "ok ") {
				var sz, h int
				fmt.Sscanf(impl, "ok %d %d", &sz, &h)
				if h > st.MaxHeight {
					st.MaxHeight = h
				}
				if h != lastH {
					st.HeightChanges++
				}
				lastH = h
			}
		}
		if out.Kind == "" {
			if viol != "" {
				o := Outcome{Kind: "oracle", Index: i, Line: line, Impl: impl, Viol: viol}
				// does the model (the recorded algorithm) behave the same on this input?
				ml := line
				if x, ok := ex.(interface{ ModelLine(string) string }); ok {
					ml = x.ModelLine(line)
				}
				o.Model = d.Ask(ml)
				o.ModelAgrees = rn.norm(line, o.Model) == rn.norm(line, impl)
				return o
			}
			ml := line
			if x, ok := ex.(interface{ ModelLine(string) string }); ok {
				ml = x.ModelLine(line)
			}
			model := d.Ask(ml)
			if rn.norm(line, model) != rn.norm(line, impl) {
				out = Outcome{Kind: "disagree", Index: i, Line: line, Impl: impl, Model: model}
			}
		} else if viol != "" {
			out.LaterViol = viol
			out.LaterViolIndex = i
			return out
		}
	}
	return out
}

// Shrink minimises the op list while the outcome kind stays the same (delta debugging).
func Shrink(c Case, d *Driver, mk Runner, kind string, budget int) Case {
	var orig Outcome
	if hangSeen {
		return c
	}
	same := func(ops []string) bool {
		if budget <= 0 {
			return false
		}
		budget--
		o := RunCase(Case{c.Cfg, ops}, d, mk, nil)
		if strings.HasPrefix(o.Impl, "bad-") || strings.HasPrefix(o.Model, "bad-") {
			return false // the shrunk history no longer makes sense (a slot vanished)
		}
		return o.Kind == kind && firstWord(o.Line) == firstWord(orig.Line)
	}
	orig = RunCase(c, d, mk, nil)
	ops := c.Ops
	// first cut everything after the failing index
	if o := RunCase(c, d, mk, nil); o.Kind == kind && o.Index >= 0 && o.Index+1 < len(ops) && o.LaterViol == "" {
		if same(ops[:o.Index+1]) {
			ops = ops[:o.Index+1]
		}
	}
	n := 2
	for len(ops) >= 2 && budget > 0 {
		chunk := (len(ops) + n - 1) / n
		reduced := false
		for start := 0; start < len(ops); start += chunk {
			end := start + chunk
			if end > len(ops) {
				end = len(ops)
			}
			cand := append(append([]string{}, ops[:start]...), ops[end:]...)
			if len(cand) > 0 && same(cand) {
				ops = cand
				if n > 2 {
					n--
				}
				reduced = true
				break
			}
		}
		if !reduced {
			if n >= len(ops) {
				break
			}
			n *= 2
			if n > len(ops) {
				n = len(ops)
			}
		}
	}
	return Case{c.Cfg, ops}
}

// Finding is what a family reports for one broken case.
type Finding struct {
	Family   string  `json:"family"`
	Property string  `json:"property"`
	Case     Case    `json:"case"`
	Shrunk   Case    `json:"shrunk"`
	Outcome  Outcome `json:"outcome"`
	// FailingInput: the implementation contradicts the property's statement on this history.
	FailingInput bool   `json:"failing_input"`
	Signature    string `json:"signature,omitempty"`
	Note         string `json:"note,omitempty"`
}

// Report is the JSON the harness hands back to ./check.
type Report struct {
	Family         string                 `json:"family"`
	Property       string                 `json:"property"`
	Seed           int64                  `json:"seed"`
	Tier           string                 `json:"tier"`
	Cases          int                    `json:"cases"`
	OpsRun         int                    `json:"ops_run"`
	ModelLines     int                    `json:"model_lines"`
	Distinct       int                    `json:"distinct_cases"`
	Nontrivial     int                    `json:"distinct_nontrivial"`
	Rule           string                 `json:"rule"`
	Stats          map[string]interface{} `json:"stats"`
	Samples        []interface{}          `json:"samples"`
	Findings       []Finding              `json:"findings"`
	CorpusReplayed int                    `json:"corpus_replayed"`
}

type FamCtx struct {
	Gen func() Case          // generator of the family, used by the failing-input search
	Sig func(Outcome) string // signature of a finding, matched against known_findings.txt
	// minimized past failures, replayed before the first generated case
	corpus       []Case
	corpusRunner Runner
	Rand         *rand.Rand
	Seed         int64
	Tier         string
	Driver       *Driver
	Report       *Report
	seen         map[string]bool
	nontr        map[string]bool
	opHist       map[string]int
	hHist        map[int]int
}

func (f *FamCtx) Quick() bool { return f.Tier != "thorough" }

// N picks a case count by tier.
func (f *FamCtx) N(quick, thorough int) int {
	if f.Quick() {
		return quick
	}
	return thorough
}

// RunTreeCase runs one case with the standard tree session and book-keeping.
// Witnesses returns the cases of the recorded findings of a property (findings/<ID>-*.json), so
// that every run meets them and prints its KNOWN-FINDING lines.
func Witnesses(pid string) []Case {
	dir := os.Getenv("VERIF_DIR")
	if dir == "" {
		dir = "/verif"
	}
	files, _ := filepath.Glob(filepath.Join(dir, "findings", pid+"-*.json"))
	sort.Strings(files)
	var out []Case
	for _, p := range files {
		if b, err := os.ReadFile(p); err == nil {
			var w struct {
				Case Case `json:"case"`
			}
			if json.Unmarshal(b, &w) == nil && len(w.Case.Ops) > 0 {
				out = append(out, w.Case)
			}
		}
	}
	return out
}

// TakeCorpus hands the corpus to a family that replays it itself.
func (f *FamCtx) TakeCorpus() []Case {
	cs := f.corpus
	f.corpus = nil
	f.Report.CorpusReplayed += len(cs)
	return cs
}

func (f *FamCtx) RunTreeCase(c Case, mk Runner, nontrivial func(CaseStats) bool) {
	if len(f.corpus) > 0 {
		for _, cc := range f.TakeCorpus() {
			f.RunTreeCase(cc, f.corpusRunner, func(CaseStats) bool { return true })
		}
	}
	var st CaseStats
	o := RunCase(c, f.Driver, mk, &st)
	f.Report.Cases++
	f.Report.OpsRun += len(c.Ops)
	h := c.Hash()
	if !f.seen[h] {
		f.seen[h] = true
		if nontrivial(st) {
			f.nontr[h] = true
		}
	}
	for k, v := range st.Ops {
		f.opHist[k] += v
	}
	f.hHist[st.MaxHeight]++
	if len(f.Report.Samples) < 3 && len(c.Ops) > 0 {
		n := len(c.Ops)
		if n > 25 {
			n = 25
		}
		f.Report.Samples = append(f.Report.Samples, map[string]interface{}{"cfg": c.Cfg, "ops_total": len(c.Ops), "first_ops": c.Ops[:n]})
	}
	if o.Kind != "" {
		f.AddFinding(c, o, mk)
	}
}

func (f *FamCtx) AddFinding(c Case, o Outcome, mk Runner) {
	if len(f.Report.Findings) >= 8 {
		return
	}
	sh := Shrink(c, f.Driver, mk, o.Kind, 400)
	so := RunCase(sh, f.Driver, mk, nil)
	if so.Kind == "" {
		sh, so = c, o
	}
	if o.LaterViol != "" && so.Kind != "oracle" && so.LaterViol == "" {
		// the full history goes on to contradict the property itself after the first disagreement
		// with the model; the shrunk one lost that part: a failing input is worth more than brevity
		sh, so = c, o
	}
	fi := Finding{Family: f.Report.Family, Property: f.Report.Property, Case: c, Shrunk: sh, Outcome: so}
	fi.FailingInput = so.Kind == "oracle" || so.LaterViol != ""
	if !fi.FailingInput && f.Gen != nil {
		// the correspondence broke without contradicting the property on this history:
		// search the implementation alone (property oracle only) for a failing input
		if fc, fo, ok := f.SearchOracle(mk, 3000); ok {
			fi.Note = "correspondence broke at the shrunk case; failing input found by oracle-only search"
			fi.Shrunk, fi.Outcome, fi.FailingInput = fc, fo, true
		} else {
			fi.Note = "oracle-only search over further generated histories found no input on which the implementation contradicts the property"
		}
	}
	if f.Sig != nil {
		fi.Signature = f.Sig(fi.Outcome)
	}
	f.Report.Findings = append(f.Report.Findings, fi)
}

func (f *FamCtx) Finish() {
	f.Report.Distinct = len(f.seen)
	f.Report.Nontrivial = len(f.nontr)
	f.Report.ModelLines = f.Driver.Lines
	if f.Report.Stats == nil {
		f.Report.Stats = map[string]interface{}{}
	}
	f.Report.Stats["ops_by_kind"] = f.opHist
	hh := map[string]int{}
	for k, v := range f.hHist {
		hh[fmt.Sprint(k)] = v
	}
	f.Report.Stats["cases_by_max_height"] = hh
}

func writeJSON(path string, v interface{}) {
	b, err := json.MarshalIndent(v, "", " ")
	if err != nil {
		panic(err)
	}
	if path == "" || path == "-" {
		os.Stdout.Write(b)
		os.Stdout.Write([]byte("\n"))
		return
	}
	if err := os.WriteFile(path, b, 0644); err != nil {
		panic(err)
	}
}

func sortedKeys(m map[string]int) []string {
	ks := make([]string, 0, len(m))
	for k := range m {
		ks = append(ks, k)
	}
	sort.Strings(ks)
	return ks
}

// RunImplOnly runs a case on the implementation with the property oracle only.
func RunImplOnly(c Case, rn Runner) Outcome {
	ex := rn.Mk(c.Cfg)
	for i, line := range c.Ops {
		impl, viol := execGuard(ex, line)
		if viol != "" {
			return Outcome{Kind: "oracle", Index: i, Line: line, Impl: impl, Viol: viol}
		}
	}
	return Outcome{}
}

func (f *FamCtx) SearchOracle(rn Runner, n int) (Case, Outcome, bool) {
	for i := 0; i < n; i++ {
		c := f.Gen()
		if o := RunImplOnly(c, rn); o.Kind == "oracle" {
			// shrink with the oracle as predicate
			ops := c.Ops[:o.Index+1]
			budget := 300
			if hangSeen {
				budget = 0
			}
			for chunk := len(ops) / 2; chunk >= 1 && budget > 0; {
				reduced := false
				for start := 0; start+chunk <= len(ops)-1 && budget > 0; start += chunk {
					cand := append(append([]string{}, ops[:start]...), ops[start+chunk:]...)
					budget--
					if RunImplOnly(Case{c.Cfg, cand}, rn).Kind == "oracle" {
						ops = cand
						reduced = true
						break
					}
				}
				if !reduced {
					chunk /= 2
				}
			}
			sc := Case{c.Cfg, ops}
			return sc, RunImplOnly(sc, rn), true
		}
	}
	return Case{}, Outcome{}, false
}

func firstWord(s string) string {
	f := strings.Fields(s)
	if len(f) == 0 {
		return ""
	}
	return f[0]
}
