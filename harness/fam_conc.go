package main

import (
	"fmt"
	"math/rand"
	"strings"
	"sync"

	"github.com/jrhy/mast"
)

// replayExec answers with observations recorded during the concurrent run, so that the
// sequential model can be compared with what each goroutine saw.
type replayExec struct {
	obs []string
	i   int
}

func (r *replayExec) Exec(line string) (string, string) {
	o := r.obs[r.i]
	r.i++
	return o, ""
}

// genConcCase returns the sequential prefix (which builds and persists the shared versions)
// and one op list per goroutine.
func genConcCase(r *rand.Rand, cfg Cfg, g int) (prefix []string, per [][]string) {
	uni := Universe(r, cfg, 8+r.Intn(60))
	// values are a function of the key most of the time, so that deletes find what they expect
	val := func(k uint64) uint64 {
		if r.Intn(6) == 0 {
			return uint64(r.Intn(3))
		}
		return k % 3
	}
	// deletes favour keys of high layers: removing them merges two (cached, shared) children
	delKey := func() uint64 {
		k := pick(r, uni)
		for j := 0; j < 3; j++ {
			if q := pick(r, uni); cfg.RefLayer(q) > cfg.RefLayer(k) {
				k = q
			}
		}
		return k
	}
	prefix = []string{"new 0"}
	nroot := 0
	for i := 0; i < 10+r.Intn(50); i++ {
		k := pick(r, uni)
		prefix = append(prefix, opIns(0, k, val(k)))
		if r.Intn(12) == 0 {
			prefix = append(prefix, fmt.Sprintf("root 0 %d", nroot))
			nroot++
		}
	}
	prefix = append(prefix, fmt.Sprintf("root 0 %d", nroot))
	nroot++
	// some goroutines receive a CLONE of the (already modified) tree made before they start;
	// the others load one of the persisted roots themselves
	cloned := make([]bool, g)
	for gi := 0; gi < g; gi++ {
		if r.Intn(2) == 0 {
			cloned[gi] = true
			prefix = append(prefix, fmt.Sprintf("clone 0 %d", 10*(gi+1)))
		}
	}
	for gi := 0; gi < g; gi++ {
		var ops []string
		base := 10 * (gi + 1)
		if !cloned[gi] {
			ops = append(ops, fmt.Sprintf("load %d %d", r.Intn(nroot), base))
		}
		slots := []int{base}
		myroots := 0
		for i := 0; i < 15+r.Intn(40); i++ {
			s := pick(r, slots)
			switch x := r.Intn(100); {
			case x < 35:
				k := pick(r, uni)
				ops = append(ops, opIns(s, k, val(k)))
			case x < 55:
				k := delKey()
				ops = append(ops, opDel(s, k, k%3))
			case x < 65:
				ops = append(ops, fmt.Sprintf("get %d %d", s, pick(r, uni)))
			case x < 75:
				ops = append(ops, fmt.Sprintf("iter %d", s))
			case x < 83:
				d := base + r.Intn(3)
				ops = append(ops, fmt.Sprintf("clone %d %d", s, d))
				found := false
				for _, q := range slots {
					if q == d {
						found = true
					}
				}
				if !found {
					slots = append(slots, d)
				}
			case x < 93:
				ops = append(ops, fmt.Sprintf("root %d %d", s, 1000*(gi+1)+myroots))
				myroots++
			default:
				if myroots > 0 && r.Intn(2) == 0 {
					ops = append(ops, fmt.Sprintf("load %d %d", 1000*(gi+1)+r.Intn(myroots), s))
				} else {
					ops = append(ops, fmt.Sprintf("load %d %d", r.Intn(nroot), s))
				}
			}
		}
		ops = append(ops, fmt.Sprintf("iter %d", base))
		per = append(per, ops)
	}
	return
}

// famConc — C11: goroutines that each own their trees, over one store and one node cache.
func famConc(f *FamCtx) {
	f.Report.Rule = "a sequential prefix persists several versions; then 2-8 goroutines, each owning its trees (loaded from the shared roots, cloned, modified, persisted, reloaded), run 15-55 operations concurrently over ONE recording store and ONE node cache (large or 2-entry); every goroutine's observations are checked against its own sorted-map oracle during the run and afterwards replayed, goroutine by goroutine, through the sequential Lean model; the binary is built with -race (GORACE=halt_on_error): a reported data race aborts the run; non-trivial = every case"
	n := f.N(60, 2500)
	for i := 0; i < n; i++ {
		cfg := RandCfg(f.Rand)
		cfg.Cache = pick(f.Rand, []string{"big", "tiny", "none"})
		g := 2 + f.Rand.Intn(7)
		prefix, per := genConcCase(f.Rand, cfg, g)
		base := NewSession(cfg)
		var prefixObs []string
		for _, l := range prefix {
			o, v := base.Exec(l)
			prefixObs = append(prefixObs, o)
			if v != "" {
				f.Report.Findings = append(f.Report.Findings, Finding{Family: "conc", Property: "C11", Case: Case{cfg, prefix}, Outcome: Outcome{Kind: "oracle", Line: l, Impl: o, Viol: v}, FailingInput: true})
			}
		}
		// every second case: all goroutines load their trees through ONE *RemoteConfig that no
		// LoadMast has seen yet (its function fields are as the session has them: mostly nil)
		var sharedCfg *mast.RemoteConfig
		if i%2 == 1 {
			sharedCfg = base.remoteConfig()
		}
		obs := make([][]string, g)
		viols := make([]string, g)
		var wg sync.WaitGroup
		for gi := 0; gi < g; gi++ {
			wg.Add(1)
			go func(gi int) {
				defer wg.Done()
				s := NewSession(cfg)
				s.Store, s.Cache = base.Store, base.Cache
				s.sharedStore = true
				s.sharedCfg = sharedCfg
				for k, v := range base.Roots { // the shared roots (read-only)
					s.Roots[k] = v
					s.ROracle[k] = base.ROracle[k]
				}
				for k, v := range base.Trees { // the clone handed to this goroutine, if any
					if k == 10*(gi+1) {
						s.Trees[k] = v
						s.Oracle[k] = copyMap(base.Oracle[k])
					}
				}
				for _, l := range per[gi] {
					o, v := s.Exec(l)
					obs[gi] = append(obs[gi], o)
					if v != "" && viols[gi] == "" {
						viols[gi] = fmt.Sprintf("goroutine %d, %s: %s", gi, l, v)
					}
				}
			}(gi)
		}
		wg.Wait()
		f.Report.Cases++
		for gi := 0; gi < g; gi++ {
			ops := append(append([]string{}, prefix...), per[gi]...)
			c := Case{cfg, ops}
			f.Report.OpsRun += len(per[gi])
			if viols[gi] != "" {
				if len(f.Report.Findings) < 5 {
					f.Report.Findings = append(f.Report.Findings, Finding{Family: "conc", Property: "C11", Case: c, Shrunk: c,
						Outcome: Outcome{Kind: "oracle", Viol: viols[gi]}, FailingInput: true,
						Note: "observed while " + fmt.Sprint(g) + " goroutines ran concurrently; the history shown is this goroutine's"})
				}
				continue
			}
			rec := append(append([]string{}, prefixObs...), obs[gi]...)
			rn := Runner{Mk: func(Cfg) Executor { return &replayExec{obs: rec} }, Norm: concNorm}
			o := RunCase(c, f.Driver, rn, nil)
			if o.Kind != "" && len(f.Report.Findings) < 5 {
				f.Report.Findings = append(f.Report.Findings, Finding{Family: "conc", Property: "C11", Case: c, Shrunk: c, Outcome: o,
					Note: "a goroutine's observations differ from the sequential model of its own history"})
			}
		}
		h := Case{cfg, append(append([]string{}, prefix...), strings.Join(per[0], ";"))}.Hash()
		f.seen[h] = true
		f.nontr[h] = true
		if len(f.Report.Samples) < 2 {
			f.Report.Samples = append(f.Report.Samples, map[string]interface{}{"cfg": cfg, "goroutines": g, "prefix_ops": len(prefix), "goroutine0_first_ops": per[0][:min(12, len(per[0]))]})
		}
	}
}

// concNorm: with a shared cache the set of Store calls depends on what other goroutines have
// cached; results, contents, sizes, heights and root names do not.
func concNorm(line, obs string) string { return obs }

func min(a, b int) int {
	if a < b {
		return a
	}
	return b
}
