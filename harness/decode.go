package main

import (
	"encoding/binary"
	"encoding/json"
	"errors"
	"fmt"
	"reflect"
	"strconv"
	"strings"
)

// The harness's own decoders of the two node formats, written from the format description
// (not calling mast), used to inspect what really is in the store.

type DecNode struct {
	Keys  []uint64
	Vals  []uint64
	Links []string // "" = nil
}

func (c Cfg) parseKey(raw []byte) (uint64, error) {
	switch c.KK {
	case "sk":
		var v SK
		if err := json.Unmarshal(raw, &v); err != nil {
			return 0, err
		}
		return c.KeyNat(v.A), nil
	case "skc":
		var v SKC
		if err := customUnmarshal(raw, &v); err != nil {
			return 0, err
		}
		return c.KeyNat(v), nil
	case "vk", "u64", "uint":
		var v uint64
		err := json.Unmarshal(raw, &v)
		if err == nil && strings.TrimSpace(string(raw)) == "null" {
			err = errors.New("null key")
		}
		return v, err
	case "i64", "int":
		var v int64
		err := json.Unmarshal(raw, &v)
		if err == nil && strings.TrimSpace(string(raw)) == "null" {
			err = errors.New("null key")
		}
		return uint64(v + i64bias), err
	case "i64w":
		var v int64
		err := json.Unmarshal(raw, &v)
		if err == nil && strings.TrimSpace(string(raw)) == "null" {
			err = errors.New("null key")
		}
		return uint64(v) ^ (1 << 63), err
	case "str", "strx":
		var s string
		if err := json.Unmarshal(raw, &s); err != nil {
			return 0, err
		}
		return c.KeyNat(s), nil
	case "bytes":
		var b []byte
		if err := json.Unmarshal(raw, &b); err != nil {
			return 0, err
		}
		return c.KeyNat(b), nil
	}
	return 0, errors.New("kind")
}

func (c Cfg) parseVal(raw []byte) (uint64, error) {
	switch c.VKind {
	case "u64":
		return strconv.ParseUint(string(raw), 10, 64)
	case "str":
		var s string
		if err := json.Unmarshal(raw, &s); err != nil {
			return 0, err
		}
		return strconv.ParseUint(s, 10, 64)
	case "bytes", "nb":
		var b []byte
		if err := json.Unmarshal(raw, &b); err != nil {
			return 0, err
		}
		if c.VKind == "nb" && b == nil {
			return 1, nil
		}
		if c.VKind == "nb" && len(b) == 0 {
			return 2, nil
		}
		return strconv.ParseUint(string(b), 10, 64)
	case "ptr":
		return strconv.ParseUint(string(raw), 10, 64)
	case "np":
		if strings.TrimSpace(string(raw)) == "null" {
			return 1, nil
		}
		return strconv.ParseUint(string(raw), 10, 64)
	case "long":
		var s string
		if err := json.Unmarshal(raw, &s); err != nil {
			return 0, err
		}
		i := strings.IndexByte(s, '-')
		if i < 0 {
			return 0, errors.New("bad long value")
		}
		n, err := strconv.ParseUint(s[:i], 10, 64)
		if err != nil || s != longText(n) {
			return 0, errors.New("bad long value")
		}
		return n, nil
	case "esc":
		var s string
		if err := json.Unmarshal(raw, &s); err != nil {
			return 0, err
		}
		i := strings.IndexByte(s, '-')
		if i < 0 {
			return 0, errors.New("bad esc value")
		}
		n, err := strconv.ParseUint(s[:i], 10, 64)
		if err != nil || s != escText(n) {
			return 0, errors.New("bad esc value")
		}
		return n, nil
	case "agg":
		var v AV
		if err := json.Unmarshal(raw, &v); err != nil || !reflect.DeepEqual(v, aggVal(v.N)) {
			return 0, errors.New("bad aggregate value")
		}
		return v.N, nil
	case "iface":
		var v struct{ X []string }
		if err := json.Unmarshal(raw, &v); err != nil || len(v.X) != 1 {
			return 0, errors.New("bad iface value")
		}
		return strconv.ParseUint(v.X[0], 10, 64)
	}
	return 0, errors.New("kind")
}

func readSlice(buf []byte) ([][]byte, []byte, error) {
	n, k := binary.Uvarint(buf)
	if k <= 0 {
		return nil, nil, errors.New("bad count")
	}
	buf = buf[k:]
	if n > uint64(len(buf)) {
		return nil, nil, errors.New("count exceeds the remaining bytes")
	}
	out := make([][]byte, 0, n)
	for i := uint64(0); i < n; i++ {
		l, k := binary.Uvarint(buf)
		if k <= 0 || uint64(len(buf)-k) < l {
			return nil, nil, errors.New("bad element")
		}
		out = append(out, buf[k:k+int(l)])
		buf = buf[k+int(l):]
	}
	return out, buf, nil
}

func (c Cfg) DecodeNode(b []byte) (*DecNode, error) {
	var n DecNode
	var rawK, rawV [][]byte
	if c.Fmt == "bin" {
		var err error
		var rest []byte
		rawK, rest, err = readSlice(b)
		if err != nil {
			return nil, err
		}
		rawV, rest, err = readSlice(rest)
		if err != nil {
			return nil, err
		}
		var links [][]byte
		links, rest, err = readSlice(rest)
		if err != nil {
			return nil, err
		}
		if len(rest) != 0 {
			return nil, errors.New("trailing bytes")
		}
		for _, l := range links {
			n.Links = append(n.Links, string(l))
		}
	} else {
		var sn struct {
			Key   []json.RawMessage
			Value []json.RawMessage
			Link  []*string
		}
		if err := json.Unmarshal(b, &sn); err != nil {
			return nil, err
		}
		for _, k := range sn.Key {
			rawK = append(rawK, k)
		}
		for _, v := range sn.Value {
			rawV = append(rawV, v)
		}
		for _, l := range sn.Link {
			if l == nil {
				n.Links = append(n.Links, "")
			} else {
				n.Links = append(n.Links, *l)
			}
		}
	}
	if len(rawK) != len(rawV) {
		return nil, fmt.Errorf("%d keys, %d values", len(rawK), len(rawV))
	}
	for i := range rawK {
		k, err := c.parseKey(rawK[i])
		if err != nil {
			return nil, fmt.Errorf("key %d: %w", i, err)
		}
		v, err := c.parseVal(rawV[i])
		if err != nil {
			return nil, fmt.Errorf("value %d: %w", i, err)
		}
		n.Keys = append(n.Keys, k)
		n.Vals = append(n.Vals, v)
	}
	if len(n.Links) == 0 {
		n.Links = make([]string, len(n.Keys)+1) // link list trimmed: all nil
	}
	return &n, nil
}

// PersistedShape decodes the version under a root from the stored bytes and checks the
// Merkle-search-tree shape invariants of C09 on the way. It returns the shape in the
// driver's notation, the number of entries, and the first invariant violation found.
func (s *Session) PersistedShape(link string, height int) (shape string, entries int, viol string) {
	type bound struct {
		has bool
		k   uint64
	}
	var rec func(name string, level int, lo, hi bound, top bool) string
	fail := func(msg string) {
		if viol == "" {
			viol = msg
		}
	}
	rec = func(name string, level int, lo, hi bound, top bool) string {
		b := s.Store.Get(name)
		if b == nil {
			fail("node " + name + " is not in the store")
			return "?"
		}
		n, err := s.Cfg.DecodeNode(b)
		if err != nil {
			fail("node " + name + " does not decode: " + err.Error())
			return "?"
		}
		if len(n.Links) != len(n.Keys)+1 {
			fail(fmt.Sprintf("node %s has %d keys and %d child slots", name, len(n.Keys), len(n.Links)))
			return "?"
		}
		if level < 0 {
			fail("node " + name + " lies below level 0")
			return "?"
		}
		nchild := 0
		for _, l := range n.Links {
			if l != "" {
				nchild++
			}
		}
		if level == 0 && nchild > 0 {
			fail("level-0 node " + name + " has children")
		}
		if len(n.Keys) == 0 && nchild != 1 {
			fail(fmt.Sprintf("entry-less node %s with %d children stored", name, nchild))
		}
		var sb strings.Builder
		sb.WriteString("*[")
		for i := 0; i <= len(n.Keys); i++ {
			clo, chi := lo, hi
			if i > 0 {
				clo = bound{true, n.Keys[i-1]}
			}
			if i < len(n.Keys) {
				chi = bound{true, n.Keys[i]}
			}
			if n.Links[i] == "" {
				sb.WriteString("-")
			} else {
				sb.WriteString(rec(n.Links[i], level-1, clo, chi, false))
			}
			if i < len(n.Keys) {
				k := n.Keys[i]
				entries++
				if lo.has && k <= lo.k || hi.has && k >= hi.k {
					fail(fmt.Sprintf("key %d in node %s is outside the range given by its parent", k, name))
				}
				if i > 0 && n.Keys[i-1] >= k {
					fail(fmt.Sprintf("keys of node %s not strictly ascending", name))
				}
				l := s.Cfg.RefLayer(k)
				if l > 255 {
					l = l & 255
				}
				if top && l < level || !top && l != level {
					fail(fmt.Sprintf("key %d of layer %d stored at level %d (top=%v)", k, l, level, top))
				}
				fmt.Fprintf(&sb, " %d=%d ", k, n.Vals[i])
			}
		}
		sb.WriteString("]")
		return sb.String()
	}
	if link == "" {
		return "[-]", 0, ""
	}
	sh := rec(link, height, bound{}, bound{}, true)
	return sh, entries, viol
}
