package main

import (
	"bytes"
	"context"
	"fmt"
	"math/rand"
	"os"
	"os/exec"
	"os/signal"
	"path/filepath"
	"strconv"
	"strings"
	"syscall"
	"unsafe"

	mfile "github.com/jrhy/mast/persist/file"
)

func patternBytes(n int) []byte {
	b := make([]byte, n)
	for i := range b {
		b[i] = byte(i % 251)
	}
	return b
}

const crashName = "AAAAAAAAAAAAAAAAAAAAAAAAAAAAAAAAAAAAAAAAAAA"

// childName: the name the child process stores (the node name, or a long one: see `fcrashl`)
var childName = crashName

// longName: a name of l characters from the node-name alphabet
func longName(l int) string { return strings.Repeat("Ab-_9", l/5+1)[:l] }

// childFileStore runs in a child process: it limits the size any file may reach to `limit`
// bytes and then calls the real file Store. mode "crash": the process is killed by SIGXFSZ at
// the byte where the write is cut; mode "ioerr": the write fails with EFBIG and Store returns.
func childFileStore(dir string, n, limit int, mode string) {
	if mode == "crash" {
		// SIGXFSZ back to SIG_DFL behind the back of the Go runtime (signal.Reset alone leaves the
		// runtime's handler in place: write(2) then returns EFBIG and nobody dies): 32 zero bytes are
		// a struct sigaction with handler SIG_DFL, no flags, empty mask
		signal.Reset(syscall.SIGXFSZ)
		var act [32]byte
		if _, _, e := syscall.RawSyscall6(syscall.SYS_RT_SIGACTION, uintptr(syscall.SIGXFSZ), uintptr(unsafe.Pointer(&act[0])), 0, 8, 0, 0); e != 0 {
			fmt.Println("rt_sigaction:", e)
			os.Exit(4)
		}
	} else {
		signal.Ignore(syscall.SIGXFSZ)
	}
	if mode != "plain" { // "plain": no limit (the faults come from outside, see fam_filesys.go)
		lim := syscall.Rlimit{Cur: uint64(limit), Max: uint64(limit)}
		if err := syscall.Setrlimit(syscall.RLIMIT_FSIZE, &lim); err != nil {
			fmt.Println("setrlimit:", err)
			os.Exit(4)
		}
	}
	p := mfile.NewPersistForPath(dir)
	err := p.Store(context.Background(), childName, patternBytes(n))
	if err != nil {
		os.Exit(3)
	}
	os.Exit(0)
}

type fileCrashExec struct{}

func (fileCrashExec) Exec(line string) (obs, viol string) {
	t := strings.Fields(line)
	if t[0] == "fcrashl" {
		return execCrashLong(t)
	}
	if t[0] != "fcrash" {
		return "bad-op", ""
	}
	n, _ := strconv.Atoi(t[1])
	cut, _ := strconv.Atoi(t[2])
	mode := t[3]
	dir, err := os.MkdirTemp("", "verif-filecrash-")
	if err != nil {
		panic(err)
	}
	defer os.RemoveAll(dir)
	self, _ := os.Executable()
	cmd := exec.Command(self, "-child-filestore", dir, strconv.Itoa(n), strconv.Itoa(cut), mode)
	out, _ := cmd.CombinedOutput()
	code := cmd.ProcessState.ExitCode()
	if code == 4 {
		return "harness-error " + string(out), ""
	}
	reported := code == 0 // the first Store reported success
	want := patternBytes(n)
	p := mfile.NewPersistForPath(dir)
	classify := func() string {
		b, err := p.Load(context.Background(), crashName)
		if err != nil {
			if os.IsNotExist(err) {
				return "absent"
			}
			return "loaderr"
		}
		if bytes.Equal(b, want) {
			return "complete"
		}
		return fmt.Sprintf("partial(%d/%d)", len(b), n)
	}
	after := classify()
	if strings.HasPrefix(after, "partial") || after == "loaderr" {
		viol = fmt.Sprintf("write of %d bytes cut at offset %d (%s): a later load returns %s", n, cut, mode, after)
	}
	if reported && after != "complete" {
		viol = "the write reported success but a later load returns " + after
	}
	// restart: store again (no limit now), then load
	err = p.Store(context.Background(), crashName, want)
	again := classify()
	if err != nil {
		again = "storeerr"
	}
	if viol == "" && again != "complete" {
		viol = fmt.Sprintf("write of %d bytes cut at offset %d (%s), then stored again: a later load returns %s (not repaired)", n, cut, mode, again)
	}
	// garbage under node-like names? (temp files are fine, they are not node names)
	ents, _ := os.ReadDir(dir)
	for _, e := range ents {
		if len(e.Name()) == 43 && e.Name() != crashName {
			viol = "unexpected file under a node-like name: " + e.Name()
		}
	}
	_ = filepath.Join
	return after + " " + again, viol
}

func (fileCrashExec) ModelLine(line string) string {
	t := strings.Fields(line)
	if t[0] == "fcrashl" {
		return "echo ok" // oracle only: the step model speaks of node names
	}
	n, _ := strconv.Atoi(t[1])
	cut, _ := strconv.Atoi(t[2])
	// model steps: stat, createTemp, one per byte, close+chmod, rename
	steps := 2 + cut
	if cut >= n {
		steps = n + 4
	}
	return fmt.Sprintf("fcrash %d %d", n, steps)
}

var theFileSysExec = &fileSysExec{}
var fileCrashRunner = Runner{Mk: func(Cfg) Executor { return theFileSysExec }}

func famFileCrash(f *FamCtx) {
	f.Report.Rule = "the real file Store runs in a child process under RLIMIT_FSIZE = cut for EVERY cut in 0..len on small nodes (len 1..40 quick, ..300 thorough) and sampled cuts on larger ones, in two modes: the process is killed by SIGXFSZ at the cut (crash) or the write fails with EFBIG (I/O error); the parent then loads the name, stores it again and loads again; outcomes {absent, complete, partial} compared with the Lean step model of the store at the same cut and with C17's statement; and at system-call level: the child runs under strace, which kills it on entering, or fails with EIO, each system call the store makes on the node's directory (probe, temporary file, write, close, chmod, rename) in turn; and under a caller's context that turns cancelled at its k-th consultation; non-trivial = cases with 0 < cut < len"
	rn := fileCrashRunner
	cfg := Cfg{BF: 16, Fmt: "bin", KK: "u64", VKind: "u64", Cache: "none"}
	maxLen := f.N(24, 300)
	lens := []int{1, 2, 7}
	for i := 0; i < f.N(2, 12); i++ {
		lens = append(lens, 1+f.Rand.Intn(maxLen))
	}
	exhaustive := 0
	for _, n := range lens {
		var ops []string
		for cut := 0; cut <= n; cut++ {
			ops = append(ops, fmt.Sprintf("fcrash %d %d %s", n, cut, []string{"crash", "ioerr"}[cut%2]))
			if f.Rand.Intn(4) == 0 {
				ops = append(ops, fmt.Sprintf("fcrash %d %d %s", n, cut, []string{"ioerr", "crash"}[cut%2]))
			}
		}
		exhaustive++
		f.RunTreeCase(Case{cfg, ops}, rn, func(CaseStats) bool { return n > 1 })
	}
	// long names (the file name, or the temporary name next to it, may not fit the file system's limit)
	for i := 0; i < f.N(2, 12); i++ {
		n := 1 + f.Rand.Intn(40)
		var ops []string
		for _, l := range []int{200, 240, 244, 245, 246, 247, 248, 250, 254, 255} {
			for j := 0; j < 2; j++ {
				ops = append(ops, fmt.Sprintf("fcrashl %d %d %s %d", n, f.Rand.Intn(n+1), pick(f.Rand, []string{"crash", "ioerr"}), l))
			}
		}
		f.RunTreeCase(Case{cfg, ops}, rn, func(CaseStats) bool { return true })
	}
	// larger nodes, sampled cuts
	f.Gen = func() Case {
		n := 1000 + f.Rand.Intn(100000)
		var ops []string
		for i := 0; i < 6; i++ {
			ops = append(ops, fmt.Sprintf("fcrash %d %d %s", n, f.Rand.Intn(n+1), pick(f.Rand, []string{"crash", "ioerr"})))
		}
		return Case{cfg, ops}
	}
	for i := 0; i < f.N(4, 60); i++ {
		f.RunTreeCase(f.Gen(), rn, func(CaseStats) bool { return true })
	}
	// system-call level: a crash (SIGKILL) on entering, or the error EIO from, each system call the
	// store makes on the node's directory (traced and injected with strace)
	sysLens := []int{1, 300}
	if f.Tier == "thorough" {
		sysLens = []int{1, 2, 300, 5000, 70000, 300000}
	}
	for _, n := range sysLens {
		var ops []string
		for j := 0; j < 9; j++ {
			ops = append(ops, fmt.Sprintf("fsys %d %d kill", n, j), fmt.Sprintf("fsys %d %d eio", n, j))
		}
		f.RunTreeCase(Case{cfg, ops}, rn, func(CaseStats) bool { return true })
	}
	// a caller's context that is cancelled while the Store is under way (consultations 0..7)
	for _, n := range []int{1, 300, 70000, 300000} {
		var ops []string
		for k := 0; k < 8; k++ {
			ops = append(ops, fmt.Sprintf("fctx %d %d", n, k))
		}
		f.RunTreeCase(Case{cfg, ops}, rn, func(CaseStats) bool { return true })
	}
	// a Store that fails before anything is written (base directory missing / a regular file), the
	// directory created, the node stored again through the same Persist value
	for _, n := range []int{1, 300, 70000} {
		f.RunTreeCase(Case{cfg, []string{fmt.Sprintf("fsame %d missing", n), fmt.Sprintf("fsame %d notdir", n)}}, rn, func(CaseStats) bool { return true })
	}
	f.Report.Stats = map[string]interface{}{"lengths_with_every_cut": exhaustive,
		"syscall_faults_injected": theFileSysExec.injected, "syscall_faults_not_injected": theFileSysExec.skipped}
}

var _ = rand.Int

// execCrashLong: fcrashl <n> <cut> <mode> <l>: as fcrash, under a name of l characters (200..255)
// from the node-name alphabet.  A file system may refuse such a name (or the name of the temporary
// file next to it): a refused write is an error returned to the caller and leaves nothing; what may
// never happen is a partial file under the name, or a success that is not complete.  Oracle only.
func execCrashLong(t []string) (obs, viol string) {
	n, _ := strconv.Atoi(t[1])
	cut, _ := strconv.Atoi(t[2])
	mode := t[3]
	l, _ := strconv.Atoi(t[4])
	name := longName(l)
	dir, err := os.MkdirTemp("", "verif-filecrashl-")
	if err != nil {
		panic(err)
	}
	defer os.RemoveAll(dir)
	self, _ := os.Executable()
	cmd := exec.Command(self, "-child-filestore", dir, strconv.Itoa(n), strconv.Itoa(cut), mode, strconv.Itoa(l))
	out, _ := cmd.CombinedOutput()
	code := cmd.ProcessState.ExitCode()
	if code == 4 {
		return "harness-error " + string(out), ""
	}
	want := patternBytes(n)
	p := mfile.NewPersistForPath(dir)
	classify := func() string {
		b, err := p.Load(context.Background(), name)
		if err != nil {
			if os.IsNotExist(err) {
				return "absent"
			}
			return "loaderr"
		}
		if bytes.Equal(b, want) {
			return "complete"
		}
		return fmt.Sprintf("partial(%d/%d)", len(b), n)
	}
	after := classify()
	where := fmt.Sprintf("write of %d bytes under a name of %d characters cut at offset %d (%s)", n, l, cut, mode)
	if strings.HasPrefix(after, "partial") || after == "loaderr" {
		viol = fmt.Sprintf("%s: a later load returns %s", where, after)
	}
	if code == 0 && after != "complete" {
		viol = where + ": the write reported success but a later load returns " + after
	}
	err = p.Store(context.Background(), name, want)
	again := classify()
	if viol == "" && err == nil && again != "complete" {
		viol = fmt.Sprintf("%s, then stored again with success: a later load returns %s (not repaired)", where, again)
	}
	if viol == "" && err != nil && again != "absent" && again != "complete" {
		viol = fmt.Sprintf("%s, then a store that failed (%v): a later load returns %s", where, err, again)
	}
	return "ok", viol
}
