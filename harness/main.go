package main

import (
	"encoding/json"
	"flag"
	"fmt"
	"math/rand"
	"os"
	"path/filepath"
	"sort"
	"strconv"
	"strings"
)

type famDef struct {
	Property string
	Run      func(*FamCtx)
	Mk       Runner
}

var families = map[string]famDef{
	"map":       {"C01", famMap, mapRunner},
	"canon":     {"C04", famCanon, exactRunner},
	"persist":   {"C05", famPersist, exactRunner},
	"diff":      {"C06", famDiff, exactRunner},
	"cursor":    {"C10", famCursor, exactRunner},
	"reads":     {"C16", famReads, exactRunner},
	"difflinks": {"C07", famDiffLinks, exactRunner},
	"format":    {"C14", famFormat, formatRunner},
	"badroots":  {"C19", famBadRoots, badRootRunner},
	"backends":  {"C18", famBackends, Runner{}},
	"flush":     {"C03", famFlush, exactRunner},
	"versions":  {"C02", famVersions, exactRunner},
	"ptr":       {"C02", famPtr, ptrRunner},
	"faults":    {"C12", famFaults, faultRunner},
	"conc":      {"C11", famConc, Runner{}},
	"filecrash": {"C17", famFileCrash, fileCrashRunner},
	"diffcost":  {"C15", famDiffCost, exactRunner},
}

func main() {
	if len(os.Args) >= 6 && os.Args[1] == "-child-filestore" {
		n, _ := strconv.Atoi(os.Args[3])
		lim, _ := strconv.Atoi(os.Args[4])
		if len(os.Args) >= 7 {
			l, _ := strconv.Atoi(os.Args[6])
			childName = longName(l)
		}
		childFileStore(os.Args[2], n, lim, os.Args[5])
		return
	}
	fam := flag.String("family", "", "family to run")
	seed := flag.Int64("seed", 1, "PRNG seed")
	tier := flag.String("tier", "quick", "quick|thorough")
	out := flag.String("out", "-", "report file")
	corpus := flag.String("corpus", "", "directory of corpus cases (*.json) replayed first")
	replay := flag.String("replay", "", "replay one case file and print the outcome")
	list := flag.Bool("list", false, "list families")
	facts := flag.String("facts", "", "check a group of source facts against the committed expectations")
	updateFacts := flag.Bool("update-facts", false, "with -facts: rewrite the expectations from the current sources")
	translate := flag.String("translate", "", "regenerate the Lean definitions of key.go's integer loops into this file")
	genvec := flag.String("genvectors", "", "write frozen format vectors to this file (run against the pinned release)")
	flag.Parse()
	if *facts != "" {
		os.Exit(runFacts(*facts, *updateFacts))
	}
	if *translate != "" {
		os.Exit(runTranslate(*translate))
	}
	if *genvec != "" {
		if strings.HasSuffix(*genvec, "format2.json") || strings.HasSuffix(*genvec, "format3.json") {
			writeVectors2(*genvec, 20260930)
			return
		}
		writeVectors(*genvec, 20260929)
		return
	}
	if *list {
		var names []string
		for k := range families {
			names = append(names, k)
		}
		sort.Strings(names)
		for _, k := range names {
			fmt.Println(k, families[k].Property)
		}
		return
	}
	fd, ok := families[*fam]
	if !ok {
		fmt.Fprintln(os.Stderr, "unknown family", *fam)
		os.Exit(2)
	}
	d, err := NewDriver()
	if err != nil {
		fmt.Fprintln(os.Stderr, "cannot start model driver:", err)
		os.Exit(2)
	}
	defer d.Close()
	rep := &Report{Family: *fam, Property: fd.Property, Seed: *seed, Tier: *tier}
	f := &FamCtx{Rand: rand.New(rand.NewSource(*seed)), Seed: *seed, Tier: *tier, Driver: d, Report: rep,
		seen: map[string]bool{}, nontr: map[string]bool{}, opHist: map[string]int{}, hHist: map[int]int{}}
	if *replay != "" {
		c := readCase(*replay)
		o := RunCase(c, d, fd.Mk, nil)
		writeJSON("-", o)
		if o.Kind != "" {
			os.Exit(1)
		}
		return
	}
	if *corpus != "" && fd.Mk.Mk != nil {
		files, _ := filepath.Glob(filepath.Join(*corpus, "*.json"))
		sort.Strings(files)
		for _, p := range files {
			f.corpus = append(f.corpus, readCase(p))
		}
		f.corpusRunner = fd.Mk
	}
	fd.Run(f)
	for _, cc := range f.TakeCorpus() {
		f.RunTreeCase(cc, fd.Mk, func(CaseStats) bool { return true })
	}
	f.Finish()
	writeJSON(*out, rep)
	if len(rep.Findings) > 0 {
		os.Exit(1)
	}
}

func readCase(path string) Case {
	b, err := os.ReadFile(path)
	if err != nil {
		fmt.Fprintln(os.Stderr, err)
		os.Exit(2)
	}
	// a corpus file is either a bare case or a finding with a "shrunk" case
	var fi struct {
		Shrunk *Case `json:"shrunk"`
		Case
	}
	if err := json.Unmarshal(b, &fi); err != nil {
		fmt.Fprintln(os.Stderr, path, err)
		os.Exit(2)
	}
	if fi.Shrunk != nil {
		return *fi.Shrunk
	}
	return fi.Case
}
