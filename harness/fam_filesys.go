package main

import (
	"bytes"
	"context"
	"fmt"
	"os"
	"os/exec"
	"path/filepath"
	"regexp"
	"runtime"
	"strconv"
	"strings"

	mfile "github.com/jrhy/mast/persist/file"
)

// The system-call level tie of the file store (C17): the real `Store` runs in a child process
// under strace; a first run records which system calls it makes on the node's directory (the
// probe of the final name, the creation of the temporary file, the writes, close, chmod, the
// rename), a second run injects a fault at the j-th of them — SIGKILL on entering it (a crash at
// that point of the protocol) or the error EIO as its result (an I/O error the process survives).
// Whatever the source looks like, the observable contract must hold at every such point.

func init() {
	// every system call of the child's Store must come from one thread, so that strace's
	// per-thread invocation counters identify it
	if len(os.Args) > 1 && os.Args[1] == "-child-filestore" {
		runtime.LockOSThread()
	}
}

const sysTraceSet = "openat,open,creat,write,pwrite64,writev,close,fchmodat,fchmod,chmod,renameat,renameat2,rename,unlinkat,unlink,fsync,fdatasync,newfstatat,stat,lstat,statx,ftruncate,link,linkat"

type sysEv struct {
	name string
	ord  int // 1-based count of this system call's invocations by the main thread
	line string
}

var straceLineRe = regexp.MustCompile(`^(\d+)\s+([a-z0-9_]+)\((.*)$`)

// straceStore runs the child under strace; inject is "" or a complete -e inject=... value.
func straceStore(dir string, n int, inject string) (exit int, evs []sysEv, raw string, err error) {
	self, _ := os.Executable()
	logf, err := os.CreateTemp("", "verif-strace-")
	if err != nil {
		return 0, nil, "", err
	}
	logf.Close()
	defer os.Remove(logf.Name())
	args := []string{"-f", "-qq", "-o", logf.Name(), "-e", "trace=" + sysTraceSet}
	if inject != "" {
		args = append(args, "-e", "inject="+inject)
	}
	args = append(args, self, "-child-filestore", dir, strconv.Itoa(n), "0", "plain")
	cmd := exec.Command("strace", args...)
	out, rerr := cmd.CombinedOutput()
	if cmd.ProcessState == nil {
		return 0, nil, "", fmt.Errorf("strace did not run: %v %s", rerr, out)
	}
	exit = cmd.ProcessState.ExitCode()
	b, _ := os.ReadFile(logf.Name())
	raw = string(b)
	lines := strings.Split(raw, "\n")
	mainPid := ""
	counts := map[string]int{}
	tmpFd := ""
	for _, ln := range lines {
		m := straceLineRe.FindStringSubmatch(ln)
		if m == nil {
			continue
		}
		if mainPid == "" {
			mainPid = m[1]
		}
		if m[1] != mainPid {
			continue
		}
		name, rest := m[2], m[3]
		counts[name]++
		relevant := strings.Contains(rest, dir)
		if tmpFd != "" && (strings.HasPrefix(rest, tmpFd+",") || strings.HasPrefix(rest, tmpFd+")")) {
			relevant = true
		}
		if relevant {
			evs = append(evs, sysEv{name, counts[name], ln})
			if (name == "openat" || name == "open" || name == "creat") && strings.Contains(rest, ".tmp") {
				if i := strings.LastIndex(rest, "= "); i >= 0 {
					fd := strings.TrimSpace(rest[i+2:])
					if _, e := strconv.Atoi(fd); e == nil {
						tmpFd = fd
					}
				}
			}
			if name == "close" {
				tmpFd = ""
			}
		}
	}
	if len(raw) == 0 {
		return exit, nil, raw, fmt.Errorf("empty strace log (ptrace not permitted?): %s", out)
	}
	return exit, evs, raw, nil
}

type fileSysExec struct {
	fileCrashExec
	lastSteps int
	injected  int
	skipped   int
	probes    map[int][]sysEv
	probeErr  error
}

// probe: the system calls of a fault-free store of n bytes (one traced run per length)
func (e *fileSysExec) probe(n int) ([]sysEv, error) {
	if e.probeErr != nil {
		return nil, e.probeErr
	}
	if evs, ok := e.probes[n]; ok {
		return evs, nil
	}
	dir, err := os.MkdirTemp("", "verif-filesys-")
	if err != nil {
		panic(err)
	}
	defer os.RemoveAll(dir)
	_, evs, _, err := straceStore(dir, n, "")
	if err != nil {
		e.probeErr = err
		return nil, err
	}
	if e.probes == nil {
		e.probes = map[int][]sysEv{}
	}
	e.probes[n] = evs
	return evs, nil
}

// flipCtx: a context that reports cancellation from its k-th consultation on (Err or Done): a
// caller's context that is cancelled, or expires, while a Store is under way.
type flipCtx struct {
	context.Context
	k, calls int
	done     chan struct{}
}

func (c *flipCtx) look() bool {
	c.calls++
	if c.calls > c.k {
		select {
		case <-c.done:
		default:
			close(c.done)
		}
		return true
	}
	return false
}
func (c *flipCtx) Err() error {
	if c.look() {
		return context.Canceled
	}
	return nil
}
func (c *flipCtx) Done() <-chan struct{} { c.look(); return c.done }

// execCtx: fctx <n> <k>: the file Store of n bytes under a context that turns cancelled at its
// k-th consultation.  Whatever the store makes of the context, what it reports must be true.
func (e *fileSysExec) execCtx(n, k int) (obs, viol string) {
	dir, err := os.MkdirTemp("", "verif-filectx-")
	if err != nil {
		panic(err)
	}
	defer os.RemoveAll(dir)
	want := patternBytes(n)
	p := mfile.NewPersistForPath(dir)
	ctx := &flipCtx{Context: context.Background(), k: k, done: make(chan struct{})}
	serr := p.Store(ctx, crashName, want)
	classify := func() string {
		b, err := p.Load(context.Background(), crashName)
		if err != nil {
			if os.IsNotExist(err) {
				return "absent"
			}
			return "loaderr"
		}
		if bytes.Equal(b, want) {
			return "complete"
		}
		return fmt.Sprintf("partial(%d/%d)", len(b), n)
	}
	after := classify()
	where := fmt.Sprintf("write of %d bytes under a context cancelled at its consultation #%d", n, k+1)
	if strings.HasPrefix(after, "partial") || after == "loaderr" {
		viol = fmt.Sprintf("%s: a later load returns %s", where, after)
	}
	if serr == nil && after != "complete" {
		viol = fmt.Sprintf("%s: the write reported success but a later load returns %s", where, after)
	}
	err = p.Store(context.Background(), crashName, want)
	again := classify()
	if err != nil {
		again = "storeerr"
	}
	if viol == "" && again != "complete" {
		viol = fmt.Sprintf("%s, then stored again: a later load returns %s (not repaired)", where, again)
	}
	if after == "complete" {
		e.lastSteps = n + 4
	} else {
		e.lastSteps = 1
	}
	return after + " " + again, viol
}

// execSame: fsame <n> <kind>: a Store that fails BEFORE anything is written because of the
// environment (the base directory is missing, or is a regular file), the environment repaired, and
// the same node stored again through the SAME Persist value (a long-running process): the second
// Store must really write.
func (e *fileSysExec) execSame(n int, kind string) (obs, viol string) {
	dir, err := os.MkdirTemp("", "verif-filesame-")
	if err != nil {
		panic(err)
	}
	defer os.RemoveAll(dir)
	base := filepath.Join(dir, "nodes")
	if kind == "notdir" {
		os.WriteFile(base, []byte("x"), 0644)
	}
	want := patternBytes(n)
	p := mfile.NewPersistForPath(base)
	serr := p.Store(context.Background(), crashName, want)
	classify := func() string {
		b, err := p.Load(context.Background(), crashName)
		if err != nil {
			return "absent"
		}
		if bytes.Equal(b, want) {
			return "complete"
		}
		return fmt.Sprintf("partial(%d/%d)", len(b), n)
	}
	after := classify()
	where := fmt.Sprintf("write of %d bytes into a base directory that is %s", n, map[string]string{"missing": "missing", "notdir": "a regular file"}[kind])
	if serr == nil && after != "complete" {
		viol = fmt.Sprintf("%s: the write reported success but a later load returns %s", where, after)
	}
	os.Remove(base)
	os.Mkdir(base, 0755)
	err = p.Store(context.Background(), crashName, want)
	again := classify()
	if err != nil {
		again = "storeerr"
	}
	if viol == "" && again != "complete" {
		viol = fmt.Sprintf("%s, then (directory created) stored again through the same Persist: a later load returns %s (not repaired)", where, again)
	}
	if after == "complete" {
		e.lastSteps = n + 4
	} else {
		e.lastSteps = 1
	}
	return after + " " + again, viol
}

func (e *fileSysExec) Exec(line string) (obs, viol string) {
	t := strings.Fields(line)
	if t[0] == "fsame" {
		n, _ := strconv.Atoi(t[1])
		return e.execSame(n, t[2])
	}
	if t[0] == "fctx" {
		n, _ := strconv.Atoi(t[1])
		k, _ := strconv.Atoi(t[2])
		return e.execCtx(n, k)
	}
	if t[0] != "fsys" {
		return e.fileCrashExec.Exec(line)
	}
	n, _ := strconv.Atoi(t[1])
	j, _ := strconv.Atoi(t[2])
	mode := t[3]
	want := patternBytes(n)
	e.lastSteps = n + 4
	evs, err := e.probe(n)
	if err != nil || j >= len(evs) {
		// no strace here, or the store makes fewer calls: nothing is injected, nothing is claimed
		e.skipped++
		return "complete complete", ""
	}
	ev := evs[j]
	dir, err := os.MkdirTemp("", "verif-filesys-")
	if err != nil {
		panic(err)
	}
	defer os.RemoveAll(dir)
	inj := fmt.Sprintf("%s:signal=SIGKILL:when=%d", ev.name, ev.ord)
	if mode == "eio" {
		inj = fmt.Sprintf("%s:error=EIO:when=%d", ev.name, ev.ord)
	}
	exit, evs2, raw2, err := straceStore(dir, n, inj)
	if err != nil {
		e.skipped++
		return "complete complete", ""
	}
	// did the fault land on the intended call?  (the same position in the second run's list)
	landed := j < len(evs2) && evs2[j].name == ev.name && evs2[j].ord == ev.ord
	if mode == "kill" {
		landed = landed && strings.Contains(raw2, "killed by SIGKILL") && j == len(evs2)-1
	} else {
		landed = landed && strings.Contains(evs2[j].line, "(INJECTED)")
	}
	if !landed {
		e.skipped++
		return "complete complete", ""
	}
	e.injected++
	reported := exit == 0
	p := mfile.NewPersistForPath(dir)
	classify := func() string {
		b, err := p.Load(context.Background(), crashName)
		if err != nil {
			if os.IsNotExist(err) {
				return "absent"
			}
			return "loaderr"
		}
		if bytes.Equal(b, want) {
			return "complete"
		}
		return fmt.Sprintf("partial(%d/%d)", len(b), n)
	}
	after := classify()
	where := fmt.Sprintf("%s at system call #%d of the store (%s)", map[string]string{"kill": "killed", "eio": "EIO"}[mode], j, strings.TrimSpace(ev.line))
	if strings.HasPrefix(after, "partial") || after == "loaderr" {
		viol = fmt.Sprintf("write of %d bytes, %s: a later load returns %s", n, where, after)
	}
	if reported && after != "complete" {
		viol = fmt.Sprintf("write of %d bytes, %s: the write reported success but a later load returns %s", n, where, after)
	}
	if mode == "eio" && !reported && exit != 3 {
		viol = fmt.Sprintf("write of %d bytes, %s: the store neither returned the error nor succeeded (exit %d)", n, where, exit)
	}
	// (an error the store absorbs is fine as long as what it then reports is true: Go's
	// os.Rename, for one, ignores a failing Lstat of the target)
	err = p.Store(context.Background(), crashName, want)
	again := classify()
	if err != nil {
		again = "storeerr"
	}
	if viol == "" && again != "complete" {
		viol = fmt.Sprintf("write of %d bytes, %s, then stored again: a later load returns %s (not repaired)", n, where, again)
	}
	ents, _ := os.ReadDir(dir)
	for _, en := range ents {
		if len(en.Name()) == 43 && en.Name() != crashName {
			viol = "unexpected file under a node-like name: " + en.Name()
		}
	}
	if after == "complete" {
		e.lastSteps = n + 4
	} else {
		e.lastSteps = 1
	}
	return after + " " + again, viol
}

func (e *fileSysExec) ModelLine(line string) string {
	t := strings.Fields(line)
	if t[0] != "fsys" && t[0] != "fctx" && t[0] != "fsame" {
		return e.fileCrashExec.ModelLine(line)
	}
	// the step model at a cut with the same outcome class (which step a system call belongs to is
	// the implementation's business; the contract at the cut is what is compared)
	return fmt.Sprintf("fcrash %s %d", t[1], e.lastSteps)
}
