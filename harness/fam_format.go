package main

import (
	"bytes"
	"encoding/hex"
	"encoding/json"
	"fmt"
	"math"
	"math/rand"
	"os"
	"path/filepath"
	"strconv"
	"strings"

	"github.com/jrhy/mast"
)

// SK is a struct key: ordered by its marshaled form.
type SK struct{ A string }

type formatExec struct{}

func goKey(kind string, n uint64) (interface{}, bool) {
	switch kind {
	case "uint64":
		return n, true
	case "uint":
		return uint(n), true
	case "uint32":
		return uint32(n), n < 1<<32
	case "uint16":
		return uint16(n), n < 1<<16
	case "uint8":
		return uint8(n), n < 1<<8
	case "int64":
		return int64(n) - i64bias, true
	case "int":
		return int(int64(n) - i64bias), true
	case "int32":
		return int32(int64(n) - i64bias), true
	case "int16":
		v := int64(n) - i64bias
		return int16(v), v >= -32768 && v < 32768
	case "int8":
		v := int64(n) - i64bias
		return int8(v), v >= -128 && v < 128
	case "string":
		return strKey(n), true
	case "bytes":
		return []byte{byte(n >> 16), byte(n >> 8), byte(n)}, true
	case "struct":
		return SK{strKey(n)}, true
	case "vk":
		return VK(n), true
	}
	return nil, false
}

// marshaledOrder: key types that DefaultKeyCompare has no case for are ordered by the bytes of
// their marshaled form (key.go:81-91) - that, not numeric order, is the published default.
func marshaledOrder(kind string) bool {
	switch kind {
	case "uint32", "uint16", "uint8", "int32", "int16", "int8", "struct":
		return true
	}
	return false
}

func modelKind(kind string) string {
	switch kind {
	case "uint64", "uint", "uint32", "uint16", "uint8":
		return "u64"
	case "int64", "int", "int32", "int16", "int8":
		return "i64"
	case "string":
		return "str"
	case "bytes":
		return "bytes"
	case "vk":
		return "vk"
	}
	return kind
}

func (formatExec) Exec(line string) (obs, viol string) {
	defer func() {
		if p := recover(); p != nil {
			obs = "panic " + fmt.Sprint(p)
			viol = obs
		}
	}()
	t := strings.Fields(line)
	switch t[0] {
	case "layer":
		bf, _ := strconv.ParseUint(t[2], 10, 64)
		n, _ := strconv.ParseUint(t[3], 10, 64)
		k, ok := goKey(t[1], n)
		if !ok {
			return "bad-op", ""
		}
		l, err := mast.DefaultLayer(json.Marshal)(k, uint(bf))
		if err != nil {
			return "err", "DefaultLayer failed: " + err.Error()
		}
		obs = fmt.Sprint(l)
		var want int
		switch t[1] {
		case "struct":
			js, _ := json.Marshal(k)
			want = refUintLayer(crcOf(js), bf)
		default:
			want = Cfg{BF: uint(bf), KK: modelKind(t[1])}.RefLayer(n)
		}
		if want&255 != int(l) {
			viol = fmt.Sprintf("layer of %s %v at branch factor %d is %d, the published rule gives %d", t[1], k, bf, l, want)
		}
		return obs, viol
	case "decj":
		// decj <hex>: the node text decoded the way store.go does (encoding/json into raw
		// elements and link names), rendered canonically
		b, _ := hex.DecodeString(t[1])
		var sn struct {
			Key   []json.RawMessage
			Value []json.RawMessage
			Link  []string `json:",omitempty"`
		}
		if err := json.Unmarshal(b, &sn); err != nil {
			return "err", ""
		}
		var sb strings.Builder
		sb.WriteString("k")
		for _, k := range sn.Key {
			sb.WriteString(":" + hex.EncodeToString(k))
		}
		sb.WriteString(" v")
		for _, v := range sn.Value {
			sb.WriteString(":" + hex.EncodeToString(v))
		}
		sb.WriteString(" l")
		for _, l := range sn.Link {
			if l == "" {
				sb.WriteString(":-")
			} else {
				sb.WriteString(":" + hex.EncodeToString([]byte(l)))
			}
		}
		return sb.String(), ""
	case "cmpx":
		// cmpx <int64|int> <a> <b>: the default order on signed keys anywhere in the 64-bit range (in
		// particular pairs more than 2^63 apart, whose difference does not fit an int64)
		a, _ := strconv.ParseInt(t[2], 10, 64)
		b, _ := strconv.ParseInt(t[3], 10, 64)
		var ka, kb interface{} = a, b
		if t[1] == "int" {
			ka, kb = int(a), int(b)
		}
		c, err := mast.DefaultKeyCompare(json.Marshal)(ka, kb)
		if err != nil {
			return "err", "DefaultKeyCompare failed: " + err.Error()
		}
		sign, want := 0, 0
		if c < 0 {
			sign = -1
		} else if c > 0 {
			sign = 1
		}
		if a < b {
			want = -1
		} else if a > b {
			want = 1
		}
		if sign != want {
			viol = fmt.Sprintf("default order of %s keys: compare(%d, %d) has sign %d, the numeric order gives %d", t[1], a, b, sign, want)
		}
		return fmt.Sprint(sign), viol
	case "cmp":
		a, _ := strconv.ParseUint(t[2], 10, 64)
		b, _ := strconv.ParseUint(t[3], 10, 64)
		ka, ok1 := goKey(t[1], a)
		kb, ok2 := goKey(t[1], b)
		if !ok1 || !ok2 {
			return "bad-op", ""
		}
		c, err := mast.DefaultKeyCompare(json.Marshal)(ka, kb)
		if err != nil {
			return "err", "DefaultKeyCompare failed: " + err.Error()
		}
		sign := 0
		if c < 0 {
			sign = -1
		} else if c > 0 {
			sign = 1
		}
		want := 0
		if a < b {
			want = -1
		} else if a > b {
			want = 1
		}
		if marshaledOrder(t[1]) {
			ja, _ := json.Marshal(ka)
			jb, _ := json.Marshal(kb)
			want = bytes.Compare(ja, jb)
		}
		if sign != want {
			viol = fmt.Sprintf("default order of %s keys %v, %v is %d, expected %d", t[1], ka, kb, sign, want)
		}
		return fmt.Sprint(sign), viol
	case "defaults":
		r := mast.NewRoot(nil)
		m := mast.NewInMemory()
		obs = fmt.Sprintf("%d %s", r.BranchFactor, r.NodeFormat)
		if r.BranchFactor != 16 || r.NodeFormat != "v1.1.5binary" || m.BranchFactor() != 16 || r.Link != nil || r.Size != 0 || r.Height != 0 || mast.DefaultBranchFactor != 16 {
			viol = "defaults of a new tree are not (branch factor 16, compact binary format, empty)"
		}
		return obs, viol
	}
	return "bad-op", ""
}

func crcOf(b []byte) uint64 {
	return crcChecksum(b)
}

func (formatExec) ModelLine(line string) string {
	t := strings.Fields(line)
	switch t[0] {
	case "layer":
		if t[1] == "struct" {
			n, _ := strconv.ParseUint(t[3], 10, 64)
			js, _ := json.Marshal(SK{strKey(n)})
			return "crclayer " + t[2] + " " + hex.EncodeToString(js)
		}
		return fmt.Sprintf("layer %s %s %s", modelKind(t[1]), t[2], t[3])
	case "cmpx":
		// the order-preserving code of a signed key: flip the sign bit
		a, _ := strconv.ParseInt(t[2], 10, 64)
		b, _ := strconv.ParseInt(t[3], 10, 64)
		return fmt.Sprintf("cmp %d %d", uint64(a)^(1<<63), uint64(b)^(1<<63))
	case "cmp":
		if marshaledOrder(t[1]) {
			a, _ := strconv.ParseUint(t[2], 10, 64)
			b, _ := strconv.ParseUint(t[3], 10, 64)
			ka, _ := goKey(t[1], a)
			kb, _ := goKey(t[1], b)
			ja, _ := json.Marshal(ka)
			jb, _ := json.Marshal(kb)
			return "cmpbytes " + hex.EncodeToString(ja) + " " + hex.EncodeToString(jb)
		}
		return "cmp " + t[2] + " " + t[3]
	}
	return line
}

var goKinds = []string{"uint64", "uint", "uint32", "uint16", "uint8", "int64", "int", "int32", "int16", "int8", "string", "bytes", "struct"}

func genFormatCase(r *rand.Rand) Case {
	var ops []string
	bfs := []uint64{2, 3, 4, 5, 6, 7, 8, 9, 10, 11, 12, 13, 14, 15, 16, 17, 64, 256}
	for i := 0; i < 60; i++ {
		kind := pick(r, goKinds)
		bf := pick(r, bfs)
		var n uint64
		switch modelKind(kind) {
		case "u64":
			n = uint64(r.Intn(300))
			for j := r.Intn(5); j > 0; j-- {
				n *= bf
			}
			if r.Intn(20) == 0 {
				n = r.Uint64()
			}
		case "i64":
			v := int64(r.Intn(200))
			for j := r.Intn(4); j > 0 && v*int64(bf) < i64bias; j-- {
				v *= int64(bf)
			}
			if r.Intn(2) == 0 {
				v = -v
			}
			n = uint64(v + i64bias)
		default:
			n = uint64(r.Intn(1 << 23))
		}
		if _, ok := goKey(kind, n); !ok {
			continue
		}
		ops = append(ops, fmt.Sprintf("layer %s %d %d", kind, bf, n))
		m := n + uint64(r.Intn(5)) - 2
		if _, ok := goKey(kind, m); ok && m < 1<<40 {
			ops = append(ops, fmt.Sprintf("cmp %s %d %d", kind, n, m))
		}
		if kind == "int64" || kind == "int" {
			ext := []int64{math.MinInt64, math.MinInt64 + 1, -6000000000000000000, -(1 << 62) - 1, -(1 << 62), -1, 0, 1, 1 << 62, (1 << 62) + 1, 6000000000000000000, math.MaxInt64 - 1, math.MaxInt64}
			a, b := pick(r, ext), pick(r, ext)
			if r.Intn(3) == 0 {
				a = int64(r.Uint64())
			}
			if r.Intn(3) == 0 {
				b = int64(r.Uint64())
			}
			ops = append(ops, fmt.Sprintf("cmpx %s %d %d", kind, a, b), fmt.Sprintf("cmpx %s %d %d", kind, b, a))
		}
		if modelKind(kind) == "u64" {
			// partners anywhere in the unsigned range, in particular on both sides of 2^63
			a, b := r.Uint64()>>uint(r.Intn(64)), r.Uint64()>>uint(r.Intn(64))
			if r.Intn(2) == 0 {
				a |= 1 << 63
			}
			_, oka := goKey(kind, a)
			_, okb := goKey(kind, b)
			if oka && okb {
				ops = append(ops, fmt.Sprintf("cmp %s %d %d", kind, a, b), fmt.Sprintf("cmp %s %d %d", kind, b, a))
			}
		}
	}
	// node texts in the canonical v1marshaler shape with elements that exercise the scanner:
	// nested arrays and objects, strings holding commas, brackets, escaped quotes and backslashes
	elems := []string{"1", "-20", "3.5e2", "true", "null", `"a"`, `"a,b"`, `"]"`, `"x\"y"`, `"\\"`, `[1,2]`, `[[1],[2,"]"]]`, `{"A":"x"}`, `{"A":[1,{"B":","}]}`, `"\u00e9"`, `""`}
	for i := 0; i < 8; i++ {
		n := r.Intn(4)
		var ks, vs []string
		for j := 0; j < n; j++ {
			ks = append(ks, pick(r, elems))
			vs = append(vs, pick(r, elems))
		}
		if r.Intn(6) == 0 && len(vs) > 0 {
			vs = vs[:len(vs)-1]
		}
		txt := `{"Key":[` + strings.Join(ks, ",") + `],"Value":[` + strings.Join(vs, ",") + `]`
		if r.Intn(2) == 0 {
			var ls []string
			for j := 0; j <= n; j++ {
				if r.Intn(2) == 0 {
					ls = append(ls, "null")
				} else {
					ls = append(ls, `"N`+strconv.Itoa(r.Intn(100))+`-_"`)
				}
			}
			txt += `,"Link":[` + strings.Join(ls, ",") + `]`
		}
		txt += "}"
		if r.Intn(5) == 0 {
			txt = txt[:r.Intn(len(txt))]
		}
		if len(txt) > 0 {
			ops = append(ops, "decj "+hex.EncodeToString([]byte(txt)))
		}
	}
	ops = append(ops, "defaults")
	return Case{Cfg{BF: 16, Fmt: "bin", KK: "u64", VKind: "u64", Cache: "none"}, ops}
}

// Vector is a frozen reference: a history and what every operation must answer, as produced
// by the pinned release.
type Vector struct {
	Case
	Expect []string `json:"expect"`
}

type vectorExec struct {
	s      *Session
	expect []string
	i      int
}

func (v *vectorExec) Exec(line string) (string, string) {
	obs, viol := v.s.Exec(line)
	if viol == "" && v.i < len(v.expect) && v.expect[v.i] != obs {
		viol = "differs from the frozen reference vector: expected " + v.expect[v.i]
	}
	v.i++
	return obs, viol
}

func vectorsDir() string {
	d := os.Getenv("VERIF_DIR")
	if d == "" {
		d = "/verif"
	}
	return filepath.Join(d, "vectors")
}

func genVectorCases(r *rand.Rand) []Case {
	var out []Case
	for _, bf := range allBF {
		for _, fm := range []string{"bin", "json"} {
			for _, kk := range allKK {
				cfg := Cfg{BF: bf, Fmt: fm, KK: kk, VKind: pick(r, allVK), Cache: "none"}
				uni := Universe(r, cfg, 12+r.Intn(30))
				ops := []string{"new 0"}
				for i, k := range uni {
					ops = append(ops, opIns(0, k, uint64(i%7)))
					if i%9 == 8 {
						ops = append(ops, fmt.Sprintf("roots 0 %d", i))
					}
				}
				ops = append(ops, "roots 0 999", "load 999 1", "iter 1", "stat 1")
				out = append(out, Case{cfg, ops})
			}
		}
	}
	return out
}

// genVectorCases2: the second set of frozen vectors (format2.json) — keys and values that are
// strings with characters around encoding/json's escaping rules (kinds strx / esc), the long
// values, and the nil / empty byte slices.
func genVectorCases2(r *rand.Rand) []Case {
	var out []Case
	for _, bf := range allBF {
		for _, fm := range []string{"bin", "json"} {
			for _, kv := range [][2]string{{"strx", "esc"}, {"vk", "esc"}, {"strx", "u64"}, {"u64", "esc"}, {"str", "nb"}} {
				cfg := Cfg{BF: bf, Fmt: fm, KK: kv[0], VKind: kv[1], Cache: "none"}
				uni := Universe(r, cfg, 20+r.Intn(20))
				ops := []string{"new 0"}
				for i, k := range uni {
					ops = append(ops, opIns(0, k, uint64(i*5+int(k%3))))
					if i%9 == 8 {
						ops = append(ops, fmt.Sprintf("roots 0 %d", i))
					}
				}
				ops = append(ops, "roots 0 999", "load 999 1", "iter 1", "stat 1")
				out = append(out, Case{cfg, ops})
			}
		}
	}
	return out
}

// genVectorCases3: the third set (format3.json) — struct keys under the default and under a CUSTOM
// marshaler (order and layer come from the configured marshaled form), pointer values that may be nil.
func genVectorCases3(r *rand.Rand) []Case {
	var out []Case
	for _, bf := range allBF {
		for _, kv := range [][3]string{{"skc", "u64", "bin"}, {"sk", "u64", "bin"}, {"sk", "np", "json"}, {"vk", "np", "bin"}, {"u64", "np", "json"}, {"skc", "np", "bin"}} {
			cfg := Cfg{BF: bf, Fmt: kv[2], KK: kv[0], VKind: kv[1], Cache: "none"}
			uni := Universe(r, cfg, 20+r.Intn(20))
			ops := []string{"new 0"}
			for i, k := range uni {
				ops = append(ops, opIns(0, k, uint64(i%4)))
				if i%9 == 8 {
					ops = append(ops, fmt.Sprintf("roots 0 %d", i))
				}
			}
			ops = append(ops, "roots 0 999", "load 999 1", "iter 1", "stat 1")
			out = append(out, Case{cfg, ops})
		}
	}
	return out
}

func writeVectors2(path string, seed int64) {
	r := rand.New(rand.NewSource(seed))
	var vs []Vector
	gen := genVectorCases2
	if strings.HasSuffix(path, "format3.json") {
		gen = genVectorCases3
	}
	for _, c := range gen(r) {
		s := NewSession(c.Cfg)
		v := Vector{Case: c}
		for _, line := range c.Ops {
			obs, _ := s.Exec(line)
			v.Expect = append(v.Expect, obs)
		}
		vs = append(vs, v)
	}
	writeJSON(path, vs)
}

// writeVectors is run once against the pinned release (see vectors/README).
func writeVectors(path string, seed int64) {
	r := rand.New(rand.NewSource(seed))
	var vs []Vector
	for _, c := range genVectorCases(r) {
		s := NewSession(c.Cfg)
		v := Vector{Case: c}
		for _, line := range c.Ops {
			obs, _ := s.Exec(line)
			v.Expect = append(v.Expect, obs)
		}
		vs = append(vs, v)
	}
	writeJSON(path, vs)
}

var formatRunner = Runner{Mk: func(Cfg) Executor { return formatExec{} }}

func famFormat(f *FamCtx) {
	f.Report.Rule = "frozen reference vectors (insert-only histories for every bf x format x key kind, every MakeRoot's stored names and bytes, reload) replayed on the implementation, on the model and against the recorded answers of the pinned release; DefaultLayer and DefaultKeyCompare on generated keys of all built-in kinds (uint*, int*, string, []byte, struct) at bf in 2..17, 64, 256 against the Lean layer functions / CRC-64 and against the harness's own statement of the rule; defaults of NewRoot(nil) and NewInMemory; v1marshaler node texts with nested / quoted / escaped elements (also truncated) decoded by encoding/json and by the model's scanner; non-trivial = every vector and every generated batch"
	rn := formatRunner
	f.Gen = func() Case { return genFormatCase(f.Rand) }
	// vectors first
	nvec := 0
	for _, file := range []string{"format.json", "format2.json", "format3.json"} {
		b, err := os.ReadFile(filepath.Join(vectorsDir(), file))
		if err != nil {
			f.Report.Findings = append(f.Report.Findings, Finding{Family: "format", Property: "C14", Note: "frozen vectors missing: " + err.Error()})
			continue
		}
		var vs []Vector
		if err := json.Unmarshal(b, &vs); err != nil {
			panic(err)
		}
		for _, v := range vs {
			v := v
			vr := Runner{Mk: func(c Cfg) Executor { return &vectorExec{s: NewSession(c), expect: v.Expect} }}
			f.RunTreeCase(v.Case, vr, func(CaseStats) bool { return true })
		}
		nvec += len(vs)
	}
	f.Report.Stats = map[string]interface{}{"vectors": nvec}
	n := f.N(150, 5000)
	for i := 0; i < n; i++ {
		f.RunTreeCase(f.Gen(), rn, func(CaseStats) bool { return true })
	}
}
