package main

import (
	"bufio"
	"fmt"
	"io"
	"os"
	"os/exec"
	"strings"
)

// Driver is the compiled Lean model behind the line protocol.
type Driver struct {
	cmd   *exec.Cmd
	in    io.WriteCloser
	out   *bufio.Reader
	Lines int
}

func driverPath() string {
	if p := os.Getenv("MASTMODEL"); p != "" {
		return p
	}
	return "/verif/lean/.lake/build/bin/mastmodel"
}

func NewDriver() (*Driver, error) {
	cmd := exec.Command(driverPath())
	in, err := cmd.StdinPipe()
	if err != nil {
		return nil, err
	}
	out, err := cmd.StdoutPipe()
	if err != nil {
		return nil, err
	}
	cmd.Stderr = os.Stderr
	if err := cmd.Start(); err != nil {
		return nil, err
	}
	return &Driver{cmd: cmd, in: in, out: bufio.NewReaderSize(out, 1<<20)}, nil
}

// Ask sends one request line and returns the model's response line.
func (d *Driver) Ask(line string) string {
	d.Lines++
	if _, err := io.WriteString(d.in, line+"\n"); err != nil {
		return "driver-error " + err.Error()
	}
	resp, err := d.out.ReadString('\n')
	if err != nil {
		return "driver-error " + err.Error()
	}
	return strings.TrimRight(resp, "\n")
}

func (d *Driver) Askf(format string, a ...interface{}) string {
	return d.Ask(fmt.Sprintf(format, a...))
}

func (d *Driver) Close() {
	d.in.Close()
	d.cmd.Wait()
}
