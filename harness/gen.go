package main

import (
	"encoding/json"
	"fmt"
	"hash/crc64"
	"math"
	"math/rand"
)

var crcTab = crc64.MakeTable(crc64.ECMA)

// refLayer is the harness's own (independent) statement of the default layers; it is used to
// steer generators and oracles, never taken from mast.
func refUintLayer(v uint64, bf uint64) int {
	l := 0
	for v != 0 && v%bf == 0 {
		v /= bf
		l++
	}
	return l
}

func (c Cfg) RefLayer(n uint64) int {
	switch c.KK {
	case "vk":
		return int(n & 0xff)
	case "u64", "uint":
		return refUintLayer(n, uint64(c.BF))
	case "sk":
		js, _ := json.Marshal(SK{strKey(n)})
		return refUintLayer(crc64.Checksum(js, crcTab), uint64(c.BF))
	case "skc":
		return refUintLayer(crc64.Checksum([]byte(`"c:`+strKey(n)+`"`), crcTab), uint64(c.BF))
	case "i64", "int":
		v := int64(n) - i64bias
		if v < 0 {
			v = -v
		}
		return refUintLayer(uint64(v), uint64(c.BF))
	case "i64w":
		v := int64(n ^ (1 << 63))
		if v < 0 {
			v = -v // (MinInt64 stays MinInt64: as uint64 that is its magnitude 2^63)
		}
		return refUintLayer(uint64(v), uint64(c.BF))
	case "str":
		return refUintLayer(crc64.Checksum([]byte(strKey(n)), crcTab), uint64(c.BF))
	case "strx":
		return refUintLayer(crc64.Checksum([]byte(strKey(n)+escFrag(n)), crcTab), uint64(c.BF))
	case "bytes":
		return refUintLayer(crc64.Checksum([]byte{byte(n >> 16), byte(n >> 8), byte(n)}, crcTab), uint64(c.BF))
	}
	panic("kind")
}

var allBF = []uint{2, 3, 4, 16}
var allKK = []string{"vk", "u64", "i64", "str", "bytes", "int", "uint", "sk", "skc", "strx", "i64w"}
var allVK = []string{"u64", "bytes", "str", "ptr", "iface", "long", "nb", "esc", "np", "agg"}
var allCache = []string{"none", "big", "tiny", "one"}

func pick[T any](r *rand.Rand, xs []T) T { return xs[r.Intn(len(xs))] }

func RandCfg(r *rand.Rand) Cfg {
	c := Cfg{BF: pick(r, allBF), Fmt: pick(r, []string{"bin", "json"}), KK: pick(r, allKK), VKind: pick(r, allVK), Cache: pick(r, allCache)}
	// vk is the workhorse: it controls layers exactly
	if r.Intn(2) == 0 {
		c.KK = "vk"
	}
	if c.KK == "skc" {
		c.Fmt = "bin" // the custom marshaler is driven per key: compact binary format only
	}
	if c.VKind == "long" && r.Intn(3) != 0 {
		c.VKind = "u64" // the long values (up to 16 KiB each) are costly: one configuration in eighteen
	}
	if r.Intn(12) == 0 {
		c.KK, c.VKind, c.Fmt, c.Reg = "str", "str", "json", true
	}
	c.WideCmp = r.Intn(3) == 0
	if r.Intn(12) == 0 {
		c.BF = pick(r, []uint{5, 7, 32, 64, 256, 300}) // branch factors off the beaten track
	}
	return c
}

// Universe builds a key universe of size n whose layers under cfg are spread over several levels.
func Universe(r *rand.Rand, c Cfg, n int) []uint64 {
	seen := map[uint64]bool{}
	var out []uint64
	add := func(k uint64) {
		if !seen[k] {
			seen[k] = true
			out = append(out, k)
		}
	}
	bf := uint64(c.BF)
	// unsigned kinds: in one universe out of three, half of the keys lie at or above 2^63
	wide := (c.KK == "u64" || c.KK == "uint") && r.Intn(3) == 0
	// vk: one universe in five has layers 0 and 3..5 only: between the leaves and the high keys lie
	// chains of entry-less pass-through nodes, which deletes of the high keys have to merge
	gappy := c.KK == "vk" && r.Intn(5) == 0
	for len(out) < n {
		switch c.KK {
		case "vk":
			id := uint64(r.Intn(4*n) + 1)
			// geometric layers, sometimes adversarially tall
			l := 0
			p := int(bf)
			if r.Intn(4) == 0 {
				p = 2
			}
			for l < 6 && r.Intn(p) == 0 {
				l++
			}
			if gappy {
				l = pick(r, []int{0, 0, 0, 0, 3, 3, 4, 5})
			}
			dup := false
			for _, k := range out {
				if k>>8 == id {
					dup = true
				}
			}
			if !dup {
				add(id<<8 | uint64(l))
			}
		case "u64", "uint":
			l := 0
			for l < 5 && r.Intn(int(bf)) == 0 {
				l++
			}
			v := uint64(r.Intn(8*n) + 1)
			for i := 0; i < l; i++ {
				v *= bf
			}
			if r.Intn(50) == 0 {
				v = 0
			}
			if wide && r.Intn(2) == 0 {
				v += 1 << 63
				if r.Intn(8) == 0 {
					v = ^uint64(0) - uint64(r.Intn(4)) // the very top of the range
				}
			}
			add(v)
		case "i64", "int":
			l := 0
			for l < 4 && r.Intn(int(bf)) == 0 {
				l++
			}
			v := int64(r.Intn(8*n) + 1)
			for i := 0; i < l; i++ {
				v *= int64(bf)
			}
			if v >= i64bias {
				v = int64(r.Intn(1000))
			}
			if r.Intn(2) == 0 {
				v = -v
			}
			add(uint64(v + i64bias))
		case "i64w":
			// small magnitudes of both signs (with the layer scheme of the other integer kinds), and
			// the two ends of the int64 range: keys more than 2^63 apart
			l := 0
			for l < 4 && r.Intn(int(bf)) == 0 {
				l++
			}
			v := int64(r.Intn(8*n) + 1)
			for i := 0; i < l; i++ {
				v *= int64(bf)
			}
			if r.Intn(2) == 0 {
				v = -v
			}
			switch r.Intn(6) {
			case 0:
				v = math.MinInt64 + int64(r.Intn(4*n))
			case 1:
				v = math.MaxInt64 - int64(r.Intn(4*n))
			case 2:
				if v > 0 {
					v += 6000000000000000000
				} else {
					v -= 6000000000000000000
				}
			}
			add(uint64(v) ^ (1 << 63))
		case "str", "sk", "skc", "strx":
			add(uint64(r.Intn(26 * 26 * 26 * 26 * 26)))
		case "bytes":
			add(uint64(r.Intn(1 << 24)))
		}
	}
	return out
}

func opIns(slot int, k, v uint64) string { return fmt.Sprintf("ins %d %d %d", slot, k, v) }
func opDel(slot int, k, v uint64) string { return fmt.Sprintf("del %d %d %d", slot, k, v) }

func crcChecksum(b []byte) uint64 { return crc64.Checksum(b, crcTab) }
