package main

import (
	"context"
	"encoding/hex"
	"encoding/json"
	"errors"
	"fmt"
	"sort"
	"strconv"
	"strings"

	"github.com/jrhy/mast"
)

// Session runs protocol lines against the real implementation and keeps, per tree slot,
// a plain sorted-map oracle (map + sort) with which the properties' own statements are
// evaluated directly on the implementation.
type Session struct {
	Cfg             Cfg
	Store           *RecStore
	Cache           mast.NodeCache
	sharedCfg       *mast.RemoteConfig // see fam_conc.go
	Trees           map[int]*mast.Mast
	Roots           map[int]*mast.Root
	Oracle          map[int]map[uint64]uint64
	ROracle         map[int]map[uint64]uint64 // contents at MakeRoot time, per root slot
	Cursors         map[int]*mast.Cursor
	canonSeen       map[string]string
	curs            map[int]*curState
	lastHeight      int
	bases           map[int]*baseInfo
	written         map[string]string
	lastMaxInflight int
	lastFlushTrace  string
	graph           *graphTracker
	sharedStore     bool // the store is used by other goroutines: its traffic is not this session's
	keyCompare      func(a, b interface{}) (int, error)
	marshal         func(interface{}) ([]byte, error)
	unmarshal       func([]byte, interface{}) error
	lastActs        int
	lastHsync       string
	inMemTree       map[int]bool
	lastDLS         string
	transientFault  bool // a store load failed once during the running operation
	faultReadsViol  string
	byContent       map[string]string // decoded node -> bytes it was written as
	lastCwalk       string
	isoCount        int
	isoStores       []*RecStore // the stores of isoload'ed trees (their loads count as loads of the diff)
	ctx             context.Context
}

func NewSession(cfg Cfg) *Session {
	s := &Session{Cfg: cfg, Store: NewRecStore("rec0"), Trees: map[int]*mast.Mast{}, Roots: map[int]*mast.Root{},
		Oracle: map[int]map[uint64]uint64{}, ROracle: map[int]map[uint64]uint64{}, Cursors: map[int]*mast.Cursor{}, canonSeen: map[string]string{}, curs: map[int]*curState{}, bases: map[int]*baseInfo{}, written: map[string]string{}, byContent: map[string]string{}, inMemTree: map[int]bool{},
		ctx: context.Background()}
	switch cfg.Cache {
	case "big":
		s.Cache = mast.NewNodeCache(100000)
	case "tiny":
		s.Cache = mast.NewNodeCache(2)
	case "one":
		s.Cache = mast.NewNodeCache(1)
	case "recbig":
		s.Cache = &recCache{inner: mast.NewNodeCache(100000), seen: map[string]interface{}{}}
	case "rectiny":
		s.Cache = &recCache{inner: mast.NewNodeCache(2), seen: map[string]interface{}{}}
	}
	s.graph = newGraphTracker()
	if cfg.KK == "skc" {
		s.marshal, s.unmarshal = customMarshal, customUnmarshal
	}
	return s
}

// wideCompare: the default order of the configuration, with results -5 / 0 / 5.
func (s *Session) wideCompare() func(a, b interface{}) (int, error) {
	m := s.marshal
	if m == nil {
		m = json.Marshal
	}
	def := mast.DefaultKeyCompare(m)
	return func(a, b interface{}) (int, error) {
		c, err := def(a, b)
		return 5 * c, err
	}
}

func (s *Session) remoteConfig() *mast.RemoteConfig {
	if s.keyCompare == nil && s.Cfg.WideCmp {
		s.keyCompare = s.wideCompare()
	}
	if s.Cfg.NoVL && s.Cfg.Fmt == "bin" {
		return &mast.RemoteConfig{
			KeysLike:                s.Cfg.KeysLike(),
			StoreImmutablePartsWith: s.Store,
			NodeCache:               s.Cache,
			KeyCompare:              s.keyCompare,
			Marshal:                 s.marshal,
			Unmarshal:               s.unmarshal,

			UnmarshalerUsesRegisteredTypes: true,
		}
	}
	return &mast.RemoteConfig{
		KeysLike:                s.Cfg.KeysLike(),
		ValuesLike:              s.Cfg.ValuesLike(),
		StoreImmutablePartsWith: s.Store,
		NodeCache:               s.Cache,
		KeyCompare:              s.keyCompare,
		Marshal:                 s.marshal,
		Unmarshal:               s.unmarshal,

		UnmarshalerUsesRegisteredTypes: s.Cfg.RegMode(),
	}
}

func errClass(err error) string {
	msg := err.Error()
	switch {
	case strings.Contains(msg, "not present in tree"):
		return "err notpresent"
	case strings.Contains(msg, "value not present for given key"):
		return "err valuemismatch"
	}
	return "err other:" + strings.ReplaceAll(msg, "\n", " ")
}

func copyMap(m map[uint64]uint64) map[uint64]uint64 {
	c := make(map[uint64]uint64, len(m))
	for k, v := range m {
		c[k] = v
	}
	return c
}

func sortedList(m map[uint64]uint64) string {
	keys := make([]uint64, 0, len(m))
	for k := range m {
		keys = append(keys, k)
	}
	sort.Slice(keys, func(i, j int) bool { return keys[i] < keys[j] })
	var sb strings.Builder
	sb.WriteByte('[')
	for i, k := range keys {
		if i > 0 {
			sb.WriteByte(',')
		}
		fmt.Fprintf(&sb, "%d=%d", k, m[k])
	}
	sb.WriteByte(']')
	return sb.String()
}

func (s *Session) iterList(m *mast.Mast) (string, error) {
	var sb strings.Builder
	sb.WriteByte('[')
	first := true
	err := m.Iter(s.ctx, func(k, v interface{}) error {
		if !first {
			sb.WriteByte(',')
		}
		first = false
		fmt.Fprintf(&sb, "%d=%d", s.Cfg.KeyNat(k), s.Cfg.ValNat(v))
		return nil
	})
	sb.WriteByte(']')
	return sb.String(), err
}

func storesString(calls []StoreCall) string {
	items := make([]string, len(calls))
	for i, c := range calls {
		items[i] = c.Name + ":" + hex.EncodeToString(c.Bytes)
	}
	sort.Strings(items)
	return strings.Join(items, " ")
}

// Exec runs one protocol line on the implementation. It returns the canonical
// observation and, when the property's own oracle is contradicted, a description
// of the violation ("" otherwise).
func (s *Session) Exec(line string) (obs string, viol string) {
	defer func() {
		if p := recover(); p != nil {
			obs = "panic " + strings.ReplaceAll(fmt.Sprint(p), "\n", " ")
			viol = "panic on valid arguments: " + obs
		}
	}()
	t := strings.Fields(line)
	if len(t) == 0 {
		return "bad-op", ""
	}
	num := func(i int) uint64 {
		n, err := strconv.ParseUint(t[i], 10, 64)
		if err != nil {
			panic("harness: bad number in " + line)
		}
		return n
	}
	tree := func(i int) *mast.Mast { return s.Trees[int(num(i))] }
	if t[0] == "cl" && len(t) >= 3 {
		// a cursor move together with the names it reads from the store
		s.Store.TakeLoads()
		o, v := s.Exec(strings.Join(t[1:], " "))
		names := s.Store.TakeLoads()
		sort.Strings(names)
		if v == "" && s.Cache == nil {
			if c := s.curs[int(num(2))]; c != nil && len(names) > c.height+1 {
				v = fmt.Sprintf("%s read %d nodes of a tree of height %d", t[1], len(names), c.height)
			}
		}
		return o + " ;" + strings.Join(names, " "), v
	}
	if o, v, ok := s.Exec2(t, num); ok {
		if t[0] == "cwalk" {
			s.lastCwalk = o
		}
		return o, v
	}
	switch t[0] {
	case "getl", "insl", "dell", "loadl", "clonel":
		base := map[string]string{"getl": "get", "insl": "ins", "dell": "del", "loadl": "load", "clonel": "clone"}[t[0]]
		s.lastHeight = -1
		if m := tree(1); m != nil {
			s.lastHeight = int(m.Height())
		}
		s.Store.TakeLoads()
		o, v := s.Exec(base + " " + strings.Join(t[1:], " "))
		loads := s.Store.TakeLoads()
		sort.Strings(loads)
		if o == "bad-slot" || o == "bad-op" {
			return o, v
		}
		if s.transientFault && strings.HasPrefix(o, "err") {
			// the call failed because one read failed: the bound on reads holds for it all the same
			v = ""
			if (t[0] == "loadl" || t[0] == "clonel") && len(loads) > 1 {
				v = fmt.Sprintf("%s made %d reads, one of which failed", base, len(loads))
			}
			if t[0] == "getl" && s.lastHeight >= 0 && len(loads) > s.lastHeight+1 {
				v = fmt.Sprintf("lookup made %d reads (one of which failed) on a tree of height %d", len(loads), s.lastHeight)
			}
			s.faultReadsViol = v
			return o, v
		}
		if v == "" && (t[0] == "loadl" || t[0] == "clonel") && len(loads) > 1 {
			v = fmt.Sprintf("%s read %d nodes", base, len(loads))
		}
		if v == "" && len(t) >= 2 && t[0] != "loadl" && t[0] != "clonel" {
			if m := tree(1); m != nil {
				v = s.checkReads(t[0], o, len(loads), int(m.Height()))
			}
		}
		return o + " ;" + strings.Join(loads, " "), v
	case "hsync":
		// the actions since the last sync, attributed to the tree that was operated on
		s.lastHsync = s.hsync(int(num(1)))
		return "ok", ""
	case "vcheck":
		return "ok", s.vcheck()
	case "coldcache":
		// from now on trees are opened through a NEW node cache of the same kind (another process, a
		// restarted one): what they load first comes decoded from the store, not from a writer's commit
		switch s.Cfg.Cache {
		case "big":
			s.Cache = mast.NewNodeCache(100000)
		case "tiny":
			s.Cache = mast.NewNodeCache(2)
		case "one":
			s.Cache = mast.NewNodeCache(1)
		case "recbig":
			// (the nodes the earlier cache holds stay part of the dumped object graph)
			s.Cache = &recCache{inner: mast.NewNodeCache(100000), seen: map[string]interface{}{}, prev: s.Cache.(*recCache)}
		}
		return "ok", ""
	case "difflinks":
		return s.execDiffLinks(int(num(1)), int(num(2)))
	case "difflinksstop", "difflinkserr":
		o, v := s.execDiffLinksStop(int(num(1)), int(num(2)), int(num(3)), t[0] == "difflinkserr")
		s.lastDLS = o
		return o, v
	case "flush":
		cancelAt := -1
		if len(t) > 5 && strings.HasPrefix(t[5], "c") {
			cancelAt, _ = strconv.Atoi(t[5][1:])
		}
		o, v := s.execFlush(int(num(1)), int(num(2)), int64(num(3)), parseFails(t[4]), cancelAt)
		if s.lastMaxInflight > lastSessionMaxInflight {
			lastSessionMaxInflight = s.lastMaxInflight
		}
		return o, v
	case "twostore":
		return s.execTwoStore(int(num(1)))
	case "new":
		r := mast.NewRoot(createOpts(s.Cfg))
		m, err := r.LoadMast(s.ctx, s.remoteConfig())
		if err != nil {
			return errClass(err), "new tree failed: " + err.Error()
		}
		s.Trees[int(num(1))] = m
		s.Oracle[int(num(1))] = map[uint64]uint64{}
		s.setBase(int(num(1)), r)
		return "ok", ""
	case "ins":
		m := tree(1)
		if m == nil {
			return "bad-slot", ""
		}
		k, v := num(2), num(3)
		err := m.Insert(s.ctx, s.Cfg.Key(k), s.Cfg.Val(v))
		if err != nil {
			return errClass(err), "insert with valid arguments failed: " + err.Error()
		}
		o := s.Oracle[int(num(1))]
		if ov, ok := o[k]; !ok || ov != v {
			s.noteModified(int(num(1)), k)
		}
		o[k] = v
		obs = fmt.Sprintf("ok %d %d", m.Size(), m.Height())
		if m.Size() != uint64(len(o)) {
			viol = fmt.Sprintf("size %d after insert, %d live entries", m.Size(), len(o))
		}
		return obs, viol
	case "del":
		m := tree(1)
		if m == nil {
			return "bad-slot", ""
		}
		k, v := num(2), num(3)
		o := s.Oracle[int(num(1))]
		ov, present := o[k]
		err := m.Delete(s.ctx, s.Cfg.Key(k), s.Cfg.Val(v))
		if err != nil {
			obs = errClass(err)
			if present && ov == v {
				viol = "delete of a present entry failed: " + err.Error()
			}
			return obs, viol
		}
		if !present || ov != v {
			viol = "delete of an absent key / non-matching value succeeded"
		}
		delete(o, k)
		s.noteModified(int(num(1)), k)
		obs = fmt.Sprintf("ok %d %d", m.Size(), m.Height())
		if viol == "" && m.Size() != uint64(len(o)) {
			viol = fmt.Sprintf("size %d after delete, %d live entries", m.Size(), len(o))
		}
		return obs, viol
	case "get":
		m := tree(1)
		if m == nil {
			return "bad-slot", ""
		}
		k := num(2)
		var found bool
		var err error
		var got uint64
		switch s.Cfg.VKind {
		case "u64":
			var v uint64
			found, err = m.Get(s.ctx, s.Cfg.Key(k), &v)
			got = v
		case "bytes", "nb":
			var v []byte
			found, err = m.Get(s.ctx, s.Cfg.Key(k), &v)
			if found && err == nil {
				got = s.Cfg.ValNat(v)
			}
		case "str":
			var v string
			found, err = m.Get(s.ctx, s.Cfg.Key(k), &v)
			if found && err == nil {
				got = s.Cfg.ValNat(v)
			}
		case "ptr", "np":
			var v *uint64
			found, err = m.Get(s.ctx, s.Cfg.Key(k), &v)
			if found && err == nil {
				got = s.Cfg.ValNat(v)
			}
		case "long":
			var v LV
			found, err = m.Get(s.ctx, s.Cfg.Key(k), &v)
			if found && err == nil {
				got = s.Cfg.ValNat(v)
			}
		case "esc":
			var v EV
			found, err = m.Get(s.ctx, s.Cfg.Key(k), &v)
			if found && err == nil {
				got = s.Cfg.ValNat(v)
			}
		case "iface":
			var v IV
			found, err = m.Get(s.ctx, s.Cfg.Key(k), &v)
			if found && err == nil {
				got = s.Cfg.ValNat(v)
			}
		case "agg":
			var v AV
			found, err = m.Get(s.ctx, s.Cfg.Key(k), &v)
			if found && err == nil {
				got = s.Cfg.ValNat(v)
			}
		default:
			panic("get: value kind " + s.Cfg.VKind)
		}
		if err != nil {
			return errClass(err), "lookup failed on a healthy store: " + err.Error()
		}
		ov, present := s.Oracle[int(num(1))][k]
		if !found {
			if present {
				viol = fmt.Sprintf("lookup of present key %d reports not found", k)
			}
			return "none", viol
		}
		if !present || ov != got {
			viol = fmt.Sprintf("lookup of key %d returned %d, last written: present=%v value=%d", k, got, present, ov)
		}
		return fmt.Sprintf("some %d", got), viol
	case "iter":
		m := tree(1)
		if m == nil {
			return "bad-slot", ""
		}
		l, err := s.iterList(m)
		if err != nil {
			return errClass(err), "iteration failed on a healthy store: " + err.Error()
		}
		if want := sortedList(s.Oracle[int(num(1))]); want != l {
			viol = "iteration yields " + l + ", live entries are " + want
		}
		return l, viol
	case "iterstop":
		// iterstop <slot> <j>: the callback fails after it has seen j+1 entries; Iter must hand
		// that error back and must have delivered exactly the first entries, in order
		m := tree(1)
		if m == nil {
			return "bad-slot", ""
		}
		j := int(num(2))
		var got []string
		err := m.Iter(s.ctx, func(k, v interface{}) error {
			got = append(got, fmt.Sprintf("%d=%d", s.Cfg.KeyNat(k), s.Cfg.ValNat(v)))
			if len(got) > j {
				return errStop
			}
			return nil
		})
		o := s.Oracle[int(num(1))]
		var want []string
		for _, k := range sortedKeys64(o) {
			if len(want) > j {
				break
			}
			want = append(want, fmt.Sprintf("%d=%d", k, o[k]))
		}
		res := "ok"
		if len(o) > j {
			res = "cberr"
			if err == nil || !errors.Is(err, errStop) {
				viol = fmt.Sprintf("the callback's error was not returned by Iter (got %v)", err)
			}
		} else if err != nil {
			viol = "iteration failed on a healthy store: " + err.Error()
		}
		if viol == "" && strings.Join(got, ",") != strings.Join(want, ",") {
			viol = fmt.Sprintf("a callback failing after %d entries saw [%s], the first entries are [%s]", j+1, strings.Join(got, ","), strings.Join(want, ","))
		}
		return res + " [" + strings.Join(got, ",") + "]", viol
	case "iterdone":
		// iterdone <slot> <j>: the callback returns ErrIterDone once it has seen j entries; Iter
		// must stop without error, having delivered exactly those, and never call it again
		m := tree(1)
		if m == nil {
			return "bad-slot", ""
		}
		j := int(num(2))
		var got []string
		done, after := false, 0
		err := m.Iter(s.ctx, func(k, v interface{}) error {
			if done {
				after++
				return mast.ErrIterDone
			}
			if len(got) >= j {
				done = true
				return mast.ErrIterDone
			}
			got = append(got, fmt.Sprintf("%d=%d", s.Cfg.KeyNat(k), s.Cfg.ValNat(v)))
			return nil
		})
		if err != nil {
			return errClass(err), "Iter stopped by its callback returned an error: " + err.Error()
		}
		o := s.Oracle[int(num(1))]
		var want []string
		for _, k := range sortedKeys64(o) {
			if len(want) >= j {
				break
			}
			want = append(want, fmt.Sprintf("%d=%d", k, o[k]))
		}
		if after > 0 {
			viol = fmt.Sprintf("Iter called the callback %d more time(s) after it had signalled done", after)
		} else if strings.Join(got, ",") != strings.Join(want, ",") {
			viol = fmt.Sprintf("a callback signalling done after %d entries saw [%s], the first entries are [%s]", j, strings.Join(got, ","), strings.Join(want, ","))
		}
		return "[" + strings.Join(got, ",") + "]", viol
	case "getnil":
		// Get with a nil value pointer only reports presence
		m := tree(1)
		if m == nil {
			return "bad-slot", ""
		}
		k := num(2)
		found, err := m.Get(s.ctx, s.Cfg.Key(k), nil)
		if err != nil {
			return errClass(err), "lookup failed on a healthy store: " + err.Error()
		}
		_, want := s.Oracle[int(num(1))][k]
		if found != want {
			viol = fmt.Sprintf("Get(%d, nil) reports %v, the key is present: %v", k, found, want)
		}
		return fmt.Sprint(found), viol
	case "newmem":
		// NewInMemory(): branch factor 16, no store (the configuration's key kind must be one the
		// default comparison and layer know)
		m := mast.NewInMemory()
		s.inMemTree[int(num(1))] = true
		s.Trees[int(num(1))] = &m
		s.Oracle[int(num(1))] = map[uint64]uint64{}
		delete(s.bases, int(num(1)))
		return "ok", ""
	case "thresholds":
		m := tree(1)
		if m == nil {
			return "bad-slot", ""
		}
		// internal state, compared with the model only (a disagreement breaks the correspondence
		// and starts the search for two histories with different roots; it is not itself a
		// violation of C04)
		ga, sb := mast.VerifThresholds(m)
		return fmt.Sprintf("%d %d", ga, sb), ""
	case "stat":
		m := tree(1)
		if m == nil {
			return "bad-slot", ""
		}
		return fmt.Sprintf("%d %d %v", m.Size(), m.Height(), m.IsDirty()), s.checkClean(int(num(1)), m.IsDirty())
	case "clone":
		m := tree(1)
		if m == nil {
			return "bad-slot", ""
		}
		c, err := m.Clone(s.ctx)
		if err != nil {
			return errClass(err), "clone failed: " + err.Error()
		}
		s.Trees[int(num(2))] = &c
		s.Oracle[int(num(2))] = copyMap(s.Oracle[int(num(1))])
		if b := s.bases[int(num(1))]; b != nil {
			cb := *b
			cb.modified = map[uint64]bool{}
			for k := range b.modified {
				cb.modified[k] = true
			}
			cb.byPointer = true
			s.bases[int(num(2))] = &cb
		} else {
			delete(s.bases, int(num(2)))
		}
		return "ok", ""
	case "root", "roots":
		m := tree(1)
		if m == nil {
			return "bad-slot", ""
		}
		s.Store.TakeStores()
		r, err := m.MakeRoot(s.ctx)
		if err != nil {
			return errClass(err), "MakeRoot failed on a healthy store: " + err.Error()
		}
		// the root record travels through JSON, as an application would keep it
		// C05: the root records the tree's own node format and branch factor
		if r.NodeFormat != s.Cfg.NodeFormat() {
			viol = fmt.Sprintf("MakeRoot of a %q tree returned a root that says node format %q", s.Cfg.NodeFormat(), r.NodeFormat)
		}
		if r.BranchFactor != s.Cfg.BF && s.Trees[int(num(1))] != nil && !s.inMemTree[int(num(1))] {
			viol = fmt.Sprintf("MakeRoot of a tree with branch factor %d returned a root that says %d", s.Cfg.BF, r.BranchFactor)
		}
		js, err := json.Marshal(r)
		if err != nil {
			return "err rootjson", "root does not marshal: " + err.Error()
		}
		var r2 mast.Root
		if err := json.Unmarshal(js, &r2); err != nil {
			return "err rootjson", "root does not unmarshal: " + err.Error()
		}
		s.Roots[int(num(2))] = &r2
		s.ROracle[int(num(2))] = copyMap(s.Oracle[int(num(1))])
		link := "-"
		if r.Link != nil {
			link = *r.Link
		}
		calls := s.Store.TakeStores()
		if s.sharedStore {
			calls = nil
		}
		for _, c := range calls {
			if v := checkName(c); v != "" {
				viol = v
			}
			if prev, ok := s.written[c.Name]; ok && prev != string(c.Bytes) {
				viol = "name " + c.Name + " written with two different byte strings"
			}
			s.written[c.Name] = string(c.Bytes)
			// C08: the bytes are a function of the node's entries and child names alone
			if dn, derr := s.Cfg.DecodeNode(c.Bytes); derr == nil {
				key := fmt.Sprintf("%v|%v|%q", dn.Keys, dn.Vals, dn.Links)
				if prev, ok := s.byContent[key]; ok && prev != string(c.Bytes) && viol == "" {
					viol = fmt.Sprintf("a node with keys %v, values %v and child names %q was written once as %x and once as %x", dn.Keys, dn.Vals, dn.Links, prev, c.Bytes)
				}
				s.byContent[key] = string(c.Bytes)
			}
		}
		if viol == "" && s.Cfg.Cache == "none" && !s.sharedStore {
			viol = s.checkIncremental(int(num(1)), r, calls)
		}
		s.setBase(int(num(1)), r)
		if t[0] == "root" {
			return fmt.Sprintf("%s %d %d %d", link, r.Size, r.Height, r.BranchFactor), viol
		}
		return fmt.Sprintf("%s %d %d %d ;%s", link, r.Size, r.Height, r.BranchFactor, storesString(calls)), viol
	case "canonroot":
		m := tree(1)
		if m == nil {
			return "bad-slot", ""
		}
		r, err := m.MakeRoot(s.ctx)
		if err != nil {
			return errClass(err), "MakeRoot failed on a healthy store: " + err.Error()
		}
		link := "-"
		if r.Link != nil {
			link = *r.Link
		}
		obs = fmt.Sprintf("%s %d %d %d", link, r.Size, r.Height, r.BranchFactor)
		key := sortedList(s.Oracle[int(num(1))])
		if prev, ok := s.canonSeen[key]; ok && prev != obs {
			viol = "equal contents persisted to different roots: " + prev + " vs " + obs
		}
		s.canonSeen[key] = obs
		return obs, viol
	case "pshape":
		r := s.Roots[int(num(1))]
		if r == nil {
			return "bad-slot", ""
		}
		link := ""
		if r.Link != nil {
			link = *r.Link
		}
		sh, n, v := s.PersistedShape(link, int(r.Height))
		if v == "" && uint64(n) != r.Size {
			v = fmt.Sprintf("root records size %d, %d entries reachable", r.Size, n)
		}
		return sh, v
	case "isoload":
		// isoload <rootslot> <slot>: the version is opened on a store of its own (another prefix) that
		// holds exactly the nodes this version reaches — a replica / a primary that never saw the
		// other versions.  Every tree reads through its own store; nothing may go through another's.
		r := s.Roots[int(num(1))]
		if r == nil {
			return "bad-slot", ""
		}
		s.isoCount++
		iso := NewRecStore(fmt.Sprintf("iso%d", s.isoCount))
		s.isoStores = append(s.isoStores, iso)
		if r.Link != nil {
			for name := range s.reachOf(*r.Link, nil) {
				iso.m[name] = s.Store.Get(name)
			}
		}
		lc := s.remoteConfig()
		lc.StoreImmutablePartsWith = iso
		m, err := r.LoadMast(s.ctx, lc)
		if err != nil {
			return errClass(err), "loading a root from a store that holds exactly its nodes failed: " + err.Error()
		}
		s.Trees[int(num(2))] = m
		s.Oracle[int(num(2))] = copyMap(s.ROracle[int(num(1))])
		s.setBase(int(num(2)), r)
		return "ok", ""
	case "load":
		r := s.Roots[int(num(1))]
		if r == nil {
			return "bad-slot", ""
		}
		// every loaded tree gets a handle of its own onto the session's store
		lc := s.remoteConfig()
		lc.StoreImmutablePartsWith = &storeHandle{s.Store}
		if s.sharedCfg != nil {
			// one *RemoteConfig shared by every goroutine of the case (the usual way to share a store
			// and a cache): LoadMast may only read it
			lc = s.sharedCfg
		}
		m, err := r.LoadMast(s.ctx, lc)
		if err != nil {
			return errClass(err), "loading a root returned by MakeRoot failed: " + err.Error()
		}
		s.Trees[int(num(2))] = m
		s.Oracle[int(num(2))] = copyMap(s.ROracle[int(num(1))])
		s.setBase(int(num(2)), r)
		return "ok", ""
	}
	return "bad-op", ""
}

func createOpts(c Cfg) *mast.CreateRemoteOptions {
	o := &mast.CreateRemoteOptions{BranchFactor: c.BF}
	if c.Fmt == "json" {
		o.NodeFormat = mast.V1Marshaler
	} else {
		o.NodeFormat = mast.V115Binary
	}
	return o
}

// checkName: C08's first clause evaluated on the implementation with the Go standard
// library's own BLAKE2b (golang.org/x/crypto is not available offline, so the harness uses the
// repository's dependency only through the Lean driver; here we check the name's shape).
func checkName(c StoreCall) string {
	if len(c.Name) != 43 {
		return "stored name " + c.Name + " is not 43 characters of unpadded base64url"
	}
	return ""
}

// ModelLine gives the line sent to the model for an implementation line: some model ops take
// their argument (the entry list) from the harness's oracle rather than from mast.
func (s *Session) ModelLine(line string) string {
	t := strings.Fields(line)
	if t[0] == "hsync" {
		return s.lastHsync
	}
	if t[0] == "cwalk" {
		return "echo " + s.lastCwalk
	}
	if t[0] == "difflinksstop" || t[0] == "difflinkserr" {
		return "echo " + s.lastDLS
	}
	if t[0] == "newmem" {
		return "new " + t[1]
	}
	if t[0] == "isoload" {
		return "load " + strings.Join(t[1:], " ")
	}
	if t[0] == "vcheck" || t[0] == "twostore" || t[0] == "coldcache" {
		return "echo ok"
	}
	if t[0] == "flush" {
		// the model replays the trace the implementation produced
		tr := s.lastFlushTrace
		if tr == "" {
			tr = "none"
		}
		exact := "1"
		if s.Cache != nil {
			exact = "0"
		}
		return fmt.Sprintf("flushtrace %s %s 40 %s %s", t[1], t[2], exact, tr)
	}
	if t[0] == "diffc" || t[0] == "diffcr" {
		return "diff " + strings.Join(t[1:], " ")
	}
	if len(t) >= 2 && (t[0] == "canonroot" || t[0] == "canonshape") {
		slot, _ := strconv.Atoi(t[1])
		l := sortedList(s.Oracle[slot])
		l = strings.ReplaceAll(strings.Trim(l, "[]"), ",", " ")
		return strings.TrimSpace(line + " " + l)
	}
	return line
}

// checkReads: C16's bounds evaluated on the implementation. hAfter is the height after the call;
// the insert/delete bound applies when the height did not change, which the caller tracks
// through lastHeight.
func (s *Session) checkReads(op, obs string, nloads, hAfter int) string {
	switch op {
	case "getl":
		if nloads > hAfter+1 {
			return fmt.Sprintf("lookup read %d nodes on a tree of height %d", nloads, hAfter)
		}
	case "insl", "dell":
		var sz, h int
		if n, _ := fmt.Sscanf(obs, "ok %d %d", &sz, &h); n == 2 {
			if s.lastHeight >= 0 && s.lastHeight == h && nloads > 2*(h+1) {
				return fmt.Sprintf("%s read %d nodes on a tree of unchanged height %d", op, nloads, h)
			}
		}
	}
	return ""
}
