package main

import (
	"encoding/json"
	"fmt"
	"go/ast"
	"go/parser"
	"go/printer"
	"go/token"
	"os"
	"path/filepath"
	"sort"
	"strings"
)

// Source facts: things no execution can show (constants, statement order, the inventory of
// statements that write through a *mastNode).  `vh -facts <group>` extracts them from /repo's
// current sources with go/ast and compares them with the committed expectations; a fact that
// changed means a premise of a model is no longer known to hold.

func repoDir() string {
	if d := os.Getenv("MAST_REPO"); d != "" {
		return d
	}
	return "/repo"
}

func parseFile(fset *token.FileSet, rel string) *ast.File {
	f, err := parser.ParseFile(fset, filepath.Join(repoDir(), rel), nil, parser.ParseComments)
	if err != nil {
		fmt.Println("parse:", err)
		os.Exit(1)
	}
	return f
}

func exprString(fset *token.FileSet, n ast.Node) string {
	var sb strings.Builder
	printer.Fprint(&sb, fset, n)
	return strings.Join(strings.Fields(sb.String()), " ")
}

func findFunc(f *ast.File, recv, name string) *ast.FuncDecl {
	for _, d := range f.Decls {
		fd, ok := d.(*ast.FuncDecl)
		if !ok || fd.Name.Name != name {
			continue
		}
		r := ""
		if fd.Recv != nil && len(fd.Recv.List) > 0 {
			r = exprStringNoSet(fd.Recv.List[0].Type)
		}
		if r == recv {
			return fd
		}
	}
	return nil
}

func exprStringNoSet(n ast.Node) string {
	return exprString(token.NewFileSet(), n)
}

// orderOf returns the positions (as indices in source order) of the first statement containing
// each of the given snippets inside fn.
func orderOf(fset *token.FileSet, fn *ast.FuncDecl, snippets []string) []int {
	pos := make([]int, len(snippets))
	for i := range pos {
		pos[i] = -1
	}
	ast.Inspect(fn.Body, func(n ast.Node) bool {
		st, ok := n.(ast.Stmt)
		if !ok {
			return true
		}
		switch st.(type) {
		case *ast.BlockStmt, *ast.IfStmt, *ast.ForStmt, *ast.RangeStmt, *ast.SwitchStmt, *ast.TypeSwitchStmt, *ast.GoStmt, *ast.DeferStmt:
			return true
		}
		s := exprString(fset, st)
		for i, sn := range snippets {
			if pos[i] < 0 && strings.Contains(s, sn) {
				pos[i] = int(st.Pos())
			}
		}
		return true
	})
	return pos
}

// nodeWrites lists every assignment whose left side goes through a field of a node object
// (Key / Value / Link / dirty / shared / source / expected), per function.
func nodeWrites(fset *token.FileSet, files []string) []string {
	var out []string
	fields := map[string]bool{"Key": true, "Value": true, "Link": true, "dirty": true, "shared": true, "source": true, "expected": true}
	for _, rel := range files {
		f := parseFile(fset, rel)
		for _, d := range f.Decls {
			fd, ok := d.(*ast.FuncDecl)
			if !ok || fd.Body == nil {
				continue
			}
			fname := fd.Name.Name
			if fd.Recv != nil && len(fd.Recv.List) > 0 {
				fname = exprString(fset, fd.Recv.List[0].Type) + "." + fname
			}
			ast.Inspect(fd.Body, func(n ast.Node) bool {
				as, ok := n.(*ast.AssignStmt)
				if !ok {
					return true
				}
				for _, lhs := range as.Lhs {
					e := lhs
					if ix, ok := e.(*ast.IndexExpr); ok {
						e = ix.X
					}
					sel, ok := e.(*ast.SelectorExpr)
					if !ok || !fields[sel.Sel.Name] {
						continue
					}
					out = append(out, fmt.Sprintf("%s:%s: %s", rel, fname, exprString(fset, lhs)))
				}
				return true
			})
		}
	}
	sort.Strings(out)
	return out
}

// stateEvents lists, in source order, the assignments to fields of the tree (`m.root`, `m.size`,
// `m.height`, the thresholds) and the calls whose error is checked, inside one method of *Mast.
func stateEvents(fset *token.FileSet, fn *ast.FuncDecl) []string {
	var out []string
	recv := "m"
	if fn.Recv != nil && len(fn.Recv.List) > 0 && len(fn.Recv.List[0].Names) > 0 {
		recv = fn.Recv.List[0].Names[0].Name
	}
	isState := func(e ast.Expr) (string, bool) {
		sel, ok := e.(*ast.SelectorExpr)
		if !ok {
			return "", false
		}
		id, ok := sel.X.(*ast.Ident)
		if !ok || id.Name != recv {
			return "", false
		}
		return "m." + sel.Sel.Name, true // the receiver's name is immaterial
	}
	// a callee is identified by its function / method name alone: renaming a local that holds the
	// receiver does not change which fallible step runs when
	callee := func(e ast.Expr) string {
		switch x := e.(type) {
		case *ast.SelectorExpr:
			return x.Sel.Name
		case *ast.Ident:
			return x.Name
		}
		return exprString(fset, e)
	}
	ast.Inspect(fn.Body, func(n ast.Node) bool {
		switch st := n.(type) {
		case *ast.IncDecStmt:
			if s, ok := isState(st.X); ok {
				out = append(out, "W "+s)
			}
		case *ast.AssignStmt:
			fallible := false
			for _, l := range st.Lhs {
				if id, ok := l.(*ast.Ident); ok && id.Name == "err" {
					fallible = true
				}
			}
			if fallible && len(st.Rhs) == 1 {
				if c, ok := st.Rhs[0].(*ast.CallExpr); ok {
					out = append(out, "F "+callee(c.Fun))
				}
			}
			for _, l := range st.Lhs {
				if s, ok := isState(l); ok {
					out = append(out, "W "+s)
				}
			}
		}
		return true
	})
	return out
}

// writesBeforeLastFallible: state writes that are followed by a fallible call other than the
// allowed ones (the height step, whose partial effect is the recorded C12 finding).
func writesBeforeFallible(events []string, allowed map[string]bool) []string {
	var bad []string
	for i, e := range events {
		if !strings.HasPrefix(e, "W ") {
			continue
		}
		for _, f := range events[i+1:] {
			if strings.HasPrefix(f, "F ") && !allowed[strings.TrimPrefix(f, "F ")] {
				bad = append(bad, e+" before "+f)
			}
		}
	}
	return bad
}

// nodeSliceShares lists every expression that can make a new slice share the backing array of a
// node's Key / Value / Link slice: `append(x.Field..., ...)` with a node slice as first argument,
// and re-slicings `x.Field[a:b]`, per function.  (Copy-on-write needs fresh slices; a new entry in
// this inventory is a place where two nodes may come to share memory.)
func nodeSliceShares(fset *token.FileSet, files []string) []string {
	var out []string
	fields := map[string]bool{"Key": true, "Value": true, "Link": true}
	isNodeSlice := func(e ast.Expr) bool {
		for {
			switch x := e.(type) {
			case *ast.SliceExpr:
				e = x.X
				continue
			case *ast.ParenExpr:
				e = x.X
				continue
			case *ast.SelectorExpr:
				return fields[x.Sel.Name]
			}
			return false
		}
	}
	for _, rel := range files {
		f := parseFile(fset, rel)
		for _, d := range f.Decls {
			fd, ok := d.(*ast.FuncDecl)
			if !ok || fd.Body == nil {
				continue
			}
			fname := fd.Name.Name
			if fd.Recv != nil && len(fd.Recv.List) > 0 {
				fname = exprString(fset, fd.Recv.List[0].Type) + "." + fname
			}
			ast.Inspect(fd.Body, func(n ast.Node) bool {
				switch x := n.(type) {
				case *ast.CallExpr:
					if id, ok := x.Fun.(*ast.Ident); ok && id.Name == "append" && len(x.Args) > 0 && isNodeSlice(x.Args[0]) {
						out = append(out, fmt.Sprintf("%s:%s: %s", rel, fname, exprString(fset, x)))
					}
				case *ast.SliceExpr:
					if isNodeSlice(x.X) {
						out = append(out, fmt.Sprintf("%s:%s: %s", rel, fname, exprString(fset, x)))
					}
				}
				return true
			})
		}
	}
	sort.Strings(out)
	return out
}

func collectFacts(group string) map[string]interface{} {
	fset := token.NewFileSet()
	facts := map[string]interface{}{}
	src := func(rel string) string {
		b, err := os.ReadFile(filepath.Join(repoDir(), rel))
		if err != nil {
			fmt.Println(err)
			os.Exit(1)
		}
		return strings.Join(strings.Fields(string(b)), " ")
	}
	switch group {
	case "defaults":
		facts["DefaultBranchFactor"] = strings.Contains(src("lib.go"), "const DefaultBranchFactor = 16")
		facts["V1Marshaler"] = strings.Contains(src("pub.go"), `V1Marshaler = nodeFormat("v1marshaler")`)
		facts["V115Binary"] = strings.Contains(src("pub.go"), `V115Binary = nodeFormat("v1.1.5binary")`)
		nr := findFunc(parseFile(fset, "pub.go"), "", "NewRoot")
		facts["NewRoot.default_format"] = nr != nil && strings.Contains(exprString(fset, nr.Body), "nf := V115Binary")
		facts["NewRoot.default_bf"] = nr != nil && strings.Contains(exprString(fset, nr.Body), "branchFactor := uint(DefaultBranchFactor)")
	case "hash":
		s := src("store.go")
		facts["blake2b.Sum256"] = strings.Contains(s, "blake2b.Sum256(encoded)")
		facts["base64.RawURLEncoding"] = strings.Contains(s, "base64.RawURLEncoding.EncodeToString(hashBytes[:])")
		facts["trim_links_when_all_nil"] = strings.Contains(s, "if linkCount == 0 { trimmed.Link = nil")
		facts["crc64.ECMA"] = strings.Contains(src("key.go"), "crc64.MakeTable(crc64.ECMA)")
		facts["uvarint"] = strings.Contains(src("codec.go"), "binary.PutUvarint") && strings.Contains(src("codec.go"), "binary.Uvarint(buf)")
	case "flush":
		fl := findFunc(parseFile(fset, "pub.go"), "*Mast", "flush")
		if fl == nil {
			facts["flush_found"] = false
			break
		}
		// (the pool bound and the hand-off are observed, not read off the source: the flush family
		// counts the Store calls in flight and replays every trace through the pool model)
		ord := orderOf(fset, fl, []string{"close(storeQ)", "wg.Wait()", "firstStoreError != nil", "commit()", "m.root = str"})
		ok := true
		for i := range ord {
			if ord[i] < 0 || (i > 0 && ord[i] <= ord[i-1]) {
				ok = false
			}
		}
		// "firstStoreError != nil" also occurs inside the worker; take the order of the remaining four
		ord4 := orderOf(fset, fl, []string{"close(storeQ)", "wg.Wait()", "return \"\", firstStoreError", "m.root = str"})
		ok4 := true
		for i := range ord4 {
			if ord4[i] < 0 || (i > 0 && ord4[i] <= ord4[i-1]) {
				ok4 = false
			}
		}
		_ = ok
		facts["order_close_wait_error_root"] = ok4
		cm := orderOf(fset, fl, []string{"return \"\", firstStoreError", "commit()"})
		facts["commits_after_error_check"] = cm[0] >= 0 && cm[1] > cm[0]
		st := findFunc(parseFile(fset, "store.go"), "*mastNode", "store")
		sb := exprString(fset, st.Body)
		facts["store_no_inplace_before_commit"] = !strings.Contains(strings.Split(sb, "*commits = append")[0], "node.Link[i] =") &&
			!strings.Contains(strings.Split(sb, "*commits = append")[0], "node.dirty = false")
	case "atomicity":
		pf := parseFile(fset, "pub.go")
		lf := parseFile(fset, "lib.go")
		ins, del := findFunc(pf, "*Mast", "Insert"), findFunc(pf, "*Mast", "Delete")
		gr, sh := findFunc(lf, "*Mast", "grow"), findFunc(lf, "*Mast", "shrink")
		if ins == nil || del == nil || gr == nil || sh == nil {
			facts["functions_found"] = false
			break
		}
		sp := findFunc(lf, "*Mast", "savePathForRoot")
		if sp == nil {
			sp = findFunc(pf, "*Mast", "savePathForRoot")
		}
		if sp != nil {
			facts["savePathForRoot.events"] = stateEvents(fset, sp)
		}
		// savePathForRoot installs the new root: count its call as a write of m.root
		withInstall := func(ev []string) []string {
			var out []string
			for _, e := range ev {
				out = append(out, e)
				if e == "F savePathForRoot" {
					out = append(out, "W m.root (installed by savePathForRoot)")
				}
			}
			return out
		}
		ie, de := withInstall(stateEvents(fset, ins)), withInstall(stateEvents(fset, del))
		facts["Insert.events"] = ie
		facts["Delete.events"] = de
		facts["grow.events"] = stateEvents(fset, gr)
		facts["shrink.events"] = stateEvents(fset, sh)
		// the tree's fields are assigned only after the last fallible call, apart from the height
		// step (canGrow / grow, shrink) that runs after the change is installed: known finding
		facts["Insert.state_writes_before_other_fallible_calls"] = writesBeforeFallible(ie, map[string]bool{"canGrow": true, "grow": true})
		facts["Delete.state_writes_before_other_fallible_calls"] = writesBeforeFallible(de, map[string]bool{"shrink": true})
	case "writes":
		facts["node_writes"] = nodeWrites(fset, []string{"lib.go", "pub.go", "store.go", "diff.go", "codec.go"})
		facts["node_slice_shares"] = nodeSliceShares(fset, []string{"lib.go", "pub.go", "store.go", "diff.go", "codec.go"})
	case "filestore":
		st := findFunc(parseFile(fset, "persist/file/lib.go"), "Persist", "Store")
		ord := orderOf(fset, st, []string{"os.Stat(path)", "os.CreateTemp(", "tmp.Write(bytes)", "tmp.Close()", "os.Rename(tmp.Name(), path)"})
		ok := true
		for i := range ord {
			if ord[i] < 0 || (i > 0 && ord[i] <= ord[i-1]) {
				ok = false
			}
		}
		facts["order_stat_temp_write_close_rename"] = ok
		facts["no_direct_write_to_final_name"] = !strings.Contains(exprString(fset, st.Body), "os.WriteFile(")
		facts["stat_error_returned"] = strings.Contains(exprString(fset, st.Body), "if !os.IsNotExist(err) { return err }") ||
			strings.Contains(exprString(fset, st.Body), "if !os.IsNotExist(err) { // either the complete file is there already, or Stat failed return err }")
		s3 := src("persist/s3/lib.go")
		facts["s3_key_prefix_plus_name"] = strings.Count(s3, "Key: aws.String(p.Prefix + name)") == 2
		facts["s3_bucket"] = strings.Count(s3, "Bucket: &p.BucketName") == 2
	default:
		fmt.Println("unknown fact group", group)
		os.Exit(2)
	}
	return facts
}

func runFacts(group string, update bool) int {
	dir := os.Getenv("VERIF_DIR")
	if dir == "" {
		dir = "/verif"
	}
	path := filepath.Join(dir, "harness", "expectations", group+".json")
	got := collectFacts(group)
	gb, _ := json.MarshalIndent(got, "", " ")
	if update {
		os.MkdirAll(filepath.Dir(path), 0755)
		os.WriteFile(path, append(gb, '\n'), 0644)
		fmt.Println("written", path)
		return 0
	}
	wb, err := os.ReadFile(path)
	if err != nil {
		fmt.Println("no expectations for", group, err)
		return 1
	}
	var want map[string]interface{}
	json.Unmarshal(wb, &want)
	var gotN map[string]interface{}
	json.Unmarshal(gb, &gotN)
	bad := 0
	keys := map[string]bool{}
	for k := range want {
		keys[k] = true
	}
	for k := range gotN {
		keys[k] = true
	}
	for k := range keys {
		a, _ := json.Marshal(want[k])
		b, _ := json.Marshal(gotN[k])
		if string(a) != string(b) {
			bad++
			fmt.Printf("FACT CHANGED %s.%s:\n  expected %s\n  found    %s\n", group, k, a, b)
		}
	}
	if bad == 0 {
		fmt.Printf("facts %s: %d facts match\n", group, len(keys))
		return 0
	}
	return 1
}
