package main

import (
	"encoding/json"
	"fmt"
	"go/ast"
	"go/parser"
	"go/printer"
	"go/token"
	"os"
	"path/filepath"
	"sort"
	"strings"
)

// Source facts: things no execution can show (constants, statement order, the inventory of
// statements that write through a *mastNode).  `vh -facts <group>` extracts them from /repo's
// current sources with go/ast and compares them with the committed expectations; a fact that
// changed means a premise of a model is no longer known to hold.

func repoDir() string {
	if d := os.Getenv("MAST_REPO"); d != "" {
		return d
	}
	return "/repo"
}

func parseFile(fset *token.FileSet, rel string) *ast.File {
	f, err := parser.ParseFile(fset, filepath.Join(repoDir(), rel), nil, parser.ParseComments)
	if err != nil {
		fmt.Println("parse:", err)
		os.Exit(1)
	}
	return f
}

func exprString(fset *token.FileSet, n ast.Node) string {
	var sb strings.Builder
	printer.Fprint(&sb, fset, n)
	return strings.Join(strings.Fields(sb.String()), " ")
}

func findFunc(f *ast.File, recv, name string) *ast.FuncDecl {
	for _, d := range f.Decls {
		fd, ok := d.(*ast.FuncDecl)
		if !ok || fd.Name.Name != name {
			continue
		}
		r := ""
		if fd.Recv != nil && len(fd.Recv.List) > 0 {
			r = exprStringNoSet(fd.Recv.List[0].Type)
		}
		if r == recv {
			return fd
		}
	}
	return nil
}

func exprStringNoSet(n ast.Node) string {
	return exprString(token.NewFileSet(), n)
}

// orderOf returns the positions (as indices in source order) of the first statement containing
// each of the given snippets inside fn.
func orderOf(fset *token.FileSet, fn *ast.FuncDecl, snippets []string) []int {
	pos := make([]int, len(snippets))
	for i := range pos {
		pos[i] = -1
	}
	ast.Inspect(fn.Body, func(n ast.Node) bool {
		st, ok := n.(ast.Stmt)
		if !ok {
			return true
		}
		switch st.(type) {
		case *ast.BlockStmt, *ast.IfStmt, *ast.ForStmt, *ast.RangeStmt, *ast.SwitchStmt, *ast.TypeSwitchStmt, *ast.GoStmt, *ast.DeferStmt:
			return true
		}
		s := exprString(fset, st)
		for i, sn := range snippets {
			if pos[i] < 0 && strings.Contains(s, sn) {
				pos[i] = int(st.Pos())
			}
		}
		return true
	})
	return pos
}

// ---- provenance of node variables ------------------------------------------------------------
//
// The inventories below are keyed by WHAT is written, not by how the source spells it: a write or
// an append goes through a variable that, at that point of the function, either holds a node the
// function has just made (a composite literal, emptyNode / emptyNodePointer, xcopy, ToMut,
// extract: "fresh") or anything else (a parameter, a loaded or cached node, a path entry:
// "other").  Renaming locals, reordering independent statements or extracting expressions does
// not change an entry; a new place where a node that was not made here is written, or where a
// slice of such a node is appended onto or kept, does.

var freshCalls = map[string]bool{"emptyNodePointer": true, "emptyNode": true, "xcopy": true, "ToMut": true, "extract": true, "new": true}

// derivedMakers: functions of the package that only ever return a node they have just made (every
// return statement's first result is a fresh expression, or a local that holds one there): a
// helper extracted around a composite literal, `emptyNode`, `xcopy` … is as good as the literal.
// Computed as a fixpoint over the analysed files and merged into freshCalls for the run.
func derivedMakers(fset *token.FileSet, files []string) {
	var fds []*ast.FuncDecl
	for _, rel := range files {
		f := parseFile(fset, rel)
		for _, d := range f.Decls {
			if fd, ok := d.(*ast.FuncDecl); ok && fd.Body != nil && fd.Type.Results != nil && len(fd.Type.Results.List) > 0 {
				fds = append(fds, fd)
			}
		}
	}
	for changed := true; changed; {
		changed = false
		for _, fd := range fds {
			if freshCalls[fd.Name.Name] {
				continue
			}
			asg := assignmentsOf(fd)
			rets, ok := 0, true
			ast.Inspect(fd.Body, func(n ast.Node) bool {
				if _, isLit := n.(*ast.FuncLit); isLit {
					return false
				}
				if r, isRet := n.(*ast.ReturnStmt); isRet {
					rets++
					if len(r.Results) == 0 || !(isFreshExpr(r.Results[0]) || provenance(asg, r.Results[0], r.Pos()) == "fresh") {
						ok = false
					}
				}
				return true
			})
			if ok && rets > 0 {
				freshCalls[fd.Name.Name] = true
				changed = true
			}
		}
	}
}

func isFreshExpr(e ast.Expr) bool {
	switch x := e.(type) {
	case *ast.ParenExpr:
		return isFreshExpr(x.X)
	case *ast.UnaryExpr:
		return isFreshExpr(x.X)
	case *ast.CompositeLit:
		return true
	case *ast.CallExpr:
		switch f := x.Fun.(type) {
		case *ast.Ident:
			return freshCalls[f.Name]
		case *ast.SelectorExpr:
			return freshCalls[f.Sel.Name]
		}
	}
	return false
}

// assignmentsOf: for every identifier, the source positions at which it is (re)assigned in the
// function, each with whether the assigned expression is fresh.
type assignAt struct {
	pos   token.Pos
	fresh bool
}

func assignmentsOf(fd *ast.FuncDecl) map[string][]assignAt {
	out := map[string][]assignAt{}
	add := func(lhs ast.Expr, rhs ast.Expr, pos token.Pos) {
		id, ok := lhs.(*ast.Ident)
		if !ok {
			return
		}
		fresh := rhs != nil && isFreshExpr(rhs)
		if !fresh && rhs != nil {
			// `b := a` / `p := &a` where `a` holds a node made here (assignments are visited in
			// source order, so the latest one recorded so far is the one in force)
			e := rhs
			for {
				if u, ok := e.(*ast.UnaryExpr); ok && u.Op == token.AND {
					e = u.X
					continue
				}
				if pe, ok := e.(*ast.ParenExpr); ok {
					e = pe.X
					continue
				}
				break
			}
			if src, ok := e.(*ast.Ident); ok {
				if as := out[src.Name]; len(as) > 0 {
					fresh = as[len(as)-1].fresh
				}
			}
		}
		out[id.Name] = append(out[id.Name], assignAt{pos, fresh})
	}
	ast.Inspect(fd.Body, func(n ast.Node) bool {
		switch st := n.(type) {
		case *ast.AssignStmt:
			if len(st.Rhs) == len(st.Lhs) {
				for i := range st.Lhs {
					add(st.Lhs[i], st.Rhs[i], st.Pos())
				}
			} else if len(st.Rhs) == 1 { // x, err := f(): the first result carries the node
				for i, l := range st.Lhs {
					if i == 0 {
						add(l, st.Rhs[0], st.Pos())
					} else {
						add(l, nil, st.Pos())
					}
				}
			}
		case *ast.ValueSpec:
			for i, nm := range st.Names {
				var rhs ast.Expr
				if i < len(st.Values) {
					rhs = st.Values[i]
				}
				add(nm, rhs, st.Pos())
			}
		case *ast.RangeStmt:
			if st.Key != nil {
				add(st.Key, nil, st.Pos())
			}
			if st.Value != nil {
				add(st.Value, nil, st.Pos())
			}
		}
		return true
	})
	return out
}

// provenance of the node expression `base` used at position `at`
func provenance(asg map[string][]assignAt, base ast.Expr, at token.Pos) string {
	for {
		if p, ok := base.(*ast.ParenExpr); ok {
			base = p.X
			continue
		}
		if p, ok := base.(*ast.StarExpr); ok {
			base = p.X
			continue
		}
		break
	}
	id, ok := base.(*ast.Ident)
	if !ok {
		return "other"
	}
	best := assignAt{pos: token.NoPos}
	for _, a := range asg[id.Name] {
		if a.pos <= at && a.pos >= best.pos {
			best = a
		}
	}
	if best.pos != token.NoPos && best.fresh {
		return "fresh"
	}
	return "other"
}

func funcName(fset *token.FileSet, fd *ast.FuncDecl) string {
	fname := fd.Name.Name
	if fd.Recv != nil && len(fd.Recv.List) > 0 {
		fname = exprString(fset, fd.Recv.List[0].Type) + "." + fname
	}
	return fname
}

func sortedSet(m map[string]bool) []string {
	var out []string
	for k := range m {
		out = append(out, k)
	}
	sort.Strings(out)
	return out
}

// nodeWrites: the set of (function, provenance of the node, field, element-or-whole) of every
// assignment whose left side goes through a field of a node object.
func nodeWrites(fset *token.FileSet, files []string) []string {
	set := map[string]bool{}
	fields := map[string]bool{"Key": true, "Value": true, "Link": true, "dirty": true, "shared": true, "source": true, "expected": true}
	for _, rel := range files {
		f := parseFile(fset, rel)
		for _, d := range f.Decls {
			fd, ok := d.(*ast.FuncDecl)
			if !ok || fd.Body == nil {
				continue
			}
			asg := assignmentsOf(fd)
			record := func(lhs ast.Expr, at token.Pos) {
				e, elem := lhs, ""
				if ix, ok := e.(*ast.IndexExpr); ok {
					e, elem = ix.X, "[]"
				}
				sel, ok := e.(*ast.SelectorExpr)
				if !ok || !fields[sel.Sel.Name] {
					return
				}
				if pv := provenance(asg, sel.X, at); pv == "other" { // writes to a node made here need no review
					set[fmt.Sprintf("%s: %s.%s%s", rel, pv, sel.Sel.Name, elem)] = true
				}
			}
			ast.Inspect(fd.Body, func(n ast.Node) bool {
				switch st := n.(type) {
				case *ast.AssignStmt:
					for _, lhs := range st.Lhs {
						record(lhs, st.Pos())
					}
				case *ast.IncDecStmt:
					record(st.X, st.Pos())
				case *ast.CallExpr:
					// copy(dst, src) writes the elements of dst
					if id, ok := st.Fun.(*ast.Ident); ok && id.Name == "copy" && len(st.Args) == 2 {
						dst := st.Args[0]
						for {
							if sl, ok := dst.(*ast.SliceExpr); ok {
								dst = sl.X
								continue
							}
							break
						}
						if sel, ok := dst.(*ast.SelectorExpr); ok && fields[sel.Sel.Name] && provenance(asg, sel.X, st.Pos()) == "other" {
							set[fmt.Sprintf("%s: other.%s[]", rel, sel.Sel.Name)] = true
						}
					}
				}
				return true
			})
		}
	}
	return sortedSet(set)
}

// stateEvents lists, in source order, the assignments to fields of the tree (`m.root`, `m.size`,
// `m.height`, the thresholds) and the calls whose error is checked, inside one method of *Mast.
func stateEvents(fset *token.FileSet, fn *ast.FuncDecl) []string {
	var out []string
	recv := "m"
	if fn.Recv != nil && len(fn.Recv.List) > 0 && len(fn.Recv.List[0].Names) > 0 {
		recv = fn.Recv.List[0].Names[0].Name
	}
	isState := func(e ast.Expr) (string, bool) {
		sel, ok := e.(*ast.SelectorExpr)
		if !ok {
			return "", false
		}
		id, ok := sel.X.(*ast.Ident)
		if !ok || id.Name != recv {
			return "", false
		}
		return "m." + sel.Sel.Name, true // the receiver's name is immaterial
	}
	// a callee is identified by its function / method name alone: renaming a local that holds the
	// receiver does not change which fallible step runs when
	callee := func(e ast.Expr) string {
		switch x := e.(type) {
		case *ast.SelectorExpr:
			return x.Sel.Name
		case *ast.Ident:
			return x.Name
		}
		return exprString(fset, e)
	}
	ast.Inspect(fn.Body, func(n ast.Node) bool {
		switch st := n.(type) {
		case *ast.IncDecStmt:
			if s, ok := isState(st.X); ok {
				out = append(out, "W "+s)
			}
		case *ast.AssignStmt:
			fallible := false
			for _, l := range st.Lhs {
				if id, ok := l.(*ast.Ident); ok && id.Name == "err" {
					fallible = true
				}
			}
			if fallible && len(st.Rhs) == 1 {
				if c, ok := st.Rhs[0].(*ast.CallExpr); ok {
					out = append(out, "F "+callee(c.Fun))
				}
			}
			for _, l := range st.Lhs {
				if s, ok := isState(l); ok {
					out = append(out, "W "+s)
				}
			}
		}
		return true
	})
	// what matters is which fallible calls come before and after which field assignments, not the
	// order of adjacent assignments among themselves: runs of writes are sorted and de-duplicated
	var norm []string
	for i := 0; i < len(out); {
		if !strings.HasPrefix(out[i], "W ") {
			norm = append(norm, out[i])
			i++
			continue
		}
		j := i
		set := map[string]bool{}
		for j < len(out) && strings.HasPrefix(out[j], "W ") {
			set[out[j]] = true
			j++
		}
		norm = append(norm, sortedSet(set)...)
		i = j
	}
	return norm
}

// writesThenFallible: the set of pairs "W m.f before F callee" such that, on SOME control path of
// the function, the tree field is assigned and the fallible call (one whose error is assigned to
// `err`) runs afterwards.  Path-sensitive where it matters for harmless rewrites: the branches of
// an if / switch are alternatives (a write in one is not before a call in the other), a branch
// that returns does not flow on, a loop body is walked twice (a write in one round, a call in the
// next).  `install` names callees that assign a field themselves (savePathForRoot installs the
// root).  Swapping branches, renaming locals, hoisting expressions or extracting helpers that
// make no fallible call leaves the set as it is; moving an assignment ahead of a fallible call
// adds a pair.
func writesThenFallible(fset *token.FileSet, fn *ast.FuncDecl, install map[string]string) []string {
	recv := "m"
	if fn.Recv != nil && len(fn.Recv.List) > 0 && len(fn.Recv.List[0].Names) > 0 {
		recv = fn.Recv.List[0].Names[0].Name
	}
	pairs := map[string]bool{}
	isState := func(e ast.Expr) (string, bool) {
		sel, ok := e.(*ast.SelectorExpr)
		if !ok {
			return "", false
		}
		id, ok := sel.X.(*ast.Ident)
		if !ok || id.Name != recv {
			return "", false
		}
		return "m." + sel.Sel.Name, true
	}
	callee := func(e ast.Expr) string {
		switch x := e.(type) {
		case *ast.SelectorExpr:
			return x.Sel.Name
		case *ast.Ident:
			return x.Name
		}
		return exprString(fset, e)
	}
	copySet := func(m map[string]bool) map[string]bool {
		o := map[string]bool{}
		for k := range m {
			o[k] = true
		}
		return o
	}
	union := func(a, b map[string]bool) map[string]bool {
		o := copySet(a)
		for k := range b {
			o[k] = true
		}
		return o
	}
	var block func(list []ast.Stmt, w map[string]bool) (map[string]bool, bool)
	var stmt func(st ast.Stmt, w map[string]bool) (map[string]bool, bool)
	simple := func(st ast.Stmt, w map[string]bool) map[string]bool {
		switch x := st.(type) {
		case *ast.IncDecStmt:
			if f, ok := isState(x.X); ok {
				w = copySet(w)
				w[f] = true
			}
		case *ast.AssignStmt:
			fallible := false
			for _, l := range x.Lhs {
				if id, ok := l.(*ast.Ident); ok && id.Name == "err" {
					fallible = true
				}
			}
			if fallible && len(x.Rhs) == 1 {
				if c, ok := x.Rhs[0].(*ast.CallExpr); ok {
					name := callee(c.Fun)
					for f := range w {
						pairs["W "+f+" before F "+name] = true
					}
					if f, ok := install[name]; ok {
						w = copySet(w)
						w[f] = true
					}
				}
			}
			for _, l := range x.Lhs {
				if f, ok := isState(l); ok {
					w = copySet(w)
					w[f] = true
				}
			}
		}
		return w
	}
	stmt = func(st ast.Stmt, w map[string]bool) (map[string]bool, bool) {
		switch x := st.(type) {
		case nil:
			return w, false
		case *ast.BlockStmt:
			return block(x.List, w)
		case *ast.ReturnStmt:
			return w, true
		case *ast.IfStmt:
			if x.Init != nil {
				w = simple(x.Init, w)
			}
			w1, t1 := block(x.Body.List, w)
			w2, t2 := w, false
			if x.Else != nil {
				w2, t2 = stmt(x.Else, w)
			}
			switch {
			case t1 && t2:
				return w, true
			case t1:
				return w2, false
			case t2:
				return w1, false
			}
			return union(w1, w2), false
		case *ast.ForStmt:
			if x.Init != nil {
				w = simple(x.Init, w)
			}
			w1, _ := block(x.Body.List, w)
			w2, _ := block(x.Body.List, union(w, w1))
			return union(w, w2), false
		case *ast.RangeStmt:
			w1, _ := block(x.Body.List, w)
			w2, _ := block(x.Body.List, union(w, w1))
			return union(w, w2), false
		case *ast.SwitchStmt, *ast.TypeSwitchStmt, *ast.SelectStmt:
			var body *ast.BlockStmt
			switch y := x.(type) {
			case *ast.SwitchStmt:
				if y.Init != nil {
					w = simple(y.Init, w)
				}
				body = y.Body
			case *ast.TypeSwitchStmt:
				body = y.Body
			case *ast.SelectStmt:
				body = y.Body
			}
			out := copySet(w)
			for _, c := range body.List {
				var list []ast.Stmt
				switch cc := c.(type) {
				case *ast.CaseClause:
					list = cc.Body
				case *ast.CommClause:
					list = cc.Body
				}
				if wc, t := block(list, w); !t {
					out = union(out, wc)
				}
			}
			return out, false
		case *ast.LabeledStmt:
			return stmt(x.Stmt, w)
		default:
			return simple(st, w), false
		}
	}
	block = func(list []ast.Stmt, w map[string]bool) (map[string]bool, bool) {
		for _, st := range list {
			var t bool
			w, t = stmt(st, w)
			if t {
				return w, true
			}
		}
		return w, false
	}
	block(fn.Body.List, map[string]bool{})
	return sortedSet(pairs)
}

// writesBeforeLastFallible: state writes that are followed by a fallible call other than the
// allowed ones (the height step, whose partial effect is the recorded C12 finding).
func writesBeforeFallible(events []string, allowed map[string]bool) []string {
	var bad []string
	for i, e := range events {
		if !strings.HasPrefix(e, "W ") {
			continue
		}
		for _, f := range events[i+1:] {
			if strings.HasPrefix(f, "F ") && !allowed[strings.TrimPrefix(f, "F ")] {
				bad = append(bad, e+" before "+f)
			}
		}
	}
	return bad
}

// nodeSliceShares: the set of places where a slice of a node the function did not make can come
// to be shared or overwritten: `append(other.Field…, …)` (appends onto that node's backing array)
// and re-slicings `other.Field[a:b]` that are kept (anything but a spread argument of append, or
// an operand of copy / len / cap / range, which only read the elements).
func nodeSliceShares(fset *token.FileSet, files []string) []string {
	set := map[string]bool{}
	fields := map[string]bool{"Key": true, "Value": true, "Link": true}
	// the node-slice selector under re-slicings, or nil
	nodeSlice := func(e ast.Expr) *ast.SelectorExpr {
		for {
			switch x := e.(type) {
			case *ast.SliceExpr:
				e = x.X
				continue
			case *ast.ParenExpr:
				e = x.X
				continue
			case *ast.SelectorExpr:
				if fields[x.Sel.Name] {
					return x
				}
			}
			return nil
		}
	}
	// functions of the package by name, for the one-level look into helpers
	decls := map[string]*ast.FuncDecl{}
	var parsed []*ast.File
	for _, rel := range files {
		f := parseFile(fset, rel)
		parsed = append(parsed, f)
		for _, d := range f.Decls {
			if fd, ok := d.(*ast.FuncDecl); ok && fd.Body != nil {
				decls[fd.Name.Name] = fd
			}
		}
	}
	for fi, rel := range files {
		f := parsed[fi]
		for _, d := range f.Decls {
			fd, ok := d.(*ast.FuncDecl)
			if !ok || fd.Body == nil {
				continue
			}
			asg := assignmentsOf(fd)
			fname := funcName(fset, fd)
			readOnly := map[ast.Expr]bool{} // slice expressions whose elements are only read
			ast.Inspect(fd.Body, func(n ast.Node) bool {
				switch x := n.(type) {
				case *ast.CallExpr:
					var callee string
					switch fx := x.Fun.(type) {
					case *ast.Ident:
						callee = fx.Name
					case *ast.SelectorExpr:
						callee = fx.Sel.Name
					}
					if hd, ok := decls[callee]; ok && callee != "append" && callee != "copy" {
						// a helper of this package that only reads the elements of its i-th parameter
						for i, a := range x.Args {
							if paramReadOnly(hd, i) {
								readOnly[a] = true
							}
						}
						return true
					}
					id, ok := x.Fun.(*ast.Ident)
					if !ok {
						return true
					}
					switch id.Name {
					case "append":
						for i, a := range x.Args {
							if i > 0 {
								readOnly[a] = true
							}
						}
						if len(x.Args) > 0 {
							if sel := nodeSlice(x.Args[0]); sel != nil && provenance(asg, sel.X, x.Pos()) == "other" {
								set[fmt.Sprintf("%s:%s: append onto other.%s", rel, fname, sel.Sel.Name)] = true
							}
							readOnly[x.Args[0]] = true // counted as an append, not again as a re-slicing
						}
					case "copy":
						if len(x.Args) == 2 {
							readOnly[x.Args[1]] = true
							readOnly[x.Args[0]] = true // element writes are in node_writes
						}
					case "len", "cap":
						for _, a := range x.Args {
							readOnly[a] = true
						}
					}
				case *ast.RangeStmt:
					readOnly[x.X] = true
				case *ast.SliceExpr:
					if readOnly[x] {
						return true
					}
					if sel := nodeSlice(x); sel != nil && provenance(asg, sel.X, x.Pos()) == "other" {
						set[fmt.Sprintf("%s:%s: keeps a re-slicing of other.%s", rel, fname, sel.Sel.Name)] = true
					}
					return false // inner re-slicings belong to the same expression
				}
				return true
			})
		}
	}
	return sortedSet(set)
}

// paramReadOnly: every use of the i-th parameter of fd only reads its elements (a spread or
// plain argument of append after the first, the source of copy, len / cap, range, an index read).
func paramReadOnly(fd *ast.FuncDecl, i int) bool {
	var names []string
	for _, fl := range fd.Type.Params.List {
		for _, n := range fl.Names {
			names = append(names, n.Name)
		}
	}
	if i >= len(names) {
		return false
	}
	name := names[i]
	ok := map[*ast.Ident]bool{}
	mark := func(e ast.Expr) {
		if id, isId := e.(*ast.Ident); isId && id.Name == name {
			ok[id] = true
		}
	}
	ast.Inspect(fd.Body, func(n ast.Node) bool {
		switch x := n.(type) {
		case *ast.CallExpr:
			if id, isId := x.Fun.(*ast.Ident); isId {
				switch id.Name {
				case "append":
					for j, a := range x.Args {
						if j > 0 {
							mark(a)
						}
					}
				case "copy":
					if len(x.Args) == 2 {
						mark(x.Args[1])
					}
				case "len", "cap":
					for _, a := range x.Args {
						mark(a)
					}
				}
			}
		case *ast.RangeStmt:
			mark(x.X)
		case *ast.IndexExpr:
			mark(x.X)
		}
		return true
	})
	good := true
	ast.Inspect(fd.Body, func(n ast.Node) bool {
		switch x := n.(type) {
		case *ast.AssignStmt:
			// an element write p[i] = v is not a read
			for _, l := range x.Lhs {
				if ix, isIx := l.(*ast.IndexExpr); isIx {
					if id, isId := ix.X.(*ast.Ident); isId && id.Name == name {
						good = false
					}
				}
			}
		case *ast.Ident:
			if x.Name == name && !ok[x] {
				good = false
			}
		}
		return true
	})
	return good
}

func collectFacts(group string) map[string]interface{} {
	fset := token.NewFileSet()
	facts := map[string]interface{}{}
	src := func(rel string) string {
		b, err := os.ReadFile(filepath.Join(repoDir(), rel))
		if err != nil {
			fmt.Println(err)
			os.Exit(1)
		}
		return strings.Join(strings.Fields(string(b)), " ")
	}
	switch group {
	case "defaults":
		facts["DefaultBranchFactor"] = strings.Contains(src("lib.go"), "const DefaultBranchFactor = 16")
		facts["V1Marshaler"] = strings.Contains(src("pub.go"), `V1Marshaler = nodeFormat("v1marshaler")`)
		facts["V115Binary"] = strings.Contains(src("pub.go"), `V115Binary = nodeFormat("v1.1.5binary")`)
		nr := findFunc(parseFile(fset, "pub.go"), "", "NewRoot")
		facts["NewRoot.default_format"] = nr != nil && strings.Contains(exprString(fset, nr.Body), "nf := V115Binary")
		facts["NewRoot.default_bf"] = nr != nil && strings.Contains(exprString(fset, nr.Body), "branchFactor := uint(DefaultBranchFactor)")
	case "hash":
		s := src("store.go")
		facts["blake2b.Sum256"] = strings.Contains(s, "blake2b.Sum256(encoded)")
		facts["base64.RawURLEncoding"] = strings.Contains(s, "base64.RawURLEncoding.EncodeToString(hashBytes[:])")
		facts["trim_links_when_all_nil"] = strings.Contains(s, "if linkCount == 0 { trimmed.Link = nil")
		facts["crc64.ECMA"] = strings.Contains(src("key.go"), "crc64.MakeTable(crc64.ECMA)")
		facts["uvarint"] = strings.Contains(src("codec.go"), "binary.PutUvarint") && strings.Contains(src("codec.go"), "binary.Uvarint(buf)")
	case "flush":
		fl := findFunc(parseFile(fset, "pub.go"), "*Mast", "flush")
		if fl == nil {
			facts["flush_found"] = false
			break
		}
		// (the pool bound and the hand-off are observed, not read off the source: the flush family
		// counts the Store calls in flight and replays every trace through the pool model)
		ord := orderOf(fset, fl, []string{"close(storeQ)", "wg.Wait()", "firstStoreError != nil", "commit()", "m.root = str"})
		ok := true
		for i := range ord {
			if ord[i] < 0 || (i > 0 && ord[i] <= ord[i-1]) {
				ok = false
			}
		}
		// "firstStoreError != nil" also occurs inside the worker; take the order of the remaining four
		ord4 := orderOf(fset, fl, []string{"close(storeQ)", "wg.Wait()", "return \"\", firstStoreError", "m.root = str"})
		ok4 := true
		for i := range ord4 {
			if ord4[i] < 0 || (i > 0 && ord4[i] <= ord4[i-1]) {
				ok4 = false
			}
		}
		_ = ok
		facts["order_close_wait_error_root"] = ok4
		cm := orderOf(fset, fl, []string{"return \"\", firstStoreError", "commit()"})
		facts["commits_after_error_check"] = cm[0] >= 0 && cm[1] > cm[0]
		st := findFunc(parseFile(fset, "store.go"), "*mastNode", "store")
		sb := exprString(fset, st.Body)
		facts["store_no_inplace_before_commit"] = !strings.Contains(strings.Split(sb, "*commits = append")[0], "node.Link[i] =") &&
			!strings.Contains(strings.Split(sb, "*commits = append")[0], "node.dirty = false")
	case "atomicity":
		pf := parseFile(fset, "pub.go")
		lf := parseFile(fset, "lib.go")
		ins, del := findFunc(pf, "*Mast", "Insert"), findFunc(pf, "*Mast", "Delete")
		gr, sh := findFunc(lf, "*Mast", "grow"), findFunc(lf, "*Mast", "shrink")
		if ins == nil || del == nil || gr == nil || sh == nil {
			facts["functions_found"] = false
			break
		}
		sp := findFunc(lf, "*Mast", "savePathForRoot")
		if sp == nil {
			sp = findFunc(pf, "*Mast", "savePathForRoot")
		}
		// which tree fields each function assigns at all (a set: no order, no multiplicity)
		fieldsOf := func(fn *ast.FuncDecl) []string {
			set := map[string]bool{}
			for _, e := range stateEvents(fset, fn) {
				if strings.HasPrefix(e, "W ") {
					set[e] = true
				}
			}
			return sortedSet(set)
		}
		if sp != nil {
			facts["savePathForRoot.fields_written"] = fieldsOf(sp)
		}
		facts["Insert.fields_written"] = fieldsOf(ins)
		facts["Delete.fields_written"] = fieldsOf(del)
		facts["grow.fields_written"] = fieldsOf(gr)
		facts["shrink.fields_written"] = fieldsOf(sh)
		// a tree field assigned and a fallible call made afterwards on some path: in Insert / Delete
		// only the height step (canGrow / grow, shrink) runs after the change is installed — the
		// recorded C12 finding; in grow / shrink every assignment follows the last fallible call
		inst := map[string]string{"savePathForRoot": "m.root"}
		facts["Insert.write_then_fallible"] = writesThenFallible(fset, ins, inst)
		facts["Delete.write_then_fallible"] = writesThenFallible(fset, del, inst)
		facts["grow.write_then_fallible"] = writesThenFallible(fset, gr, inst)
		facts["shrink.write_then_fallible"] = writesThenFallible(fset, sh, inst)
	case "writes":
		derivedMakers(fset, []string{"lib.go", "pub.go", "store.go", "diff.go", "codec.go"})
		facts["node_writes"] = nodeWrites(fset, []string{"lib.go", "pub.go", "store.go", "diff.go", "codec.go"})
		facts["node_slice_shares"] = nodeSliceShares(fset, []string{"lib.go", "pub.go", "store.go", "diff.go", "codec.go"})
	case "filestore":
		st := findFunc(parseFile(fset, "persist/file/lib.go"), "Persist", "Store")
		ord := orderOf(fset, st, []string{"os.Stat(path)", "os.CreateTemp(", "tmp.Write(bytes)", "tmp.Close()", "os.Rename(tmp.Name(), path)"})
		ok := true
		for i := range ord {
			if ord[i] < 0 || (i > 0 && ord[i] <= ord[i-1]) {
				ok = false
			}
		}
		facts["order_stat_temp_write_close_rename"] = ok
		facts["no_direct_write_to_final_name"] = !strings.Contains(exprString(fset, st.Body), "os.WriteFile(")
		facts["stat_error_returned"] = strings.Contains(exprString(fset, st.Body), "if !os.IsNotExist(err) { return err }") ||
			strings.Contains(exprString(fset, st.Body), "if !os.IsNotExist(err) { // either the complete file is there already, or Stat failed return err }")
		s3 := src("persist/s3/lib.go")
		facts["s3_key_prefix_plus_name"] = strings.Count(s3, "Key: aws.String(p.Prefix + name)") == 2
		facts["s3_bucket"] = strings.Count(s3, "Bucket: &p.BucketName") == 2
	default:
		fmt.Println("unknown fact group", group)
		os.Exit(2)
	}
	return facts
}

func runFacts(group string, update bool) int {
	dir := os.Getenv("VERIF_DIR")
	if dir == "" {
		dir = "/verif"
	}
	path := filepath.Join(dir, "harness", "expectations", group+".json")
	got := collectFacts(group)
	gb, _ := json.MarshalIndent(got, "", " ")
	if update {
		os.MkdirAll(filepath.Dir(path), 0755)
		os.WriteFile(path, append(gb, '\n'), 0644)
		fmt.Println("written", path)
		return 0
	}
	wb, err := os.ReadFile(path)
	if err != nil {
		fmt.Println("no expectations for", group, err)
		return 1
	}
	var want map[string]interface{}
	json.Unmarshal(wb, &want)
	var gotN map[string]interface{}
	json.Unmarshal(gb, &gotN)
	bad := 0
	keys := map[string]bool{}
	for k := range want {
		keys[k] = true
	}
	for k := range gotN {
		keys[k] = true
	}
	for k := range keys {
		a, _ := json.Marshal(want[k])
		b, _ := json.Marshal(gotN[k])
		if group == "writes" {
			// an inventory of places to review: only a NEW entry matters
			known := map[string]bool{}
			if l, ok := want[k].([]interface{}); ok {
				for _, x := range l {
					known[fmt.Sprint(x)] = true
				}
			}
			var added []string
			if l, ok := gotN[k].([]interface{}); ok {
				for _, x := range l {
					if !known[fmt.Sprint(x)] {
						added = append(added, fmt.Sprint(x))
					}
				}
			}
			if len(added) > 0 {
				bad++
				fmt.Printf("FACT CHANGED %s.%s: new entries %q\n", group, k, added)
			}
			continue
		}
		if string(a) != string(b) {
			bad++
			fmt.Printf("FACT CHANGED %s.%s:\n  expected %s\n  found    %s\n", group, k, a, b)
		}
	}
	if bad == 0 {
		fmt.Printf("facts %s: %d facts match\n", group, len(keys))
		return 0
	}
	return 1
}
