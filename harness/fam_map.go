package main

import (
	"fmt"
	"math/rand"
	"strings"
)

// genMapCase: a random history over up to 4 tree slots with clone / persist / reload points.
// It tracks what it has written so that deletes mostly hit (with the right value) and
// sometimes deliberately miss.
func genMapCase(r *rand.Rand, cfg Cfg, nops int, usize int) Case {
	uni := Universe(r, cfg, usize)
	ops := []string{"new 0"}
	// a tree made by NewInMemory() (branch factor 16, no store): never persisted
	inMem := cfg.BF == 16 && cfg.KK != "sk" && cfg.KK != "skc" && cfg.KK != "vk" && !cfg.Reg && r.Intn(3) == 0
	if inMem {
		ops = []string{"newmem 0"}
	}
	live := map[int]map[uint64]uint64{0: {}}
	slots := []int{0}
	roots := map[int]map[uint64]uint64{}
	nroot := 0
	for len(ops) < nops {
		s := pick(r, slots)
		m := live[s]
		x := r.Intn(100)
		switch {
		case x < 1 && cfg.Cache != "none":
			// the rest of the history opens trees through a cold node cache (another process)
			ops = append(ops, "coldcache")
		case x < 45:
			k := pick(r, uni)
			v := uint64(r.Intn(5))
			if ov, ok := m[k]; ok && r.Intn(3) == 0 {
				v = ov // equal-value upsert
			}
			m[k] = v
			ops = append(ops, opIns(s, k, v))
		case x < 68:
			if len(m) == 0 || r.Intn(8) == 0 {
				k := pick(r, uni)
				v := uint64(r.Intn(5))
				if ov, ok := m[k]; ok && ov == v {
					delete(m, k)
				}
				ops = append(ops, opDel(s, k, v))
			} else {
				var ks []uint64
				for k := range m {
					ks = append(ks, k)
				}
				// map order is random but seeded choice must be reproducible: pick min-based
				k := ks[0]
				for _, kk := range ks {
					if kk < k {
						k = kk
					}
				}
				idx := r.Intn(len(ks))
				cnt := 0
				for _, u := range uni {
					if _, ok := m[u]; ok {
						if cnt == idx {
							k = u
							break
						}
						cnt++
					}
				}
				v := m[k]
				if r.Intn(10) == 0 {
					v++ // wrong value: must fail without effect
				} else {
					delete(m, k)
				}
				ops = append(ops, opDel(s, k, v))
			}
		case x < 76:
			ops = append(ops, fmt.Sprintf("get %d %d", s, pick(r, uni)))
		case x < 78:
			ops = append(ops, fmt.Sprintf("getnil %d %d", s, pick(r, uni)))
		case x < 82:
			ops = append(ops, fmt.Sprintf("iter %d", s))
		case x < 84:
			ops = append(ops, fmt.Sprintf("%s %d %d", pick(r, []string{"iterstop", "iterdone"}), s, r.Intn(len(m)+2)))
		case x < 87:
			ops = append(ops, fmt.Sprintf("stat %d", s))
		case x < 90:
			d := r.Intn(4)
			ops = append(ops, fmt.Sprintf("clone %d %d", s, d))
			cp := map[uint64]uint64{}
			for k, v := range m {
				cp[k] = v
			}
			live[d] = cp
			found := false
			for _, q := range slots {
				if q == d {
					found = true
				}
			}
			if !found {
				slots = append(slots, d)
			}
		case x < 95:
			if inMem {
				continue
			}
			ops = append(ops, fmt.Sprintf("root %d %d", s, nroot))
			cp := map[uint64]uint64{}
			for k, v := range m {
				cp[k] = v
			}
			roots[nroot] = cp
			nroot++
		default:
			if nroot == 0 {
				continue
			}
			ri := r.Intn(nroot)
			d := r.Intn(4)
			ops = append(ops, fmt.Sprintf("load %d %d", ri, d))
			cp := map[uint64]uint64{}
			for k, v := range roots[ri] {
				cp[k] = v
			}
			live[d] = cp
			found := false
			for _, q := range slots {
				if q == d {
					found = true
				}
			}
			if !found {
				slots = append(slots, d)
			}
		}
		if r.Intn(4) == 0 {
			ops = append(ops, fmt.Sprintf("iter %d", s))
		}
	}
	for _, s := range slots {
		ops = append(ops, fmt.Sprintf("iter %d", s), fmt.Sprintf("stat %d", s))
	}
	return Case{cfg, ops}
}

func treeExecutor(c Cfg) Executor { return NewSession(c) }

// mapNorm: C01's alphabet is results, sizes and iterations; heights and dirtiness belong to
// other properties.
func mapNorm(line, obs string) string {
	f := strings.Fields(line)
	o := strings.Fields(obs)
	switch f[0] {
	case "ins", "del":
		if len(o) == 3 && o[0] == "ok" {
			return o[0] + " " + o[1]
		}
	case "stat":
		if len(o) == 3 {
			return o[0]
		}
	case "root":
		if len(o) == 4 {
			return "root size=" + o[1]
		}
	}
	return obs
}

var mapRunner = Runner{Mk: treeExecutor, Norm: mapNorm}

func multiLevel(st CaseStats) bool { return st.MaxHeight >= 1 && st.HeightChanges >= 1 }

// famMap — C01: results, sizes, heights and full iterations of random histories, compared with
// the Lean model op by op and with a Go map + sort oracle.
func famMap(f *FamCtx) {
	f.Report.Rule = "random histories (insert/update/equal-upsert/delete hit+miss+wrong value/get/get with a nil value pointer/iter/iter with a callback that fails, or signals done, after j entries/stat/clone/persist/reload; one case in three at branch factor 16 on a tree made by NewInMemory()) over key universes of 3..200 keys, all key kinds, value kinds, bf in {2,3,4,16}, both node formats, cache none/big/tiny; thorough tier adds EVERY history of length 4 over a four-key universe (insert with two values / delete) for six layer assignments at bf 2 and 3, each with iteration, persist, reload; distinct = distinct (cfg, op list); non-trivial = reached height >= 1 and changed height at least once"
	n := f.N(150, 6000)
	f.Gen = func() Case {
		cfg := RandCfg(f.Rand)
		us := 3 + f.Rand.Intn(60)
		if f.Rand.Intn(5) == 0 {
			us = 60 + f.Rand.Intn(140)
		}
		nops := 20 + f.Rand.Intn(200)
		if f.Rand.Intn(6) == 0 {
			nops = 200 + f.Rand.Intn(300)
		}
		return genMapCase(f.Rand, cfg, nops, us)
	}
	for i := 0; i < n; i++ {
		f.RunTreeCase(f.Gen(), mapRunner, multiLevel)
	}
	if f.Tier == "thorough" {
		exhaustiveSmall(f)
	}
}

// exhaustiveSmall (thorough tier): EVERY history of a fixed small length over a four-key
// universe — insert with two values, delete with the value last written — for several
// assignments of layers to the keys, at branch factors 2 and 3, each followed by iteration and a
// persist / reload / iteration.  Small-scope completeness next to the random histories.
func exhaustiveSmall(f *FamCtx) {
	const length = 4
	for combo := 0; combo < 6; combo++ {
		cfg := Cfg{BF: uint(2 + combo%2), Fmt: pick(f.Rand, []string{"bin", "json"}), KK: "vk", VKind: "u64", Cache: "none"}
		// four keys with layers drawn from 0..3 (explicit layers through the user Key type)
		var keys []uint64
		for i := 0; i < 4; i++ {
			keys = append(keys, uint64(i+1)<<8|uint64(f.Rand.Intn(4)))
		}
		// operation alphabet: for each key, ins v=0, ins v=1, del (value tracked while generating)
		type step struct{ kind, key int }
		var alphabet []step
		for k := range keys {
			alphabet = append(alphabet, step{0, k}, step{1, k}, step{2, k})
		}
		idx := make([]int, length)
		for {
			ops := []string{"new 0"}
			cur := map[uint64]uint64{}
			for _, a := range idx {
				st := alphabet[a]
				k := keys[st.key]
				switch st.kind {
				case 0, 1:
					ops = append(ops, opIns(0, k, uint64(st.kind)))
					cur[k] = uint64(st.kind)
				default:
					v, ok := cur[k]
					if !ok {
						v = 1 // a delete of an absent key must fail without effect
					}
					ops = append(ops, opDel(0, k, v))
					delete(cur, k)
				}
			}
			ops = append(ops, "iter 0", "stat 0", "root 0 0", "load 0 1", "iter 1", "stat 1")
			f.RunTreeCase(Case{cfg, ops}, mapRunner, func(CaseStats) bool { return false })
			// next sequence
			i := length - 1
			for i >= 0 {
				idx[i]++
				if idx[i] < len(alphabet) {
					break
				}
				idx[i] = 0
				i--
			}
			if i < 0 {
				break
			}
		}
	}
	f.Report.Stats = map[string]interface{}{"exhaustive_small_scope": "6 layer assignments x all 12^4 histories of length 4 over 4 keys"}
}
