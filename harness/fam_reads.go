package main

import (
	"fmt"
	"math/rand"
	"strings"
)

// genReadsCase: a persisted tree without cache; point operations on keys present / absent of
// every layer, each preceded by a fresh reload so that the whole path is on the store.
func genReadsCase(r *rand.Rand, cfg Cfg) Case {
	cfg = noCache(cfg)
	uni := Universe(r, cfg, 6+r.Intn(120))
	ops := []string{"new 0"}
	live := map[uint64]uint64{}
	n := len(uni) * (2 + r.Intn(7)) / 10
	for _, i := range r.Perm(len(uni))[:n] {
		live[uni[i]] = uint64(r.Intn(3))
		ops = append(ops, opIns(0, uni[i], live[uni[i]]))
	}
	nroot := 0
	ops = append(ops, fmt.Sprintf("root 0 %d", nroot))
	for i := 0; i < 6+r.Intn(20); i++ {
		if r.Intn(3) == 0 { // start again from a fully persisted tree
			ops = append(ops, fmt.Sprintf("root 0 %d", nroot+1))
			nroot++
			if r.Intn(2) == 0 {
				ops = append(ops, fmt.Sprintf("loadl %d 0", nroot))
			} else {
				ops = append(ops, fmt.Sprintf("loadl %d 1", nroot), "clonel 1 0")
			}
		}
		k := pick(r, uni)
		if r.Intn(6) == 0 {
			// a cursor on the current version: every move with the names it reads
			// (placement first: a cursor that has run off an end stays there)
			ops = append(ops, "cur 0 0", pick(r, []string{fmt.Sprintf("cl cceil 0 %d", k), "cl cmin 0", "cl cmax 0"}))
			for j := 0; j < 1+r.Intn(8); j++ {
				ops = append(ops, "cl "+pick(r, []string{"cfwd", "cfwd", "cbwd"})+" 0")
			}
			continue
		}
		if r.Intn(5) == 0 {
			mv := ""
			for j := 0; j < 1+r.Intn(8); j++ {
				mv += pick(r, []string{"f", "f", "b"})
			}
			ops = append(ops, fmt.Sprintf("cwalk 0 %d %s", k, mv))
			continue
		}
		switch r.Intn(3) {
		case 0:
			ops = append(ops, fmt.Sprintf("getl 0 %d", k))
		case 1:
			v := uint64(r.Intn(3))
			live[k] = v
			ops = append(ops, fmt.Sprintf("insl 0 %d %d", k, v))
		default:
			v, ok := live[k]
			if ok && r.Intn(8) != 0 {
				delete(live, k)
			} else if ok {
				v++
			}
			ops = append(ops, fmt.Sprintf("dell 0 %d %d", k, v))
		}
	}
	ops = append(ops, "iter 0")
	return Case{cfg, ops}
}

func famReads(f *FamCtx) {
	f.Report.Rule = "persisted trees on a recording store without cache; LoadMast / Clone / Get / Insert (new, update, equal) / Delete (hit, miss, wrong value) on keys present and absent of every layer, from fully persisted and from partly modified trees; cursor moves (Ceil, Min, Max, Forward, Backward) with the names each one reads compared with the model (`newLoads`) and at most one read per level and call; the multiset of names passed to Persist.Load by each call is compared with the model's load trace and with C16's bounds; one case in eight repeats every lookup / open / clone with each read position failing once (the failed call stays within the bound, the retry gives the result); non-trivial = reached height >= 1 and changed height"
	f.Gen = func() Case { return genReadsCase(f.Rand, RandCfg(f.Rand)) }
	n := f.N(250, 10000)
	for i := 0; i < n; i++ {
		if i%10 == 9 {
			// a version in the shape an earlier release (or an interrupted Delete) leaves — an
			// entry-less top node over a child — opened and read with the reads counted
			c := genInterruptedDeleteCase(f.Rand, RandCfg(f.Rand))
			var ops []string
			for _, op := range c.Ops {
				t := strings.Fields(op)
				switch t[0] {
				case "load", "get", "clone":
					ops = append(ops, t[0]+"l "+strings.Join(t[1:], " "))
				default:
					ops = append(ops, op)
				}
			}
			c.Ops = ops
			f.RunTreeCase(c, faultRunner, multiLevel)
			continue
		}
		if i%8 == 7 {
			// the same calls with every read position failing in turn: a call that fails because a
			// read failed has made no more reads than the bound allows (and a retry gives the result)
			c := f.Gen()
			var ops []string
			for _, op := range c.Ops {
				t := strings.Fields(op)
				switch t[0] {
				case "getl", "loadl", "clonel":
					ops = append(ops, "faultall load "+op)
				default:
					ops = append(ops, op)
				}
			}
			c.Ops = ops
			f.RunTreeCase(c, faultRunner, multiLevel)
			continue
		}
		f.RunTreeCase(f.Gen(), exactRunner, multiLevel)
	}
}
