package main

import (
	"encoding/json"
	"errors"
	"fmt"
	"reflect"
	"strconv"
	"strings"

	"github.com/jrhy/mast"
)

// VK is the harness's user key type: order = numeric order, layer = low byte.
// It lets a generator assign any layer to any key ("adversarial layer assignments").
type VK uint64

func (k VK) Layer(branchFactor uint) uint8 { return uint8(uint64(k) & 0xff) }
func (k VK) Order(o mast.Key) int {
	x := o.(VK)
	if k < x {
		return -1
	} else if k > x {
		return 1
	}
	return 0
}

const i64bias = 1048576

type Cfg struct {
	BF    uint
	Fmt   string // "bin" | "json"
	KK    string // vk u64 i64 str bytes
	VKind string // u64 bytes str
	Cache string // none big tiny
	// Reg: RemoteConfig.UnmarshalerUsesRegisteredTypes (nodes are decoded by handing the whole
	// Node to the unmarshaler; only with string keys, string values and the v1marshaler format,
	// whose default-JSON decoding gives back the same Go types)
	Reg bool `json:",omitempty"`
	// WideCmp: RemoteConfig.KeyCompare is the default order with results of magnitude 5 (a
	// comparison function may return any negative / zero / positive int, as `a - b` does)
	WideCmp bool `json:",omitempty"`
	// NoVL: RemoteConfig.ValuesLike is nil and UnmarshalerUsesRegisteredTypes is set (the "set"
	// configuration of the binary format: values are written, and dropped when a node is decoded);
	// used for write-only histories, where the bytes written must still be the published encoding
	NoVL bool `json:",omitempty"`
}

// RegMode: the registered-types decoding is used only where default JSON gives back the Go
// types that were stored (a family may have overridden the key kind after RandCfg)
func (c Cfg) RegMode() bool { return c.Reg && c.KK == "str" && c.VKind == "str" && c.Fmt == "json" }

func (c Cfg) Line() string {
	vk := c.VKind
	if vk == "nilu" {
		vk = "u64" // for the model the untyped nil value is the number 1
	}
	return fmt.Sprintf("cfg %d %s %s %s", c.BF, c.Fmt, c.KK, vk)
}

func (c Cfg) NodeFormat() string {
	if c.Fmt == "json" {
		return "v1marshaler"
	}
	return "v1.1.5binary"
}

func strKey(n uint64) string {
	b := make([]byte, 5)
	for i := 4; i >= 0; i-- {
		b[i] = byte('a' + n%26)
		n /= 26
	}
	return string(b)
}

func (c Cfg) Key(n uint64) interface{} {
	switch c.KK {
	case "vk":
		return VK(n)
	case "u64":
		return n
	case "i64":
		return int64(n) - i64bias
	case "i64w":
		// int64 anywhere in its range: the code with the sign bit flipped (order-preserving)
		return int64(n ^ (1 << 63))
	case "str":
		return strKey(n)
	case "strx":
		return strKey(n) + escFrag(n)
	case "bytes":
		return []byte{byte(n >> 16), byte(n >> 8), byte(n)}
	case "int":
		return int(int64(n) - i64bias)
	case "uint":
		return uint(n)
	case "sk":
		return SK{strKey(n)}
	case "skc":
		return SKC{scramble(strKey(n))}
	}
	panic("bad key kind " + c.KK)
}

// SKC is a struct key for trees configured with a CUSTOM marshaler: its JSON view (field A holds
// the key's letters reversed) orders and hashes differently from its configured marshaled form
// "c:<letters>", so a tree that falls back to encoding/json for order or layer is wrong.
type SKC struct{ A string }

func scramble(s string) string {
	b := []byte(s)
	for i, j := 0, len(b)-1; i < j; i, j = i+1, j-1 {
		b[i], b[j] = b[j], b[i]
	}
	return string(b)
}

// customMarshal / customUnmarshal: the RemoteConfig.Marshal / Unmarshal pair of the skc kind.
func customMarshal(v interface{}) ([]byte, error) {
	switch x := v.(type) {
	case SKC:
		return []byte(`"c:` + scramble(x.A) + `"`), nil
	case *SKC:
		return []byte(`"c:` + scramble(x.A) + `"`), nil
	}
	return json.Marshal(v)
}

func customUnmarshal(b []byte, v interface{}) error {
	if p, ok := v.(*SKC); ok {
		var s string
		if err := json.Unmarshal(b, &s); err != nil {
			return err
		}
		if !strings.HasPrefix(s, "c:") {
			return errors.New("not a custom-marshaled key")
		}
		p.A = scramble(s[2:])
		return nil
	}
	return json.Unmarshal(b, v)
}

func (c Cfg) KeyNat(k interface{}) uint64 {
	switch v := k.(type) {
	case SKC:
		return c.KeyNat(scramble(v.A))
	case VK:
		return uint64(v)
	case uint64:
		return v
	case int64:
		if c.KK == "i64w" {
			return uint64(v) ^ (1 << 63)
		}
		return uint64(v + i64bias)
	case string:
		var n uint64
		for i := 0; i < len(v) && i < 5; i++ {
			n = n*26 + uint64(v[i]-'a')
		}
		if c.KK == "strx" && v != strKey(n)+escFrag(n) {
			panic(fmt.Sprintf("strx key corrupted: %q", v))
		}
		return n
	case []byte:
		var n uint64
		for _, b := range v {
			n = n<<8 | uint64(b)
		}
		return n
	case int:
		return uint64(int64(v) + i64bias)
	case uint:
		return uint64(v)
	case SK:
		return c.KeyNat(v.A)
	}
	panic(fmt.Sprintf("bad key %T", k))
}

func (c Cfg) KeysLike() interface{} {
	switch c.KK {
	case "vk":
		return VK(0)
	case "u64":
		return uint64(0)
	case "i64", "i64w":
		return int64(0)
	case "str", "strx":
		return ""
	case "bytes":
		return []byte{}
	case "int":
		return int(0)
	case "uint":
		return uint(0)
	case "sk":
		return SK{}
	case "skc":
		return SKC{}
	}
	panic("bad key kind")
}

func (c Cfg) Val(n uint64) interface{} {
	switch c.VKind {
	case "u64":
		return n
	case "bytes":
		return []byte(strconv.FormatUint(n, 10))
	case "nb":
		// []byte with two special values: 1 is the nil slice, 2 the empty non-nil slice
		// (different values: not DeepEqual, marshaled as null and as "")
		switch n {
		case 1:
			return []byte(nil)
		case 2:
			return []byte{}
		}
		return []byte(strconv.FormatUint(n, 10))
	case "str":
		return strconv.FormatUint(n, 10)
	case "ptr":
		v := n
		return &v // a fresh pointer every time: equality must be by pointee
	case "np":
		// a pointer that may be nil: 1 is the typed nil pointer (marshaled as null)
		if n == 1 {
			return (*uint64)(nil)
		}
		v := n
		return &v
	case "iface":
		// as encoding/json decodes it: an interface holding a slice (uncomparable with ==)
		return IV{X: []interface{}{strconv.FormatUint(n, 10)}}
	case "long":
		return LV(longText(n))
	case "esc":
		return EV(escText(n))
	case "agg":
		return aggVal(n)
	case "nilu":
		// set-like use: 1 is the untyped nil value (in-memory trees only: JSON does not give nil back)
		if n == 1 {
			return nil
		}
		return n
	}
	panic("bad val kind")
}

// AV is an aggregate value: omitempty slice / map / string fields of which exactly one is set
// (by n%3), and a number.  A decoder that reuses one target for several values, or keeps what a
// previous value left in a field, returns a different value.
type AV struct {
	A []int          `json:"a,omitempty"`
	M map[string]int `json:"m,omitempty"`
	S string         `json:"s,omitempty"`
	N uint64         `json:"n"`
}

func aggVal(n uint64) AV {
	v := AV{N: n}
	switch n % 3 {
	case 0:
		v.A = []int{int(n), int(n + 1)}
	case 1:
		v.M = map[string]int{"k" + strconv.FormatUint(n, 10): int(n)}
	default:
		v.S = "s" + strconv.FormatUint(n, 10)
	}
	return v
}

// LV is a long string value: "<digits>-" followed by filler; its marshaled length (with the two
// quotes) is 127, 128, 129, 16383, 16384 or 16385 bytes depending on n%6: the boundaries at which
// a body length needs one, two and three varint bytes.
type LV string

var longTotals = []int{127, 128, 129, 16383, 16384, 16385}

func longText(n uint64) string {
	head := strconv.FormatUint(n, 10) + "-"
	total := longTotals[n%6] - 2
	return head + strings.Repeat(string(rune('a'+n%26)), total-len(head))
}

// escFrags: text fragments around encoding/json's string escaping (HTML-unsafe characters, quote,
// backslash, the short escapes, other control bytes, DEL, multi-byte runes, the two line
// separators that json escapes, a slash).  Keys of kind strx and values of kind esc end in one.
var escFrags = []string{"<", ">", "&", "\"", "\\", "\n", "\t", "\r", "\x01", "\x1f", "\x7f", "\u00e9", "\u2028", "\u2029",
	"/", "a<b&c>d", "\u65e5\u672c", "\U0001F600"}

func escFrag(n uint64) string { return escFrags[n%uint64(len(escFrags))] }

// EV is a string value "<digits>-<fragment>".
type EV string

func escText(n uint64) string { return strconv.FormatUint(n, 10) + "-" + escFrag(n) }

// IV is a value type with an interface-typed field.
type IV struct{ X interface{} }

func (c Cfg) ValNat(v interface{}) uint64 {
	switch x := v.(type) {
	case nil:
		return 1
	case uint64:
		return x
	case []byte:
		if c.VKind == "nb" && x == nil {
			return 1
		}
		if c.VKind == "nb" && len(x) == 0 {
			return 2
		}
		n, err := strconv.ParseUint(string(x), 10, 64)
		if err != nil {
			panic(err)
		}
		return n
	case string:
		n, err := strconv.ParseUint(x, 10, 64)
		if err != nil {
			panic(err)
		}
		return n
	case *uint64:
		if x == nil {
			return 1
		}
		return *x
	case LV:
		n, err := strconv.ParseUint(string(x)[:strings.IndexByte(string(x), '-')], 10, 64)
		if err != nil {
			panic(err)
		}
		if string(x) != longText(n) {
			panic("long value corrupted: " + string(x)[:20])
		}
		return n
	case EV:
		n, err := strconv.ParseUint(string(x)[:strings.IndexByte(string(x), '-')], 10, 64)
		if err != nil {
			panic(err)
		}
		if string(x) != escText(n) {
			panic(fmt.Sprintf("esc value corrupted: %q", string(x)))
		}
		return n
	case AV:
		if !reflect.DeepEqual(x, aggVal(x.N)) {
			panic(fmt.Sprintf("aggregate value corrupted: %+v", x))
		}
		return x.N
	case IV:
		n, err := strconv.ParseUint(x.X.([]interface{})[0].(string), 10, 64)
		if err != nil {
			panic(err)
		}
		return n
	}
	panic(fmt.Sprintf("bad val %T", v))
}

func (c Cfg) ValuesLike() interface{} {
	switch c.VKind {
	case "u64", "nilu":
		return uint64(0)
	case "bytes", "nb":
		return []byte{}
	case "str":
		return ""
	case "ptr", "np":
		return (*uint64)(nil)
	case "iface":
		return IV{}
	case "long":
		return LV("")
	case "esc":
		return EV("")
	case "agg":
		return AV{}
	}
	panic("bad val kind")
}
