package main

import (
	"fmt"
	"math/rand"
	"sort"
	"strings"
)

// genVersionsCase builds several persisted versions (ancestors / descendants, siblings,
// unrelated trees, different heights, empty versions), reloads each from its root and applies
// `op` to ordered pairs of the reloaded, unmodified trees.
func genVersionsCase(r *rand.Rand, cfg Cfg, op string, big bool) Case {
	if op != "difflinks" || r.Intn(2) == 0 {
		// (read counts need a store without cache; node diffs also run through a shared cache: the
		// versions are then reloaded, modified and persisted through the cache they are diffed through)
		cfg = noCache(cfg)
	}
	us := 4 + r.Intn(70)
	if big {
		us = 150 + r.Intn(250)
	}
	uni := Universe(r, cfg, us)
	ops := []string{"new 0"}
	live := map[uint64]uint64{}
	nroot := 0
	mutate := func(n int) {
		for i := 0; i < n; i++ {
			if len(live) > 0 && r.Intn(3) == 0 {
				var ks []uint64
				for _, u := range uni {
					if _, ok := live[u]; ok {
						ks = append(ks, u)
					}
				}
				k := pick(r, ks)
				ops = append(ops, opDel(0, k, live[k]))
				delete(live, k)
			} else {
				k, v := pick(r, uni), uint64(r.Intn(3))
				live[k] = v
				ops = append(ops, opIns(0, k, v))
			}
		}
	}
	if r.Intn(8) == 0 {
		ops = append(ops, "root 0 0") // an empty version
		nroot++
	}
	first := r.Intn(len(uni))
	if big {
		first = len(uni) * 3 / 4
	}
	mutate(first + 1)
	ops = append(ops, fmt.Sprintf("root 0 %d", nroot))
	nroot++
	if cfg.Cache != "none" && r.Intn(2) == 0 {
		// go on in "another process": a cold cache, the version reloaded through it (its nodes now
		// enter the cache decoded from the store) and modified from there
		ops = append(ops, "coldcache", fmt.Sprintf("load %d 0", nroot-1))
	}
	nv := 1 + r.Intn(4)
	for v := 0; v < nv; v++ {
		switch {
		case (r.Intn(6) == 0 || (cfg.Cache != "none" && r.Intn(2) == 0)) && !big: // unrelated / sibling: restart from an earlier root or from scratch
			if r.Intn(2) == 0 {
				ops = append(ops, "new 0")
				live = map[uint64]uint64{}
				mutate(r.Intn(40))
			} else {
				// sibling: reload an earlier version and diverge (contents unknown to the generator
				// are tracked by the session oracle, the generator only needs keys)
				ops = append(ops, fmt.Sprintf("load %d 0", r.Intn(nroot)))
				live = map[uint64]uint64{}
				mutate(1 + r.Intn(10))
			}
		case r.Intn(8) == 0: // delete down to empty
			for _, u := range uni {
				if v, ok := live[u]; ok {
					ops = append(ops, opDel(0, u, v))
					delete(live, u)
				}
			}
		default:
			n := 1 + r.Intn(4)
			if r.Intn(5) == 0 {
				n = r.Intn(40)
			}
			mutate(n)
		}
		ops = append(ops, fmt.Sprintf("root 0 %d", nroot))
		nroot++
	}
	for i := 0; i < 2+r.Intn(5); i++ {
		a, b := r.Intn(nroot), r.Intn(nroot)
		if a == b && r.Intn(4) != 0 {
			continue
		}
		ld := "load"
		if (op == "difflinks" || op == "diff" || op == "diffloads") && r.Intn(3) == 0 {
			ld = "isoload" // each version on a store of its own that holds only its nodes
		}
		ops = append(ops, fmt.Sprintf("%s %d 1", ld, a), fmt.Sprintf("%s %d 2", ld, b))
		if ld == "load" && r.Intn(4) == 0 {
			// one side is a clone of the loaded version that was persisted again, unmodified (still
			// the same version, held through another tree object)
			ops = append(ops, "clone 1 3", fmt.Sprintf("root 3 %d", nroot), fmt.Sprintf("%s 3 2", op), fmt.Sprintf("%s 2 3", op))
			nroot++
		}
		ops = append(ops, fmt.Sprintf("%s 1 2", op))
		if op == "difflinks" && r.Intn(3) == 0 {
			// the same diff with a link callback that stops it, or fails, after a few events
			ops = append(ops, fmt.Sprintf("%s 1 2 %d", pick(r, []string{"difflinksstop", "difflinkserr"}), r.Intn(6)))
		}
	}
	return Case{cfg, ops}
}

func famDiffLinks(f *FamCtx) {
	f.Report.Rule = "2-6 persisted versions per case (ancestor/descendant chains with 1-4 or up to 40 changes, siblings, unrelated trees, different heights, empty and emptied versions), each reloaded from its root; DiffLinks on ordered pairs: reported names compared with the model's literal diffOne + alreadyNotified, with the reachable sets decoded from the store (complete / within / once), a replica store holding old + added nodes must load and fully iterate the new version; a link callback that stops or fails after j events must see exactly the first events and have its error returned; one case in five: every Load position of every DiffLinks fails once (an error, or else the complete answer); non-trivial = reached height >= 1 and changed height"
	f.Gen = func() Case { return genVersionsCase(f.Rand, RandCfg(f.Rand), "difflinks", false) }
	n := f.N(250, 10000)
	for i := 0; i < n; i++ {
		if i%11 == 10 {
			// node diffs against a version that is taller than its entries warrant (entry-less top node)
			c := genInterruptedDeleteCase(f.Rand, RandCfg(f.Rand))
			c.Ops = append(c.Ops, "load 0 2", "load 1 4", "difflinks 2 4", "difflinks 4 2", "load 5 6", "difflinks 4 6")
			f.RunTreeCase(c, faultRunner, multiLevel)
			continue
		}
		if i%5 == 4 {
			// the same node diffs on a store whose k-th Load fails once, for every k: DiffLinks either
			// returns the error, or — when a retry inside it succeeded — the complete answer
			c := genVersionsCase(f.Rand, RandCfg(f.Rand), "difflinks", false)
			var ops []string
			for _, op := range c.Ops {
				switch {
				case strings.HasPrefix(op, "isoload "):
					ops = append(ops, "load "+strings.TrimPrefix(op, "isoload "))
				case strings.HasPrefix(op, "difflinks "):
					ops = append(ops, "faultall load "+op)
				case strings.HasPrefix(op, "difflinksstop "), strings.HasPrefix(op, "difflinkserr "):
				default:
					ops = append(ops, op)
				}
			}
			c.Ops = ops
			// after a swallowed failure the SET of reported names is what is compared
			fr := faultRunner
			fr.Norm = func(line, obs string) string {
				if !strings.HasPrefix(line, "faultall load difflinks ") || strings.HasPrefix(obs, "err") {
					return obs
				}
				evs := strings.Fields(obs)
				sort.Strings(evs)
				var out []string
				for i, e := range evs {
					if i == 0 || evs[i-1] != e {
						out = append(out, e)
					}
				}
				return strings.Join(out, " ")
			}
			f.RunTreeCase(c, fr, multiLevel)
			continue
		}
		f.RunTreeCase(f.Gen(), exactRunner, multiLevel)
	}
}

// genSpineCase: the shape on which the recorded traversal is known to exceed 2*D+2: a key of
// the top layer inserted to the left of an unchanged subtree whose left spine is h levels deep.
func genSpineCase(r *rand.Rand, h int) Case {
	cfg := Cfg{BF: 2, Fmt: pick(r, []string{"bin", "json"}), KK: "vk", VKind: "u64", Cache: "none"}
	vk := func(id, layer int) uint64 { return uint64(id)<<8 | uint64(layer) }
	var ops []string
	ops = append(ops, "new 0")
	var keys []uint64
	keys = append(keys, vk(100000, h)) // R, top layer
	for l := h - 1; l >= 0; l-- {      // left spine of the subtree left of R
		keys = append(keys, vk(1000+100*l, l))
	}
	for i := 0; len(keys) < (1<<uint(h))+1+r.Intn(4); i++ { // filler right of R
		keys = append(keys, vk(200000+i, 0))
	}
	r.Shuffle(len(keys), func(i, j int) { keys[i], keys[j] = keys[j], keys[i] })
	for _, k := range keys {
		ops = append(ops, opIns(0, k, 1))
	}
	ops = append(ops, "root 0 0", opIns(0, vk(10, h), 1), "root 0 1", "load 0 1", "load 1 2", "diffloads 1 2", "diffloads 2 1")
	return Case{cfg, ops}
}

// genGrowPairCase: the version just before and the version just after the insert that makes the
// tree grow by a level (size bf^(h+1) -> bf^(h+1)+1), where every key of the old top node has a
// layer above the old height: all of them move into the new top node and each child of the old top
// node ends up, unchanged, under a new entry-less node.  Everything below those is common to both
// versions and must be skipped; diffed in both directions.
func genGrowPairCase(r *rand.Rand) Case {
	cfg := Cfg{BF: 2, Fmt: pick(r, []string{"bin", "json"}), KK: "vk", VKind: "u64", Cache: "none"}
	vk := func(id, layer int) uint64 { return uint64(id)<<8 | uint64(layer) }
	h := 4 + r.Intn(3)
	span := 1 << uint(h+1)
	m := 2 + r.Intn(2*h-2)
	for (m+1)*h+m > span-2 {
		m--
	}
	ops := []string{"new 0"}
	var keys []uint64
	for j := 1; j <= m; j++ {
		keys = append(keys, vk(j*1000, h+1+r.Intn(2)))
	}
	for j := 0; j <= m; j++ {
		for l := 0; l < h; l++ {
			keys = append(keys, vk(j*1000+1+(1<<uint(l)), l))
		}
	}
	for i := 0; len(keys) < span; i++ {
		keys = append(keys, vk((i%(m+1))*1000+200+2*(i/(m+1)), 0))
	}
	for _, k := range keys {
		ops = append(ops, opIns(0, k, 1))
	}
	ops = append(ops, "root 0 0", opIns(0, vk((m+1)*1000, h+1), 1), "root 0 1", "load 0 1", "load 1 2", "diffloads 1 2", "diffloads 2 1")
	return Case{cfg, ops}
}

func famDiffCost(f *FamCtx) {
	f.Sig = func(o Outcome) string {
		if o.Kind == "oracle" && strings.Contains(o.Viol, "bound 2*D+2") && o.ModelAgrees {
			return "bound-2D+2-exceeded-by-the-recorded-traversal:link-facing-an-entry-is-opened@diff.go:204-228"
		}
		return ""
	}
	for h := 5; h <= 6; h++ {
		f.RunTreeCase(genSpineCase(f.Rand, h), exactRunner, multiLevel)
	}
	for i := 0; i < f.N(4, 60); i++ {
		f.RunTreeCase(genGrowPairCase(f.Rand), exactRunner, multiLevel)
	}
	f.Report.Rule = "as difflinks, plus large trees (150-400 keys) differing in a few keys; DiffIter on ordered pairs of reloaded versions over a store without cache: the set of names passed to Persist.Load compared with the model's load trace (diffOne + alreadyNotified), with 'same version reads nothing' and with the 2*D+2 bound; non-trivial = reached height >= 1 and changed height"
	f.Gen = func() Case { return genVersionsCase(f.Rand, RandCfg(f.Rand), "diffloads", f.Rand.Intn(3) == 0) }
	n := f.N(250, 10000)
	for i := 0; i < n; i++ {
		if i%11 == 10 {
			c := genInterruptedDeleteCase(f.Rand, RandCfg(f.Rand))
			c.Ops = append(c.Ops, "load 0 2", "load 1 4", "diffloads 2 4", "diffloads 4 2", "load 5 6", "diffloads 4 6")
			f.RunTreeCase(c, faultRunner, multiLevel)
			continue
		}
		f.RunTreeCase(f.Gen(), exactRunner, multiLevel)
	}
}
