#!/bin/bash
# seed_eval.sh <seed-name> <property-id> <agent-out-dir> [checks...]
# 1. confirm the seeded change in a fresh scratch worktree of /repo (suite passes with it, the
#    demonstration fails with it and passes without it);
# 2. keep it under /verif/seeded/<seed-name>/;
# 3. apply it to /repo, run the given checks (default: the property's own), undo.
set -u
name=$1; pid=$2; out=$3; shift 3
checks=${*:-$pid}
PATCH_FILE=${PATCH_FILE:-patch.diff}; DEMO_FILE=${DEMO_FILE:-demo_test.go}; DEMO_PKG=${DEMO_PKG:-.}; RACE=${RACE:-}
export GOFLAGS=-mod=mod GOPROXY=off GOSUMDB=off GOTOOLCHAIN=local
W=$(mktemp -d /tmp/seedeval.XXXX)
git -C /repo worktree add --detach $W/repo HEAD >/dev/null 2>&1
res_suite=fail; res_demo_with=unknown; res_demo_without=unknown
cd $W/repo
cp $out/$DEMO_FILE $DEMO_PKG/zz_demo_test.go
if CGO_ENABLED=1 go test $RACE -vet=off -count=1 -run TestSeedDemo ./$DEMO_PKG >$W/without.log 2>&1; then res_demo_without=pass; else res_demo_without=FAIL; fi
rm $DEMO_PKG/zz_demo_test.go
if git apply $out/$PATCH_FILE; then
  if go test -vet=off -count=1 ./... >$W/suite.log 2>&1; then res_suite=pass; else res_suite=FAIL; fi
  cp $out/$DEMO_FILE $DEMO_PKG/zz_demo_test.go
  if CGO_ENABLED=1 go test $RACE -vet=off -count=1 -run TestSeedDemo ./$DEMO_PKG >$W/with.log 2>&1; then res_demo_with=PASS-unexpected; else res_demo_with=fails; fi
  rm $DEMO_PKG/zz_demo_test.go
else
  res_suite=patch-does-not-apply
fi
cd /
git -C /repo worktree remove --force $W/repo
echo "confirm: suite_with_change=$res_suite demo_with_change=$res_demo_with demo_without_change=$res_demo_without"
mkdir -p /verif/seeded/$name
cp $out/$PATCH_FILE /verif/seeded/$name/patch.diff; cp $out/$DEMO_FILE /verif/seeded/$name/demo_test.go; echo "demo package dir: $DEMO_PKG ${RACE}" > /verif/seeded/$name/demo_where.txt
[ -f $out/notes.md ] && cp $out/notes.md /verif/seeded/$name/notes.md
detected=""
if [ "$res_suite" = pass ] && [ "$res_demo_with" = fails ] && [ "$res_demo_without" = pass ]; then
  git -C /repo apply $out/$PATCH_FILE
  for c in $checks; do
    (cd /verif && VERIF_EVIDENCE_DIR=$W/evidence ./check $c quick >$W/check-$c.log 2>&1; echo "check $c exit=$? : $(grep -c '^VIOLATION' $W/check-$c.log) violation lines; $(grep '^VIOLATION' $W/check-$c.log | head -2 | tr '\n' ' ')")
    if grep -q '^VIOLATION' $W/check-$c.log; then detected="$detected $c"; cp $(grep '^VIOLATION' $W/check-$c.log | head -1 | sed 's/.*replay=\([^ ]*\).*/\1/') /verif/seeded/$name/replay-$c.json 2>/dev/null; fi
  done
  git -C /repo checkout -- .
  git -C /repo status --short | head -3
fi
echo "detected_by:$detected"
rm -rf $W
