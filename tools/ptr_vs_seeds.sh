#!/bin/bash
# ptr_vs_seeds.sh <seed dirs...>: apply each seeded patch to /repo, run only the `ptr` family, undo.
export GOFLAGS=-mod=mod GOPROXY=off GOSUMDB=off GOTOOLCHAIN=local
cd /verif/harness
for d in "$@"; do
  n=$(basename $d)
  if ! git -C /repo apply $d/patch.diff 2>/dev/null; then echo "$n: patch does not apply"; continue; fi
  if go build -tags verif -o /tmp/vh-ptr . 2>/tmp/ptrbuild.log; then
    res=""
    for s in 1 2; do
      VERIF_DIR=/verif timeout 600 /tmp/vh-ptr -family ptr -seed $s -tier quick -out /tmp/ptr-seed.json >/dev/null 2>&1; rc=$?
      res="$res seed$s:exit=$rc"
      if [ $rc -ne 0 ]; then break; fi
    done
    echo "$n:$res $(python3 -c "
import json
try:
  r=json.load(open('/tmp/ptr-seed.json')); f=(r.get('findings') or [])
  print(len(f),'findings', (f[0]['outcome'].get('line','')+' | '+json.dumps(f[0]['shrunk']['ops'])[:300]) if f else '')
except Exception as e: print('no report',e)
")"
  else
    echo "$n: harness does not build"
  fi
  git -C /repo checkout -- .
done
rm -f /tmp/vh-ptr /tmp/ptr-seed.json
