#!/usr/bin/env python3
"""Rewrite the level_claimed texts / notes of MANIFEST.json from one place."""
import json, os
V = os.path.dirname(os.path.dirname(os.path.abspath(__file__)))
T = {
 "C01": ("FULL. Theorem C01_refines (+ _from_empty, _no_panic_no_error): every history of Insert / Delete / Get / Size / Iter on the functional transcription of lib.go/pub.go (split, insert with growth, delete with merge and shrink) returns what a sorted association list returns, for every layer function, branch factor >= 2 and history length; no call errs or panics. Tie: family `map` runs random histories (8 key kinds incl. struct keys, 5 value kinds incl. pointer and interface values, all bf, both formats, cache modes, clone/persist/reload) through the real code and the compiled model op by op, plus a Go map+sort oracle; corpus of minimized past failures first.",
         "Lean kernel; axioms propext/Classical.choice/Quot.sound; hand-written model tied by correspondence on generated histories; encoding/json and reflect.DeepEqual are modelled as equality of the modelled value kinds."),
 "C04": ("FULL. Theorems C04_histories (two histories with equal final contents and equal bf give equal root records), C04_height_rule (the height after every history is the canonical function of size and bf), C04_canonical_tree (the tree equals the reference builder's tree up to residency), C04_unique_shape, C04_same_contents_same_root. Tie: family `canon` compares the roots of 2-3 different histories with each other and with the root of the Lean reference builder (real BLAKE2b names); `thresholds` read through the verif hook.",
         "Equal root NAMES additionally use the encoder being a function of contents (C08); BLAKE2b itself is compared, not verified."),
 "C05": ("Theorems: flush keeps entries, size, height, bf, thresholds (C05_flush_keeps_*); the root record names the top node; C05_binary_roundtrip (decode(encode n) = n for the compact binary format under its real side conditions: non-empty bodies, lengths < 128^9); C05_reload_behaves_the_same (a tree reloaded from its root answers every later history like the original); names independent of residency. Tie: families `persist`, `map`: every stored byte string equals the model's encoder output, reload goes through a JSON round-trip of the Root, contents/size/height compared after every cycle, both formats, all key/value kinds.",
         "v1marshaler DECODING (encoding/json) is not modelled: for that format the round trip is correspondence only."),
 "C08": ("Theorems: every stored pair is (hash(bytes), bytes); bytes and name are a function of entries and child names only; C08_encoder_injective (binary format) and C08_same_root_name_same_contents (equal names => equal contents, under the explicit no-collision hypothesis on the hash). Tie: families `persist`/`format` recompute every stored name with the model's own BLAKE2b-256+base64url and every byte string with encBin/encJson; frozen vectors from the pinned release.",
         "minio/blake2b-simd is compared with the Lean implementation, not verified; collision resistance is a hypothesis (NoCollision), not a theorem."),
 "C09": ("FULL. Theorems C09_shape_every_history (after every history: layer discipline WF at the recorded height, strictly ascending entries, size = number of entries), C09_shape_preserved (one-step), C09_persisted_shape (what MakeRoot persists and what it returns), C09_split_shape, C09_shape_ignores_residency. Tie: family `persist` decodes every stored node with the harness's own decoders and evaluates the C09 invariants on the implementation after every MakeRoot, and compares the decoded graph with the model.",
         "Lean kernel; hand-written model tied by correspondence."),
 "C10": ("FULL. Theorem C10_walk (+ _every_history, _no_root): a cursor placed by Min, Max or Ceil (any probe) and moved by ANY list of Forward/Backward steps in any order reads exactly what index arithmetic on the sorted entry list gives; off either end = 'no entry', absorbing; on every well-formed tree incl. both empty forms (no panic: total functions following the repaired Go code). C10_seekIter_spec / _stop: SeekIter yields exactly the entries >= probe, ascending, each once, and a stopping callback sees a prefix. Tie: family `cursor`: random walks (Min/Max/Ceil placement, up to 50 steps with direction changes, SeekIter with stops) on sparse multi-level, empty and emptied trees vs the literal model and an index into the sorted Go map.",
         "Lean kernel; literal cursor transcription tied by correspondence."),
 "C12": ("PARTIAL. Theorem C12_allocations_invisible: a run of allocations only (what a repaired operation has done when it returns its error) changes no observable contents. Tie: family `faults` fails the i-th Load / KeyCompare / Marshal callback of every operation (struct keys route order and layer through Marshal), re-reads contents, size, height, retries. Two known findings (known_findings.txt): Delete's height reduction and Insert's growth run after the change is installed; their witnesses are replayed first on every run.",
         "panics on a failing comparison (validateNode) end a case."),
 "C16": ("FULL on the model: C16_get (<= h+1), C16_insert (<= h+1), C16_delete (<= 2(h+1)), C16_open_clone (<= 1) on the load-trace model, and C16_every_history (the bounds hold on the tree reached by every history, via the proved shape invariant). Tie: family `reads` compares the multiset of names passed to Persist.Load by every call with the model's trace.",
         "Lean kernel; load-trace transcription tied by correspondence."),
}
m = json.load(open(os.path.join(V, "MANIFEST.json")))
for c in m["checks"]:
    t = T.get(c["property_id"])
    if t:
        c["level_claimed"]["text"] = t[0]
        c["level_note"] = t[1]
m["notes"] = ("Every check: lake build + lean on Props/<ID>.lean (#print axioms audited, forbidden constructs grepped), harness rebuilt from /repo's working tree with -tags verif, "
  "families run with VERIF_SEED (corpus/<family>/*.json first), evidence written, replays under /verif/replays. known_findings.txt lists the recorded findings "
  "(C12 Delete/shrink, C12 Insert/grow, C15 bound) and the fix: commits; seeded/ holds the confirmed breaking changes used to validate detection.")
json.dump(m, open(os.path.join(V, "MANIFEST.json"), "w"), indent=1)
