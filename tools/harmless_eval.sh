#!/bin/bash
# harmless_eval.sh <name> <patch> : apply a behaviour-preserving patch to /repo, run every quick
# check, list the alarms and whether each one carries a failing input; undo.
name=$1; patch=$2
git -C /repo apply $patch || exit 1
out=/tmp/harmless-$name; rm -rf $out; mkdir -p $out
for id in C01 C02 C03 C04 C05 C06 C07 C08 C09 C10 C11 C12 C13 C14 C15 C16 C17 C18 C19; do
  (cd /verif && VERIF_EVIDENCE_DIR=$out/ev ./check $id quick > $out/$id.log 2>&1)
  n=$(grep -c '^VIOLATION' $out/$id.log)
  nf=$(grep '^VIOLATION' $out/$id.log | grep -vc 'no-failing-input-found')
  echo "$id: $(tail -1 $out/$id.log) | alarms=$n with-failing-input=$nf"
  for r in $(grep '^VIOLATION' $out/$id.log | sed 's/.*replay=\([^ ]*\).*/\1/'); do cp $r $out/ 2>/dev/null; done
done
git -C /repo checkout -- .
git -C /repo status --short
