#!/usr/bin/env python3
"""seed_record.py <spec.json> — write meta.json, the corpus entry and the INDEX.md row of evaluated seeds.
spec: list of {seed, property, needs, caught_by, history, checks:[..], race:bool}"""
import json, os, sys
specs = json.load(open(sys.argv[1]))
rows = []
for sp in specs:
    s, p = sp['seed'], sp['property']
    d = f'/verif/seeded/{s}'
    checks = sp['checks']
    meta = {"seed": s, "property": p, "needs_to_manifest": sp['needs'], "caught_by": sp['caught_by'],
            "what_was_run": [
                f"tools/seed_eval.sh {s} {p} <agent out dir> {' '.join(checks)} (scratch worktree: go test ./... with patch = pass; TestSeedDemo with patch = fail; without = pass)",
                "git -C /repo apply patch.diff; " + "; ".join(f"./check {c} quick" for c in checks) + "; git -C /repo checkout -- ."],
            "demo_location": open(f'{d}/demo_where.txt').read().strip(), "history": sp['history']}
    json.dump(meta, open(f'{d}/meta.json', 'w'), indent=1)
    for c in checks:
        rp = f'{d}/replay-{c}.json'
        if not os.path.exists(rp):
            continue
        r = json.load(open(rp))
        if not r.get('failing_input', True) or 'shrunk' not in r or not r['shrunk']:
            continue
        fam = r.get('family')
        if not fam:
            continue
        if fam == 'format':
            continue
        os.makedirs(f'/verif/corpus/{fam}', exist_ok=True)
        json.dump({"origin": f"seeded/{s}/replay-{c}.json", "cfg": r['shrunk']['cfg'], "ops": r['shrunk']['ops']},
                  open(f'/verif/corpus/{fam}/{s}-{c}.json', 'w'), indent=1)
    rows.append(f"| {s} | {p} | {sp['needs']} | {sp['caught_by']} |")
open('/verif/seeded/INDEX.md', 'a').write("\n".join(rows) + "\n")
print(len(rows), "recorded")
