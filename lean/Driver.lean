import Mastverif.Model.Tree
import Mastverif.Model.Codec
import Mastverif.Model.Store
import Mastverif.Model.Canon
import Mastverif.Model.Diff
import Mastverif.Model.Cursor
import Mastverif.Model.Loads
import Mastverif.Model.Loader
import Mastverif.Model.Backends
import Mastverif.Model.Flush
import Mastverif.Model.Heap
import Std.Data.HashMap
import Mastverif.Model.PtrDriver
/-!
# Line-protocol driver for the executable models (compiled as `mastmodel`)

One request per line on stdin, one response line on stdout (flushed).  The Go harness runs
the same operation on the real implementation and compares its canonicalised observation
with the response.  See `harness/README.md` for the protocol.
-/
open Mast Mast.T

structure Cfg where
  bf : Nat := 16
  fmt : Fmt := .bin
  kk : KeyKind := .vk
  vk : ValKind := .u64
  deriving Inhabited

structure St where
  cfg : Cfg := {}
  trees : Std.HashMap Nat Tree := {}
  roots : Std.HashMap Nat RootRec := {}
  /-- persisted versions by name: the subtree value (all links names) -/
  nodes : Std.HashMap String T := {}
  bytes : Std.HashMap String Bytes := {}
  cursors : Std.HashMap Nat Path := {}
  kv : Std.HashMap String KV.Store := {}
  heap : Heap.Heap := []
  /-- the object-level model (`pmode`) -/
  p : PSt := {}

def hexDigit (n : Nat) : Char := if n < 10 then Char.ofNat (48 + n) else Char.ofNat (87 + n)
def hex (b : Bytes) : String :=
  String.ofList (b.foldr (fun x acc => hexDigit (x.toNat / 16) :: hexDigit (x.toNat % 16) :: acc) [])
def bstr (b : Bytes) : String := String.ofList (b.map fun x => Char.ofNat x.toNat)

def unhexL : List Char → Bytes
  | a :: b :: rest =>
      let d (c : Char) : Nat := if c.toNat ≥ 97 then c.toNat - 87 else c.toNat - 48
      (d a * 16 + d b).toUInt8 :: unhexL rest
  | _ => []
def unhexS (s : String) : Bytes := unhexL s.toList

def St.enc (s : St) : Enc := stdEnc s.cfg.fmt s.cfg.kk s.cfg.vk
def St.layer (s : St) : Key → Nat := layerOf s.cfg.kk s.cfg.bf

def showList (l : List (Key × Val)) : String :=
  ",".intercalate (l.map fun (k, v) => s!"{k}={v}")

/-- canonical shape dump: `[c k=v c k=v c]`, nil link `-`, persisted link prefixed `*` -/
partial def shape : T → String
  | .nil => "-"
  | t => "[" ++ go t ++ "]"
where
  go : T → String
    | .nil => "?"
    | .last p c => (if p && !c.isNil then "*" else "") ++ shape c
    | .cons p c k v r => (if p && !c.isNil then "*" else "") ++ shape c ++ s!" {k}={v} " ++ go r

/-- register every node of a persisted tree under its name -/
partial def register (e : Enc) (t : T) (nodes : Std.HashMap String T) (bytes : Std.HashMap String Bytes) :
    Std.HashMap String T × Std.HashMap String Bytes :=
  let rec children : T → Std.HashMap String T × Std.HashMap String Bytes → Std.HashMap String T × Std.HashMap String Bytes
    | .nil, acc => acc
    | .last _ c, acc => if c.isNil then acc else register e c acc.1 acc.2
    | .cons _ c _ _ r, acc => children r (if c.isNil then acc else register e c acc.1 acc.2)
  let nm := bstr (nodeName e t)
  if nodes.contains nm then (nodes, bytes)
  else children t (nodes.insert nm t, bytes.insert nm (nodeBytes e t))

def parseFmt : String → Option Fmt
  | "bin" => some .bin | "json" => some .json | _ => none
def parseKK : String → Option KeyKind
  | "vk" => some .vk | "u64" => some .u64 | "i64" => some .i64 | "i64w" => some .i64w | "str" => some .str
  | "bytes" => some .bytes | "int" => some .int | "uint" => some .uint | "sk" => some .sk | "skc" => some .skc | "strx" => some .strx | _ => none
def parseVK : String → Option ValKind
  | "u64" => some .u64 | "bytes" => some .bytes | "str" => some .str
  | "ptr" => some .ptr | "iface" => some .iface | "long" => some .long | "nb" => some .nb | "esc" => some .esc | "np" => some .np | "agg" => some .agg | _ => none

partial def step (s : St) (line : String) : St × String :=
  let toks := (line.trimAscii.toString.splitOn " ").filter (· ≠ "")
  let nat (x : String) : Option Nat := x.toNat?
  match toks with
  | ["cfg", bf, fmt, kk, vk] =>
      match nat bf, parseFmt fmt, parseKK kk, parseVK vk with
      | some bf, some fmt, some kk, some vk =>
          ({ cfg := { bf, fmt, kk, vk } }, "ok")
      | _, _, _, _ => (s, "bad-op")
  | ["new", slot] =>
      match nat slot with
      | some i => ({ s with trees := s.trees.insert i (Tree.empty s.cfg.bf) }, "ok")
      | none => (s, "bad-op")
  | ["ins", slot, k, v] =>
      match nat slot, nat k, nat v with
      | some i, some k, some v =>
          match s.trees[i]? with
          | none => (s, "bad-slot")
          | some m =>
              match Tree.insert s.layer m k v with
              | .ok m' => ({ s with trees := s.trees.insert i m' }, s!"ok {m'.size} {m'.height}")
              | .err e => (s, s!"err {e}")
              | .panic e => (s, s!"panic {e}")
      | _, _, _ => (s, "bad-op")
  | ["del", slot, k, v] =>
      match nat slot, nat k, nat v with
      | some i, some k, some v =>
          match s.trees[i]? with
          | none => (s, "bad-slot")
          | some m =>
              match Tree.delete s.layer m k v with
              | .ok m' => ({ s with trees := s.trees.insert i m' }, s!"ok {m'.size} {m'.height}")
              | .err e => (s, s!"err {e}")
              | .panic e => (s, s!"panic {e}")
      | _, _, _ => (s, "bad-op")
  | ["delns", slot, k, v, steps] =>
      -- a Delete interrupted in its height reduction after `steps` completed shrink() calls
      match nat slot, nat k, nat v, nat steps with
      | some i, some k, some v, some n =>
          match s.trees[i]? with
          | none => (s, "bad-slot")
          | some m =>
              match Tree.deleteInterrupted s.layer m k v n with
              | .ok m' => ({ s with trees := s.trees.insert i m' }, s!"kf-del {m'.size} {m'.height}")
              | .err e => (s, s!"err {e}")
              | .panic e => (s, s!"panic {e}")
      | _, _, _, _ => (s, "bad-op")
  | ["get", slot, k] =>
      match nat slot, nat k with
      | some i, some k =>
          match s.trees[i]? with
          | none => (s, "bad-slot")
          | some m =>
              match Tree.lookup s.layer m k with
              | some v => (s, s!"some {v}")
              | none => (s, "none")
      | _, _ => (s, "bad-op")
  | ["iter", slot] =>
      match nat slot >>= (s.trees[·]?) with
      | some m => (s, "[" ++ showList m.toList ++ "]")
      | none => (s, "bad-slot")
  | ["iterstop", slot, j] =>
      match nat slot >>= (s.trees[·]?), nat j with
      | some m, some j =>
          let seen := m.toList.take (j + 1)
          (s, (if m.toList.length > j then "cberr" else "ok") ++ " [" ++ showList seen ++ "]")
      | _, _ => (s, "bad-slot")
  | ["iterdone", slot, j] =>
      match nat slot >>= (s.trees[·]?), nat j with
      | some m, some j => (s, "[" ++ showList (m.toList.take j) ++ "]")
      | _, _ => (s, "bad-slot")
  | ["getnil", slot, k] =>
      match nat slot >>= (s.trees[·]?), nat k with
      | some m, some k => (s, if (Tree.lookup s.layer m k).isSome then "true" else "false")
      | _, _ => (s, "bad-slot")
  | ["stat", slot] =>
      match nat slot >>= (s.trees[·]?) with
      | some m => (s, s!"{m.size} {m.height} {m.dirty}")
      | none => (s, "bad-slot")
  | ["thresholds", slot] =>
      match nat slot >>= (s.trees[·]?) with
      | some m => (s, s!"{m.growAfter} {m.shrinkBelow}")
      | none => (s, "bad-slot")
  | ["shape", slot] =>
      match nat slot >>= (s.trees[·]?) with
      | some m => (s, (if m.rootP then "*" else "") ++ shape m.root)
      | none => (s, "bad-slot")
  | ["clone", src, dst] =>
      match nat src >>= (s.trees[·]?), nat dst with
      -- `Clone` loads the top node and keeps the pointer (pub.go:684-698)
      | some m, some j => ({ s with trees := s.trees.insert j { m with rootP := false } }, "ok")
      | _, _ => (s, "bad-slot")
  | [cmd@"root", slot, rslot] | [cmd@"roots", slot, rslot] =>
      match nat slot, nat rslot with
      | some i, some j =>
          match s.trees[i]? with
          | none => (s, "bad-slot")
          | some m =>
              let (stores, r, m') := Tree.makeRoot s.enc m
              let (nodes, bytes) :=
                if Tree.isEmptyTop m'.root then (s.nodes, s.bytes) else register s.enc m'.root s.nodes s.bytes
              let sorted := (stores.map fun (n, b) => bstr n ++ ":" ++ hex b).toArray.qsort (· < ·) |>.toList
              let linkS := match r.link with | some l => bstr l | none => "-"
              ({ s with trees := s.trees.insert i m', roots := s.roots.insert j r, nodes, bytes },
               if cmd == "root" then s!"{linkS} {r.size} {r.height} {r.bf}"
               else s!"{linkS} {r.size} {r.height} {r.bf} ;" ++ " ".intercalate sorted)
      | _, _ => (s, "bad-op")
  | ["load", rslot, slot] =>
      match nat rslot >>= (s.roots[·]?), nat slot with
      | some r, some i =>
          let root : Option (T × Bool) :=
            match r.link with
            | none => some (T.last false T.nil, false)
            | some l => (s.nodes[bstr l]?).map fun t => (t, true)
          match root with
          | none => (s, "err missing")
          | some (t, p) =>
              let m : Tree := { root := t, rootP := p, dirty := false, size := r.size, height := r.height,
                                bf := r.bf, shrinkBelow := r.bf ^ r.height, growAfter := r.bf ^ (r.height + 1) }
              ({ s with trees := s.trees.insert i m }, "ok")
      | _, _ => (s, "bad-slot")
  | ["pshape", rslot] =>
      match nat rslot >>= (s.roots[·]?) with
      | some r =>
          match r.link with
          | none => (s, "[-]")
          | some l => match s.nodes[bstr l]? with
            | some t => (s, "*" ++ shape t)
            | none => (s, "err missing")
      | none => (s, "bad-slot")
  | ["reach", slot] =>
      match nat slot >>= (s.trees[·]?) with
      | some m =>
          let names := ((Tree.reach s.enc m).map bstr).toArray.qsort (· < ·) |>.toList
          (s, " ".intercalate names)
      | none => (s, "bad-slot")
  | "canonroot" :: slot :: ents =>
      if (nat slot >>= (s.trees[·]?)).isNone then (s, "bad-slot") else
      let parsed := ents.map fun e => match e.splitOn "=" with
        | [k, v] => (k.toNat?.getD 0, v.toNat?.getD 0)
        | _ => (0, 0)
      let m := Tree.canon s.cfg.bf s.layer parsed
      let (_, r, _) := Tree.makeRoot s.enc m
      let linkS := match r.link with | some l => bstr l | none => "-"
      (s, s!"{linkS} {r.size} {r.height} {r.bf}")
  | "canonshape" :: _slot :: ents =>
      let parsed := ents.map fun e => match e.splitOn "=" with
        | [k, v] => (k.toNat?.getD 0, v.toNat?.getD 0)
        | _ => (0, 0)
      (s, shape (Tree.canon s.cfg.bf s.layer parsed).root)
  | ["name", hx] =>
      (s, bstr (blakeName (unhexS hx)))
  | [cmd@"diffstop", o, n, j] | [cmd@"differr", o, n, j] =>
      -- the callback sees events 0..j and then stops (returns false / an error)
      let (_, all) := step s s!"diff {o} {n}"
      if all == "bad-slot" || all == "bad-op" then (s, all) else
      let evs := (all.splitOn " ").filter (· ≠ "")
      let j := (nat j).getD 0
      let hit := evs.length > j
      let seen := if hit then evs.take (j + 1) else evs
      let res := if cmd == "differr" && hit then "cberr" else "ok"
      (s, res ++ " " ++ " ".intercalate seen)
  | [cmd@"diff", o, n] | [cmd@"difflinks", o, n] | [cmd@"diffloads", o, n] | [cmd@"diffall", o, n] =>
      match nat n >>= (s.trees[·]?) with
      | none => (s, "bad-slot")
      | some mn =>
          let oldRoot : Option (Option (Bool × T)) :=
            if o == "-" then some none
            else match nat o >>= (s.trees[·]?) with
              | some mo => some (some (mo.rootP, mo.root))
              | none => none
          match oldRoot with
          | none => (s, "bad-slot")
          | some oldRoot =>
              let nameOf := nodeName s.enc
              let fuel := 4 * (Diff.W mn.root + (match oldRoot with | some (_, t) => Diff.W t | none => 0)) + 16
              let (evs, loads) := Diff.run s.layer nameOf fuel (Diff.init oldRoot mn.rootP mn.root)
              let showEv : DEv → String
                | .add k v => s!"+{k}={v}"
                | .rem k v => s!"-{k}={v}"
                | .chg k a b => s!"~{k}={a}>{b}"
                | .addLink nm => "+" ++ bstr nm
                | .remLink nm => "-" ++ bstr nm
              let ents := (evs.filter Diff.isEntryEv).map showEv
              let links := (evs.filter (fun e => !Diff.isEntryEv e)).map showEv
              let distinct := (loads.map bstr).toArray.qsort (· < ·) |>.toList.eraseDups
              if cmd == "diff" then (s, " ".intercalate ents)
              else if cmd == "difflinks" then (s, " ".intercalate links)
              else if cmd == "diffloads" then (s, s!"{distinct.length} " ++ " ".intercalate distinct)
              else (s, " ".intercalate (evs.map showEv))
  | [cmd@"getl", slot, k] | [cmd@"insl", slot, k, _] | [cmd@"dell", slot, k, _] =>
      match nat slot >>= (s.trees[·]?), nat k with
      | some m, some k =>
          let v := match toks with | [_, _, _, v] => (nat v).getD 0 | _ => 0
          let loads : List T :=
            if cmd == "getl" then Tree.lookupLoads s.layer m k
            else if cmd == "insl" then Tree.insertLoads s.layer m k
            else if Tree.lookup s.layer m k == some v then Tree.deleteLoads s.layer m k
            else Tree.lookupLoads s.layer m k
          let names := (loads.map fun t => bstr (nodeName s.enc t)).toArray.qsort (· < ·) |>.toList
          let base := if cmd == "getl" then s!"get {slot} {k}" else if cmd == "insl" then s!"ins {slot} {k} {v}" else s!"del {slot} {k} {v}"
          let (s', r) := step s base
          (s', r ++ " ;" ++ " ".intercalate names)
      | _, _ => (s, "bad-slot")
  | ["loadl", rslot, slot] =>
      let (s', r) := step s s!"load {rslot} {slot}"
      let nm := match nat rslot >>= (s.roots[·]?) with
        | some rr => (match rr.link with | some l => bstr l | none => "")
        | none => ""
      (s', r ++ " ;" ++ nm)
  | ["clonel", src, dst] =>
      let (s', r) := step s s!"clone {src} {dst}"
      let nm := match nat src >>= (s.trees[·]?) with
        | some m => if m.rootP then bstr (nodeName s.enc m.root) else ""
        | none => ""
      (s', r ++ " ;" ++ nm)
  | ["cur", slot, c] =>
      match nat slot >>= (s.trees[·]?), nat c with
      | some m, some c => ({ s with cursors := s.cursors.insert c [(m.root, 0)] }, "ok")
      | _, _ => (s, "bad-slot")
  | [cmd@"cmin", c] | [cmd@"cmax", c] | [cmd@"cfwd", c] | [cmd@"cbwd", c] | [cmd@"cget", c] =>
      match nat c with
      | none => (s, "bad-op")
      | some c =>
        match s.cursors[c]? with
        | none => (s, "bad-slot")
        | some path =>
            let fuel := 100000
            let path' := match cmd with
              | "cmin" => Cursor.min fuel path
              | "cmax" => Cursor.max fuel path
              | "cfwd" => Cursor.forward fuel path
              | "cbwd" => Cursor.backward fuel path
              | _ => path
            let out := match Cursor.get path' with
              | some (k, v) => s!"{k}={v}"
              | none => "none"
            ({ s with cursors := s.cursors.insert c path' }, out)
  | "cl" :: cmd :: c :: more =>
      -- a cursor move together with the names it loads (nodes that join the path through name links)
      let inner := " ".intercalate (cmd :: c :: more)
      let old := (nat c >>= (s.cursors[·]?)).getD []
      let (s', r) := step s inner
      let new := (nat c >>= (s'.cursors[·]?)).getD []
      let loaded := match cmd, more with
        | "cceil", [k] => Cursor.ceilLoads ((nat k).getD 0) 100000 old
        | _, _ => Cursor.newLoads old new
      let names := (loaded.map fun t => bstr (nodeName s.enc t)).toArray.qsort (· < ·) |>.toList
      (s', r ++ " ;" ++ " ".intercalate names)
  | ["decj", hx] =>
      match Json.decJson (unhexS hx) with
      | none => (s, "err")
      | some raw =>
          let part (l : List (Option Bytes)) := "".intercalate (l.map fun o => ":" ++ (match o with | some b => hex b | none => "-"))
          (s, "k" ++ part raw.keys ++ " v" ++ part raw.vals ++ " l" ++ part raw.links)
  | ["cceil", c, k] =>
      match nat c, nat k with
      | some c, some k =>
        match s.cursors[c]? with
        | none => (s, "bad-slot")
        | some path =>
            let path' := Cursor.ceil k 100000 path
            let out := match Cursor.get path' with
              | some (k, v) => s!"{k}={v}"
              | none => "none"
            ({ s with cursors := s.cursors.insert c path' }, out)
      | _, _ => (s, "bad-op")
  | ["seek", slot, k] =>
      match nat slot >>= (s.trees[·]?), nat k with
      | some m, some k => (s, "[" ++ showList (Cursor.seekIter 100000 m.root k) ++ "]")
      | _, _ => (s, "bad-slot")
  | ["seekstop", slot, k, j] =>
      match nat slot >>= (s.trees[·]?), nat k, nat j with
      | some m, some k, some j => (s, "[" ++ showList ((Cursor.seekIter 100000 m.root k).take j) ++ "]")
      | _, _, _ => (s, "bad-slot")
  | ["loadroot", fmt, kk, bf, height, order, link, top] =>
      match parseKK kk, nat bf, nat height with
      | some kk, some bf, some h =>
          let topB : Option Bytes := if top == "missing" then none else if top == "-" then some [] else some (unhexS top)
          let fmtS := if fmt == "-" then "" else fmt
          match Loader.loadMast fmtS kk (layerOf kk bf) h (order == "desc") (link == "1") topB with
          | .ok => (s, "ok")
          | .err _ => (s, "err")
          | .panic _ => (s, "panic")
      | _, _, _ => (s, "bad-op")
  | ["loadrootc", fmt, kk, bf, height, order, link, top, wfmt, wkk] =>
      -- LoadMast through a node cache that a reader configured with (wfmt, wkk, ascending order)
      -- has filled from the same store
      match parseKK kk, parseKK wkk, nat bf, nat height with
      | some kk, some wkk, some bf, some h =>
          let topB : Option Bytes := if top == "missing" then none else if top == "-" then some [] else some (unhexS top)
          let fmtS := if fmt == "-" then "" else fmt
          let dec := if wfmt == "bin" then Codec.decBinRaw else Json.decJson
          let cached := topB.bind (Loader.cacheEntry dec wkk false)
          match Loader.loadMastC fmtS kk (fun kk' => layerOf kk' bf) h (order == "desc") (link == "1") cached topB with
          | .ok => (s, "ok")
          | .err _ => (s, "err")
          | .panic _ => (s, "panic")
      | _, _, _, _ => (s, "bad-op")
  | ["crclayer", bf, hx] =>
      match nat bf with
      | some bf => (s, s!"{uintLayer bf (crc64 (unhexS hx))}")
      | none => (s, "bad-op")
  | ["kverr"] => (s, "err")
  | ["echo", x] => (s, x)
  | ["flushtrace", slot, rslot, pool, exact, evs] =>
      match nat slot, nat rslot, nat pool with
      | some i, some j, some pool =>
          match s.trees[i]? with
          | none => (s, "bad-slot")
          | some m =>
              let (stores, r, m') := Tree.makeRoot s.enc m
              let n := stores.length
              let parsed : List MF.Ev := evs.toList.filterMap fun c =>
                match c with
                | 's' => some .startStore | 'o' => some .endOk | 'e' => some .endErr
                | 'R' => some .retOk | 'X' => some .retErr | _ => none
              match MF.accept n pool (exact == "1") {} parsed with
              | none => (s, s!"reject n={n}")
              | some o =>
                  if !o.returned then (s, "reject no-return")
                  else if parsed.getLast? == some MF.Ev.retOk then
                    let (nodes, bytes) :=
                      if Tree.isEmptyTop m'.root then (s.nodes, s.bytes) else register s.enc m'.root s.nodes s.bytes
                    let linkS := match r.link with | some l => bstr l | none => "-"
                    ({ s with trees := s.trees.insert i m', roots := s.roots.insert j r, nodes, bytes },
                     s!"ok {linkS} {r.size} {r.height} {r.bf} {evs}")
                  else (s, s!"err {evs}")
      | _, _, _ => (s, "bad-op")
  | ["hreset"] => ({ s with heap := [] }, "ok")
  | ["hacts", "-"] => (s, "ok")
  | ["hacts", payload] =>
      -- actions separated by ';', fields by '|': A|owner|shared|dirty|keys|vals|links,
      -- W|actor|addr|shared|dirty|keys|vals|links (owner = actor), P|actor|addr|links
      let nats (x : String) : List Nat := (x.splitOn ",").filterMap (·.toNat?)
      let lnk (x : String) : Heap.HLink :=
        if x.startsWith "p" then Heap.HLink.ptr ((x.drop 1).toString.toNat?.getD 0)
        else if x.startsWith "r" then Heap.HLink.ref ((x.drop 1).toString.toNat?.getD 0)
        else Heap.HLink.nil
      let lnks (x : String) : List Heap.HLink := ((x.splitOn ",").filter (· ≠ "")).map lnk
      let parse (a : String) : Option Heap.Act :=
        match a.splitOn "|" with
        | ["A", o, sh, d, ks, vs, ls] =>
            some (.alloc { keys := nats ks, vals := nats vs, links := lnks ls, dirty := d == "1", shared := sh == "1", owner := o.toNat?.getD 0 })
        | ["W", m, ad, sh, d, ks, vs, ls] =>
            some (.write (m.toNat?.getD 0) (ad.toNat?.getD 0)
              { keys := nats ks, vals := nats vs, links := lnks ls, dirty := d == "1", shared := sh == "1", owner := m.toNat?.getD 0 })
        | ["P", m, ad, ls] => some (.publish (m.toNat?.getD 0) (ad.toNat?.getD 0) (lnks ls))
        | _ => none
      let acts := (payload.splitOn ";").filter (· ≠ "")
      let rec go (h : Heap.Heap) (i : Nat) : List String → Heap.Heap × String
        | [] => (h, "ok")
        | a :: rest =>
            match parse a with
            | none => (h, s!"bad-act {i}")
            | some act =>
                match Heap.applyAct h act with
                | none => (h, s!"guardfail {i} {a}")
                | some h' => go h' (i + 1) rest
      let (h', r) := go s.heap 0 acts
      ({ s with heap := h' }, r)
  | ["cmp", a, b] =>
      match nat a, nat b with
      | some a, some b => (s, if a < b then "-1" else if a = b then "0" else "1")
      | _, _ => (s, "bad-op")
  | ["cmpbytes", a, b] =>
      -- `bytes.Compare` of two marshaled keys (the default order of key types without a case of their own)
      let rec cmpL : Bytes → Bytes → String
        | [], [] => "0"
        | [], _ => "-1"
        | _, [] => "1"
        | x :: xs, y :: ys => if x < y then "-1" else if y < x then "1" else cmpL xs ys
      (s, cmpL (unhexS a) (unhexS b))
  | ["defaults"] => (s, "16 v1.1.5binary")
  | ["kvstore", be, name, hx] =>
      let st := (s.kv[be]?).getD []
      ({ s with kv := s.kv.insert be (KV.store st name (if hx == "-" then [] else unhexS hx)) }, "ok")
  | ["kvload", be, name] =>
      match KV.load ((s.kv[be]?).getD []) name with
      | some b => (s, "ok " ++ (if b.isEmpty then "-" else hex b))
      | none => (s, "err")
  | ["fcrash", len, cut] =>
      match nat len, nat cut with
      | some len, some cut =>
          let bytes : Bytes := (List.range len).map fun i => (i % 251).toUInt8
          let d1 := FS.storeCut [] "node" bytes cut
          let after := match KV.load d1 "node" with
            | some b => if b == bytes then "complete" else "partial"
            | none => "absent"
          let d2 := FS.storeCut d1 "node" bytes (FS.complete "node" bytes)
          let again := match KV.load d2 "node" with
            | some b => if b == bytes then "complete" else "partial"
            | none => "absent"
          (s, s!"{after} {again}")
      | _, _ => (s, "bad-op")
  | ["layer", kk, bf, k] =>
      match parseKK kk, nat bf, nat k with
      | some kk, some bf, some k => (s, s!"{layerOf kk bf k}")
      | _, _, _ => (s, "bad-op")
  | ["keybytes", kk, k] =>
      match parseKK kk, nat k with
      | some kk, some k => (s, hex (Codec.keyBytes kk k))
      | _, _ => (s, "bad-op")
  | ["valbytes", vk, v] =>
      match parseVK vk, nat v with
      | some vk, some v => (s, hex (Codec.valBytes vk v))
      | _, _ => (s, "bad-op")
  | _ => (s, "bad-op")

partial def loop (inp : IO.FS.Stream) (out : IO.FS.Stream) (s : St) : IO Unit := do
  let line ← inp.getLine
  if line.isEmpty then return ()
  let toks := (line.trimAscii.toString.splitOn " ").filter (· ≠ "")
  -- `pnew <slot> <cache>`: switch the object-level model on (once per case), then `new <slot>`
  let (s, line, toks) :=
    match toks with
    | ["pnew", slot, c] =>
      ((if s.p.on then s else { s with p := { on := true, ps := { useCache := c == "1" } } }),
       "new " ++ slot, ["new", slot])
    | "pfail" :: k :: rest =>
      -- the k-th store load of the following operation fails (object-level model only)
      ({ s with p := { s.p with failNext := k.toNat?, faulted := true } }, " ".intercalate rest, rest)
    | _ => (s, line, toks)
  match pcommand s.p toks with
  | some (p', resp) =>
    -- `pgraph` also reports whether the two models denote the same trees
    let resp := if toks == ["pgraph"] then resp ++ " X:" ++ pcross s.p s.trees else resp
    out.putStrLn resp
    out.flush
    loop inp out { s with p := p' }
  | none =>
    let (s', resp) := step s line
    out.putStrLn resp
    out.flush
    let p' := pcheckVal (pmirror s'.enc s'.layer s'.cfg.bf s'.p toks) toks resp
    -- a Forward / Backward that failed at the object level left the cursor where it was
    -- (C10_object_level_failed_move_stays): the functional cursor, which knows no faults, is put back
    let s' := if p'.on && p'.last == "err" && (toks.head? == some "cfwd" || toks.head? == some "cbwd")
      then { s' with cursors := s.cursors } else s'
    loop inp out { s' with p := p' }

def main : IO Unit := do
  loop (← IO.getStdin) (← IO.getStdout) {}
