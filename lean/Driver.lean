import Mastverif.Model.Tree
import Mastverif.Model.Codec
import Mastverif.Model.Store
import Std.Data.HashMap
/-!
# Line-protocol driver for the executable models (compiled as `mastmodel`)

One request per line on stdin, one response line on stdout (flushed).  The Go harness runs
the same operation on the real implementation and compares its canonicalised observation
with the response.  See `harness/README.md` for the protocol.
-/
open Mast Mast.T

structure Cfg where
  bf : Nat := 16
  fmt : Fmt := .bin
  kk : KeyKind := .vk
  vk : ValKind := .u64
  deriving Inhabited

structure St where
  cfg : Cfg := {}
  trees : Std.HashMap Nat Tree := {}
  roots : Std.HashMap Nat RootRec := {}
  /-- persisted versions by name: the subtree value (all links names) -/
  nodes : Std.HashMap String T := {}
  bytes : Std.HashMap String Bytes := {}

def hexDigit (n : Nat) : Char := if n < 10 then Char.ofNat (48 + n) else Char.ofNat (87 + n)
def hex (b : Bytes) : String :=
  String.ofList (b.foldr (fun x acc => hexDigit (x.toNat / 16) :: hexDigit (x.toNat % 16) :: acc) [])
def bstr (b : Bytes) : String := String.ofList (b.map fun x => Char.ofNat x.toNat)

def St.enc (s : St) : Enc := stdEnc s.cfg.fmt s.cfg.kk s.cfg.vk
def St.layer (s : St) : Key → Nat := layerOf s.cfg.kk s.cfg.bf

def showList (l : List (Key × Val)) : String :=
  ",".intercalate (l.map fun (k, v) => s!"{k}={v}")

/-- canonical shape dump: `[c k=v c k=v c]`, nil link `-`, persisted link prefixed `*` -/
partial def shape : T → String
  | .nil => "-"
  | t => "[" ++ go t ++ "]"
where
  go : T → String
    | .nil => "?"
    | .last p c => (if p && !c.isNil then "*" else "") ++ shape c
    | .cons p c k v r => (if p && !c.isNil then "*" else "") ++ shape c ++ s!" {k}={v} " ++ go r

/-- register every node of a persisted tree under its name -/
partial def register (e : Enc) (t : T) (nodes : Std.HashMap String T) (bytes : Std.HashMap String Bytes) :
    Std.HashMap String T × Std.HashMap String Bytes :=
  let rec children : T → Std.HashMap String T × Std.HashMap String Bytes → Std.HashMap String T × Std.HashMap String Bytes
    | .nil, acc => acc
    | .last _ c, acc => if c.isNil then acc else register e c acc.1 acc.2
    | .cons _ c _ _ r, acc => children r (if c.isNil then acc else register e c acc.1 acc.2)
  let nm := bstr (nodeName e t)
  if nodes.contains nm then (nodes, bytes)
  else children t (nodes.insert nm t, bytes.insert nm (nodeBytes e t))

def parseFmt : String → Option Fmt
  | "bin" => some .bin | "json" => some .json | _ => none
def parseKK : String → Option KeyKind
  | "vk" => some .vk | "u64" => some .u64 | "i64" => some .i64 | "str" => some .str
  | "bytes" => some .bytes | _ => none
def parseVK : String → Option ValKind
  | "u64" => some .u64 | "bytes" => some .bytes | "str" => some .str | _ => none

def step (s : St) (line : String) : St × String :=
  let toks := (line.trimAscii.toString.splitOn " ").filter (· ≠ "")
  let nat (x : String) : Option Nat := x.toNat?
  match toks with
  | ["cfg", bf, fmt, kk, vk] =>
      match nat bf, parseFmt fmt, parseKK kk, parseVK vk with
      | some bf, some fmt, some kk, some vk =>
          ({ cfg := { bf, fmt, kk, vk } }, "ok")
      | _, _, _, _ => (s, "bad-op")
  | ["new", slot] =>
      match nat slot with
      | some i => ({ s with trees := s.trees.insert i (Tree.empty s.cfg.bf) }, "ok")
      | none => (s, "bad-op")
  | ["ins", slot, k, v] =>
      match nat slot, nat k, nat v with
      | some i, some k, some v =>
          match s.trees[i]? with
          | none => (s, "bad-slot")
          | some m =>
              match Tree.insert s.layer m k v with
              | .ok m' => ({ s with trees := s.trees.insert i m' }, s!"ok {m'.size} {m'.height}")
              | .err e => (s, s!"err {e}")
              | .panic e => (s, s!"panic {e}")
      | _, _, _ => (s, "bad-op")
  | ["del", slot, k, v] =>
      match nat slot, nat k, nat v with
      | some i, some k, some v =>
          match s.trees[i]? with
          | none => (s, "bad-slot")
          | some m =>
              match Tree.delete s.layer m k v with
              | .ok m' => ({ s with trees := s.trees.insert i m' }, s!"ok {m'.size} {m'.height}")
              | .err e => (s, s!"err {e}")
              | .panic e => (s, s!"panic {e}")
      | _, _, _ => (s, "bad-op")
  | ["get", slot, k] =>
      match nat slot, nat k with
      | some i, some k =>
          match s.trees[i]? with
          | none => (s, "bad-slot")
          | some m =>
              match Tree.lookup s.layer m k with
              | some v => (s, s!"some {v}")
              | none => (s, "none")
      | _, _ => (s, "bad-op")
  | ["iter", slot] =>
      match nat slot >>= (s.trees[·]?) with
      | some m => (s, "[" ++ showList m.toList ++ "]")
      | none => (s, "bad-slot")
  | ["stat", slot] =>
      match nat slot >>= (s.trees[·]?) with
      | some m => (s, s!"{m.size} {m.height} {m.dirty}")
      | none => (s, "bad-slot")
  | ["thresholds", slot] =>
      match nat slot >>= (s.trees[·]?) with
      | some m => (s, s!"{m.growAfter} {m.shrinkBelow}")
      | none => (s, "bad-slot")
  | ["shape", slot] =>
      match nat slot >>= (s.trees[·]?) with
      | some m => (s, (if m.rootP then "*" else "") ++ shape m.root)
      | none => (s, "bad-slot")
  | ["clone", src, dst] =>
      match nat src >>= (s.trees[·]?), nat dst with
      | some m, some j => ({ s with trees := s.trees.insert j m }, "ok")
      | _, _ => (s, "bad-slot")
  | [cmd@"root", slot, rslot] | [cmd@"roots", slot, rslot] =>
      match nat slot, nat rslot with
      | some i, some j =>
          match s.trees[i]? with
          | none => (s, "bad-slot")
          | some m =>
              let (stores, r, m') := Tree.makeRoot s.enc m
              let (nodes, bytes) :=
                if Tree.isEmptyTop m'.root then (s.nodes, s.bytes) else register s.enc m'.root s.nodes s.bytes
              let sorted := (stores.map fun (n, b) => bstr n ++ ":" ++ hex b).toArray.qsort (· < ·) |>.toList
              let linkS := match r.link with | some l => bstr l | none => "-"
              ({ s with trees := s.trees.insert i m', roots := s.roots.insert j r, nodes, bytes },
               if cmd == "root" then s!"{linkS} {r.size} {r.height} {r.bf}"
               else s!"{linkS} {r.size} {r.height} {r.bf} ;" ++ " ".intercalate sorted)
      | _, _ => (s, "bad-op")
  | ["load", rslot, slot] =>
      match nat rslot >>= (s.roots[·]?), nat slot with
      | some r, some i =>
          let root : Option (T × Bool) :=
            match r.link with
            | none => some (T.last false T.nil, false)
            | some l => (s.nodes[bstr l]?).map fun t => (t, true)
          match root with
          | none => (s, "err missing")
          | some (t, p) =>
              let m : Tree := { root := t, rootP := p, dirty := false, size := r.size, height := r.height,
                                bf := r.bf, shrinkBelow := r.bf ^ r.height, growAfter := r.bf ^ (r.height + 1) }
              ({ s with trees := s.trees.insert i m }, "ok")
      | _, _ => (s, "bad-slot")
  | ["reach", slot] =>
      match nat slot >>= (s.trees[·]?) with
      | some m =>
          let names := ((Tree.reach s.enc m).map bstr).toArray.qsort (· < ·) |>.toList
          (s, " ".intercalate names)
      | none => (s, "bad-slot")
  | ["layer", kk, bf, k] =>
      match parseKK kk, nat bf, nat k with
      | some kk, some bf, some k => (s, s!"{layerOf kk bf k}")
      | _, _, _ => (s, "bad-op")
  | ["keybytes", kk, k] =>
      match parseKK kk, nat k with
      | some kk, some k => (s, hex (Codec.keyBytes kk k))
      | _, _ => (s, "bad-op")
  | ["valbytes", vk, v] =>
      match parseVK vk, nat v with
      | some vk, some v => (s, hex (Codec.valBytes vk v))
      | _, _ => (s, "bad-op")
  | _ => (s, "bad-op")

partial def loop (inp : IO.FS.Stream) (out : IO.FS.Stream) (s : St) : IO Unit := do
  let line ← inp.getLine
  if line.isEmpty then return ()
  let (s', resp) := step s line
  out.putStrLn resp
  out.flush
  loop inp out s'

def main : IO Unit := do
  loop (← IO.getStdin) (← IO.getStdout) {}
