import Mastverif.Model.Codec
/-!
# The "v1marshaler" node format: decoding

`encJson` (Model/Codec.lean) is what `json.Marshal(node)` writes.  `decJson` reads that shape
back: `{"Key":[…],"Value":[…]` followed by `}` or `,"Link":[…]}`, the array elements taken as
raw JSON values (`json.RawMessage`): a scanner that tracks nesting depth and string state splits an
array at its top-level commas.  It is a decoder for the *canonical* shape: `encoding/json` itself
accepts more (white space, other member orders, unknown members, letter case); the harness only
feeds it bytes of this shape (well-formed or truncated / altered inside the elements).
-/
namespace Mast
namespace Json

/-- scanner state inside an array: nesting depth below the array, inside a string, after a
    backslash; the element being collected and the finished elements (both reversed) -/
structure Sc where
  depth : Nat
  inStr : Bool
  esc : Bool
  cur : Bytes
  acc : List Bytes
  deriving Repr, DecidableEq

inductive Ev where
  | more (s : Sc)       -- keep scanning
  | done (elems : List Bytes)   -- the closing bracket of the array was consumed
  | bad                 -- a closing brace / bracket that cannot be
  deriving Repr, DecidableEq

/-- finished elements in order; an array with no bytes between the brackets has no element -/
def finish (s : Sc) : List Bytes :=
  if s.cur = [] ∧ s.acc = [] then [] else (s.cur.reverse :: s.acc).reverse

def step (s : Sc) (b : UInt8) : Ev :=
  if s.inStr then
    if s.esc then .more { s with esc := false, cur := b :: s.cur }
    else if b = 92 then .more { s with esc := true, cur := b :: s.cur }
    else if b = 34 then .more { s with inStr := false, cur := b :: s.cur }
    else .more { s with cur := b :: s.cur }
  else if b = 34 then .more { s with inStr := true, cur := b :: s.cur }
  else if b = 91 ∨ b = 123 then .more { s with depth := s.depth + 1, cur := b :: s.cur }
  else if b = 93 ∨ b = 125 then
    if s.depth = 0 then (if b = 93 then .done (finish s) else .bad)
    else .more { s with depth := s.depth - 1, cur := b :: s.cur }
  else if b = 44 ∧ s.depth = 0 then .more { s with cur := [], acc := s.cur.reverse :: s.acc }
  else .more { s with cur := b :: s.cur }

/-- scan the elements of an array whose opening bracket has been consumed; returns the raw
    elements and the bytes after the closing bracket -/
def scan : Sc → Bytes → Option (List Bytes × Bytes)
  | _, [] => none
  | s, b :: rest =>
      match step s b with
      | .more s' => scan s' rest
      | .done elems => some (elems, rest)
      | .bad => none

def scanArray (b : Bytes) : Option (List Bytes × Bytes) :=
  scan { depth := 0, inStr := false, esc := false, cur := [], acc := [] } b

/-- drop a literal prefix -/
def expect (lit : Bytes) (b : Bytes) : Option Bytes :=
  if lit.isPrefixOf b then some (b.drop lit.length) else none

/-- a link element: `null` or a quoted name -/
def linkElem (raw : Bytes) : Option (Option Bytes) :=
  if raw = Codec.litNull then some none
  else match raw with
    | 34 :: rest =>
        match rest.reverse with
        | 34 :: mid => some (some mid.reverse)
        | _ => none
    | _ => none

/-- raw decode of a node in the canonical v1marshaler shape -/
def decJson (b : Bytes) : Option Codec.RawNode :=
  match expect (Codec.litKey ++ [91]) b with
  | none => none
  | some r0 =>
    match scanArray r0 with
    | none => none
    | some (ks, r1) =>
      match expect (Codec.litValue ++ [91]) r1 with
      | none => none
      | some r2 =>
        match scanArray r2 with
        | none => none
        | some (vs, r3) =>
          if r3 = [125] then some (Codec.RawNode.mk (ks.map some) (vs.map some) [])
          else match expect (Codec.litLink ++ [91]) r3 with
            | none => none
            | some r4 =>
              match scanArray r4 with
              | none => none
              | some (ls, r5) =>
                if r5 = [125] then
                  match ls.mapM linkElem with
                  | some links => some (Codec.RawNode.mk (ks.map some) (vs.map some) links)
                  | none => none
                else none

end Json
end Mast
