import Mastverif.Model.Ptr
/-!
# `Cursor` at the level of node objects (pub.go:716-990)

A cursor is a clone of the tree (`Cursor()` calls `Clone`) and a path of `(object, linkIndex)`
pairs; as in `Model/Cursor.lean` the HEAD of the list is the deepest entry (Go appends at the
end).  Every function follows the repaired Go code branch by branch, reads nodes from the heap,
loads children through the cache / store (counted, fallible), and returns the path the Go code
leaves in `c.path` together with a flag "the call returned an error" — a navigation call that
fails part-way returns an error AND leaves a path behind, so the error is a value here (`tryE`),
not the `.err` outcome of the monad.

Deliberate differences from the letter of the code: `Min` / `Max` test `child == node` after
`follow(…, createOk = false)`, which returns the node itself only for a nil link — excluded by the
test just before it; the test is dropped.  `search1` is the linear lower bound `keyIdx` (the Go
code's last-key shortcut and binary search give the same index on a node with ascending keys).
Failing key comparisons are not modelled (family `faults`).
-/
namespace Mast.Ptr
open Mast.Heap

abbrev CPath := List (Nat × Nat)

/-- run `x`; an error return becomes `none`, the state the call left is kept -/
def tryE {α : Type} (x : M α) : M (Option α) := fun s =>
  match x s with
  | .ok a s' => .ok (some a) s'
  | .err s' => .ok none s'
  | .panic => .panic
  | .stuck => .stuck
  | .oof => .oof

/-- the loop of `Min` (pub.go:752-766), from node `a`, which is on top of `path` -/
def cMinLoop (E : Env) : Nat → Nat → CPath → M (CPath × Bool)
  | 0, _, _ => oofE
  | f+1, a, path => do
    let nd ← read a
    match nd.links[0]? with
    | none => pure (path, false)
    | some HLink.nil => pure (path, false)
    | some l => do
      match ← tryE (load E l) with
      | none => pure (path, true)
      | some c => cMinLoop E f c ((c, 0) :: path)

def cMin (E : Env) (f : Nat) (path : CPath) : M (CPath × Bool) :=
  match path with
  | [] => pure ([], false)
  | (a, _) :: _ => cMinLoop E f a path

/-- the loop of `Max` (pub.go:776-799), from node `a`; `path` is the path below it -/
def cMaxLoop (E : Env) : Nat → Nat → CPath → M (CPath × Bool)
  | 0, _, _ => oofE
  | f+1, a, path => do
    let nd ← read a
    match (if nd.links.length = 0 then none else nd.links[nd.links.length - 1]?) with
    | none => pure ((a, nd.vals.length - 1) :: path, false)
    | some HLink.nil => pure ((a, nd.vals.length - 1) :: path, false)
    | some l => do
      match ← tryE (load E l) with
      | none => pure ((a, nd.links.length - 1) :: path, true)
      | some c => cMaxLoop E f c ((a, nd.links.length - 1) :: path)

def cMax (E : Env) (f : Nat) (path : CPath) : M (CPath × Bool) :=
  match path with
  | [] => pure ([], false)
  | (a, _) :: rest => cMaxLoop E f a rest

/-- `Get` (pub.go:803-813) -/
def cGet (path : CPath) : M (Option (Nat × Nat)) :=
  match path with
  | [] => pure none
  | (a, i) :: _ => do
    let nd ← read a
    if nd.keys.length ≤ i then pure none
    else match nd.keys[i]?, nd.vals[i]? with
      | some k, some v => pure (some (k, v))
      | _, _ => panicE

/-- the pop loop of `Forward` (pub.go:841-850), on the path that is left after the first pop -/
def cPopFwd : CPath → M CPath
  | [] => pure []
  | (a, i) :: rest => do
    let nd ← read a
    if i < nd.keys.length then pure ((a, i) :: rest) else cPopFwd rest

/-- `Forward` (pub.go:816-852); when the descent fails the cursor is left where it was -/
def cForward (E : Env) (f : Nat) (path : CPath) : M (CPath × Bool) :=
  match path with
  | [] => pure ([], false)
  | (a, i) :: rest => do
    let nd ← read a
    match (if i + 1 < nd.links.length then nd.links[i + 1]? else none) with
    | some (HLink.ptr b) => do
      match ← tryE (load E (.ptr b)) with
      | none => pure (path, true)
      | some c =>
        let r ← cMinLoop E f c ((c, 0) :: (a, i + 1) :: rest)
        if r.2 then pure (path, true) else pure r
    | some (HLink.ref n) => do
      match ← tryE (load E (.ref n)) with
      | none => pure (path, true)
      | some c =>
        let r ← cMinLoop E f c ((c, 0) :: (a, i + 1) :: rest)
        if r.2 then pure (path, true) else pure r
    | _ =>
      if i + 1 < nd.keys.length then pure ((a, i + 1) :: rest, false)
      else do
        let p ← cPopFwd rest
        pure (p, false)

/-- the pop loop of `Backward` (pub.go:880-890), on the path that is left after the first pop -/
def cPopBwd : CPath → CPath
  | [] => []
  | (a, i) :: rest => if i > 0 then (a, i - 1) :: rest else cPopBwd rest

/-- `Backward` (pub.go:855-892); when the descent fails the cursor is left where it was -/
def cBackward (E : Env) (f : Nat) (path : CPath) : M (CPath × Bool) :=
  match path with
  | [] => pure ([], false)
  | (a, i) :: rest => do
    let nd ← read a
    match nd.links[i]? with
    | none => panicE
    | some HLink.nil =>
      if i > 0 then pure ((a, i - 1) :: rest, false) else pure (cPopBwd rest, false)
    | some l => do
      match ← tryE (load E l) with
      | none => pure (path, true)
      | some c =>
        let r ← cMaxLoop E f c path
        if r.2 then pure (path, true) else pure r

/-- "exhausted left subtree; go up to ceil" (pub.go:957-965) -/
def cPopCeil : CPath → M CPath
  | [] => pure []
  | (a, i) :: rest => do
    let nd ← read a
    if i = nd.keys.length then cPopCeil rest else pure ((a, i) :: rest)

/-- `Ceil` (pub.go:934-973) with `search1` -/
def cCeil (E : Env) (k : Nat) : Nat → CPath → M (CPath × Bool)
  | 0, _ => oofE
  | _, [] => pure ([], false)
  | f+1, (a, _) :: rest => do
    let nd ← read a
    let i := keyIdx nd.keys k
    if nd.keys[i]? = some k then pure ((a, i) :: rest, false)
    else match nd.links[i]? with
      | none => panicE
      | some HLink.nil => do
        let p ← cPopCeil ((a, i) :: rest)
        pure (p, false)
      | some l => do
        match ← tryE (load E l) with
        | none => pure ((a, i) :: rest, true)
        | some c => cCeil E k f ((c, 0) :: (a, i) :: rest)

/-- `Cursor()` (pub.go:724-745): a clone of the tree and the path `[(top node, 0)]` -/
def cursorNew (E : Env) (t : PTree) (newId fuel : Nat) : M (PTree × CPath) := do
  let t' ← clone E t newId fuel
  if t'.root = .nil then pure (t', [])
  else do
    let a ← load E t'.root
    pure (t', [(a, 0)])

end Mast.Ptr

namespace Mast.Ptr
open Mast.Heap

/-- placements and moves as in `Lemmas/CursorWalk.lean` -/
inductive CPlace where
  | min | max | ceil (k : Nat)
  deriving Repr, DecidableEq

inductive CMove where
  | fwd | bwd
  deriving Repr, DecidableEq

def cPlace (E : Env) (f : Nat) (path : CPath) : CPlace → M (CPath × Bool)
  | .min => cMin E f path
  | .max => cMax E f path
  | .ceil k => cCeil E k f path

def cStep (E : Env) (f : Nat) (path : CPath) : CMove → M (CPath × Bool)
  | .fwd => cForward E f path
  | .bwd => cBackward E f path

/-- a list of moves on one cursor; the walk stops at the first call that reports an error -/
def cWalk (E : Env) (f : Nat) : List CMove → CPath → M (CPath × Bool)
  | [], path => pure (path, false)
  | mv :: ms, path => do
    let r ← cStep E f path mv
    if r.2 then pure r else cWalk E f ms r.1

/-- `Cursor()`, a placement, a list of moves, `Get`: `none` when one of the calls reported an error -/
def cNavigate (E : Env) (t : PTree) (newId fuel f : Nat) (pl : CPlace) (ms : List CMove) :
    M (Option (Option (Nat × Nat))) := do
  let (_, path) ← cursorNew E t newId fuel
  let r ← cPlace E f path pl
  if r.2 then pure none
  else do
    let r2 ← cWalk E f ms r.1
    if r2.2 then pure none
    else do
      let e ← cGet r2.1
      pure (some e)

end Mast.Ptr
