import Mastverif.Model.Heap
import Mastverif.Model.Tree
/-!
# M3b — the mutation paths at the level of node *objects*

`Model/Tree.lean` transcribes what lib.go / pub.go compute as values.  This file transcribes
*how*: which `*mastNode` objects are read, copied, written in place, linked and published, and
with which `dirty` / `shared` / `source` flags — `load`, `ToMut`, `xcopy`, `follow`, `findNode`,
`split`, `savePathForRoot`, `Insert`, `grow`, `extract`, `mergeNodes`, `deleteEntry`, `Delete`,
`shrink`, `ToShared`, `Clone`, `node.store` + the commit closures of `flush`, `LoadMast`.

Every change of the heap goes through the three guarded primitives of `Model/Heap.lean`
(`alloc` / `write` / `publish`); a guard that fails makes the operation `stuck`.  The theorems
(`Lemmas/Ptr*.lean`, `Props/C02.lean`, `C11.lean`, `C12.lean`) say that no operation is ever
stuck, i.e. the *logic of the code* obeys the copy-on-write protocol — so the frame theorem of
the protocol applies to every execution, not just to the observed ones.

Nodes of the store are content-addressed by an idealised hash: the name of a node is 1 + its
index in the table of distinct contents (`intern`), so equal contents have equal names and
different contents different names.  Loads that go to the store are counted (`tick`) and fail
where the fault oracle `Env.failAt` says so.

The tie: family `ptr` of the harness compares, after every operation, the object graph of
every live tree (hook `VerifDump`: flags, entries, links) with the model's graph, up to a
bijection of addresses and a session-wide bijection of names.
-/
namespace Mast.Ptr
open Mast.Heap

/-- a node as the store holds it: entries and child names (no pointer links) -/
structure SNode where
  keys : List Nat
  vals : List Nat
  links : List HLink
  deriving Repr, DecidableEq, Inhabited

structure PS where
  heap : Heap := []
  store : List SNode := []
  /-- node cache: name ↦ address of the decoded / committed object -/
  cache : List (Nat × Nat) := []
  useCache : Bool := false
  /-- number of store loads so far -/
  tick : Nat := 0
  /-- number of calls of the layer function so far -/
  ltick : Nat := 0
  deriving Repr

/-- the `Mast` record; `id` is the ghost owner tag of the objects this tree allocates -/
structure PTree where
  id : Nat
  root : HLink
  size : Nat
  height : Nat
  bf : Nat
  growAfter : Nat
  shrinkBelow : Nat
  deriving Repr, DecidableEq

structure Env where
  layer : Nat → Nat
  /-- the `t`-th load from the store fails -/
  failAt : Nat → Bool
  /-- the `t`-th call of the layer function fails (the `Marshal` callback behind `DefaultLayer`) -/
  layerFailAt : Nat → Bool := fun _ => false

inductive Res (α : Type) where
  | ok (a : α) (s : PS)
  /-- the Go code returns an error -/
  | err (s : PS)
  /-- the Go code panics -/
  | panic
  /-- a guard of the heap protocol fails -/
  | stuck
  /-- the model ran out of fuel -/
  | oof

def M (α : Type) := PS → Res α

@[inline] def M.pure (a : α) : M α := fun s => .ok a s
@[inline] def M.bind (x : M α) (f : α → M β) : M β := fun s =>
  match x s with
  | .ok a s' => f a s'
  | .err s' => .err s'
  | .panic => .panic
  | .stuck => .stuck
  | .oof => .oof

instance : Monad M where
  pure := M.pure
  bind := M.bind

def failE : M α := fun s => .err s
def panicE : M α := fun _ => .panic
def oofE : M α := fun _ => .oof

/-! ## primitives -/

def alloc (nd : MNode) : M Nat := fun s =>
  match applyAct s.heap (.alloc nd) with
  | some h' => .ok s.heap.length { s with heap := h' }
  | none => .stuck

def write (m a : Nat) (nd : MNode) : M Unit := fun s =>
  match applyAct s.heap (.write m a nd) with
  | some h' => .ok () { s with heap := h' }
  | none => .stuck

def publish (m a : Nat) (links : List HLink) : M Unit := fun s =>
  match applyAct s.heap (.publish m a links) with
  | some h' => .ok () { s with heap := h' }
  | none => .stuck

/-- dereference a `*mastNode` -/
def read (a : Nat) : M MNode := fun s =>
  match s.heap[a]? with
  | some nd => .ok nd s
  | none => .panic

def lookupCache (n : Nat) : List (Nat × Nat) → Option Nat
  | [] => none
  | (k, a) :: rest => if k = n then some a else lookupCache n rest

/-- `loadPersisted` (store.go:36-84): cache hit, or a store load (counted, may fail), decode,
    flag `shared`, remember the name, hand the object to the cache -/
def loadRef (E : Env) (n : Nat) : M Nat := fun s =>
  match (if s.useCache then lookupCache n s.cache else none) with
  | some a => .ok a s
  | none =>
    let s1 := { s with tick := s.tick + 1 }
    if E.failAt s.tick then .err s1 else
    match (if n = 0 then none else s.store[n - 1]?) with
    | none => .err s1
    | some sn =>
      -- an omitted link list is re-created as n+1 nil links (store.go:58-60)
      let links := if sn.links.isEmpty then List.replicate (sn.keys.length + 1) HLink.nil else sn.links
      let nd : MNode := { keys := sn.keys, vals := sn.vals, links := links, dirty := false,
                          shared := true, owner := 0, source := some n }
      match applyAct s1.heap (.alloc nd) with
      | none => .stuck
      | some h' =>
        .ok s1.heap.length { s1 with heap := h',
                                     cache := if s.useCache then (n, s1.heap.length) :: s1.cache else s1.cache }

/-- `Mast.load` (store.go:25-34) -/
def load (E : Env) : HLink → M Nat
  | .ptr a => pure a
  | .ref n => loadRef E n
  | .nil => failE

/-- `m.keyLayer(key, branchFactor)`: a counted call that may fail -/
def layerM (E : Env) (k : Nat) : M Nat := fun s =>
  if E.layerFailAt s.ltick then .err { s with ltick := s.ltick + 1 }
  else .ok (E.layer k) { s with ltick := s.ltick + 1 }

def emptyNode (m : Nat) : MNode :=
  { keys := [], vals := [], links := [.nil], dirty := false, shared := false, owner := m, source := none }

/-- `isEmpty()` (lib.go:183-185) -/
def isEmptyN (nd : MNode) : Bool := nd.links == [HLink.nil]

/-- the panics of `validateNode` (lib.go:565-599) -/
def validOK (nd : MNode) : Bool :=
  (match nd.keys with
   | k0 :: k1 :: _ => k0 < k1
   | _ => true) && nd.links.length == nd.keys.length + 1 && nd.links.length == nd.vals.length + 1

/-- `ToMut` (lib.go:692-701) with `xcopy`: a shared node is copied (the copy is unshared, keeps
    the `dirty` flag, has no source), an unshared one is returned as it is -/
def toMut (m a : Nat) : M Nat := do
  let nd ← read a
  if !validOK nd then panicE
  else if !nd.shared then pure a
  else alloc { nd with shared := false, owner := m, source := none }

/-- index of the first key that is not smaller than `key` (the binary search of `findNode`) -/
def keyIdx : List Nat → Nat → Nat
  | [], _ => 0
  | k :: ks, key => if k < key then keyIdx ks key + 1 else 0

/-- `follow` (lib.go:239-253) -/
def follow (E : Env) (m a i : Nat) (create : Bool) : M Nat := do
  let nd ← read a
  match nd.links[i]? with
  | none => panicE
  | some .nil => if create then alloc (emptyNode m) else pure a
  | some l => load E l

structure Found where
  node : Nat
  idx : Nat
  cur : Nat
  path : List (Nat × Nat)

/-- `findNode` (lib.go:194-237) -/
def findNode (E : Env) (m key target : Nat) (create : Bool) :
    Nat → Nat → Nat → List (Nat × Nat) → M Found
  | 0, _, _, _ => oofE
  | f+1, a, cur, path => do
    let nd ← read a
    if nd.links.length ≠ nd.keys.length + 1 then panicE
    else
      let i := keyIdx nd.keys key
      if nd.keys[i]? = some key ∨ cur = target then
        pure { node := a, idx := i, cur := cur, path := path ++ [(a, i)] }
      else do
        let c ← follow E m a i create
        findNode E m key target create f c (cur - 1) (path ++ [(a, i)])

/-- a link to a freshly built node, or nil when the node is empty (`if !x.isEmpty() { store }`) -/
def linkNew (nd : MNode) : M HLink :=
  if isEmptyN nd then pure .nil else do
    let a ← alloc nd
    pure (.ptr a)

def setLast (l : List HLink) (x : HLink) : List HLink := l.dropLast ++ [x]

/-- `split` (lib.go:82-181) -/
def split (E : Env) (m key : Nat) : Nat → Nat → M (HLink × HLink)
  | 0, _ => oofE
  | f+1, a => do
    let nd ← read a
    if nd.keys.contains key then panicE
    else
      let si := keyIdx nd.keys key
      let leftLinks := nd.links.take (si + 1)
      match leftLinks.getLast? with
      | none => panicE
      | some leftMax => do
        let (lm, tooBig) ← (if leftMax = .nil then pure (HLink.nil, HLink.nil) else do
            let c ← load E leftMax
            split E m key f c)
        let left : MNode := { keys := nd.keys.take si, vals := nd.vals.take si, links := setLast leftLinks lm,
                              dirty := true, shared := false, owner := m, source := none }
        let leftLink ← linkNew left
        match nd.links.drop si with
        | [] => panicE
        | _ :: rightRest => do
          let (tooSmall, rm) ← (if tooBig = .nil then pure (HLink.nil, HLink.nil) else do
              let c ← load E tooBig
              split E m key f c)
          if tooSmall ≠ .nil then panicE
          else
            let right : MNode := { keys := nd.keys.drop si, vals := nd.vals.drop si, links := rm :: rightRest,
                                   dirty := true, shared := false, owner := m, source := none }
            let rightLink ← linkNew right
            pure (leftLink, rightLink)

/-- first loop of `savePathForRoot` (lib.go:53-62): every node of the path becomes a dirty,
    unshared node of this tree -/
def mutPath (m : Nat) : List (Nat × Nat) → M (List (Nat × Nat))
  | [] => pure []
  | (a, i) :: rest => do
    let nd ← read a
    let a' ← (if nd.dirty then pure a else do
        let a' ← toMut m a
        let nd' ← read a'
        write m a' { nd' with dirty := true, source := none }
        pure a')
    let rest' ← mutPath m rest
    pure ((a', i) :: rest')

/-- second loop of `savePathForRoot` (lib.go:63-71): re-link bottom-up, pruning empty nodes -/
def relink (m : Nat) : List (Nat × Nat) → M Unit
  | [] => pure ()
  | [_] => pure ()
  | (a, i) :: (b, j) :: rest => do
    relink m ((b, j) :: rest)
    let cnd ← read b
    let nd ← read a
    if i ≥ nd.links.length then panicE
    else write m a { nd with links := nd.links.set i (if isEmptyN cnd then .nil else .ptr b) }

/-- `savePathForRoot` (lib.go:53-76): returns the new root link -/
def savePath (m : Nat) (path : List (Nat × Nat)) : M HLink := do
  let p ← mutPath m path
  relink m p
  match p with
  | [] => panicE
  | (a, _) :: _ => pure (.ptr a)

def setLastNode (path : List (Nat × Nat)) (a : Nat) : List (Nat × Nat) :=
  match path.getLast? with
  | none => []
  | some (_, i) => path.dropLast ++ [(a, i)]

def insertAt (l : List α) (i : Nat) (x : α) : List α := l.take i ++ x :: l.drop i

/-- everything of `Insert` that can fail (pub.go:392-457): locate, load and split the child.
    Nothing reachable from the tree has been written yet. -/
structure InsPlan where
  found : Found
  present : Bool
  same : Bool
  left : HLink
  right : HLink

def insertPlan (E : Env) (t : PTree) (fuel key val : Nat) : M InsPlan := do
  let lay ← layerM E key
  let target := min lay t.height
  let a0 ← (if t.root = .nil then alloc (emptyNode t.id) else load E t.root)
  let fd ← findNode E t.id key target true fuel a0 t.height []
  if fd.cur ≠ target then panicE
  else do
    let nd ← read fd.node
    if nd.keys[fd.idx]? = some key then
      pure { found := fd, present := true, same := nd.vals[fd.idx]? = some val, left := .nil, right := .nil }
    else
      match nd.links[fd.idx]? with
      | none => panicE
      | some .nil => pure { found := fd, present := false, same := false, left := .nil, right := .nil }
      | some l => do
        let c ← load E l
        let (lf, rt) ← split E t.id key fuel c
        pure { found := fd, present := false, same := false, left := lf, right := rt }

/-- the in-place part of `Insert` (pub.go:437-441, 458-482): no call here can fail -/
def insertCommit (t : PTree) (p : InsPlan) (key val : Nat) : M HLink := do
  let a' ← toMut t.id p.found.node
  let nd ← read a'
  let i := p.found.idx
  if p.present then
    write t.id a' { nd with source := none, vals := nd.vals.set i val }
  else
    write t.id a' { nd with source := none, keys := insertAt nd.keys i key, vals := insertAt nd.vals i val,
                            links := nd.links.take i ++ p.left :: p.right :: nd.links.drop (i + 1) }
  savePath t.id (setLastNode p.found.path a')

/-- `extract` (lib.go:279-297) followed by `store` -/
def extractLink (m : Nat) (nd : MNode) (frm to : Nat) : M HLink :=
  linkNew { keys := (nd.keys.take to).drop frm, vals := (nd.vals.take to).drop frm,
            links := (nd.links.take (to + 1)).drop frm, dirty := true, shared := false, owner := m, source := none }

/-- the loop of `grow` (lib.go:313-345): returns keys, values and links of the new top node
    (the last link still missing) -/
def growLoop (E : Env) (m height : Nat) (nd : MNode) :
    List (Nat × Nat) → Nat → Nat → List Nat → List Nat → List HLink → M (Nat × List Nat × List Nat × List HLink)
  | [], _, start, ks, vs, ls => pure (start, ks, vs, ls)
  | (k, v) :: rest, i, start, ks, vs, ls => do
    let lay ← layerM E k
    if lay ≤ height then growLoop E m height nd rest (i + 1) start ks vs ls
    else do
      let l ← extractLink m nd start i
      growLoop E m height nd rest (i + 1) (i + 1) (ks ++ [k]) (vs ++ [v]) (ls ++ [l])

/-- `grow` (lib.go:299-367) -/
def grow (E : Env) (t : PTree) : M PTree := do
  let a ← load E t.root
  let nd ← read a
  let (start, ks, vs, ls) ← growLoop E t.id t.height nd (nd.keys.zip nd.vals) 0 0 [] [] []
  let r ← extractLink t.id nd start nd.keys.length
  let top : MNode := { keys := ks, vals := vs, links := ls ++ [r], dirty := true, shared := false,
                       owner := t.id, source := none }
  if isEmptyN top then failE
  else do
    let na ← alloc top
    pure { t with root := .ptr na, height := t.height + 1, shrinkBelow := t.growAfter,
                  growAfter := t.growAfter * t.bf }

/-- `canGrow` (lib.go:369-380): one layer call per key, up to the first key above the height -/
def canGrowM (E : Env) (h : Nat) : List Nat → M Bool
  | [] => pure false
  | k :: ks => do
    let lay ← layerM E k
    if lay > h then pure true else canGrowM E h ks

/-- the grow loop of `Insert` (pub.go:487-503); `size` is still the old size -/
def growAll (E : Env) : Nat → PTree → M PTree
  | 0, _ => oofE
  | f+1, t =>
    if t.size < t.growAfter then pure t
    else do
      let a ← load E t.root
      let nd ← read a
      let cg ← canGrowM E t.height nd.keys
      if cg then do
        let t' ← grow E t
        growAll E f t'
      else pure t

/-- `mergeNodes` (lib.go:601-643) -/
def mergeNodes (E : Env) (m : Nat) : Nat → HLink → HLink → M HLink
  | 0, _, _ => oofE
  | f+1, l, r =>
    if l = .nil then pure r
    else if r = .nil then pure l
    else do
      let la ← load E l
      let ra ← load E r
      let ln ← read la
      let rn ← read ra
      match ln.links.getLast?, rn.links with
      | some ll, rl :: rrest => do
        let merged ← mergeNodes E m f ll rl
        let nd : MNode := { keys := ln.keys ++ rn.keys, vals := ln.vals ++ rn.vals,
                            links := ln.links.dropLast ++ merged :: rrest,
                            dirty := true, shared := false, owner := m, source := none }
        if isEmptyN nd then failE
        else do
          let a ← alloc nd
          pure (.ptr a)
      | _, _ => panicE

/-- what `Delete` does before anything is written (pub.go:89-110, 128-162): locate the entry,
    merge the two neighbouring children -/
structure DelPlan where
  found : Found
  merged : HLink

def deletePlan (E : Env) (t : PTree) (fuel key val : Nat) : M DelPlan := do
  if t.root = .nil then failE
  else do
    let lay ← layerM E key
    let target := min lay t.height
    let a0 ← load E t.root
    let fd ← findNode E t.id key target false fuel a0 t.height []
    let nd ← read fd.node
    if fd.cur ≠ target ∨ fd.idx = nd.keys.length then failE
    else if nd.keys[fd.idx]? ≠ some key then failE
    else if nd.vals[fd.idx]? ≠ some val then failE
    else
      match nd.links[fd.idx]?, nd.links[fd.idx + 1]? with
      | some l, some r => do
        let mg ← mergeNodes E t.id fuel l r
        pure { found := fd, merged := mg }
      | _, _ => panicE

/-- `deleteEntry` after the merge, then `savePathForRoot` (pub.go:163-168, 111-115) -/
def deleteCommit (t : PTree) (p : DelPlan) : M HLink := do
  let a' ← toMut t.id p.found.node
  let nd ← read a'
  let i := p.found.idx
  write t.id a' { nd with source := none, keys := nd.keys.eraseIdx i, vals := nd.vals.eraseIdx i,
                          links := (nd.links.eraseIdx i).set i p.merged }
  savePath t.id (setLastNode p.found.path a')

/-- the loop of `shrink` (lib.go:411-428) -/
def shrinkLoop (E : Env) : List HLink → List (Nat × Nat) → MNode → M MNode
  | [], _, acc => pure acc
  | l :: ls, es, acc => do
    let acc1 ← (if l = .nil then pure { acc with links := acc.links ++ [HLink.nil] } else do
        let c ← load E l
        let cn ← read c
        let acc1 := { acc with keys := acc.keys ++ cn.keys, vals := acc.vals ++ cn.vals, links := acc.links ++ cn.links }
        if !validOK acc1 then panicE else pure acc1)
    match es with
    | [] => shrinkLoop E ls [] acc1
    | (k, v) :: es' => shrinkLoop E ls es' { acc1 with keys := acc1.keys ++ [k], vals := acc1.vals ++ [v] }

/-- `shrink` (lib.go:382-449) -/
def shrink (E : Env) (t : PTree) : M PTree := do
  if t.height = 0 then failE
  else if t.root = .nil then failE
  else do
    let a ← load E t.root
    let nd ← read a
    let top ← shrinkLoop E nd.links (nd.keys.zip nd.vals)
      { keys := [], vals := [], links := [], dirty := true, shared := false, owner := t.id, source := none }
    if !validOK top then panicE
    else do
      let r ← linkNew top
      let sh := t.shrinkBelow > 1
      pure { t with root := r, height := t.height - 1,
                    shrinkBelow := if sh then t.shrinkBelow / t.bf else t.shrinkBelow,
                    growAfter := if sh then t.growAfter / t.bf else t.growAfter }

/-- `topNodeIsEntryless` (pub.go:129-134) -/
def topEntryless (t : PTree) : M Bool :=
  match t.root with
  | .ptr a => do
    let nd ← read a
    pure (nd.keys.length == 0)
  | _ => pure false

/-- `ToShared` (lib.go:703-726): deep copy of the unshared part for the clone `newId` -/
def mapLinks (g : Nat → M Nat) : List HLink → M (List HLink)
  | [] => pure []
  | .ptr c :: ls => do
    let cn ← read c
    let l' ← (if cn.shared then pure (HLink.ptr c) else do
        let c' ← g c
        pure (HLink.ptr c'))
    let ls' ← mapLinks g ls
    pure (l' :: ls')
  | l :: ls => do
    let ls' ← mapLinks g ls
    pure (l :: ls')

def toShared (newId : Nat) : Nat → Nat → M Nat
  | 0, _ => oofE
  | f+1, a => do
    let nd ← read a
    if nd.shared then pure a
    else do
      let links' ← mapLinks (fun c => toShared newId f c) nd.links
      alloc { nd with links := links', owner := newId, source := none }

/-- `Clone` (pub.go:684-698) -/
def clone (E : Env) (t : PTree) (newId fuel : Nat) : M PTree :=
  if t.root = .nil then pure { t with id := newId }
  else do
    let a ← load E t.root
    let a' ← toShared newId fuel a
    pure { t with id := newId, root := .ptr a' }

/-- content addressing: the name of a node is 1 + its index in the table of distinct contents -/
def internIdx (sn : SNode) : List SNode → Nat → Option Nat
  | [], _ => none
  | x :: xs, i => if x = sn then some i else internIdx sn xs (i + 1)

def intern (sn : SNode) : M Nat := fun s =>
  match internIdx sn s.store 0 with
  | some i => .ok (i + 1) s
  | none => .ok (s.store.length + 1) { s with store := s.store ++ [sn] }

/-- `mastNode.store` (store.go:211-300) without the writes themselves: returns the name and
    the list of commits (object, link names, name), children first -/
def storeLinks (g : Nat → M (Nat × List (Nat × List HLink × Nat))) :
    List HLink → M (List HLink × List (Nat × List HLink × Nat))
  | [] => pure ([], [])
  | .ptr c :: ls => do
    let (n, cm) ← g c
    let (ls', cm') ← storeLinks g ls
    pure (.ref n :: ls', cm ++ cm')
  | l :: ls => do
    let (ls', cm') ← storeLinks g ls
    pure (l :: ls', cm')

def storeNode : Nat → Nat → M (Nat × List (Nat × List HLink × Nat))
  | 0, _ => oofE
  | f+1, a => do
    let nd ← read a
    match nd.dirty, nd.source with
    | false, some n => pure (n, [])
    | _, _ => do
      let (links', cms) ← storeLinks (fun c => storeNode f c) nd.links
      let trimmed := if links'.all (· == .nil) then [] else links'
      let n ← intern { keys := nd.keys, vals := nd.vals, links := trimmed }
      pure (n, cms ++ [(a, links', n)])

/-- `cache.Add(prefix/name, node)` -/
def cacheAdd (n a : Nat) : M Unit := fun s =>
  .ok () (if s.useCache then { s with cache := (n, a) :: s.cache } else s)

/-- the commit closures (store.go:274-284), run by `flush` after every write has succeeded -/
def commitAll (m : Nat) : List (Nat × List HLink × Nat) → M Unit
  | [] => pure ()
  | (a, links, n) :: rest => do
    let nd ← read a
    (if nd.shared then pure () else do
      write m a { nd with source := some n }
      publish m a links)
    cacheAdd n a
    commitAll m rest

/-- `flush` / `MakeRoot` (pub.go:262-366) on a healthy store: the name of the root (0 = none) -/
def flush (E : Env) (t : PTree) (fuel : Nat) : M (PTree × Nat) :=
  if t.root = .nil then pure (t, 0)
  else do
    let a ← load E t.root
    let nd ← read a
    if isEmptyN nd then do
      (if nd.dirty then write t.id a { nd with dirty := false } else pure ())
      pure (t, 0)
    else do
      let (n, cms) ← storeNode fuel a
      commitAll t.id cms
      pure ({ t with root := .ref n }, n)

/-- `LoadMast` (pub.go:561-634) for a root the configuration matches: the top node is loaded
    (and checked) once; an empty root gets a fresh in-memory node -/
def loadMast (E : Env) (id : Nat) (link size height bf : Nat) : M PTree := do
  let root ← (if link = 0 then do
      let a ← alloc (emptyNode id)
      pure (HLink.ptr a)
    else do
      let _ ← loadRef E link
      pure (HLink.ref link))
  pure { id := id, root := root, size := size, height := height, bf := bf,
         shrinkBelow := bf ^ height, growAfter := bf ^ height * bf }

/-! ## the public operations: state and tree record after the call, and how it ended -/

inductive Outcome where
  | ok | err | panic | stuck | oof
  deriving Repr, DecidableEq

/-- run the grow loop after the change is installed: an error here leaves the change in -/
def afterCommit (x : M PTree) (s : PS) (t : PTree) : PS × PTree × Outcome :=
  match x s with
  | .ok t' s' => (s', t', .ok)
  | .err s' => (s', t, .err)
  | .panic => (s, t, .panic)
  | .stuck => (s, t, .stuck)
  | .oof => (s, t, .oof)

/-- `Insert` (pub.go:392-506) -/
def insert (E : Env) (fuel : Nat) (s : PS) (t : PTree) (key val : Nat) : PS × PTree × Outcome :=
  match insertPlan E t fuel key val s with
  | .err s1 => (s1, t, .err)
  | .panic => (s, t, .panic)
  | .stuck => (s, t, .stuck)
  | .oof => (s, t, .oof)
  | .ok p s1 =>
    if p.present && p.same then (s1, t, .ok)
    else
      match insertCommit t p key val s1 with
      | .err s2 => (s2, t, .err)
      | .panic => (s1, t, .panic)
      | .stuck => (s1, t, .stuck)
      | .oof => (s1, t, .oof)
      | .ok root s2 =>
        let t1 := { t with root := root }
        if p.present then (s2, t1, .ok)
        else
          match afterCommit (growAll E fuel t1) s2 t1 with
          | (s3, t2, .ok) => (s3, { t2 with size := t2.size + 1 }, .ok)
          | r => r

/-- the shrink loop of `Delete` (pub.go:116-125, repaired rule) -/
def shrinkAll (E : Env) : Nat → PTree → M PTree
  | 0, _ => oofE
  | f+1, t => do
    let el ← topEntryless t
    if t.height > 0 ∧ (t.size ≤ t.shrinkBelow ∨ el) then do
      let t' ← shrink E t
      shrinkAll E f t'
    else pure t

/-- `Delete` (pub.go:89-127) -/
def delete (E : Env) (fuel : Nat) (s : PS) (t : PTree) (key val : Nat) : PS × PTree × Outcome :=
  match deletePlan E t fuel key val s with
  | .err s1 => (s1, t, .err)
  | .panic => (s, t, .panic)
  | .stuck => (s, t, .stuck)
  | .oof => (s, t, .oof)
  | .ok p s1 =>
    match deleteCommit t p s1 with
    | .err s2 => (s2, t, .err)
    | .panic => (s1, t, .panic)
    | .stuck => (s1, t, .stuck)
    | .oof => (s1, t, .oof)
    | .ok root s2 =>
      let t1 := { t with root := root, size := t.size - 1 }
      afterCommit (shrinkAll E fuel t1) s2 t1

/-- `Get` (pub.go:368-414): reads only -/
def get (E : Env) (t : PTree) (fuel key : Nat) : M (Option Nat) :=
  if t.root = .nil then pure none
  else do
    let a ← load E t.root
    let lay ← layerM E key
    let target := min lay t.height
    let fd ← findNode E t.id key target false fuel a t.height []
    let nd ← read fd.node
    if fd.idx ≥ nd.keys.length ∨ target ≠ fd.cur then pure none
    else if nd.keys[fd.idx]? ≠ some key then pure none
    else pure nd.vals[fd.idx]?

/-- `Iter` (pub.go:509-519, lib.go:509-532): loads every node below the link -/
def iterLinks (g : HLink → M Unit) : List HLink → M Unit
  | [] => pure ()
  | .nil :: ls => iterLinks g ls
  | l :: ls => do
    g l
    iterLinks g ls

def iterAll (E : Env) : Nat → HLink → M Unit
  | 0, _ => oofE
  | f+1, l => do
    let a ← load E l
    let nd ← read a
    iterLinks (fun c => iterAll E f c) nd.links

/-- lift a monadic operation that returns the new tree record -/
def runOp (x : M PTree) (s : PS) (t : PTree) : PS × PTree × Outcome :=
  afterCommit x s t

/-! ## abstraction to the functional tree model -/

/-- the row (`Model/Tree.lean`) of a node given the rows of its children -/
def mkRow : List (Bool × T) → List Nat → List Nat → T
  | [], _, _ => T.nil
  | [(p, c)], _, _ => T.last p c
  | (p, c) :: ls, k :: ks, v :: vs => T.cons p c k v (mkRow ls ks vs)
  | (p, c) :: _, _, _ => T.last p c

def seqO {α : Type} : List (Option α) → Option (List α)
  | [] => some []
  | none :: _ => none
  | some x :: xs => (seqO xs).map (x :: ·)

/-- the functional subtree below a link (flag: the link is a name), reading at most `fuel` levels;
    names are expanded from the table of stored contents -/
def absLink (h : Heap) (st : List SNode) : Nat → HLink → Option (Bool × T)
  | _, .nil => some (false, T.nil)
  | 0, _ => none
  | f+1, .ptr a =>
    match h[a]? with
    | none => none
    | some nd => (seqO (nd.links.map (absLink h st f))).map fun cs => (false, mkRow cs nd.keys nd.vals)
  | f+1, .ref n =>
    match (if n = 0 then none else st[n - 1]?) with
    | none => none
    | some sn =>
      let links := if sn.links.isEmpty then List.replicate (sn.keys.length + 1) HLink.nil else sn.links
      (seqO (links.map (absLink h st f))).map fun cs => (true, mkRow cs sn.keys sn.vals)

/-- flags on absent links carry no information -/
def normFlags : T → T
  | .nil => .nil
  | .last p c => .last (p && !c.isNil) (normFlags c)
  | .cons p c k v r => .cons (p && !c.isNil) (normFlags c) k v (normFlags r)

/-- the `Tree` record (functional model) that a `PTree` denotes -/
def absTree (s : PS) (fuel : Nat) (t : PTree) : Option Tree :=
  match absLink s.heap s.store fuel t.root with
  | none => none
  | some (p, r) =>
    let dirty := match t.root with
      | .ptr a => (s.heap[a]?.map (·.dirty)).getD false
      | _ => false
    some { root := T.unmk r, rootP := p, dirty := dirty, size := t.size, height := t.height, bf := t.bf,
           growAfter := t.growAfter, shrinkBelow := t.shrinkBelow }

/-! ## a system of trees over one heap, store and cache -/

inductive Op where
  | ins (i k v : Nat)
  | del (i k v : Nat)
  | get (i k : Nat)
  | iter (i : Nat)
  | flush (i : Nat)
  | clone (i : Nat)
  | load (link size height bf : Nat)
  deriving Repr, DecidableEq

structure Sys where
  ps : PS := {}
  trees : List PTree := []
  nextId : Nat := 1

def runM {α : Type} (x : M α) (s : PS) : Option α × PS × Outcome :=
  match x s with
  | .ok a s' => (some a, s', .ok)
  | .err s' => (none, s', .err)
  | .panic => (none, s, .panic)
  | .stuck => (none, s, .stuck)
  | .oof => (none, s, .oof)

def addTree (l : List PTree) : Option PTree → List PTree
  | some t => l ++ [t]
  | none => l

/-- one public call on tree number `i` (or a load of a persisted root into a new tree) -/
def Sys.apply (E : Env) (fuel : Nat) (σ : Sys) : Op → Sys × Outcome
  | .ins i k v =>
    match σ.trees[i]? with
    | none => (σ, .ok)
    | some t =>
      let r := insert E fuel σ.ps t k v
      ({ σ with ps := r.1, trees := σ.trees.set i r.2.1 }, r.2.2)
  | .del i k v =>
    match σ.trees[i]? with
    | none => (σ, .ok)
    | some t =>
      let r := delete E fuel σ.ps t k v
      ({ σ with ps := r.1, trees := σ.trees.set i r.2.1 }, r.2.2)
  | .get i k =>
    match σ.trees[i]? with
    | none => (σ, .ok)
    | some t =>
      let r := runM (get E t fuel k) σ.ps
      ({ σ with ps := r.2.1 }, r.2.2)
  | .iter i =>
    match σ.trees[i]? with
    | none => (σ, .ok)
    | some t =>
      let r := runM (iterAll E fuel t.root) σ.ps
      ({ σ with ps := r.2.1 }, r.2.2)
  | .flush i =>
    match σ.trees[i]? with
    | none => (σ, .ok)
    | some t =>
      let r := runM (flush E t fuel) σ.ps
      ({ σ with ps := r.2.1, trees := match r.1 with
                                      | some x => σ.trees.set i x.1
                                      | none => σ.trees }, r.2.2)
  | .clone i =>
    match σ.trees[i]? with
    | none => (σ, .ok)
    | some t =>
      let r := runM (clone E t σ.nextId fuel) σ.ps
      ({ ps := r.2.1, nextId := σ.nextId + 1,
         trees := addTree σ.trees r.1 }, r.2.2)
  | .load link size height bf =>
    let r := runM (loadMast E σ.nextId link size height bf) σ.ps
    ({ ps := r.2.1, nextId := σ.nextId + 1,
       trees := addTree σ.trees r.1 }, r.2.2)

/-- a whole history; stops at the first call that does not end in `ok` or `err` -/
def Sys.run (E : Env) (fuel : Nat) : Sys → List Op → Sys × Outcome
  | σ, [] => (σ, .ok)
  | σ, op :: ops =>
    match σ.apply E fuel op with
    | (σ', .ok) => Sys.run E fuel σ' ops
    | (σ', .err) => Sys.run E fuel σ' ops
    | r => r

/-! ## the height loops as Go runs them

`Delete` and `Insert` assign `m.root`, `m.height` and the thresholds inside `shrink()` / `grow()`:
when a later iteration of the loop fails, the iterations that completed have already changed the
record.  `delete` / `insert` above return the record from before the loop in that case (their
theorems are about outcomes `.ok`, and about what an error leaves in the HEAP); `deleteGo` /
`insertGo` are the same calls with the record the Go code leaves — they are what the driver runs,
and `Lemmas/PtrGo.lean` relates the two (same state, same outcome, same record whenever the
outcome is `.ok`). -/

def shrinkAllGo (E : Env) : Nat → PTree → PS → PS × PTree × Outcome
  | 0, t, s => (s, t, .oof)
  | f+1, t, s =>
    match topEntryless t s with
    | .ok el s1 =>
      if t.height > 0 ∧ (t.size ≤ t.shrinkBelow ∨ el) then
        match shrink E t s1 with
        | .ok t' s2 => shrinkAllGo E f t' s2
        | .err s2 => (s2, t, .err)
        | .panic => (s1, t, .panic)
        | .stuck => (s1, t, .stuck)
        | .oof => (s1, t, .oof)
      else (s1, t, .ok)
    | .err s1 => (s1, t, .err)
    | .panic => (s, t, .panic)
    | .stuck => (s, t, .stuck)
    | .oof => (s, t, .oof)

/-- `Delete` with the record Go leaves when the height reduction fails part-way -/
def deleteGo (E : Env) (fuel : Nat) (s : PS) (t : PTree) (key val : Nat) : PS × PTree × Outcome :=
  match deletePlan E t fuel key val s with
  | .err s1 => (s1, t, .err)
  | .panic => (s, t, .panic)
  | .stuck => (s, t, .stuck)
  | .oof => (s, t, .oof)
  | .ok p s1 =>
    match deleteCommit t p s1 with
    | .err s2 => (s2, t, .err)
    | .panic => (s1, t, .panic)
    | .stuck => (s1, t, .stuck)
    | .oof => (s1, t, .oof)
    | .ok root s2 => shrinkAllGo E fuel { t with root := root, size := t.size - 1 } s2

def growAllGo (E : Env) : Nat → PTree → PS → PS × PTree × Outcome
  | 0, t, s => (s, t, .oof)
  | f+1, t, s =>
    if t.size < t.growAfter then (s, t, .ok)
    else
      match (do let a ← load E t.root
                let nd ← read a
                canGrowM E t.height nd.keys : M Bool) s with
      | .ok cg s1 =>
        if cg then
          match grow E t s1 with
          | .ok t' s2 => growAllGo E f t' s2
          | .err s2 => (s2, t, .err)
          | .panic => (s1, t, .panic)
          | .stuck => (s1, t, .stuck)
          | .oof => (s1, t, .oof)
        else (s1, t, .ok)
      | .err s1 => (s1, t, .err)
      | .panic => (s, t, .panic)
      | .stuck => (s, t, .stuck)
      | .oof => (s, t, .oof)

/-- `Insert` with the record Go leaves when the growth loop fails part-way -/
def insertGo (E : Env) (fuel : Nat) (s : PS) (t : PTree) (key val : Nat) : PS × PTree × Outcome :=
  match insertPlan E t fuel key val s with
  | .err s1 => (s1, t, .err)
  | .panic => (s, t, .panic)
  | .stuck => (s, t, .stuck)
  | .oof => (s, t, .oof)
  | .ok p s1 =>
    if p.present && p.same then (s1, t, .ok)
    else
      match insertCommit t p key val s1 with
      | .err s2 => (s2, t, .err)
      | .panic => (s1, t, .panic)
      | .stuck => (s1, t, .stuck)
      | .oof => (s1, t, .oof)
      | .ok root s2 =>
        let t1 := { t with root := root }
        if p.present then (s2, t1, .ok)
        else
          match growAllGo E fuel t1 s2 with
          | (s3, t2, .ok) => (s3, { t2 with size := t2.size + 1 }, .ok)
          | r => r

end Mast.Ptr
