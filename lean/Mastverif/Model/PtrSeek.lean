import Mastverif.Model.PtrIter
import Mastverif.Model.PtrCursor
/-!
# `SeekIter` at the level of node objects (pub.go:539-566, lib.go:531-559)

The repaired `SeekIter`: load the top node, seek with `Cursor.Ceil` on a path over the tree's OWN
objects (no clone), then `node.seekIter` from every path entry, deepest first: the entry at the
index, then for every later position the child (loaded and iterated) and the entry.  The list of
entries handed to the callback is returned; a failing load makes the call return an error.
-/
namespace Mast.Ptr
open Mast.Heap

/-- `node.seekIter(idx)` -/
def seekNode (E : Env) (f a idx : Nat) : M (List (Nat × Nat)) := do
  let nd ← read a
  if nd.keys.length ≤ idx then pure []
  else do
    let here ← entryAt (nd.keys.drop idx) (nd.vals.drop idx)
    let rest ← iterEntriesLinks (fun c => iterEntries E f c) (nd.links.drop (idx + 1))
      (nd.keys.drop (idx + 1)) (nd.vals.drop (idx + 1))
    pure (here ++ rest)

/-- the loop over the path, deepest entry first -/
def seekPath (E : Env) (f : Nat) : CPath → M (List (Nat × Nat))
  | [] => pure []
  | (a, i) :: rest => do
    let x ← seekNode E f a i
    let y ← seekPath E f rest
    pure (x ++ y)

def seekIter (E : Env) (t : PTree) (f k : Nat) : M (List (Nat × Nat)) :=
  if t.root = .nil then pure []
  else do
    let a ← load E t.root
    let r ← cCeil E k f [(a, 0)]
    if r.2 then failE else seekPath E f r.1

end Mast.Ptr
