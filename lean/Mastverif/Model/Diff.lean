import Mastverif.Model.Tree
/-!
# `diffOne` (diff.go:107-255), transcribed literally

Two explicit in-order stacks of items (a link still to be opened, or an entry to be yielded),
the two `alreadyNotified` memo tables, and — because every `load` of a link that is a name is a
read of the store — the trace of loaded names.  One `step` = one call of `diffOne`.
`nameOf` gives the identity of a persisted link (its name); two links are "the same link" for
the Go comparison `o.considerLink != n.considerLink` exactly when both are names and the names
are equal (in-memory nodes of two trees are never the same object: `Clone` copies them).
-/
namespace Mast
open T

inductive Item where
  | link (p : Bool) (t : T)
  | yld (k v : Nat)
  deriving Repr, DecidableEq

inductive DEv where
  | add (k v : Nat)
  | rem (k v : Nat)
  | chg (k old new : Nat)
  | addLink (name : List UInt8)
  | remLink (name : List UInt8)
  deriving Repr, DecidableEq

namespace Diff

def linkItem (p : Bool) : T → List Item
  | nil => []
  | c => [Item.link p c]

/-- `pushNode`, in pop order -/
def items : T → List Item
  | nil => []
  | last p c => linkItem p c
  | cons p c k v r => linkItem p c ++ Item.yld k v :: items r

def firstKey : T → Option Nat
  | cons _ _ k _ _ => some k
  | _ => none

/-- the walk of `alreadyNotified` down a chain of single-link nodes: layer of the first key
    met, and the links loaded on the way (`(persisted?, node)` pairs) -/
def chain (layer : Nat → Nat) : Bool → T → Option Nat × List (Bool × T)
  | _, nil => (none, [])
  | p, last q c => let r := chain layer q c; (r.1, (p, last q c) :: r.2)
  | p, cons q c k v r => (some (layer k), [(p, cons q c k v r)])

abbrev Memo := List (Nat × List UInt8)

def memoGet (m : Memo) (h : Nat) : Option (List UInt8) :=
  match m.find? (fun e => e.1 == h) with
  | some e => some e.2
  | none => none

def memoSet (m : Memo) (h : Nat) (n : List UInt8) : Memo :=
  (h, n) :: m.filter (fun e => e.1 != h)

structure St where
  old : List Item
  new : List Item
  memoOld : Memo
  memoNew : Memo
  deriving Repr

variable (layer : Nat → Nat) (nameOf : T → List UInt8)

def loadsOf (l : List (Bool × T)) : List (List UInt8) :=
  (l.filter (·.1)).map (fun x => nameOf x.2)

/-- `alreadyNotified`: result, new memo, names loaded -/
def notified (memo : Memo) (p : Bool) (t : T) : Bool × Memo × List (List UInt8) :=
  let r := chain layer p t
  match r.1 with
  | none => (false, memo, loadsOf nameOf r.2)
  | some h =>
      let h := h % 256
      if memoGet memo h == some (nameOf t) then (true, memo, loadsOf nameOf r.2)
      else (false, memoSet memo h (nameOf t), loadsOf nameOf r.2)

def linkEq (p1 : Bool) (t1 : T) (p2 : Bool) (t2 : T) : Bool :=
  p1 && p2 && nameOf t1 == nameOf t2

def ld (p : Bool) (t : T) : List (List UInt8) := if p then [nameOf t] else []

/-- single-link node (`len(node.Link) == 1`) -/
def isPass : T → Option (Bool × T)
  | last q c => some (q, c)
  | _ => none

structure Out where
  st : St
  evs : List DEv
  loads : List (List UInt8)

/-- one `diffOne`; `none` = `ErrNoMoreDiffs` -/
def step (s : St) : Option Out :=
  match s.old, s.new with
  | [], [] => none
  | [], Item.link p t :: ns =>
      let (nt, memo, l1) := notified layer nameOf s.memoNew p t
      some { st := { s with new := items t ++ ns, memoNew := memo },
             evs := if nt then [] else [DEv.addLink (nameOf t)], loads := l1 ++ ld nameOf p t }
  | [], Item.yld k v :: ns =>
      some { st := { s with new := ns }, evs := [DEv.add k v], loads := [] }
  | Item.link p t :: os, [] =>
      let (nt, memo, l1) := notified layer nameOf s.memoOld p t
      some { st := { s with old := items t ++ os, memoOld := memo },
             evs := if nt then [] else [DEv.remLink (nameOf t)], loads := l1 ++ ld nameOf p t }
  | Item.yld k v :: os, [] =>
      some { st := { s with old := os }, evs := [DEv.rem k v], loads := [] }
  | Item.link pa a :: os, Item.link pb b :: ns =>
      if linkEq nameOf pa a pb b then
        some { st := { s with old := os, new := ns }, evs := [], loads := [] }
      else
        let (no, memoO, l1) := notified layer nameOf s.memoOld pa a
        let (nn, memoN, l2) := notified layer nameOf s.memoNew pb b
        let evs := (if no then [] else [DEv.remLink (nameOf a)]) ++ (if nn then [] else [DEv.addLink (nameOf b)])
        let s' := { s with memoOld := memoO, memoNew := memoN }
        match isPass a with
        | some (q, c) =>
            some { st := { s' with old := linkItem q c ++ os, new := Item.link pb b :: ns },
                   evs := evs, loads := l1 ++ l2 ++ ld nameOf pa a }
        | none =>
          match isPass b with
          | some (q, c) =>
              some { st := { s' with old := Item.link pa a :: os, new := linkItem q c ++ ns },
                     evs := evs, loads := l1 ++ l2 ++ ld nameOf pa a ++ ld nameOf pb b }
          | none =>
            let lds := l1 ++ l2 ++ ld nameOf pa a ++ ld nameOf pb b
            match firstKey a, firstKey b with
            | some ka, some kb =>
                if ka < kb then
                  some { st := { s' with old := items a ++ os, new := Item.link pb b :: ns }, evs := evs, loads := lds }
                else if kb < ka then
                  some { st := { s' with old := Item.link pa a :: os, new := items b ++ ns }, evs := evs, loads := lds }
                else
                  some { st := { s' with old := items a ++ os, new := items b ++ ns }, evs := evs, loads := lds }
            | _, _ =>
                some { st := { s' with old := items a ++ os, new := items b ++ ns }, evs := evs, loads := lds }
  | Item.link pa a :: os, Item.yld k v :: ns =>
      let (nt, memo, l1) := notified layer nameOf s.memoOld pa a
      some { st := { s with old := items a ++ os, new := Item.yld k v :: ns, memoOld := memo },
             evs := if nt then [] else [DEv.remLink (nameOf a)], loads := l1 ++ ld nameOf pa a }
  | Item.yld k v :: os, Item.link pb b :: ns =>
      let (nt, memo, l1) := notified layer nameOf s.memoNew pb b
      some { st := { s with old := Item.yld k v :: os, new := items b ++ ns, memoNew := memo },
             evs := if nt then [] else [DEv.addLink (nameOf b)], loads := l1 ++ ld nameOf pb b }
  | Item.yld k v :: os, Item.yld k' v' :: ns =>
      if k < k' then
        some { st := { s with old := os, new := Item.yld k' v' :: ns }, evs := [DEv.rem k v], loads := [] }
      else if k = k' then
        some { st := { s with old := os, new := ns }, evs := if v = v' then [] else [DEv.chg k v v'], loads := [] }
      else
        some { st := { s with old := Item.yld k v :: os, new := ns }, evs := [DEv.add k' v'], loads := [] }

/-- the loop of `diff()` / repeated `NextEntry`: all events and all loads, in order -/
def run : Nat → St → List DEv × List (List UInt8)
  | 0, _ => ([], [])
  | f+1, s =>
    match step layer nameOf s with
    | none => ([], [])
    | some o =>
        let r := run f o.st
        (o.evs ++ r.1, o.loads ++ r.2)

/-- termination weights -/
def W : T → Nat
  | nil => 0
  | last _ c => 1 + W c
  | cons _ c _ _ r => 1 + W c + 1 + W r

/-- `rootItemStack`: an empty tree (entry-less, childless top node) starts with an empty stack -/
def rootItems (p : Bool) (t : T) : List Item :=
  match t with
  | last _ nil => []
  | nil => []
  | t => [Item.link p t]

def init (oldRoot : Option (Bool × T)) (newP : Bool) (newRoot : T) : St :=
  { old := match oldRoot with | none => [] | some (p, t) => rootItems p t,
    new := rootItems newP newRoot, memoOld := [], memoNew := [] }

def isEntryEv : DEv → Bool
  | .add _ _ | .rem _ _ | .chg _ _ _ => true
  | _ => false

end Diff
end Mast
