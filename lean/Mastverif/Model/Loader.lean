import Mastverif.Model.Store
import Mastverif.Model.Json
/-!
# ML — `LoadMast` (pub.go:561-614) with the checks in the order the Go code runs them

format switch → load of the top node (missing ⇒ error) → decode (`unmarshalMastNode`) →
`checkDecodedNode` (counts, strictly ascending keys) → `checkRoot` (ascending again, every key's
layer ≥ recorded height).  The outcome type keeps `err` apart from `panic`: the property C19 is
that a bad root is *rejected with an error*.
-/
namespace Mast
namespace Loader

inductive Outcome where
  | ok
  | err (why : String)
  | panic (why : String)
  deriving Repr, DecidableEq

/-- the formats `LoadMast` knows: "" and "v1marshaler" (JSON), "v1.1.5binary" -/
def knownFormat (f : String) : Option Fmt :=
  if f = "v1.1.5binary" then some .bin
  else if f = "" ∨ f = "v1marshaler" then some .json
  else none

def unquote (b : Bytes) : Option Bytes :=
  match b with
  | 34 :: rest =>
      match rest.reverse with
      | 34 :: mid => some mid.reverse
      | _ => none
  | _ => none

/-- `json.Unmarshal(body, &key)` for the key kinds of the harness; `none` = unmarshal error -/
def parseKey (kk : KeyKind) (b : Bytes) : Option Nat :=
  match kk with
  | .vk | .u64 | .uint => (Codec.parseNat b).bind fun n => if n < 2 ^ 64 then some n else none   -- uint64 range
  | .i64 | .int =>
      match b with
      | 45 :: rest => (Codec.parseNat rest).bind fun n => if n ≤ Codec.i64bias ∧ n ≠ 0 then some (Codec.i64bias - n) else none
      | _ => (Codec.parseNat b).bind fun n => if n < 2 ^ 63 then some (n + Codec.i64bias) else none   -- int64 range
  | .str =>
      match unquote b with
      | some s =>
          if s.all (fun c => 97 ≤ c && c ≤ 122) then some (s.foldl (fun acc c => acc * 26 + (c.toNat - 97)) 0) else none
      | none => none
  | .bytes | .sk | .skc => none

/-- strictly ascending under the loader's key order (`desc` = a reversed `KeyCompare`) -/
def ascending (desc : Bool) : List Nat → Bool
  | a :: b :: rest => (if desc then b < a else a < b) && ascending desc (b :: rest)
  | _ => true

/-- decode (with the format's decoder `dec`) + validate the top node under the loader's
    configuration -/
def checkTop (dec : Bytes → Option Codec.RawNode) (kk : KeyKind) (layer : Nat → Nat) (height : Nat)
    (desc : Bool) (bytes : Bytes) : Outcome :=
  match dec bytes with
  | none => .err "undecodable"
  | some raw =>
      -- absent bodies decode to nil keys, which the key order rejects
      match raw.keys.mapM (fun b => b.bind (parseKey kk)) with
      | none => .err "key"
      | some keys =>
          let nl := if raw.links.length = 0 then keys.length + 1 else raw.links.length
          -- a present value body must unmarshal (values are uint64 in the harness's bad-root family)
          if raw.vals.any (fun b => match b with | some body => (Codec.parseNat body).isNone | none => false) then .err "value"
          else if keys.length ≠ raw.vals.length ∨ nl ≠ keys.length + 1 then .err "counts"
          else if ¬ ascending desc keys then .err "order"
          else if keys.any (fun k => layer k < height) then .err "layer"
          else .ok

/-- format "v1.1.5binary" (`unmarshalMastNode`) -/
abbrev checkTopBin := checkTop Codec.decBinRaw
/-- format "v1marshaler" (`unmarshalStringNode`, canonical shape: see Model/Json.lean) -/
abbrev checkTopJson := checkTop Json.decJson

/-- `LoadMast`: `top = none` means the store has no node under the root's link -/
def loadMast (fmt : String) (kk : KeyKind) (layer : Nat → Nat) (height : Nat) (desc : Bool)
    (link : Bool) (top : Option Bytes) : Outcome :=
  match knownFormat fmt with
  | none => .err "format"
  | some f =>
      if ¬ link then .ok     -- empty tree: nothing to load
      else match top with
        | none => .err "missing"
        | some bytes =>
            match f with
            | .bin => checkTopBin kk layer height desc bytes
            | .json => checkTopJson kk layer height desc bytes

end Loader
end Mast
