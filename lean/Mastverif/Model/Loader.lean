import Mastverif.Model.Store
import Mastverif.Model.Json
/-!
# ML — `LoadMast` (pub.go:561-614) with the checks in the order the Go code runs them

format switch → load of the top node (missing ⇒ error) → decode (`unmarshalMastNode`) →
`checkDecodedNode` (counts, strictly ascending keys) → `checkRoot` (ascending again, every key's
layer ≥ recorded height).  The outcome type keeps `err` apart from `panic`: the property C19 is
that a bad root is *rejected with an error*.
-/
namespace Mast
namespace Loader

inductive Outcome where
  | ok
  | err (why : String)
  | panic (why : String)
  deriving Repr, DecidableEq

/-- the formats `LoadMast` knows: "" and "v1marshaler" (JSON), "v1.1.5binary" -/
def knownFormat (f : String) : Option Fmt :=
  if f = "v1.1.5binary" then some .bin
  else if f = "" ∨ f = "v1marshaler" then some .json
  else none

def unquote (b : Bytes) : Option Bytes :=
  match b with
  | 34 :: rest =>
      match rest.reverse with
      | 34 :: mid => some mid.reverse
      | _ => none
  | _ => none

/-- `json.Unmarshal(body, &key)` for the key kinds of the harness; `none` = unmarshal error -/
def parseKey (kk : KeyKind) (b : Bytes) : Option Nat :=
  match kk with
  | .vk | .u64 | .uint => (Codec.parseNat b).bind fun n => if n < 2 ^ 64 then some n else none   -- uint64 range
  | .i64 | .int =>
      match b with
      | 45 :: rest => (Codec.parseNat rest).bind fun n => if n ≤ Codec.i64bias ∧ n ≠ 0 then some (Codec.i64bias - n) else none
      | _ => (Codec.parseNat b).bind fun n => if n < 2 ^ 63 then some (n + Codec.i64bias) else none   -- int64 range
  | .str =>
      match unquote b with
      | some s =>
          if s.all (fun c => 97 ≤ c && c ≤ 122) then some (s.foldl (fun acc c => acc * 26 + (c.toNat - 97)) 0) else none
      | none => none
  | .i64w =>
      match b with
      | 45 :: rest => (Codec.parseNat rest).bind fun n => if n ≤ 2 ^ 63 ∧ n ≠ 0 then some (2 ^ 63 - n) else none
      | _ => (Codec.parseNat b).bind fun n => if n < 2 ^ 63 then some (n + 2 ^ 63) else none
  | .bytes | .sk | .skc | .strx => none

/-- strictly ascending under the loader's key order (`desc` = a reversed `KeyCompare`) -/
def ascending (desc : Bool) : List Nat → Bool
  | a :: b :: rest => (if desc then b < a else a < b) && ascending desc (b :: rest)
  | _ => true

/-- a present value body that does not unmarshal (values are uint64 in the harness's bad-root family) -/
def badVals (raw : Codec.RawNode) : Bool :=
  raw.vals.any (fun b => match b with | some body => (Codec.parseNat body).isNone | none => false)

/-- decode (with the format's decoder `dec`) + validate the top node under the loader's
    configuration -/
def checkTop (dec : Bytes → Option Codec.RawNode) (kk : KeyKind) (layer : Nat → Nat) (height : Nat)
    (desc : Bool) (bytes : Bytes) : Outcome :=
  match dec bytes with
  | none => .err "undecodable"
  | some raw =>
      -- absent bodies decode to nil keys, which the key order rejects
      match raw.keys.mapM (fun b => b.bind (parseKey kk)) with
      | none => .err "key"
      | some keys =>
          let nl := if raw.links.length = 0 then keys.length + 1 else raw.links.length
          -- a present value body must unmarshal (values are uint64 in the harness's bad-root family)
          if badVals raw then .err "value"
          else if keys.length ≠ raw.vals.length ∨ nl ≠ keys.length + 1 then .err "counts"
          else if ¬ ascending desc keys then .err "order"
          else if keys.any (fun k => layer k < height) then .err "layer"
          else .ok

/-- format "v1.1.5binary" (`unmarshalMastNode`) -/
abbrev checkTopBin := checkTop Codec.decBinRaw
/-- format "v1marshaler" (`unmarshalStringNode`, canonical shape: see Model/Json.lean) -/
abbrev checkTopJson := checkTop Json.decJson

/-- `LoadMast`: `top = none` means the store has no node under the root's link -/
def loadMast (fmt : String) (kk : KeyKind) (layer : Nat → Nat) (height : Nat) (desc : Bool)
    (link : Bool) (top : Option Bytes) : Outcome :=
  match knownFormat fmt with
  | none => .err "format"
  | some f =>
      if ¬ link then .ok     -- empty tree: nothing to load
      else match top with
        | none => .err "missing"
        | some bytes =>
            match f with
            | .bin => checkTopBin kk layer height desc bytes
            | .json => checkTopJson kk layer height desc bytes

/-! ## the node cache in front of the store (store.go:36-42, 84-86)

`loadPersisted` asks the `NodeCache` first, under the key `<store prefix>/<name>`; a hit returns
the cached node OBJECT and nothing is read or decoded.  The object was made by whichever reader
(or writer) of that store put it there: its keys have the Go type of THAT configuration, and the
default key order and layer function dispatch on the dynamic type of the key they are given. -/

/-- a top-node object in the cache: made under key kind `kk` -/
structure CachedTop where
  kk : KeyKind
  keys : List Nat
  nvals : Nat
  nlinks : Nat
  deriving Repr, DecidableEq

/-- `checkRoot` on a cached object (no decoding happens; counts, order, layers) -/
def checkCached (layerOf : KeyKind → Nat → Nat) (height : Nat) (desc : Bool) (c : CachedTop) : Outcome :=
  if c.keys.length ≠ c.nvals ∨ c.nlinks ≠ c.keys.length + 1 then .err "counts"
  else if ¬ ascending desc c.keys then .err "order"
  else if c.keys.any (fun k => layerOf c.kk k < height) then .err "layer"
  else .ok

/-- the entry a reader configured with decoder `dec`, key kind `kk` and order `desc` leaves in the
    cache after it has loaded `bytes` (`none`: its load fails, nothing is cached) -/
def cacheEntry (dec : Bytes → Option Codec.RawNode) (kk : KeyKind) (desc : Bool) (bytes : Bytes) : Option CachedTop :=
  match dec bytes with
  | none => none
  | some raw =>
      match raw.keys.mapM (fun b => b.bind (parseKey kk)) with
      | none => none
      | some keys =>
          let nl := if raw.links.length = 0 then keys.length + 1 else raw.links.length
          if badVals raw then none
          else if keys.length ≠ raw.vals.length ∨ nl ≠ keys.length + 1 then none
          else if ¬ ascending desc keys then none
          else some { kk := kk, keys := keys, nvals := raw.vals.length, nlinks := nl }

/-- `LoadMast` with a node cache: `cached` is what the cache holds under the root's link -/
def loadMastC (fmt : String) (kk : KeyKind) (layerOf : KeyKind → Nat → Nat) (height : Nat) (desc : Bool)
    (link : Bool) (cached : Option CachedTop) (top : Option Bytes) : Outcome :=
  match knownFormat fmt with
  | none => .err "format"
  | some f =>
      if ¬ link then .ok
      else match cached with
        | some c => checkCached layerOf height desc c
        | none =>
          match top with
          | none => .err "missing"
          | some bytes =>
              match f with
              | .bin => checkTopBin kk (layerOf kk) height desc bytes
              | .json => checkTopJson kk (layerOf kk) height desc bytes

end Loader
end Mast
