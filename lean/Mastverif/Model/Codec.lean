/-!
# MS — bytes: the two node formats, key/value forms, base64

`encBin` / `decBin` transcribe codec.go (format "v1.1.5binary"); `encJson` transcribes what
`encoding/json` produces for `mast.Node` (format "v1marshaler") for the modelled key and
value kinds.  A node is given by its marshaled keys, marshaled values and child names
(`none` = nil link).
-/
namespace Mast

abbrev Bytes := List UInt8

structure NodeB where
  keys : List Bytes
  vals : List Bytes
  links : List (Option Bytes)
  deriving Repr, DecidableEq, Inhabited

namespace Codec

/-- `binary.PutUvarint` -/
def uvarint (n : Nat) : Bytes :=
  if h : n < 128 then [n.toUInt8] else (n % 128 + 128).toUInt8 :: uvarint (n / 128)
termination_by n
decreasing_by omega

/-- `binary.Uvarint`: `none` = the Go function returns a non-positive length -/
def readUvarintAux : Nat → Nat → Nat → Bytes → Option (Nat × Bytes)
  | 0, _, _, _ => none
  | _, _, _, [] => none
  | fuel+1, acc, shift, b :: rest =>
      if b.toNat < 128 then
        if fuel + 1 = 1 ∧ b.toNat > 1 then none   -- 10th byte may only be 0 or 1
        else some (acc + b.toNat * 2 ^ shift, rest)
      else readUvarintAux fuel (acc + (b.toNat - 128) * 2 ^ shift) (shift + 7) rest

def readUvarint (b : Bytes) : Option (Nat × Bytes) := readUvarintAux 10 0 0 b

/-- `decodeLength` (codec.go, with the bound check of the repaired loader) -/
def decodeLength (b : Bytes) : Option (Nat × Bytes) :=
  match readUvarint b with
  | none => none
  | some (k, rest) => if k > rest.length then none else some (k, rest)

/-- `decodeBytes`: a zero length reads as "absent" (`none`) -/
def decodeBytes (b : Bytes) : Option (Option Bytes × Bytes) :=
  match decodeLength b with
  | none => none
  | some (0, rest) => some (none, rest)
  | some (n, rest) => some (some (rest.take n), rest.drop n)

def decodeSlice : Nat → Bytes → Option (List (Option Bytes) × Bytes)
  | 0, b => some ([], b)
  | n+1, b =>
      match decodeBytes b with
      | none => none
      | some (x, rest) =>
          match decodeSlice n rest with
          | none => none
          | some (xs, rest') => some (x :: xs, rest')

def decodeCounted (b : Bytes) : Option (List (Option Bytes) × Bytes) :=
  match decodeLength b with
  | none => none
  | some (n, rest) => decodeSlice n rest

def appendSlice (l : List Bytes) : Bytes :=
  uvarint l.length ++ (l.map fun body => uvarint body.length ++ body).flatten

/-- `marshalMastNode` on a node whose link list was trimmed to nil when all links are nil
    (store.go `trimmed`) -/
def encBin (n : NodeB) : Bytes :=
  appendSlice n.keys ++ appendSlice n.vals ++
    (if n.links.all Option.isNone then uvarint 0
     else appendSlice (n.links.map fun l => l.getD []))

/-- raw decode: three counted slices; `none` bodies are absent elements -/
structure RawNode where
  keys : List (Option Bytes)
  vals : List (Option Bytes)
  links : List (Option Bytes)
  deriving Repr, DecidableEq

/-- `unmarshalMastNode` (the remaining bytes after the link list are ignored, as in Go) -/
def decBinRaw (b : Bytes) : Option RawNode :=
  match decodeCounted b with
  | none => none
  | some (ks, r1) =>
    match decodeCounted r1 with
    | none => none
    | some (vs, r2) =>
      match decodeCounted r2 with
      | none => none
      | some (ls, _) => some { keys := ks, vals := vs, links := ls }

/-! ## decimal, base64, JSON strings -/

def digits (n : Nat) : Bytes := (toString n).toUTF8.toList

def isWs (b : UInt8) : Bool := b == 32 || b == 9 || b == 10 || b == 13

/-- strict JSON unsigned integer (no leading zeros), surrounding JSON whitespace allowed,
    as `json.Unmarshal` into a `uint64` accepts it -/
def parseNat (b : Bytes) : Option Nat :=
  let b := (b.dropWhile isWs).reverse.dropWhile isWs |>.reverse
  match b with
  | [] => none
  | [48] => some 0
  | 48 :: _ => none
  | _ =>
    if b.all (fun c => 48 ≤ c && c ≤ 57) then
      some (b.foldl (fun acc c => acc * 10 + (c.toNat - 48)) 0)
    else none

def b64stdAlphabet : Array UInt8 :=
  "ABCDEFGHIJKLMNOPQRSTUVWXYZabcdefghijklmnopqrstuvwxyz0123456789+/".toUTF8.data
def b64urlAlphabet : Array UInt8 :=
  "ABCDEFGHIJKLMNOPQRSTUVWXYZabcdefghijklmnopqrstuvwxyz0123456789-_".toUTF8.data

def b64enc (alpha : Array UInt8) (pad : Bool) : Bytes → Bytes
  | a :: b :: c :: rest =>
      let n := a.toNat * 65536 + b.toNat * 256 + c.toNat
      alpha[n / 262144]! :: alpha[n / 4096 % 64]! :: alpha[n / 64 % 64]! :: alpha[n % 64]! ::
        b64enc alpha pad rest
  | [a, b] =>
      let n := a.toNat * 65536 + b.toNat * 256
      [alpha[n / 262144]!, alpha[n / 4096 % 64]!, alpha[n / 64 % 64]!] ++ (if pad then [61] else [])
  | [a] =>
      let n := a.toNat * 65536
      [alpha[n / 262144]!, alpha[n / 4096 % 64]!] ++ (if pad then [61, 61] else [])
  | [] => []

/-- `base64.RawURLEncoding.EncodeToString` -/
def b64url (b : Bytes) : Bytes := b64enc b64urlAlphabet false b
/-- `base64.StdEncoding` (what `encoding/json` uses for `[]byte`) -/
def b64std (b : Bytes) : Bytes := b64enc b64stdAlphabet true b

def quote (b : Bytes) : Bytes := 34 :: b ++ [34]

def hexDigit (n : Nat) : UInt8 := if n < 10 then (48 + n).toUInt8 else (87 + n).toUInt8

/-- one byte of a string under `encoding/json`'s escaping with `escapeHTML` (what `json.Marshal`
    does): `"` and `\`, the short forms `\n \r \t`, `\u00XX` for the other control bytes and for
    `<`, `>`, `&`; everything else (0x7f and the bytes of multi-byte runes included) as it is -/
def jsonEscByte (b : UInt8) : Bytes :=
  if b == 34 then [92, 34] else if b == 92 then [92, 92]
  else if b == 10 then [92, 110] else if b == 13 then [92, 114] else if b == 9 then [92, 116]
  else if b < 32 || b == 60 || b == 62 || b == 38 then
    [92, 117, 48, 48, hexDigit (b.toNat / 16), hexDigit (b.toNat % 16)]
  else [b]

/-- the body of a JSON string as `json.Marshal` writes it, for valid UTF-8: bytewise as above,
    and U+2028 / U+2029 (E2 80 A8 / E2 80 A9) as `\u2028` / `\u2029` -/
def jsonEsc : Bytes → Bytes
  | [] => []
  | b :: c :: d :: rest2 =>
      if b == 226 && c == 128 && (d == 168 || d == 169) then
        [92, 117, 50, 48, 50, if d == 168 then 56 else 57] ++ jsonEsc rest2
      else jsonEscByte b ++ jsonEsc (c :: d :: rest2)
  | b :: rest => jsonEscByte b ++ jsonEsc rest
termination_by l => l.length
decreasing_by all_goals simp <;> omega

/-- `json.Marshal` of a string -/
def quoteEsc (b : Bytes) : Bytes := quote (jsonEsc b)

def joinComma : List Bytes → Bytes
  | [] => []
  | [x] => x
  | x :: xs => x ++ 44 :: joinComma xs

def jsonArray (l : List Bytes) : Bytes := 91 :: joinComma l ++ [93]

def str (s : String) : Bytes := s.toUTF8.toList

/-- the literal parts of a v1marshaler node, as bytes: `{"Key":`  `,"Value":`  `,"Link":`  `null` -/
def litKey : Bytes := [123, 34, 75, 101, 121, 34, 58]
def litValue : Bytes := [44, 34, 86, 97, 108, 117, 101, 34, 58]
def litLink : Bytes := [44, 34, 76, 105, 110, 107, 34, 58]
def litNull : Bytes := [110, 117, 108, 108]

/-- a link inside a present list: `null` or the quoted name -/
def linkText (l : Option Bytes) : Bytes := match l with | none => litNull | some nm => quote nm

/-- `json.Marshal(node.Node)` for format "v1marshaler": `Link` omitted when trimmed to nil,
    nil links inside a present list are `null` -/
def encJson (n : NodeB) : Bytes :=
  litKey ++ jsonArray n.keys ++ litValue ++ jsonArray n.vals ++
    (if n.links.all Option.isNone then [] else litLink ++ jsonArray (n.links.map linkText)) ++ [125]

end Codec

/-! ## key and value kinds driven by the harness -/

inductive KeyKind where
  | vk      -- user `mast.Key` type: uint64 with explicit layer `k % 256`, JSON decimal
  | u64     -- uint64, `uintLayer`
  | i64     -- int64 `k - bias`, `intLayer`
  | str     -- fixed-width lower-case string, `stringLayer`
  | bytes   -- fixed-width `[]byte`, `blobLayer`
  | int     -- Go `int` (as i64)
  | uint    -- Go `uint` (as u64)
  | sk      -- struct `{A string}`: ordered by, and layered on, its marshaled form
  | skc     -- struct key of a tree with a CUSTOM marshaler: marshaled form `"c:<letters>"`
  | i64w    -- int64 anywhere in its range: the code is the value with the sign bit flipped (value = code - 2^63)
  | strx    -- string: the five letters followed by a fragment that `encoding/json` escapes (or not)
  deriving Repr, DecidableEq, Inhabited

inductive ValKind where
  | u64     -- uint64, JSON decimal
  | bytes   -- `[]byte` of the decimal digits (an uncomparable Go value), JSON base64
  | str     -- string of the decimal digits
  | ptr     -- `*uint64` (compared by pointee, never by address), JSON decimal
  | iface   -- struct with an `interface{}` field holding a slice: `{"X":["<digits>"]}`
  | nb      -- `[]byte` as above, except 1 is the nil slice (`null`) and 2 the empty slice (`""`)
  | long    -- long string: `<digits>-` and filler; marshaled length 127, 128, 129, 16383, 16384, 16385 (v % 6)
  | esc     -- string `<digits>-` followed by a fragment that `encoding/json` escapes (or not)
  | np      -- `*uint64` that may be nil: 1 is the typed nil pointer (`null`), anything else points to the number
  | agg     -- struct with omitempty slice / map / string fields, of which exactly one is set (v % 3), and a number
  deriving Repr, DecidableEq, Inhabited

namespace Codec

def i64bias : Nat := 1048576

/-- 5 letters 'a'..'z', big-endian base 26: order-preserving -/
def strKey (k : Nat) : Bytes :=
  [k / 456976 % 26, k / 17576 % 26, k / 676 % 26, k / 26 % 26, k % 26].map fun d => (97 + d).toUInt8

/-- fragments around `encoding/json`'s string escaping: `<` `>` `&` `"` `\` LF TAB CR 0x01 0x1f 0x7f,
    U+00E9, U+2028, U+2029, `/`, a mixed text, a CJK pair, an astral rune -/
def escFrags : List Bytes :=
  [[60], [62], [38], [34], [92], [10], [9], [13], [1], [31], [127], [195, 169], [226, 128, 168], [226, 128, 169],
   [47], [97, 60, 98, 38, 99, 62, 100], [230, 151, 165, 230, 156, 172], [240, 159, 152, 128]]

def escFrag (n : Nat) : Bytes := escFrags[n % 18]!

/-- 3 bytes big-endian: order-preserving under `bytes.Compare` -/
def bytesKey (k : Nat) : Bytes := [(k / 65536 % 256).toUInt8, (k / 256 % 256).toUInt8, (k % 256).toUInt8]

/-- the bytes the Go key consists of (for the built-in blob layers) -/
def keyRaw (kk : KeyKind) (k : Nat) : Bytes :=
  match kk with
  | .str => strKey k
  | .strx => strKey k ++ escFrag k
  | .bytes => bytesKey k
  | .sk => str "{\"A\":" ++ quote (strKey k) ++ str "}"
  | .skc => quote ([99, 58] ++ strKey k)
  | _ => digits k

/-- `json.Marshal(key)` -/
def keyBytes (kk : KeyKind) (k : Nat) : Bytes :=
  match kk with
  | .vk | .u64 | .uint => digits k
  | .i64 | .int => if k ≥ i64bias then digits (k - i64bias) else 45 :: digits (i64bias - k)
  | .i64w => if k ≥ 2 ^ 63 then digits (k - 2 ^ 63) else 45 :: digits (2 ^ 63 - k)
  | .sk => str "{\"A\":" ++ quote (strKey k) ++ str "}"
  | .skc => quote ([99, 58] ++ strKey k)
  | .str => quote (strKey k)
  | .strx => quoteEsc (strKey k ++ escFrag k)
  | .bytes => quote (b64std (bytesKey k))

/-- `json.Marshal(value)` -/
def valBytes (vk : ValKind) (v : Nat) : Bytes :=
  match vk with
  | .u64 => digits v
  | .bytes => quote (b64std (digits v))
  | .nb => if v = 1 then litNull else if v = 2 then [34, 34] else quote (b64std (digits v))
  | .str => quote (digits v)
  | .esc => quoteEsc (digits v ++ 45 :: escFrag v)
  | .ptr => digits v
  | .np => if v = 1 then litNull else digits v
  | .iface => str "{\"X\":[" ++ quote (digits v) ++ str "]}"
  | .agg =>
      (if v % 3 = 0 then str "{\"a\":[" ++ digits v ++ [44] ++ digits (v + 1) ++ str "],"
       else if v % 3 = 1 then str "{\"m\":{" ++ quote (107 :: digits v) ++ [58] ++ digits v ++ str "},"
       else str "{\"s\":" ++ quote (115 :: digits v) ++ [44]) ++ str "\"n\":" ++ digits v ++ [125]
  | .long =>
      let head := digits v ++ [45]
      let total := [127, 128, 129, 16383, 16384, 16385][v % 6]! - 2
      quote (head ++ List.replicate (total - head.length) (97 + v % 26).toUInt8)

end Codec
end Mast
