/-!
# M1/M2 — the tree as a value (with residency flags)

Transcription of the value-level behaviour of lib.go / pub.go of jrhy/mast.

A *node* (`mastNode`: n entries, n+1 links) is represented as a **row**: the right spine of
a binary tree.  `cons p c k v r` = "child link `c`, then entry `(k,v)`, then the rest `r` of
the same node"; `last p c` = "final child link `c`; end of node"; `nil` = absent link.
The Boolean `p` on a link says that the Go link is a *name* (a string: the child is persisted
and unmodified) rather than a pointer to an in-memory node.  It has no influence on any
value-level result; it exists so that the same model yields load and store traces.

Keys are `Nat` (any strict total order embeds), the layer function is a parameter
`layer : Nat → Nat` wherever it matters.
-/
namespace Mast

abbrev Key := Nat
abbrev Val := Nat

inductive T where
  | nil : T
  | last (p : Bool) (c : T) : T
  | cons (p : Bool) (c : T) (k : Nat) (v : Nat) (r : T) : T
  deriving Repr, DecidableEq, Inhabited

namespace T

/-- in-order entries = what `Iter` yields (lib.go:509-532) -/
def toList : T → List (Nat × Nat)
  | nil => []
  | last _ c => toList c
  | cons _ c k v r => toList c ++ (k, v) :: toList r

def isNil : T → Bool
  | nil => true
  | _ => false

/-- `isEmpty()` ⇒ the link to the node becomes nil (lib.go:183-185, 130, 170, 64-68) -/
def mk : T → T
  | last _ nil => nil
  | t => t

/-- a nil link read as an (empty) node -/
def unmk : T → T
  | nil => last false nil
  | t => t

/-- number of entries of the node that starts here -/
def rowLen : T → Nat
  | cons _ _ _ _ r => rowLen r + 1
  | _ => 0

/-- `split` (lib.go:82-181): one spine, both halves are new in-memory nodes. -/
def split : T → Nat → T × T
  | nil, _ => (nil, nil)
  | last _ c, x =>
      let q := split c x
      (last false (mk q.1), last false (mk q.2))
  | cons p c k v r, x =>
      if k < x then
        let q := split r x
        (cons p c k v q.1, q.2)
      else
        let q := split c x
        (last false (mk q.1), cons false (mk q.2) k v r)

/-- the chain that `follow(createOk)` + Insert build under an absent link:
    `n` pass-through nodes and a one-entry node -/
def freshPath : Nat → Nat → Nat → T
  | 0, k, v => cons false nil k v (last false nil)
  | n+1, k, v => last false (freshPath n k v)

/-- Insert below a node `s` levels above the key's target level (pub.go Insert + findNode +
    savePathForRoot, without grow).  `none` = the Go code panics ("dunno why we didn't land in
    the right layer": the key sits above its layer). Every link on the path becomes a pointer. -/
def ins (k : Nat) (v : Nat) : Nat → T → Option T
  | s, nil => some (freshPath s k v)
  | 0, last _ c =>
      let q := split c k
      some (cons false (mk q.1) k v (last false (mk q.2)))
  | 0, cons p c k' v' r =>
      if k' < k then (ins k v 0 r).map (cons p c k' v')
      else if k' = k then some (cons p c k v r)
      else
        let q := split c k
        some (cons false (mk q.1) k v (cons false (mk q.2) k' v' r))
  | s+1, last _ c => (ins k v s c).map (last false)
  | s+1, cons p c k' v' r =>
      if k' < k then (ins k v (s+1) r).map (cons p c k' v')
      else if k' = k then none
      else (ins k v s c).map (fun c' => cons false c' k' v' r)

/-- lookup along the same descent (pub.go Get + findNode) -/
def get (k : Nat) : Nat → T → Option Nat
  | _, nil => none
  | 0, last _ _ => none
  | 0, cons _ _ k' v' r =>
      if k' < k then get k 0 r else if k' = k then some v' else none
  | s+1, last _ c => get k s c
  | s+1, cons _ c k' _ r =>
      if k' < k then get k (s+1) r else if k' = k then none else get k s c

/-- `mergeNodes` (lib.go:601-643) on two node rows: concatenate, merging along one spine.
    A nil side returns the other link unchanged (flag kept). -/
def mergeRow : T → T → T
  | nil, r => r
  | cons p c k v rest, r => cons p c k v (mergeRow rest r)
  | last p c, r =>
      match r with
      | nil => last p c
      | last p2 c2 =>
          if c.isNil then last p2 c2
          else if c2.isNil then last p c
          else last false (mergeRow c c2)
      | cons p2 c2 k v r2 =>
          if c.isNil then cons p2 c2 k v r2
          else if c2.isNil then cons p c k v r2
          else cons false (mergeRow c c2) k v r2

/-- `deleteEntry` (pub.go:155-168): the entry left of row `r` is removed; its left link
    `(p, c)` is merged with the first link of `r`. -/
def joinAt (p : Bool) (c : T) : T → T
  | nil => nil
  | last p2 c2 =>
      if c.isNil then last p2 c2 else if c2.isNil then last p c else last false (mergeRow c c2)
  | cons p2 c2 k v r =>
      if c.isNil then cons p2 c2 k v r else if c2.isNil then cons p c k v r
      else cons false (mergeRow c c2) k v r

/-- Delete below a node `s` levels above the key's target level (pub.go Delete + findEntry +
    deleteEntry + the pruning loop of savePathForRoot).  `none` = "not present". -/
def del (k : Nat) : Nat → T → Option T
  | _, nil => none
  | 0, last _ _ => none
  | 0, cons p c k' v' r =>
      if k' < k then (del k 0 r).map (cons p c k' v')
      else if k' = k then some (joinAt p c r)
      else none
  | s+1, last _ c => (del k s c).map (fun c' => last false (mk c'))
  | s+1, cons p c k' v' r =>
      if k' < k then (del k (s+1) r).map (cons p c k' v')
      else if k' = k then none
      else (del k s c).map (fun c' => cons false (mk c') k' v' r)

/-- `shrink` (lib.go:382-449): every child row is spliced into the top row -/
def snoc (k : Nat) (v : Nat) (rest : T) : T → T
  | nil => cons false nil k v rest
  | last p x => cons p x k v rest
  | cons p c k' v' r => cons p c k' v' (snoc k v rest r)

def shrink : T → T
  | nil => nil
  | last _ c => unmk c
  | cons _ c k v r => snoc k v (shrink r) c

/-- `grow` (lib.go:299-367): keys of layer > h move up; the runs between them become children -/
def prepend (p : Bool) (c : T) (k : Nat) (v : Nat) : T → T
  | nil => nil
  | last _ ch => last false (cons p c k v (unmk ch))
  | cons _ ch k2 v2 r2 => cons false (cons p c k v (unmk ch)) k2 v2 r2

def grow (layer : Nat → Nat) (h : Nat) : T → T
  | nil => nil
  | last p c => last false (mk (last p c))
  | cons p c k v r =>
      if h < layer k then cons false (mk (last p c)) k v (grow layer h r)
      else prepend p c k v (grow layer h r)

/-- `canGrow` (lib.go:369-380) -/
def canGrow (layer : Nat → Nat) (h : Nat) : T → Bool
  | cons _ _ k _ r => h < layer k || canGrow layer h r
  | _ => false

/-- forget residency -/
def erase : T → T
  | nil => nil
  | last _ c => last false (erase c)
  | cons _ c k v r => cons false (erase c) k v (erase r)

/-- mark everything below as persisted (what a successful flush does to the links) -/
def persistAll : T → T
  | nil => nil
  | last _ c => last true (persistAll c)
  | cons _ c k v r => cons true (persistAll c) k v (persistAll r)

end T

/-- `Mast` (lib.go:14-32), value part.  `root` is the row of the top node (never `nil`:
    an empty tree has the entry-less top node `last false nil`). -/
structure Tree where
  root : T
  rootP : Bool          -- the root link is a name (persisted, unmodified)
  dirty : Bool          -- `IsDirty()`: the top node is in memory and flagged dirty
  size : Nat
  height : Nat
  bf : Nat
  growAfter : Nat
  shrinkBelow : Nat
  deriving Repr, DecidableEq, Inhabited

namespace Tree
open T

/-- `NewRoot(...).LoadMast` on an empty root (pub.go:561-614): thresholds bf^0, bf^1 -/
def empty (bf : Nat) : Tree :=
  { root := last false nil, rootP := false, dirty := false, size := 0, height := 0, bf := bf,
    growAfter := bf, shrinkBelow := 1 }

def levels (layer : Nat → Nat) (m : Tree) (k : Nat) : Nat :=
  m.height - min (layer k) m.height

def lookup (layer : Nat → Nat) (m : Tree) (k : Nat) : Option Nat :=
  get k (m.levels layer k) m.root

/-- one `grow()` (lib.go:299-367) -/
def growStep (layer : Nat → Nat) (m : Tree) : Tree :=
  { m with root := grow layer m.height m.root, height := m.height + 1,
           shrinkBelow := m.growAfter, growAfter := m.growAfter * m.bf }

/-- the grow loop of Insert (pub.go:487-503); `size` is still the old size here -/
def growLoop (layer : Nat → Nat) : Nat → Tree → Tree
  | 0, m => m
  | fuel+1, m =>
      if m.size ≥ m.growAfter ∧ canGrow layer m.height m.root then
        growLoop layer fuel (growStep layer m)
      else m

inductive Res (α : Type) where
  | ok (a : α)
  | err (kind : String)
  | panic (kind : String)
  deriving Repr

/-- `Insert` (pub.go:392-506) -/
def insert (layer : Nat → Nat) (m : Tree) (k : Nat) (v : Nat) : Res Tree :=
  match m.lookup layer k with
  | some v' =>
      if v' = v then .ok m
      else match ins k v (m.levels layer k) m.root with
        | some r => .ok { m with root := r, rootP := false, dirty := true }
        | none => .panic "layer"
  | none =>
      match ins k v (m.levels layer k) m.root with
      | none => .panic "layer"
      | some r =>
          let m1 := growLoop layer (m.size + 1) { m with root := r, rootP := false, dirty := true }
          .ok { m1 with size := m.size + 1 }

def topEntryless : T → Bool
  | cons _ _ _ _ _ => false
  | _ => true

/-- one `shrink()` (lib.go:382-449) -/
def shrinkStep (m : Tree) : Tree :=
  { m with root := T.shrink m.root, height := m.height - 1,
           shrinkBelow := if m.shrinkBelow > 1 then m.shrinkBelow / m.bf else m.shrinkBelow,
           growAfter := if m.shrinkBelow > 1 then m.growAfter / m.bf else m.growAfter }

/-- the shrink loop of Delete (pub.go:120-125, with the repaired rule) -/
def shrinkLoop : Nat → Tree → Tree
  | 0, m => m
  | fuel+1, m =>
      if m.height > 0 ∧ (m.size ≤ m.shrinkBelow ∨ topEntryless m.root) then
        shrinkLoop fuel (shrinkStep m)
      else m

/-- `Delete` (pub.go:89-127) -/
def delete (layer : Nat → Nat) (m : Tree) (k : Nat) (v : Nat) : Res Tree :=
  match m.lookup layer k with
  | none => .err "notpresent"
  | some v' =>
      if v' ≠ v then .err "valuemismatch"
      else match del k (m.levels layer k) m.root with
        | none => .err "notpresent"
        | some r =>
            .ok (shrinkLoop (m.height + 1) { m with root := r, rootP := false, dirty := true, size := m.size - 1 })

/-- `Delete` whose height reduction stopped after `steps` completed `shrink()` calls because the
    next one failed to load a child (the recorded C12 finding): the entry is gone, the size is one
    less, the height is whatever the completed steps left -/
def deleteInterrupted (layer : Nat → Nat) (m : Tree) (k : Nat) (v : Nat) (steps : Nat) : Res Tree :=
  match m.lookup layer k with
  | none => .err "notpresent"
  | some v' =>
      if v' ≠ v then .err "valuemismatch"
      else match del k (m.levels layer k) m.root with
        | none => .err "notpresent"
        | some r =>
            .ok (shrinkLoop steps { m with root := r, rootP := false, dirty := true, size := m.size - 1 })

def toList (m : Tree) : List (Nat × Nat) := m.root.toList

end Tree
end Mast
