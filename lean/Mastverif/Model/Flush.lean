/-!
# MF — the worker pool of `flush` (pub.go:273-346) as an interleaving semantics

Producer (the recursive `node.store`, sending one closure per dirty node on the unbuffered
`storeQ`), dispatcher (`<-storeQ; <-gate; go worker`), workers (`firstStoreError` check, the
`Persist.Store` call, completion, `gate <- nil`, `wg.Done`), `close(storeQ)`, `wg.Wait()`.
Counting form: every control point is a 0/1 token counter, every population a counter, so
that each transition is linear arithmetic.  Schedules are arbitrary interleavings of `Step`;
`Store` calls may stay in flight arbitrarily long and fail arbitrarily.
-/
namespace Mast.MF

structure S where
  toSend : Nat          -- closures the producer still has to hand over
  closed : Nat          -- 1 after close(storeQ)
  dIdle : Nat           -- dispatcher control point: waiting on storeQ
  dHold : Nat           -- received a closure, waiting for a gate token
  dNil : Nat            -- received the close, waiting for a gate token
  dExit : Nat           -- dispatcher goroutine finished (its wg.Done ran)
  gate : Nat            -- free tokens
  nStart : Nat          -- workers spawned, not yet past the firstStoreError check
  nCalling : Nat        -- workers inside Persist.Store
  nExit : Nat           -- workers finished with their closure, token and wg.Done still pending
  okDone : Nat
  errDone : Nat
  skipped : Nat
  firstErr : Nat        -- 1 once some Store failed
  wg : Nat
  returned : Nat        -- 1 once wg.Wait() returned in flush
  deriving Repr, DecidableEq

def start (n pool : Nat) : S :=
  { toSend := n, closed := 0, dIdle := 1, dHold := 0, dNil := 0, dExit := 0, gate := pool,
    nStart := 0, nCalling := 0, nExit := 0, okDone := 0, errDone := 0, skipped := 0,
    firstErr := 0, wg := 1, returned := 0 }

inductive Step : S → S → Prop where
  | send (s) : s.toSend > 0 → s.dIdle > 0 → s.closed = 0 →
      Step s { s with toSend := s.toSend - 1, dIdle := s.dIdle - 1, dHold := s.dHold + 1 }
  | close (s) : s.toSend = 0 → s.closed = 0 → Step s { s with closed := 1 }
  | recvClose (s) : s.closed = 1 → s.dIdle > 0 →
      Step s { s with dIdle := s.dIdle - 1, dNil := s.dNil + 1 }
  | spawn (s) : s.dHold > 0 → s.gate > 0 →
      Step s { s with dHold := s.dHold - 1, dIdle := s.dIdle + 1, gate := s.gate - 1,
                      wg := s.wg + 1, nStart := s.nStart + 1 }
  | dispExit (s) : s.dNil > 0 → s.gate > 0 →
      Step s { s with dNil := s.dNil - 1, dExit := s.dExit + 1, gate := s.gate - 1, wg := s.wg - 1 }
  | checkSkip (s) : s.nStart > 0 → s.firstErr = 1 →
      Step s { s with nStart := s.nStart - 1, nExit := s.nExit + 1, skipped := s.skipped + 1 }
  | checkGo (s) : s.nStart > 0 → s.firstErr = 0 →
      Step s { s with nStart := s.nStart - 1, nCalling := s.nCalling + 1 }
  | storeOk (s) : s.nCalling > 0 →
      Step s { s with nCalling := s.nCalling - 1, nExit := s.nExit + 1, okDone := s.okDone + 1 }
  | storeErr (s) : s.nCalling > 0 →
      Step s { s with nCalling := s.nCalling - 1, nExit := s.nExit + 1, errDone := s.errDone + 1,
                      firstErr := 1 }
  | workerExit (s) : s.nExit > 0 →
      Step s { s with nExit := s.nExit - 1, gate := s.gate + 1, wg := s.wg - 1 }
  | waitReturn (s) : s.closed = 1 → s.wg = 0 → s.returned = 0 → Step s { s with returned := 1 }

inductive Reach (n pool : Nat) : S → Prop where
  | init : Reach n pool (start n pool)
  | step {s s'} : Reach n pool s → Step s s' → Reach n pool s'

/-! ## what an observer of the store sees

The harness's gated `Persist` records `StoreStart`, `StoreEnd ok|err` and the return of
`MakeRoot`.  `accept` replays such a trace against the conclusions that hold of every reachable
state (pool bound, barrier, error reporting); it is what the driver runs on observed traces. -/

inductive Ev where
  | startStore | endOk | endErr | retOk | retErr
  deriving Repr, DecidableEq

structure Obs where
  started : Nat := 0
  okDone : Nat := 0
  errDone : Nat := 0
  returned : Bool := false
  deriving Repr

def Obs.inflight (o : Obs) : Nat := o.started - (o.okDone + o.errDone)

def acceptStep (n pool : Nat) (exact : Bool) (o : Obs) : Ev → Option Obs
  | .startStore =>
      if o.returned ∨ o.started ≥ n ∨ o.inflight ≥ pool then none else some { o with started := o.started + 1 }
  | .endOk => if o.inflight = 0 then none else some { o with okDone := o.okDone + 1 }
  | .endErr => if o.inflight = 0 then none else some { o with errDone := o.errDone + 1 }
  | .retOk =>
      -- success: every queued write has completed, none failed, none is still in flight
      -- (`exact = false`: a shared node cache may already hold some of the n nodes; those are
      --  not written again, so fewer than n writes may be seen)
      if o.returned ∨ o.inflight ≠ 0 ∨ o.errDone ≠ 0 ∨ (if exact then o.okDone ≠ n else o.okDone ≠ o.started)
      then none else some { o with returned := true }
  | .retErr =>
      -- failure is reported only if a write failed, and only after all started writes ended
      if o.returned ∨ o.inflight ≠ 0 ∨ o.errDone = 0 then none else some { o with returned := true }

def accept (n pool : Nat) (exact : Bool) : Obs → List Ev → Option Obs
  | o, [] => some o
  | o, e :: es => match acceptStep n pool exact o e with
      | none => none
      | some o' => accept n pool exact o' es

end Mast.MF
