import Mastverif.Model.Tree
/-!
# M0 — the reference builder and the canonical height

`build layer d es` constructs, directly from a sorted entry list and without using insert or
delete, the Merkle search tree of level `d`: the keys of layer ≥ d form the node, the runs
between them are built one level down.  `canonHeight` is the size-based height rule of C04.
-/
namespace Mast

/-- floor(log_bf n), 0 for n = 0 or bf < 2 -/
def flog (bf : Nat) (n : Nat) : Nat :=
  if h : 2 ≤ bf ∧ bf ≤ n then flog bf (n / bf) + 1 else 0
termination_by n
decreasing_by
  obtain ⟨h1, h2⟩ := h
  exact Nat.div_lt_self (by omega) h1

def maxLayer (layer : Nat → Nat) (es : List (Nat × Nat)) : Nat :=
  es.foldl (fun m e => max m (layer e.1)) 0

/-- height = min(highest key layer, floor(log_bf(size-1))), 0 below two entries -/
def canonHeight (bf : Nat) (layer : Nat → Nat) (es : List (Nat × Nat)) : Nat :=
  if es.length < 2 then 0 else min (maxLayer layer es) (flog bf (es.length - 1))

namespace T

def leafRow : List (Nat × Nat) → T
  | [] => last false nil
  | (k, v) :: es => cons false nil k v (leafRow es)

/-- one node: `hi k` says that key `k` belongs to this node; `child run` builds the subtree for
    a run of lower keys (`run` arrives in ascending order) -/
def rowOf (hi : Nat → Bool) (child : List (Nat × Nat) → T) : List (Nat × Nat) → List (Nat × Nat) → T
  | [], run => last false (child run.reverse)
  | (k, v) :: es, run =>
      if hi k then cons false (child run.reverse) k v (rowOf hi child es [])
      else rowOf hi child es ((k, v) :: run)

def build (layer : Nat → Nat) : Nat → List (Nat × Nat) → T
  | 0, es => leafRow es
  | d+1, es =>
      rowOf (fun k => decide (d + 1 ≤ layer k))
        (fun run => if run.isEmpty then nil else build layer d run) es []

end T

/-- the canonical tree for an entry list (strictly ascending keys) -/
def Tree.canon (bf : Nat) (layer : Nat → Nat) (es : List (Nat × Nat)) : Tree :=
  let h := canonHeight bf layer es
  { root := T.build layer h es, rootP := false, dirty := !es.isEmpty, size := es.length, height := h, bf := bf,
    growAfter := bf ^ (h + 1), shrinkBelow := bf ^ h }

end Mast
