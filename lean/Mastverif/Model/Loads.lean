import Mastverif.Model.Tree
/-!
# M2 — load traces of the point operations

Each function follows the recursion of its value-level counterpart in `Model/Tree.lean` and
returns the persisted nodes (links that are names) that the Go code passes to `Persist.Load`
on the way: one per level on the descent (`findNode`/`follow`), one per level along the split
spine (`split`), two per level along the merge spine (`mergeNodes`).
-/
namespace Mast
namespace T

/-- following a link loads it iff it is a name -/
def ldn (p : Bool) (c : T) : List T := if p && !c.isNil then [c] else []

def getLoads (k : Nat) : Nat → T → List T
  | _, nil => []
  | 0, _ => []
  | s+1, last p c => ldn p c ++ getLoads k s c
  | s+1, cons p c k' _ r =>
      if k' < k then getLoads k (s+1) r else if k' = k then [] else ldn p c ++ getLoads k s c

def splitLoads : T → Nat → List T
  | nil, _ => []
  | last p c, x => ldn p c ++ splitLoads c x
  | cons p c k _ r, x => if k < x then splitLoads r x else ldn p c ++ splitLoads c x

def insLoads (k : Nat) : Nat → T → List T
  | _, nil => []
  | 0, last p c => ldn p c ++ splitLoads c k
  | 0, cons p c k' _ r =>
      if k' < k then insLoads k 0 r else if k' = k then [] else ldn p c ++ splitLoads c k
  | s+1, last p c => ldn p c ++ insLoads k s c
  | s+1, cons p c k' _ r =>
      if k' < k then insLoads k (s+1) r else if k' = k then [] else ldn p c ++ insLoads k s c

def mergeRowLoads : T → T → List T
  | nil, _ => []
  | cons _ _ _ _ rest, r => mergeRowLoads rest r
  | last p c, r =>
      match r with
      | nil => []
      | last p2 c2 => if c.isNil || c2.isNil then [] else ldn p c ++ ldn p2 c2 ++ mergeRowLoads c c2
      | cons p2 c2 _ _ _ => if c.isNil || c2.isNil then [] else ldn p c ++ ldn p2 c2 ++ mergeRowLoads c c2

def joinLoads (p : Bool) (c : T) : T → List T
  | nil => []
  | last p2 c2 => if c.isNil || c2.isNil then [] else ldn p c ++ ldn p2 c2 ++ mergeRowLoads c c2
  | cons p2 c2 _ _ _ => if c.isNil || c2.isNil then [] else ldn p c ++ ldn p2 c2 ++ mergeRowLoads c c2

def delLoads (k : Nat) : Nat → T → List T
  | _, nil => []
  | 0, last _ _ => []
  | 0, cons p c k' _ r =>
      if k' < k then delLoads k 0 r else if k' = k then joinLoads p c r else []
  | s+1, last p c => ldn p c ++ delLoads k s c
  | s+1, cons p c k' _ r =>
      if k' < k then delLoads k (s+1) r else if k' = k then [] else ldn p c ++ delLoads k s c

/-- `shrink` loads every child of the top node -/
def childLoads : T → List T
  | nil => []
  | last p c => ldn p c
  | cons p c _ _ r => ldn p c ++ childLoads r

end T

namespace Tree
open T

def rootLoad (m : Tree) : List T := if m.rootP then [m.root] else []

def lookupLoads (layer : Nat → Nat) (m : Tree) (k : Nat) : List T :=
  m.rootLoad ++ getLoads k (m.levels layer k) m.root

def insertLoads (layer : Nat → Nat) (m : Tree) (k : Nat) : List T :=
  m.rootLoad ++ insLoads k (m.levels layer k) m.root

/-- loads of the shrink loop, mirroring `shrinkLoop` -/
def shrinkLoads : Nat → Tree → List T
  | 0, _ => []
  | fuel+1, m =>
      if m.height > 0 ∧ (m.size ≤ m.shrinkBelow ∨ topEntryless m.root) then
        childLoads m.root ++ shrinkLoads fuel (shrinkStep m)
      else []

/-- loads of a successful `Delete` (descent + merge spine + shrink) -/
def deleteLoads (layer : Nat → Nat) (m : Tree) (k : Nat) : List T :=
  m.rootLoad ++ delLoads k (m.levels layer k) m.root ++
    (match del k (m.levels layer k) m.root with
     | some r => shrinkLoads (m.height + 1) { m with root := r, rootP := false, dirty := true, size := m.size - 1 }
     | none => [])

end Tree
end Mast
