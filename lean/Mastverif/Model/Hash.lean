/-!
# BLAKE2b-256 (unkeyed) and CRC-64/ECMA in core Lean

Executable re-implementations, used by the driver to recompute every node name and every
built-in key layer independently of minio/blake2b-simd and hash/crc64.  Nothing is proved
about them; theorems that need a hash take it as a parameter (with an explicit injectivity
hypothesis where one is needed).
-/
namespace Mast.Blake

def iv : Array UInt64 := #[
  0x6a09e667f3bcc908, 0xbb67ae8584caa73b, 0x3c6ef372fe94f82b, 0xa54ff53a5f1d36f1,
  0x510e527fade682d1, 0x9b05688c2b3e6c1f, 0x1f83d9abfb41bd6b, 0x5be0cd19137e2179]

def sigma : Array (Array Nat) := #[
  #[0,1,2,3,4,5,6,7,8,9,10,11,12,13,14,15],
  #[14,10,4,8,9,15,13,6,1,12,0,2,11,7,5,3],
  #[11,8,12,0,5,2,15,13,10,14,3,6,7,1,9,4],
  #[7,9,3,1,13,12,11,14,2,6,5,10,4,0,15,8],
  #[9,0,5,7,2,4,10,15,14,1,11,12,6,8,3,13],
  #[2,12,6,10,0,11,8,3,4,13,7,5,15,14,1,9],
  #[12,5,1,15,14,13,4,10,0,7,6,3,9,2,8,11],
  #[13,11,7,14,12,1,3,9,5,0,15,4,8,6,2,10],
  #[6,15,14,9,11,3,0,8,12,2,13,7,1,4,10,5],
  #[10,2,8,4,7,6,1,5,15,11,9,14,3,12,13,0],
  #[0,1,2,3,4,5,6,7,8,9,10,11,12,13,14,15],
  #[14,10,4,8,9,15,13,6,1,12,0,2,11,7,5,3]]

@[inline] def rotr (x : UInt64) (n : UInt64) : UInt64 := (x >>> n) ||| (x <<< (64 - n))

def g (v : Array UInt64) (a b c d : Nat) (x y : UInt64) : Array UInt64 :=
  let va := v[a]! + v[b]! + x
  let vd := rotr (v[d]! ^^^ va) 32
  let vc := v[c]! + vd
  let vb := rotr (v[b]! ^^^ vc) 24
  let va := va + vb + y
  let vd := rotr (vd ^^^ va) 16
  let vc := vc + vd
  let vb := rotr (vb ^^^ vc) 63
  (((v.set! a va).set! b vb).set! c vc).set! d vd

def compress (h : Array UInt64) (m : Array UInt64) (t : UInt64) (last : Bool) : Array UInt64 := Id.run do
  let mut v : Array UInt64 := h ++ iv
  v := v.set! 12 (v[12]! ^^^ t)
  if last then v := v.set! 14 (v[14]! ^^^ 0xffffffffffffffff)
  for r in [0:12] do
    let s := sigma[r]!
    v := g v 0 4 8 12 m[s[0]!]! m[s[1]!]!
    v := g v 1 5 9 13 m[s[2]!]! m[s[3]!]!
    v := g v 2 6 10 14 m[s[4]!]! m[s[5]!]!
    v := g v 3 7 11 15 m[s[6]!]! m[s[7]!]!
    v := g v 0 5 10 15 m[s[8]!]! m[s[9]!]!
    v := g v 1 6 11 12 m[s[10]!]! m[s[11]!]!
    v := g v 2 7 8 13 m[s[12]!]! m[s[13]!]!
    v := g v 3 4 9 14 m[s[14]!]! m[s[15]!]!
  let mut out := h
  for i in [0:8] do
    out := out.set! i (h[i]! ^^^ v[i]! ^^^ v[i+8]!)
  return out

def word (b : ByteArray) (off : Nat) : UInt64 := Id.run do
  let mut w : UInt64 := 0
  for i in [0:8] do
    let byte := if off + i < b.size then b[off+i]! else 0
    w := w ||| (byte.toUInt64 <<< (8 * i).toUInt64)
  return w

def block (b : ByteArray) (off : Nat) : Array UInt64 :=
  (Array.range 16).map (fun i => word b (off + 8*i))

def sum256 (b : ByteArray) : ByteArray := Id.run do
  let mut h := iv
  h := h.set! 0 (h[0]! ^^^ 0x01010020)
  let n := b.size
  let nblocks := if n == 0 then 1 else (n + 127) / 128
  for i in [0:nblocks] do
    let last := i + 1 == nblocks
    let t := if last then n else (i+1)*128
    h := compress h (block b (i*128)) t.toUInt64 last
  let mut out := ByteArray.empty
  for i in [0:4] do
    for j in [0:8] do
      out := out.push ((h[i]! >>> (8*j).toUInt64).toUInt8)
  return out

end Mast.Blake

namespace Mast.Crc

/-- reflected ECMA-182 polynomial, as `hash/crc64.ECMA` -/
def poly : UInt64 := 0xC96C5795D7870F42

def table : Array UInt64 := (Array.range 256).map fun i => Id.run do
  let mut crc : UInt64 := i.toUInt64
  for _ in [0:8] do
    if crc &&& 1 == 1 then crc := (crc >>> 1) ^^^ poly else crc := crc >>> 1
  return crc

/-- `crc64.Checksum(b, crc64.MakeTable(crc64.ECMA))` -/
def checksum (b : List UInt8) : UInt64 :=
  let tab := table
  let crc := b.foldl (fun (crc : UInt64) (x : UInt8) =>
    tab[((crc.toUInt8) ^^^ x).toNat]! ^^^ (crc >>> 8)) 0xffffffffffffffff
  crc ^^^ 0xffffffffffffffff

end Mast.Crc
