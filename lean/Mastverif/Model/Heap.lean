/-!
# M3 — node objects, ownership, and the copy-on-write protocol

Node *objects* (`*mastNode`) live in a heap; a link is nil, a pointer to an object, or the name
of a persisted node.  Every object carries a ghost `owner`: the tree that allocated it
(0 = nobody: it was decoded from the store).  The Go code has no such tag; what it has is
the `shared` flag and the discipline "write only to what `ToMut` returned or to a node you
created".  The protocol below makes that discipline explicit as *guards* on three primitive
actions.  The harness reconstructs the actions of every real operation from object-graph
dumps (hook `VerifDump`) and runs them through `applyAct`: a Go write to a shared or foreign
object is a guard failure.  The theorems in `Props/C02.lean` say what follows when the
guards hold.
-/
namespace Mast.Heap

inductive HLink where
  | nil | ptr (a : Nat) | ref (n : Nat)
  deriving Repr, DecidableEq

structure MNode where
  keys : List Nat
  vals : List Nat
  links : List HLink
  dirty : Bool
  shared : Bool
  owner : Nat          -- ghost
  /-- `source`: the name this object was decoded from / committed as (`none` = nil) -/
  source : Option Nat := none
  deriving Repr, DecidableEq

/-- objects by address; allocation appends -/
abbrev Heap := List MNode

inductive Tok where
  | ent (k : Nat) (v : Nat) | refn (n : Nat)
  deriving Repr, DecidableEq

/-- interleave children contents with entries: c0 e0 c1 e1 … cn -/
def weave : List (List Tok) → List (Nat × Nat) → List Tok
  | [], _ => []
  | c :: cs, [] => c ++ (cs.foldr (· ++ ·) [])
  | c :: cs, (k, v) :: es => c ++ Tok.ent k v :: weave cs es

def sequenceO {α} : List (Option α) → Option (List α)
  | [] => some []
  | none :: _ => none
  | some x :: xs => (sequenceO xs).map (x :: ·)

/-- observable contents below a link, reading at most `fuel` levels of pointers: the entries in
    order, with persisted subtrees represented by their (immutable) names -/
def contents (h : Heap) : Nat → HLink → Option (List Tok)
  | _, HLink.nil => some []
  | _, HLink.ref n => some [Tok.refn n]
  | 0, HLink.ptr _ => none
  | f+1, HLink.ptr a =>
    match h[a]? with
    | none => none
    | some nd =>
      (sequenceO (nd.links.map (contents h f))).map (fun cs => weave cs (nd.keys.zip nd.vals))

/-- a link is *visible to* owner `v`: nil, a name, or a pointer to a shared or v-owned object -/
def Vis (h : Heap) (v : Nat) : HLink → Prop
  | HLink.ptr a => ∃ nd, h[a]? = some nd ∧ (nd.shared = true ∨ nd.owner = v)
  | _ => True

/-- every object that is shared or owned by `v` has only v-visible links -/
def Closed (h : Heap) (v : Nat) : Prop :=
  ∀ (a : Nat) (nd : MNode), h[a]? = some nd → (nd.shared = true ∨ nd.owner = v) → ∀ l ∈ nd.links, Vis h v l

/-- `h'` agrees with `h` on everything `v` can see -/
def Agree (h h' : Heap) (v : Nat) : Prop :=
  ∀ (a : Nat) (nd : MNode), h[a]? = some nd → (nd.shared = true ∨ nd.owner = v) → h'[a]? = some nd

/-! ## the protocol -/

inductive Act where
  /-- a new object (a copy made by `ToMut`/`xcopy`, a node built by split / merge / grow /
      shrink / Insert, a node decoded from the store) -/
  | alloc (nd : MNode)
  /-- actor `m` overwrites object `a` in place (entries, links, dirty flag) -/
  | write (m : Nat) (a : Nat) (nd : MNode)
  /-- actor `m` commits object `a` after a successful flush: links become names, the object
      becomes clean and shared -/
  | publish (m : Nat) (a : Nat) (links : List HLink)
  deriving Repr, DecidableEq

def isPtr : HLink → Bool
  | HLink.ptr _ => true
  | _ => false

/-- pointer links of a new / rewritten object may only target shared objects or objects of the
    same owner -/
def linkOK (h : Heap) (o : Nat) : HLink → Bool
  | HLink.ptr a => match h[a]? with
      | some t => t.shared || t.owner == o
      | none => false
  | _ => true

/-- one guarded action; `none` = the guard fails -/
def applyAct (h : Heap) : Act → Option Heap
  | .alloc nd =>
      if nd.links.all (linkOK h nd.owner) ∧ (nd.shared = true → nd.links.all (fun l => !isPtr l))
      then some (h ++ [nd]) else none
  | .write m a nd =>
      match h[a]? with
      | none => none
      | some old =>
          if old.owner = m ∧ old.shared = false ∧ nd.owner = m ∧ nd.shared = false ∧
             nd.links.all (linkOK h m) ∧ m ≠ 0
          then some (h.set a nd) else none
  | .publish m a links =>
      match h[a]? with
      | none => none
      | some old =>
          if old.owner = m ∧ old.shared = false ∧ links.all (fun l => !isPtr l) ∧ m ≠ 0
          then some (h.set a { old with links := links, dirty := false, shared := true }) else none

def run : Heap → List Act → Option Heap
  | h, [] => some h
  | h, a :: as => match applyAct h a with
      | none => none
      | some h' => run h' as

/-- an action that is not performed by (or for) owner `v` -/
def Foreign (v : Nat) : Act → Prop
  | .alloc nd => nd.owner ≠ v
  | .write m _ _ => m ≠ v
  | .publish m _ _ => m ≠ v

end Mast.Heap
