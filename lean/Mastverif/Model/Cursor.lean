import Mastverif.Model.Tree
/-!
# `Cursor` (pub.go:708-961), transcribed literally

A cursor is a path of `(node, linkIndex)` pairs; here the *head* of the list is the deepest
entry (Go appends at the end).  Every function follows the repaired Go code branch by branch.
-/
namespace Mast
open T

namespace T
/-- i-th child link of the node row (`nil` if absent or out of range) -/
def linkAt : T → Nat → T
  | last _ c, 0 => c
  | cons _ c _ _ _, 0 => c
  | cons _ _ _ _ r, i+1 => linkAt r i
  | _, _ => nil

def entryAt : T → Nat → Option (Nat × Nat)
  | cons _ _ k v _, 0 => some (k, v)
  | cons _ _ _ _ r, i+1 => entryAt r i
  | _, _ => none

/-- `search1`: index of the first key ≥ k -/
def lowerBound (k : Nat) : T → Nat
  | cons _ _ k' _ r => if k' < k then lowerBound k r + 1 else 0
  | _ => 0
end T

abbrev Path := List (T × Nat)

namespace T
/-- is the i-th child link of the node a name (a persisted node that `follow` has to load)? -/
def flagAt : T → Nat → Bool
  | last p _, 0 => p
  | cons p _ _ _ _, 0 => p
  | cons _ _ _ _ r, i+1 => flagAt r i
  | _, _ => false
end T

namespace Cursor

/-- `Min` — descend through first links from the top node of the path -/
def minFrom : Nat → T → Path → Path
  | 0, _, path => path
  | fuel+1, node, path =>
      let c := linkAt node 0
      if c.isNil then path else minFrom fuel c ((c, 0) :: path)

def min (fuel : Nat) (path : Path) : Path :=
  match path with
  | [] => []
  | (node, _) :: _ => minFrom fuel node path

/-- `Max` — the top entry is replaced by the descent through last links -/
def maxFrom : Nat → T → Path → Path
  | 0, _, path => path
  | fuel+1, node, path =>
      let n := rowLen node
      let c := linkAt node n
      if c.isNil then (node, n - 1) :: path
      else maxFrom fuel c ((node, n) :: path)

def max (fuel : Nat) (path : Path) : Path :=
  match path with
  | [] => []
  | (node, _) :: rest => maxFrom fuel node rest

def get (path : Path) : Option (Nat × Nat) :=
  match path with
  | [] => none
  | (node, i) :: _ => entryAt node i

/-- the pop loop of `Forward` -/
def popFwd : Path → Path
  | [] => []
  | _ :: rest =>
      match rest with
      | [] => []
      | (node, i) :: rest' => if i < rowLen node then (node, i) :: rest' else popFwd ((node, i) :: rest')

def forward (fuel : Nat) (path : Path) : Path :=
  match path with
  | [] => []
  | (node, i) :: rest =>
      let c := linkAt node (i + 1)
      if i + 1 < rowLen node + 1 ∧ ¬ c.isNil then
        minFrom fuel c ((c, 0) :: (node, i + 1) :: rest)
      else if i + 1 < rowLen node then (node, i + 1) :: rest
      else popFwd path

/-- the pop loop of `Backward` -/
def popBwd : Path → Path
  | [] => []
  | _ :: rest =>
      match rest with
      | [] => []
      | (node, i) :: rest' => if i > 0 then (node, i - 1) :: rest' else popBwd ((node, i) :: rest')

def backward (fuel : Nat) (path : Path) : Path :=
  match path with
  | [] => []
  | (node, i) :: rest =>
      let c := linkAt node i
      if ¬ c.isNil then maxFrom fuel c ((node, i) :: rest)
      else if i > 0 then (node, i - 1) :: rest
      else popBwd path

/-- "exhausted left subtree; go up to ceil" -/
def popCeil : Path → Path
  | [] => []
  | (node, i) :: rest => if i = rowLen node then popCeil rest else (node, i) :: rest

def ceil (k : Nat) : Nat → Path → Path
  | 0, path => path
  | _, [] => []
  | fuel+1, (node, _) :: rest =>
      let i := lowerBound k node
      match entryAt node i with
      | some (k', _) =>
          if k' = k then (node, i) :: rest
          else
            let c := linkAt node i
            if c.isNil then popCeil ((node, i) :: rest) else ceil k fuel ((c, 0) :: (node, i) :: rest)
      | none =>
          let c := linkAt node i
          if c.isNil then popCeil ((node, i) :: rest) else ceil k fuel ((c, 0) :: (node, i) :: rest)

/-- node-local part of `seekIter` (lib.go:535-563): entry idx and everything after it -/
def seekRow : T → Nat → List (Nat × Nat)
  | cons _ _ k v r, 0 => (k, v) :: restOf r
  | cons _ _ _ _ r, i+1 => seekRow r i
  | _, _ => []
where
  restOf : T → List (Nat × Nat)
    | nil => []
    | last _ c => toList c
    | cons _ c k v r => toList c ++ (k, v) :: restOf r

/-- `SeekIter` (repaired): seek with `Ceil`, then emit from every path entry, deepest first -/
def seekIter (fuel : Nat) (root : T) (k : Nat) : List (Nat × Nat) :=
  ((ceil k fuel [(root, 0)]).map fun (node, i) => seekRow node i).flatten

/-! ## what a move reads from the store -/

/-- the path from the root downwards, as (parent, index, child) steps through name links: the
    children `follow` had to load -/
def loadedOn : Path → List T
  | (c, _) :: (n, j) :: rest => (if flagAt n j then [c] else []) ++ loadedOn ((n, j) :: rest)
  | _ => []

/-- number of leading positions (from the root) on which two paths hold the same node -/
def commonFromRoot : List (T × Nat) → List (T × Nat) → Nat
  | (a, _) :: as, (b, _) :: bs => if a = b then commonFromRoot as bs + 1 else 0
  | _, _ => 0

/-- the nodes a move loads: those on the new path, below the part it shares with the old path,
    that hang on name links (nodes already on the path are held by pointer and not read again) -/
def newLoads (old new : Path) : List T :=
  let keep := commonFromRoot old.reverse new.reverse
  loadedOn (new.take (new.length - keep) ++ (new.drop (new.length - keep)).take 1)

/-- the nodes `Ceil` loads on its way down (it may leave them again when the subtree is exhausted) -/
def ceilLoads (k : Nat) : Nat → Path → List T
  | 0, _ => []
  | _, [] => []
  | fuel+1, (node, _) :: rest =>
      let i := lowerBound k node
      let c := linkAt node i
      let down := if c.isNil then [] else (if flagAt node i then [c] else []) ++ ceilLoads k fuel ((c, 0) :: (node, i) :: rest)
      match entryAt node i with
      | some (k', _) => if k' = k then [] else down
      | none => down

end Cursor
end Mast
