import Mastverif.Model.Ptr
/-!
# Abstraction with footprint and validity

`repLink` is `absLink` (Model/Ptr.lean) with two additions: every node that is read must be
*valid* (`links.length = keys.length + 1`, `vals.length = keys.length`), and the list of the
UNSHARED objects that were read — the *footprint* — is returned.  `repTree` is `absTree` from
`repLink`, defined only when the footprint has no duplicates: the unshared objects below a root
form a tree.
-/
namespace Mast.Ptr
open Mast.Heap

/-- an omitted link list of a stored node is re-created as n+1 nil links (store.go:58-60) -/
def expandLinks (sn : SNode) : List HLink :=
  if sn.links.isEmpty then List.replicate (sn.keys.length + 1) HLink.nil else sn.links

/-- result of a node from the results of its children: `own` = the node's own footprint part -/
def nodeRep (flag : Bool) (own : List Nat) (ks vs : List Nat) (cs : List (Bool × T × List Nat)) :
    Bool × T × List Nat :=
  (flag, mkRow (cs.map fun c => (c.1, c.2.1)) ks vs, own ++ (cs.map fun c => c.2.2).flatten)

/-- row denoted by a link, flag "the link is a name", and the list of UNSHARED objects read -/
def repLink (h : Heap) (st : List SNode) : Nat → HLink → Option (Bool × T × List Nat)
  | _, .nil => some (false, T.nil, [])
  | 0, _ => none
  | f+1, .ptr a =>
    match h[a]? with
    | none => none
    | some nd =>
      if nd.links.length = nd.keys.length + 1 ∧ nd.vals.length = nd.keys.length then
        (seqO (nd.links.map (repLink h st f))).map
          (nodeRep false (if nd.shared then [] else [a]) nd.keys nd.vals)
      else none
  | f+1, .ref n =>
    match (if n = 0 then none else st[n - 1]?) with
    | none => none
    | some sn =>
      if (expandLinks sn).length = sn.keys.length + 1 ∧ sn.vals.length = sn.keys.length then
        (seqO ((expandLinks sn).map (repLink h st f))).map (nodeRep true [] sn.keys sn.vals)
      else none

/-- the dirty flag of the top node (as in `absTree`) -/
def rootDirty (h : Heap) : HLink → Bool
  | .ptr a => (h[a]?.map (·.dirty)).getD false
  | _ => false

/-- the `Tree` record that a `PTree` denotes; defined only when the unshared objects below the
    root form a tree (no aliasing) -/
def repTree (s : PS) (fuel : Nat) (t : PTree) : Option Tree :=
  match repLink s.heap s.store fuel t.root with
  | none => none
  | some (p, r, fp) =>
    if fp.Nodup then
      some { root := T.unmk r, rootP := p, dirty := rootDirty s.heap t.root, size := t.size,
             height := t.height, bf := t.bf, growAfter := t.growAfter, shrinkBelow := t.shrinkBelow }
    else none

/-- the footprint of a tree (empty when the tree denotes nothing) -/
def footprint (s : PS) (fuel : Nat) (t : PTree) : List Nat :=
  match repLink s.heap s.store fuel t.root with
  | none => []
  | some (_, _, fp) => fp

end Mast.Ptr
