import Mastverif.Model.Ptr
/-!
# `Iter` at the level of node objects, with the entries it yields

`iterAll` (Model/Ptr.lean) records which objects `Iter` loads; `iterEntries` is the same walk
(`node.iter`, lib.go:505-528: for every link, load and iterate the child, then — `if i <
len(node.Key)` — hand entry `i` to the callback) returning the list of entries handed to the
callback, in call order.  `iterEntries_erase` (Lemmas/RefIterEntries.lean) shows the two walks to
be the same computation on the state; `iterEntries_refines` that the entries are the in-order
entries of the functional tree the link denotes.
-/
namespace Mast.Ptr
open Mast.Heap

/-- entry `i` of a node whose keys / values from `i` on are `ks` / `vs`: `node.Key[i], node.Value[i]`
    (an index out of range panics) -/
def entryAt : List Nat → List Nat → M (List (Nat × Nat))
  | [], _ => pure []
  | _ :: _, [] => panicE
  | k :: _, v :: _ => pure [(k, v)]

/-- the loop of `node.iter` over the links still to visit -/
def iterEntriesLinks (g : HLink → M (List (Nat × Nat))) :
    List HLink → List Nat → List Nat → M (List (Nat × Nat))
  | [], _, _ => pure []
  | l :: ls, ks, vs => do
    let sub ← (match l with
      | .nil => pure []
      | l => g l)
    let here ← entryAt ks vs
    let rest ← iterEntriesLinks g ls ks.tail vs.tail
    pure (sub ++ here ++ rest)

def iterEntries (E : Env) : Nat → HLink → M (List (Nat × Nat))
  | 0, _ => oofE
  | f+1, l => do
    let a ← load E l
    let nd ← read a
    iterEntriesLinks (fun c => iterEntries E f c) nd.links nd.keys nd.vals

end Mast.Ptr
