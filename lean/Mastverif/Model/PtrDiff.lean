import Mastverif.Model.Ptr
import Mastverif.Model.PtrCursor
import Mastverif.Model.Diff
/-!
# `diffOne` at the level of node objects (diff.go:107-311)

Stack items hold links (`HLink`: nil never occurs on a stack, a pointer to a node object, or a
name) or entries.  Both trees' nodes are loaded through the node cache / store with counted,
fallible loads; `o.considerLink != n.considerLink` is equality of the two interface values — the
same name, or the same object.  `alreadyNotified` walks down pass-through nodes with loads of its
own (a failure there is swallowed: "not yet notified", memo untouched).  A step that fails (a load
in `diffOne` itself) returns an error and leaves both stacks as they were (the repaired retry
behaviour): `oStep` returns the state, the events and an error flag, like the cursor calls.
Link events carry the link itself.  The layer callback of `alreadyNotified` is `layerM` (counted,
fallible); failing key comparisons are not modelled.
-/
namespace Mast.Ptr
open Mast.Heap

inductive OItem where
  | link (l : HLink)
  | yld (k v : Nat)
  deriving Repr, DecidableEq

inductive OEv where
  | add (k v : Nat)
  | rem (k v : Nat)
  | chg (k old new : Nat)
  | addLink (l : HLink)
  | remLink (l : HLink)
  deriving Repr, DecidableEq

abbrev OMemo := List (Nat × HLink)

def omemoGet (m : OMemo) (h : Nat) : Option HLink :=
  match m.find? (fun e => e.1 == h) with
  | some e => some e.2
  | none => none

def omemoSet (m : OMemo) (h : Nat) (l : HLink) : OMemo :=
  (h, l) :: m.filter (fun e => e.1 != h)

structure ODiff where
  old : List OItem
  new : List OItem
  memoOld : OMemo := []
  memoNew : OMemo := []
  deriving Repr

def olinkItem : HLink → List OItem
  | .nil => []
  | l => [OItem.link l]

/-- `pushNode`, in pop order: link 0, entry 0, link 1, … -/
def oitems : List HLink → List Nat → List Nat → List OItem
  | [], _, _ => []
  | l :: ls, k :: ks, v :: vs => olinkItem l ++ OItem.yld k v :: oitems ls ks vs
  | l :: _, _, _ => olinkItem l

/-- the walk of `alreadyNotified` down a chain of single-link nodes: the layer of the first key met
    (`none`: a load or the layer callback failed, or the chain ends in nothing) -/
def ochain (E : Env) : Nat → HLink → M (Option Nat)
  | 0, _ => oofE
  | f+1, l => do
    match ← tryE (load E l) with
    | none => pure none
    | some a =>
      let nd ← read a
      match nd.links, nd.keys with
      | [c], _ => ochain E f c
      | _, k :: _ => do
        match ← tryE (layerM E k) with
        | none => pure none
        | some lay => pure (some lay)
      | _, [] => panicE

/-- `alreadyNotified`: result and new memo -/
def onotified (E : Env) (f : Nat) (memo : OMemo) (l : HLink) : M (Bool × OMemo) := do
  match ← ochain E f l with
  | none => pure (false, memo)
  | some h =>
    let h := h % 256
    if omemoGet memo h = some l then pure (true, memo) else pure (false, omemoSet memo h l)

/-- the part of a step that can fail: new state and events -/
def oStepBody (E : Env) (f : Nat) (s : ODiff) : M (Option (ODiff × List OEv)) :=
  match s.old, s.new with
  | [], [] => pure none
  | [], OItem.link l :: ns => do
    let (nt, memo) ← onotified E f s.memoNew l
    let a ← load E l
    let nd ← read a
    pure (some ({ s with new := oitems nd.links nd.keys nd.vals ++ ns, memoNew := memo },
                if nt then [] else [OEv.addLink l]))
  | [], OItem.yld k v :: ns => pure (some ({ s with new := ns }, [OEv.add k v]))
  | OItem.link l :: os, [] => do
    let (nt, memo) ← onotified E f s.memoOld l
    let a ← load E l
    let nd ← read a
    pure (some ({ s with old := oitems nd.links nd.keys nd.vals ++ os, memoOld := memo },
                if nt then [] else [OEv.remLink l]))
  | OItem.yld k v :: os, [] => pure (some ({ s with old := os }, [OEv.rem k v]))
  | OItem.link la :: os, OItem.link lb :: ns =>
    if la = lb then pure (some ({ s with old := os, new := ns }, []))
    else do
      let (no, memoO) ← onotified E f s.memoOld la
      let (nn, memoN) ← onotified E f s.memoNew lb
      let evs := (if no then [] else [OEv.remLink la]) ++ (if nn then [] else [OEv.addLink lb])
      let s' := { s with memoOld := memoO, memoNew := memoN }
      let a ← load E la
      let na ← read a
      match na.links with
      | [c] => pure (some ({ s' with old := olinkItem c ++ os, new := OItem.link lb :: ns }, evs))
      | _ => do
        let b ← load E lb
        let nb ← read b
        match nb.links with
        | [c] => pure (some ({ s' with old := OItem.link la :: os, new := olinkItem c ++ ns }, evs))
        | _ =>
          match na.keys, nb.keys with
          | ka :: _, kb :: _ =>
            if ka < kb then
              pure (some ({ s' with old := oitems na.links na.keys na.vals ++ os, new := OItem.link lb :: ns }, evs))
            else if kb < ka then
              pure (some ({ s' with old := OItem.link la :: os, new := oitems nb.links nb.keys nb.vals ++ ns }, evs))
            else
              pure (some ({ s' with old := oitems na.links na.keys na.vals ++ os,
                                    new := oitems nb.links nb.keys nb.vals ++ ns }, evs))
          | _, _ => panicE
  | OItem.link la :: os, OItem.yld k v :: ns => do
    let (nt, memo) ← onotified E f s.memoOld la
    let a ← load E la
    let nd ← read a
    pure (some ({ s with old := oitems nd.links nd.keys nd.vals ++ os, new := OItem.yld k v :: ns, memoOld := memo },
                if nt then [] else [OEv.remLink la]))
  | OItem.yld k v :: os, OItem.link lb :: ns => do
    let (nt, memo) ← onotified E f s.memoNew lb
    let b ← load E lb
    let nd ← read b
    pure (some ({ s with old := OItem.yld k v :: os, new := oitems nd.links nd.keys nd.vals ++ ns, memoNew := memo },
                if nt then [] else [OEv.addLink lb]))
  | OItem.yld k v :: os, OItem.yld k' v' :: ns =>
    if k < k' then pure (some ({ s with old := os, new := OItem.yld k' v' :: ns }, [OEv.rem k v]))
    else if k = k' then pure (some ({ s with old := os, new := ns }, if v = v' then [] else [OEv.chg k v v']))
    else pure (some ({ s with old := OItem.yld k v :: os, new := ns }, [OEv.add k' v']))

/-- one `diffOne`: `none` = `ErrNoMoreDiffs`; a failed step leaves the state as it was and reports
    the error -/
def oStep (E : Env) (f : Nat) (s : ODiff) : M (Option (ODiff × List OEv) × Bool) := do
  match ← tryE (oStepBody E f s) with
  | none => pure (some (s, []), true)
  | some r => pure (r, false)

/-- the loop of `diff()`: all events in order; the first failing step ends it with an error -/
def oRun (E : Env) (f : Nat) : Nat → ODiff → M (List OEv)
  | 0, _ => oofE
  | n+1, s => do
    let r ← oStep E f s
    if r.2 then failE
    else match r.1 with
      | none => pure []
      | some (s', evs) => do
        let rest ← oRun E f n s'
        pure (evs ++ rest)

/-- `rootItemStack`: an empty tree (no root, or an entry-less childless top node held in memory)
    starts with an empty stack -/
def orootItems (root : HLink) : M (List OItem) :=
  match root with
  | .nil => pure []
  | .ptr a => do
    let nd ← read a
    if isEmptyN nd then pure [] else pure [OItem.link (.ptr a)]
  | .ref n => pure [OItem.link (.ref n)]

def oDiffInit (oldRoot : Option HLink) (newRoot : HLink) : M ODiff := do
  let o ← (match oldRoot with
    | none => pure []
    | some r => orootItems r)
  let n ← orootItems newRoot
  pure { old := o, new := n }

def isEntryOEv : OEv → Bool
  | .add _ _ | .rem _ _ | .chg _ _ _ => true
  | _ => false

end Mast.Ptr
