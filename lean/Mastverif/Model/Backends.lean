import Mastverif.Model.Codec
/-!
# MB / MFS — node-store backends

`KV` is the contract every backend must refine: a finite map from names to byte strings with
`store` (idempotent overwrite with the same bytes) and `load` (error when absent).
`FS` models the file backend's `Store` (persist/file/lib.go, repaired) as a sequence of atomic
file-system steps with a crash possible after every step and after every written byte.
-/
namespace Mast

namespace KV
abbrev Store := List (String × Bytes)

def load (s : Store) (name : String) : Option Bytes :=
  match s.find? (fun e => e.1 == name) with
  | some e => some e.2
  | none => none

def store (s : Store) (name : String) (b : Bytes) : Store :=
  (name, b) :: s.filter (fun e => e.1 != name)

end KV

namespace FS

/-- directory: complete files by name -/
abbrev Dir := List (String × Bytes)

/-- the steps of the repaired `Store`: stat; create temp; write byte by byte; close+chmod; rename -/
inductive Step where
  | stat | createTemp | writeByte | closeChmod | rename
  deriving Repr, DecidableEq

/-- The run of one `Store name bytes` cut after `cut` primitive steps (stat = 1, createTemp = 1,
    one per byte, closeChmod = 1, rename = 1).  Returns the directory as a later process sees
    it: node names map to complete contents only; the temp file lives under a name that is not
    a node name. -/
def storeCut (d : Dir) (name : String) (bytes : Bytes) (cut : Nat) : Dir :=
  if (KV.load d name).isSome then d                     -- stat: exists ⇒ nothing is done
  else
    let total := 1 + 1 + bytes.length + 1 + 1
    if cut < total then
      -- the temp file may exist with a prefix of the bytes; the final name is untouched
      if cut ≥ 2 then (name ++ ".tmp-x", bytes.take (cut - 2)) :: d else d
    else KV.store d name bytes

def complete (_name : String) (bytes : Bytes) : Nat := bytes.length + 4

end FS
end Mast
