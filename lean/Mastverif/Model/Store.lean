import Mastverif.Model.Tree
import Mastverif.Model.Codec
import Mastverif.Model.Hash
/-!
# MS — names, flush, load; built-in layers

`Enc` packages how a node becomes bytes and a name.  All functions are parametric in it, so
that theorems quantify over *any* hash (with an explicit injectivity hypothesis when needed)
while the driver instantiates BLAKE2b-256 + unpadded base64url (store.go:230-240).
-/
namespace Mast

structure Enc where
  keyB : Nat → Bytes
  valB : Nat → Bytes
  node : NodeB → Bytes
  hash : Bytes → Bytes

namespace T

/-- the node that starts at this row, with the names of its children -/
def rowB (e : Enc) : T → NodeB
  | nil => { keys := [], vals := [], links := [] }
  | last _ c =>
      { keys := [], vals := [],
        links := [if c.isNil then none else some (e.hash (e.node (rowB e c)))] }
  | cons _ c k v r =>
      let n := rowB e r
      { keys := e.keyB k :: n.keys, vals := e.valB v :: n.vals,
        links := (if c.isNil then none else some (e.hash (e.node (rowB e c)))) :: n.links }

def nodeBytes (e : Enc) (t : T) : Bytes := e.node (rowB e t)
def nodeName (e : Enc) (t : T) : Bytes := e.hash (nodeBytes e t)

/-- `node.store` (store.go:185-269) on the children of a row: post-order `(name, bytes)` of every
    in-memory node below; a link that is a name is neither descended nor written -/
def storesBelow (e : Enc) : T → List (Bytes × Bytes)
  | nil => []
  | last p c =>
      if p || c.isNil then [] else storesBelow e c ++ [(nodeName e c, nodeBytes e c)]
  | cons p c _ _ r =>
      (if p || c.isNil then [] else storesBelow e c ++ [(nodeName e c, nodeBytes e c)]) ++
        storesBelow e r

/-- every node name reachable from this row's links, in pre-order (the node itself excluded) -/
def reachBelow (e : Enc) : T → List Bytes
  | nil => []
  | last _ c => if c.isNil then [] else nodeName e c :: reachBelow e c
  | cons _ c _ _ r => (if c.isNil then [] else nodeName e c :: reachBelow e c) ++ reachBelow e r

end T

/-- `Root` (pub.go:79-86) -/
structure RootRec where
  link : Option Bytes
  size : Nat
  height : Nat
  bf : Nat
  deriving Repr, DecidableEq, Inhabited

namespace Tree
open T

def isEmptyTop (t : T) : Bool :=
  match t with
  | last _ nil => true
  | _ => false

/-- `flush` + `MakeRoot` (pub.go:262-347, 618-634), fault-free: the stores issued, the root
    record, and the tree afterwards (every link a name). -/
def makeRoot (e : Enc) (m : Tree) : List (Bytes × Bytes) × RootRec × Tree :=
  if isEmptyTop m.root then
    ([], { link := none, size := m.size, height := m.height, bf := m.bf }, { m with dirty := false })
  else if !m.dirty then
    -- the top node is a name, or an unmodified loaded node held by pointer (a clone): its
    -- recorded source name is returned and nothing is written
    ([], { link := some (nodeName e m.root), size := m.size, height := m.height, bf := m.bf },
     { m with rootP := true })
  else
    (storesBelow e m.root ++ [(nodeName e m.root, nodeBytes e m.root)],
     { link := some (nodeName e m.root), size := m.size, height := m.height, bf := m.bf },
     { m with root := persistAll m.root, rootP := true, dirty := false })

/-- names of all nodes of the version (top node first) -/
def reach (e : Enc) (m : Tree) : List Bytes :=
  if isEmptyTop m.root then [] else nodeName e m.root :: reachBelow e m.root

end Tree

/-! ## built-in layers (key.go:94-156) -/

def uintLayer (bf : Nat) (v : Nat) : Nat :=
  if h : 2 ≤ bf ∧ v ≠ 0 ∧ v % bf = 0 then uintLayer bf (v / bf) + 1 else 0
termination_by v
decreasing_by
  obtain ⟨h1, h2, _⟩ := h
  exact Nat.div_lt_self (Nat.pos_of_ne_zero h2) h1

def crc64 (b : Bytes) : Nat := (Crc.checksum b).toNat

/-- `DefaultLayer` per key kind; `vk` is the harness's user `Key` type whose `Layer()` is the
    low byte of the key -/
def layerOf (kk : KeyKind) (bf : Nat) (k : Nat) : Nat :=
  match kk with
  | .vk => k % 256
  | .u64 | .uint => uintLayer bf k
  | .i64 | .int => uintLayer bf (if k ≥ Codec.i64bias then k - Codec.i64bias else Codec.i64bias - k)
  | .i64w => uintLayer bf (if k ≥ 2 ^ 63 then k - 2 ^ 63 else 2 ^ 63 - k)
  | .str | .strx | .bytes | .sk | .skc => uintLayer bf (crc64 (Codec.keyRaw kk k))

inductive Fmt where
  | bin | json
  deriving Repr, DecidableEq, Inhabited

def blakeName (b : Bytes) : Bytes :=
  Codec.b64url (Blake.sum256 (ByteArray.mk b.toArray)).toList

def stdEnc (fmt : Fmt) (kk : KeyKind) (vk : ValKind) : Enc :=
  { keyB := Codec.keyBytes kk, valB := Codec.valBytes vk,
    node := (match fmt with | .bin => Codec.encBin | .json => Codec.encJson),
    hash := blakeName }

end Mast
