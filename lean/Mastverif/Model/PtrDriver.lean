import Mastverif.Model.Ptr
import Mastverif.Model.PtrIter
import Mastverif.Model.PtrCursor
import Mastverif.Model.PtrSeek
import Mastverif.Model.PtrDiff
import Mastverif.Model.Store
import Std.Data.HashMap
/-!
# Driver part for the object-level model (`Model/Ptr.lean`)

With `pmode 1` the driver mirrors every `new / ins / del / get / iter / clone / root / load` line
on the object-level model as well; `pgraph` prints the object graph of every live tree and of the
node cache in a canonical form (objects numbered in first-visit order, names as the real
BLAKE2b names of the stored contents) that the harness compares with the graph of the Go objects.
-/
open Mast Mast.Heap Mast.Ptr

structure PSt where
  on : Bool := false
  ps : PS := {}
  trees : Std.HashMap Nat PTree := {}
  /-- root slot ↦ (name id, size, height, bf) -/
  roots : Std.HashMap Nat (Nat × Nat × Nat × Nat) := {}
  nextId : Nat := 1
  /-- real name of store entry `i` (name id `i+1`) -/
  names : Array String := #[]
  /-- the k-th store load of the next mirrored operation fails -/
  failNext : Option Nat := none
  last : String := "-"
  /-- a store-load failure has been injected: the functional model (which knows no faults) no
      longer follows, the cross-check of the two models is off for the rest of the case -/
  faulted : Bool := false
  /-- cursors: number ↦ (the cursor's own tree, its path — head = deepest) -/
  curs : Std.HashMap Nat (PTree × CPath) := {}
  /-- what the last mirrored `get` / `iter` returned at the object level, in the protocol's format -/
  lastVal : String := ""
  /-- an object-level `get` / `iter` answered differently from the functional model -/
  valBad : List String := []

def pfuel : Nat := 100000

def outcomeStr : Outcome → String
  | .ok => "ok" | .err => "err" | .panic => "panic" | .stuck => "stuck" | .oof => "oof"

def resOutcome {α} : Res α → Outcome
  | .ok _ _ => .ok | .err _ => .err | .panic => .panic | .stuck => .stuck | .oof => .oof

/-- the real names of store entries not named yet (children are interned before parents) -/
def extendNames (e : Enc) (store : List SNode) (names : Array String) : Array String := Id.run do
  let mut names := names
  let arr := store.toArray
  for i in [names.size : arr.size] do
    let sn := arr[i]!
    let lk (l : HLink) : Option Bytes :=
      match l with
      | .ref n => some ((names[n - 1]?).getD "?").toUTF8.toList
      | _ => none
    let nb : NodeB := { keys := sn.keys.map e.keyB, vals := sn.vals.map e.valB, links := sn.links.map lk }
    names := names.push (String.ofList ((e.hash (e.node nb)).map fun x => Char.ofNat x.toNat))
  return names

def nameStr (names : Array String) (n : Nat) : String := (names[n - 1]?).getD s!"?{n}"

structure DumpSt where
  seen : Std.HashMap Nat Nat := {}
  out : Array String := #[]

def natsStr (l : List Nat) : String := ",".intercalate (l.map toString)

/-- pre-order over pointer links; every object once, numbered at first visit -/
partial def dumpLink (h : Heap) (names : Array String) (l : HLink) (d : DumpSt) : DumpSt × String :=
  match l with
  | .nil => (d, "n")
  | .ref n => (d, "r" ++ nameStr names n)
  | .ptr a =>
    match d.seen[a]? with
    | some i => (d, s!"p{i}")
    | none =>
      let i := d.seen.size
      let d := { d with seen := d.seen.insert a i }
      match h[a]? with
      | none => (d, s!"p{i}!dangling")
      | some nd =>
        -- reserve the node's slot so that parents come before children
        let slot := d.out.size
        let d := { d with out := d.out.push "" }
        let (d, ls) := nd.links.foldl (fun (acc : DumpSt × List String) l =>
            let (d', s) := dumpLink h names l acc.1
            (d', acc.2 ++ [s])) (d, [])
        let b (x : Bool) := if x then "1" else "0"
        let src := match nd.source with | some n => nameStr names n | none => "-"
        let txt := s!"{i}/{b nd.shared}{b nd.dirty}/{src}/{natsStr nd.keys}/{natsStr nd.vals}/{",".intercalate ls}"
        ({ d with out := d.out.set! slot txt }, s!"p{i}")

def pgraph (p : PSt) : String := Id.run do
  let slots := (p.trees.toList.map (·.1)).toArray.qsort (· < ·)
  let mut d : DumpSt := {}
  let mut parts : Array String := #[]
  for sl in slots do
    match p.trees[sl]? with
    | none => pure ()
    | some t =>
      let before := d.out.size
      let (d', r) := dumpLink p.ps.heap p.names t.root d
      d := d'
      let nodes := (d.out.toList.drop before)
      parts := parts.push s!"T{sl}:{t.size},{t.height},{t.growAfter},{t.shrinkBelow},{r}\{{";".intercalate nodes}}"
  -- the cursors: the cursor's own tree, then its path from the top node down (objects, indices)
  let cids := (p.curs.toList.map (·.1)).toArray.qsort (· < ·)
  for c in cids do
    match p.curs[c]? with
    | none => pure ()
    | some (t, path) =>
      let before := d.out.size
      let (d', r) := dumpLink p.ps.heap p.names t.root d
      d := d'
      let mut ps : Array String := #[]
      for (a, i) in path.reverse do
        let (d', r) := dumpLink p.ps.heap p.names (.ptr a) d
        d := d'
        ps := ps.push s!"{r}:{i}"
      let nodes := (d.out.toList.drop before)
      parts := parts.push s!"K{c}:{t.size},{t.height},{t.growAfter},{t.shrinkBelow},{r}\{{";".intercalate nodes}}[{",".intercalate ps.toList}]"
  -- the cache: first entry per name, in name order
  let mut firsts : Std.HashMap String Nat := {}
  for (n, a) in p.ps.cache.reverse do
    firsts := firsts.insert (nameStr p.names n) a
  let centries := firsts.toList.toArray.qsort (fun x y => x.1 < y.1)
  let mut cparts : Array String := #[]
  for (nm, a) in centries do
    let before := d.out.size
    let (d', r) := dumpLink p.ps.heap p.names (.ptr a) d
    d := d'
    let nodes := (d.out.toList.drop before)
    cparts := cparts.push (if nodes.isEmpty then s!"{nm}={r}" else s!"{nm}={r}\{{";".intercalate nodes}}")
  return s!"last={p.last} " ++ " ".intercalate parts.toList ++ " C:" ++ ",".intercalate cparts.toList

/-- the remaining protocol lines of `pmirror` -/
def pmirrorRest (e : Enc) (layer : Nat → Nat) (bf : Nat) (p : PSt) (E : Env) (toks : List String) : PSt :=
  let fin (p' : PSt) : PSt :=
    { p' with failNext := none, names := extendNames e p'.ps.store p'.names }
  let nat (x : String) : Option Nat := x.toNat?
  let _ := layer
  let _ := bf
  match toks with
  | ["clone", src, dst] =>
    match nat src >>= (p.trees[·]?), nat dst with
    | some t, some j =>
      match clone E t p.nextId pfuel p.ps with
      | .ok t' ps' => fin { p with ps := ps', trees := p.trees.insert j t', nextId := p.nextId + 1, last := "ok" }
      | .err ps' => fin { p with ps := ps', last := "err" }
      | r => fin { p with last := outcomeStr (resOutcome r) }
    | _, _ => p
  | [_, slot, rslot] =>
    if toks.head? == some "root" || toks.head? == some "roots" then
      match nat slot >>= (p.trees[·]?), nat slot, nat rslot with
      | some t, some i, some j =>
        match flush E t pfuel p.ps with
        | .ok (t', n) ps' =>
          fin { p with ps := ps', trees := p.trees.insert i t', roots := p.roots.insert j (n, t'.size, t'.height, t'.bf), last := "ok" }
        | .err ps' => fin { p with ps := ps', last := "err" }
        | r => fin { p with last := outcomeStr (resOutcome r) }
      | _, _, _ => p
    else if toks.head? == some "load" then
      match nat slot >>= (p.roots[·]?), nat rslot with
      | some (n, sz, h, bf'), some i =>
        match loadMast E p.nextId n sz h bf' p.ps with
        | .ok t ps' => fin { p with ps := ps', trees := p.trees.insert i t, nextId := p.nextId + 1, last := "ok" }
        | .err ps' => fin { p with ps := ps', last := "err" }
        | r => fin { p with last := outcomeStr (resOutcome r) }
      | _, _ => p
    else p
  | _ => p

/-- mirror one protocol line on the object-level model -/
def pmirror (e : Enc) (layer : Nat → Nat) (bf : Nat) (p : PSt) (toks : List String) : PSt :=
  if !p.on then p else
  let base := p.ps.tick
  let E : Env := { layer := layer,
                   failAt := match p.failNext with
                     | some k => fun t => t + 1 == base + k
                     | none => fun _ => false }
  let fin (p' : PSt) : PSt :=
    { p' with failNext := none, names := extendNames e p'.ps.store p'.names }
  let nat (x : String) : Option Nat := x.toNat?
  match toks with
  | ["new", slot] =>
    match nat slot with
    | some i =>
      match loadMast E p.nextId 0 0 0 bf p.ps with
      | .ok t ps' => fin { p with ps := ps', trees := p.trees.insert i t, nextId := p.nextId + 1, last := "ok" }
      | r => fin { p with last := outcomeStr (resOutcome r) }
    | none => p
  | ["ins", slot, k, v] =>
    match nat slot >>= (p.trees[·]?), nat slot, nat k, nat v with
    | some t, some i, some k, some v =>
      let (ps', t', o) := insertGo E pfuel p.ps t k v
      fin { p with ps := ps', trees := p.trees.insert i t', last := outcomeStr o }
    | _, _, _, _ => p
  | ["del", slot, k, v] =>
    match nat slot >>= (p.trees[·]?), nat slot, nat k, nat v with
    | some t, some i, some k, some v =>
      let (ps', t', o) := deleteGo E pfuel p.ps t k v
      fin { p with ps := ps', trees := p.trees.insert i t', last := outcomeStr o }
    | _, _, _, _ => p
  | ["get", slot, k] =>
    match nat slot >>= (p.trees[·]?), nat k with
    | some t, some k =>
      match get E t pfuel k p.ps with
      | .ok r ps' => fin { p with ps := ps', last := "ok", lastVal := match r with | some v => s!"some {v}" | none => "none" }
      | .err ps' => fin { p with ps := ps', last := "err" }
      | r => fin { p with last := outcomeStr (resOutcome r) }
    | _, _ => p
  | ["iter", slot] =>
    match nat slot >>= (p.trees[·]?) with
    | some t =>
      -- `iterEntries` is `iterAll` on the state (Lemmas/RefIterEntries.lean: iterEntries_erase)
      match iterEntries E pfuel t.root p.ps with
      | .ok es ps' => fin { p with ps := ps', last := "ok", lastVal := "[" ++ ",".intercalate (es.map fun (k, v) => s!"{k}={v}") ++ "]" }
      | .err ps' => fin { p with ps := ps', last := "err" }
      | r => fin { p with last := outcomeStr (resOutcome r) }
    | none => p
  | ["diff", o, n] =>
    -- DiffIter of tree n against tree o ("-" = no old tree): the entry events
    match nat n >>= (p.trees[·]?) with
    | some tn =>
      let oldRoot : Option (Option HLink) :=
        if o == "-" then some none
        else match nat o >>= (p.trees[·]?) with
          | some to => some (some to.root)
          | none => none
      match oldRoot with
      | none => p
      | some oldRoot =>
        let prog : M (List OEv) := do
          let st ← oDiffInit oldRoot tn.root
          oRun E pfuel 1000000 st
        match prog p.ps with
        | .ok evs ps' =>
          let showEv : OEv → Option String
            | .add k v => some s!"+{k}={v}"
            | .rem k v => some s!"-{k}={v}"
            | .chg k a b => some s!"~{k}={a}>{b}"
            | _ => none
          fin { p with ps := ps', last := "ok", lastVal := " ".intercalate (evs.filterMap showEv) }
        | .err ps' => fin { p with ps := ps', last := "err" }
        | r => fin { p with last := outcomeStr (resOutcome r) }
    | none => p
  | ["plinks", o, n] =>
    -- DiffLinks of tree n against tree o: the link events (a name, or `*obj` for a node object), in
    -- callback order, reported through `last` (the functional model knows names only)
    match nat o >>= (p.trees[·]?), nat n >>= (p.trees[·]?) with
    | some to, some tn =>
      let prog : M (List OEv) := do
        let st ← oDiffInit (some to.root) tn.root
        oRun E pfuel 1000000 st
      match prog p.ps with
      | .ok evs ps' =>
        let lk (l : HLink) : String := match l with
          | .ref k => nameStr p.names k
          | _ => "*obj"
        let showEv : OEv → Option String
          | .addLink l => some ("+" ++ lk l)
          | .remLink l => some ("-" ++ lk l)
          | _ => none
        fin { p with ps := ps', last := "ok:" ++ ",".intercalate (evs.filterMap showEv) }
      | .err ps' => fin { p with ps := ps', last := "err" }
      | r => fin { p with last := outcomeStr (resOutcome r) }
    | _, _ => p
  | ["seek", slot, k] =>
    match nat slot >>= (p.trees[·]?), nat k with
    | some t, some k =>
      match seekIter E t pfuel k p.ps with
      | .ok es ps' => fin { p with ps := ps', last := "ok", lastVal := "[" ++ ",".intercalate (es.map fun (k, v) => s!"{k}={v}") ++ "]" }
      | .err ps' => fin { p with ps := ps', last := "err" }
      | r => fin { p with last := outcomeStr (resOutcome r) }
    | _, _ => p
  | ["cur", slot, c] =>
    match nat slot >>= (p.trees[·]?), nat c with
    | some t, some c =>
      match cursorNew E t p.nextId pfuel p.ps with
      | .ok (t', path) ps' => fin { p with ps := ps', curs := p.curs.insert c (t', path), nextId := p.nextId + 1, last := "ok" }
      | .err ps' => fin { p with ps := ps', last := "err" }
      | r => fin { p with last := outcomeStr (resOutcome r) }
    | _, _ => p
  | [cmd, c] | [cmd, c, _] =>
    if cmd == "cmin" || cmd == "cmax" || cmd == "cfwd" || cmd == "cbwd" || cmd == "cceil" then
      match nat c >>= (p.curs[·]?), nat c with
      | some (t, path), some ci =>
        let k := match toks with | [_, _, k] => (nat k).getD 0 | _ => 0
        let x : M (CPath × Bool) :=
          if cmd == "cmin" then cMin E pfuel path
          else if cmd == "cmax" then cMax E pfuel path
          else if cmd == "cfwd" then cForward E pfuel path
          else if cmd == "cbwd" then cBackward E pfuel path
          else cCeil E k pfuel path
        match x p.ps with
        | .ok (path', failed) ps' =>
          let val := match cGet path' ps' with
            | .ok (some (k, v)) _ => s!"{k}={v}"
            | .ok none _ => "none"
            | _ => "?"
          fin { p with ps := ps', curs := p.curs.insert ci (t, path'), last := if failed then "err" else "ok", lastVal := val }
        | .err ps' => fin { p with ps := ps', last := "err" }
        | r => fin { p with last := outcomeStr (resOutcome r) }
      | _, _ => p
    else pmirrorRest e layer bf p E toks
  | _ => pmirrorRest e layer bf p E toks

/-- cross-check of the two models: every tree of the object-level model must denote (`absTree`)
    the tree the functional model holds in the same slot, up to flags on absent links -/
def pcross (p : PSt) (ftrees : Std.HashMap Nat Tree) : String := Id.run do
  if p.faulted then return "ok"
  let mut bad : List String := p.valBad
  for (sl, t) in p.trees.toList do
    match ftrees[sl]?, absTree p.ps pfuel t with
    | some ft, some pt =>
      let same := normFlags ft.root == normFlags pt.root && ft.size == pt.size && ft.height == pt.height &&
        ft.growAfter == pt.growAfter && ft.shrinkBelow == pt.shrinkBelow && ft.dirty == pt.dirty &&
        (ft.rootP == pt.rootP || Tree.isEmptyTop ft.root)
      if !same then bad := s!"{sl}" :: bad
    | none, _ => bad := s!"{sl}:nofun" :: bad
    | _, none => bad := s!"{sl}:noabs" :: bad
  return if bad.isEmpty then "ok" else "mismatch:" ++ ",".intercalate bad.reverse

/-- commands of the object-level model itself; `none` = not one of them -/
def pcommand (p : PSt) (toks : List String) : Option (PSt × String) :=
  match toks with
  | ["pmode", c] =>
    some ({ on := true, ps := { useCache := c == "1" } }, "ok")
  | ["pfail", k] => some ({ p with failNext := k.toNat? }, "ok")
  | ["pgraph"] => some (p, pgraph p)
  | ["ptick"] => some (p, toString p.ps.tick)
  | _ => none

/-- after a mirrored `get` / `iter` that succeeded at the object level: its answer must be the
    functional model's answer to the same line -/
def pcheckVal (p : PSt) (toks : List String) (resp : String) : PSt :=
  if !p.on || p.faulted then p else
  match toks with
  | [cmd, slot] | [cmd, slot, _] =>
    if cmd == "diff" && p.last == "ok" && p.lastVal != resp then
      { p with valBad := p.valBad ++ [s!"diff:{p.lastVal}"] }
    else if (cmd == "get" || cmd == "iter" || cmd == "seek") && p.last == "ok" && (slot.toNat?.bind (p.trees[·]?)).isSome && p.lastVal != resp then
      { p with valBad := p.valBad ++ [s!"{cmd}{slot}:{p.lastVal}"] }
    else if (cmd == "cmin" || cmd == "cmax" || cmd == "cfwd" || cmd == "cbwd" || cmd == "cceil") && p.last == "ok" &&
        (slot.toNat?.bind (p.curs[·]?)).isSome && p.lastVal != resp then
      { p with valBad := p.valBad ++ [s!"{cmd}{slot}:{p.lastVal}"] }
    else p
  | _ => p
