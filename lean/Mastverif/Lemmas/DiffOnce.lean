import Mastverif.Lemmas.DiffLinks
/-!
# Each node is reported at most once

`alreadyNotified` remembers, per layer of the first key below a link, the last name it reported.
A link is re-considered only while it stays on top of its stack, and nothing else of its side is
reported in between, so the memo still holds its name; once opened or dropped it never comes back.
Side invariant `OInv`: pending names are pairwise distinct, the reports are pairwise distinct, and
a reported name that is still pending is the top link, remembered by the memo.
Hypotheses: distinct nodes of a version have distinct names, and every node leads to a key
(true of well-formed trees: no entry-less childless node below the top).
-/
set_option linter.unusedSimpArgs false
namespace Mast
namespace Diff
open T

variable (layer : Nat → Nat) (nameOf : T → Name)

theorem memoGet_memoSet (m : Memo) (h : Nat) (n : Name) : memoGet (memoSet m h n) h = some n := by
  simp [memoGet, memoSet]

structure OInv (stack : List Item) (memo : Memo) (R : List Name) : Prop where
  c : ∀ e ∈ memo, e.2 ∈ R
  e : ((pend stack).map nameOf).Nodup
  f : R.Nodup
  g : ∀ n ∈ R, n ∈ (pend stack).map nameOf → ∃ p t rest h, stack = Item.link p t :: rest ∧ n = nameOf t ∧
        (chain layer p t).1 = some h ∧ memoGet memo (h % 256) = some n
  k : ∀ x ∈ pend stack, ∀ p, ∃ h, (chain layer p x).1 = some h

theorem once_report {p : Bool} {t : T} {rest : List Item} {memo : Memo} {R : List Name}
    (h : OInv layer nameOf (Item.link p t :: rest) memo R) :
    OInv layer nameOf (Item.link p t :: rest) (notified layer nameOf memo p t).2.1
        (R ++ rep nameOf (notified layer nameOf memo p t).1 t) ∧
    nameOf t ∈ R ++ rep nameOf (notified layer nameOf memo p t).1 t := by
  obtain ⟨hh, hch⟩ := h.k t (by simp [pend]) p
  have htop : nameOf t ∈ (pend (Item.link p t :: rest)).map nameOf := by simp [pend]
  by_cases hg : (memoGet memo (hh % 256) == some (nameOf t)) = true
  · have hget : memoGet memo (hh % 256) = some (nameOf t) := by simpa using hg
    have e1 : notified layer nameOf memo p t = (true, memo, loadsOf nameOf (chain layer p t).2) := by
      unfold notified; simp only [hch, hg, if_true]
    obtain ⟨e, he, hen⟩ := memoGet_mem hget
    have hin : nameOf t ∈ R := by rw [← hen]; exact h.c e he
    rw [e1]
    simp only [rep, if_true, List.append_nil]
    exact ⟨h, hin⟩
  · have e1 : notified layer nameOf memo p t =
        (false, memoSet memo (hh % 256) (nameOf t), loadsOf nameOf (chain layer p t).2) := by
      unfold notified; simp only [hch, hg, Bool.false_eq_true, if_false]
    have hnotin : nameOf t ∉ R := by
      intro hin
      obtain ⟨p', t', rest', h', hst, _, hc', hm⟩ := h.g _ hin htop
      simp only [List.cons.injEq, Item.link.injEq] at hst
      obtain ⟨⟨rfl, rfl⟩, _⟩ := hst
      rw [hch] at hc'
      injection hc' with hc'
      subst hc'
      rw [hm] at hg
      simp at hg
    rw [e1]
    simp only [rep, Bool.false_eq_true, if_false]
    refine ⟨⟨?_, h.e, ?_, ?_, h.k⟩, by simp⟩
    · intro e he
      rcases memoSet_mem he with rfl | he
      · simp
      · have := h.c e he; simp [this]
    · rw [List.nodup_append]
      refine ⟨h.f, by simp, ?_⟩
      intro a ha b hb
      simp only [List.mem_singleton] at hb
      subst hb
      intro heq; subst heq; exact hnotin ha
    · intro n hn hp
      simp only [List.mem_append, List.mem_singleton] at hn
      rcases hn with hn | rfl
      · -- an older report that is still pending would be the top link, remembered by the memo
        obtain ⟨p', t', rest', h', hst, hnt, hc', hm⟩ := h.g n hn hp
        simp only [List.cons.injEq, Item.link.injEq] at hst
        obtain ⟨⟨rfl, rfl⟩, _⟩ := hst
        subst hnt
        exact absurd hn hnotin
      · exact ⟨p, t, rest, hh, rfl, rfl, hch, memoGet_memoSet _ _ _⟩

theorem nodup_map_sublist {l1 l2 : List T} (hs : l1.Sublist l2) (h : (l2.map nameOf).Nodup) :
    (l1.map nameOf).Nodup := (hs.map nameOf).nodup h

theorem once_open {p : Bool} {t : T} {rest : List Item} {memo : Memo} {R : List Name}
    (h : OInv layer nameOf (Item.link p t :: rest) memo R) (_hr : nameOf t ∈ R) :
    OInv layer nameOf (items t ++ rest) memo R := by
  have hsub : (pend (items t ++ rest)).Sublist (pend (Item.link p t :: rest)) := by
    simp only [pend_append, pend_items, pend]
    exact List.sublist_cons_self _ _
  have he := h.e
  simp only [pend, List.map_cons, List.map_append, List.cons_append, List.nodup_cons] at he
  refine ⟨h.c, nodup_map_sublist nameOf hsub h.e, h.f, ?_, ?_⟩
  · intro n hn hp
    have hp' : n ∈ (pend (Item.link p t :: rest)).map nameOf := by
      obtain ⟨x, hx, rfl⟩ := List.mem_map.mp hp
      exact List.mem_map.mpr ⟨x, hsub.subset hx, rfl⟩
    obtain ⟨p', t', rest', h', hst, hnt, _, _⟩ := h.g n hn hp'
    simp only [List.cons.injEq, Item.link.injEq] at hst
    obtain ⟨⟨rfl, rfl⟩, _⟩ := hst
    subst hnt
    simp only [pend_append, pend_items, List.map_append] at hp
    exact absurd hp he.1
  · intro x hx; exact h.k x (hsub.subset hx)

theorem once_pop {k v : Nat} {rest : List Item} {memo : Memo} {R : List Name}
    (h : OInv layer nameOf (Item.yld k v :: rest) memo R) : OInv layer nameOf rest memo R := by
  refine ⟨h.c, by simpa [pend] using h.e, h.f, ?_, by simpa [pend] using h.k⟩
  intro n hn hp
  obtain ⟨p', t', rest', h', hst, _⟩ := h.g n hn (by simpa [pend] using hp)
  simp at hst

theorem once_drop {p : Bool} {t : T} {rest : List Item} {memo : Memo} {R : List Name}
    (h : OInv layer nameOf (Item.link p t :: rest) memo R) : OInv layer nameOf rest memo R := by
  have hsub : (pend rest).Sublist (pend (Item.link p t :: rest)) := by
    simp only [pend]
    exact List.sublist_append_right _ _
  have he := h.e
  simp only [pend, List.map_cons, List.map_append, List.cons_append, List.nodup_cons] at he
  refine ⟨h.c, nodup_map_sublist nameOf hsub h.e, h.f, ?_, fun x hx => h.k x (hsub.subset hx)⟩
  intro n hn hp
  have hp' : n ∈ (pend (Item.link p t :: rest)).map nameOf := by
    obtain ⟨x, hx, rfl⟩ := List.mem_map.mp hp
    exact List.mem_map.mpr ⟨x, hsub.subset hx, rfl⟩
  obtain ⟨p', t', rest', h', hst, hnt, _, _⟩ := h.g n hn hp'
  simp only [List.cons.injEq, Item.link.injEq] at hst
  obtain ⟨⟨rfl, rfl⟩, _⟩ := hst
  subst hnt
  exact absurd (by simp [hp]) he.1

theorem oinv_trans : Trans layer nameOf (OInv layer nameOf) (OInv layer nameOf) where
  repN := fun h => once_report layer nameOf h
  repO := fun h => once_report layer nameOf h
  openN := fun h hr => once_open layer nameOf h hr
  openO := fun h hr => once_open layer nameOf h hr
  popN := fun h => once_pop layer nameOf h
  popO := fun h => once_pop layer nameOf h
  drop := fun hn ho _ => ⟨once_drop layer nameOf hn, once_drop layer nameOf ho⟩

/-- **no name is reported twice**, however far the traversal gets -/
theorem run_once : ∀ (f : Nat) (s : St) (Ra Rr : List Name),
    OInv layer nameOf s.new s.memoNew Ra → OInv layer nameOf s.old s.memoOld Rr →
    (Ra ++ adds (run layer nameOf f s).1).Nodup ∧ (Rr ++ rems (run layer nameOf f s).1).Nodup := by
  intro f
  induction f with
  | zero => intro s Ra Rr hn ho; simpa [run, adds, rems] using ⟨hn.f, ho.f⟩
  | succ f ih =>
    intro s Ra Rr hn ho
    simp only [run]
    cases hst : step layer nameOf s with
    | none => simpa [adds, rems] using ⟨hn.f, ho.f⟩
    | some o =>
      obtain ⟨h1, h2⟩ := step_generic layer nameOf (oinv_trans layer nameOf) s Ra Rr hn ho o hst
      have := ih o.st _ _ h1 h2
      simpa [adds_append, rems_append, List.append_assoc] using this

/-- the initial stacks satisfy the invariant when the version's names are pairwise distinct and
    every node leads to a key -/
theorem init_once (p : Bool) (t : T) (hd : ((versionNodes p t).map nameOf).Nodup)
    (hk : ∀ x ∈ versionNodes p t, ∀ q, ∃ h, (chain layer q x).1 = some h) :
    OInv layer nameOf (rootItems p t) [] [] :=
  ⟨by simp, hd, by simp, by simp, hk⟩

end Diff
end Mast
