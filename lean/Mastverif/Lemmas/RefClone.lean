import Mastverif.Lemmas.RefLoad
/-!
`ToShared` (the deep copy of the unshared part, made for the clone `newId`): the copy denotes the same row, its
footprint is fresh (addresses `≥` the old heap length), has no duplicates and is owned by `newId`.
-/
namespace Mast.Ptr
open Mast.Heap

/-- what the copy `a'` of the object `a` (denoting `x`) satisfies; `lo` = heap length before the copy -/
def CopyOK (newId lo g : Nat) (x : Bool × T × List Nat) (d : Bool) (a' : Nat) (s' : PS) : Prop :=
  ∃ x', repLink s'.heap s'.store g (.ptr a') = some x' ∧ x'.2.1 = x.2.1 ∧ x'.2.2.Nodup ∧
    (∀ b ∈ x'.2.2, lo ≤ b) ∧ FpOwned s'.heap newId x'.2.2 ∧ rootDirty s'.heap (.ptr a') = d

/-- what the copied link list satisfies -/
def CopiesOK (newId lo g : Nat) (cs : List (Bool × T × List Nat)) (ls' : List HLink) (s' : PS) : Prop :=
  ∃ cs', seqO (ls'.map (repLink s'.heap s'.store g)) = some cs' ∧ cs'.map pr = cs.map pr ∧ (fps cs').Nodup ∧
    (∀ b ∈ fps cs', lo ≤ b) ∧ FpOwned s'.heap newId (fps cs')

theorem FpOwned.lt {h : Heap} {m : Nat} {fp : List Nat} (ho : FpOwned h m fp) {b : Nat} (hb : b ∈ fp) : b < h.length := by
  obtain ⟨nd, hnd, _⟩ := ho b hb
  exact (List.getElem?_eq_some_iff.mp hnd).1

theorem FpOwned.append {h : Heap} {m : Nat} {a b : List Nat} (ha : FpOwned h m a) (hb : FpOwned h m b) :
    FpOwned h m (a ++ b) := by
  intro y hy
  rcases List.mem_append.mp hy with h1 | h1
  · exact ha y h1
  · exact hb y h1

theorem fpOwned_nil (h : Heap) (m : Nat) : FpOwned h m [] := fun _ hy => by simp at hy

/-- prepend a child whose footprint lies below `mid` to children whose footprints lie at or above `mid` -/
theorem copies_cons {newId lo mid g : Nat} {s1 s2 : PS} {l' : HLink} {ls' : List HLink}
    {c c' : Bool × T × List Nat} {cs0 : List (Bool × T × List Nat)} (hgr : Grow newId s1 s2)
    (hc' : repLink s1.heap s1.store g l' = some c') (hpr : pr c' = pr c) (hnd : c'.2.2.Nodup)
    (hlo : ∀ b ∈ c'.2.2, lo ≤ b) (hown : FpOwned s1.heap newId c'.2.2) (hmid : mid = s1.heap.length) (hlm : lo ≤ mid)
    (hrest : CopiesOK newId mid g cs0 ls' s2) : CopiesOK newId lo g (c :: cs0) (l' :: ls') s2 := by
  obtain ⟨cs', h1, h2, h3, h4, h5⟩ := hrest
  refine ⟨c' :: cs', seqO_map_cons.mpr ⟨c', cs', hgr.rep hc', h1, rfl⟩, by simp [hpr, h2], ?_, ?_, ?_⟩
  · rw [fps_cons, List.nodup_append]
    refine ⟨hnd, h3, ?_⟩
    intro a ha b hb hab
    subst hab
    have h6 := hown.lt ha
    have h7 := h4 a hb
    omega
  · intro b hb
    rw [fps_cons] at hb
    rcases List.mem_append.mp hb with h | h
    · exact hlo b h
    · have := h4 b h; omega
  · rw [fps_cons]
    exact (hown.allocOnly hgr.alloc).append h5

theorem mapLinks_spec {newId g : Nat} (G : Nat → M Nat)
    (hG : ∀ c s x nd, Good s → repLink s.heap s.store g (.ptr c) = some x → s.heap[c]? = some nd →
      Spec (Grow newId) (G c) s (fun c' s' => CopyOK newId s.heap.length g x nd.dirty c' s')) :
    ∀ (ls : List HLink) (s : PS) (cs : List (Bool × T × List Nat)), Good s →
      seqO (ls.map (repLink s.heap s.store g)) = some cs →
      Spec (Grow newId) (mapLinks G ls) s (fun ls' s' => CopiesOK newId s.heap.length g cs ls' s') := by
  intro ls
  induction ls with
  | nil =>
    intro s cs _ hcs
    unfold mapLinks
    simp [seqO] at hcs; subst hcs
    exact Spec.pure ⟨[], rfl, rfl, by simp, by simp, fpOwned_nil _ _⟩
  | cons l ls ih =>
    intro s cs hg hcs
    obtain ⟨c0, cs0, hc0, hcs0, rfl⟩ := seqO_map_cons.mp hcs
    have hflat : isPtr l = false → c0.2.2 = [] := fun hl => repLink_flat_fp hg.flat _ _ _ hl hc0
    -- the tail, run from a later state `s1`
    have tail : ∀ (s1 : PS) (l' : HLink) (c' : Bool × T × List Nat), Grow newId s s1 →
        repLink s1.heap s1.store g l' = some c' → pr c' = pr c0 → c'.2.2.Nodup →
        (∀ b ∈ c'.2.2, s.heap.length ≤ b) → FpOwned s1.heap newId c'.2.2 →
        Spec (Grow newId) (do let ls' ← mapLinks G ls; pure (l' :: ls')) s1
          (fun r s' => CopiesOK newId s.heap.length g (c0 :: cs0) r s') := by
      intro s1 l' c' hgr1 hc' hpr hnd hlo hown
      have hcs1 : seqO (ls.map (repLink s1.heap s1.store g)) = some cs0 :=
        seqO_map_congr hcs0 (fun l _ c hc => hgr1.rep hc)
      refine Spec.bind (ih s1 cs0 (hgr1.good hg) hcs1) ?_
      intro ls' s2 _ hgr2 hrest
      exact Spec.pure (copies_cons hgr2 hc' hpr hnd hlo hown rfl hgr1.length hrest)
    cases l with
    | nil =>
      unfold mapLinks
      exact tail s .nil c0 (Grow.refl _ _) hc0 rfl (by rw [hflat rfl]; simp) (by rw [hflat rfl]; simp)
        (by rw [hflat rfl]; exact fpOwned_nil _ _)
    | ref n =>
      unfold mapLinks
      exact tail s (.ref n) c0 (Grow.refl _ _) hc0 rfl (by rw [hflat rfl]; simp) (by rw [hflat rfl]; simp)
        (by rw [hflat rfl]; exact fpOwned_nil _ _)
    | ptr c =>
      unfold mapLinks
      refine Spec.bind (read_spec c s) ?_
      rintro cn s0 _ _ ⟨rfl, hcn⟩
      by_cases hsh : cn.shared = true
      · have hfp0 : c0.2.2 = [] := repLink_shared_fp hg.sflat hg.flat hcn hsh hc0
        rw [if_pos hsh]
        refine Spec.bind (Q1 := fun l' s' => l' = .ptr c ∧ s = s') (Spec.pure ⟨rfl, rfl⟩) ?_
        rintro l' s1 _ _ ⟨rfl, rfl⟩
        exact tail s (.ptr c) c0 (Grow.refl _ _) hc0 rfl (by rw [hfp0]; simp) (by rw [hfp0]; simp)
          (by rw [hfp0]; exact fpOwned_nil _ _)
      · rw [if_neg hsh]
        refine Spec.bind (Q1 := fun l' s' => ∃ c', l' = .ptr c' ∧ CopyOK newId s.heap.length g c0 cn.dirty c' s') ?_ ?_
        · refine Spec.bind (hG c s c0 cn hg hc0 hcn) ?_
          intro c' s1 _ _ hcopy
          exact Spec.pure ⟨c', rfl, hcopy⟩
        · rintro l' s1 _ hgr1 ⟨c', rfl, x', hx', hrow, hnd, hlo, hown, _⟩
          refine tail s1 (.ptr c') x' hgr1 hx' ?_ hnd hlo hown
          simp only [pr, hrow, repLink_flag_ptr hx', repLink_flag_ptr hc0]

theorem toShared_spec (newId : Nat) : ∀ (f a : Nat) (s : PS) (g : Nat) (x : Bool × T × List Nat) (nd : MNode), Good s →
    repLink s.heap s.store g (.ptr a) = some x → s.heap[a]? = some nd →
    Spec (Grow newId) (toShared newId f a) s (fun a' s' => CopyOK newId s.heap.length g x nd.dirty a' s') := by
  intro f
  induction f with
  | zero => intro a s g x nd _ _ _; exact Spec.oof
  | succ f ih =>
    intro a s g x nd hg hx hnd
    unfold toShared
    refine Spec.bind (read_spec a s) ?_
    rintro nd' s0 _ _ ⟨rfl, hnd'⟩
    rw [hnd] at hnd'; injection hnd' with hnd'; subst hnd'
    by_cases hsh : nd.shared = true
    · rw [if_pos hsh]
      have hfp0 : x.2.2 = [] := repLink_shared_fp hg.sflat hg.flat hnd hsh hx
      refine Spec.pure ⟨x, hx, rfl, by rw [hfp0]; simp, by rw [hfp0]; simp, by rw [hfp0]; exact fpOwned_nil _ _, ?_⟩
      simp [rootDirty, hnd]
    · rw [if_neg hsh]
      have hsh' : nd.shared = false := by simpa using hsh
      obtain ⟨g', cs, rfl, hv, h1, hcl, rfl⟩ := repLink_ptr_inv hx hnd
      refine Spec.bind (mapLinks_spec (newId := newId) (g := g') _ (fun c s x nd hg hx hnd => ih c s g' x nd hg hx hnd)
        nd.links s cs hg h1) ?_
      rintro links' s1 _ hgr1 ⟨cs', hcs', hpr, hnd', hlo, hown⟩
      have hlen : links'.length = nd.links.length := by
        have e1 := seqO_map_length hcs'
        have e2 := seqO_map_length h1
        have e3 : (cs'.map pr).length = (cs.map pr).length := by rw [hpr]
        simp only [List.length_map] at e3
        omega
      refine (alloc_spec (m := newId) { nd with links := links', owner := newId, source := none } s1 (Or.inr rfl)
        (fun _ => hsh')).conseq ?_
      rintro a' s2 _ hgr2 ⟨rfl, rfl⟩
      have hself : (s1.heap ++ [{ nd with links := links', owner := newId, source := none }])[s1.heap.length]? =
          some { nd with links := links', owner := newId, source := none } := getElem?_append_self _ _
      have hcs2 : seqO (links'.map (repLink (s1.heap ++ [{ nd with links := links', owner := newId, source := none }])
          s1.store g')) = some cs' := seqO_map_congr hcs' (fun l _ c hc => hgr2.rep hc)
      refine ⟨_, repLink_ptr_some.mpr ⟨g', _, cs', rfl, hself, ⟨by rw [hlen]; exact hv.1, hv.2⟩, hcs2, rfl⟩, ?_, ?_, ?_, ?_,
        ?_⟩
      · rw [nodeRep_row, nodeRep_row, hpr]
      · rw [nodeRep_fp]
        have hown1 : ownFp { nd with links := links', owner := newId, source := none } s1.heap.length = [s1.heap.length] := by
          simp [ownFp, hsh']
        rw [hown1]
        refine List.nodup_append.mpr ⟨by simp, hnd', ?_⟩
        intro a ha b hb hab
        simp at ha; subst ha; subst hab
        have := hown.lt hb; omega
      · intro b hb
        rw [nodeRep_fp] at hb
        rcases List.mem_append.mp hb with h | h
        · obtain ⟨_, rfl⟩ := mem_ownFp.mp h
          exact hgr1.length
        · exact hlo b h
      · rw [nodeRep_fp]
        refine FpOwned.append ?_ (hown.allocOnly hgr2.alloc)
        intro y hy
        obtain ⟨_, rfl⟩ := mem_ownFp.mp hy
        exact ⟨_, hself, rfl⟩
      · simp only [rootDirty, hself, Option.map_some, Option.getD_some]

end Mast.Ptr
