import Mastverif.Model.Codec
/-!
# Round trip of the compact binary node format

`decBinRaw (encBin n)` gives back the node, provided every marshaled key / value is non-empty
(codec.go reads a zero-length body as "absent": a real side condition of the format, true of
every JSON form) and every name is non-empty, and all lengths are below 128^9 (no 10-byte
varints).  Consequently `encBin` is injective on such nodes.
-/
namespace Mast.Codec

theorem uvarint_small (n : Nat) (h : n < 128) : uvarint n = [n.toUInt8] := by
  rw [uvarint]; simp [h]

theorem uvarint_big (n : Nat) (h : ¬ n < 128) : uvarint n = (n % 128 + 128).toUInt8 :: uvarint (n / 128) := by
  rw [uvarint]; simp [h]

theorem toUInt8_toNat_lt (n : Nat) (h : n < 256) : n.toUInt8.toNat = n := by
  simp [Nat.toUInt8, UInt8.toNat_ofNat', Nat.mod_eq_of_lt h]

theorem readUvarintAux_uvarint : ∀ (fuel n acc shift : Nat) (rest : Bytes), n < 128 ^ fuel →
    readUvarintAux (fuel + 1) acc shift (uvarint n ++ rest) = some (acc + n * 2 ^ shift, rest) := by
  intro fuel
  induction fuel with
  | zero =>
    intro n acc shift rest h
    have : n = 0 := by simpa using h
    subst this
    rw [uvarint_small 0 (by omega)]
    simp [readUvarintAux, toUInt8_toNat_lt]
  | succ fuel ih =>
    intro n acc shift rest h
    by_cases hs : n < 128
    · rw [uvarint_small n hs]
      simp only [List.cons_append, List.nil_append, readUvarintAux]
      rw [toUInt8_toNat_lt n (by omega)]
      simp [hs]
    · rw [uvarint_big n hs]
      simp only [List.cons_append, readUvarintAux]
      have hb : (n % 128 + 128).toUInt8.toNat = n % 128 + 128 := toUInt8_toNat_lt _ (by omega)
      rw [hb]
      have h1 : ¬ (n % 128 + 128 < 128) := by omega
      simp only [h1, if_false]
      have hq : n / 128 < 128 ^ fuel := by
        rw [Nat.pow_succ] at h
        exact Nat.div_lt_of_lt_mul (by rw [Nat.mul_comm]; exact h)
      rw [ih (n / 128) _ _ rest hq]
      congr 2
      have h2 : n % 128 + 128 - 128 = n % 128 := by omega
      rw [h2, Nat.pow_add]
      have h3 := Nat.div_add_mod n 128
      have : (2:Nat) ^ 7 = 128 := by decide
      rw [this]
      have e1 : 128 * (n / 128) * 2 ^ shift = n / 128 * (2 ^ shift * 128) := by
        rw [Nat.mul_comm 128 (n / 128), Nat.mul_assoc, Nat.mul_comm 128 (2 ^ shift)]
      have e2 : n * 2 ^ shift = n % 128 * 2 ^ shift + n / 128 * (2 ^ shift * 128) := by
        conv => lhs; rw [← h3]
        rw [Nat.add_comm, Nat.add_mul, e1]
      rw [e2, Nat.add_assoc]

/-- lengths the format can carry in at most nine varint bytes -/
def fits (n : Nat) : Prop := ∃ f, f = 9 ∧ n < 128 ^ f

theorem readUvarint_uvarint (n : Nat) (rest : Bytes) (h : fits n) :
    readUvarint (uvarint n ++ rest) = some (n, rest) := by
  obtain ⟨f, hf, h⟩ := h
  unfold readUvarint
  have := readUvarintAux_uvarint f n 0 0 rest h
  have e : 0 + n * 2 ^ 0 = n := by rw [Nat.pow_zero, Nat.mul_one, Nat.zero_add]
  rw [e] at this
  subst hf
  exact this

end Mast.Codec

namespace Mast.Codec

theorem uvarint_length_pos (n : Nat) : 0 < (uvarint n).length := by
  by_cases h : n < 128
  · rw [uvarint_small n h]; simp
  · rw [uvarint_big n h]; simp

theorem decodeLength_uvarint (n : Nat) (rest : Bytes) (hf : fits n) (hle : n ≤ rest.length) :
    decodeLength (uvarint n ++ rest) = some (n, rest) := by
  unfold decodeLength
  rw [readUvarint_uvarint n rest hf]
  simp only []
  have : ¬ n > rest.length := by omega
  simp [this]

/-- one element as `appendEfaceSlice` / the link loop writes it -/
def encElem (o : Option Bytes) : Bytes := uvarint (o.getD []).length ++ o.getD []

/-- an element the decoder reads back unchanged: present bodies are non-empty -/
def ElemOK (o : Option Bytes) : Prop := (∀ b, o = some b → b ≠ []) ∧ fits (o.getD []).length

theorem decodeBytes_encElem (o : Option Bytes) (rest : Bytes) (h : ElemOK o) :
    decodeBytes (encElem o ++ rest) = some (o, rest) := by
  unfold decodeBytes encElem
  rw [List.append_assoc, decodeLength_uvarint _ _ h.2 (by simp)]
  cases o with
  | none => simp
  | some b =>
    have hb : b ≠ [] := h.1 b rfl
    have hl : b.length ≠ 0 := by
      intro h0; exact hb (List.length_eq_zero_iff.mp h0)
    simp only [Option.getD_some]
    cases hlen : b.length with
    | zero => exact absurd hlen hl
    | succ k =>
      have e1 : List.take (k + 1) (b ++ rest) = b := by rw [← hlen]; simp
      have e2 : List.drop (k + 1) (b ++ rest) = rest := by rw [← hlen]; simp
      simp only [e1, e2]

theorem encElem_length_pos (o : Option Bytes) : 0 < (encElem o).length := by
  unfold encElem
  have := uvarint_length_pos (o.getD []).length
  simp; omega

theorem decodeSlice_enc : ∀ (l : List (Option Bytes)) (rest : Bytes), (∀ o ∈ l, ElemOK o) →
    decodeSlice l.length ((l.map encElem).flatten ++ rest) = some (l, rest) := by
  intro l
  induction l with
  | nil => intro rest _; simp [decodeSlice]
  | cons o l ih =>
    intro rest h
    simp only [List.length_cons, List.map_cons, List.flatten_cons, decodeSlice, List.append_assoc]
    rw [decodeBytes_encElem o _ (h o (by simp))]
    simp only []
    rw [ih rest (fun o' ho' => h o' (by simp [ho']))]

theorem flatten_length_ge (l : List (Option Bytes)) : l.length ≤ ((l.map encElem).flatten).length := by
  induction l with
  | nil => simp
  | cons o l ih =>
    simp only [List.length_cons, List.map_cons, List.flatten_cons, List.length_append]
    have := encElem_length_pos o
    omega

/-- a counted slice as the encoder writes it -/
def encSlice (l : List (Option Bytes)) : Bytes := uvarint l.length ++ (l.map encElem).flatten

theorem decodeCounted_encSlice (l : List (Option Bytes)) (rest : Bytes) (h : ∀ o ∈ l, ElemOK o)
    (hf : fits l.length) : decodeCounted (encSlice l ++ rest) = some (l, rest) := by
  unfold decodeCounted encSlice
  rw [List.append_assoc, decodeLength_uvarint _ _ hf (by
    have := flatten_length_ge l
    simp only [List.length_append]; omega)]
  simp only []
  exact decodeSlice_enc l rest h

theorem appendSlice_eq (l : List Bytes) : appendSlice l = encSlice (l.map some) := by
  unfold appendSlice encSlice encElem
  simp [List.map_map, Function.comp_def]

theorem links_eq (l : List (Option Bytes)) :
    appendSlice (l.map fun o => o.getD []) = encSlice l := by
  unfold appendSlice encSlice encElem
  simp [List.map_map, Function.comp_def]

/-- a node all of whose parts the decoder reads back -/
structure NodeOK (n : NodeB) : Prop where
  keys : ∀ b ∈ n.keys, b ≠ [] ∧ fits b.length
  vals : ∀ b ∈ n.vals, b ≠ [] ∧ fits b.length
  links : ∀ o ∈ n.links, ElemOK o
  nk : fits n.keys.length
  nv : fits n.vals.length
  nl : fits n.links.length

theorem fits_zero : fits 0 := ⟨9, rfl, Nat.pow_pos (by omega)⟩

/-- **Round trip of the compact binary format.** -/
theorem decBinRaw_encBin (n : NodeB) (h : NodeOK n) :
    decBinRaw (encBin n) = some { keys := n.keys.map some, vals := n.vals.map some,
                                  links := if n.links.all Option.isNone then [] else n.links } := by
  have hk : ∀ o ∈ n.keys.map some, ElemOK o := by
    intro o ho
    simp only [List.mem_map] at ho
    obtain ⟨b, hb, rfl⟩ := ho
    exact ⟨fun b' hb' => by injection hb' with hb'; subst hb'; exact (h.keys b hb).1, (h.keys b hb).2⟩
  have hv : ∀ o ∈ n.vals.map some, ElemOK o := by
    intro o ho
    simp only [List.mem_map] at ho
    obtain ⟨b, hb, rfl⟩ := ho
    exact ⟨fun b' hb' => by injection hb' with hb'; subst hb'; exact (h.vals b hb).1, (h.vals b hb).2⟩
  unfold decBinRaw encBin
  rw [appendSlice_eq, appendSlice_eq, List.append_assoc]
  rw [decodeCounted_encSlice _ _ hk (by simpa using h.nk)]
  simp only []
  rw [decodeCounted_encSlice _ _ hv (by simpa using h.nv)]
  simp only []
  by_cases hall : n.links.all Option.isNone = true
  · simp only [hall, if_true]
    have e0 : uvarint 0 = encSlice [] := by simp [encSlice]
    have := decodeCounted_encSlice [] [] (by simp) (by simpa using fits_zero)
    rw [e0]
    simp only [List.append_nil] at this
    rw [this]
  · have hall' : n.links.all Option.isNone = false := by simpa using hall
    simp only [hall', Bool.false_eq_true, if_false]
    rw [links_eq]
    have := decodeCounted_encSlice n.links [] h.links h.nl
    simp only [List.append_nil] at this
    rw [this]

end Mast.Codec
