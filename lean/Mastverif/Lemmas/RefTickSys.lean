import Mastverif.Lemmas.RefTickWF
import Mastverif.Lemmas.RefSysInv
/-!
# History level: the store loads of a whole run

Every public call has a budget (`opBudget`): `height + 1` for `Insert` and `Get`, `2 * height + 1` for a
`Delete` that ends `.ok` without changing the height, `1` for `flush`, `Clone`, `LoadMast`; the calls that the
property does not cover (full iteration, a `Delete` that changes the height or fails) are charged what they
cost.  Along `Sys.run` the total number of store loads is at most the sum of the budgets, provided the trees
that `Insert` / `Delete` work on satisfy the depth bound at the time of the call (`Sys.Deep`), which holds for
every tree that denotes a well-formed functional tree (`opDeep_of_den`).
-/
namespace Mast.Ptr
open Mast.Heap

/-! ## flush: at most one store load (the top node, when the root is a name) -/

theorem intern_ts (sn : SNode) (s : PS) : TS AnyR 0 (intern sn) s Tr := by
  unfold TS intern
  cases internIdx sn s.store 0 with
  | some i => dsimp only; exact ⟨Nat.le_refl _, trivial, trivial⟩
  | none => dsimp only; exact ⟨Nat.le_refl _, trivial, trivial⟩

theorem storeLinks_ts (g : Nat → M (Nat × List (Nat × List HLink × Nat))) (hg : ∀ c s, TS AnyR 0 (g c) s Tr) :
    ∀ (ls : List HLink) (s : PS), TS AnyR 0 (storeLinks g ls) s Tr := by
  intro ls
  induction ls with
  | nil => intro s; exact TS.pure trivial
  | cons l ls ih =>
    intro s
    cases l with
    | nil =>
      simp only [storeLinks]
      exact TS.bind (a := 0) (b := 0) (ih s) (fun _ _ _ _ _ => TS.pure trivial) (by omega)
    | ref n =>
      simp only [storeLinks]
      exact TS.bind (a := 0) (b := 0) (ih s) (fun _ _ _ _ _ => TS.pure trivial) (by omega)
    | ptr c =>
      simp only [storeLinks]
      refine TS.bind (a := 0) (b := 0) (hg c s) ?_ (by omega)
      intro _ s1 _ _ _
      exact TS.bind (a := 0) (b := 0) (ih s1) (fun _ _ _ _ _ => TS.pure trivial) (by omega)

theorem storeNode_ts : ∀ (f a : Nat) (s : PS), TS AnyR 0 (storeNode f a) s Tr := by
  intro f
  induction f with
  | zero => intro a s; exact TS.oof
  | succ f ih =>
    intro a s
    unfold storeNode
    refine TS.bind (a := 0) (b := 0) (read_ts a s) ?_ (by omega)
    intro nd s1 _ _ _
    split
    · exact TS.pure trivial
    · refine TS.bind (a := 0) (b := 0) (storeLinks_ts _ (fun c s' => ih c s') nd.links s1) ?_ (by omega)
      intro _ s2 _ _ _
      exact TS.bind (a := 0) (b := 0) (intern_ts _ s2) (fun _ _ _ _ _ => TS.pure trivial) (by omega)

theorem publish_ts (m a : Nat) (links : List HLink) (s : PS) : TS AnyR 0 (publish m a links) s Tr := by
  unfold TS publish
  cases applyAct s.heap (.publish m a links) with
  | none => trivial
  | some h' => exact ⟨Nat.le_refl _, trivial, trivial⟩

theorem cacheAdd_ts (n a : Nat) (s : PS) : TS AnyR 0 (cacheAdd n a) s Tr := by
  unfold TS cacheAdd
  dsimp only
  refine ⟨?_, trivial, trivial⟩
  split <;> simp

theorem commitAll_ts (m : Nat) : ∀ (cms : List (Nat × List HLink × Nat)) (s : PS), TS AnyR 0 (commitAll m cms) s Tr := by
  intro cms
  induction cms with
  | nil => intro s; exact TS.pure trivial
  | cons c rest ih =>
    intro s
    obtain ⟨a, links, n⟩ := c
    unfold commitAll
    refine TS.bind (a := 0) (b := 0) (read_ts a s) ?_ (by omega)
    intro nd s1 _ _ _
    refine TS.bind (a := 0) (b := 0) (Q1 := Tr) ?_ ?_ (by omega)
    · split
      · exact TS.pure trivial
      · exact TS.bind (a := 0) (b := 0) (write_ts m a _ s1) (fun _ s2 _ _ _ => publish_ts m a links s2) (by omega)
    · intro _ s2 _ _ _
      exact TS.bind (a := 0) (b := 0) (cacheAdd_ts n a s2) (fun _ s3 _ _ _ => ih s3) (by omega)

theorem flush_ts (E : Env) (t : PTree) (fuel : Nat) (s : PS) : TS AnyR 1 (flush E t fuel) s Tr := by
  unfold flush
  split
  · exact TS.pure trivial
  · refine TS.bind (a := 1) (b := 0) (load_ts_one E t.root s).any ?_ (by omega)
    intro a s1 _ _ _
    refine TS.bind (a := 0) (b := 0) (read_ts a s1) ?_ (by omega)
    intro nd s2 _ _ _
    split
    · refine TS.bind (a := 0) (b := 0) (Q1 := Tr) ?_ (fun _ _ _ _ _ => TS.pure trivial) (by omega)
      split
      · exact write_ts _ _ _ s2
      · exact TS.pure trivial
    · refine TS.bind (a := 0) (b := 0) (storeNode_ts fuel a s2) ?_ (by omega)
      rintro ⟨n, cms⟩ s3 _ _ _
      exact TS.bind (a := 0) (b := 0) (commitAll_ts t.id cms s3) (fun _ _ _ _ _ => TS.pure trivial) (by omega)

/-- `flush` performs at most one store load -/
theorem flush_tick (E : Env) (t : PTree) (fuel : Nat) (s : PS) :
    (∀ r s', flush E t fuel s = .ok r s' → s'.tick ≤ s.tick + 1) ∧
    (∀ s', flush E t fuel s = .err s' → s'.tick ≤ s.tick + 1) :=
  (flush_ts E t fuel s).bounds

/-! ## one call -/

theorem runM_tick {α : Type} {R : PS → PS → Prop} {x : M α} {s : PS} {n : Nat} {Q : α → PS → Prop}
    (hx : TS R n x s Q) : (runM x s).2.1.tick ≤ s.tick + n := by
  unfold runM
  cases hxs : x s with
  | ok a s' => exact (hx.ok hxs).1
  | err s' => exact hx.err hxs
  | panic => exact Nat.le_add_right _ _
  | stuck => exact Nat.le_add_right _ _
  | oof => exact Nat.le_add_right _ _

/-- the tree an `Insert` / `Delete` works on satisfies the depth bound (and the cache is sound) -/
def OpDeep (σ : Sys) : Op → Prop
  | .ins i _ _ => ∀ t, σ.trees[i]? = some t → CacheS σ.ps ∧ DepthLe σ.ps.heap σ.ps.store (t.height + 1) t.root
  | .del i _ _ => ∀ t, σ.trees[i]? = some t → CacheS σ.ps ∧ DepthLe σ.ps.heap σ.ps.store (t.height + 1) t.root
  | _ => True

/-- the budget of one call; calls that the property does not cover are charged what they cost -/
def opBudget (E : Env) (fuel : Nat) (σ : Sys) : Op → Nat
  | .ins i _ _ => match σ.trees[i]? with
    | some t => t.height + 1
    | none => 0
  | .get i _ => match σ.trees[i]? with
    | some t => t.height + 1
    | none => 0
  | .del i k v => match σ.trees[i]? with
    | some t =>
      let r := delete E fuel σ.ps t k v
      if r.2.2 = .ok ∧ r.2.1.height = t.height then 2 * t.height + 1 else r.1.tick - σ.ps.tick
    | none => 0
  | .iter i => (σ.apply E fuel (.iter i)).1.ps.tick - σ.ps.tick
  | .flush _ => 1
  | .clone _ => 1
  | .load _ _ _ _ => 1

theorem Sys.apply_tick (E : Env) (fuel : Nat) (σ : Sys) (op : Op) (hd : OpDeep σ op) :
    (σ.apply E fuel op).1.ps.tick ≤ σ.ps.tick + opBudget E fuel σ op := by
  cases op with
  | ins i k v =>
    simp only [Sys.apply, opBudget]
    cases ht : σ.trees[i]? with
    | none => simp
    | some t =>
      obtain ⟨hc, hdl⟩ := hd t ht
      simp only
      have := insert_tick E fuel σ.ps (insert E fuel σ.ps t k v).1 t (insert E fuel σ.ps t k v).2.1 k v
        (insert E fuel σ.ps t k v).2.2 hc hdl rfl
      omega
  | del i k v =>
    simp only [Sys.apply, opBudget]
    cases ht : σ.trees[i]? with
    | none => simp
    | some t =>
      obtain ⟨hc, hdl⟩ := hd t ht
      simp only
      split
      · next hok =>
        have h := delete_tick E fuel σ.ps (delete E fuel σ.ps t k v).1 t (delete E fuel σ.ps t k v).2.1 k v hc hdl
          (by rw [← hok.1]) hok.2
        have : min (E.layer k) t.height ≤ t.height := Nat.min_le_right _ _
        omega
      · omega
  | get i k =>
    simp only [Sys.apply, opBudget]
    cases ht : σ.trees[i]? with
    | none => simp
    | some t =>
      simp only
      have := runM_tick (get_ts E t fuel k σ.ps)
      omega
  | iter i => simp only [opBudget]; omega
  | flush i =>
    simp only [Sys.apply, opBudget]
    cases ht : σ.trees[i]? with
    | none => simp
    | some t => exact runM_tick (flush_ts E t fuel σ.ps)
  | clone i =>
    simp only [Sys.apply, opBudget]
    cases ht : σ.trees[i]? with
    | none => simp
    | some t => exact runM_tick (clone_ts E t σ.nextId fuel σ.ps)
  | load link size height bf =>
    simp only [Sys.apply, opBudget]
    exact runM_tick (loadMast_ts E σ.nextId link size height bf σ.ps)

/-! ## a whole history -/

/-- the sum of the budgets of the calls, each taken in the state in which the call is made -/
def Sys.budget (E : Env) (fuel : Nat) : Sys → List Op → Nat
  | _, [] => 0
  | σ, op :: ops =>
    opBudget E fuel σ op +
      (match σ.apply E fuel op with
       | (σ', .ok) => Sys.budget E fuel σ' ops
       | (σ', .err) => Sys.budget E fuel σ' ops
       | _ => 0)

/-- at every `Insert` / `Delete` of the run the tree satisfies the depth bound -/
def Sys.Deep (E : Env) (fuel : Nat) : Sys → List Op → Prop
  | _, [] => True
  | σ, op :: ops =>
    OpDeep σ op ∧
      (match σ.apply E fuel op with
       | (σ', .ok) => Sys.Deep E fuel σ' ops
       | (σ', .err) => Sys.Deep E fuel σ' ops
       | _ => True)

/-- **C16, history level**: the store loads of a run are bounded by the sum of the per-call budgets -/
theorem Sys.run_tick (E : Env) (fuel : Nat) : ∀ (ops : List Op) (σ : Sys), Sys.Deep E fuel σ ops →
    (Sys.run E fuel σ ops).1.ps.tick ≤ σ.ps.tick + Sys.budget E fuel σ ops := by
  intro ops
  induction ops with
  | nil => intro σ _; exact Nat.le_refl _
  | cons op ops ih =>
    intro σ hd
    have h1 := Sys.apply_tick E fuel σ op hd.1
    have h2 := hd.2
    simp only [Sys.run, Sys.budget]
    generalize σ.apply E fuel op = r at h1 h2 ⊢
    obtain ⟨σ', o⟩ := r
    cases o with
    | ok => have := ih σ' h2; simp only at this h1 ⊢; omega
    | err => have := ih σ' h2; simp only at this h1 ⊢; omega
    | panic => simp only at h1 ⊢; omega
    | stuck => simp only at h1 ⊢; omega
    | oof => simp only at h1 ⊢; omega

/-! ## the depth hypothesis from the refinement invariant -/

/-- in a system whose trees denote functional trees with well-formed root rows (as `Tree.Inv` says), every
    call satisfies the depth hypothesis -/
theorem opDeep_of_den (layer : Nat → Nat) (σ : Sys) (As : List Tree) (op : Op) (hg : Good σ.ps) (hD : Den σ As)
    (hw : ∀ A ∈ As, T.WF layer A.height A.root) : OpDeep σ op := by
  have key : ∀ (i : Nat) (t : PTree), σ.trees[i]? = some t →
      CacheS σ.ps ∧ DepthLe σ.ps.heap σ.ps.store (t.height + 1) t.root := by
    intro i t ht
    obtain ⟨A, hA, g, hrep⟩ := hD.2 i t ht
    exact ⟨hg.cacheS, depthLe_of_repTree layer hrep (hw A (List.mem_of_getElem? hA))⟩
  cases op with
  | ins i k v => exact fun t ht => key i t ht
  | del i k v => exact fun t ht => key i t ht
  | get i k => trivial
  | iter i => trivial
  | flush i => trivial
  | clone i => trivial
  | load _ _ _ _ => trivial

end Mast.Ptr
