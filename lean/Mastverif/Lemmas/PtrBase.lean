import Mastverif.Model.Ptr
import Mastverif.Lemmas.Heap
/-!
# Hoare-style reasoning for the object-level model

`Sat m lvl P x Q`: started in a state that satisfies the ownership invariant `Inv m` and `P`, the
operation `x` (performed by / for tree `m`)

* is never `stuck` (every guard of the heap protocol holds),
* ends — successfully or with an error — in a state that again satisfies `Inv m` and is an
  *extension* `Ext m lvl` of the start state,
* and on success its result satisfies `Q`.

`Ext m lvl s s'` says what may have happened to the heap in between:
level 0 — guarded actions by `m` only: every other owner `v` with a closed view still sees
          exactly what it saw, and whatever `m` could see it still can;
level 1 — moreover nothing was published: objects owned by `m` are still owned by `m`;
level 2 — moreover nothing was written at all: the old heap is a prefix of the new one.
-/
namespace Mast.Ptr
open Mast.Heap

def Own (h : Heap) (m a : Nat) : Prop := ∃ nd, h[a]? = some nd ∧ nd.shared = false ∧ nd.owner = m

def SharedA (h : Heap) (a : Nat) : Prop := ∃ nd, h[a]? = some nd ∧ nd.shared = true

def DirtyUnshared (h : Heap) : Prop := ∀ (a : Nat) (nd : MNode), h[a]? = some nd → nd.dirty = true → nd.shared = false

def StoreFlat (st : List SNode) : Prop := ∀ sn ∈ st, ∀ l ∈ sn.links, isPtr l = false

def CacheOK (s : PS) : Prop := ∀ n a, (n, a) ∈ s.cache → SharedA s.heap a

def AllocOnly (h h' : Heap) : Prop := ∀ (a : Nat) (nd : MNode), h[a]? = some nd → h'[a]? = some nd

theorem AllocOnly.refl (h : Heap) : AllocOnly h h := fun _ _ x => x
theorem AllocOnly.trans {h1 h2 h3 : Heap} (a : AllocOnly h1 h2) (b : AllocOnly h2 h3) : AllocOnly h1 h3 :=
  fun x nd hx => b x nd (a x nd hx)

structure Inv (m : Nat) (s : PS) : Prop where
  closed : Closed s.heap m
  du : DirtyUnshared s.heap
  flat : StoreFlat s.store
  cache : CacheOK s
  mpos : m ≠ 0

structure Ext (m lvl : Nat) (s s' : PS) : Prop where
  others : ∀ v, v ≠ m → v ≠ 0 → Closed s.heap v → Agree s.heap s'.heap v ∧ Closed s'.heap v
  vis : ∀ l, Vis s.heap m l → Vis s'.heap m l
  shr : ∀ a, SharedA s.heap a → SharedA s'.heap a
  own : 1 ≤ lvl → ∀ a, Own s.heap m a → Own s'.heap m a
  pre : 2 ≤ lvl → AllocOnly s.heap s'.heap
  /-- the table of stored contents only grows: a name keeps its contents for ever -/
  stp : ∃ ext, s'.store = s.store ++ ext

theorem Ext.refl (m lvl : Nat) (s : PS) : Ext m lvl s s :=
  ⟨fun v _ _ hc => ⟨agree_refl _ v, hc⟩, fun _ h => h, fun _ h => h, fun _ _ h => h, fun _ => AllocOnly.refl _, ⟨[], by simp⟩⟩

theorem Ext.trans {m lvl : Nat} {s1 s2 s3 : PS} (a : Ext m lvl s1 s2) (b : Ext m lvl s2 s3) : Ext m lvl s1 s3 := by
  refine ⟨?_, fun l h => b.vis l (a.vis l h), fun x h => b.shr x (a.shr x h),
    fun hl x h => b.own hl x (a.own hl x h), fun hl => (a.pre hl).trans (b.pre hl), ?_⟩
  · intro v h1 h2 hc
    obtain ⟨ag1, c1⟩ := a.others v h1 h2 hc
    obtain ⟨ag2, c2⟩ := b.others v h1 h2 c1
    exact ⟨agree_trans ag1 ag2, c2⟩
  · obtain ⟨x1, h1⟩ := a.stp
    obtain ⟨x2, h2⟩ := b.stp
    exact ⟨x1 ++ x2, by rw [h2, h1, List.append_assoc]⟩

theorem Ext.mono {m lvl lvl' : Nat} {s s' : PS} (hl : lvl' ≤ lvl) (a : Ext m lvl s s') : Ext m lvl' s s' :=
  ⟨a.others, a.vis, a.shr, fun h => a.own (by omega), fun h => a.pre (by omega), a.stp⟩

/-- only fields other than the heap changed -/
theorem Ext.of_heap_eq {m lvl : Nat} {s s' : PS} (h : s'.heap = s.heap) (hst : ∃ ext, s'.store = s.store ++ ext) :
    Ext m lvl s s' := by
  refine ⟨?_, ?_, ?_, ?_, ?_, hst⟩
  · intro v _ _ hc; rw [h]; exact ⟨agree_refl _ _, hc⟩
  · intro l hl; rw [h]; exact hl
  · intro a ha; rw [h]; exact ha
  · intro _ a ha; rw [h]; exact ha
  · intro _; rw [h]; exact AllocOnly.refl _

def Sat {α : Type} (m lvl : Nat) (P : PS → Prop) (x : M α) (Q : α → PS → Prop) : Prop :=
  ∀ s, Inv m s → P s →
    match x s with
    | .ok a s' => Ext m lvl s s' ∧ Inv m s' ∧ Q a s'
    | .err s' => Ext m lvl s s' ∧ Inv m s'
    | .stuck => False
    | .panic => True
    | .oof => True

/-- `P` held in some earlier state of which the present one is an extension -/
def Was (m lvl : Nat) (P : PS → Prop) : PS → Prop := fun s' => ∃ s, P s ∧ Ext m lvl s s'

theorem Was.now {m lvl : Nat} {P : PS → Prop} {s : PS} (h : P s) : Was m lvl P s := ⟨s, h, Ext.refl _ _ _⟩

theorem Sat.bind {α β : Type} {m lvl : Nat} {P : PS → Prop} {x : M α} {f : α → M β}
    {Q1 : α → PS → Prop} {R : β → PS → Prop}
    (hx : Sat m lvl P x Q1)
    (hf : ∀ a, Sat m lvl (fun s' => Q1 a s' ∧ Was m lvl P s') (f a) R) :
    Sat m lvl P (x >>= f) R := by
  intro s hinv hP
  have h1 := hx s hinv hP
  show match M.bind x f s with | .ok a s' => _ | .err s' => _ | .stuck => _ | .panic => _ | .oof => _
  unfold M.bind
  cases hxs : x s with
  | ok a s1 =>
    rw [hxs] at h1
    obtain ⟨e1, i1, q1⟩ := h1
    have h2 := hf a s1 i1 ⟨q1, s, hP, e1⟩
    simp only
    cases hfs : f a s1 with
    | ok b s2 => rw [hfs] at h2; exact ⟨e1.trans h2.1, h2.2.1, h2.2.2⟩
    | err s2 => rw [hfs] at h2; exact ⟨e1.trans h2.1, h2.2⟩
    | stuck => rw [hfs] at h2; exact h2
    | panic => trivial
    | oof => trivial
  | err s1 => rw [hxs] at h1; exact h1
  | stuck => rw [hxs] at h1; exact h1
  | panic => trivial
  | oof => trivial

theorem Sat.pure {α : Type} {m lvl : Nat} {P : PS → Prop} {a : α} {Q : α → PS → Prop}
    (h : ∀ s, Inv m s → P s → Q a s) : Sat m lvl P (Pure.pure a : M α) Q := by
  intro s hinv hP
  exact ⟨Ext.refl _ _ _, hinv, h s hinv hP⟩

theorem Sat.panic {α : Type} {m lvl : Nat} {P : PS → Prop} {Q : α → PS → Prop} : Sat m lvl P (panicE : M α) Q := by
  intro s _ _; trivial

theorem Sat.oof {α : Type} {m lvl : Nat} {P : PS → Prop} {Q : α → PS → Prop} : Sat m lvl P (oofE : M α) Q := by
  intro s _ _; trivial

theorem Sat.fail {α : Type} {m lvl : Nat} {P : PS → Prop} {Q : α → PS → Prop} : Sat m lvl P (failE : M α) Q := by
  intro s hinv _; exact ⟨Ext.refl _ _ _, hinv⟩

/-- consequence rule -/
theorem Sat.conseq {α : Type} {m lvl lvl' : Nat} {P P' : PS → Prop} {x : M α} {Q Q' : α → PS → Prop}
    (hx : Sat m lvl P x Q) (hl : lvl' ≤ lvl) (hp : ∀ s, Inv m s → P' s → P s)
    (hq : ∀ a s, Inv m s → Q a s → Q' a s) : Sat m lvl' P' x Q' := by
  intro s hinv hP'
  have h := hx s hinv (hp s hinv hP')
  cases hxs : x s with
  | ok a s1 => rw [hxs] at h; exact ⟨h.1.mono hl, h.2.1, hq a s1 h.2.1 h.2.2⟩
  | err s1 => rw [hxs] at h; exact ⟨h.1.mono hl, h.2⟩
  | stuck => rw [hxs] at h; exact h
  | panic => trivial
  | oof => trivial

/-- the postcondition may use the precondition's trace -/
theorem Sat.frame {α : Type} {m lvl : Nat} {P : PS → Prop} {x : M α} {Q : α → PS → Prop}
    (hx : Sat m lvl P x Q) : Sat m lvl P x (fun a s' => Q a s' ∧ Was m lvl P s') := by
  intro s hinv hP
  have h := hx s hinv hP
  cases hxs : x s with
  | ok a s1 => rw [hxs] at h; exact ⟨h.1, h.2.1, h.2.2, s, hP, h.1⟩
  | err s1 => rw [hxs] at h; exact h
  | stuck => rw [hxs] at h; exact h
  | panic => trivial
  | oof => trivial

/-! ## stability of the assertions used below -/

theorem Was.vis {m lvl : Nat} {l : HLink} {s : PS} (h : Was m lvl (fun s => Vis s.heap m l) s) : Vis s.heap m l := by
  obtain ⟨s0, h0, e⟩ := h; exact e.vis l h0

theorem Was.own {m lvl : Nat} {a : Nat} {s : PS} (hl : 1 ≤ lvl) (h : Was m lvl (fun s => Own s.heap m a) s) : Own s.heap m a := by
  obtain ⟨s0, h0, e⟩ := h; exact e.own hl a h0

theorem Was.was {m lvl : Nat} {P : PS → Prop} {s : PS} (h : Was m lvl (Was m lvl P) s) : Was m lvl P s := by
  obtain ⟨s1, ⟨s0, h0, e0⟩, e1⟩ := h; exact ⟨s0, h0, e0.trans e1⟩

theorem Was.imp {m lvl : Nat} {P P' : PS → Prop} {s : PS} (hi : ∀ s, P s → P' s) (h : Was m lvl P s) : Was m lvl P' s := by
  obtain ⟨s0, h0, e⟩ := h; exact ⟨s0, hi s0 h0, e⟩

theorem own_vis {h : Heap} {m a : Nat} (ho : Own h m a) : Vis h m (.ptr a) := by
  obtain ⟨nd, hnd, _, how⟩ := ho; exact ⟨nd, hnd, Or.inr how⟩

theorem shared_vis {h : Heap} {m a : Nat} (ho : SharedA h a) : Vis h m (.ptr a) := by
  obtain ⟨nd, hnd, hs⟩ := ho; exact ⟨nd, hnd, Or.inl hs⟩

theorem vis_nil (h : Heap) (m : Nat) : Vis h m .nil := trivial
theorem vis_ref (h : Heap) (m n : Nat) : Vis h m (.ref n) := trivial

theorem linkOK_of_vis {h : Heap} {m : Nat} {l : HLink} (hv : Vis h m l) : linkOK h m l = true := by
  cases l with
  | nil => rfl
  | ref n => rfl
  | ptr a =>
    obtain ⟨nd, hnd, hso⟩ := hv
    simp only [linkOK, hnd]
    rcases hso with h1 | h1 <;> simp [h1]

theorem vis_of_linkOK {h : Heap} {m : Nat} {l : HLink} (hv : linkOK h m l = true) : Vis h m l := by
  cases l with
  | nil => trivial
  | ref n => trivial
  | ptr a =>
    simp only [linkOK] at hv
    cases hnd : h[a]? with
    | none => simp [hnd] at hv
    | some nd =>
      simp only [hnd, Bool.or_eq_true, beq_iff_eq] at hv
      exact ⟨nd, hnd, hv⟩

/-- the links of an object `m` can see are visible to `m` -/
theorem links_vis {m : Nat} {s : PS} (hinv : Inv m s) {a : Nat} {nd : MNode}
    (hnd : s.heap[a]? = some nd) (hv : Vis s.heap m (.ptr a)) : ∀ l ∈ nd.links, Vis s.heap m l := by
  obtain ⟨nd', hnd', hso⟩ := hv
  rw [hnd] at hnd'; injection hnd' with hnd'; subst hnd'
  exact hinv.closed a nd hnd hso

theorem own_of_vis_unshared {h : Heap} {m a : Nat} {nd : MNode} (hnd : h[a]? = some nd)
    (hv : Vis h m (.ptr a)) (hs : nd.shared = false) : Own h m a := by
  obtain ⟨nd', hnd', hso⟩ := hv
  rw [hnd] at hnd'; injection hnd' with hnd'; subst hnd'
  rcases hso with h1 | h1
  · rw [hs] at h1; cases h1
  · exact ⟨nd, hnd, hs, h1⟩

end Mast.Ptr
