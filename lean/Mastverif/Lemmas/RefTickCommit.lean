import Mastverif.Lemmas.RefTickDepth
/-!
# The in-place phases perform no store load

`toMut`, `mutPath`, `relink`, `savePath`, `insertCommit`, `deleteCommit`; the growth loop `growAll` (and `grow`)
on a tree whose root link is a pointer — which it is after the commit.
-/
namespace Mast.Ptr
open Mast.Heap

theorem toMut_ts (m a : Nat) (s : PS) : TS AnyR 0 (toMut m a) s Tr := by
  unfold toMut
  refine TS.bind (a := 0) (b := 0) (read_ts a s) ?_ (by omega)
  intro nd s1 _ _ _
  split
  · exact TS.panic
  · split
    · exact TS.pure trivial
    · exact (alloc_ts _ s1).any.conseq (Nat.le_refl _) (fun _ _ _ _ _ => trivial)

theorem mutPath_ts (m : Nat) : ∀ (path : List (Nat × Nat)) (s : PS), TS AnyR 0 (mutPath m path) s Tr := by
  intro path
  induction path with
  | nil => intro s; exact TS.pure trivial
  | cons x rest ih =>
    intro s
    obtain ⟨a, i⟩ := x
    unfold mutPath
    refine TS.bind (a := 0) (b := 0) (read_ts a s) ?_ (by omega)
    intro nd s1 _ _ _
    refine TS.bind (a := 0) (b := 0) (Q1 := Tr) ?_ ?_ (by omega)
    · split
      · exact TS.pure trivial
      · refine TS.bind (a := 0) (b := 0) (toMut_ts m a s1) ?_ (by omega)
        intro a' s2 _ _ _
        refine TS.bind (a := 0) (b := 0) (read_ts a' s2) ?_ (by omega)
        intro nd' s3 _ _ _
        exact TS.bind (a := 0) (b := 0) (write_ts m a' _ s3) (fun _ _ _ _ _ => TS.pure trivial) (by omega)
    · intro a' s2 _ _ _
      exact TS.bind (a := 0) (b := 0) (ih s2) (fun _ _ _ _ _ => TS.pure trivial) (by omega)

theorem relink_ts (m : Nat) : ∀ (path : List (Nat × Nat)) (s : PS), TS AnyR 0 (relink m path) s Tr := by
  intro path
  induction path with
  | nil => intro s; exact TS.pure trivial
  | cons x rest ih =>
    intro s
    cases rest with
    | nil => exact TS.pure trivial
    | cons y rest' =>
      obtain ⟨a, i⟩ := x
      obtain ⟨b, j⟩ := y
      unfold relink
      refine TS.bind (a := 0) (b := 0) (ih s) ?_ (by omega)
      intro _ s1 _ _ _
      refine TS.bind (a := 0) (b := 0) (read_ts b s1) ?_ (by omega)
      intro cnd s2 _ _ _
      refine TS.bind (a := 0) (b := 0) (read_ts a s2) ?_ (by omega)
      intro nd s3 _ _ _
      split
      · exact TS.panic
      · exact write_ts m a _ s3

theorem savePath_ts (m : Nat) (path : List (Nat × Nat)) (s : PS) :
    TS AnyR 0 (savePath m path) s (fun l _ => ∃ a, l = .ptr a) := by
  unfold savePath
  refine TS.bind (a := 0) (b := 0) (mutPath_ts m path s) ?_ (by omega)
  intro p s1 _ _ _
  refine TS.bind (a := 0) (b := 0) (relink_ts m p s1) ?_ (by omega)
  intro _ s2 _ _ _
  split
  · exact TS.panic
  · exact TS.pure ⟨_, rfl⟩

/-- the in-place part of `Insert`: no store load; the new root link is a pointer -/
theorem insertCommit_ts (t : PTree) (p : InsPlan) (key val : Nat) (s : PS) :
    TS AnyR 0 (insertCommit t p key val) s (fun l _ => ∃ a, l = .ptr a) := by
  unfold insertCommit
  refine TS.bind (a := 0) (b := 0) (toMut_ts t.id p.found.node s) ?_ (by omega)
  intro a' s1 _ _ _
  refine TS.bind (a := 0) (b := 0) (read_ts a' s1) ?_ (by omega)
  intro nd s2 _ _ _
  dsimp only
  split
  · exact TS.bind (a := 0) (b := 0) (write_ts _ _ _ s2) (fun _ s3 _ _ _ => savePath_ts _ _ s3) (by omega)
  · exact TS.bind (a := 0) (b := 0) (write_ts _ _ _ s2) (fun _ s3 _ _ _ => savePath_ts _ _ s3) (by omega)

/-- the in-place part of `Delete`: no store load; the new root link is a pointer -/
theorem deleteCommit_ts (t : PTree) (p : DelPlan) (s : PS) :
    TS AnyR 0 (deleteCommit t p) s (fun l _ => ∃ a, l = .ptr a) := by
  unfold deleteCommit
  refine TS.bind (a := 0) (b := 0) (toMut_ts t.id p.found.node s) ?_ (by omega)
  intro a' s1 _ _ _
  refine TS.bind (a := 0) (b := 0) (read_ts a' s1) ?_ (by omega)
  intro nd s2 _ _ _
  exact TS.bind (a := 0) (b := 0) (write_ts _ _ _ s2) (fun _ s3 _ _ _ => savePath_ts _ _ s3) (by omega)

/-! ## the growth loop on a root held by pointer -/

theorem linkNew_ts0 (nd : MNode) (s : PS) : TS AnyR 0 (linkNew nd) s Tr := by
  unfold linkNew
  split
  · exact TS.pure trivial
  · exact TS.bind (a := 0) (b := 0) (alloc_ts nd s).any (fun _ _ _ _ _ => TS.pure trivial) (by omega)

theorem growLoop_ts (E : Env) (m height : Nat) (nd : MNode) :
    ∀ (es : List (Nat × Nat)) (i start : Nat) (ks vs : List Nat) (ls : List HLink) (s : PS),
      TS AnyR 0 (growLoop E m height nd es i start ks vs ls) s Tr := by
  intro es
  induction es with
  | nil => intro i start ks vs ls s; exact TS.pure trivial
  | cons e rest ih =>
    intro i start ks vs ls s
    obtain ⟨k, v⟩ := e
    unfold growLoop
    refine TS.bind (a := 0) (b := 0) (layerM_ts E k s).any ?_ (by omega)
    intro lay s1 _ _ _
    split
    · exact ih _ _ _ _ _ s1
    · refine TS.bind (a := 0) (b := 0) (linkNew_ts0 _ s1) ?_ (by omega)
      intro l s2 _ _ _
      exact ih _ _ _ _ _ s2

theorem canGrowM_ts (E : Env) (h : Nat) : ∀ (ks : List Nat) (s : PS), TS AnyR 0 (canGrowM E h ks) s Tr := by
  intro ks
  induction ks with
  | nil => intro s; exact TS.pure trivial
  | cons k ks ih =>
    intro s
    unfold canGrowM
    refine TS.bind (a := 0) (b := 0) (layerM_ts E k s).any ?_ (by omega)
    intro lay s1 _ _ _
    split
    · exact TS.pure trivial
    · exact ih s1

theorem load_ptr_ts (E : Env) (a : Nat) (s : PS) : TS AnyR 0 (load E (.ptr a)) s Tr := TS.pure trivial

/-- `grow` of a tree whose root is a pointer: no store load, and the new root is a pointer -/
theorem grow_ts (E : Env) (t : PTree) (s : PS) (hr : ∃ a, t.root = .ptr a) :
    TS AnyR 0 (grow E t) s (fun t' _ => (∃ a, t'.root = .ptr a) ∧ t'.height = t.height + 1) := by
  obtain ⟨a0, hr⟩ := hr
  unfold grow
  rw [hr]
  refine TS.bind (a := 0) (b := 0) (load_ptr_ts E a0 s) ?_ (by omega)
  intro a s1 _ _ _
  refine TS.bind (a := 0) (b := 0) (read_ts a s1) ?_ (by omega)
  intro nd s2 _ _ _
  refine TS.bind (a := 0) (b := 0) (growLoop_ts E t.id t.height nd _ 0 0 [] [] [] s2) ?_ (by omega)
  rintro ⟨start, ks, vs, ls⟩ s3 _ _ _
  dsimp only
  refine TS.bind (a := 0) (b := 0) (linkNew_ts0 _ s3) ?_ (by omega)
  intro r s4 _ _ _
  split
  · exact TS.fail
  · refine TS.bind (a := 0) (b := 0) (alloc_ts _ s4).any ?_ (by omega)
    intro na s5 _ _ _
    exact TS.pure ⟨⟨na, rfl⟩, rfl⟩

/-- the growth loop of `Insert` on a root held by pointer loads nothing from the store -/
theorem growAll_ts (E : Env) : ∀ (f : Nat) (t : PTree) (s : PS), (∃ a, t.root = .ptr a) →
    TS AnyR 0 (growAll E f t) s (fun t' _ => t.height ≤ t'.height) := by
  intro f
  induction f with
  | zero => intro t s _; exact TS.oof
  | succ f ih =>
    intro t s hr
    unfold growAll
    split
    · exact TS.pure (Nat.le_refl _)
    · obtain ⟨a0, hr0⟩ := hr
      rw [hr0]
      refine TS.bind (a := 0) (b := 0) (load_ptr_ts E a0 s) ?_ (by omega)
      intro a s1 _ _ _
      refine TS.bind (a := 0) (b := 0) (read_ts a s1) ?_ (by omega)
      intro nd s2 _ _ _
      refine TS.bind (a := 0) (b := 0) (canGrowM_ts E t.height nd.keys s2) ?_ (by omega)
      intro cg s3 _ _ _
      split
      · refine TS.bind (a := 0) (b := 0) (grow_ts E t s3 ⟨a0, hr0⟩) ?_ (by omega)
        intro t' s4 _ _ ⟨hr', hh⟩
        exact (ih t' s4 hr').conseq (Nat.le_refl _) (fun t'' _ _ _ h => by omega)
      · exact TS.pure (Nat.le_refl _)

end Mast.Ptr
