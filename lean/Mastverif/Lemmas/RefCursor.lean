import Mastverif.Model.PtrCursor
import Mastverif.Lemmas.RefCursorRows
import Mastverif.Lemmas.RefLoad
import Mastverif.Lemmas.RefGet
import Mastverif.Lemmas.RefCloneTop
import Mastverif.Lemmas.CursorWalk
import Mastverif.Lemmas.RefSysInv
/-!
# The object-level cursor refines the functional cursor

`PathRep s g opath P`: the object path `opath` (addresses, indices) denotes the functional path `P`
(rows, indices): same indices, and every object denotes (`repLink`, as a pointer) the row at the
same position.  Each navigation function of `Model/PtrCursor.lean`, run from a `Good` state on a
path that denotes `P`, is an allocation-only step and — when it reports no error — leaves a path
that denotes what the function of `Model/Cursor.lean` computes from `P` with the same fuel.
-/
namespace Mast.Ptr
open Mast.Heap Mast

variable {w : Nat}

/-- the object `a` denotes the row `row` as a pointer; the unshared objects it reads (its footprint)
    are pairwise distinct and carry the owner tag `w` (the cursor's own tree) -/
def NodeRep (w : Nat) (s : PS) (g a : Nat) (row : T) : Prop :=
  ∃ fp, repLink s.heap s.store g (.ptr a) = some (false, row, fp) ∧ fp.Nodup ∧ FpOwned s.heap w fp

def PathRep (w : Nat) (s : PS) (g : Nat) : CPath → Path → Prop
  | [], [] => True
  | (a, i) :: o, (row, j) :: p => i = j ∧ NodeRep w s g a row ∧ PathRep w s g o p
  | _, _ => False

theorem NodeRep.grow {m : Nat} {s s' : PS} {g a : Nat} {row : T} (h : NodeRep w s g a row) (gr : Grow m s s') :
    NodeRep w s' g a row := by
  obtain ⟨fp, h, h2, h3⟩ := h
  exact ⟨fp, gr.rep h, h2, h3.allocOnly gr.alloc⟩

theorem PathRep.grow {m : Nat} {s s' : PS} {g : Nat} (gr : Grow m s s') :
    ∀ {o : CPath} {p : Path}, PathRep w s g o p → PathRep w s' g o p
  | [], [], _ => trivial
  | (_, _) :: _, (_, _) :: _, h => ⟨h.1, h.2.1.grow gr, PathRep.grow gr h.2.2⟩
  | [], _ :: _, h => h.elim
  | _ :: _, [], h => h.elim

theorem NodeRep.mono {s : PS} {g g2 a : Nat} {row : T} (h : NodeRep w s g a row) (hle : g ≤ g2) :
    NodeRep w s g2 a row := by
  obtain ⟨fp, h, h2, h3⟩ := h
  exact ⟨fp, repLink_mono_le h hle, h2, h3⟩

/-- what a denoting object looks like; the footprints of its children are duplicate-free and owned -/
theorem NodeRep.view {s : PS} {g a : Nat} {row : T} (h : NodeRep w s g a row) :
    ∃ g' nd cs, g = g' + 1 ∧ s.heap[a]? = some nd ∧ ValidN nd ∧
      seqO (nd.links.map (repLink s.heap s.store g')) = some cs ∧
      (∀ c ∈ cs, c.2.2.Nodup ∧ FpOwned s.heap w c.2.2) ∧
      row = mkRow (cs.map fun c => (c.1, c.2.1)) nd.keys nd.vals := by
  obtain ⟨fp, h, hnd, hown⟩ := h
  obtain ⟨g', nd, cs, hg, hnd', hval, hseq, hx⟩ := repLink_ptr_some.mp h
  refine ⟨g', nd, cs, hg, hnd', hval, hseq, ?_, ?_⟩
  · have hfp : fp = ownFp nd a ++ fps cs := by
      have := congrArg (fun y => y.2.2) hx
      simpa [nodeRep_fp] using this
    intro c hc
    constructor
    · rw [hfp] at hnd
      have h2 := (List.nodup_append.mp hnd).2.1
      unfold fps at h2
      exact List.Nodup.sublist (List.sublist_flatten_of_mem (List.mem_map.mpr ⟨c, hc, rfl⟩)) h2
    · intro y hy
      apply hown y
      rw [hfp]
      exact List.mem_append.mpr (Or.inr (by unfold fps; exact List.mem_flatten.mpr ⟨_, List.mem_map.mpr ⟨c, hc, rfl⟩, hy⟩))
  · have := congrArg (fun y => y.2.1) hx
    simpa [nodeRep] using this

/-- the row a non-nil link denotes is not the nil row -/
theorem repLink_row_isNil {h : Heap} {st : List SNode} {f : Nat} {l : HLink} {x : Bool × T × List Nat}
    (hl : l ≠ .nil) (hx : repLink h st f l = some x) : x.2.1.isNil = false := by
  have := repLink_row_ne_nil hx hl
  cases hr : x.2.1 with
  | nil => exact absurd hr this
  | last _ _ => rfl
  | cons _ _ _ _ _ => rfl

/-- the i-th link of a denoting object, against `linkAt` of its row -/
theorem view_link {s : PS} {g' : Nat} {nd : MNode} {cs : List (Bool × T × List Nat)}
    (hval : ValidN nd) (hseq : seqO (nd.links.map (repLink s.heap s.store g')) = some cs) (i : Nat) :
    match nd.links[i]? with
    | none => T.linkAt (mkRow (cs.map fun c => (c.1, c.2.1)) nd.keys nd.vals) i = T.nil
    | some l => ∃ c, c ∈ cs ∧ repLink s.heap s.store g' l = some c ∧
        T.linkAt (mkRow (cs.map fun c => (c.1, c.2.1)) nd.keys nd.vals) i = c.2.1 := by
  have hlen := seqO_map_length hseq
  have hla := linkAt_mkRow nd.keys (cs.map fun c => (c.1, c.2.1)) nd.vals i
    (by rw [List.length_map, hlen]; exact hval.1) hval.2
  cases hl : nd.links[i]? with
  | none =>
    simp only []
    have : cs[i]? = none := by
      rw [List.getElem?_eq_none_iff] at hl ⊢; omega
    rw [hla]; simp [this]
  | some l =>
    simp only []
    obtain ⟨c, hc1, hc2⟩ := seqO_map_getElem? hseq hl
    refine ⟨c, List.mem_of_getElem? hc2, hc1, ?_⟩
    rw [hla]; simp [hc2]

theorem tryE_spec {α : Type} {R : PS → PS → Prop} {x : M α} {s : PS} {Q : α → PS → Prop}
    (h : Spec R x s Q) :
    Spec R (tryE x) s (fun r s' => match r with | some a => Q a s' | none => True) := by
  unfold Spec tryE
  unfold Spec at h
  cases hx : x s with
  | ok a s' => rw [hx] at h; exact h
  | err s' => rw [hx] at h; exact ⟨h, trivial⟩
  | panic => trivial
  | stuck => trivial
  | oof => trivial

/-- loading the child behind a non-nil link of a denoting object: the loaded object denotes
    `linkAt row i` -/
theorem load_child_spec {m : Nat} (E : Env) {s : PS} {g' : Nat} {l : HLink} {c : Bool × T × List Nat}
    (hg : Good s) (hc : repLink s.heap s.store g' l = some c) (hnd : c.2.2.Nodup) (hown : FpOwned s.heap w c.2.2) :
    Spec (Grow m) (tryE (load E l)) s (fun r s' => match r with
      | some b => NodeRep w s' (g' + 1) b c.2.1
      | none => True) := by
  refine (tryE_spec (load_spec (m := m) E l s hg)).conseq ?_
  intro r s' _ hgr hq
  cases r with
  | none => trivial
  | some b => exact ⟨c.2.2, repLink_mono _ _ _ (hq.2.2 g' c hc), hnd, hown.allocOnly hgr.alloc⟩

/-- post-condition of a navigation call: without an error the path denotes `P'`; with one it still
    denotes some path -/
def NavPost (w g : Nat) (P' : Path) (r : CPath × Bool) (s' : PS) : Prop :=
  (r.2 = false → PathRep w s' g r.1 P') ∧ (r.2 = true → ∃ P'', PathRep w s' g r.1 P'')

theorem cMinLoop_spec {m : Nat} (E : Env) (g : Nat) : ∀ (f a : Nat) (opath : CPath) (s : PS) (node : T) (P : Path),
    Good s → NodeRep w s g a node → PathRep w s g opath P →
    Spec (Grow m) (cMinLoop E f a opath) s (NavPost w g (Cursor.minFrom f node P)) := by
  intro f
  induction f with
  | zero => intro a opath s node P _ _ _; exact Spec.oof
  | succ f ih =>
    intro a opath s node P hg hn hp
    obtain ⟨g', nd, cs, rfl, hnd, hval, hseq, hcs, rfl⟩ := hn.view
    unfold cMinLoop
    refine Spec.bind (read_spec a s) ?_
    rintro nd' s1 _ _ ⟨rfl, hnd'⟩
    rw [hnd] at hnd'; injection hnd' with hnd'; subst hnd'
    have hv := view_link hval hseq 0
    simp only [Cursor.minFrom]
    cases hl : nd.links[0]? with
    | none =>
      rw [hl] at hv; simp only [] at hv
      simp only [hv, T.isNil, if_true]
      exact Spec.pure ⟨fun _ => hp, fun h => nomatch h⟩
    | some l =>
      rw [hl] at hv; simp only [] at hv
      obtain ⟨c, hcm, hc, hla⟩ := hv
      cases l with
      | nil =>
        rw [repLink_nil] at hc; injection hc with hc; subst hc
        simp only [hla, T.isNil, if_true]
        exact Spec.pure ⟨fun _ => hp, fun h => nomatch h⟩
      | ptr b =>
        have hnn : (T.linkAt (mkRow (cs.map fun c => (c.1, c.2.1)) nd.keys nd.vals) 0).isNil = false := by
          rw [hla]; exact repLink_row_isNil (by simp) hc
        simp only [hnn, Bool.false_eq_true, if_false]
        refine Spec.bind (load_child_spec (m := m) E hg hc (hcs c hcm).1 (hcs c hcm).2) ?_
        intro r s2 _ hgr hq
        cases r with
        | none =>
          exact Spec.pure ⟨(fun h => nomatch h), fun _ => ⟨_, hp.grow hgr⟩⟩
        | some c2 =>
          simp only [] at hq
          rw [← hla] at hq
          exact ih c2 ((c2, 0) :: opath) s2 _ _ (hgr.good hg) hq ⟨rfl, hq, hp.grow hgr⟩
      | ref n =>
        have hnn : (T.linkAt (mkRow (cs.map fun c => (c.1, c.2.1)) nd.keys nd.vals) 0).isNil = false := by
          rw [hla]; exact repLink_row_isNil (by simp) hc
        simp only [hnn, Bool.false_eq_true, if_false]
        refine Spec.bind (load_child_spec (m := m) E hg hc (hcs c hcm).1 (hcs c hcm).2) ?_
        intro r s2 _ hgr hq
        cases r with
        | none =>
          exact Spec.pure ⟨(fun h => nomatch h), fun _ => ⟨_, hp.grow hgr⟩⟩
        | some c2 =>
          simp only [] at hq
          rw [← hla] at hq
          exact ih c2 ((c2, 0) :: opath) s2 _ _ (hgr.good hg) hq ⟨rfl, hq, hp.grow hgr⟩

theorem view_rowLen {s : PS} {g' : Nat} {nd : MNode} {cs : List (Bool × T × List Nat)}
    (hval : ValidN nd) (hseq : seqO (nd.links.map (repLink s.heap s.store g')) = some cs) :
    T.rowLen (mkRow (cs.map fun c => (c.1, c.2.1)) nd.keys nd.vals) = nd.keys.length :=
  rowLen_mkRow nd.keys _ nd.vals (by rw [List.length_map, seqO_map_length hseq]; exact hval.1) hval.2

theorem cMaxLoop_spec {m : Nat} (E : Env) (g : Nat) : ∀ (f a : Nat) (opath : CPath) (s : PS) (node : T) (P : Path),
    Good s → NodeRep w s g a node → PathRep w s g opath P →
    Spec (Grow m) (cMaxLoop E f a opath) s (NavPost w g (Cursor.maxFrom f node P)) := by
  intro f
  induction f with
  | zero => intro a opath s node P _ _ _; exact Spec.oof
  | succ f ih =>
    intro a opath s node P hg hn hp
    have hn0 := hn
    obtain ⟨g', nd, cs, rfl, hnd, hval, hseq, hcs, rfl⟩ := hn.view
    unfold cMaxLoop
    refine Spec.bind (read_spec a s) ?_
    rintro nd' s1 _ _ ⟨rfl, hnd'⟩
    rw [hnd] at hnd'; injection hnd' with hnd'; subst hnd'
    have hrl := view_rowLen hval hseq
    have hv := view_link hval hseq nd.keys.length
    have hne : ¬ nd.links.length = 0 := by rw [hval.1]; omega
    have hidx : nd.links.length - 1 = nd.keys.length := by rw [hval.1]; omega
    simp only [Cursor.maxFrom, hrl, hne, if_false, hidx]
    cases hl : nd.links[nd.keys.length]? with
    | none =>
      rw [hl] at hv; simp only [] at hv
      simp only [hv, T.isNil, if_true, hval.2]
      exact Spec.pure ⟨fun _ => ⟨rfl, hn0, hp⟩, fun h => nomatch h⟩
    | some l =>
      rw [hl] at hv; simp only [] at hv
      obtain ⟨c, hcm, hc, hla⟩ := hv
      cases l with
      | nil =>
        rw [repLink_nil] at hc; injection hc with hc; subst hc
        simp only [hla, T.isNil, if_true, hval.2]
        exact Spec.pure ⟨fun _ => ⟨rfl, hn0, hp⟩, fun h => nomatch h⟩
      | ptr b =>
        have hnn : (T.linkAt (mkRow (cs.map fun c => (c.1, c.2.1)) nd.keys nd.vals) nd.keys.length).isNil = false := by
          rw [hla]; exact repLink_row_isNil (by simp) hc
        simp only [hnn, Bool.false_eq_true, if_false]
        refine Spec.bind (load_child_spec (m := m) E hg hc (hcs c hcm).1 (hcs c hcm).2) ?_
        intro r s2 _ hgr hq
        cases r with
        | none =>
          exact Spec.pure ⟨(fun h => nomatch h), fun _ => ⟨(_, nd.keys.length) :: P, rfl, hn0.grow hgr, hp.grow hgr⟩⟩
        | some c2 =>
          simp only [] at hq
          rw [← hla] at hq
          exact ih c2 _ s2 _ _ (hgr.good hg) hq ⟨rfl, hn0.grow hgr, hp.grow hgr⟩
      | ref n =>
        have hnn : (T.linkAt (mkRow (cs.map fun c => (c.1, c.2.1)) nd.keys nd.vals) nd.keys.length).isNil = false := by
          rw [hla]; exact repLink_row_isNil (by simp) hc
        simp only [hnn, Bool.false_eq_true, if_false]
        refine Spec.bind (load_child_spec (m := m) E hg hc (hcs c hcm).1 (hcs c hcm).2) ?_
        intro r s2 _ hgr hq
        cases r with
        | none =>
          exact Spec.pure ⟨(fun h => nomatch h), fun _ => ⟨(_, nd.keys.length) :: P, rfl, hn0.grow hgr, hp.grow hgr⟩⟩
        | some c2 =>
          simp only [] at hq
          rw [← hla] at hq
          exact ih c2 _ s2 _ _ (hgr.good hg) hq ⟨rfl, hn0.grow hgr, hp.grow hgr⟩

theorem cMin_spec {m : Nat} (E : Env) (g f : Nat) (opath : CPath) (s : PS) (P : Path)
    (hg : Good s) (hp : PathRep w s g opath P) :
    Spec (Grow m) (cMin E f opath) s (NavPost w g (Cursor.min f P)) := by
  match opath, P, hp with
  | [], [], _ => exact Spec.pure ⟨fun _ => trivial, fun h => nomatch h⟩
  | (a, i) :: o, (row, j) :: p, hp =>
    simp only [cMin, Cursor.min]
    exact cMinLoop_spec E g f a _ s row _ hg hp.2.1 hp

theorem cMax_spec {m : Nat} (E : Env) (g f : Nat) (opath : CPath) (s : PS) (P : Path)
    (hg : Good s) (hp : PathRep w s g opath P) :
    Spec (Grow m) (cMax E f opath) s (NavPost w g (Cursor.max f P)) := by
  match opath, P, hp with
  | [], [], _ => exact Spec.pure ⟨fun _ => trivial, fun h => nomatch h⟩
  | (a, i) :: o, (row, j) :: p, hp =>
    simp only [cMax, Cursor.max]
    exact cMaxLoop_spec E g f a _ s row _ hg hp.2.1 hp.2.2

theorem view_entryAt {s : PS} {g' : Nat} {nd : MNode} {cs : List (Bool × T × List Nat)}
    (hval : ValidN nd) (hseq : seqO (nd.links.map (repLink s.heap s.store g')) = some cs) (i : Nat) :
    T.entryAt (mkRow (cs.map fun c => (c.1, c.2.1)) nd.keys nd.vals) i =
      (nd.keys[i]?).bind fun k => (nd.vals[i]?).map fun v => (k, v) :=
  entryAt_mkRow nd.keys _ nd.vals i (by rw [List.length_map, seqO_map_length hseq]; exact hval.1) hval.2

/-- `Get` reads the entry the functional cursor is at; it changes nothing -/
theorem cGet_spec {m : Nat} (g : Nat) (opath : CPath) (s : PS) (P : Path) (hp : PathRep w s g opath P) :
    Spec (Grow m) (cGet opath) s (fun r s' => s' = s ∧ r = Cursor.get P) := by
  match opath, P, hp with
  | [], [], _ => exact Spec.pure ⟨rfl, rfl⟩
  | (a, i) :: o, (row, j) :: p, hp =>
    obtain ⟨rfl, hn, _⟩ := hp
    obtain ⟨g', nd, cs, rfl, hnd, hval, hseq, hcs, rfl⟩ := hn.view
    simp only [cGet, Cursor.get]
    refine Spec.bind (read_spec a s) ?_
    rintro nd' s1 _ _ ⟨rfl, hnd'⟩
    rw [hnd] at hnd'; injection hnd' with hnd'; subst hnd'
    rw [view_entryAt hval hseq i]
    by_cases hi : nd.keys.length ≤ i
    · simp only [hi, if_true]
      have : nd.keys[i]? = none := List.getElem?_eq_none_iff.mpr hi
      exact Spec.pure ⟨rfl, by simp [this]⟩
    · simp only [hi, if_false]
      have hi' : i < nd.keys.length := by omega
      have hk : nd.keys[i]? = some nd.keys[i] := List.getElem?_eq_getElem hi'
      have hv' : i < nd.vals.length := by rw [hval.2]; exact hi'
      have hv : nd.vals[i]? = some nd.vals[i] := List.getElem?_eq_getElem hv'
      simp only [hk, hv]
      exact Spec.pure ⟨rfl, by simp⟩

/-- the pop loop of `Forward`, on the path left after the first pop -/
def popFwd' : Path → Path
  | [] => []
  | (node, i) :: rest => if i < T.rowLen node then (node, i) :: rest else popFwd' rest

theorem popFwd_cons (x : T × Nat) : ∀ (rest : Path), Cursor.popFwd (x :: rest) = popFwd' rest := by
  intro rest
  induction rest generalizing x with
  | nil => simp [Cursor.popFwd, popFwd']
  | cons y rest ih =>
    obtain ⟨node, i⟩ := y
    simp only [Cursor.popFwd, popFwd']
    split
    · rfl
    · exact ih (node, i)

theorem cPopFwd_spec {m : Nat} (g : Nat) : ∀ (opath : CPath) (s : PS) (P : Path), PathRep w s g opath P →
    Spec (Grow m) (cPopFwd opath) s (fun r s' => s' = s ∧ PathRep w s g r (popFwd' P)) := by
  intro opath
  induction opath with
  | nil =>
    intro s P hp
    match P, hp with
    | [], _ => exact Spec.pure ⟨rfl, trivial⟩
  | cons x o ih =>
    intro s P hp
    obtain ⟨a, i⟩ := x
    match P, hp with
    | (row, j) :: p, hp =>
      obtain ⟨rfl, hn, hrest⟩ := hp
      have hn0 := hn
      obtain ⟨g', nd, cs, rfl, hnd, hval, hseq, hcs, rfl⟩ := hn.view
      simp only [cPopFwd, popFwd']
      refine Spec.bind (read_spec a s) ?_
      rintro nd' s1 _ _ ⟨rfl, hnd'⟩
      rw [hnd] at hnd'; injection hnd' with hnd'; subst hnd'
      rw [view_rowLen hval hseq]
      by_cases hi : i < nd.keys.length
      · simp only [hi, if_true]
        exact Spec.pure ⟨rfl, rfl, hn0, hrest⟩
      · simp only [hi, if_false]
        exact ih s p hrest

/-- post-condition of `Forward` / `Backward`: as `NavPost`, and a failed call leaves the cursor
    where it was -/
def MovePost (w g : Nat) (opath : CPath) (P' : Path) (r : CPath × Bool) (s' : PS) : Prop :=
  (r.2 = false → PathRep w s' g r.1 P') ∧ (r.2 = true → r.1 = opath)

/-- the part of `Forward` after a successful load of the next child -/
theorem forward_descend_spec {m : Nat} (E : Env) (g f : Nat) (c2 a i : Nat) (rest : CPath) (s : PS)
    (crow node : T) (Prest : Path) (hg : Good s)
    (hc : NodeRep w s g c2 crow) (hn : NodeRep w s g a node) (hrest : PathRep w s g rest Prest) :
    Spec (Grow m) (do
        let r ← cMinLoop E f c2 ((c2, 0) :: (a, i + 1) :: rest)
        if r.2 then pure (((a, i) :: rest : CPath), true) else pure r) s
      (MovePost w g ((a, i) :: rest) (Cursor.minFrom f crow ((crow, 0) :: (node, i + 1) :: Prest))) := by
  refine Spec.bind (cMinLoop_spec (m := m) E g f c2 _ s crow ((crow, 0) :: (node, i + 1) :: Prest) hg hc
    ⟨rfl, hc, rfl, hn, hrest⟩) ?_
  intro r s1 _ _ hq
  cases hr : r.2 with
  | true => simp only [if_true]; exact Spec.pure ⟨(fun h => nomatch h), fun _ => rfl⟩
  | false =>
    simp only [Bool.false_eq_true, if_false]
    exact Spec.pure ⟨fun _ => hq.1 hr, fun h => by rw [hr] at h; cases h⟩

theorem cForward_spec {m : Nat} (E : Env) (g f : Nat) (opath : CPath) (s : PS) (P : Path)
    (hg : Good s) (hp : PathRep w s g opath P) :
    Spec (Grow m) (cForward E f opath) s (MovePost w g opath (Cursor.forward f P)) := by
  match opath, P, hp with
  | [], [], _ => exact Spec.pure ⟨fun _ => trivial, fun _ => rfl⟩
  | (a, i) :: o, (row, j) :: p, hp =>
    obtain ⟨rfl, hn, hrest⟩ := hp
    have hn0 := hn
    obtain ⟨g', nd, cs, rfl, hnd, hval, hseq, hcs, rfl⟩ := hn.view
    simp only [cForward, Cursor.forward]
    refine Spec.bind (read_spec a s) ?_
    rintro nd' s1 _ _ ⟨rfl, hnd'⟩
    rw [hnd] at hnd'; injection hnd' with hnd'; subst hnd'
    have hrl := view_rowLen hval hseq
    have hv := view_link hval hseq (i + 1)
    rw [hrl, ← hval.1]
    -- the pop / step branch
    have hstep : T.linkAt (mkRow (cs.map fun c => (c.1, c.2.1)) nd.keys nd.vals) (i + 1) = T.nil ∨ ¬ i + 1 < nd.links.length →
        Spec (Grow m) (if i + 1 < nd.keys.length then pure (((a, i + 1) :: o : CPath), false)
            else do let p ← cPopFwd o; pure (p, false)) s
          (MovePost w (g' + 1) ((a, i) :: o)
            (if i + 1 < nd.links.length ∧ ¬ (T.linkAt (mkRow (cs.map fun c => (c.1, c.2.1)) nd.keys nd.vals) (i + 1)).isNil = true
             then Cursor.minFrom f (T.linkAt (mkRow (cs.map fun c => (c.1, c.2.1)) nd.keys nd.vals) (i + 1))
                ((T.linkAt (mkRow (cs.map fun c => (c.1, c.2.1)) nd.keys nd.vals) (i + 1), 0) :: (mkRow (cs.map fun c => (c.1, c.2.1)) nd.keys nd.vals, i + 1) :: p)
             else if i + 1 < nd.keys.length then (mkRow (cs.map fun c => (c.1, c.2.1)) nd.keys nd.vals, i + 1) :: p
             else Cursor.popFwd ((mkRow (cs.map fun c => (c.1, c.2.1)) nd.keys nd.vals, i) :: p))) := by
      intro hcase
      have hcond : ¬ (i + 1 < nd.links.length ∧ ¬ (T.linkAt (mkRow (cs.map fun c => (c.1, c.2.1)) nd.keys nd.vals) (i + 1)).isNil = true) := by
        rintro ⟨h1, h2⟩
        rcases hcase with h | h
        · rw [h] at h2; exact h2 rfl
        · exact h h1
      rw [if_neg hcond]
      by_cases hk : i + 1 < nd.keys.length
      · simp only [hk, if_true]
        exact Spec.pure ⟨fun _ => ⟨rfl, hn0, hrest⟩, fun h => nomatch h⟩
      · simp only [hk, if_false]
        refine Spec.bind (cPopFwd_spec (m := m) (g' + 1) o s p hrest) ?_
        rintro r s2 _ _ ⟨rfl, hr⟩
        rw [popFwd_cons]
        exact Spec.pure ⟨fun _ => hr, fun h => nomatch h⟩
    by_cases hlt : i + 1 < nd.links.length
    · simp only [hlt, if_true]
      cases hl : nd.links[i + 1]? with
      | none =>
        rw [hl] at hv; simp only [] at hv
        have := hstep (Or.inl hv)
        simpa only [hlt, true_and] using this
      | some l =>
        rw [hl] at hv; simp only [] at hv
        obtain ⟨c, hcm, hc, hla⟩ := hv
        cases l with
        | nil =>
          rw [repLink_nil] at hc; injection hc with hc; subst hc
          have := hstep (Or.inl hla)
          simpa only [hlt, true_and] using this
        | ptr b =>
          have hnn : (T.linkAt (mkRow (cs.map fun c => (c.1, c.2.1)) nd.keys nd.vals) (i + 1)).isNil = false := by
            rw [hla]; exact repLink_row_isNil (by simp) hc
          simp only [hnn, Bool.false_eq_true, not_false_eq_true, and_self, if_true]
          refine Spec.bind (load_child_spec (m := m) E hg hc (hcs c hcm).1 (hcs c hcm).2) ?_
          intro r s2 _ hgr hq
          cases r with
          | none => exact Spec.pure ⟨(fun h => nomatch h), fun _ => rfl⟩
          | some c2 =>
            simp only [] at hq
            rw [← hla] at hq
            exact forward_descend_spec E (g' + 1) f c2 a i o s2 _ _ p (hgr.good hg) hq (hn0.grow hgr) (hrest.grow hgr)
        | ref n =>
          have hnn : (T.linkAt (mkRow (cs.map fun c => (c.1, c.2.1)) nd.keys nd.vals) (i + 1)).isNil = false := by
            rw [hla]; exact repLink_row_isNil (by simp) hc
          simp only [hnn, Bool.false_eq_true, not_false_eq_true, and_self, if_true]
          refine Spec.bind (load_child_spec (m := m) E hg hc (hcs c hcm).1 (hcs c hcm).2) ?_
          intro r s2 _ hgr hq
          cases r with
          | none => exact Spec.pure ⟨(fun h => nomatch h), fun _ => rfl⟩
          | some c2 =>
            simp only [] at hq
            rw [← hla] at hq
            exact forward_descend_spec E (g' + 1) f c2 a i o s2 _ _ p (hgr.good hg) hq (hn0.grow hgr) (hrest.grow hgr)
    · simp only [hlt, if_false]
      have := hstep (Or.inr hlt)
      simpa only [hlt, false_and] using this

/-- the pop loop of `Backward`, on the path left after the first pop -/
def popBwd' : Path → Path
  | [] => []
  | (node, i) :: rest => if i > 0 then (node, i - 1) :: rest else popBwd' rest

theorem popBwd_cons (x : T × Nat) : ∀ (rest : Path), Cursor.popBwd (x :: rest) = popBwd' rest := by
  intro rest
  induction rest generalizing x with
  | nil => simp [Cursor.popBwd, popBwd']
  | cons y rest ih =>
    obtain ⟨node, i⟩ := y
    simp only [Cursor.popBwd, popBwd']
    split
    · rfl
    · exact ih (node, i)

theorem cPopBwd_rep {s : PS} {g : Nat} : ∀ (o : CPath) (p : Path), PathRep w s g o p →
    PathRep w s g (cPopBwd o) (popBwd' p) := by
  intro o
  induction o with
  | nil =>
    intro p hp
    match p, hp with
    | [], _ => trivial
  | cons x o ih =>
    intro p hp
    obtain ⟨a, i⟩ := x
    match p, hp with
    | (row, j) :: p, hp =>
      obtain ⟨rfl, hn, hrest⟩ := hp
      simp only [cPopBwd, popBwd']
      by_cases hi : i > 0
      · simp only [hi, if_true]; exact ⟨rfl, hn, hrest⟩
      · simp only [hi, if_false]; exact ih p hrest

/-- the part of `Backward` after a successful load of the child to the left -/
theorem backward_descend_spec {m : Nat} (E : Env) (g f : Nat) (c2 : Nat) (opath : CPath) (s : PS)
    (crow : T) (P : Path) (hg : Good s) (hc : NodeRep w s g c2 crow) (hp : PathRep w s g opath P) :
    Spec (Grow m) (do
        let r ← cMaxLoop E f c2 opath
        if r.2 then pure (opath, true) else pure r) s
      (MovePost w g opath (Cursor.maxFrom f crow P)) := by
  refine Spec.bind (cMaxLoop_spec (m := m) E g f c2 _ s crow P hg hc hp) ?_
  intro r s1 _ _ hq
  cases hr : r.2 with
  | true => simp only [if_true]; exact Spec.pure ⟨(fun h => nomatch h), fun _ => rfl⟩
  | false =>
    simp only [Bool.false_eq_true, if_false]
    exact Spec.pure ⟨fun _ => hq.1 hr, fun h => by rw [hr] at h; cases h⟩

theorem cBackward_spec {m : Nat} (E : Env) (g f : Nat) (opath : CPath) (s : PS) (P : Path)
    (hg : Good s) (hp : PathRep w s g opath P) :
    Spec (Grow m) (cBackward E f opath) s (MovePost w g opath (Cursor.backward f P)) := by
  match opath, P, hp with
  | [], [], _ => exact Spec.pure ⟨fun _ => trivial, fun _ => rfl⟩
  | (a, i) :: o, (row, j) :: p, hp =>
    have hp0 := hp
    obtain ⟨rfl, hn, hrest⟩ := hp
    have hn0 := hn
    obtain ⟨g', nd, cs, rfl, hnd, hval, hseq, hcs, rfl⟩ := hn.view
    simp only [cBackward, Cursor.backward]
    refine Spec.bind (read_spec a s) ?_
    rintro nd' s1 _ _ ⟨rfl, hnd'⟩
    rw [hnd] at hnd'; injection hnd' with hnd'; subst hnd'
    have hv := view_link hval hseq i
    cases hl : nd.links[i]? with
    | none => exact Spec.panic
    | some l =>
      rw [hl] at hv; simp only [] at hv
      obtain ⟨c, hcm, hc, hla⟩ := hv
      cases l with
      | nil =>
        rw [repLink_nil] at hc; injection hc with hc; subst hc
        simp only [hla, T.isNil, not_true_eq_false, if_false]
        by_cases hi : i > 0
        · simp only [hi, if_true]
          exact Spec.pure ⟨fun _ => ⟨rfl, hn0, hrest⟩, fun h => nomatch h⟩
        · simp only [hi, if_false]
          rw [popBwd_cons]
          exact Spec.pure ⟨fun _ => cPopBwd_rep o p hrest, fun h => nomatch h⟩
      | ptr b =>
        have hnn : (T.linkAt (mkRow (cs.map fun c => (c.1, c.2.1)) nd.keys nd.vals) i).isNil = false := by
          rw [hla]; exact repLink_row_isNil (by simp) hc
        simp only [hnn, Bool.false_eq_true, not_false_eq_true, if_true]
        refine Spec.bind (load_child_spec (m := m) E hg hc (hcs c hcm).1 (hcs c hcm).2) ?_
        intro r s2 _ hgr hq
        cases r with
        | none => exact Spec.pure ⟨(fun h => nomatch h), fun _ => rfl⟩
        | some c2 =>
          simp only [] at hq
          rw [← hla] at hq
          exact backward_descend_spec E (g' + 1) f c2 _ s2 _ _ (hgr.good hg) hq (hp0.grow hgr)
      | ref n =>
        have hnn : (T.linkAt (mkRow (cs.map fun c => (c.1, c.2.1)) nd.keys nd.vals) i).isNil = false := by
          rw [hla]; exact repLink_row_isNil (by simp) hc
        simp only [hnn, Bool.false_eq_true, not_false_eq_true, if_true]
        refine Spec.bind (load_child_spec (m := m) E hg hc (hcs c hcm).1 (hcs c hcm).2) ?_
        intro r s2 _ hgr hq
        cases r with
        | none => exact Spec.pure ⟨(fun h => nomatch h), fun _ => rfl⟩
        | some c2 =>
          simp only [] at hq
          rw [← hla] at hq
          exact backward_descend_spec E (g' + 1) f c2 _ s2 _ _ (hgr.good hg) hq (hp0.grow hgr)

theorem cPopCeil_spec {m : Nat} (g : Nat) : ∀ (opath : CPath) (s : PS) (P : Path), PathRep w s g opath P →
    Spec (Grow m) (cPopCeil opath) s (fun r s' => s' = s ∧ PathRep w s g r (Cursor.popCeil P)) := by
  intro opath
  induction opath with
  | nil =>
    intro s P hp
    match P, hp with
    | [], _ => exact Spec.pure ⟨rfl, trivial⟩
  | cons x o ih =>
    intro s P hp
    obtain ⟨a, i⟩ := x
    match P, hp with
    | (row, j) :: p, hp =>
      obtain ⟨rfl, hn, hrest⟩ := hp
      have hn0 := hn
      obtain ⟨g', nd, cs, rfl, hnd, hval, hseq, hcs, rfl⟩ := hn.view
      simp only [cPopCeil, Cursor.popCeil]
      refine Spec.bind (read_spec a s) ?_
      rintro nd' s1 _ _ ⟨rfl, hnd'⟩
      rw [hnd] at hnd'; injection hnd' with hnd'; subst hnd'
      rw [view_rowLen hval hseq]
      by_cases hi : i = nd.keys.length
      · simp only [hi, if_true]
        exact ih s p hrest
      · simp only [hi, if_false]
        exact Spec.pure ⟨rfl, rfl, hn0, hrest⟩

theorem view_lowerBound {s : PS} {g' : Nat} {nd : MNode} {cs : List (Bool × T × List Nat)}
    (hval : ValidN nd) (hseq : seqO (nd.links.map (repLink s.heap s.store g')) = some cs) (k : Nat) :
    T.lowerBound k (mkRow (cs.map fun c => (c.1, c.2.1)) nd.keys nd.vals) = keyIdx nd.keys k :=
  lowerBound_mkRow nd.keys _ nd.vals k (by rw [List.length_map, seqO_map_length hseq]; exact hval.1) hval.2

theorem cCeil_spec {m : Nat} (E : Env) (g k : Nat) : ∀ (f : Nat) (opath : CPath) (s : PS) (P : Path),
    Good s → PathRep w s g opath P →
    Spec (Grow m) (cCeil E k f opath) s (NavPost w g (Cursor.ceil k f P)) := by
  intro f
  induction f with
  | zero => intro opath s P _ _; exact Spec.oof
  | succ f ih =>
    intro opath s P hg hp
    match opath, P, hp with
    | [], [], _ => exact Spec.pure ⟨fun _ => trivial, fun h => nomatch h⟩
    | (a, i0) :: o, (row, j) :: p, hp =>
      obtain ⟨rfl, hn, hrest⟩ := hp
      have hn0 := hn
      obtain ⟨g', nd, cs, rfl, hnd, hval, hseq, hcs, rfl⟩ := hn.view
      simp only [cCeil, Cursor.ceil]
      refine Spec.bind (read_spec a s) ?_
      rintro nd' s1 _ _ ⟨rfl, hnd'⟩
      rw [hnd] at hnd'; injection hnd' with hnd'; subst hnd'
      rw [view_lowerBound hval hseq k, view_entryAt hval hseq]
      have hv := view_link hval hseq (keyIdx nd.keys k)
      -- the branch taken when the key is not at the index
      have hdown : Spec (Grow m) (match nd.links[keyIdx nd.keys k]? with
            | none => (panicE : M (CPath × Bool))
            | some HLink.nil => do
              let p ← cPopCeil ((a, keyIdx nd.keys k) :: o)
              pure (p, false)
            | some l => do
              match ← tryE (load E l) with
              | none => pure ((a, keyIdx nd.keys k) :: o, true)
              | some c => cCeil E k f ((c, 0) :: (a, keyIdx nd.keys k) :: o)) s
          (NavPost w (g' + 1)
            (if (T.linkAt (mkRow (cs.map fun c => (c.1, c.2.1)) nd.keys nd.vals) (keyIdx nd.keys k)).isNil = true
             then Cursor.popCeil ((mkRow (cs.map fun c => (c.1, c.2.1)) nd.keys nd.vals, keyIdx nd.keys k) :: p)
             else Cursor.ceil k f ((T.linkAt (mkRow (cs.map fun c => (c.1, c.2.1)) nd.keys nd.vals) (keyIdx nd.keys k), 0) ::
                (mkRow (cs.map fun c => (c.1, c.2.1)) nd.keys nd.vals, keyIdx nd.keys k) :: p))) := by
        cases hl : nd.links[keyIdx nd.keys k]? with
        | none => exact Spec.panic
        | some l =>
          rw [hl] at hv; simp only [] at hv
          obtain ⟨c, hcm, hc, hla⟩ := hv
          cases l with
          | nil =>
            rw [repLink_nil] at hc; injection hc with hc; subst hc
            simp only [hla, T.isNil, if_true]
            refine Spec.bind (cPopCeil_spec (m := m) (g' + 1) _ s _ (show PathRep w s (g' + 1) ((a, keyIdx nd.keys k) :: o) ((_, keyIdx nd.keys k) :: p) from ⟨rfl, hn0, hrest⟩)) ?_
            rintro r s2 _ _ ⟨rfl, hr⟩
            exact Spec.pure ⟨fun _ => hr, fun h => nomatch h⟩
          | ptr b =>
            have hnn : (T.linkAt (mkRow (cs.map fun c => (c.1, c.2.1)) nd.keys nd.vals) (keyIdx nd.keys k)).isNil = false := by
              rw [hla]; exact repLink_row_isNil (by simp) hc
            simp only [hnn, Bool.false_eq_true, if_false]
            refine Spec.bind (load_child_spec (m := m) E hg hc (hcs c hcm).1 (hcs c hcm).2) ?_
            intro r s2 _ hgr hq
            cases r with
            | none =>
              exact Spec.pure ⟨(fun h => nomatch h), fun _ => ⟨(_, keyIdx nd.keys k) :: p, rfl, hn0.grow hgr, hrest.grow hgr⟩⟩
            | some c2 =>
              simp only [] at hq
              rw [← hla] at hq
              exact ih _ s2 _ (hgr.good hg) ⟨rfl, hq, rfl, hn0.grow hgr, hrest.grow hgr⟩
          | ref n =>
            have hnn : (T.linkAt (mkRow (cs.map fun c => (c.1, c.2.1)) nd.keys nd.vals) (keyIdx nd.keys k)).isNil = false := by
              rw [hla]; exact repLink_row_isNil (by simp) hc
            simp only [hnn, Bool.false_eq_true, if_false]
            refine Spec.bind (load_child_spec (m := m) E hg hc (hcs c hcm).1 (hcs c hcm).2) ?_
            intro r s2 _ hgr hq
            cases r with
            | none =>
              exact Spec.pure ⟨(fun h => nomatch h), fun _ => ⟨(_, keyIdx nd.keys k) :: p, rfl, hn0.grow hgr, hrest.grow hgr⟩⟩
            | some c2 =>
              simp only [] at hq
              rw [← hla] at hq
              exact ih _ s2 _ (hgr.good hg) ⟨rfl, hq, rfl, hn0.grow hgr, hrest.grow hgr⟩
      cases hk : nd.keys[keyIdx nd.keys k]? with
      | none =>
        simp only [Option.bind_none, reduceCtorEq, if_false]
        exact hdown
      | some k' =>
        have hlt : keyIdx nd.keys k < nd.keys.length := (List.getElem?_eq_some_iff.mp hk).1
        have hlt2 : keyIdx nd.keys k < nd.vals.length := by rw [hval.2]; exact hlt
        obtain ⟨v', hvv⟩ : ∃ v', nd.vals[keyIdx nd.keys k]? = some v' := ⟨_, List.getElem?_eq_getElem hlt2⟩
        simp only [Option.bind_some, hvv, Option.map_some, Option.some.injEq]
        by_cases hkk : k' = k
        · simp only [hkk, if_true]
          exact Spec.pure ⟨fun _ => ⟨rfl, hn0, hrest⟩, fun h => nomatch h⟩
        · simp only [hkk, if_false]
          exact hdown

def toPlace : CPlace → Cursor.Place
  | .min => .min | .max => .max | .ceil k => .ceil k

def toMove : CMove → Cursor.Move
  | .fwd => .fwd | .bwd => .bwd

theorem cPlace_spec {m : Nat} (E : Env) (g f : Nat) (opath : CPath) (s : PS) (root : T) (pl : CPlace)
    (hg : Good s) (hp : PathRep w s g opath [(root, 0)]) :
    Spec (Grow m) (cPlace E f opath pl) s (NavPost w g (Cursor.place f root (toPlace pl))) := by
  cases pl with
  | min => exact cMin_spec E g f opath s _ hg hp
  | max => exact cMax_spec E g f opath s _ hg hp
  | ceil k => exact cCeil_spec E g k f opath s _ hg hp

theorem cStep_spec {m : Nat} (E : Env) (g f : Nat) (opath : CPath) (s : PS) (P : Path) (mv : CMove)
    (hg : Good s) (hp : PathRep w s g opath P) :
    Spec (Grow m) (cStep E f opath mv) s (MovePost w g opath (Cursor.stepPath f P (toMove mv))) := by
  cases mv with
  | fwd => exact cForward_spec E g f opath s P hg hp
  | bwd => exact cBackward_spec E g f opath s P hg hp

theorem cWalk_spec {m : Nat} (E : Env) (g f : Nat) : ∀ (ms : List CMove) (opath : CPath) (s : PS) (P : Path),
    Good s → PathRep w s g opath P →
    Spec (Grow m) (cWalk E f ms opath) s
      (fun r s' => r.2 = false → PathRep w s' g r.1 ((ms.map toMove).foldl (Cursor.stepPath f) P)) := by
  intro ms
  induction ms with
  | nil => intro opath s P _ hp; exact Spec.pure (fun _ => hp)
  | cons mv ms ih =>
    intro opath s P hg hp
    unfold cWalk
    refine Spec.bind (cStep_spec (m := m) E g f opath s P mv hg hp) ?_
    intro r s1 _ hgr hq
    cases hr : r.2 with
    | true => simp only [if_true]; exact Spec.pure (fun h => by rw [hr] at h; cases h)
    | false =>
      simp only [Bool.false_eq_true, if_false, List.map_cons, List.foldl_cons]
      exact ih r.1 s1 _ (hgr.good hg) (hq.1 hr)

/-- `Cursor()`: the clone (as `clone_spec` says) and a path that denotes `[(root row, 0)]`, or the
    empty path when the tree has no root node -/
theorem cursorNew_spec (E : Env) (t : PTree) (newId fuel g : Nat) (s : PS) (x : Bool × T × List Nat) (hg : Good s)
    (hx : repLink s.heap s.store g t.root = some x) :
    Spec (Grow newId) (cursorNew E t newId fuel) s (fun r s' => CloneOK t newId g x s r.1 s' ∧
      (t.root = .nil → r.2 = []) ∧ (t.root ≠ .nil → PathRep newId s' g r.2 [(x.2.1, 0)])) := by
  unfold cursorNew
  refine Spec.bind (clone_spec E t newId fuel g s x hg hx) ?_
  intro t' s1 _ hgr hok
  obtain ⟨hrec, x', hx', hflag, hrow, hrest⟩ := hok
  by_cases hr : t'.root = .nil
  · rw [if_pos hr]
    refine Spec.pure ⟨⟨hrec, x', hx', hflag, hrow, hrest⟩, fun _ => rfl, ?_⟩
    intro hne
    -- the clone of a tree with a root node has a root node
    rw [hr] at hx'; simp at hx'; subst hx'
    have := repLink_row_ne_nil hx hne
    exact absurd hrow.symm this
  · rw [if_neg hr]
    refine Spec.bind (load_spec (m := newId) E t'.root s1 (hgr.good hg)) ?_
    rintro a s2 _ hgr2 ⟨_, hptr, hld⟩
    have hxa := hld g x' hx'
    refine Spec.pure ⟨⟨hrec, x', hgr2.rep hx', hflag, hrow, hrest.1, hrest.2.1, ?_, ?_⟩, ?_, ?_⟩
    · exact hrest.2.2.1.allocOnly hgr2.alloc
    · cases htr : t'.root with
      | nil => exact absurd htr hr
      | ptr b =>
        obtain ⟨rfl, rfl⟩ := hptr b htr
        rw [htr] at hrest; exact hrest.2.2.2
      | ref n =>
        -- `Clone` installs a pointer
        rw [htr] at hrest
        have h1 := hrest.2.2.2
        simp only [rootDirty] at h1 ⊢
        exact h1
    · intro hnil
      rw [hnil] at hx; simp at hx; subst hx
      have hrow' : x'.2.1 = T.nil := hrow
      exact absurd hrow' (repLink_row_ne_nil hx' hr)
    · intro _
      exact ⟨rfl, ⟨x'.2.2, by rw [← hrow]; exact hxa, hrest.1, hrest.2.2.1.allocOnly hgr2.alloc⟩, trivial⟩

/-! ## a cursor is a capture: steps performed for other trees do not touch what its path denotes -/

/-- a step performed for tree `m` (an Insert, Delete, MakeRoot, Clone, load … of another tree:
    `WStep`) leaves an object owned by the cursor denoting the same row, footprint still owned -/
theorem NodeRep.other_step {m : Nat} {s s' : PS} (hst : WStep m s s') (hne : w ≠ m) {g a : Nat} {row : T}
    (h : NodeRep w s g a row) : NodeRep w s' g a row := by
  obtain ⟨fp, hx, hnd, hown⟩ := h
  obtain ⟨ext, hext⟩ := hst.store
  have hx' : repLink s'.heap s'.store g (.ptr a) = some (false, row, fp) := by
    rw [hext]
    refine repLink_frame (h := s.heap) (h' := s'.heap) (st := s.store) ext
      (fun a => ∃ nd, s.heap[a]? = some nd ∧ nd.shared = false ∧ nd.owner = m) ?_ ?_ g _ _ hx ?_
    · intro a nd hnd hnw
      obtain ⟨nd', hnd', _, _, heq⟩ := hst.keep a nd hnd
      have : nd.shared = true ∨ nd.owner ≠ m := by
        cases hs : nd.shared with
        | true => exact Or.inl rfl
        | false => exact Or.inr (fun ho => hnw ⟨nd, hnd, hs, ho⟩)
      rw [heq this] at hnd'; exact hnd'
    · rintro a nd hnd ⟨nd', hnd', hs, _⟩
      rw [hnd] at hnd'; injection hnd' with hnd'; subst hnd'; exact hs
    · rintro y hy ⟨nd, hnd, _, ho⟩
      obtain ⟨nd', hnd', ho'⟩ := hown y hy
      rw [hnd] at hnd'; injection hnd' with hnd'; subst hnd'
      exact hne (ho'.symm.trans ho)
  refine ⟨fp, hx', hnd, ?_⟩
  intro y hy
  obtain ⟨nd0, hnd0, ho⟩ := hown y hy
  obtain ⟨nd', hnd', _, _, heq⟩ := hst.keep y nd0 hnd0
  rw [heq (Or.inr (by rw [ho]; exact hne))] at hnd'
  exact ⟨nd0, hnd', ho⟩

theorem PathRep.other_step {m : Nat} {s s' : PS} {g : Nat} (hst : WStep m s s') (hne : w ≠ m) :
    ∀ {o : CPath} {p : Path}, PathRep w s g o p → PathRep w s' g o p
  | [], [], _ => trivial
  | (_, _) :: _, (_, _) :: _, h => ⟨h.1, h.2.1.other_step hst hne, PathRep.other_step hst hne h.2.2⟩
  | [], _ :: _, h => h.elim
  | _ :: _, [], h => h.elim

end Mast.Ptr
