import Mastverif.Lemmas.RefTickSys
import Mastverif.Lemmas.RefHistory
/-!
# The depth hypothesis holds along every history of the refinement invariant

`WS layer A`: the root row of the functional tree `A` is well-formed at level `A.height` and its entries are
sorted (the shape part of `Tree.Inv`; sizes and thresholds are not needed).  Every functional step `FStep`
(every outcome, including the recorded deviations: an insert or delete that fails after the commit, a delete
that empties the tree) keeps `WS`, provided a root that is opened with `LoadMast` is opened with the height at
which its row is well-formed (`LoadWF`).  With `Sys.apply_refines` this gives `Sys.Deep`, hence the history-level
load bound `Sys.run_tick` for every run from a state that satisfies the refinement invariant `RSys`.
-/
namespace Mast.Ptr
open Mast.Heap

/-- shape and order of a functional tree -/
structure WS (layer : Nat → Nat) (A : Tree) : Prop where
  wf : T.WF layer A.height A.root
  sorted : T.Sorted A.root.toList

theorem ws_growLoop (layer : Nat → Nat) : ∀ (fuel : Nat) (A : Tree), WS layer A → WS layer (Tree.growLoop layer fuel A) := by
  intro fuel
  induction fuel with
  | zero => intro A h; exact h
  | succ fuel ih =>
    intro A h
    simp only [Tree.growLoop]
    split
    · refine ih _ ⟨T.grow_WF layer A.height A.root h.wf, ?_⟩
      simp only [Tree.growStep]
      rw [T.toList_grow layer A.height A.root A.height h.wf]
      exact h.sorted
    · exact h

theorem ws_shrinkLoop (layer : Nat → Nat) : ∀ (fuel : Nat) (A : Tree), WS layer A → WS layer (Tree.shrinkLoop fuel A) := by
  intro fuel
  induction fuel with
  | zero => intro A h; exact h
  | succ fuel ih =>
    intro A h
    simp only [Tree.shrinkLoop]
    split
    · next hc =>
      obtain ⟨h', hh⟩ : ∃ h', A.height = h' + 1 := ⟨A.height - 1, by have := hc.1; omega⟩
      refine ih _ ⟨?_, ?_⟩
      · simp only [Tree.shrinkStep, hh, Nat.add_sub_cancel]
        exact T.shrink_WF layer h' A.root (hh ▸ h.wf)
      · simp only [Tree.shrinkStep]
        rw [T.toList_shrink]
        exact h.sorted
    · exact h

/-- the row after the insertion of an entry along the descent -/
theorem ws_ins_root (layer : Nat → Nat) {A : Tree} {k v : Nat} {r : T} (h : WS layer A)
    (hr : T.ins k v (A.levels layer k) A.root = some r) (p d : Bool) :
    WS layer { A with root := r, rootP := p, dirty := d } := by
  obtain ⟨tgt, h1, h2, h3⟩ := Tree.levels_spec layer A k
  have hwf : T.WF layer (tgt + A.levels layer k) A.root := h1 ▸ h.wf
  refine ⟨?_, ?_⟩
  · exact h1 ▸ T.ins_WF layer k v A.root (A.levels layer k) tgt r hwf h.sorted h2 h3 hr
  · simp only
    rw [T.toList_ins layer k v A.root (A.levels layer k) tgt r hwf h.sorted h2 h3 hr]
    exact T.sorted_insL k v _ h.sorted

theorem ws_del_root (layer : Nat → Nat) {A : Tree} {k : Nat} {r : T} (h : WS layer A)
    (hr : T.del k (A.levels layer k) A.root = some r) (p d : Bool) (sz : Nat) :
    WS layer { A with root := r, rootP := p, dirty := d, size := sz } := by
  obtain ⟨tgt, h1, h2, h3⟩ := Tree.levels_spec layer A k
  have hwf : T.WF layer (tgt + A.levels layer k) A.root := h1 ▸ h.wf
  refine ⟨?_, ?_⟩
  · exact h1 ▸ T.del_WF layer k A.root (A.levels layer k) tgt r hwf h.sorted h2 h3 hr
  · simp only
    rw [T.toList_del layer k A.root (A.levels layer k) tgt r hwf h.sorted h2 h3 hr]
    exact T.sorted_delL k _ h.sorted

theorem ws_insert (layer : Nat → Nat) {A A' : Tree} {k v : Nat} (h : WS layer A)
    (hi : Tree.insert layer A k v = .ok A') : WS layer A' := by
  unfold Tree.insert at hi
  split at hi
  · split at hi
    · injection hi with hi; subst hi; exact h
    · split at hi
      · next r hr => injection hi with hi; subst hi; exact ws_ins_root layer h hr false true
      · cases hi
  · split at hi
    · cases hi
    · next r hr =>
      injection hi with hi; subst hi
      have := ws_growLoop layer (A.size + 1) _ (ws_ins_root layer h hr false true)
      exact ⟨this.wf, this.sorted⟩

theorem ws_delete (layer : Nat → Nat) {A A' : Tree} {k v : Nat} (h : WS layer A)
    (hd : Tree.delete layer A k v = .ok A') : WS layer A' := by
  unfold Tree.delete at hd
  split at hd
  · cases hd
  · split at hd
    · cases hd
    · split at hd
      · cases hd
      · next r hr =>
        injection hd with hd; subst hd
        exact ws_shrinkLoop layer (A.height + 1) _ (ws_del_root layer h hr false true (A.size - 1))

/-! `WF` ignores the residency flags that `flush` sets -/

theorem erase_persistT : ∀ t : T, T.erase (persistT t) = T.erase t := by
  intro t
  induction t with
  | nil => rfl
  | last p c ih => simp only [persistT, T.erase, ih]
  | cons p c k v r ihc ihr => simp only [persistT, T.erase, ihc, ihr]

theorem ws_flushTree (layer : Nat → Nat) {A : Tree} (h : WS layer A) : WS layer (flushTree A) := by
  unfold flushTree
  split
  · exact ⟨h.wf, h.sorted⟩
  · refine ⟨?_, ?_⟩
    · show T.WF layer A.height (persistT A.root)
      rw [← T.WF_erase, erase_persistT, T.WF_erase]
      exact h.wf
    · show T.Sorted (persistT A.root).toList
      rw [persistT_toList]; exact h.sorted

/-- a root is opened with the height at which the row of that name is well-formed (and its entries sorted) -/
def LoadWF (layer : Nat → Nat) (st : List SNode) : Op → Prop
  | .load link _ height _ => ∀ r, NameRow st link r → T.WF layer height r ∧ T.Sorted r.toList
  | _ => True

theorem forall_mem_set {α : Type} {P : α → Prop} {l : List α} {i : Nat} {a : α} (hl : ∀ x ∈ l, P x) (ha : P a) :
    ∀ x ∈ l.set i a, P x := by
  intro x hx
  rcases List.mem_or_eq_of_mem_set hx with h | h
  · exact hl x h
  · exact h ▸ ha

theorem forall_mem_append_single {α : Type} {P : α → Prop} {l : List α} {a : α} (hl : ∀ x ∈ l, P x) (ha : P a) :
    ∀ x ∈ l ++ [a], P x := by
  intro x hx
  rcases List.mem_append.mp hx with h | h
  · exact hl x h
  · simp only [List.mem_singleton] at h; exact h ▸ ha

/-- every functional step keeps shape and order of every tree -/
theorem ws_fstep (layer : Nat → Nat) {st st' : List SNode} {As As' : List Tree} {op : Op} {o : Outcome}
    (hws : ∀ A ∈ As, WS layer A) (hld : LoadWF layer st op) (h : FStep layer st st' As op o As') :
    ∀ A ∈ As', WS layer A := by
  cases op with
  | ins i k v =>
    simp only [FStep] at h
    cases hA : As[i]? with
    | none => rw [hA] at h; simp only at h; subst h; exact hws
    | some A =>
      rw [hA] at h
      have hwA := hws A (List.mem_of_getElem? hA)
      cases o with
      | ok =>
        obtain ⟨A', hi, rfl⟩ := h
        exact forall_mem_set hws (ws_insert layer hwA hi)
      | err =>
        rcases h with rfl | ⟨r, _, hr, rfl⟩
        · exact hws
        · exact forall_mem_set hws (ws_ins_root layer hwA hr false true)
      | panic =>
        rcases h with rfl | ⟨r, _, hr, rfl⟩
        · exact hws
        · exact forall_mem_set hws (ws_ins_root layer hwA hr false true)
      | stuck =>
        rcases h with rfl | ⟨r, _, hr, rfl⟩
        · exact hws
        · exact forall_mem_set hws (ws_ins_root layer hwA hr false true)
      | oof =>
        rcases h with rfl | ⟨r, _, hr, rfl⟩
        · exact hws
        · exact forall_mem_set hws (ws_ins_root layer hwA hr false true)
  | del i k v =>
    simp only [FStep] at h
    cases hA : As[i]? with
    | none => rw [hA] at h; simp only at h; subst h; exact hws
    | some A =>
      rw [hA] at h
      have hwA := hws A (List.mem_of_getElem? hA)
      have herr : (As' = As ∨ ∃ r, Tree.lookup layer A k = some v ∧ T.del k (A.levels layer k) A.root = some r ∧
          As' = As.set i (delRec A r)) → ∀ A ∈ As', WS layer A := by
        rintro (rfl | ⟨r, _, hr, rfl⟩)
        · exact hws
        · exact forall_mem_set hws (ws_del_root layer hwA hr false true (A.size - 1))
      cases o with
      | ok =>
        obtain ⟨A', rfl, hd | ⟨hroot, _, _⟩⟩ := h
        · exact forall_mem_set hws (ws_delete layer hwA hd)
        · refine forall_mem_set hws ⟨?_, ?_⟩
          · rw [hroot]; exact (T.WF_last_iff layer).mpr (Or.inl rfl)
          · rw [hroot]; simp [T.toList, T.Sorted]
      | err => exact herr h
      | panic => exact herr h
      | stuck => exact herr h
      | oof => exact herr h
  | get i k => simp only [FStep] at h; subst h; exact hws
  | iter i => simp only [FStep] at h; subst h; exact hws
  | flush i =>
    simp only [FStep] at h
    split at h
    · next A hA =>
      obtain ⟨rfl, _⟩ := h
      exact forall_mem_set hws (ws_flushTree layer (hws A (List.mem_of_getElem? hA)))
    · subst h; exact hws
  | clone i =>
    simp only [FStep] at h
    split at h
    · next A hA =>
      subst h
      have hwA := hws A (List.mem_of_getElem? hA)
      exact forall_mem_append_single hws ⟨hwA.wf, hwA.sorted⟩
    · subst h; exact hws
  | load link size height bf =>
    simp only [FStep] at h
    cases o with
    | ok =>
      simp only at h
      split at h
      · subst h
        refine forall_mem_append_single hws ⟨?_, ?_⟩
        · exact (T.WF_last_iff layer).mpr (Or.inl rfl)
        · simp [loadedTree, T.toList, T.Sorted]
      · obtain ⟨r, hr, rfl⟩ := h
        obtain ⟨h1, h2⟩ := hld r hr
        exact forall_mem_append_single hws ⟨h1, h2⟩
    | err => simp only at h; subst h; exact hws
    | panic => simp only at h; subst h; exact hws
    | stuck => simp only at h; subst h; exact hws
    | oof => simp only at h; subst h; exact hws

/-! ## along a history -/

/-- every `LoadMast` of the run opens its root with a height at which the row of that name is well-formed -/
def Sys.LoadsWF (E : Env) (fuel : Nat) : Sys → List Op → Prop
  | _, [] => True
  | σ, op :: ops =>
    LoadWF E.layer σ.ps.store op ∧
      (match σ.apply E fuel op with
       | (σ', .ok) => Sys.LoadsWF E fuel σ' ops
       | (σ', .err) => Sys.LoadsWF E fuel σ' ops
       | _ => True)

/-- from a state of the refinement invariant whose trees have shape and order, the depth hypothesis holds at
    every `Insert` / `Delete` of every history -/
theorem Sys.deep_of_refines (E : Env) (fuel : Nat) : ∀ (ops : List Op) (σ : Sys) (As : List Tree), RSys σ → Den σ As →
    (∀ A ∈ As, WS E.layer A) → (∀ op ∈ ops, OpCovered op) → Sys.LoadsWF E fuel σ ops → Sys.Deep E fuel σ ops := by
  intro ops
  induction ops with
  | nil => intro σ As _ _ _ _ _; trivial
  | cons op ops ih =>
    intro σ As hR hD hws hops hlw
    have hstep := Sys.apply_refines E fuel σ op As hR hD (hops op (by simp))
    refine ⟨opDeep_of_den E.layer σ As op hR.good hD (fun A hA => (hws A hA).wf), ?_⟩
    have hl2 := hlw.2
    generalize hr : σ.apply E fuel op = r at hstep hl2 ⊢
    obtain ⟨σ1, o⟩ := r
    cases o with
    | ok =>
      obtain ⟨hR1, _, As1, hD1, hf⟩ := hstep (Or.inl rfl)
      exact ih σ1 As1 hR1 hD1 (ws_fstep E.layer hws hlw.1 hf) (fun o ho => hops o (by simp [ho])) hl2
    | err =>
      obtain ⟨hR1, _, As1, hD1, hf⟩ := hstep (Or.inr rfl)
      exact ih σ1 As1 hR1 hD1 (ws_fstep E.layer hws hlw.1 hf) (fun o ho => hops o (by simp [ho])) hl2
    | panic => trivial
    | stuck => trivial
    | oof => trivial

/-- **C16, history level, under the refinement invariant**: for every history from a state that satisfies
    `RSys` and whose trees have shape and order, the store loads are bounded by the sum of the budgets -/
theorem Sys.run_tick_refines (E : Env) (fuel : Nat) (ops : List Op) (σ : Sys) (As : List Tree) (hR : RSys σ)
    (hD : Den σ As) (hws : ∀ A ∈ As, WS E.layer A) (hops : ∀ op ∈ ops, OpCovered op)
    (hlw : Sys.LoadsWF E fuel σ ops) :
    (Sys.run E fuel σ ops).1.ps.tick ≤ σ.ps.tick + Sys.budget E fuel σ ops :=
  Sys.run_tick E fuel ops σ (Sys.deep_of_refines E fuel ops σ As hR hD hws hops hlw)

/-- from the empty system (cache on or off) -/
theorem Sys.run_tick_init (E : Env) (fuel : Nat) (ops : List Op) (uc : Bool) (nid : Nat)
    (hops : ∀ op ∈ ops, OpCovered op)
    (hlw : Sys.LoadsWF E fuel { ps := { useCache := uc }, nextId := nid } ops) :
    (Sys.run E fuel { ps := { useCache := uc }, nextId := nid } ops).1.ps.tick ≤
      Sys.budget E fuel { ps := { useCache := uc }, nextId := nid } ops := by
  have := Sys.run_tick_refines E fuel ops { ps := { useCache := uc }, nextId := nid } [] (RSys.init' uc nid)
    (den_empty _ rfl) (fun A hA => by cases hA) hops hlw
  simpa using this

/-- opening the empty root needs no hypothesis -/
theorem loadWF_of_zero (layer : Nat → Nat) (st : List SNode) (op : Op)
    (h : ∀ l sz ht b, op = .load l sz ht b → l = 0) : LoadWF layer st op := by
  cases op with
  | load link size height bf =>
    obtain rfl := h link size height bf rfl
    intro r ⟨g, x, hx, _⟩
    obtain ⟨_, sn, _, _, hsn, _⟩ := repLink_ref_some.mp hx
    simp [storeAt] at hsn
  | ins i k v => trivial
  | del i k v => trivial
  | get i k => trivial
  | iter i => trivial
  | flush i => trivial
  | clone i => trivial

theorem Sys.loadsWF_of_zero (E : Env) (fuel : Nat) : ∀ (ops : List Op) (σ : Sys),
    (∀ op ∈ ops, ∀ l sz ht b, op = .load l sz ht b → l = 0) → Sys.LoadsWF E fuel σ ops := by
  intro ops
  induction ops with
  | nil => intro σ _; trivial
  | cons op ops ih =>
    intro σ h
    refine ⟨loadWF_of_zero E.layer σ.ps.store op (h op (by simp)), ?_⟩
    have hrest : ∀ op' ∈ ops, ∀ l sz ht b, op' = .load l sz ht b → l = 0 := fun o ho => h o (by simp [ho])
    generalize σ.apply E fuel op = r
    obtain ⟨σ1, o⟩ := r
    cases o with
    | ok => exact ih σ1 hrest
    | err => exact ih σ1 hrest
    | panic => trivial
    | stuck => trivial
    | oof => trivial

/-- **unconditional**: every history that builds its trees from scratch (`LoadMast` of the empty root with a
    branch factor ≥ 2; then any inserts, deletes, lookups, iterations, flushes, clones; cache on or off; any
    fault oracle; any fuel) performs at most the sum of the budgets of its calls in store loads -/
theorem Sys.run_tick_scratch (E : Env) (fuel : Nat) (ops : List Op) (uc : Bool) (nid : Nat)
    (hops : ∀ op ∈ ops, OpCovered op) (hl : ∀ op ∈ ops, ∀ l sz ht b, op = .load l sz ht b → l = 0) :
    (Sys.run E fuel { ps := { useCache := uc }, nextId := nid } ops).1.ps.tick ≤
      Sys.budget E fuel { ps := { useCache := uc }, nextId := nid } ops :=
  Sys.run_tick_init E fuel ops uc nid hops (Sys.loadsWF_of_zero E fuel ops _ hl)

/-- re-opening the persisted root of a tree of the system, with that tree's height, needs no hypothesis:
    this is "opening a persisted version" -/
theorem loadWF_of_tree (layer : Nat → Nat) (σ : Sys) (As : List Tree) (hR : RSys σ) (hD : Den σ As)
    (hws : ∀ A ∈ As, WS layer A) {t : PTree} (ht : t ∈ σ.trees) {n : Nat} (hroot : t.root = .ref n) (size bf : Nat) :
    LoadWF layer σ.ps.store (.load n size t.height bf) := by
  intro r ⟨g', x', hx', hr⟩
  obtain ⟨i, hi⟩ := List.getElem?_of_mem ht
  obtain ⟨A, hA, g, hrep⟩ := hD.2 i t hi
  have hw := hws A (List.mem_of_getElem? hA)
  obtain ⟨x, hx, _, rfl⟩ := repTree_eq_some.mp hrep
  rw [hroot] at hx
  have hx2 := nameRow_rep hR.good hx'
  have e1 := repLink_mono_le hx (Nat.le_max_left g g')
  have e2 := repLink_mono_le hx2 (Nat.le_max_right g g')
  rw [e1] at e2; injection e2 with e2; subst e2
  have hne : x.2.1 ≠ T.nil := repLink_row_ne_nil hx (by simp)
  have hun : T.unmk x.2.1 = x.2.1 := unmk_of_ne_nil hne
  subst hr
  have h1 := hw.wf
  have h2 := hw.sorted
  simp only [treeRec, hun] at h1 h2
  exact ⟨h1, h2⟩

end Mast.Ptr
