import Mastverif.Lemmas.RefTickSplit
/-!
# Store loads of `Insert`

Under a depth bound `DepthLe … (height + 1) root` (and a sound cache) an `Insert` performs at most
`height + 1` store loads — whatever its outcome, whether or not the tree grows: one for the top node, one per
level of the descent down to the key's layer, one for the child below the insertion point, and one per level
of the single spine that `split` walks below it.  The commit and the growth loop load nothing (the root is a
pointer after the commit).
-/
namespace Mast.Ptr
open Mast.Heap

/-- everything of `Insert` that loads: root, descent, the child below the insertion point, its split -/
theorem insertPlan_ts (E : Env) (t : PTree) (fuel key val : Nat) (s : PS) (hc : CacheS s)
    (hd : DepthLe s.heap s.store (t.height + 1) t.root) :
    TS AExt (t.height + 1) (insertPlan E t fuel key val) s Tr := by
  unfold insertPlan
  refine TS.bind (a := 0) (b := t.height + 1) (layerM_ts E key s) ?_ (by omega)
  rintro lay s1 _ hext1 rfl
  have hc1 := hext1.cache hc
  have hmin : min (E.layer key) t.height ≤ t.height := Nat.min_le_right _ _
  dsimp only
  -- the top node
  refine TS.bind (a := 1) (b := t.height) (Q1 := fun a0 s2 => ChildD s2 key a0 t.height) ?_ ?_ (by omega)
  · split
    · refine (alloc_ts (emptyNode t.id) s1).conseq (by omega) ?_
      rintro c s' _ _ ⟨rfl, rfl⟩
      refine ⟨emptyNode t.id, getElem?_append_self _ _, ?_⟩
      intro l hl'
      have : l = .nil := by
        have hm := List.mem_of_getElem? hl'
        simpa [emptyNode] using hm
      subst this; simp
    · refine (load_depth E t.root s1 hc1 (DepthLe.ext hext1 hd)).conseq (loadCost_le _) ?_
      intro a0 s2 _ _ ⟨_, _, h3⟩
      exact ChildD.of_depth h3
  · intro a0 s2 _ hext2 hch
    have hc2 := hext2.cache hc1
    refine TS.bind (a := t.height - min (E.layer key) t.height) (b := min (E.layer key) t.height)
      (findNode_depth E t.id key (min (E.layer key) t.height) true fuel a0 t.height [] s2 hc2 hmin hch) ?_ (by omega)
    intro fd s3 _ hext3 ⟨_, nd0, hnd0, hidx, hdl⟩
    have hc3 := hext3.cache hc2
    split
    · exact TS.panic
    · next hcur =>
      have hcur' : fd.cur = min (E.layer key) t.height := by
        by_cases h : fd.cur = min (E.layer key) t.height
        · exact h
        · exact absurd h hcur
      refine TS.bind (a := 0) (b := min (E.layer key) t.height) (read_ts fd.node s3) ?_ (by omega)
      rintro nd s4 _ _ ⟨rfl, hnd⟩
      rw [hnd0] at hnd; injection hnd with hnd; subst hnd
      split
      · exact TS.pure trivial
      · split
        · exact TS.panic
        · exact TS.pure trivial
        · next l hne hl =>
          have hdl' : DepthLe s3.heap s3.store (min (E.layer key) t.height) l := hcur' ▸ hdl l hl
          have hpos := hdl'.pos (by intro h0; exact hne h0)
          refine TS.bind (a := 1) (b := min (E.layer key) t.height - 1)
            ((load_depth E l s3 hc3 hdl').mono (loadCost_le _)) ?_ (by omega)
          intro c s5 _ hext5 ⟨_, _, hc5⟩
          refine TS.bind (a := min (E.layer key) t.height - 1) (b := 0)
            (split_ts E t.id key fuel c s5 _ (hext5.cache hc3) hc5) ?_ (by omega)
          rintro ⟨lf, rt⟩ s6 _ _ _
          exact TS.pure trivial

/-- **C16, insert** (sharper than the property): under the depth bound an `Insert` performs at most
    `height + 1` store loads, for EVERY outcome (`o` arbitrary) and also when the tree grows -/
theorem insert_tick (E : Env) (fuel : Nat) (s s' : PS) (t t' : PTree) (key val : Nat) (o : Outcome) (hc : CacheS s)
    (hd : DepthLe s.heap s.store (t.height + 1) t.root)
    (h : insert E fuel s t key val = (s', t', o)) :
    s'.tick ≤ s.tick + t.height + 1 := by
  unfold insert at h
  have hP := insertPlan_ts E t fuel key val s hc hd
  cases hp : insertPlan E t fuel key val s with
  | err s1 =>
    rw [hp] at h; simp only [Prod.mk.injEq] at h; obtain ⟨rfl, _⟩ := h
    have := hP.err hp; omega
  | panic => rw [hp] at h; simp only [Prod.mk.injEq] at h; obtain ⟨rfl, _⟩ := h; omega
  | stuck => rw [hp] at h; simp only [Prod.mk.injEq] at h; obtain ⟨rfl, _⟩ := h; omega
  | oof => rw [hp] at h; simp only [Prod.mk.injEq] at h; obtain ⟨rfl, _⟩ := h; omega
  | ok p s1 =>
    rw [hp] at h
    simp only at h
    have h1 := (hP.ok hp).1
    split at h
    · simp only [Prod.mk.injEq] at h; obtain ⟨rfl, _⟩ := h; omega
    · have hC := insertCommit_ts t p key val s1
      cases hcm : insertCommit t p key val s1 with
      | err s2 =>
        rw [hcm] at h; simp only [Prod.mk.injEq] at h; obtain ⟨rfl, _⟩ := h
        have := hC.err hcm; omega
      | panic => rw [hcm] at h; simp only [Prod.mk.injEq] at h; obtain ⟨rfl, _⟩ := h; omega
      | stuck => rw [hcm] at h; simp only [Prod.mk.injEq] at h; obtain ⟨rfl, _⟩ := h; omega
      | oof => rw [hcm] at h; simp only [Prod.mk.injEq] at h; obtain ⟨rfl, _⟩ := h; omega
      | ok root s2 =>
        rw [hcm] at h
        simp only at h
        obtain ⟨h2, _, hroot⟩ := hC.ok hcm
        split at h
        · simp only [Prod.mk.injEq] at h; obtain ⟨rfl, _⟩ := h; omega
        · have hG := growAll_ts E fuel { t with root := root } s2 hroot
          unfold afterCommit at h
          cases hga : growAll E fuel { t with root := root } s2 with
          | err s3 =>
            rw [hga] at h; simp only [Prod.mk.injEq] at h
            have := hG.err hga
            obtain ⟨rfl, _⟩ := h; omega
          | ok t3 s3 =>
            rw [hga] at h; simp only [Prod.mk.injEq] at h
            have := (hG.ok hga).1
            obtain ⟨rfl, _⟩ := h; omega
          | panic =>
            rw [hga] at h; simp only [Prod.mk.injEq] at h
            obtain ⟨rfl, _⟩ := h; omega
          | stuck =>
            rw [hga] at h; simp only [Prod.mk.injEq] at h
            obtain ⟨rfl, _⟩ := h; omega
          | oof =>
            rw [hga] at h; simp only [Prod.mk.injEq] at h
            obtain ⟨rfl, _⟩ := h; omega

/-- the property's form: an insert that does not change the height reads at most `2 * (height + 1)` nodes -/
theorem insert_tick' (E : Env) (fuel : Nat) (s s' : PS) (t t' : PTree) (key val : Nat) (o : Outcome) (hc : CacheS s)
    (hd : DepthLe s.heap s.store (t.height + 1) t.root)
    (h : insert E fuel s t key val = (s', t', o)) (_ho : o = .ok ∨ o = .err) (_hh : t'.height = t.height) :
    s'.tick ≤ s.tick + 2 * (t.height + 1) := by
  have := insert_tick E fuel s s' t t' key val o hc hd h
  omega

end Mast.Ptr
