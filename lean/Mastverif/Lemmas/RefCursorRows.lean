import Mastverif.Model.Cursor
import Mastverif.Lemmas.RefRows
/-! Rows built by `mkRow` seen through the accessors of `Model/Cursor.lean`. -/
namespace Mast.Ptr
open Mast.Heap Mast

theorem rowLen_mkRow : ∀ (ks : List Nat) (cs : List (Bool × T)) (vs : List Nat),
    cs.length = ks.length + 1 → vs.length = ks.length → T.rowLen (mkRow cs ks vs) = ks.length := by
  intro ks
  induction ks with
  | nil =>
    intro cs vs hl _
    match cs, hl with
    | [(p, c)], _ => simp [mkRow, T.rowLen]
  | cons k ks ih =>
    intro cs vs hl hv
    match cs, vs, hl, hv with
    | (p, c) :: x :: ls, v :: vs, hl, hv =>
      rw [mkRow_cons]
      simp only [T.rowLen, List.length_cons]
      rw [ih (x :: ls) vs (by simpa using hl) (by simpa using hv)]

theorem linkAt_mkRow : ∀ (ks : List Nat) (cs : List (Bool × T)) (vs : List Nat) (i : Nat),
    cs.length = ks.length + 1 → vs.length = ks.length →
    T.linkAt (mkRow cs ks vs) i = (cs[i]?.map (·.2)).getD T.nil := by
  intro ks
  induction ks with
  | nil =>
    intro cs vs i hl _
    match cs, hl with
    | [(p, c)], _ =>
      cases i with
      | zero => simp [mkRow, T.linkAt]
      | succ i => simp [mkRow, T.linkAt]
  | cons k ks ih =>
    intro cs vs i hl hv
    match cs, vs, hl, hv with
    | (p, c) :: x :: ls, v :: vs, hl, hv =>
      rw [mkRow_cons]
      cases i with
      | zero => simp [T.linkAt]
      | succ i =>
        simp only [T.linkAt, List.getElem?_cons_succ]
        exact ih (x :: ls) vs i (by simpa using hl) (by simpa using hv)

theorem entryAt_mkRow : ∀ (ks : List Nat) (cs : List (Bool × T)) (vs : List Nat) (i : Nat),
    cs.length = ks.length + 1 → vs.length = ks.length →
    T.entryAt (mkRow cs ks vs) i = (ks[i]?).bind fun k => (vs[i]?).map fun v => (k, v) := by
  intro ks
  induction ks with
  | nil =>
    intro cs vs i hl _
    match cs, hl with
    | [(p, c)], _ => simp [mkRow, T.entryAt]
  | cons k ks ih =>
    intro cs vs i hl hv
    match cs, vs, hl, hv with
    | (p, c) :: x :: ls, v :: vs, hl, hv =>
      rw [mkRow_cons]
      cases i with
      | zero => simp [T.entryAt]
      | succ i =>
        simp only [T.entryAt, List.getElem?_cons_succ]
        exact ih (x :: ls) vs i (by simpa using hl) (by simpa using hv)

theorem lowerBound_mkRow : ∀ (ks : List Nat) (cs : List (Bool × T)) (vs : List Nat) (k : Nat),
    cs.length = ks.length + 1 → vs.length = ks.length →
    T.lowerBound k (mkRow cs ks vs) = keyIdx ks k := by
  intro ks
  induction ks with
  | nil =>
    intro cs vs k hl _
    match cs, hl with
    | [(p, c)], _ => simp [mkRow, T.lowerBound, keyIdx]
  | cons k' ks ih =>
    intro cs vs k hl hv
    match cs, vs, hl, hv with
    | (p, c) :: x :: ls, v :: vs, hl, hv =>
      rw [mkRow_cons]
      simp only [T.lowerBound, keyIdx]
      rw [ih (x :: ls) vs k (by simpa using hl) (by simpa using hv)]

end Mast.Ptr
