import Mastverif.Model.Store
/-! `uintLayer` is the multiplicity of the branch factor. -/
namespace Mast

theorem uintLayer_pos_step (bf v : Nat) (h : 2 ≤ bf ∧ v ≠ 0 ∧ v % bf = 0) :
    uintLayer bf v = uintLayer bf (v / bf) + 1 := by
  rw [uintLayer]; simp [h]

theorem uintLayer_zero_step (bf v : Nat) (h : ¬ (2 ≤ bf ∧ v ≠ 0 ∧ v % bf = 0)) :
    uintLayer bf v = 0 := by
  rw [uintLayer]; simp [h]

theorem uintLayer_spec (bf : Nat) (hbf : 2 ≤ bf) : ∀ v : Nat, v ≠ 0 →
    bf ^ (uintLayer bf v) ∣ v ∧ ¬ bf ^ (uintLayer bf v + 1) ∣ v := by
  intro v
  induction v using Nat.strongRecOn with
  | _ v ih =>
    intro hv
    by_cases hm : v % bf = 0
    · have hstep := uintLayer_pos_step bf v ⟨hbf, hv, hm⟩
      have hlt : v / bf < v := Nat.div_lt_self (Nat.pos_of_ne_zero hv) hbf
      have hne : v / bf ≠ 0 := by
        intro h0
        have := Nat.div_add_mod v bf
        rw [h0, hm] at this; omega
      obtain ⟨h1, h2⟩ := ih (v / bf) hlt hne
      have hv' : v = bf * (v / bf) := by
        have := Nat.div_add_mod v bf; rw [hm] at this; omega
      rw [hstep]
      generalize hq : v / bf = q at h1 h2 hv' hne
      generalize hL : uintLayer bf q = L at h1 h2
      constructor
      · obtain ⟨c, hc⟩ := h1
        refine ⟨c, ?_⟩
        rw [hv', hc, Nat.pow_succ]
        simp [Nat.mul_comm, Nat.mul_left_comm]
      · intro hd
        apply h2
        obtain ⟨c, hc⟩ := hd
        refine ⟨c, ?_⟩
        have hpos : 0 < bf := by omega
        apply Nat.eq_of_mul_eq_mul_left hpos
        rw [← hv', hc, Nat.pow_succ, Nat.pow_succ]
        simp [Nat.mul_comm, Nat.mul_left_comm]
    · have hz := uintLayer_zero_step bf v (by intro h; exact hm h.2.2)
      rw [hz]
      constructor
      · simp
      · simp only [Nat.zero_add, Nat.pow_one]
        intro hd
        exact hm (Nat.mod_eq_zero_of_dvd hd)
end Mast
