import Mastverif.Lemmas.RefTickCommit
/-!
# Store loads of `Delete`

Under a depth bound `DepthLe … (height + 1) root` (and a sound cache): the descent costs at most
`1 + (height - target)` store loads, `mergeNodes` at most two per level below the entry, the commit nothing;
the height reduction is excluded by `t'.height = t.height`.  Total: at most `2 * height + 1`.
-/
namespace Mast.Ptr
open Mast.Heap

/-- `mergeNodes`: two loads per level, along the spine below the left link -/
theorem mergeNodes_ts (E : Env) (m : Nat) : ∀ (f : Nat) (l r : HLink) (s : PS) (k : Nat), CacheS s →
    DepthLe s.heap s.store k l → TS AExt (2 * k) (mergeNodes E m f l r) s Tr := by
  intro f
  induction f with
  | zero => intro l r s k _ _; exact TS.oof
  | succ f ih =>
    intro l r s k hc hd
    unfold mergeNodes
    split
    · exact TS.pure trivial
    · next hl =>
      split
      · exact TS.pure trivial
      · obtain ⟨k', rfl⟩ : ∃ k', k = k' + 1 := ⟨k - 1, by have := hd.pos hl; omega⟩
        refine TS.bind (a := 1) (b := 1 + 2 * k') ((load_depth E l s hc hd).mono (loadCost_le l)) ?_ (by omega)
        intro la s1 _ hext1 ⟨_, _, hla⟩
        refine TS.bind (a := 1) (b := 2 * k') (load_ts_one E r s1) ?_ (by omega)
        intro ra s2 _ hext2 _
        have hc2 : CacheS s2 := hext2.cache (hext1.cache hc)
        obtain ⟨ln0, hln0, hlk⟩ := depthLe_ptr_succ.mp (DepthLe.ext hext2 hla)
        refine TS.bind (a := 0) (b := 2 * k') (read_ts la s2) ?_ (by omega)
        rintro ln s3 _ _ ⟨rfl, hln⟩
        rw [hln0] at hln; injection hln with hln; subst hln
        refine TS.bind (a := 0) (b := 2 * k') (read_ts ra s2) ?_ (by omega)
        rintro rn s3 _ _ ⟨rfl, _⟩
        split
        · next ll rl rrest hll _ =>
          have hmem : ll ∈ ln0.links := List.mem_of_getLast? hll
          refine TS.bind (a := 2 * k') (b := 0) (ih ll rl s2 k' hc2 (hlk ll hmem)) ?_ (by omega)
          intro merged s4 _ _ _
          dsimp only
          split
          · exact TS.fail
          · refine TS.bind (a := 0) (b := 0) (alloc_ts _ s4) ?_ (by omega)
            intro a s5 _ _ _
            exact TS.pure trivial
        · exact TS.panic

/-- everything of `Delete` that loads: root, descent, merge -/
theorem deletePlan_ts (E : Env) (t : PTree) (fuel key val : Nat) (s : PS) (hc : CacheS s)
    (hd : DepthLe s.heap s.store (t.height + 1) t.root) :
    TS AExt (1 + t.height + min (E.layer key) t.height) (deletePlan E t fuel key val) s Tr := by
  unfold deletePlan
  split
  · exact TS.fail
  · refine TS.bind (a := 0) (b := 1 + t.height + min (E.layer key) t.height) (layerM_ts E key s) ?_ (by omega)
    rintro lay s1 _ hext1 rfl
    have hc1 := hext1.cache hc
    have hmin : min (E.layer key) t.height ≤ t.height := Nat.min_le_right _ _
    refine TS.bind (a := 1) (b := t.height + min (E.layer key) t.height)
      ((load_depth E t.root s1 hc1 (DepthLe.ext hext1 hd)).mono (loadCost_le _)) ?_ (by omega)
    intro a0 s2 _ hext2 ⟨_, _, ha0⟩
    have hc2 := hext2.cache hc1
    refine TS.bind (a := t.height - min (E.layer key) t.height) (b := 2 * min (E.layer key) t.height)
      (findNode_depth E t.id key (min (E.layer key) t.height) false fuel a0 t.height [] s2 hc2 hmin
        (ChildD.of_depth ha0)) ?_ (by omega)
    intro fd s3 _ hext3 ⟨_, nd0, hnd0, hidx, hdl⟩
    have hc3 := hext3.cache hc2
    refine TS.bind (a := 0) (b := 2 * min (E.layer key) t.height) (read_ts fd.node s3) ?_ (by omega)
    rintro nd s4 _ _ ⟨rfl, hnd⟩
    rw [hnd0] at hnd; injection hnd with hnd; subst hnd
    split
    · exact TS.fail
    · next hcur =>
      have hcur' : fd.cur = min (E.layer key) t.height := by
        by_cases h : fd.cur = min (E.layer key) t.height
        · exact h
        · exact absurd (Or.inl h) hcur
      split
      · exact TS.fail
      · split
        · exact TS.fail
        · split
          · next l r hl hr =>
            refine TS.bind (a := 2 * min (E.layer key) t.height) (b := 0)
              (mergeNodes_ts E t.id fuel l r s3 _ hc3 (hcur' ▸ hdl l hl)) ?_ (by omega)
            intro mg s5 _ _ _
            exact TS.pure trivial
          · exact TS.panic

/-! ## the height reduction -/

theorem shrink_height (E : Env) (t : PTree) (s : PS) :
    Spec AnyR (shrink E t) s (fun t' _ => t'.height + 1 = t.height) := by
  unfold shrink
  split
  · exact Spec.fail
  · next h0 =>
    split
    · exact Spec.fail
    · refine Spec.bind (Q1 := Tr) ?_ ?_
      · unfold Spec; split <;> trivial
      · intro a s1 _ _ _
        refine Spec.bind (Q1 := Tr) ?_ ?_
        · unfold Spec; split <;> trivial
        · intro nd s2 _ _ _
          refine Spec.bind (Q1 := Tr) ?_ ?_
          · unfold Spec; split <;> trivial
          · intro top s3 _ _ _
            split
            · exact Spec.panic
            · refine Spec.bind (Q1 := Tr) ?_ ?_
              · unfold Spec; split <;> trivial
              · intro r s4 _ _ _
                refine Spec.pure ?_
                show t.height - 1 + 1 = t.height
                omega

theorem topEntryless_same (t : PTree) (s : PS) : Spec AnyR (topEntryless t) s (fun _ s' => s' = s) := by
  unfold topEntryless
  split
  · refine Spec.bind (read_spec _ s) ?_
    rintro nd s1 _ _ ⟨rfl, _⟩
    exact Spec.pure rfl
  · exact Spec.pure rfl

/-- a height reduction that ends `.ok` with the height it started from did not run `shrink` at all: the state
    is the one it started from -/
theorem shrinkAll_same (E : Env) : ∀ (f : Nat) (t : PTree) (s : PS),
    Spec AnyR (shrinkAll E f t) s (fun t' s' => t'.height ≤ t.height ∧ (t'.height = t.height → s' = s)) := by
  intro f
  induction f with
  | zero => intro t s; exact Spec.oof
  | succ f ih =>
    intro t s
    unfold shrinkAll
    refine Spec.bind (topEntryless_same t s) ?_
    rintro el s1 _ _ rfl
    split
    · refine Spec.bind (shrink_height E t s1) ?_
      intro t' s2 _ _ hh
      refine (ih t' s2).conseq ?_
      intro t'' s3 _ _ ⟨h1, _⟩
      exact ⟨by omega, fun h => by omega⟩
    · exact Spec.pure ⟨Nat.le_refl _, fun _ => rfl⟩

/-- the state after plan and commit -/
theorem deleteBody_ts (E : Env) (t : PTree) (fuel key val : Nat) (s : PS) (hc : CacheS s)
    (hd : DepthLe s.heap s.store (t.height + 1) t.root) :
    TS AnyR (1 + t.height + min (E.layer key) t.height)
      (do let p ← deletePlan E t fuel key val; deleteCommit t p) s (fun l _ => ∃ a, l = .ptr a) :=
  TS.bind (a := 1 + t.height + min (E.layer key) t.height) (b := 0) (deletePlan_ts E t fuel key val s hc hd).any
    (fun p s1 _ _ _ => deleteCommit_ts t p s1) (by omega)

/-- **C16, delete**: a `Delete` that ends `.ok` without changing the height performs at most
    `1 + height + min (layer key) height ≤ 2 * height + 1` store loads -/
theorem delete_tick (E : Env) (fuel : Nat) (s s' : PS) (t t' : PTree) (key val : Nat) (hc : CacheS s)
    (hd : DepthLe s.heap s.store (t.height + 1) t.root)
    (h : delete E fuel s t key val = (s', t', .ok)) (hh : t'.height = t.height) :
    s'.tick ≤ s.tick + (1 + t.height + min (E.layer key) t.height) := by
  unfold delete at h
  have hP := deletePlan_ts E t fuel key val s hc hd
  cases hp : deletePlan E t fuel key val s with
  | err s1 => rw [hp] at h; cases h
  | panic => rw [hp] at h; cases h
  | stuck => rw [hp] at h; cases h
  | oof => rw [hp] at h; cases h
  | ok p s1 =>
    rw [hp] at h
    simp only at h
    have h1 := (hP.ok hp).1
    have hC := deleteCommit_ts t p s1
    cases hcm : deleteCommit t p s1 with
    | err s2 => rw [hcm] at h; cases h
    | panic => rw [hcm] at h; cases h
    | stuck => rw [hcm] at h; cases h
    | oof => rw [hcm] at h; cases h
    | ok root s2 =>
      rw [hcm] at h
      simp only at h
      have h2 := (hC.ok hcm).1
      have hS := shrinkAll_same E fuel { t with root := root, size := t.size - 1 } s2
      unfold afterCommit at h
      cases hsa : shrinkAll E fuel { t with root := root, size := t.size - 1 } s2 with
      | err s3 => rw [hsa] at h; cases h
      | panic => rw [hsa] at h; cases h
      | stuck => rw [hsa] at h; cases h
      | oof => rw [hsa] at h; cases h
      | ok t3 s3 =>
        rw [hsa] at h
        simp only [Prod.mk.injEq] at h
        obtain ⟨rfl, rfl, _⟩ := h
        have := (hS.ok hsa).2.2 hh
        subst this
        omega

theorem delete_tick' (E : Env) (fuel : Nat) (s s' : PS) (t t' : PTree) (key val : Nat) (hc : CacheS s)
    (hd : DepthLe s.heap s.store (t.height + 1) t.root)
    (h : delete E fuel s t key val = (s', t', .ok)) (hh : t'.height = t.height) :
    s'.tick ≤ s.tick + 2 * (t.height + 1) := by
  have := delete_tick E fuel s s' t t' key val hc hd h hh
  have : min (E.layer key) t.height ≤ t.height := Nat.min_le_right _ _
  omega

/-- every outcome of `Delete`: the bound holds unless the height reduction ran — in which case it either
    lowered the height or failed (a failing height reduction leaves the height as it was, see the
    counterexample in `RefTickExample`) -/
theorem delete_tick_all (E : Env) (fuel : Nat) (s s' : PS) (t t' : PTree) (key val : Nat) (o : Outcome) (hc : CacheS s)
    (hd : DepthLe s.heap s.store (t.height + 1) t.root)
    (h : delete E fuel s t key val = (s', t', o)) :
    s'.tick ≤ s.tick + (1 + t.height + min (E.layer key) t.height) ∨
    ∃ p s1 root s2, deletePlan E t fuel key val s = .ok p s1 ∧ deleteCommit t p s1 = .ok root s2 ∧
      ((o = .ok ∧ t'.height < t.height) ∨
       (o = .err ∧ shrinkAll E fuel { t with root := root, size := t.size - 1 } s2 = .err s')) := by
  unfold delete at h
  have hP := deletePlan_ts E t fuel key val s hc hd
  cases hp : deletePlan E t fuel key val s with
  | err s1 =>
    rw [hp] at h; simp only [Prod.mk.injEq] at h; obtain ⟨rfl, _⟩ := h
    exact Or.inl (hP.err hp)
  | panic => rw [hp] at h; simp only [Prod.mk.injEq] at h; obtain ⟨rfl, _⟩ := h; exact Or.inl (by omega)
  | stuck => rw [hp] at h; simp only [Prod.mk.injEq] at h; obtain ⟨rfl, _⟩ := h; exact Or.inl (by omega)
  | oof => rw [hp] at h; simp only [Prod.mk.injEq] at h; obtain ⟨rfl, _⟩ := h; exact Or.inl (by omega)
  | ok p s1 =>
    rw [hp] at h
    simp only at h
    have h1 := (hP.ok hp).1
    have hC := deleteCommit_ts t p s1
    cases hcm : deleteCommit t p s1 with
    | err s2 =>
      rw [hcm] at h; simp only [Prod.mk.injEq] at h; obtain ⟨rfl, _⟩ := h
      have := hC.err hcm; exact Or.inl (by omega)
    | panic => rw [hcm] at h; simp only [Prod.mk.injEq] at h; obtain ⟨rfl, _⟩ := h; exact Or.inl h1
    | stuck => rw [hcm] at h; simp only [Prod.mk.injEq] at h; obtain ⟨rfl, _⟩ := h; exact Or.inl h1
    | oof => rw [hcm] at h; simp only [Prod.mk.injEq] at h; obtain ⟨rfl, _⟩ := h; exact Or.inl h1
    | ok root s2 =>
      rw [hcm] at h
      simp only at h
      have h2 := (hC.ok hcm).1
      have hS := shrinkAll_same E fuel { t with root := root, size := t.size - 1 } s2
      unfold afterCommit at h
      cases hsa : shrinkAll E fuel { t with root := root, size := t.size - 1 } s2 with
      | err s3 =>
        rw [hsa] at h; simp only [Prod.mk.injEq] at h; obtain ⟨rfl, _, rfl⟩ := h
        exact Or.inr ⟨p, s1, root, s2, rfl, hcm, Or.inr ⟨rfl, hsa⟩⟩
      | panic => rw [hsa] at h; simp only [Prod.mk.injEq] at h; obtain ⟨rfl, _⟩ := h; exact Or.inl (by omega)
      | stuck => rw [hsa] at h; simp only [Prod.mk.injEq] at h; obtain ⟨rfl, _⟩ := h; exact Or.inl (by omega)
      | oof => rw [hsa] at h; simp only [Prod.mk.injEq] at h; obtain ⟨rfl, _⟩ := h; exact Or.inl (by omega)
      | ok t3 s3 =>
        rw [hsa] at h
        simp only [Prod.mk.injEq] at h
        obtain ⟨rfl, rfl, rfl⟩ := h
        obtain ⟨_, hle, hsame⟩ := hS.ok hsa
        by_cases hh : t3.height = t.height
        · have := hsame hh; subst this; exact Or.inl (by omega)
        · exact Or.inr ⟨p, s1, root, s2, rfl, hcm, Or.inl ⟨rfl, by
            have : t3.height ≤ t.height := hle
            omega⟩⟩

end Mast.Ptr
