import Mastverif.Lemmas.Get
/-!
# `del` refines `delL` and preserves the shape; `mergeRow` concatenates
-/
namespace Mast
namespace T
variable (layer : Nat → Nat)

theorem delL_append (k : Nat) (a b : List Entry) : delL k (a ++ b) = delL k a ++ delL k b := by
  simp [delL]

theorem delL_of_not_mem (k : Nat) (a : List Entry) (h : ∀ e ∈ a, e.1 ≠ k) : delL k a = a := by
  unfold delL
  apply filter_all
  intro e he
  simpa using h e he

theorem isNil_iff {t : T} : t.isNil = true ↔ t = nil := by cases t <;> simp [isNil]

theorem toList_mergeRow : ∀ (l r : T), toList (mergeRow l r) = toList l ++ toList r := by
  intro l
  induction l with
  | nil => intro r; simp [mergeRow, toList]
  | cons p c k v rest _ ihr => intro r; simp [mergeRow, toList, ihr]
  | last p c ih =>
    intro r
    cases r with
    | nil => simp [mergeRow, toList]
    | last p2 c2 =>
      simp only [mergeRow]
      split
      · next h => rw [isNil_iff] at h; subst h; simp [toList]
      · split
        · next _ h => rw [isNil_iff] at h; subst h; simp [toList]
        · simp [toList, ih]
    | cons p2 c2 k v r2 =>
      simp only [mergeRow]
      split
      · next h => rw [isNil_iff] at h; subst h; simp [toList]
      · split
        · next _ h => rw [isNil_iff] at h; subst h; simp [toList]
        · simp [toList, ih]

theorem toList_joinAt (p : Bool) (c : T) : ∀ r : T, r ≠ nil → toList (joinAt p c r) = toList c ++ toList r := by
  intro r hr
  cases r with
  | nil => exact absurd rfl hr
  | last p2 c2 =>
    simp only [joinAt]
    split
    · next h => rw [isNil_iff] at h; subst h; simp [toList]
    · split
      · next _ h => rw [isNil_iff] at h; subst h; simp [toList]
      · simp [toList, toList_mergeRow]
  | cons p2 c2 k v r2 =>
    simp only [joinAt]
    split
    · next h => rw [isNil_iff] at h; subst h; simp [toList]
    · split
      · next _ h => rw [isNil_iff] at h; subst h; simp [toList]
      · simp [toList, toList_mergeRow]

theorem WF_ne_nil {d : Nat} {t : T} (h : WF layer d t) : t ≠ nil := by
  intro hn; subst hn; simp [WF] at h

/-- **`del` refines `delL`.** -/
theorem toList_del (k : Nat) : ∀ (t : T) (s tgt : Nat) (t' : T),
    WF layer (tgt + s) t → Sorted (toList t) → tgt ≤ layer k → (layer k ≤ tgt ∨ s = 0) →
    del k s t = some t' → toList t' = delL k (toList t) := by
  intro t
  induction t with
  | nil => intro s tgt t' h; simp [WF] at h
  | last p c ih =>
    intro s tgt t' h hsrt hk hs hi
    rw [WF_last_iff] at h
    simp only [toList] at hsrt ⊢
    cases s with
    | zero => simp [del] at hi
    | succ s =>
      have hkl : layer k ≤ tgt := by rcases hs with hs | hs; exact hs; omega
      simp only [del, Option.map_eq_some_iff] at hi
      obtain ⟨c', hc', rfl⟩ := hi
      simp only [toList, toList_mk]
      by_cases hcn : c = nil
      · subst hcn; cases s <;> simp [del] at hc'
      · obtain ⟨_, hw, _⟩ := childOK_level layer (d := tgt + s) h hcn
        exact ih s tgt c' hw hsrt hk (Or.inl hkl) hc'
  | cons p c k' v' r ihc ihr =>
    intro s tgt t' h hsrt hk hs hi
    rw [WF_cons_iff] at h
    obtain ⟨hk', hr, hc⟩ := h
    simp only [toList] at hsrt ⊢
    obtain ⟨hsc, hsr, hclt, hrgt⟩ := sorted_cons_parts hsrt
    by_cases hlt : k' < k
    · have hcne : ∀ e ∈ toList c, e.1 ≠ k := fun e he => by have := hclt e he; omega
      have key : ∀ r', del k s r = some r' →
          toList (cons p c k' v' r') = delL k (toList c ++ (k', v') :: toList r) := by
        intro r' hr'
        have := ihr s tgt r' hr hsr hk hs hr'
        simp only [toList, this]
        rw [delL_append, delL_of_not_mem k _ hcne]
        have : k' ≠ k := by omega
        simp [delL, this]
      cases s with
      | zero =>
        simp only [del, hlt, if_true, Option.map_eq_some_iff] at hi
        obtain ⟨r', hr', rfl⟩ := hi; exact key r' hr'
      | succ s =>
        simp only [del, hlt, if_true, Option.map_eq_some_iff] at hi
        obtain ⟨r', hr', rfl⟩ := hi; exact key r' hr'
    · by_cases heq : k' = k
      · subst heq
        cases s with
        | zero =>
          simp only [del, hlt, if_false, if_true, Option.some.injEq] at hi
          subst hi
          rw [toList_joinAt p c r (WF_ne_nil layer hr)]
          have hcne : ∀ e ∈ toList c, e.1 ≠ k' := fun e he => by have := hclt e he; omega
          have hrne : ∀ e ∈ toList r, e.1 ≠ k' := fun e he => by have := hrgt e he; omega
          rw [delL_append, delL_of_not_mem k' _ hcne]
          have hcons : delL k' ((k', v') :: toList r) = delL k' (toList r) := by simp [delL]
          rw [hcons, delL_of_not_mem k' _ hrne]
        | succ s => simp [del] at hi
      · have hgt : k < k' := by omega
        cases s with
        | zero => simp [del, hlt, heq] at hi
        | succ s =>
          have hkl : layer k ≤ tgt := by rcases hs with hs | hs; exact hs; omega
          simp only [del, hlt, heq, if_false, Option.map_eq_some_iff] at hi
          obtain ⟨c', hc', rfl⟩ := hi
          simp only [toList, toList_mk]
          have hrne : ∀ e ∈ (k', v') :: toList r, e.1 ≠ k := by
            intro e he; simp at he; rcases he with rfl | he
            · exact heq
            · have := hrgt e he; omega
          rw [delL_append, delL_of_not_mem k _ hrne]
          by_cases hcn : c = nil
          · subst hcn; cases s <;> simp [del] at hc'
          · obtain ⟨_, hw, _⟩ := childOK_level layer (d := tgt + s) hc hcn
            rw [ihc s tgt c' hw hsc hk (Or.inl hkl) hc']

/-- a present key can be deleted -/
theorem del_isSome_of_get (k : Nat) : ∀ (t : T) (s : Nat) (v : Nat), get k s t = some v → (del k s t).isSome = true := by
  intro t
  induction t with
  | nil => intro s v h; cases s <;> simp [get] at h
  | last p c ih =>
    intro s v h
    cases s with
    | zero => simp [get] at h
    | succ s => simp only [get] at h; simp only [del, Option.isSome_map]; exact ih s v h
  | cons p c k' v' r ihc ihr =>
    intro s v h
    cases s with
    | zero =>
      simp only [get] at h; simp only [del]
      split
      · next hlt => simp only [hlt, if_true] at h; simp only [Option.isSome_map]; exact ihr 0 v h
      · next hlt =>
        simp only [hlt, if_false] at h
        split
        · simp
        · next hne => simp [hne] at h
    | succ s =>
      simp only [get] at h; simp only [del]
      split
      · next hlt => simp only [hlt, if_true] at h; simp only [Option.isSome_map]; exact ihr (s+1) v h
      · next hlt =>
        simp only [hlt, if_false] at h
        split
        · next heq => simp [heq] at h
        · next hne => simp only [hne, if_false] at h; simp only [Option.isSome_map]; exact ihc s v h

end T
end Mast

namespace Mast
namespace T
variable (layer : Nat → Nat)

theorem mem_delL {k : Nat} {l : List Entry} {e : Entry} (h : e ∈ delL k l) : e ∈ l := by
  simp only [delL, List.mem_filter] at h; exact h.1

/-- the merged link of two child links of the same level -/
theorem childOK_merge {d : Nat} {c c2 : T} (hc : ChildOK layer d c) (hc2 : ChildOK layer d c2)
    (hcn : c.isNil = false) (hc2n : c2.isNil = false)
    (ih : ∀ d', WF layer d' c → WF layer d' c2 → WF layer d' (mergeRow c c2)) :
    ChildOK layer d (mergeRow c c2) := by
  have hcne : c ≠ nil := by intro h; subst h; simp [isNil] at hcn
  have hc2ne : c2 ≠ nil := by intro h; subst h; simp [isNil] at hc2n
  rcases hc with h | ⟨d1, hd1, n1, w1, l1⟩
  · exact absurd h hcne
  · rcases hc2 with h | ⟨d2, hd2, n2, w2, l2⟩
    · exact absurd h hc2ne
    · have : d1 = d2 := by omega
      subst this
      right
      refine ⟨d1, hd1, ?_, ih d1 w1 w2, ?_⟩
      · apply isEmptyRow_of_toList_ne
        rw [toList_mergeRow]
        have := toList_ne_nil layer w1 n1
        intro h; simp at h; exact this h.1
      · intro e he
        rw [toList_mergeRow] at he
        simp only [List.mem_append] at he
        rcases he with he | he
        · exact l1 e he
        · exact l2 e he

theorem mergeRow_WF : ∀ (l r : T) (d : Nat), WF layer d l → WF layer d r → WF layer d (mergeRow l r) := by
  intro l
  induction l with
  | nil => intro r d h; simp [WF] at h
  | cons p c k v rest _ ihr =>
    intro r d h hr
    rw [WF_cons_iff] at h
    simp only [mergeRow]
    rw [WF_cons_iff]
    exact ⟨h.1, ihr r d h.2.1 hr, h.2.2⟩
  | last p c ih =>
    intro r d h hr
    rw [WF_last_iff] at h
    cases r with
    | nil => simp [WF] at hr
    | last p2 c2 =>
      rw [WF_last_iff] at hr
      simp only [mergeRow]
      split
      · rw [WF_last_iff]; exact hr
      · next hcn =>
        split
        · rw [WF_last_iff]; exact h
        · next hc2n =>
          rw [WF_last_iff]
          exact childOK_merge layer h hr (by simpa using hcn) (by simpa using hc2n) (fun d' => ih c2 d')
    | cons p2 c2 k v r2 =>
      rw [WF_cons_iff] at hr
      simp only [mergeRow]
      split
      · rw [WF_cons_iff]; exact hr
      · next hcn =>
        split
        · rw [WF_cons_iff]; exact ⟨hr.1, hr.2.1, h⟩
        · next hc2n =>
          rw [WF_cons_iff]
          exact ⟨hr.1, hr.2.1, childOK_merge layer h hr.2.2 (by simpa using hcn) (by simpa using hc2n) (fun d' => ih c2 d')⟩

theorem joinAt_WF (p : Bool) (c r : T) (d : Nat) (hc : ChildOK layer d c) (hr : WF layer d r) :
    WF layer d (joinAt p c r) := by
  cases r with
  | nil => simp [WF] at hr
  | last p2 c2 =>
    rw [WF_last_iff] at hr
    simp only [joinAt]
    split
    · rw [WF_last_iff]; exact hr
    · next hcn =>
      split
      · rw [WF_last_iff]; exact hc
      · next hc2n =>
        rw [WF_last_iff]
        exact childOK_merge layer hc hr (by simpa using hcn) (by simpa using hc2n) (fun d' => mergeRow_WF layer c c2 d')
  | cons p2 c2 k v r2 =>
    rw [WF_cons_iff] at hr
    simp only [joinAt]
    split
    · rw [WF_cons_iff]; exact hr
    · next hcn =>
      split
      · rw [WF_cons_iff]; exact ⟨hr.1, hr.2.1, hc⟩
      · next hc2n =>
        rw [WF_cons_iff]
        exact ⟨hr.1, hr.2.1, childOK_merge layer hc hr.2.2 (by simpa using hcn) (by simpa using hc2n) (fun d' => mergeRow_WF layer c c2 d')⟩

/-- child link after a delete below it -/
theorem childOK_after_del {d : Nat} {c c' : T} (k : Nat)
    (hw' : WF layer d c') (hsub : toList c' = delL k (toList c))
    (hl : ∀ e ∈ toList c, layer e.1 < d + 1) : ChildOK layer (d + 1) (mk c') := by
  apply childOK_mk layer hw'
  intro e he
  rw [hsub] at he
  exact hl e (mem_delL he)

/-- **`del` preserves the shape.** -/
theorem del_WF (k : Nat) : ∀ (t : T) (s tgt : Nat) (t' : T),
    WF layer (tgt + s) t → Sorted (toList t) → tgt ≤ layer k → (layer k ≤ tgt ∨ s = 0) →
    del k s t = some t' → WF layer (tgt + s) t' := by
  intro t
  induction t with
  | nil => intro s tgt t' h; simp [WF] at h
  | last p c ih =>
    intro s tgt t' h hsrt hk hs hi
    rw [WF_last_iff] at h
    simp only [toList] at hsrt
    cases s with
    | zero => simp [del] at hi
    | succ s =>
      have hkl : layer k ≤ tgt := by rcases hs with hs | hs; exact hs; omega
      simp only [del, Option.map_eq_some_iff] at hi
      obtain ⟨c', hc', rfl⟩ := hi
      rw [WF_last_iff]
      by_cases hcn : c = nil
      · subst hcn; cases s <;> simp [del] at hc'
      · obtain ⟨_, hw, hl⟩ := childOK_level layer (d := tgt + s) h hcn
        exact childOK_after_del layer k (ih s tgt c' hw hsrt hk (Or.inl hkl) hc')
          (toList_del layer k c s tgt c' hw hsrt hk (Or.inl hkl) hc') hl
  | cons p c k' v' r ihc ihr =>
    intro s tgt t' h hsrt hk hs hi
    rw [WF_cons_iff] at h
    obtain ⟨hk', hr, hc⟩ := h
    simp only [toList] at hsrt
    obtain ⟨hsc, hsr, hclt, hrgt⟩ := sorted_cons_parts hsrt
    by_cases hlt : k' < k
    · have key : ∀ r', del k s r = some r' → WF layer (tgt + s) (cons p c k' v' r') := by
        intro r' hr'
        rw [WF_cons_iff]
        exact ⟨hk', ihr s tgt r' hr hsr hk hs hr', hc⟩
      cases s with
      | zero =>
        simp only [del, hlt, if_true, Option.map_eq_some_iff] at hi
        obtain ⟨r', hr', rfl⟩ := hi; exact key r' hr'
      | succ s =>
        simp only [del, hlt, if_true, Option.map_eq_some_iff] at hi
        obtain ⟨r', hr', rfl⟩ := hi; exact key r' hr'
    · by_cases heq : k' = k
      · subst heq
        cases s with
        | zero =>
          simp only [del, hlt, if_false, if_true, Option.some.injEq] at hi
          subst hi
          exact joinAt_WF layer p c r _ hc hr
        | succ s => simp [del] at hi
      · cases s with
        | zero => simp [del, hlt, heq] at hi
        | succ s =>
          have hkl : layer k ≤ tgt := by rcases hs with hs | hs; exact hs; omega
          simp only [del, hlt, heq, if_false, Option.map_eq_some_iff] at hi
          obtain ⟨c', hc', rfl⟩ := hi
          rw [WF_cons_iff]
          refine ⟨hk', hr, ?_⟩
          by_cases hcn : c = nil
          · subst hcn; cases s <;> simp [del] at hc'
          · obtain ⟨_, hw, hl⟩ := childOK_level layer (d := tgt + s) hc hcn
            exact childOK_after_del layer k (ihc s tgt c' hw hsc hk (Or.inl hkl) hc')
              (toList_del layer k c s tgt c' hw hsc hk (Or.inl hkl) hc') hl

end T
end Mast
