import Mastverif.Lemmas.Diff
/-!
# The link reports of the literal `diffOne`: within, complete

`nodesBelow t` lists the nodes below a row; `pend stack` the nodes a stack still stands for.
One side of the traversal (its stack, its `alreadyNotified` memo, the names reported so far)
satisfies `SInv`: everything pending belongs to the version; every node of the version has been
reported, is still pending, or has a name that the other version reaches; every memo entry was
reported; every report names a node of the version.  Every branch of `step` moves each side by one
of four transitions (keep / report / open / drop-as-common), all of which preserve `SInv`.
At the end both stacks are empty, which gives `run_links`.
Assumption on link identity (as for the entry diff): equal names ⇒ the same names below.
-/
set_option linter.unusedSimpArgs false
namespace Mast
namespace T

def nodesBelow : T → List T
  | nil => []
  | last _ c => if c.isNil then [] else c :: nodesBelow c
  | cons _ c _ _ r => (if c.isNil then [] else c :: nodesBelow c) ++ nodesBelow r

end T

namespace Diff
open T

abbrev Name := List UInt8

def pend : List Item → List T
  | [] => []
  | Item.link _ t :: s => t :: nodesBelow t ++ pend s
  | Item.yld _ _ :: s => pend s

@[simp] theorem pend_append (a b : List Item) : pend (a ++ b) = pend a ++ pend b := by
  induction a with
  | nil => rfl
  | cons x a ih => cases x <;> simp [pend, ih]

theorem pend_linkItem (p : Bool) (c : T) : pend (linkItem p c) = if c.isNil then [] else c :: nodesBelow c := by
  cases c <;> simp [linkItem, pend, isNil]

@[simp] theorem pend_items (t : T) : pend (items t) = nodesBelow t := by
  induction t with
  | nil => rfl
  | last p c _ => simp [items, nodesBelow, pend_linkItem]
  | cons p c k v r _ ihr => simp [items, nodesBelow, pend_linkItem, pend, ihr]

def adds : List DEv → List Name
  | [] => []
  | DEv.addLink n :: l => n :: adds l
  | _ :: l => adds l

def rems : List DEv → List Name
  | [] => []
  | DEv.remLink n :: l => n :: rems l
  | _ :: l => rems l

theorem adds_append (a b : List DEv) : adds (a ++ b) = adds a ++ adds b := by
  induction a with
  | nil => rfl
  | cons x a ih => cases x <;> simp [adds, ih]

theorem rems_append (a b : List DEv) : rems (a ++ b) = rems a ++ rems b := by
  induction a with
  | nil => rfl
  | cons x a ih => cases x <;> simp [rems, ih]

@[simp] theorem adds_ite_add (c : Bool) (n : Name) :
    adds (if c = true then [] else [DEv.addLink n]) = if c = true then [] else [n] := by
  cases c <;> rfl
@[simp] theorem adds_ite_rem (c : Bool) (n : Name) : adds (if c = true then [] else [DEv.remLink n]) = [] := by
  cases c <;> rfl
@[simp] theorem rems_ite_rem (c : Bool) (n : Name) :
    rems (if c = true then [] else [DEv.remLink n]) = if c = true then [] else [n] := by
  cases c <;> rfl
@[simp] theorem rems_ite_add (c : Bool) (n : Name) : rems (if c = true then [] else [DEv.addLink n]) = [] := by
  cases c <;> rfl

theorem adds_both (c1 c2 : Bool) (n1 n2 : Name) :
    adds ((if c1 = true then [] else [DEv.remLink n1]) ++ (if c2 = true then [] else [DEv.addLink n2])) =
      if c2 = true then [] else [n2] := by
  cases c1 <;> cases c2 <;> rfl

theorem rems_both (c1 c2 : Bool) (n1 n2 : Name) :
    rems ((if c1 = true then [] else [DEv.remLink n1]) ++ (if c2 = true then [] else [DEv.addLink n2])) =
      if c1 = true then [] else [n1] := by
  cases c1 <;> cases c2 <;> rfl

variable (layer : Nat → Nat) (nameOf : T → Name)

/-- one side of the traversal -/
structure SInv (Mine : List T) (Other : List Name) (stack : List Item) (memo : Memo) (R : List Name) : Prop where
  a : ∀ x ∈ pend stack, x ∈ Mine
  b : ∀ x ∈ Mine, nameOf x ∈ R ∨ x ∈ pend stack ∨ nameOf x ∈ Other
  c : ∀ e ∈ memo, e.2 ∈ R
  d : ∀ n ∈ R, n ∈ Mine.map nameOf

theorem memoGet_mem {m : Memo} {h : Nat} {n : Name} (hg : memoGet m h = some n) : ∃ e ∈ m, e.2 = n := by
  unfold memoGet at hg
  cases hf : m.find? (fun e => e.1 == h) with
  | none => simp [hf] at hg
  | some e =>
    simp only [hf, Option.some.injEq] at hg
    exact ⟨e, List.mem_of_find?_eq_some hf, hg⟩

theorem memoSet_mem {m : Memo} {h : Nat} {n : Name} {e} (he : e ∈ memoSet m h n) : e = (h, n) ∨ e ∈ m := by
  unfold memoSet at he
  simp only [List.mem_cons, List.mem_filter] at he
  rcases he with he | he
  · exact Or.inl he
  · exact Or.inr he.1

/-- what `alreadyNotified` answers: "already told" only for a name that is in the memo; the memo
    only gains the name that is about to be reported -/
theorem notified_spec (memo : Memo) (p : Bool) (t : T) :
    ((notified layer nameOf memo p t).1 = true → ∃ e ∈ memo, e.2 = nameOf t) ∧
    (∀ e ∈ (notified layer nameOf memo p t).2.1,
        e ∈ memo ∨ ((notified layer nameOf memo p t).1 = false ∧ e.2 = nameOf t)) := by
  unfold notified
  simp only []
  split
  · exact ⟨by simp, fun e he => Or.inl he⟩
  · next h _ =>
    by_cases hg : (memoGet memo (h % 256) == some (nameOf t)) = true
    · simp only [hg, if_true]
      have : memoGet memo (h % 256) = some (nameOf t) := by simpa using hg
      exact ⟨fun _ => memoGet_mem this, fun e he => Or.inl he⟩
    · simp only [hg, Bool.false_eq_true, if_false]
      refine ⟨by simp, ?_⟩
      intro e he
      rcases memoSet_mem he with rfl | he
      · exact Or.inr ⟨by simp, rfl⟩
      · exact Or.inl he

/-- the names reported by one consideration of the top link -/
def rep (nt : Bool) (t : T) : List Name := if nt = true then [] else [nameOf t]

/-- transition "report": the top link is considered; afterwards its name is among the reports -/
theorem report_pres {Mine : List T} {Other : List Name} {p : Bool} {t : T} {rest : List Item} {memo : Memo}
    {R : List Name} (h : SInv nameOf Mine Other (Item.link p t :: rest) memo R) :
    SInv nameOf Mine Other (Item.link p t :: rest) (notified layer nameOf memo p t).2.1
        (R ++ rep nameOf (notified layer nameOf memo p t).1 t) ∧
    nameOf t ∈ R ++ rep nameOf (notified layer nameOf memo p t).1 t := by
  obtain ⟨s1, s2⟩ := notified_spec layer nameOf memo p t
  have ht : t ∈ Mine := h.a t (by simp [pend])
  have hin : nameOf t ∈ R ++ rep nameOf (notified layer nameOf memo p t).1 t := by
    cases hnt : (notified layer nameOf memo p t).1 with
    | true =>
      obtain ⟨e, he, hen⟩ := s1 hnt
      have := h.c e he
      rw [hen] at this
      simp [rep, this]
    | false => simp [rep]
  refine ⟨⟨h.a, ?_, ?_, ?_⟩, hin⟩
  · intro x hx
    rcases h.b x hx with h1 | h1 | h1
    · exact Or.inl (by simp [h1])
    · exact Or.inr (Or.inl h1)
    · exact Or.inr (Or.inr h1)
  · intro e he
    rcases s2 e he with h1 | ⟨_, h2⟩
    · have := h.c e h1; simp [this]
    · rw [h2]; exact hin
  · intro n hn
    simp only [List.mem_append] at hn
    rcases hn with hn | hn
    · exact h.d n hn
    · simp only [rep] at hn
      split at hn
      · simp at hn
      · simp only [List.mem_singleton] at hn
        subst hn
        exact List.mem_map.mpr ⟨t, ht, rfl⟩

/-- transition "open": a reported top link is replaced by its items -/
theorem open_pres {Mine : List T} {Other : List Name} {p : Bool} {t : T} {rest : List Item} {memo : Memo}
    {R : List Name} (h : SInv nameOf Mine Other (Item.link p t :: rest) memo R) (hr : nameOf t ∈ R) :
    SInv nameOf Mine Other (items t ++ rest) memo R := by
  refine ⟨?_, ?_, h.c, h.d⟩
  · intro x hx
    simp only [pend_append, pend_items, List.mem_append] at hx
    apply h.a
    simp only [pend, List.mem_cons, List.mem_append]
    rcases hx with hx | hx
    · exact Or.inl (Or.inr hx)
    · exact Or.inr hx
  · intro x hx
    rcases h.b x hx with h1 | h1 | h1
    · exact Or.inl h1
    · simp only [pend, List.mem_cons, List.mem_append] at h1
      rcases h1 with (rfl | h1) | h1
      · exact Or.inl hr
      · exact Or.inr (Or.inl (by simp [h1]))
      · exact Or.inr (Or.inl (by simp [h1]))
    · exact Or.inr (Or.inr h1)

/-- transition "pop an entry" -/
theorem popy_pres {Mine : List T} {Other : List Name} {k v : Nat} {rest : List Item} {memo : Memo}
    {R : List Name} (h : SInv nameOf Mine Other (Item.yld k v :: rest) memo R) :
    SInv nameOf Mine Other rest memo R :=
  ⟨by simpa [pend] using h.a, by simpa [pend] using h.b, h.c, h.d⟩

/-- transition "drop": the top link and everything below it is known to the other version -/
theorem drop_pres {Mine : List T} {Other : List Name} {p : Bool} {t : T} {rest : List Item} {memo : Memo}
    {R : List Name} (h : SInv nameOf Mine Other (Item.link p t :: rest) memo R)
    (ho : ∀ x ∈ t :: nodesBelow t, nameOf x ∈ Other) : SInv nameOf Mine Other rest memo R := by
  refine ⟨?_, ?_, h.c, h.d⟩
  · intro x hx; apply h.a; simp [pend, hx]
  · intro x hx
    rcases h.b x hx with h1 | h1 | h1
    · exact Or.inl h1
    · simp only [pend, List.mem_cons, List.mem_append] at h1
      rcases h1 with (rfl | h1) | h1
      · exact Or.inr (Or.inr (ho _ (by simp)))
      · exact Or.inr (Or.inr (ho _ (by simp [h1])))
      · exact Or.inr (Or.inl h1)
    · exact Or.inr (Or.inr h1)

theorem items_last (q : Bool) (c : T) : items (last q c) = linkItem q c := rfl

/-- both sides at once -/
structure LInv (ON NN : List T) (s : St) (Ra Rr : List Name) : Prop where
  new : SInv nameOf NN (ON.map nameOf) s.new s.memoNew Ra
  old : SInv nameOf ON (NN.map nameOf) s.old s.memoOld Rr

/-- equal names ⇒ the same names below (collision-freeness; discharged for the real encoder in
    `Lemmas/Names.lean`) -/
def SameBelow : Prop :=
  ∀ a b : T, nameOf a = nameOf b → ∀ x ∈ nodesBelow b, ∃ y ∈ nodesBelow a, nameOf y = nameOf x

/-- a pair of side predicates closed under the four transitions of a side -/
structure Trans (Pn Po : List Item → Memo → List Name → Prop) : Prop where
  repN : ∀ {p t rest memo R}, Pn (Item.link p t :: rest) memo R →
    Pn (Item.link p t :: rest) (notified layer nameOf memo p t).2.1 (R ++ rep nameOf (notified layer nameOf memo p t).1 t) ∧
    nameOf t ∈ R ++ rep nameOf (notified layer nameOf memo p t).1 t
  repO : ∀ {p t rest memo R}, Po (Item.link p t :: rest) memo R →
    Po (Item.link p t :: rest) (notified layer nameOf memo p t).2.1 (R ++ rep nameOf (notified layer nameOf memo p t).1 t) ∧
    nameOf t ∈ R ++ rep nameOf (notified layer nameOf memo p t).1 t
  openN : ∀ {p t rest memo R}, Pn (Item.link p t :: rest) memo R → nameOf t ∈ R → Pn (items t ++ rest) memo R
  openO : ∀ {p t rest memo R}, Po (Item.link p t :: rest) memo R → nameOf t ∈ R → Po (items t ++ rest) memo R
  popN : ∀ {k v rest memo R}, Pn (Item.yld k v :: rest) memo R → Pn rest memo R
  popO : ∀ {k v rest memo R}, Po (Item.yld k v :: rest) memo R → Po rest memo R
  drop : ∀ {pa a os mo Rr pb b ns mn Ra}, Pn (Item.link pb b :: ns) mn Ra → Po (Item.link pa a :: os) mo Rr →
    nameOf a = nameOf b → Pn ns mn Ra ∧ Po os mo Rr

/-- **every branch of `diffOne` is a combination of side transitions** -/
theorem step_generic {Pn Po : List Item → Memo → List Name → Prop} (tr : Trans layer nameOf Pn Po)
    (s : St) (Ra Rr : List Name) (hn : Pn s.new s.memoNew Ra) (ho : Po s.old s.memoOld Rr)
    (o : Out) (hs : step layer nameOf s = some o) :
    Pn o.st.new o.st.memoNew (Ra ++ adds o.evs) ∧ Po o.st.old o.st.memoOld (Rr ++ rems o.evs) := by
  obtain ⟨old, new, mo, mn⟩ := s
  simp only at hn ho
  match old, new, hn, ho with
  | [], [], _, _ => simp [step] at hs
  | [], Item.link p t :: ns, hn, ho =>
    simp only [step, Option.some.injEq] at hs
    subst hs
    obtain ⟨r1, r2⟩ := tr.repN hn
    simp only [adds_ite_add, adds_ite_rem, rems_ite_add, rems_ite_rem, List.append_nil, rep] at r1 r2 ⊢
    exact ⟨tr.openN r1 r2, ho⟩
  | [], Item.yld k v :: ns, hn, ho =>
    simp only [step, Option.some.injEq] at hs
    subst hs
    simp only [adds, rems, List.append_nil]
    exact ⟨tr.popN hn, ho⟩
  | Item.link p t :: os, [], hn, ho =>
    simp only [step, Option.some.injEq] at hs
    subst hs
    obtain ⟨r1, r2⟩ := tr.repO ho
    simp only [adds_ite_add, adds_ite_rem, rems_ite_add, rems_ite_rem, List.append_nil, rep] at r1 r2 ⊢
    exact ⟨hn, tr.openO r1 r2⟩
  | Item.yld k v :: os, [], hn, ho =>
    simp only [step, Option.some.injEq] at hs
    subst hs
    simp only [adds, rems, List.append_nil]
    exact ⟨hn, tr.popO ho⟩
  | Item.link pa a :: os, Item.yld k v :: ns, hn, ho =>
    simp only [step, Option.some.injEq] at hs
    subst hs
    obtain ⟨r1, r2⟩ := tr.repO ho
    simp only [adds_ite_add, adds_ite_rem, rems_ite_add, rems_ite_rem, List.append_nil, rep] at r1 r2 ⊢
    exact ⟨hn, tr.openO r1 r2⟩
  | Item.yld k v :: os, Item.link pb b :: ns, hn, ho =>
    simp only [step, Option.some.injEq] at hs
    subst hs
    obtain ⟨r1, r2⟩ := tr.repN hn
    simp only [adds_ite_add, adds_ite_rem, rems_ite_add, rems_ite_rem, List.append_nil, rep] at r1 r2 ⊢
    exact ⟨tr.openN r1 r2, ho⟩
  | Item.yld k v :: os, Item.yld k' v' :: ns, hn, ho =>
    simp only [step] at hs
    by_cases h1 : k < k'
    · simp only [h1, if_true, Option.some.injEq] at hs
      subst hs
      simp only [adds, rems, List.append_nil]
      exact ⟨hn, tr.popO ho⟩
    · by_cases h2 : k = k'
      · subst h2
        simp only [h1, if_false, if_true, Option.some.injEq] at hs
        subst hs
        have e1 : adds (if v = v' then [] else [DEv.chg k v v']) = [] := by split <;> rfl
        have e2 : rems (if v = v' then [] else [DEv.chg k v v']) = [] := by split <;> rfl
        simp only [e1, e2, List.append_nil]
        exact ⟨tr.popN hn, tr.popO ho⟩
      · simp only [h1, h2, if_false, Option.some.injEq] at hs
        subst hs
        simp only [adds, rems, List.append_nil]
        exact ⟨tr.popN hn, ho⟩
  | Item.link pa a :: os, Item.link pb b :: ns, hn, ho =>
    simp only [step] at hs
    by_cases he : linkEq nameOf pa a pb b = true
    · simp only [he, if_true, Option.some.injEq] at hs
      subst hs
      have hnm : nameOf a = nameOf b := by
        simp only [linkEq, Bool.and_eq_true, beq_iff_eq] at he; exact he.2
      simp only [adds, rems, List.append_nil]
      exact tr.drop hn ho hnm
    · have he' : linkEq nameOf pa a pb b = false := by simpa using he
      simp only [he', Bool.false_eq_true, if_false] at hs
      obtain ⟨ro1, ro2⟩ := tr.repO ho
      obtain ⟨rn1, rn2⟩ := tr.repN hn
      simp only [rep] at ro1 ro2 rn1 rn2
      cases hpa : isPass a with
      | some qc =>
        obtain ⟨q, c⟩ := qc
        have ha := isPass_some hpa
        subst ha
        simp only [hpa, Option.some.injEq] at hs
        subst hs
        simp only [adds_both, rems_both]
        exact ⟨rn1, by simpa [items_last] using tr.openO ro1 ro2⟩
      | none =>
        simp only [hpa] at hs
        cases hpb : isPass b with
        | some qc =>
          obtain ⟨q, c⟩ := qc
          have hb := isPass_some hpb
          subst hb
          simp only [hpb, Option.some.injEq] at hs
          subst hs
          simp only [adds_both, rems_both]
          exact ⟨by simpa [items_last] using tr.openN rn1 rn2, ro1⟩
        | none =>
          simp only [hpb] at hs
          have both := And.intro (tr.openN rn1 rn2) (tr.openO ro1 ro2)
          have onlyOld := And.intro rn1 (tr.openO ro1 ro2)
          have onlyNew := And.intro (tr.openN rn1 rn2) ro1
          cases hfa : firstKey a with
          | none =>
            simp only [hfa, Option.some.injEq] at hs
            subst hs
            simp only [adds_both, rems_both]
            exact both
          | some ka =>
            cases hfb : firstKey b with
            | none =>
              simp only [hfa, hfb, Option.some.injEq] at hs
              subst hs
              simp only [adds_both, rems_both]
              exact both
            | some kb =>
              simp only [hfa, hfb] at hs
              by_cases h1 : ka < kb
              · simp only [h1, if_true, Option.some.injEq] at hs
                subst hs
                simp only [adds_both, rems_both]
                exact onlyOld
              · by_cases h2 : kb < ka
                · simp only [h1, h2, if_false, if_true, Option.some.injEq] at hs
                  subst hs
                  simp only [adds_both, rems_both]
                  exact onlyNew
                · simp only [h1, h2, if_false, Option.some.injEq] at hs
                  subst hs
                  simp only [adds_both, rems_both]
                  exact both


/-- the link invariant is closed under the side transitions -/
theorem sinv_trans (hsb : SameBelow nameOf) (ON NN : List T) :
    Trans layer nameOf (SInv nameOf NN (ON.map nameOf)) (SInv nameOf ON (NN.map nameOf)) where
  repN := fun h => report_pres layer nameOf h
  repO := fun h => report_pres layer nameOf h
  openN := fun h hr => open_pres nameOf h hr
  openO := fun h hr => open_pres nameOf h hr
  popN := fun h => popy_pres nameOf h
  popO := fun h => popy_pres nameOf h
  drop := by
    intro pa a os mo Rr pb b ns mn Ra hn ho hnm
    constructor
    · apply drop_pres nameOf hn
      intro x hx
      simp only [List.mem_cons] at hx
      rcases hx with rfl | hx
      · rw [← hnm]; exact List.mem_map.mpr ⟨a, ho.a a (by simp [pend]), rfl⟩
      · obtain ⟨y, hy, hyn⟩ := hsb a b hnm x hx
        rw [← hyn]
        exact List.mem_map.mpr ⟨y, ho.a y (by simp [pend, hy]), rfl⟩
    · apply drop_pres nameOf ho
      intro x hx
      simp only [List.mem_cons] at hx
      rcases hx with rfl | hx
      · rw [hnm]; exact List.mem_map.mpr ⟨b, hn.a b (by simp [pend]), rfl⟩
      · obtain ⟨y, hy, hyn⟩ := hsb b a hnm.symm x hx
        rw [← hyn]
        exact List.mem_map.mpr ⟨y, hn.a y (by simp [pend, hy]), rfl⟩

/-- **one `diffOne` call preserves the link invariant**, with the reports it makes appended -/
theorem step_links (hsb : SameBelow nameOf) (ON NN : List T) (s : St) (Ra Rr : List Name)
    (h : LInv nameOf ON NN s Ra Rr) (o : Out) (hs : step layer nameOf s = some o) :
    LInv nameOf ON NN o.st (Ra ++ adds o.evs) (Rr ++ rems o.evs) := by
  obtain ⟨h1, h2⟩ := step_generic layer nameOf (sinv_trans layer nameOf hsb ON NN) s Ra Rr h.new h.old o hs
  exact ⟨h1, h2⟩

end Diff
end Mast

namespace Mast
namespace Diff
open T
variable (layer : Nat → Nat) (nameOf : T → Name)

theorem step_none (s : St) (h : step layer nameOf s = none) : s.old = [] ∧ s.new = [] := by
  obtain ⟨old, new, mo, mn⟩ := s
  match old, new with
  | [], [] => exact ⟨rfl, rfl⟩
  | [], Item.link p t :: ns => simp [step] at h
  | [], Item.yld k v :: ns => simp [step] at h
  | Item.link p t :: os, [] => simp [step] at h
  | Item.yld k v :: os, [] => simp [step] at h
  | Item.link pa a :: os, Item.yld k v :: ns => simp [step] at h
  | Item.yld k v :: os, Item.link pb b :: ns => simp [step] at h
  | Item.yld k v :: os, Item.yld k' v' :: ns =>
    simp only [step] at h
    split at h
    · simp at h
    · split at h <;> simp at h
  | Item.link pa a :: os, Item.link pb b :: ns =>
    simp only [step] at h
    split at h
    · simp at h
    · split at h
      · simp at h
      · split at h
        · simp at h
        · split at h
          · split at h
            · simp at h
            · split at h <;> simp at h
          · simp at h

/-- what holds of the reports when the traversal has ended -/
structure Final (ON NN : List T) (Ra Rr : List Name) : Prop where
  complete_added : ∀ x ∈ NN, nameOf x ∈ Ra ∨ nameOf x ∈ ON.map nameOf
  complete_removed : ∀ x ∈ ON, nameOf x ∈ Rr ∨ nameOf x ∈ NN.map nameOf
  within_added : ∀ n ∈ Ra, n ∈ NN.map nameOf
  within_removed : ∀ n ∈ Rr, n ∈ ON.map nameOf

theorem run_links (hle : ∀ a b, nameOf a = nameOf b → toList a = toList b) (hsb : SameBelow nameOf)
    (ON NN : List T) : ∀ (f : Nat) (s : St) (Ra Rr : List Name), LInv nameOf ON NN s Ra Rr →
    Sorted (flat s.old) → Sorted (flat s.new) → mu s.old + mu s.new < f →
    Final nameOf ON NN (Ra ++ adds (run layer nameOf f s).1) (Rr ++ rems (run layer nameOf f s).1) := by
  intro f
  induction f with
  | zero => intro _ _ _ _ _ _ h; omega
  | succ f ih =>
    intro s Ra Rr hi ho hn hf
    have hs := step_ok layer nameOf hle s ho hn
    simp only [run]
    cases hst : step layer nameOf s with
    | none =>
      obtain ⟨e1, e2⟩ := step_none layer nameOf s hst
      simp only [adds, rems, List.append_nil]
      refine ⟨?_, ?_, hi.new.d, hi.old.d⟩
      · intro x hx
        rcases hi.new.b x hx with h | h | h
        · exact Or.inl h
        · rw [e2] at h; simp [pend] at h
        · exact Or.inr h
      · intro x hx
        rcases hi.old.b x hx with h | h | h
        · exact Or.inl h
        · rw [e1] at h; simp [pend] at h
        · exact Or.inr h
    | some o =>
      rw [hst] at hs; simp only [StepOK] at hs
      obtain ⟨_, h2, h3, h4⟩ := hs
      have := ih o.st _ _ (step_links layer nameOf hsb ON NN s Ra Rr hi o hst) h3 h4 (by omega)
      simpa [adds_append, rems_append, List.append_assoc] using this

/-- the nodes of a version: the top node and everything below (none for an empty tree) -/
def versionNodes (p : Bool) (t : T) : List T := pend (rootItems p t)

/-- the nodes of the old version (none when diffing against nothing) -/
def oldNodes : Option (Bool × T) → List T
  | none => []
  | some (p, t) => versionNodes p t

theorem init_links (oldRoot : Option (Bool × T)) (newP : Bool) (newRoot : T) :
    LInv nameOf (oldNodes oldRoot) (versionNodes newP newRoot)
      (init oldRoot newP newRoot) [] [] := by
  constructor
  · refine ⟨?_, ?_, by simp [init], by simp⟩
    · intro x hx; simpa [init, versionNodes] using hx
    · intro x hx; exact Or.inr (Or.inl (by simpa [init, versionNodes] using hx))
  · refine ⟨?_, ?_, by simp [init], by simp⟩
    · intro x hx
      cases oldRoot with
      | none => simp [init, pend] at hx
      | some pt => obtain ⟨p, t⟩ := pt; simpa [init, versionNodes, oldNodes] using hx
    · intro x hx
      cases oldRoot with
      | none => simp [oldNodes] at hx
      | some pt => obtain ⟨p, t⟩ := pt; exact Or.inr (Or.inl (by simpa [init, versionNodes, oldNodes] using hx))

end Diff
end Mast
