import Mastverif.Lemmas.PtrTop
/-! A system of trees over one heap, store and node cache: every history keeps the invariant,
    never fails a guard, and leaves every tree it does not operate on exactly as it was. -/
namespace Mast.Ptr
open Mast.Heap

structure SysInv (σ : Sys) : Prop where
  closed : ∀ v, v ≠ 0 → Closed σ.ps.heap v
  du : DirtyUnshared σ.ps.heap
  flat : StoreFlat σ.ps.store
  cache : CacheOK σ.ps
  trees : ∀ t ∈ σ.trees, t.id ≠ 0 ∧ t.id < σ.nextId ∧ Vis σ.ps.heap t.id t.root
  distinct : (σ.trees.map (·.id)).Nodup
  idpos : σ.nextId ≠ 0

theorem SysInv.inv {σ : Sys} (h : SysInv σ) {m : Nat} (hm : m ≠ 0) : Inv m σ.ps :=
  ⟨h.closed m hm, h.du, h.flat, h.cache, hm⟩

theorem SysInv.init : SysInv {} := by
  refine ⟨?_, ?_, ?_, ?_, ?_, ?_, by simp⟩
  · intro v _ a nd hnd; simp at hnd
  · intro a nd hnd; simp at hnd
  · intro sn hsn; simp at hsn
  · intro n a hna; simp at hna
  · intro t ht; simp at ht
  · simp

/-- what tree `t` (not the actor) observes is untouched -/
theorem frame_tree {σ : Sys} (h : SysInv σ) {m lvl : Nat} {s' : PS} (e : Ext m lvl σ.ps s')
    {t : PTree} (ht : t ∈ σ.trees) (hne : t.id ≠ m) :
    Vis s'.heap t.id t.root ∧ ∀ f, contents s'.heap f t.root = contents σ.ps.heap f t.root := by
  obtain ⟨h0, _, hv⟩ := h.trees t ht
  obtain ⟨ag, _⟩ := e.others t.id hne h0 (h.closed t.id h0)
  exact ⟨vis_mono ag hv, fun f => frame _ _ t.id (h.closed t.id h0) ag f t.root hv⟩

/-- the invariant after an operation performed by / for `m` -/
theorem SysInv.after {σ : Sys} (h : SysInv σ) {m lvl : Nat} {s' : PS} (hi : Inv m s') (e : Ext m lvl σ.ps s')
    (trees' : List PTree) (nid : Nat)
    (ht : ∀ t ∈ trees', t.id ≠ 0 ∧ t.id < nid ∧ ((t ∈ σ.trees ∧ t.id ≠ m) ∨ Vis s'.heap t.id t.root))
    (hd : (trees'.map (·.id)).Nodup) (hnid : nid ≠ 0) : SysInv { ps := s', trees := trees', nextId := nid } := by
  refine ⟨?_, hi.du, hi.flat, hi.cache, ?_, hd, hnid⟩
  · intro v hv
    by_cases hvm : v = m
    · subst hvm; exact hi.closed
    · exact (e.others v hvm hv (h.closed v hv)).2
  · intro t htm
    obtain ⟨h0, h1, h2⟩ := ht t htm
    refine ⟨h0, h1, ?_⟩
    rcases h2 with ⟨hold, hne⟩ | hv
    · exact (frame_tree h e hold hne).1
    · exact hv

theorem map_id_set {l : List PTree} {i : Nat} {t t' : PTree} (hi : l[i]? = some t) (hid : t'.id = t.id) :
    (l.set i t').map (·.id) = l.map (·.id) := by
  rw [List.map_set]
  apply List.ext_getElem?
  intro j
  by_cases hji : j = i
  · subst hji
    have hlt : j < (l.map (·.id)).length := by
      have := (List.getElem?_eq_some_iff.mp hi).1; simpa using this
    rw [List.getElem?_set_self hlt, List.getElem?_map, hi]; simp [hid]
  · rw [List.getElem?_set_ne (Ne.symm hji)]

theorem mem_set_cases {l : List PTree} {i : Nat} {t' x : PTree} (hx : x ∈ l.set i t') : x = t' ∨ x ∈ l := by
  rcases List.mem_or_eq_of_mem_set hx with h | h
  · exact Or.inr h
  · exact Or.inl h

theorem ne_id_of_nodup {l : List PTree} (hd : (l.map (·.id)).Nodup) {i j : Nat} {t x : PTree}
    (hi : l[i]? = some t) (hj : l[j]? = some x) (hne : j ≠ i) : x.id ≠ t.id := by
  intro heq
  have h1 : (l.map (·.id))[i]? = some t.id := by rw [List.getElem?_map, hi]; rfl
  have h2 : (l.map (·.id))[j]? = some t.id := by rw [List.getElem?_map, hj]; simp [heq]
  have hj' := (List.getElem?_eq_some_iff.mp h2).1
  exact hne ((List.getElem?_inj hj' hd).mp (by rw [h1, h2]))

/-- the update of tree `i` by an operation it performed itself -/
theorem sys_update {σ : Sys} (h : SysInv σ) {i lvl : Nat} {t : PTree} (hi : σ.trees[i]? = some t)
    {r : PS × PTree × Outcome} (hok : OpOK t.id lvl σ.ps r) :
    SysInv { σ with ps := r.1, trees := σ.trees.set i r.2.1 } ∧
    ∀ j x, σ.trees[j]? = some x → j ≠ i →
      (σ.trees.set i r.2.1)[j]? = some x ∧ ∀ f, contents r.1.heap f x.root = contents σ.ps.heap f x.root := by
  have htm : t ∈ σ.trees := List.mem_of_getElem? hi
  obtain ⟨h0, h1, _⟩ := h.trees t htm
  refine ⟨?_, ?_⟩
  · apply h.after hok.inv hok.ext
    · intro x hx
      rcases mem_set_cases hx with rfl | hx
      · exact ⟨by rw [hok.id]; exact h0, by rw [hok.id]; exact h1, Or.inr (by rw [hok.id]; exact hok.root)⟩
      · obtain ⟨a0, a1, a2⟩ := h.trees x hx
        by_cases hxm : x.id = t.id
        · -- same id ⇒ same position ⇒ x = t: use the visibility the operation re-established
          obtain ⟨j, hj⟩ := List.getElem?_of_mem hx
          by_cases hji : j = i
          · subst hji; rw [hi] at hj; injection hj with hj; subst hj
            exact ⟨a0, a1, Or.inr (hok.ext.vis _ a2)⟩
          · exact absurd hxm (ne_id_of_nodup h.distinct hi hj hji)
        · exact ⟨a0, a1, Or.inl ⟨hx, hxm⟩⟩
    · rw [map_id_set hi hok.id]; exact h.distinct
    · exact h.idpos
  · intro j x hj hji
    refine ⟨by rw [List.getElem?_set_ne (Ne.symm hji)]; exact hj, ?_⟩
    exact (frame_tree h hok.ext (List.mem_of_getElem? hj) (ne_id_of_nodup h.distinct hi hj hji)).2

theorem allocOnly_eq_append {h h' : Heap} (ha : AllocOnly h h') : ∃ ext, h' = h ++ ext := by
  refine ⟨h'.drop h.length, ?_⟩
  apply List.ext_getElem?
  intro i
  by_cases hlt : i < h.length
  · rw [List.getElem?_append_left hlt]
    have : h[i]? = some h[i] := List.getElem?_eq_getElem hlt
    rw [ha i _ this, this]
  · have hge : h.length ≤ i := by omega
    rw [List.getElem?_append_right hge, List.getElem?_drop]
    congr 1; omega

theorem contents_allocOnly {h h' : Heap} (ha : AllocOnly h h') (f : Nat) (l : HLink) (c : List Tok)
    (hc : contents h f l = some c) : contents h' f l = some c := by
  obtain ⟨ext, rfl⟩ := allocOnly_eq_append ha
  exact contents_append h ext f l c hc

theorem runM_ok {α : Type} {m lvl : Nat} {P : PS → Prop} {x : M α} {Q : α → PS → Prop}
    (hx : Sat m lvl P x Q) {s : PS} (hinv : Inv m s) (hP : P s) :
    (runM x s).2.2 ≠ .stuck ∧ Inv m (runM x s).2.1 ∧ Ext m lvl s (runM x s).2.1 ∧
      ∀ a, (runM x s).1 = some a → Q a (runM x s).2.1 := by
  obtain ⟨hok, herr, hst⟩ := hx.run hinv hP
  unfold runM
  cases hxs : x s with
  | ok a s' =>
    obtain ⟨e, i, q⟩ := hok a s' hxs
    exact ⟨by simp, i, e, fun b hb => by simp at hb; subst hb; exact q⟩
  | err s' =>
    obtain ⟨e, i⟩ := herr s' hxs
    exact ⟨by simp, i, e, fun b hb => by simp at hb⟩
  | panic => exact ⟨by simp, hinv, Ext.refl _ _ _, fun b hb => by simp at hb⟩
  | stuck => exact absurd hxs hst
  | oof => exact ⟨by simp, hinv, Ext.refl _ _ _, fun b hb => by simp at hb⟩

/-- the tree an operation may change -/
def Op.target : Op → Option Nat
  | .ins i _ _ => some i
  | .del i _ _ => some i
  | .flush i => some i
  | _ => none

/-- tree `j` of `σ` is still there in `σ'`, with the same record and the same contents -/
def Untouched (σ σ' : Sys) (j : Nat) : Prop :=
  ∀ x, σ.trees[j]? = some x →
    σ'.trees[j]? = some x ∧ ∀ f c, contents σ.ps.heap f x.root = some c → contents σ'.ps.heap f x.root = some c

theorem untouched_refl (σ : Sys) (j : Nat) : Untouched σ σ j := fun _ hx => ⟨hx, fun _ _ h => h⟩

theorem getElem?_append_some {l : List PTree} {j : Nat} {x y : PTree} (h : l[j]? = some x) : (l ++ [y])[j]? = some x := by
  have hlt : j < l.length := (List.getElem?_eq_some_iff.mp h).1
  rw [List.getElem?_append_left hlt]; exact h

/-- a new tree `t'` with the fresh id joins the system -/
theorem sys_add {σ : Sys} (h : SysInv σ) {lvl : Nat} {s' : PS} (hi : Inv σ.nextId s') (e : Ext σ.nextId lvl σ.ps s')
    (t' : Option PTree) (ht : ∀ x, t' = some x → Vis s'.heap σ.nextId x.root ∧ x.id = σ.nextId) :
    SysInv { ps := s', nextId := σ.nextId + 1, trees := addTree σ.trees t' } ∧
    ∀ j, Untouched σ { ps := s', nextId := σ.nextId + 1, trees := addTree σ.trees t' } j := by
  have hfresh : ∀ x ∈ σ.trees, x.id ≠ σ.nextId := fun x hx => by have := (h.trees x hx).2.1; omega
  have hnz : σ.nextId ≠ 0 := hi.mpos
  refine ⟨?_, ?_⟩
  · apply h.after hi e
    · intro x hx
      cases t' with
      | none =>
        obtain ⟨a0, a1, _⟩ := h.trees x hx
        exact ⟨a0, by omega, Or.inl ⟨hx, hfresh x hx⟩⟩
      | some y =>
        rcases List.mem_append.mp hx with hx | hx
        · obtain ⟨a0, a1, _⟩ := h.trees x hx
          exact ⟨a0, by omega, Or.inl ⟨hx, hfresh x hx⟩⟩
        · simp at hx; subst hx
          obtain ⟨hv, hid⟩ := ht x rfl
          exact ⟨by rw [hid]; exact hnz, by rw [hid]; omega, Or.inr (by rw [hid]; exact hv)⟩
    · cases t' with
      | none => exact h.distinct
      | some y =>
        obtain ⟨_, hid⟩ := ht y rfl
        show (List.map (fun x => x.id) (σ.trees ++ [y])).Nodup
        rw [List.map_append, List.nodup_append]
        refine ⟨h.distinct, by simp, ?_⟩
        intro a ha b hb
        simp at hb; subst hb
        obtain ⟨x, hx, rfl⟩ := List.mem_map.mp ha
        rw [hid]; exact hfresh x hx
    · omega
  · intro j x hj
    have hxm : x ∈ σ.trees := List.mem_of_getElem? hj
    refine ⟨?_, ?_⟩
    · cases t' with
      | none => exact hj
      | some y => exact getElem?_append_some hj
    · intro f c hc
      rw [(frame_tree h e hxm (hfresh x hxm)).2 f]; exact hc

/-- **one call**: never stuck, the invariant is kept, every tree other than the target is untouched -/
theorem Sys.apply_ok (E : Env) (fuel : Nat) (σ : Sys) (op : Op) (h : SysInv σ) :
    (σ.apply E fuel op).2 ≠ .stuck ∧ SysInv (σ.apply E fuel op).1 ∧
      (∀ j, some j ≠ op.target → Untouched σ (σ.apply E fuel op).1 j) ∧
      ∃ ext, (σ.apply E fuel op).1.ps.store = σ.ps.store ++ ext := by
  cases op with
  | ins i k v =>
    simp only [Sys.apply]
    cases hi : σ.trees[i]? with
    | none => exact ⟨by simp, h, fun j _ => untouched_refl σ j, ⟨[], by simp⟩⟩
    | some t =>
      have htm := List.mem_of_getElem? hi
      obtain ⟨h0, _, hv⟩ := h.trees t htm
      have hok := insert_ok E fuel σ.ps t k v (h.inv h0) hv
      obtain ⟨hs, hu⟩ := sys_update h hi hok
      refine ⟨hok.notStuck, hs, ?_, hok.ext.stp⟩
      intro j hj x hx
      have hji : j ≠ i := fun e => hj (by simp [Op.target, e])
      obtain ⟨h1, h2⟩ := hu j x hx hji
      exact ⟨h1, fun f c hc => by rw [h2 f]; exact hc⟩
  | del i k v =>
    simp only [Sys.apply]
    cases hi : σ.trees[i]? with
    | none => exact ⟨by simp, h, fun j _ => untouched_refl σ j, ⟨[], by simp⟩⟩
    | some t =>
      have htm := List.mem_of_getElem? hi
      obtain ⟨h0, _, hv⟩ := h.trees t htm
      have hok := delete_ok E fuel σ.ps t k v (h.inv h0) hv
      obtain ⟨hs, hu⟩ := sys_update h hi hok
      refine ⟨hok.notStuck, hs, ?_, hok.ext.stp⟩
      intro j hj x hx
      have hji : j ≠ i := fun e => hj (by simp [Op.target, e])
      obtain ⟨h1, h2⟩ := hu j x hx hji
      exact ⟨h1, fun f c hc => by rw [h2 f]; exact hc⟩
  | get i k =>
    simp only [Sys.apply]
    cases hi : σ.trees[i]? with
    | none => exact ⟨by simp, h, fun j _ => untouched_refl σ j, ⟨[], by simp⟩⟩
    | some t =>
      have htm := List.mem_of_getElem? hi
      obtain ⟨h0, _, hv⟩ := h.trees t htm
      obtain ⟨hns, hinv', hext, _⟩ := runM_ok (get_sat (lvl := 2) E t fuel k) (h.inv h0) hv
      refine ⟨hns, ?_, ?_, hext.stp⟩
      · apply h.after hinv' hext
        · intro x hx
          obtain ⟨a0, a1, a2⟩ := h.trees x hx
          exact ⟨a0, a1, Or.inr (vis_of_allocOnly (hext.pre (Nat.le_refl _)) a2)⟩
        · exact h.distinct
        · exact h.idpos
      · intro j _ x hx
        exact ⟨hx, fun f c hc => contents_allocOnly (hext.pre (Nat.le_refl _)) f _ c hc⟩
  | iter i =>
    simp only [Sys.apply]
    cases hi : σ.trees[i]? with
    | none => exact ⟨by simp, h, fun j _ => untouched_refl σ j, ⟨[], by simp⟩⟩
    | some t =>
      have htm := List.mem_of_getElem? hi
      obtain ⟨h0, _, hv⟩ := h.trees t htm
      obtain ⟨hns, hinv', hext, _⟩ := runM_ok (iterAll_sat (m := t.id) (lvl := 2) E fuel t.root) (h.inv h0) hv
      refine ⟨hns, ?_, ?_, hext.stp⟩
      · apply h.after hinv' hext
        · intro x hx
          obtain ⟨a0, a1, a2⟩ := h.trees x hx
          exact ⟨a0, a1, Or.inr (vis_of_allocOnly (hext.pre (Nat.le_refl _)) a2)⟩
        · exact h.distinct
        · exact h.idpos
      · intro j _ x hx
        exact ⟨hx, fun f c hc => contents_allocOnly (hext.pre (Nat.le_refl _)) f _ c hc⟩
  | flush i =>
    simp only [Sys.apply]
    cases hi : σ.trees[i]? with
    | none => exact ⟨by simp, h, fun j _ => untouched_refl σ j, ⟨[], by simp⟩⟩
    | some t =>
      have htm := List.mem_of_getElem? hi
      obtain ⟨h0, _, hv⟩ := h.trees t htm
      obtain ⟨hns, hinv', hext, hq⟩ := runM_ok (flush_sat E t fuel) (h.inv h0) hv
      dsimp only
      cases hr : (runM (flush E t fuel) σ.ps).1 with
      | none =>
        refine ⟨hns, ?_, ?_, hext.stp⟩
        · apply h.after hinv' hext
          · intro x hx
            obtain ⟨a0, a1, a2⟩ := h.trees x hx
            by_cases hxm : x.id = t.id
            · exact ⟨a0, a1, Or.inr (by rw [hxm]; rw [hxm] at a2; exact hext.vis _ a2)⟩
            · exact ⟨a0, a1, Or.inl ⟨hx, hxm⟩⟩
          · exact h.distinct
          · exact h.idpos
        · intro j hj x hx
          have hji : j ≠ i := fun e => hj (by simp [Op.target, e])
          refine ⟨hx, fun f c hc => ?_⟩
          rw [(frame_tree h hext (List.mem_of_getElem? hx) (ne_id_of_nodup h.distinct hi hx hji)).2 f]; exact hc
      | some y =>
        obtain ⟨hv', hid⟩ := hq y hr
        have hok : OpOK t.id 0 σ.ps ((runM (flush E t fuel) σ.ps).2.1, y.1, (runM (flush E t fuel) σ.ps).2.2) :=
          ⟨hns, hinv', hext, hv', hid⟩
        obtain ⟨hs, hu⟩ := sys_update h hi hok
        refine ⟨hns, hs, ?_, hext.stp⟩
        intro j hj x hx
        have hji : j ≠ i := fun e => hj (by simp [Op.target, e])
        obtain ⟨h1, h2⟩ := hu j x hx hji
        exact ⟨h1, fun f c hc => by rw [h2 f]; exact hc⟩
  | clone i =>
    simp only [Sys.apply]
    cases hi : σ.trees[i]? with
    | none => exact ⟨by simp, h, fun j _ => untouched_refl σ j, ⟨[], by simp⟩⟩
    | some t =>
      have htm := List.mem_of_getElem? hi
      obtain ⟨h0, h1, hv⟩ := h.trees t htm
      have hnz : σ.nextId ≠ 0 := by omega
      obtain ⟨hns, hinv', hext, hq⟩ := runM_ok (clone_sat (lvl := 1) E t σ.nextId fuel (by omega) h0) (h.inv hnz)
        ⟨h.closed t.id h0, fun l hl => by simp at hl; subst hl; exact hv⟩
      obtain ⟨hs, hu⟩ := sys_add h hinv' hext (runM (clone E t σ.nextId fuel) σ.ps).1 hq
      exact ⟨hns, hs, fun j _ => hu j, hext.stp⟩
  | load link size height bf =>
    simp only [Sys.apply]
    have hnz : σ.nextId ≠ 0 := h.idpos
    obtain ⟨hns, hinv', hext, hq⟩ := runM_ok (loadMast_sat (lvl := 1) E σ.nextId link size height bf) (h.inv hnz) trivial
    obtain ⟨hs, hu⟩ := sys_add h hinv' hext (runM (loadMast E σ.nextId link size height bf) σ.ps).1 hq
    exact ⟨hns, hs, fun j _ => hu j, hext.stp⟩

theorem Untouched.trans {σ1 σ2 σ3 : Sys} {j : Nat} (a : Untouched σ1 σ2 j) (b : Untouched σ2 σ3 j) : Untouched σ1 σ3 j := by
  intro x hx
  obtain ⟨h1, c1⟩ := a x hx
  obtain ⟨h2, c2⟩ := b x h1
  exact ⟨h2, fun f c hc => c2 f c (c1 f c hc)⟩

/-- **every history** -/
theorem Sys.run_ok (E : Env) (fuel : Nat) : ∀ (ops : List Op) (σ : Sys), SysInv σ →
    (Sys.run E fuel σ ops).2 ≠ .stuck ∧ SysInv (Sys.run E fuel σ ops).1 ∧
      (∀ j, (∀ op ∈ ops, some j ≠ op.target) → Untouched σ (Sys.run E fuel σ ops).1 j) ∧
      ∃ ext, (Sys.run E fuel σ ops).1.ps.store = σ.ps.store ++ ext := by
  intro ops
  induction ops with
  | nil => intro σ h; exact ⟨by simp [Sys.run], h, fun j _ => untouched_refl σ j, ⟨[], by simp [Sys.run]⟩⟩
  | cons op ops ih =>
    intro σ h
    obtain ⟨hns, hinv', hun, hst⟩ := Sys.apply_ok E fuel σ op h
    simp only [Sys.run]
    cases hr : σ.apply E fuel op with
    | mk σ' o =>
      rw [hr] at hns hinv' hun hst
      obtain ⟨x1, hx1⟩ := hst
      have hrest := ih σ' hinv'
      cases o with
      | ok =>
        obtain ⟨x2, hx2⟩ := hrest.2.2.2
        refine ⟨hrest.1, hrest.2.1, fun j hj => ?_, ⟨x1 ++ x2, by rw [hx2, hx1, List.append_assoc]⟩⟩
        exact (hun j (hj op (by simp))).trans (hrest.2.2.1 j (fun o ho => hj o (by simp [ho])))
      | err =>
        obtain ⟨x2, hx2⟩ := hrest.2.2.2
        refine ⟨hrest.1, hrest.2.1, fun j hj => ?_, ⟨x1 ++ x2, by rw [hx2, hx1, List.append_assoc]⟩⟩
        exact (hun j (hj op (by simp))).trans (hrest.2.2.1 j (fun o ho => hj o (by simp [ho])))
      | panic => exact ⟨by simp, hinv', fun j hj => hun j (hj op (by simp)), ⟨x1, hx1⟩⟩
      | stuck => exact absurd rfl hns
      | oof => exact ⟨by simp, hinv', fun j hj => hun j (hj op (by simp)), ⟨x1, hx1⟩⟩

end Mast.Ptr
