import Mastverif.Lemmas.RefSrc
/-! `SourceOK` is preserved by `Get`, `Iter`, `Clone`, `LoadMast`. -/
namespace Mast.Ptr
open Mast.Heap

theorem get_src (E : Env) (t : PTree) (fuel key : Nat) : SrcP (get E t fuel key) := by
  unfold get
  split
  · exact SrcP.pure _
  · refine SrcP.bind (load_src E _) (fun a => SrcP.bind (layerM_src E key) (fun lay => ?_))
    dsimp only
    refine SrcP.bind (findNode_src E _ _ _ _ _ _ _ _) (fun fd => SrcP.bind (read_src _) (fun nd => ?_))
    split
    · exact SrcP.pure _
    · split
      · exact SrcP.pure _
      · exact SrcP.pure _

theorem iterLinks_src (g : HLink → M Unit) (hg : ∀ l, SrcP (g l)) : ∀ ls, SrcP (iterLinks g ls) := by
  intro ls
  induction ls with
  | nil => unfold iterLinks; exact SrcP.pure _
  | cons l ls ih =>
    cases l with
    | nil => unfold iterLinks; exact ih
    | ptr c => unfold iterLinks; exact SrcP.bind (hg _) (fun _ => ih)
    | ref n => unfold iterLinks; exact SrcP.bind (hg _) (fun _ => ih)

theorem iterAll_src (E : Env) : ∀ (f : Nat) (l : HLink), SrcP (iterAll E f l) := by
  intro f
  induction f with
  | zero => intro l; exact SrcP.oof
  | succ f ih =>
    intro l
    unfold iterAll
    exact SrcP.bind (load_src E l) (fun a => SrcP.bind (read_src a) (fun nd => iterLinks_src _ ih nd.links))

theorem mapLinks_src (g : Nat → M Nat) (hg : ∀ c, SrcP (g c)) : ∀ ls, SrcP (mapLinks g ls) := by
  intro ls
  induction ls with
  | nil => unfold mapLinks; exact SrcP.pure _
  | cons l ls ih =>
    cases l with
    | nil => unfold mapLinks; exact SrcP.bind ih (fun _ => SrcP.pure _)
    | ref n => unfold mapLinks; exact SrcP.bind ih (fun _ => SrcP.pure _)
    | ptr c =>
      unfold mapLinks
      refine SrcP.bind (read_src c) (fun cn => SrcP.bind ?_ (fun l' => SrcP.bind ih (fun _ => SrcP.pure _)))
      split
      · exact SrcP.pure _
      · exact SrcP.bind (hg c) (fun _ => SrcP.pure _)

theorem toShared_src (newId : Nat) : ∀ (f a : Nat), SrcP (toShared newId f a) := by
  intro f
  induction f with
  | zero => intro a; exact SrcP.oof
  | succ f ih =>
    intro a
    unfold toShared
    refine SrcP.bind (read_src a) (fun nd => ?_)
    by_cases hsh : nd.shared = true
    · rw [if_pos hsh]; exact SrcP.pure _
    · rw [if_neg hsh]
      exact SrcP.bind (mapLinks_src _ ih nd.links) (fun links' => alloc_src _ (by simpa using hsh) rfl)

theorem clone_src (E : Env) (t : PTree) (newId fuel : Nat) : SrcP (clone E t newId fuel) := by
  unfold clone
  split
  · exact SrcP.pure _
  · exact SrcP.bind (load_src E _) (fun a => SrcP.bind (toShared_src newId fuel a) (fun _ => SrcP.pure _))

theorem loadMast_src (E : Env) (id link size height bf : Nat) : SrcP (loadMast E id link size height bf) := by
  unfold loadMast
  refine SrcP.bind ?_ (fun root => SrcP.pure _)
  split
  · exact SrcP.bind (emptyNode_src id) (fun _ => SrcP.pure _)
  · exact SrcP.bind (loadRef_src E link) (fun _ => SrcP.pure _)

end Mast.Ptr
