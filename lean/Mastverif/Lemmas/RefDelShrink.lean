import Mastverif.Lemmas.RefDelShrinkRows
import Mastverif.Lemmas.RefGrow
/-! `shrink` refines `T.shrink`; `topEntryless` refines `Tree.topEntryless`. -/
namespace Mast.Ptr
open Mast.Heap

/-- what the loop of `shrink` does with one link: the child's entries and links are appended -/
def childStep (E : Env) (l : HLink) (acc : MNode) : M MNode :=
  if l = .nil then pure { acc with links := acc.links ++ [HLink.nil] } else do
    let c ← load E l
    let cn ← read c
    let acc1 := { acc with keys := acc.keys ++ cn.keys, vals := acc.vals ++ cn.vals, links := acc.links ++ cn.links }
    if !validOK acc1 then panicE else pure acc1

theorem shrinkLoop_cons_nil (E : Env) (l : HLink) (ls : List HLink) (acc : MNode) :
    shrinkLoop E (l :: ls) [] acc = childStep E l acc >>= fun acc1 => shrinkLoop E ls [] acc1 := rfl

theorem shrinkLoop_cons_cons (E : Env) (l : HLink) (ls : List HLink) (k v : Nat) (es : List (Nat × Nat)) (acc : MNode) :
    shrinkLoop E (l :: ls) ((k, v) :: es) acc = childStep E l acc >>= fun acc1 =>
      shrinkLoop E ls es { acc1 with keys := acc1.keys ++ [k], vals := acc1.vals ++ [v] } := rfl

/-- one link of the loop: the child (an absent child as an empty node) is a node `gl / gks / gvs` whose links
    denote `gcs`; its parts are appended to the accumulator -/
theorem childStep_spec {m : Nat} (E : Env) (l : HLink) (acc : MNode) (s : PS) (G : Nat) (c : Bool × T × List Nat)
    (hg : Good s) (hc : repLink s.heap s.store G l = some c) :
    Spec (Grow m) (childStep E l acc) s (fun acc1 s' => ∃ gl gks gvs gcs,
      acc1 = { acc with keys := acc.keys ++ gks, vals := acc.vals ++ gvs, links := acc.links ++ gl } ∧
      gl.length = gks.length + 1 ∧ gvs.length = gks.length ∧
      seqO (gl.map (repLink s'.heap s'.store G)) = some gcs ∧
      T.unmk c.2.1 = mkRow (gcs.map pr) gks gvs ∧ (fps gcs).Sublist c.2.2) := by
  unfold childStep
  split
  · next h0 =>
    subst h0
    simp at hc; subst hc
    refine Spec.pure ⟨[.nil], [], [], [(false, T.nil, [])], by simp, rfl, rfl,
      seqO_map_cons.mpr ⟨_, [], by simp, rfl, rfl⟩, unmk_nil, by simp⟩
  · next h0 =>
    refine Spec.bind (load_spec (m := m) E l s hg) ?_
    rintro a s1 _ hgr ⟨_, _, hld⟩
    have hca := hld G c hc
    refine Spec.bind (read_spec a s1) ?_
    rintro cn s1' _ _ ⟨rfl, hcn⟩
    obtain ⟨g', gcs, rfl, hv, hk, hlen, heq⟩ := repLink_ptr_inv hca hcn
    have h1 : c.2.1 = mkRow (gcs.map pr) cn.keys cn.vals := congrArg (fun z => z.2.1) heq
    have h2 : c.2.2 = ownFp cn a ++ fps gcs := congrArg (fun z => z.2.2) heq
    dsimp only
    split
    · exact Spec.panic
    · refine Spec.pure ⟨cn.links, cn.keys, cn.vals, gcs, rfl, hv.1, hv.2, ?_, ?_, ?_⟩
      · exact seqO_map_congr hk (fun l' _ c' hc' => repLink_mono _ _ _ hc')
      · rw [h1]
        apply unmk_of_ne_nil
        apply mkRow_ne_nil
        intro h0
        have : (gcs.map pr).length = 0 := by rw [h0]; rfl
        rw [List.length_map] at this; omega
      · rw [h2]; exact List.sublist_append_right _ _

/-- the loop of `shrink` refines `T.shrink` on the remaining part of the row; the footprint of the links of the
    accumulator grows by parts of the children's footprints -/
theorem shrinkLoop_spec {m : Nat} (E : Env) (G : Nat) : ∀ (ls : List HLink) (ks vs : List Nat) (acc : MNode) (s : PS)
    (cs acs : List (Bool × T × List Nat)), Good s → ls.length = ks.length + 1 → vs.length = ks.length →
    seqO (ls.map (repLink s.heap s.store G)) = some cs →
    seqO (acc.links.map (repLink s.heap s.store G)) = some acs →
    acc.links.length = acc.keys.length → acc.vals.length = acc.keys.length →
    Spec (Grow m) (shrinkLoop E ls (ks.zip vs) acc) s (fun acc' s' => ∃ acs' extra,
      seqO (acc'.links.map (repLink s'.heap s'.store G)) = some acs' ∧
      acc'.links.length = acc'.keys.length + 1 ∧ acc'.vals.length = acc'.keys.length ∧
      mkRow (acs'.map pr) acc'.keys acc'.vals =
        appendRow (acs.map pr) acc.keys acc.vals (T.shrink (mkRow (cs.map pr) ks vs)) ∧
      fps acs' = fps acs ++ extra ∧ extra.Sublist (fps cs) ∧
      acc'.dirty = acc.dirty ∧ acc'.shared = acc.shared ∧ acc'.owner = acc.owner ∧ acc'.source = acc.source) := by
  intro ls
  induction ls with
  | nil => intro ks vs acc s cs acs _ hl; simp at hl
  | cons l ls ih =>
    intro ks vs acc s cs acs hg hl hv hcs hacs hal hav
    obtain ⟨c, cs', hc, hcs', rfl⟩ := seqO_map_cons.mp hcs
    have hacl : (acs.map pr).length = acc.keys.length := by
      rw [List.length_map, seqO_map_length hacs]; exact hal
    match ls, ks, vs, hl, hv, ih, hcs' with
    | [], [], [], _, _, _, hcs' =>
      simp [seqO] at hcs'; subst hcs'
      rw [List.zip_nil_left, shrinkLoop_cons_nil]
      refine Spec.bind (childStep_spec (m := m) E l acc s G c hg hc) ?_
      rintro acc1 s1 _ hgr ⟨gl, gks, gvs, gcs, rfl, hgl, hgv, hgcs, hrow, hsub⟩
      have hgcl : gcs.length = gks.length + 1 := by rw [seqO_map_length hgcs]; exact hgl
      refine Spec.pure ⟨acs ++ gcs, fps gcs, ?_, ?_, ?_, ?_, fps_append _ _, by simpa using hsub, rfl, rfl, rfl, rfl⟩
      · exact seqO_map_append.mpr ⟨acs, gcs, seqO_map_congr hacs (fun l' _ c' hc' => hgr.rep hc'), hgcs, rfl⟩
      · simp only [List.length_append]; omega
      · simp only [List.length_append]; omega
      · simp only [List.map_cons, List.map_nil, List.map_append]
        rw [show pr c = (c.1, c.2.1) from rfl, shrink_mkRow_single, hrow,
          appendRow_mkRow _ _ _ _ _ _ hacl hav (by
            intro h0
            have : (gcs.map pr).length = 0 := by rw [h0]; rfl
            rw [List.length_map] at this; omega)]
    | x :: ls', k :: ks', v :: vs', hl, hv, ih, hcs' =>
      rw [List.zip_cons_cons, shrinkLoop_cons_cons]
      refine Spec.bind (childStep_spec (m := m) E l acc s G c hg hc) ?_
      rintro acc1 s1 _ hgr ⟨gl, gks, gvs, gcs, rfl, hgl, hgv, hgcs, hrow, hsub⟩
      have hgcl : gcs.length = gks.length + 1 := by rw [seqO_map_length hgcs]; exact hgl
      have hne : cs'.map pr ≠ [] := by
        intro h0
        have : (cs'.map pr).length = 0 := by rw [h0]; rfl
        rw [List.length_map, seqO_map_length hcs'] at this
        simp at this
      refine (ih ks' vs' _ s1 cs' (acs ++ gcs) (hgr.good hg) (by simpa using hl) (by simpa using hv)
        (seqO_map_congr hcs' (fun l' _ c' hc' => hgr.rep hc'))
        (seqO_map_append.mpr ⟨acs, gcs, seqO_map_congr hacs (fun l' _ c' hc' => hgr.rep hc'), hgcs, rfl⟩)
        (by simp only [List.length_append, List.length_cons, List.length_nil]; omega)
        (by simp only [List.length_append, List.length_cons, List.length_nil]; omega)).conseq ?_
      rintro acc' s2 _ _ ⟨acs', extra, h1, h2, h3, h4, h5, h6, h7, h8, h9, h10⟩
      refine ⟨acs', fps gcs ++ extra, h1, h2, h3, ?_, ?_, ?_, h7, h8, h9, h10⟩
      · rw [h4]
        simp only [List.map_cons, List.map_append]
        rw [show pr c = (c.1, c.2.1) from rfl, shrink_mkRow_cons' _ _ _ _ _ _ _ hne, ← snoc_unmk, hrow]
        exact appendRow_snoc_mkRow _ _ _ _ _ _ _ _ _ hacl hav (by simpa using hgcl) hgv
      · rw [h5, fps_append, List.append_assoc]
      · rw [fps_cons]; exact List.Sublist.append hsub h6

theorem linkNew_ok_heap {nd : MNode} {s s' : PS} {l : HLink} (h : linkNew nd s = .ok l s') :
    (l = .nil ∧ s' = s) ∨ (l = .ptr s.heap.length ∧ s'.heap = s.heap ++ [nd]) := by
  unfold linkNew at h
  split at h
  · simp only [pure, M.pure] at h
    injection h with h1 h2
    exact Or.inl ⟨h1.symm, h2.symm⟩
  · simp only [bind, M.bind, alloc, pure, M.pure] at h
    cases hg : applyAct s.heap (.alloc nd) with
    | none => rw [hg] at h; cases h
    | some h' =>
      rw [hg] at h
      have := applyAct_alloc_some hg; subst this
      injection h with h1 h2
      exact Or.inr ⟨h1.symm, by rw [← h2]⟩

/-- the tree record after one `shrink()` with new root link `r` -/
def shrunkTree (t : PTree) (r : HLink) : PTree :=
  { t with root := r, height := t.height - 1,
           shrinkBelow := if t.shrinkBelow > 1 then t.shrinkBelow / t.bf else t.shrinkBelow,
           growAfter := if t.shrinkBelow > 1 then t.growAfter / t.bf else t.growAfter }

theorem shrink_spec (E : Env) (t : PTree) (s : PS) (hg : Good s) {g a : Nat} {y : Bool × T × List Nat}
    (hroot : t.root = .ptr a) (hy : repLink s.heap s.store g (.ptr a) = some y) (hynd : y.2.2.Nodup) :
    Spec (Grow t.id) (shrink E t) s (fun t' s' => ∃ r g' y', t' = shrunkTree t r ∧ t.height ≠ 0 ∧
      repLink s'.heap s'.store g' r = some y' ∧ y'.1 = false ∧ T.unmk y'.2.1 = T.shrink y.2.1 ∧
      FpExt s.heap.length y.2.2 y'.2.2 ∧
      (r = .nil ∨ ∃ na, r = .ptr na ∧ rootDirty s'.heap (.ptr na) = true)) := by
  unfold shrink
  rw [hroot]
  split
  · exact Spec.fail
  · next hh =>
    rw [if_neg (by simp)]
    refine Spec.bind (load_spec (m := t.id) E (.ptr a) s hg) ?_
    rintro a' s0 _ _ ⟨_, hptr, _⟩
    obtain ⟨rfl, rfl⟩ := hptr a rfl
    refine Spec.bind (read_spec a' s0) ?_
    rintro nd s0' _ _ ⟨rfl, hnda⟩
    obtain ⟨g0, cs, rfl, hv, hkids, hcl, rfl⟩ := repLink_ptr_inv hy hnda
    rw [nodeRep_fp] at hynd
    have hnd : (fps cs).Nodup := (List.nodup_append.mp hynd).2.1
    have hlt0 : ∀ z ∈ fps cs, z < s0.heap.length := fun z hz =>
      repLink_fp_lt hy (by rw [nodeRep_fp]; exact List.mem_append.mpr (Or.inr hz))
    refine Spec.bind (shrinkLoop_spec (m := t.id) E g0 nd.links nd.keys nd.vals _ s0 cs [] hg hv.1 hv.2 hkids rfl rfl rfl) ?_
    rintro top s1 _ hgr1 ⟨acs', extra, h1, h2, h3, h4, h5, h6, h7, h8, h9, h10⟩
    simp only [List.map_nil, appendRow_nil, fps_nil, List.nil_append] at h4 h5
    have hlen1 := hgr1.length
    split
    · exact Spec.panic
    · refine Spec.bind (linkNew_spec (m := t.id) top s1 g0 acs' h9 h8 ⟨h2, h3⟩ h1) ?_
      rintro r s2 hok hgr2 ⟨x, hx1, hx2, hx3, hx4⟩
      have hacl : (acs'.map pr).length = top.keys.length + 1 := by
        rw [List.length_map, seqO_map_length h1]; exact h2
      refine Spec.pure ⟨r, g0 + 1, x, rfl, hh, hx1, hx2, ?_, ?_, ?_⟩
      · rw [hx3, unmk_mk_mkRow hacl h3 (flagOK_of_seqO h1), h4, nodeRep_row]
      · rw [nodeRep_fp]
        rcases hx4 with ⟨_, _, _, hfp⟩ | ⟨_, _, hfp⟩
        · rw [hfp]; exact ⟨List.nodup_nil, fun _ hz => by simp at hz⟩
        · rw [hfp, h5]
          have hext : FpExt s0.heap.length (ownFp nd a' ++ fps cs) extra :=
            ⟨h6.nodup hnd, fun z hz => Or.inl (List.mem_append.mpr (Or.inr (h6.subset hz)))⟩
          refine hext.cons_fresh hlen1 ?_
          intro hmem
          have := hlt0 _ (h6.subset hmem)
          omega
      · rcases linkNew_ok_heap hok with ⟨hr, _⟩ | ⟨hr, hheap⟩
        · exact Or.inl hr
        · refine Or.inr ⟨s1.heap.length, hr, ?_⟩
          simp [rootDirty, hheap, h7]

theorem topEntryless_spec {m : Nat} (t : PTree) (s : PS) {g a : Nat} {y : Bool × T × List Nat}
    (hroot : t.root = .ptr a) (hy : repLink s.heap s.store g (.ptr a) = some y) :
    Spec (Grow m) (topEntryless t) s (fun b s' => s' = s ∧ b = Tree.topEntryless y.2.1) := by
  unfold topEntryless
  rw [hroot]
  refine Spec.bind (read_spec a s) ?_
  rintro nd s1 _ _ ⟨rfl, hnd⟩
  obtain ⟨g0, cs, rfl, hv, hkids, hcl, rfl⟩ := repLink_ptr_inv hy hnd
  refine Spec.pure ⟨rfl, ?_⟩
  rw [nodeRep_row, topEntryless_mkRow (by rw [List.length_map]; exact hcl) hv.2]

theorem topEntryless_nil_spec {m : Nat} (t : PTree) (s : PS) (hroot : t.root = .nil) :
    Spec (Grow m) (topEntryless t) s (fun b s' => s' = s ∧ b = false) := by
  unfold topEntryless
  rw [hroot]
  exact Spec.pure ⟨rfl, rfl⟩

end Mast.Ptr

#print axioms Mast.Ptr.shrink_spec
#print axioms Mast.Ptr.topEntryless_spec
#print axioms Mast.Ptr.topEntryless_nil_spec
