import Mastverif.Lemmas.RefSys
/-! `Insert` ending in an error: either nothing was installed, or the change is in and only the grow loop failed. -/
namespace Mast.Ptr
open Mast.Heap

/-- the program never returns an error (it may panic, get stuck or run out of fuel) -/
def NoErrR {α : Type} (x : M α) : Prop := ∀ s s', x s ≠ .err s'

theorem NoErrR.bind {α β : Type} {x : M α} {f : α → M β} (hx : NoErrR x) (hf : ∀ a, NoErrR (f a)) : NoErrR (x >>= f) := by
  intro s s' h
  change M.bind x f s = .err s' at h
  unfold M.bind at h
  cases hxs : x s with
  | ok a s1 => rw [hxs] at h; exact hf a s1 s' h
  | err s1 => exact hx s s1 hxs
  | panic => rw [hxs] at h; cases h
  | stuck => rw [hxs] at h; cases h
  | oof => rw [hxs] at h; cases h

theorem NoErrR.pure {α : Type} (a : α) : NoErrR (Pure.pure a : M α) := by
  intro s s' h; cases h
theorem NoErrR.panic {α : Type} : NoErrR (panicE : M α) := by
  intro s s' h; cases h
theorem NoErrR.read (a : Nat) : NoErrR (read a) := by
  intro s s' h; unfold Ptr.read at h; split at h <;> cases h
theorem NoErrR.alloc (nd : MNode) : NoErrR (alloc nd) := by
  intro s s' h; unfold Ptr.alloc at h; split at h <;> cases h
theorem NoErrR.write (m a : Nat) (nd : MNode) : NoErrR (write m a nd) := by
  intro s s' h; unfold Ptr.write at h; split at h <;> cases h

theorem NoErrR.toMut (m a : Nat) : NoErrR (toMut m a) := by
  unfold Ptr.toMut
  refine NoErrR.bind (NoErrR.read a) (fun nd => ?_)
  split
  · exact NoErrR.panic
  · split
    · exact NoErrR.pure _
    · exact NoErrR.alloc _

theorem NoErrR.mutPath (m : Nat) : ∀ q, NoErrR (mutPath m q) := by
  intro q
  induction q with
  | nil => unfold Ptr.mutPath; exact NoErrR.pure _
  | cons x rest ih =>
    obtain ⟨a, i⟩ := x
    unfold Ptr.mutPath
    refine NoErrR.bind (NoErrR.read a) (fun nd => ?_)
    refine NoErrR.bind ?_ (fun a' => NoErrR.bind ih (fun _ => NoErrR.pure _))
    split
    · exact NoErrR.pure _
    · exact NoErrR.bind (NoErrR.toMut m a) (fun a' => NoErrR.bind (NoErrR.read a')
        (fun nd' => NoErrR.bind (NoErrR.write _ _ _) (fun _ => NoErrR.pure _)))

theorem NoErrR.relink (m : Nat) : ∀ q, NoErrR (relink m q) := by
  intro q
  induction q with
  | nil => unfold Ptr.relink; exact NoErrR.pure _
  | cons x rest ih =>
    obtain ⟨a, i⟩ := x
    cases rest with
    | nil => unfold Ptr.relink; exact NoErrR.pure _
    | cons y rest' =>
      obtain ⟨b, j⟩ := y
      unfold Ptr.relink
      refine NoErrR.bind ih (fun _ => NoErrR.bind (NoErrR.read b) (fun cnd => NoErrR.bind (NoErrR.read a) (fun nd => ?_)))
      split
      · exact NoErrR.panic
      · exact NoErrR.write _ _ _

theorem NoErrR.savePath (m : Nat) (q : List (Nat × Nat)) : NoErrR (savePath m q) := by
  unfold Ptr.savePath
  refine NoErrR.bind (NoErrR.mutPath m q) (fun p => NoErrR.bind (NoErrR.relink m p) (fun _ => ?_))
  split
  · exact NoErrR.panic
  · exact NoErrR.pure _

theorem NoErrR.insertCommit (t : PTree) (p : InsPlan) (key val : Nat) : NoErrR (insertCommit t p key val) := by
  unfold Ptr.insertCommit
  refine NoErrR.bind (NoErrR.toMut _ _) (fun a' => NoErrR.bind (NoErrR.read a') (fun nd => ?_))
  dsimp only
  split
  · exact NoErrR.bind (NoErrR.write _ _ _) (fun _ => NoErrR.savePath _ _)
  · exact NoErrR.bind (NoErrR.write _ _ _) (fun _ => NoErrR.savePath _ _)

/-- `Insert` ending in an error: either the tree is untouched (the plan failed: a load or the layer callback),
    or the entry is installed — root replaced, `size` not yet incremented, no growth — and the grow loop failed
    (this is the Go behaviour: "an error here leaves the change in"). -/
theorem insert_err_refines (E : Env) (fuel g : Nat) (s s' : PS) (t t' : PTree) (k v : Nat) (A : Tree)
    (hg : Good s) (hown : FpOwned s.heap t.id (footprint s g t))
    (hA : repTree s g t = some A) (h : insert E fuel s t k v = (s', t', .err)) :
    Good s' ∧ Step t.id s s' ∧ t'.id = t.id ∧
    ((t' = t ∧ repTree s' g t = some A ∧ FpOwned s'.heap t.id (footprint s' g t)) ∨
     (∃ g' r, Tree.lookup E.layer A k = none ∧ T.ins k v (A.levels E.layer k) A.root = some r ∧
        repTree s' g' t' = some { A with root := r, rootP := false, dirty := true } ∧
        FpOwned s'.heap t'.id (footprint s' g' t'))) := by
  obtain ⟨x, hx, hxnd, hAeq⟩ := repTree_eq_some.mp hA
  rw [footprint_eq hx] at hown
  have hspec := insertPlan_spec E t fuel k v s hg hx hxnd
  have hlook : Tree.lookup E.layer A k = T.get k (t.height - min (E.layer k) t.height) (T.unmk x.2.1) := by
    rw [hAeq]; rfl
  have hlev : Tree.levels E.layer A k = t.height - min (E.layer k) t.height := by rw [hAeq]; rfl
  have hAroot : A.root = T.unmk x.2.1 := by rw [hAeq]; rfl
  unfold insert at h
  cases hpl : insertPlan E t fuel k v s with
  | panic => rw [hpl] at h; simp at h
  | stuck => rw [hpl] at h; simp at h
  | oof => rw [hpl] at h; simp at h
  | err s1 =>
    rw [hpl] at h
    simp only [Prod.mk.injEq, and_true] at h
    obtain ⟨rfl, rfl⟩ := h
    have hgr1 := hspec.err hpl
    refine ⟨hgr1.good hg, hgr1.toStep, rfl, Or.inl ⟨rfl, hgr1.repTree hA, ?_⟩⟩
    rw [footprint_eq (hgr1.rep hx)]
    exact fpOwned_of_step hgr1.toStep hown (FpExt.refl hxnd) (repLink_fp_unshared _ _ _ (hgr1.rep hx))
  | ok p s1 =>
    rw [hpl] at h
    obtain ⟨hgr1, hplan⟩ := hspec.ok hpl
    have hg1 := hgr1.good hg
    obtain ⟨hlk1, hlk2⟩ := planOK_lookup hplan
    simp only at h
    by_cases hps : (p.present && p.same) = true
    · rw [if_pos hps] at h; simp at h
    · rw [if_neg hps] at h
      have hcs := insertCommit_spec t p k v s s1 x t.height (min (E.layer k) t.height) hg1 hgr1.toStep hown hplan
      cases hcm : insertCommit t p k v s1 with
      | err s2 => exact absurd hcm (NoErrR.insertCommit t p k v s1 s2)
      | panic => rw [hcm] at h; simp at h
      | stuck => rw [hcm] at h; simp at h
      | oof => rw [hcm] at h; simp at h
      | ok root s2 =>
        rw [hcm] at h
        obtain ⟨hst2, a0, g1, y, rfl, hy, hins, hfp, hdirty⟩ := hcs.ok hcm
        have hst02 : Step t.id s s2 := hgr1.toStep.trans hst2
        have hg2 := hst2.good hg1
        have hyf : y.1 = false := repLink_flag_ptr hy
        have hyrow : T.unmk y.2.1 = y.2.1 := unmk_of_ne_nil (repLink_row_ne_nil hy (by simp))
        have hinsA : T.ins k v (Tree.levels E.layer A k) A.root = some y.2.1 := by rw [hlev, hAroot]; exact hins
        simp only at h
        by_cases hp : p.present = true
        · rw [if_pos hp] at h; simp at h
        · have hp' : p.present = false := by simpa using hp
          rw [if_neg hp] at h
          have hga := growAll_refines E fuel { t with root := .ptr a0 } s2 g1 a0 y hg2 rfl hy hfp.1 hdirty
          unfold afterCommit at h
          cases hgr : growAll E fuel { t with root := .ptr a0 } s2 with
          | ok t2 s3 => rw [hgr] at h; simp at h
          | panic => rw [hgr] at h; simp at h
          | stuck => rw [hgr] at h; simp at h
          | oof => rw [hgr] at h; simp at h
          | err s3 =>
            rw [hgr] at h
            simp only [Prod.mk.injEq, and_true] at h
            obtain ⟨rfl, rfl⟩ := h
            have hgr3 := hga.err hgr
            have hst03 : Step t.id s s3 := hst02.trans hgr3.toStep
            have hy3 : repLink s3.heap s3.store g1 ({ t with root := .ptr a0 } : PTree).root = some y := hgr3.rep hy
            refine ⟨hgr3.good hg2, hst03, rfl, Or.inr ⟨g1, y.2.1, by rw [hlook]; exact hlk2 hp', hinsA, ?_, ?_⟩⟩
            · have h2 : repTree s2 g1 { t with root := .ptr a0 } = some (treeRec { t with root := .ptr a0 } y true) :=
                repTree_eq_some.mpr ⟨y, hy, hfp.1, by rw [hdirty]⟩
              rw [hgr3.repTree h2, hAeq]
              simp only [treeRec, hyrow, hyf]
            · show FpOwned s3.heap t.id (footprint s3 g1 { t with root := .ptr a0 })
              rw [footprint_eq hy3]
              exact fpOwned_of_step hst03 hown hfp (repLink_fp_unshared _ _ _ hy3)

end Mast.Ptr
