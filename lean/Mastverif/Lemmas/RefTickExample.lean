import Mastverif.Lemmas.RefTickHist
/-!
# Non-vacuity and counterexamples for the load bounds (all `decide +kernel`)

* a persisted tree of height 2, no cache: `Get` of a layer-0 key performs exactly `height + 1 = 3` store loads,
  an `Insert` exactly `height + 1 = 3`, a `Delete` of a top-level key exactly `2 * height + 1 = 5` (the bounds
  are attained), and the hypothesis `DepthLe` of the theorems holds there;
* FINDING 1: without the depth bound the insert / delete bounds are false — a root opened with a height that
  is too small (`LoadMast` takes the height from the caller);
* FINDING 2: the delete bound is false for the outcome `.err`: a `Delete` whose height reduction fails on its
  last child has loaded every child of the top node and leaves the height as it was.
-/
namespace Mast.Ptr
open Mast.Heap

/-- executable version of `DepthLe` -/
def depthB (h : Heap) (st : List SNode) : Nat → HLink → Bool
  | _, .nil => true
  | 0, _ => false
  | n+1, .ptr a =>
    match h[a]? with
    | some nd => nd.links.all (depthB h st n)
    | none => false
  | n+1, .ref k =>
    match storeAt st k with
    | some sn => (expandLinks sn).all (depthB h st n)
    | none => true

theorem depthB_sound {h : Heap} {st : List SNode} : ∀ (n : Nat) (l : HLink), depthB h st n l = true → DepthLe h st n l := by
  intro n
  induction n with
  | zero =>
    intro l hb
    cases l with
    | nil => simp
    | ptr a => simp [depthB] at hb
    | ref k => simp [depthB] at hb
  | succ n ih =>
    intro l hb
    cases l with
    | nil => simp
    | ptr a =>
      simp only [depthB] at hb
      split at hb
      · next nd hnd =>
        exact depthLe_ptr_succ.mpr ⟨nd, hnd, fun l hl => ih l (List.all_eq_true.mp hb l hl)⟩
      · cases hb
    | ref k =>
      simp only [depthB] at hb
      refine depthLe_ref_succ.mpr ?_
      intro sn hsn l hl
      rw [hsn] at hb
      exact ih l (List.all_eq_true.mp hb l hl)

/-! ## a persisted tree of height 2 (branch factor 2, eleven entries), cache off -/

def tkLayer : Nat → Nat := fun k => if k % 16 = 0 then 2 else if k % 4 = 0 then 1 else 0
def tkEnv : Env := { layer := tkLayer, failAt := fun _ => false }

/-- build, persist (root name 9), open the persisted version as a second tree -/
def tkOps : List Op :=
  [.load 0 0 0 2, .ins 0 1 10, .ins 0 2 20, .ins 0 4 40, .ins 0 5 50, .ins 0 8 80, .ins 0 9 90, .ins 0 16 160,
   .ins 0 17 170, .ins 0 32 320, .ins 0 33 330, .ins 0 3 30, .flush 0, .load 9 11 2 2]

def tkSys : Sys := (Sys.run tkEnv 20 {} tkOps).1

/-- (outcome, store loads so far, (root, height, size) of every tree) after more calls -/
def tkRun (ops : List Op) : Outcome × Nat × List (HLink × Nat × Nat) :=
  let r := Sys.run tkEnv 20 tkSys ops
  (r.2, r.1.ps.tick, r.1.trees.map (fun t => (t.root, t.height, t.size)))

/-- building and persisting loads nothing; opening the persisted version: one store load -/
example : tkRun [] = (.ok, 1, [(.ref 9, 2, 11), (.ref 9, 2, 11)]) := by decide +kernel

/-- the hypotheses of `insert_tick` / `delete_tick` hold for both trees -/
example : tkSys.trees.map (fun t => depthB tkSys.ps.heap tkSys.ps.store (t.height + 1) t.root) = [true, true] := by
  decide +kernel
example : ∀ t ∈ tkSys.trees, DepthLe tkSys.ps.heap tkSys.ps.store (t.height + 1) t.root := by
  have h : tkSys.trees.all (fun t => depthB tkSys.ps.heap tkSys.ps.store (t.height + 1) t.root) = true := by
    decide +kernel
  exact fun t ht => depthB_sound _ _ (List.all_eq_true.mp h t ht)
example : CacheS tkSys.ps := by
  intro h
  have : tkSys.ps.useCache = false := by decide +kernel
  rw [this] at h; cases h

/-- `Get` of a layer-0 key: exactly `height + 1 = 3` store loads (1 → 4) -/
example : (tkRun [.get 1 3]).2.1 = 4 := by decide +kernel
/-- `Get` of a top-layer key: the top node only -/
example : (tkRun [.get 1 16]).2.1 = 2 := by decide +kernel
/-- `Clone`: the top node only -/
example : (tkRun [.clone 1]).2.1 = 2 := by decide +kernel
/-- `Insert` of a key of layer 0, 1, 2: exactly `height + 1 = 3` store loads each, height unchanged -/
example : tkRun [.ins 1 6 60] = (.ok, 4, [(.ref 9, 2, 11), (.ptr 20, 2, 12)]) := by decide +kernel
example : tkRun [.ins 1 12 120] = (.ok, 4, [(.ref 9, 2, 11), (.ptr 21, 2, 12)]) := by decide +kernel
example : tkRun [.ins 1 48 480] = (.ok, 4, [(.ref 9, 2, 11), (.ptr 21, 2, 12)]) := by decide +kernel
/-- `Delete` of a top-layer key: exactly `2 * height + 1 = 5` store loads, height unchanged -/
example : tkRun [.del 1 16 160] = (.ok, 6, [(.ref 9, 2, 11), (.ptr 23, 2, 10)]) := by decide +kernel

/-! ## FINDING 1: the insert / delete bounds need the depth bound

`LoadMast` takes `height` from the caller.  Opening the root of the height-2 tree with `height := 0` (and a
branch factor of 100, so that the insert does not grow the tree): an `Insert` then performs 3 store loads and
a `Delete` 5 — more than `2 * (0 + 1) = 2` — and the height stays 0. -/

def tkBad : List Op := tkOps.dropLast ++ [.load 9 11 0 100]
def tkBadSys : Sys := (Sys.run tkEnv 20 {} tkBad).1

example : (tkBadSys.ps.tick, tkBadSys.trees.map (fun t => (t.root, t.height))) =
    (1, [(.ref 9, 2), (.ref 9, 0)]) := by decide +kernel
/-- the depth hypothesis fails for the tree opened with the wrong height -/
example : tkBadSys.trees.map (fun t => depthB tkBadSys.ps.heap tkBadSys.ps.store (t.height + 1) t.root) =
    [true, false] := by decide +kernel
/-- insert: outcome `.ok`, height unchanged (0), 3 store loads > `2 * (height + 1) = 2` -/
example :
    (match tkBadSys.trees[1]? with
     | none => none
     | some t =>
       let r := insert tkEnv 20 tkBadSys.ps t 24 240
       some (r.2.2, t.height, r.2.1.height, r.1.tick - tkBadSys.ps.tick)) = some (.ok, 0, 0, 3) := by decide +kernel
/-- delete: outcome `.ok`, height unchanged (0), 5 store loads > 2 -/
example :
    (match tkBadSys.trees[1]? with
     | none => none
     | some t =>
       let r := delete tkEnv 20 tkBadSys.ps t 16 160
       some (r.2.2, t.height, r.2.1.height, r.1.tick - tkBadSys.ps.tick)) = some (.ok, 0, 0, 5) := by decide +kernel

/-! ## FINDING 2: a `Delete` that FAILS in the height reduction exceeds the bound with the height unchanged

Branch factor 8, nine entries, height 1 (a consistent configuration: `shrinkBelow = 8`).  Deleting one entry
makes `size = 8 ≤ shrinkBelow`: `shrink` loads every child of the top node.  When the load of the last child
fails, the call has performed 2 + 4 = 6 store loads, ends `.err`, and the height is still 1:
`6 > 2 * (1 + 1) = 4`.  (The depth bound holds here — the hypothesis that must be added is "the outcome is
`.ok`", see `delete_tick` / `delete_tick_all`.) -/

def t8Env (fail : Nat → Bool) : Env := { layer := tkLayer, failAt := fail }
def t8Ops : List Op :=
  [.load 0 0 0 8, .ins 0 1 10, .ins 0 4 40, .ins 0 5 50, .ins 0 8 80, .ins 0 9 90, .ins 0 12 120, .ins 0 13 130,
   .ins 0 20 200, .ins 0 21 210, .flush 0, .load 6 9 1 8]
def t8Sys : Sys := (Sys.run (t8Env fun _ => false) 20 {} t8Ops).1

example : (t8Sys.ps.tick, t8Sys.trees.map (fun t => (t.root, t.height, t.size, t.bf, t.shrinkBelow))) =
    (1, [(.ref 6, 1, 9, 8, 8), (.ref 6, 1, 9, 8, 8)]) := by decide +kernel
example : t8Sys.trees.map (fun t => depthB t8Sys.ps.heap t8Sys.ps.store (t.height + 1) t.root) = [true, true] := by
  decide +kernel

/-- no fault: the delete succeeds, the height drops to 0, 6 store loads (allowed: the height changed) -/
example :
    (match t8Sys.trees[1]? with
     | none => none
     | some t =>
       let r := delete (t8Env fun _ => false) 20 t8Sys.ps t 1 10
       some (r.2.2, t.height, r.2.1.height, r.1.tick - t8Sys.ps.tick)) = some (.ok, 1, 0, 6) := by decide +kernel

/-- the 7th store load of the session (the last child read by `shrink`) fails: outcome `.err`, height
    unchanged (1), 6 store loads > `2 * (height + 1) = 4` -/
example :
    (match t8Sys.trees[1]? with
     | none => none
     | some t =>
       let r := delete (t8Env fun n => n == 6) 20 t8Sys.ps t 1 10
       some (r.2.2, t.height, r.2.1.height, r.1.tick - t8Sys.ps.tick)) = some (.err, 1, 1, 6) := by decide +kernel

/-- the same as a history -/
example :
    (let r := Sys.run (t8Env fun n => n == 6) 20 {} (t8Ops ++ [.del 1 1 10])
     (r.1.ps.tick, r.1.trees.map (fun t => t.height))) = (7, [1, 1]) := by decide +kernel

/-! ## history level: `Sys.run_tick` on a concrete run -/

/-- executable version of `OpDeep` for systems that run without cache -/
def opDeepB (σ : Sys) : Op → Bool
  | .ins i _ _ => match σ.trees[i]? with
    | some t => !σ.ps.useCache && depthB σ.ps.heap σ.ps.store (t.height + 1) t.root
    | none => true
  | .del i _ _ => match σ.trees[i]? with
    | some t => !σ.ps.useCache && depthB σ.ps.heap σ.ps.store (t.height + 1) t.root
    | none => true
  | _ => true

theorem opDeepB_sound {σ : Sys} {op : Op} (h : opDeepB σ op = true) : OpDeep σ op := by
  have key : ∀ (i : Nat), (match σ.trees[i]? with
      | some t => !σ.ps.useCache && depthB σ.ps.heap σ.ps.store (t.height + 1) t.root
      | none => true) = true →
      ∀ t, σ.trees[i]? = some t → CacheS σ.ps ∧ DepthLe σ.ps.heap σ.ps.store (t.height + 1) t.root := by
    intro i hb t ht
    rw [ht] at hb
    simp only [Bool.and_eq_true, Bool.not_eq_true'] at hb
    exact ⟨fun hu => (by rw [hb.1] at hu; cases hu), depthB_sound _ _ hb.2⟩
  cases op with
  | ins i k v => exact key i h
  | del i k v => exact key i h
  | get i k => trivial
  | iter i => trivial
  | flush i => trivial
  | clone i => trivial
  | load _ _ _ _ => trivial

def Sys.deepB (E : Env) (fuel : Nat) : Sys → List Op → Bool
  | _, [] => true
  | σ, op :: ops =>
    opDeepB σ op &&
      (match σ.apply E fuel op with
       | (σ', .ok) => Sys.deepB E fuel σ' ops
       | (σ', .err) => Sys.deepB E fuel σ' ops
       | _ => true)

theorem Sys.deepB_sound (E : Env) (fuel : Nat) : ∀ (ops : List Op) (σ : Sys), Sys.deepB E fuel σ ops = true →
    Sys.Deep E fuel σ ops := by
  intro ops
  induction ops with
  | nil => intro σ _; trivial
  | cons op ops ih =>
    intro σ h
    simp only [Sys.deepB, Bool.and_eq_true] at h
    refine ⟨opDeepB_sound h.1, ?_⟩
    have h2 := h.2
    generalize σ.apply E fuel op = r at h2 ⊢
    obtain ⟨σ', o⟩ := r
    cases o with
    | ok => exact ih σ' h2
    | err => exact ih σ' h2
    | panic => trivial
    | stuck => trivial
    | oof => trivial

/-- lookups, inserts, a delete, a clone, a flush and a re-opening on the persisted tree of height 2 -/
def tkHist : List Op :=
  [.get 1 3, .ins 1 6 60, .get 1 6, .del 1 16 160, .clone 1, .get 2 5, .flush 1, .load 9 11 2 2, .ins 3 48 480]

example : Sys.Deep tkEnv 20 tkSys tkHist := Sys.deepB_sound _ _ _ _ (by decide +kernel)
/-- the budgets: 3 + 3 + 3 + 5 + 1 + 3 + 1 + 1 + 3 -/
example : Sys.budget tkEnv 20 tkSys tkHist = 23 := by decide +kernel
/-- the store loads of the run (the first lookup and the insert load the path; later calls find pointers) -/
example : (tkSys.ps.tick, (Sys.run tkEnv 20 tkSys tkHist).1.ps.tick, (Sys.run tkEnv 20 tkSys tkHist).2) = (1, 14, .ok) := by
  decide +kernel
/-- `Sys.run_tick` instantiated -/
example : (Sys.run tkEnv 20 tkSys tkHist).1.ps.tick ≤ tkSys.ps.tick + Sys.budget tkEnv 20 tkSys tkHist :=
  Sys.run_tick tkEnv 20 tkHist tkSys (Sys.deepB_sound _ _ _ _ (by decide +kernel))

/-! ## the unconditional history theorem `Sys.run_tick_scratch` on a concrete run -/

def loadsZeroB (ops : List Op) : Bool :=
  ops.all (fun op => match op with
    | .load l _ _ _ => l == 0
    | _ => true)

theorem loadsZeroB_sound {ops : List Op} (h : loadsZeroB ops = true) :
    ∀ op ∈ ops, ∀ l sz ht b, op = .load l sz ht b → l = 0 := by
  intro op hop l sz ht b he
  subst he
  have := List.all_eq_true.mp h _ hop
  simpa using this

/-- build from scratch, persist, then work on the persisted tree and on a clone of it -/
def tkScratch : List Op :=
  tkOps.dropLast ++ [.get 0 3, .clone 0, .ins 0 6 60, .del 1 16 160, .flush 1, .get 1 9]

example : (Sys.run tkEnv 20 {} tkScratch).1.ps.tick ≤ Sys.budget tkEnv 20 {} tkScratch :=
  Sys.run_tick_scratch tkEnv 20 tkScratch false 1 (by decide) (loadsZeroB_sound (by decide +kernel))
example : ((Sys.run tkEnv 20 {} tkScratch).1.ps.tick, Sys.budget tkEnv 20 {} tkScratch, (Sys.run tkEnv 20 {} tkScratch).2) =
    (14, 41, .ok) := by decide +kernel

end Mast.Ptr
