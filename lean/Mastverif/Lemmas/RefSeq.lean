import Mastverif.Model.Rep
/-! `seqO`: all-or-nothing evaluation of a list of links. -/
namespace Mast.Ptr
open Mast.Heap

theorem seqO_nil {α : Type} : seqO ([] : List (Option α)) = some [] := rfl

theorem seqO_cons_some {α : Type} {x : Option α} {xs : List (Option α)} {cs : List α} :
    seqO (x :: xs) = some cs ↔ ∃ c cs', x = some c ∧ seqO xs = some cs' ∧ cs = c :: cs' := by
  cases x with
  | none => simp [seqO]
  | some c =>
    simp only [seqO, Option.map_eq_some_iff]
    constructor
    · rintro ⟨cs', h1, h2⟩; exact ⟨c, cs', rfl, h1, h2.symm⟩
    · rintro ⟨c', cs', h0, h1, h2⟩
      injection h0 with h0; subst h0
      exact ⟨cs', h1, h2.symm⟩

theorem seqO_append_some {α : Type} {xs ys : List (Option α)} {cs : List α} :
    seqO (xs ++ ys) = some cs ↔ ∃ c1 c2, seqO xs = some c1 ∧ seqO ys = some c2 ∧ cs = c1 ++ c2 := by
  induction xs generalizing cs with
  | nil =>
    simp only [List.nil_append, seqO]
    constructor
    · intro h; exact ⟨[], cs, rfl, h, rfl⟩
    · rintro ⟨c1, c2, h1, h2, h3⟩
      injection h1 with h1; subst h1; simpa [h3] using h2
  | cons x xs ih =>
    rw [List.cons_append, seqO_cons_some]
    constructor
    · rintro ⟨c, cs', hx, h, rfl⟩
      obtain ⟨c1, c2, h1, h2, rfl⟩ := ih.mp h
      exact ⟨c :: c1, c2, seqO_cons_some.mpr ⟨c, c1, hx, h1, rfl⟩, h2, rfl⟩
    · rintro ⟨c1, c2, h1, h2, rfl⟩
      obtain ⟨c, c1', hx, h1', rfl⟩ := seqO_cons_some.mp h1
      exact ⟨c, c1' ++ c2, hx, ih.mpr ⟨c1', c2, h1', h2, rfl⟩, rfl⟩

theorem seqO_length {α : Type} {xs : List (Option α)} {cs : List α} (h : seqO xs = some cs) :
    cs.length = xs.length := by
  induction xs generalizing cs with
  | nil => simp [seqO] at h; subst h; rfl
  | cons x xs ih =>
    obtain ⟨c, cs', _, h1, rfl⟩ := seqO_cons_some.mp h
    simp [ih h1]

theorem seqO_getElem? {α : Type} {xs : List (Option α)} {cs : List α} (h : seqO xs = some cs)
    {i : Nat} {x : Option α} (hx : xs[i]? = some x) : ∃ c, x = some c ∧ cs[i]? = some c := by
  induction xs generalizing cs i with
  | nil => simp at hx
  | cons y ys ih =>
    obtain ⟨c, cs', hy, h1, rfl⟩ := seqO_cons_some.mp h
    cases i with
    | zero => simp at hx; subst hx; exact ⟨c, hy, rfl⟩
    | succ i => simp at hx; simpa using ih h1 hx

/-- pointwise construction -/
theorem seqO_of_forall {α : Type} {xs : List (Option α)} {cs : List α} (hl : cs.length = xs.length)
    (h : ∀ (i : Nat) (c : α), cs[i]? = some c → xs[i]? = some (some c)) : seqO xs = some cs := by
  induction xs generalizing cs with
  | nil => cases cs with
    | nil => rfl
    | cons _ _ => simp at hl
  | cons y ys ih =>
    cases cs with
    | nil => simp at hl
    | cons c cs' =>
      have h0 := h 0 c (by simp)
      simp at h0
      refine seqO_cons_some.mpr ⟨c, cs', h0, ih (by simpa using hl) ?_, rfl⟩
      intro i c' hc'
      have := h (i + 1) c' (by simpa using hc')
      simpa using this

theorem seqO_map_length {α β : Type} {F : α → Option β} {ls : List α} {cs : List β}
    (h : seqO (ls.map F) = some cs) : cs.length = ls.length := by
  simpa using seqO_length h

theorem seqO_map_getElem? {α β : Type} {F : α → Option β} {ls : List α} {cs : List β}
    (h : seqO (ls.map F) = some cs) {i : Nat} {l : α} (hl : ls[i]? = some l) :
    ∃ c, F l = some c ∧ cs[i]? = some c := by
  have : (ls.map F)[i]? = some (F l) := by simp [hl]
  exact seqO_getElem? h this

/-- every element of the input that the result depends on -/
theorem seqO_map_mem {α β : Type} {F : α → Option β} {ls : List α} {cs : List β}
    (h : seqO (ls.map F) = some cs) {l : α} (hl : l ∈ ls) : ∃ c, F l = some c ∧ c ∈ cs := by
  obtain ⟨i, hi⟩ := List.getElem?_of_mem hl
  obtain ⟨c, h1, h2⟩ := seqO_map_getElem? h hi
  exact ⟨c, h1, List.mem_of_getElem? h2⟩

theorem seqO_map_congr {α β : Type} {F G : α → Option β} {ls : List α} {cs : List β}
    (h : seqO (ls.map F) = some cs) (hfg : ∀ l ∈ ls, ∀ c, F l = some c → G l = some c) :
    seqO (ls.map G) = some cs := by
  induction ls generalizing cs with
  | nil => exact h
  | cons l ls ih =>
    rw [List.map_cons] at h ⊢
    obtain ⟨c, cs', hx, h1, rfl⟩ := seqO_cons_some.mp h
    exact seqO_cons_some.mpr ⟨c, cs', hfg l (by simp) c hx,
      ih h1 (fun l' hl' => hfg l' (List.mem_cons_of_mem _ hl')), rfl⟩

theorem seqO_map_append {α β : Type} {F : α → Option β} {l1 l2 : List α} {cs : List β} :
    seqO ((l1 ++ l2).map F) = some cs ↔
      ∃ c1 c2, seqO (l1.map F) = some c1 ∧ seqO (l2.map F) = some c2 ∧ cs = c1 ++ c2 := by
  rw [List.map_append]; exact seqO_append_some

theorem seqO_map_cons {α β : Type} {F : α → Option β} {l : α} {ls : List α} {cs : List β} :
    seqO ((l :: ls).map F) = some cs ↔
      ∃ c cs', F l = some c ∧ seqO (ls.map F) = some cs' ∧ cs = c :: cs' := by
  rw [List.map_cons]; exact seqO_cons_some

theorem seqO_map_take {α β : Type} {F : α → Option β} {ls : List α} {cs : List β}
    (h : seqO (ls.map F) = some cs) (i : Nat) : seqO ((ls.take i).map F) = some (cs.take i) := by
  induction ls generalizing cs i with
  | nil => simp [seqO] at h; subst h; simp [seqO]
  | cons l ls ih =>
    obtain ⟨c, cs', hx, h1, rfl⟩ := seqO_map_cons.mp h
    cases i with
    | zero => simp [seqO]
    | succ i =>
      rw [List.take_succ_cons, List.take_succ_cons]
      exact seqO_map_cons.mpr ⟨c, _, hx, ih h1 i, rfl⟩

theorem seqO_map_drop {α β : Type} {F : α → Option β} {ls : List α} {cs : List β}
    (h : seqO (ls.map F) = some cs) (i : Nat) : seqO ((ls.drop i).map F) = some (cs.drop i) := by
  induction ls generalizing cs i with
  | nil => simp [seqO] at h; subst h; simp [seqO]
  | cons l ls ih =>
    obtain ⟨c, cs', hx, h1, rfl⟩ := seqO_map_cons.mp h
    cases i with
    | zero => simpa using h
    | succ i =>
      rw [List.drop_succ_cons, List.drop_succ_cons]
      exact ih h1 i

theorem seqO_map_replicate {α β : Type} {F : α → Option β} {l : α} {c : β} (hc : F l = some c) (n : Nat) :
    seqO ((List.replicate n l).map F) = some (List.replicate n c) := by
  induction n with
  | zero => rfl
  | succ n ih =>
    rw [List.replicate_succ, List.replicate_succ]
    exact seqO_map_cons.mpr ⟨c, _, hc, ih, rfl⟩

theorem seqO_map_map {α β γ : Type} {F : α → Option β} {G : α → Option γ} {φ : β → γ} {ls : List α} {cs : List β}
    (h : seqO (ls.map F) = some cs) (hfg : ∀ l ∈ ls, ∀ c, F l = some c → G l = some (φ c)) :
    seqO (ls.map G) = some (cs.map φ) := by
  induction ls generalizing cs with
  | nil => simp [seqO] at h; subst h; rfl
  | cons l ls ih =>
    obtain ⟨c, cs', hx, h1, rfl⟩ := seqO_map_cons.mp h
    exact seqO_map_cons.mpr ⟨φ c, cs'.map φ, hfg l (by simp) c hx,
      ih h1 (fun l' hl' => hfg l' (List.mem_cons_of_mem _ hl')), rfl⟩

end Mast.Ptr
