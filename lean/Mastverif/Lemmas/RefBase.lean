import Mastverif.Lemmas.RefSeq
import Mastverif.Lemmas.PtrPrim
/-! Base lemmas about `repLink`: unfolding, fuel monotonicity, frame, footprint, tie to `absLink`. -/
namespace Mast.Ptr
open Mast.Heap

/-- validity of a node as `repLink` demands it -/
def ValidN (nd : MNode) : Prop := nd.links.length = nd.keys.length + 1 ∧ nd.vals.length = nd.keys.length

def ValidS (sn : SNode) : Prop := (expandLinks sn).length = sn.keys.length + 1 ∧ sn.vals.length = sn.keys.length

instance (nd : MNode) : Decidable (ValidN nd) := by unfold ValidN; infer_instance
instance (sn : SNode) : Decidable (ValidS sn) := by unfold ValidS; infer_instance

def ownFp (nd : MNode) (a : Nat) : List Nat := if nd.shared then [] else [a]

@[simp] theorem repLink_nil (h : Heap) (st : List SNode) (f : Nat) :
    repLink h st f .nil = some (false, T.nil, []) := by
  cases f <;> rfl

theorem repLink_zero_ptr (h : Heap) (st : List SNode) (a : Nat) : repLink h st 0 (.ptr a) = none := rfl
theorem repLink_zero_ref (h : Heap) (st : List SNode) (n : Nat) : repLink h st 0 (.ref n) = none := rfl

theorem repLink_ptr_succ {h : Heap} {st : List SNode} {f a : Nat} {nd : MNode} (hnd : h[a]? = some nd) :
    repLink h st (f + 1) (.ptr a) =
      if ValidN nd then (seqO (nd.links.map (repLink h st f))).map (nodeRep false (ownFp nd a) nd.keys nd.vals)
      else none := by
  simp only [repLink, hnd, ValidN, ownFp]

theorem repLink_ptr_some {h : Heap} {st : List SNode} {f a : Nat} {x : Bool × T × List Nat} :
    repLink h st f (.ptr a) = some x ↔
      ∃ f' nd cs, f = f' + 1 ∧ h[a]? = some nd ∧ ValidN nd ∧
        seqO (nd.links.map (repLink h st f')) = some cs ∧ x = nodeRep false (ownFp nd a) nd.keys nd.vals cs := by
  cases f with
  | zero => simp [repLink_zero_ptr]
  | succ f =>
    cases hnd : h[a]? with
    | none => simp [repLink, hnd]
    | some nd =>
      rw [repLink_ptr_succ hnd]
      constructor
      · intro hx
        split at hx
        · next hv =>
          obtain ⟨cs, h1, h2⟩ := Option.map_eq_some_iff.mp hx
          exact ⟨f, nd, cs, rfl, rfl, hv, h1, h2.symm⟩
        · cases hx
      · rintro ⟨f', nd', cs, hf, hnd', hv, h1, h2⟩
        injection hf with hf; subst hf
        injection hnd' with hnd'; subst hnd'
        rw [if_pos hv, h1, h2]; rfl

def storeAt (st : List SNode) (n : Nat) : Option SNode := if n = 0 then none else st[n - 1]?

theorem repLink_ref_succ {h : Heap} {st : List SNode} {f n : Nat} {sn : SNode} (hsn : storeAt st n = some sn) :
    repLink h st (f + 1) (.ref n) =
      if ValidS sn then (seqO ((expandLinks sn).map (repLink h st f))).map (nodeRep true [] sn.keys sn.vals)
      else none := by
  unfold storeAt at hsn
  simp only [repLink, hsn, ValidS]

theorem repLink_ref_some {h : Heap} {st : List SNode} {f n : Nat} {x : Bool × T × List Nat} :
    repLink h st f (.ref n) = some x ↔
      ∃ f' sn cs, f = f' + 1 ∧ storeAt st n = some sn ∧ ValidS sn ∧
        seqO ((expandLinks sn).map (repLink h st f')) = some cs ∧ x = nodeRep true [] sn.keys sn.vals cs := by
  cases f with
  | zero => simp [repLink_zero_ref]
  | succ f =>
    cases hsn : storeAt st n with
    | none =>
      have : repLink h st (f + 1) (.ref n) = none := by
        unfold storeAt at hsn
        simp only [repLink, hsn]
      simp [this]
    | some sn =>
      rw [repLink_ref_succ hsn]
      constructor
      · intro hx
        split at hx
        · next hv =>
          obtain ⟨cs, h1, h2⟩ := Option.map_eq_some_iff.mp hx
          exact ⟨f, sn, cs, rfl, rfl, hv, h1, h2.symm⟩
        · cases hx
      · rintro ⟨f', sn', cs, hf, hsn', hv, h1, h2⟩
        injection hf with hf; subst hf
        injection hsn' with hsn'; subst hsn'
        rw [if_pos hv, h1, h2]; rfl

theorem storeAt_append {st : List SNode} {n : Nat} {sn : SNode} (h : storeAt st n = some sn) (ext : List SNode) :
    storeAt (st ++ ext) n = some sn := by
  unfold storeAt at h ⊢
  split at h
  · cases h
  · next hn =>
    rw [if_neg hn]
    have hlt : n - 1 < st.length := (List.getElem?_eq_some_iff.mp h).1
    rw [List.getElem?_append_left hlt]; exact h

/-! ## fuel monotonicity -/

theorem repLink_mono {h : Heap} {st : List SNode} : ∀ (f : Nat) (l : HLink) (x : Bool × T × List Nat),
    repLink h st f l = some x → repLink h st (f + 1) l = some x := by
  intro f
  induction f with
  | zero =>
    intro l x hx
    cases l with
    | nil => simpa using hx
    | ptr a => cases hx
    | ref n => cases hx
  | succ f ih =>
    intro l x hx
    cases l with
    | nil => simpa using hx
    | ptr a =>
      obtain ⟨f', nd, cs, hf, hnd, hv, h1, h2⟩ := repLink_ptr_some.mp hx
      injection hf with hf; subst hf
      exact repLink_ptr_some.mpr ⟨f + 1, nd, cs, rfl, hnd, hv, seqO_map_congr h1 (fun l _ c hc => ih l c hc), h2⟩
    | ref n =>
      obtain ⟨f', sn, cs, hf, hsn, hv, h1, h2⟩ := repLink_ref_some.mp hx
      injection hf with hf; subst hf
      exact repLink_ref_some.mpr ⟨f + 1, sn, cs, rfl, hsn, hv, seqO_map_congr h1 (fun l _ c hc => ih l c hc), h2⟩

theorem repLink_mono_add {h : Heap} {st : List SNode} {f : Nat} {l : HLink} {x : Bool × T × List Nat}
    (hx : repLink h st f l = some x) (d : Nat) : repLink h st (f + d) l = some x := by
  induction d with
  | zero => exact hx
  | succ d ih => exact repLink_mono _ _ _ ih

theorem repLink_mono_le {h : Heap} {st : List SNode} {f g : Nat} {l : HLink} {x : Bool × T × List Nat}
    (hx : repLink h st f l = some x) (hfg : f ≤ g) : repLink h st g l = some x := by
  have := repLink_mono_add hx (g - f)
  rwa [Nat.add_sub_cancel' hfg] at this

/-! ## footprint -/

theorem mem_nodeRep_fp {flag : Bool} {own ks vs : List Nat} {cs : List (Bool × T × List Nat)} {a : Nat} :
    a ∈ (nodeRep flag own ks vs cs).2.2 ↔ a ∈ own ∨ ∃ c ∈ cs, a ∈ c.2.2 := by
  simp only [nodeRep, List.mem_append, List.mem_flatten, List.mem_map]
  constructor
  · rintro (h | ⟨l, ⟨c, hc, rfl⟩, ha⟩)
    · exact Or.inl h
    · exact Or.inr ⟨c, hc, ha⟩
  · rintro (h | ⟨c, hc, ha⟩)
    · exact Or.inl h
    · exact Or.inr ⟨_, ⟨c, hc, rfl⟩, ha⟩

theorem mem_ownFp {nd : MNode} {a b : Nat} : b ∈ ownFp nd a ↔ nd.shared = false ∧ b = a := by
  unfold ownFp
  cases nd.shared <;> simp

/-- footprint elements are addresses of unshared objects -/
theorem repLink_fp_unshared {h : Heap} {st : List SNode} : ∀ (f : Nat) (l : HLink) (x : Bool × T × List Nat),
    repLink h st f l = some x → ∀ a ∈ x.2.2, ∃ nd, h[a]? = some nd ∧ nd.shared = false := by
  intro f
  induction f with
  | zero =>
    intro l x hx a ha
    cases l with
    | nil => simp at hx; subst hx; simp at ha
    | ptr a => cases hx
    | ref n => cases hx
  | succ f ih =>
    intro l x hx a ha
    cases l with
    | nil => simp at hx; subst hx; simp at ha
    | ptr b =>
      obtain ⟨f', nd, cs, hf, hnd, hv, h1, rfl⟩ := repLink_ptr_some.mp hx
      injection hf with hf; subst hf
      rcases mem_nodeRep_fp.mp ha with ho | ⟨c, hc, hac⟩
      · obtain ⟨hs, rfl⟩ := mem_ownFp.mp ho
        exact ⟨nd, hnd, hs⟩
      · obtain ⟨i, hi⟩ := List.getElem?_of_mem hc
        have hlen := seqO_map_length h1
        have hlt : i < nd.links.length := by rw [← hlen]; exact (List.getElem?_eq_some_iff.mp hi).1
        obtain ⟨c', hc1, hc2⟩ := seqO_map_getElem? h1 (List.getElem?_eq_getElem hlt)
        rw [hi] at hc2; injection hc2 with hc2; subst hc2
        exact ih _ _ hc1 a hac
    | ref n =>
      obtain ⟨f', sn, cs, hf, hsn, hv, h1, rfl⟩ := repLink_ref_some.mp hx
      injection hf with hf; subst hf
      rcases mem_nodeRep_fp.mp ha with ho | ⟨c, hc, hac⟩
      · simp at ho
      · obtain ⟨i, hi⟩ := List.getElem?_of_mem hc
        have hlen := seqO_map_length h1
        have hlt : i < (expandLinks sn).length := by rw [← hlen]; exact (List.getElem?_eq_some_iff.mp hi).1
        obtain ⟨c', hc1, hc2⟩ := seqO_map_getElem? h1 (List.getElem?_eq_getElem hlt)
        rw [hi] at hc2; injection hc2 with hc2; subst hc2
        exact ih _ _ hc1 a hac

theorem repLink_fp_lt {h : Heap} {st : List SNode} {f : Nat} {l : HLink} {x : Bool × T × List Nat}
    (hx : repLink h st f l = some x) {a : Nat} (ha : a ∈ x.2.2) : a < h.length := by
  obtain ⟨nd, hnd, _⟩ := repLink_fp_unshared f l x hx a ha
  exact (List.getElem?_eq_some_iff.mp hnd).1

/-! ## frame -/

/-- `h'` agrees with `h` outside the set `W` of (unshared) objects, the store only grows: every link whose
    footprint avoids `W` denotes what it denoted. -/
theorem repLink_frame {h h' : Heap} {st : List SNode} (ext : List SNode) (W : Nat → Prop)
    (hfr : ∀ a nd, h[a]? = some nd → ¬ W a → h'[a]? = some nd)
    (hW : ∀ a nd, h[a]? = some nd → W a → nd.shared = false) :
    ∀ (f : Nat) (l : HLink) (x : Bool × T × List Nat), repLink h st f l = some x →
      (∀ a ∈ x.2.2, ¬ W a) → repLink h' (st ++ ext) f l = some x := by
  intro f
  induction f with
  | zero =>
    intro l x hx _
    cases l with
    | nil => simpa using hx
    | ptr a => cases hx
    | ref n => cases hx
  | succ f ih =>
    intro l x hx hd
    cases l with
    | nil => simpa using hx
    | ptr b =>
      obtain ⟨f', nd, cs, hf, hnd, hv, h1, rfl⟩ := repLink_ptr_some.mp hx
      injection hf with hf; subst hf
      have hnW : ¬ W b := by
        intro hw
        have hs := hW b nd hnd hw
        exact hd b (mem_nodeRep_fp.mpr (Or.inl (mem_ownFp.mpr ⟨hs, rfl⟩))) hw
      refine repLink_ptr_some.mpr ⟨f, nd, cs, rfl, hfr b nd hnd hnW, hv, ?_, rfl⟩
      refine seqO_map_congr h1 (fun l hl c hc => ih l c hc ?_)
      intro a ha
      obtain ⟨c', hc1, hc2⟩ := seqO_map_mem h1 hl
      rw [hc] at hc1; injection hc1 with hc1; subst hc1
      exact hd a (mem_nodeRep_fp.mpr (Or.inr ⟨c, hc2, ha⟩))
    | ref n =>
      obtain ⟨f', sn, cs, hf, hsn, hv, h1, rfl⟩ := repLink_ref_some.mp hx
      injection hf with hf; subst hf
      refine repLink_ref_some.mpr ⟨f, sn, cs, rfl, storeAt_append hsn ext, hv, ?_, rfl⟩
      refine seqO_map_congr h1 (fun l hl c hc => ih l c hc ?_)
      intro a ha
      obtain ⟨c', hc1, hc2⟩ := seqO_map_mem h1 hl
      rw [hc] at hc1; injection hc1 with hc1; subst hc1
      exact hd a (mem_nodeRep_fp.mpr (Or.inr ⟨c, hc2, ha⟩))

/-- allocation-only extensions preserve `repLink` -/
theorem repLink_allocOnly {h h' : Heap} {st : List SNode} (ha : AllocOnly h h') {f : Nat} {l : HLink}
    {x : Bool × T × List Nat} (hx : repLink h st f l = some x) : repLink h' st f l = some x := by
  have := repLink_frame (h := h) (h' := h') (st := st) [] (fun _ => False)
    (fun a nd hnd _ => ha a nd hnd) (fun _ _ _ hw => hw.elim) f l x hx (fun _ _ hw => hw)
  simpa using this

/-! ## tie to `absLink` (the abstraction the driver runs) -/

theorem repLink_absLink {h : Heap} {st : List SNode} : ∀ (f : Nat) (l : HLink) (p : Bool) (r : T) (fp : List Nat),
    repLink h st f l = some (p, r, fp) → absLink h st f l = some (p, r) := by
  intro f
  induction f with
  | zero =>
    intro l p r fp hx
    cases l with
    | nil => simp at hx; obtain ⟨rfl, rfl, rfl⟩ := hx; rfl
    | ptr a => cases hx
    | ref n => cases hx
  | succ f ih =>
    intro l p r fp hx
    cases l with
    | nil => simp at hx; obtain ⟨rfl, rfl, rfl⟩ := hx; rfl
    | ptr b =>
      obtain ⟨f', nd, cs, hf, hnd, hv, h1, h2⟩ := repLink_ptr_some.mp hx
      injection hf with hf; subst hf
      have := seqO_map_map (G := absLink h st f) (φ := fun c => (c.1, c.2.1)) h1
        (fun l _ c hc => ih l c.1 c.2.1 c.2.2 hc)
      simp only [absLink, hnd, this, Option.map_some]
      simp only [nodeRep, Prod.mk.injEq] at h2
      rw [h2.1, h2.2.1]
    | ref n =>
      obtain ⟨f', sn, cs, hf, hsn, hv, h1, h2⟩ := repLink_ref_some.mp hx
      injection hf with hf; subst hf
      have := seqO_map_map (G := absLink h st f) (φ := fun c => (c.1, c.2.1)) h1
        (fun l _ c hc => ih l c.1 c.2.1 c.2.2 hc)
      unfold storeAt at hsn
      unfold expandLinks at this
      simp only [absLink, hsn, this, Option.map_some]
      simp only [nodeRep, Prod.mk.injEq] at h2
      rw [h2.1, h2.2.1]

end Mast.Ptr
