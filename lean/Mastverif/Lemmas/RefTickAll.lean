import Mastverif.Lemmas.RefTickExample
import Mastverif.Lemmas.RefTickGo
/-! The main theorems of the load-bound development and their axioms. -/
open Mast.Ptr

#print axioms loadMast_tick
#print axioms clone_tick
#print axioms get_tick
#print axioms get_tick_layer
#print axioms flush_tick
#print axioms split_rsp
#print axioms split_ts
#print axioms insertPlan_ts
#print axioms insert_tick
#print axioms insert_tick'
#print axioms mergeNodes_ts
#print axioms deletePlan_ts
#print axioms delete_tick
#print axioms delete_tick'
#print axioms delete_tick_all
#print axioms depthLe_of_repTree
#print axioms insert_tick_inv
#print axioms delete_tick_inv
#print axioms Sys.apply_tick
#print axioms Sys.run_tick
#print axioms opDeep_of_den
#print axioms ws_fstep
#print axioms Sys.deep_of_refines
#print axioms Sys.run_tick_refines
#print axioms Sys.run_tick_init
#print axioms Sys.run_tick_scratch
#print axioms insertGo_tick
#print axioms deleteGo_tick
#print axioms loadWF_of_tree
