import Mastverif.Lemmas.RefDiff
import Mastverif.Lemmas.DiffLinks
/-!
# On persisted versions, the object-level `diffOne` IS the functional `diffOne`

For two versions held by name (every link on the stacks is a name; what hangs below a name in the
store holds names only), a store that never fails and a layer callback that never fails, one
`oStepBody` produces — event by event, link events included — what `Diff.step` produces on the
functional stacks the object-level stacks denote, with the name of a stored node read as
`nameOf (row it denotes)`.  The theorems of `Props/C07.lean` and `Props/C15.lean` about the literal
functional `diffOne` thereby speak about the object-level transcription.

Hypotheses: `NoFail E`; `Naming`: `nameOf` of the row a name denotes is a function `nm` of the name,
and `nm` is injective on the names in play (content addressing without collisions: two different
stored nodes denote different rows and get different names).
-/
namespace Mast.Ptr
open Mast.Heap Mast Mast.Diff Mast.T

def NoFail (E : Env) : Prop := (∀ t, E.failAt t = false) ∧ (∀ t, E.layerFailAt t = false)

/-- `nameOf` agrees with a naming `nm` of store indices, injective -/
structure Naming (nameOf : T → List UInt8) (nm : Nat → List UInt8) (st : List SNode) : Prop where
  agree : ∀ (h : Heap) g n x, repLink h st g (.ref n) = some x → nameOf x.2.1 = nm n
  inj : ∀ n1 n2, nm n1 = nm n2 → n1 = n2

def isRefItem : OItem → Bool
  | OItem.link (.ref _) => true
  | OItem.yld _ _ => true
  | _ => false

def AllRef (os : List OItem) : Prop := ∀ x ∈ os, isRefItem x = true

theorem loadRef_not_err (E : Env) (hnf : NoFail E) {s : PS} {g n : Nat} {x : Bool × T × List Nat}
    (hx : repLink s.heap s.store g (.ref n) = some x) : ∀ s', loadRef E n s ≠ .err s' := by
  intro s' h
  obtain ⟨_, sn, _, _, hsn, _, _, _⟩ := repLink_ref_some.mp hx
  unfold loadRef at h
  dsimp only at h
  split at h
  · cases h
  · rw [hnf.1] at h
    simp only [Bool.false_eq_true, if_false] at h
    have : (if n = 0 then none else s.store[n - 1]?) = some sn := hsn
    rw [this] at h
    simp only at h
    split at h <;> cases h

theorem tryE_ok_none {α : Type} {x : M α} {s s1 : PS} (h : tryE x s = .ok none s1) : x s = .err s1 := by
  unfold tryE at h
  cases hx : x s with
  | ok a s' => rw [hx] at h; cases h
  | err s' => rw [hx] at h; injection h with _ h2; rw [h2]
  | panic => rw [hx] at h; cases h
  | stuck => rw [hx] at h; cases h
  | oof => rw [hx] at h; cases h

theorem layerM_not_err (E : Env) (hnf : NoFail E) (k : Nat) (s : PS) : ∀ s', layerM E k s ≠ .err s' := by
  intro s' h
  unfold layerM at h
  rw [hnf.2] at h
  simp at h

theorem isRef_of_not_ptr {l : HLink} (h : isPtr l = false) : l = .nil ∨ ∃ n, l = .ref n := by
  cases l with
  | nil => exact Or.inl rfl
  | ptr a => simp [isPtr] at h
  | ref n => exact Or.inr ⟨n, rfl⟩

theorem allRef_olinkItem {l : HLink} (h : isPtr l = false) : AllRef (olinkItem l) := by
  intro x hx
  cases l with
  | nil => simp [olinkItem] at hx
  | ptr a => simp [isPtr] at h
  | ref n => simp [olinkItem] at hx; subst hx; rfl

theorem allRef_oitems : ∀ (ls : List HLink) (ks vs : List Nat), (∀ l ∈ ls, isPtr l = false) → AllRef (oitems ls ks vs) := by
  intro ls
  induction ls with
  | nil => intro ks vs _ x hx; simp [oitems] at hx
  | cons l ls ih =>
    intro ks vs h
    have hl := h l (List.mem_cons_self ..)
    have hls : ∀ l' ∈ ls, isPtr l' = false := fun l' hl' => h l' (List.mem_cons_of_mem _ hl')
    cases ks with
    | nil => simp only [oitems]; exact allRef_olinkItem hl
    | cons k ks =>
      cases vs with
      | nil => simp only [oitems]; exact allRef_olinkItem hl
      | cons v vs =>
        simp only [oitems]
        intro x hx
        rcases List.mem_append.mp hx with hx | hx
        · exact allRef_olinkItem hl x hx
        · rcases List.mem_cons.mp hx with rfl | hx
          · rfl
          · exact ih ks vs hls x hx

theorem AllRef.append {a b : List OItem} (ha : AllRef a) (hb : AllRef b) : AllRef (a ++ b) := by
  intro x hx
  rcases List.mem_append.mp hx with h | h
  · exact ha x h
  · exact hb x h

theorem AllRef.tail {x : OItem} {a : List OItem} (h : AllRef (x :: a)) : AllRef a :=
  fun y hy => h y (List.mem_cons_of_mem _ hy)

/-- what opening a name gives -/
structure RefView (s1 : PS) (g : Nat) (t : T) (nd : MNode) : Prop where
  hit : StackRep s1 g (oitems nd.links nd.keys nd.vals) (items t)
  hall : ∀ l ∈ nd.links, isPtr l = false
  hpass : ∀ c, nd.links = [c] → ∃ q crow fc, t = T.last q crow ∧ repLink s1.heap s1.store g c = some (q, crow, fc)
  hnopass : (∀ c, nd.links ≠ [c]) → isPass t = none
  hkey : nd.keys.head? = firstKey t
  hkeys1 : (∀ c, nd.links ≠ [c]) → nd.keys ≠ []
  hlen : nd.links.length = nd.keys.length + 1

/-- a name loaded and read, followed by a continuation -/
theorem open_ref_bind {m : Nat} {β : Type} (E : Env) {s : PS} {g n : Nat} {p : Bool} {t : T} {fp : List Nat}
    (hg : Good s) (hx : repLink s.heap s.store g (.ref n) = some (p, t, fp)) (k : MNode → M β) (Q : β → PS → Prop)
    (hk : ∀ nd s1, Grow m s s1 → RefView s1 g t nd → Spec (Grow m) (k nd) s1 Q) :
    Spec (Grow m) (do let a ← load E (.ref n); let nd ← read a; k nd) s Q := by
  refine Spec.bind (loadRef_spec (m := m) E n s hg) ?_
  rintro a s1 _ hgr ⟨hsh, hld⟩
  have hg1 := hgr.good hg
  have hxa := hld g _ hx
  obtain ⟨g', nd, cs, hg', hnd, hval, hseq, hxe⟩ := repLink_ptr_some.mp hxa
  refine Spec.bind (read_spec a s1) ?_
  rintro nd' s2 _ _ ⟨rfl, hnd'⟩
  rw [hnd] at hnd'; injection hnd' with hnd'; subst hnd'
  have ht : t = mkRow (cs.map fun c => (c.1, c.2.1)) nd.keys nd.vals := by
    have := congrArg (fun y => y.2.1) hxe
    simpa [nodeRep] using this
  subst hg'
  obtain ⟨nd2, hnd2, hshared⟩ := hsh
  rw [hnd] at hnd2; injection hnd2 with hnd2; subst hnd2
  have hall : ∀ l ∈ nd.links, isPtr l = false := hg1.sflat a nd hnd hshared
  have hlen := seqO_map_length hseq
  refine hk nd s1 hgr ⟨?_, hall, ?_, ?_, ?_, ?_, hval.1⟩
  · rw [ht]
    exact StackRep.mono (Nat.le_succ g') (oitems_rep nd.keys nd.links nd.vals cs hval.1 hval.2 hseq)
  · intro c hc
    have hseq' : seqO (([c] : List HLink).map (repLink s1.heap s1.store g')) = some cs := by rw [← hc]; exact hseq
    obtain ⟨c0, cs', hc0, hcs', hcseq⟩ := seqO_map_cons.mp hseq'
    simp only [List.map_nil] at hcs'
    rw [seqO_nil] at hcs'; injection hcs' with hcs'; subst hcs'
    have hk0 : nd.keys = [] := by
      have h1 := hval.1
      rw [hc] at h1
      exact List.eq_nil_of_length_eq_zero (by simpa using h1.symm)
    refine ⟨c0.1, c0.2.1, c0.2.2, ?_, repLink_mono _ _ _ hc0⟩
    rw [ht, hk0, hcseq]; simp [mkRow]
  · intro hns
    rw [ht]
    cases hk0 : nd.keys with
    | nil =>
      have : nd.links.length = 1 := by rw [hval.1, hk0]; rfl
      match hl : nd.links, this with
      | [c], _ => exact absurd hl (hns c)
    | cons k ks =>
      have hcl : cs.length = ks.length + 2 := by rw [hlen, hval.1, hk0]; simp
      have hvl : nd.vals.length = ks.length + 1 := by rw [hval.2, hk0]; simp
      match cs, nd.vals, hcl, hvl with
      | c0 :: c1 :: cs', v :: vs', _, _ => simp [mkRow, isPass]
  · rw [ht]
    cases hk0 : nd.keys with
    | nil =>
      have : cs.length = 1 := by rw [hlen, hval.1, hk0]; rfl
      match cs, this with
      | [c0], _ => simp [mkRow, firstKey]
    | cons k ks =>
      have hcl : cs.length = ks.length + 2 := by rw [hlen, hval.1, hk0]; simp
      have hvl : nd.vals.length = ks.length + 1 := by rw [hval.2, hk0]; simp
      match cs, nd.vals, hcl, hvl with
      | c0 :: c1 :: cs', v :: vs', _, _ => simp [mkRow, firstKey]
  · intro hns hk0
    have : nd.links.length = 1 := by rw [hval.1, hk0]; rfl
    match hl : nd.links, this with
    | [c], _ => exact absurd hl (hns c)

/-- `alreadyNotified`'s walk: on names, without failures, it finds the layer the functional `chain` finds -/
theorem ochain_sim {m : Nat} (E : Env) (hnf : NoFail E) : ∀ (f g : Nat) (l : HLink) (s : PS) (p : Bool) (t : T) (fp : List Nat),
    Good s → repLink s.heap s.store g l = some (p, t, fp) → isPtr l = false →
    Spec (Grow m) (ochain E f l) s (fun r _ => r = (chain E.layer p t).1) := by
  intro f
  induction f with
  | zero => intro g l s p t fp _ _ _; exact Spec.oof
  | succ f ih =>
    intro g l s p t fp hg hx hnp
    unfold ochain
    cases l with
    | ptr a => simp [isPtr] at hnp
    | nil =>
      rw [repLink_nil] at hx; injection hx with hx
      have ht : t = T.nil := by have := congrArg (fun y => y.2.1) hx; simpa using this.symm
      subst ht
      refine Spec.bind (tryE_spec (Q := fun _ _ => True) (Spec.fail (R := Grow m))) ?_
      intro r s1 heq _ _
      cases r with
      | none => exact Spec.pure (by simp [chain])
      | some a =>
        -- `load` of a nil link fails
        simp [tryE, load, failE] at heq
    | ref n =>
      refine Spec.bind (tryE_spec (loadRef_spec (m := m) E n s hg)) ?_
      intro r s1 heq hgr hq
      cases r with
      | none => exact absurd (tryE_ok_none heq) (loadRef_not_err E hnf hx s1)
      | some a =>
        simp only [] at hq ⊢
        obtain ⟨hsh, hld⟩ := hq
        have hg1 := hgr.good hg
        have hxa := hld g _ hx
        obtain ⟨g', nd, cs, hg', hnd, hval, hseq, hxe⟩ := repLink_ptr_some.mp hxa
        refine Spec.bind (read_spec a s1) ?_
        rintro nd' s2 _ _ ⟨rfl, hnd'⟩
        rw [hnd] at hnd'; injection hnd' with hnd'; subst hnd'
        have ht : t = mkRow (cs.map fun c => (c.1, c.2.1)) nd.keys nd.vals := by
          have := congrArg (fun y => y.2.1) hxe
          simpa [nodeRep] using this
        obtain ⟨nd2, hnd2, hshared⟩ := hsh
        rw [hnd] at hnd2; injection hnd2 with hnd2; subst hnd2
        have hall : ∀ l ∈ nd.links, isPtr l = false := hg1.sflat a nd hnd hshared
        have hlen := seqO_map_length hseq
        have hlayer : ∀ k, Spec (Grow m) (do
            match ← tryE (layerM E k) with
            | none => pure none
            | some lay => pure (some lay) : M (Option Nat)) s1 (fun r _ => r = some (E.layer k)) := by
          intro k
          refine Spec.bind (tryE_spec (layerM_spec (m := m) E k s1)) ?_
          intro r2 s3 heq2 _ hq2
          cases r2 with
          | none => exact absurd (tryE_ok_none heq2) (layerM_not_err E hnf k s1 s3)
          | some lay => simp only [] at hq2 ⊢; exact Spec.pure (by rw [hq2])
        cases hl : nd.links with
        | nil => have := hval.1; rw [hl] at this; simp at this
        | cons c ls =>
          cases ls with
          | nil =>
            -- a pass-through node
            simp only []
            have hseq' : seqO (([c] : List HLink).map (repLink s1.heap s1.store g')) = some cs := by rw [← hl]; exact hseq
            obtain ⟨c0, cs', hc0, hcs', hcseq⟩ := seqO_map_cons.mp hseq'
            simp only [List.map_nil] at hcs'
            rw [seqO_nil] at hcs'; injection hcs' with hcs'; subst hcs'
            have hk0 : nd.keys = [] := by
              have h1 := hval.1; rw [hl] at h1
              exact List.eq_nil_of_length_eq_zero (by simpa using h1.symm)
            have ht2 : t = T.last c0.1 c0.2.1 := by rw [ht, hk0, hcseq]; simp [mkRow]
            have := ih g' c s1 c0.1 c0.2.1 c0.2.2 hg1 hc0 (hall c (by rw [hl]; exact List.mem_cons_self ..))
            rw [ht2]
            simpa [chain] using this
          | cons c2 ls2 =>
            cases hk0 : nd.keys with
            | nil => have := hval.1; rw [hl, hk0] at this; simp at this
            | cons k ks =>
              simp only []
              have hcl : cs.length = ks.length + 2 := by rw [hlen, hval.1, hk0]; simp
              have hvl : nd.vals.length = ks.length + 1 := by rw [hval.2, hk0]; simp
              have ht2 : (chain E.layer p t).1 = some (E.layer k) := by
                rw [ht, hk0]
                match cs, nd.vals, hcl, hvl with
                | c0 :: c1 :: cs', v :: vs', _, _ => simp [mkRow, chain]
              rw [ht2]
              exact hlayer k

/-! ## memo tables -/

def lnm (nm : Nat → List UInt8) : HLink → List UInt8
  | .ref n => nm n
  | _ => []

def memoMap (nm : Nat → List UInt8) (mo : OMemo) : Memo := mo.map fun e => (e.1, lnm nm e.2)

def MemoRefs (mo : OMemo) : Prop := ∀ e ∈ mo, ∃ n, e.2 = .ref n

theorem memoGet_map (nm : Nat → List UInt8) (mo : OMemo) (h : Nat) :
    memoGet (memoMap nm mo) h = (omemoGet mo h).map (lnm nm) := by
  unfold memoGet omemoGet memoMap
  induction mo with
  | nil => rfl
  | cons e mo ih =>
    simp only [List.map_cons, List.find?_cons]
    by_cases he : e.1 == h
    · simp [he]
    · simp only [he]
      exact ih

theorem memoSet_map (nm : Nat → List UInt8) (mo : OMemo) (h : Nat) (l : HLink) :
    memoSet (memoMap nm mo) h (lnm nm l) = memoMap nm (omemoSet mo h l) := by
  unfold memoSet omemoSet memoMap
  simp only [List.map_cons, List.filter_map]
  congr 1

theorem omemoGet_mem {mo : OMemo} {h : Nat} {l : HLink} (hg : omemoGet mo h = some l) : ∃ e ∈ mo, e.2 = l := by
  unfold omemoGet at hg
  cases hf : mo.find? (fun e => e.1 == h) with
  | none => rw [hf] at hg; cases hg
  | some e =>
    rw [hf] at hg
    injection hg with hg
    exact ⟨e, List.mem_of_find?_eq_some hf, hg⟩

theorem MemoRefs.set {mo : OMemo} (hm : MemoRefs mo) (h n : Nat) : MemoRefs (omemoSet mo h (.ref n)) := by
  intro e he
  unfold omemoSet at he
  rcases List.mem_cons.mp he with rfl | he
  · exact ⟨n, rfl⟩
  · exact hm e (List.mem_filter.mp he).1

/-- the memo test of `alreadyNotified` agrees -/
theorem memo_test (nm : Nat → List UInt8) (hinj : ∀ a b, nm a = nm b → a = b) (mo : OMemo) (hm : MemoRefs mo) (h n : Nat) :
    (omemoGet mo h = some (.ref n)) ↔ (memoGet (memoMap nm mo) h == some (nm n)) = true := by
  rw [memoGet_map]
  constructor
  · intro hg; rw [hg]; simp [lnm]
  · intro hg
    cases hgo : omemoGet mo h with
    | none => rw [hgo] at hg; simp at hg
    | some l =>
      rw [hgo] at hg
      obtain ⟨e, hem, rfl⟩ := omemoGet_mem hgo
      obtain ⟨n', hn'⟩ := hm e hem
      rw [hn'] at hg ⊢
      simp only [Option.map_some, lnm, beq_iff_eq, Option.some.injEq] at hg
      rw [hinj n' n hg]

/-- `alreadyNotified` on a name agrees with the functional one -/
theorem onotified_sim {m : Nat} (E : Env) (hnf : NoFail E) (nameOf : T → List UInt8) (nm : Nat → List UInt8)
    (f g n : Nat) (mo : OMemo) (s : PS) (p : Bool) (t : T) (fp : List Nat)
    (hg : Good s) (hx : repLink s.heap s.store g (.ref n) = some (p, t, fp)) (hname : nameOf t = nm n)
    (hinj : ∀ a b, nm a = nm b → a = b) (hm : MemoRefs mo) :
    Spec (Grow m) (onotified E f mo (.ref n)) s (fun r _ =>
      r.1 = (notified E.layer nameOf (memoMap nm mo) p t).1 ∧
      memoMap nm r.2 = (notified E.layer nameOf (memoMap nm mo) p t).2.1 ∧ MemoRefs r.2) := by
  unfold onotified
  refine Spec.bind (ochain_sim (m := m) E hnf f g (.ref n) s p t fp hg hx rfl) ?_
  intro r s1 _ _ hr
  subst hr
  cases hc : (chain E.layer p t).1 with
  | none =>
    simp only [notified, hc]
    exact Spec.pure ⟨rfl, rfl, hm⟩
  | some h =>
    simp only [notified, hc]
    by_cases ht : omemoGet mo (h % 256) = some (.ref n)
    · have := (memo_test nm hinj mo hm (h % 256) n).mp ht
      simp only [ht, if_true, hname, this]
      exact Spec.pure ⟨rfl, rfl, hm⟩
    · have hn : ¬ ((memoGet (memoMap nm mo) (h % 256) == some (nm n)) = true) := fun h2 => ht ((memo_test nm hinj mo hm (h % 256) n).mpr h2)
      simp only [ht, if_false, hname, hn]
      refine Spec.pure ⟨rfl, ?_, hm.set _ _⟩
      show memoMap nm (omemoSet mo (h % 256) (.ref n)) = memoSet (memoMap nm mo) (h % 256) (nm n)
      rw [← memoSet_map]; rfl

/-! ## the step -/

/-- link events read with names -/
def evMap (nm : Nat → List UInt8) : OEv → DEv
  | .add k v => .add k v
  | .rem k v => .rem k v
  | .chg k a b => .chg k a b
  | .addLink l => .addLink (lnm nm l)
  | .remLink l => .remLink (lnm nm l)

structure StRel (nm : Nat → List UInt8) (s : PS) (g : Nat) (st : ODiff) (S : St) : Prop where
  old : StackRep s g st.old S.old
  new : StackRep s g st.new S.new
  ro : AllRef st.old
  rn : AllRef st.new
  mo : memoMap nm st.memoOld = S.memoOld
  mn : memoMap nm st.memoNew = S.memoNew
  ho : MemoRefs st.memoOld
  hn : MemoRefs st.memoNew

def SimRes (nm : Nat → List UInt8) (g : Nat) (s' : PS) (r : Option (ODiff × List OEv)) (R : Option Out) : Prop :=
  match r, R with
  | none, none => True
  | some x, some o => StRel nm s' g x.1 o.st ∧ x.2.map (evMap nm) = o.evs
  | _, _ => False

theorem ref_flag {s : PS} {g n : Nat} {p : Bool} {t : T} {fp : List Nat}
    (hx : repLink s.heap s.store g (.ref n) = some (p, t, fp)) : p = true := by
  obtain ⟨_, sn, cs, _, _, _, _, hxe⟩ := repLink_ref_some.mp hx
  have := congrArg (fun y => y.1) hxe
  simpa [nodeRep] using this

/-- opening the top link (a name) of one stack, with `alreadyNotified` before it -/
theorem open_one_sim {m : Nat} (E : Env) (hnf : NoFail E) (nameOf : T → List UInt8) (nm : Nat → List UInt8)
    (f : Nat) {s : PS} {g n : Nat} (memo : OMemo) {p : Bool} {t : T} {fp : List Nat}
    (hg : Good s) (hna : Naming nameOf nm s.store) (hx : repLink s.heap s.store g (.ref n) = some (p, t, fp))
    (hm : MemoRefs memo) (mk : Bool → OMemo → MNode → ODiff × List OEv) (Q : Option (ODiff × List OEv) → PS → Prop)
    (hQ : ∀ memo' nd s', Grow m s s' → StackRep s' g (oitems nd.links nd.keys nd.vals) (items t) →
      AllRef (oitems nd.links nd.keys nd.vals) →
      memoMap nm memo' = (notified E.layer nameOf (memoMap nm memo) p t).2.1 → MemoRefs memo' →
      Q (some (mk (notified E.layer nameOf (memoMap nm memo) p t).1 memo' nd)) s') :
    Spec (Grow m) (do
      let (nt, memo') ← onotified E f memo (.ref n)
      let a ← load E (.ref n)
      let nd ← read a
      pure (some (mk nt memo' nd))) s Q := by
  have hname : nameOf t = nm n := hna.agree s.heap g n _ hx
  refine Spec.bind (onotified_sim (m := m) E hnf nameOf nm f g n memo s p t fp hg hx hname hna.inj hm) ?_
  intro r s1 _ hgr1 hq
  obtain ⟨nt, memo'⟩ := r
  obtain ⟨h1, h2, h3⟩ := hq
  simp only [] at h1 h2 h3 ⊢
  refine open_ref_bind (m := m) E (hgr1.good hg) (hgr1.rep hx) _ Q ?_
  intro nd s2 hgr2 hv
  subst h1
  exact Spec.pure (hQ memo' nd s2 (hgr1.trans hgr2) hv.hit (allRef_oitems _ _ _ hv.hall) h2 h3)

theorem allRef_link {l : HLink} {os : List OItem} (h : AllRef (OItem.link l :: os)) : ∃ n, l = .ref n := by
  have := h (OItem.link l) (List.mem_cons_self ..)
  cases l with
  | nil => simp [isRefItem] at this
  | ptr a => simp [isRefItem] at this
  | ref n => exact ⟨n, rfl⟩

theorem AllRef.cons_yld {k v : Nat} {os : List OItem} (h : AllRef os) : AllRef (OItem.yld k v :: os) := by
  intro x hx
  rcases List.mem_cons.mp hx with rfl | hx
  · rfl
  · exact h x hx

theorem AllRef.cons_ref {n : Nat} {os : List OItem} (h : AllRef os) : AllRef (OItem.link (.ref n) :: os) := by
  intro x hx
  rcases List.mem_cons.mp hx with rfl | hx
  · rfl
  · exact h x hx

theorem oStepBody_sim_simple {m : Nat} (E : Env) (hnf : NoFail E) (nameOf : T → List UInt8) (nm : Nat → List UInt8)
    (f g : Nat) (st : ODiff) (S : St) (s : PS) (hg : Good s) (hna : Naming nameOf nm s.store) (hr : StRel nm s g st S)
    (hnl : ∀ la os lb ns, ¬ (st.old = OItem.link la :: os ∧ st.new = OItem.link lb :: ns)) :
    Spec (Grow m) (oStepBody E f st) s (fun r s' => SimRes nm g s' r (step E.layer nameOf S)) := by
  obtain ⟨old, new, mo, mn⟩ := st
  obtain ⟨Lo, Ln, Mo, Mn⟩ := S
  obtain ⟨hro, hrn, hao, han, hmo, hmn, hho, hhn⟩ := hr
  simp only at hro hrn hao han hmo hmn hho hhn hnl
  subst hmo; subst hmn
  match old, new, Lo, Ln, hro, hrn, hao, han, hnl with
  | [], [], [], [], _, _, _, _, _ =>
    simp only [oStepBody, step]
    exact Spec.pure trivial
  | [], OItem.yld k v :: ns, [], Item.yld k' v' :: Lnt, _, hrn, _, han, _ =>
    obtain ⟨rfl, rfl, hrn⟩ := hrn
    simp only [oStepBody, step]
    exact Spec.pure ⟨⟨trivial, hrn, (fun _ h => nomatch h), han.tail, rfl, rfl, hho, hhn⟩, rfl⟩
  | OItem.yld k v :: os, [], Item.yld k' v' :: Lot, [], hro, _, hao, _, _ =>
    obtain ⟨rfl, rfl, hro⟩ := hro
    simp only [oStepBody, step]
    exact Spec.pure ⟨⟨hro, trivial, hao.tail, (fun _ h => nomatch h), rfl, rfl, hho, hhn⟩, rfl⟩
  | OItem.yld k v :: os, OItem.yld k2 v2 :: ns, Item.yld k' v' :: Lot, Item.yld k2' v2' :: Lnt, hro, hrn, hao, han, _ =>
    obtain ⟨rfl, rfl, hro⟩ := hro
    obtain ⟨rfl, rfl, hrn⟩ := hrn
    simp only [oStepBody, step]
    by_cases h1 : k < k2
    · simp only [h1, if_true]
      exact Spec.pure ⟨⟨hro, ⟨rfl, rfl, hrn⟩, hao.tail, han, rfl, rfl, hho, hhn⟩, rfl⟩
    · by_cases h2 : k = k2
      · subst h2
        simp only [h1, if_false, if_true]
        refine Spec.pure ⟨⟨hro, hrn, hao.tail, han.tail, rfl, rfl, hho, hhn⟩, ?_⟩
        by_cases h3 : v = v2 <;> simp [h3, evMap]
      · simp only [h1, h2, if_false]
        exact Spec.pure ⟨⟨⟨rfl, rfl, hro⟩, hrn, hao, han.tail, rfl, rfl, hho, hhn⟩, rfl⟩
  | [], OItem.link l :: ns, [], Item.link p t :: Lnt, _, hrn, _, han, _ =>
    obtain ⟨n, rfl⟩ := allRef_link han
    obtain ⟨_, ⟨fp, hx⟩, hrn⟩ := hrn
    have hname : nameOf t = nm n := hna.agree s.heap g n _ hx
    simp only [oStepBody, step]
    refine open_one_sim (m := m) E hnf nameOf nm f mn hg hna hx hhn
      (fun nt memo nd => ({ old := [], new := oitems nd.links nd.keys nd.vals ++ ns, memoOld := mo, memoNew := memo },
        if nt then [] else [OEv.addLink (.ref n)])) _ ?_
    intro memo' nd s' hgr hit hall hmm hmr
    refine ⟨⟨trivial, StackRep.append hit (hrn.grow hgr), (fun _ h => nomatch h), hall.append han.tail, rfl, hmm, hho, hmr⟩, ?_⟩
    cases (notified E.layer nameOf (memoMap nm mn) p t).1 <;> simp [evMap, lnm, hname]
  | OItem.link l :: os, [], Item.link p t :: Lot, [], hro, _, hao, _, _ =>
    obtain ⟨n, rfl⟩ := allRef_link hao
    obtain ⟨_, ⟨fp, hx⟩, hro⟩ := hro
    have hname : nameOf t = nm n := hna.agree s.heap g n _ hx
    simp only [oStepBody, step]
    refine open_one_sim (m := m) E hnf nameOf nm f mo hg hna hx hho
      (fun nt memo nd => ({ old := oitems nd.links nd.keys nd.vals ++ os, new := [], memoOld := memo, memoNew := mn },
        if nt then [] else [OEv.remLink (.ref n)])) _ ?_
    intro memo' nd s' hgr hit hall hmm hmr
    refine ⟨⟨StackRep.append hit (hro.grow hgr), trivial, hall.append hao.tail, (fun _ h => nomatch h), hmm, rfl, hmr, hhn⟩, ?_⟩
    cases (notified E.layer nameOf (memoMap nm mo) p t).1 <;> simp [evMap, lnm, hname]
  | OItem.link l :: os, OItem.yld k v :: ns, Item.link p t :: Lot, Item.yld k' v' :: Lnt, hro, hrn, hao, han, _ =>
    obtain ⟨n, rfl⟩ := allRef_link hao
    obtain ⟨_, ⟨fp, hx⟩, hro⟩ := hro
    obtain ⟨rfl, rfl, hrn⟩ := hrn
    have hname : nameOf t = nm n := hna.agree s.heap g n _ hx
    simp only [oStepBody, step]
    refine open_one_sim (m := m) E hnf nameOf nm f mo hg hna hx hho
      (fun nt memo nd => ({ old := oitems nd.links nd.keys nd.vals ++ os, new := OItem.yld k v :: ns, memoOld := memo, memoNew := mn },
        if nt then [] else [OEv.remLink (.ref n)])) _ ?_
    intro memo' nd s' hgr hit hall hmm hmr
    refine ⟨⟨StackRep.append hit (hro.grow hgr), ⟨rfl, rfl, hrn.grow hgr⟩, hall.append hao.tail, han, hmm, rfl, hmr, hhn⟩, ?_⟩
    cases (notified E.layer nameOf (memoMap nm mo) p t).1 <;> simp [evMap, lnm, hname]
  | OItem.yld k v :: os, OItem.link l :: ns, Item.yld k' v' :: Lot, Item.link p t :: Lnt, hro, hrn, hao, han, _ =>
    obtain ⟨n, rfl⟩ := allRef_link han
    obtain ⟨rfl, rfl, hro⟩ := hro
    obtain ⟨_, ⟨fp, hx⟩, hrn⟩ := hrn
    have hname : nameOf t = nm n := hna.agree s.heap g n _ hx
    simp only [oStepBody, step]
    refine open_one_sim (m := m) E hnf nameOf nm f mn hg hna hx hhn
      (fun nt memo nd => ({ old := OItem.yld k v :: os, new := oitems nd.links nd.keys nd.vals ++ ns, memoOld := mo, memoNew := memo },
        if nt then [] else [OEv.addLink (.ref n)])) _ ?_
    intro memo' nd s' hgr hit hall hmm hmr
    refine ⟨⟨⟨rfl, rfl, hro.grow hgr⟩, StackRep.append hit (hrn.grow hgr), hao, hall.append han.tail, rfl, hmm, hho, hmr⟩, ?_⟩
    cases (notified E.layer nameOf (memoMap nm mn) p t).1 <;> simp [evMap, lnm, hname]
  | OItem.link la :: os, OItem.link lb :: ns, _, _, _, _, _, _, hnl =>
    exact absurd ⟨rfl, rfl⟩ (hnl la os lb ns)

theorem isPass_last (q : Bool) (c : T) : isPass (T.last q c) = some (q, c) := rfl

/-- the events of the link-against-link branch, read with names -/
theorem evs_link_link (nameOf : T → List UInt8) (nm : Nat → List UInt8) (no nn : Bool) (n1 n2 : Nat) (ta tb : T)
    (h1 : nameOf ta = nm n1) (h2 : nameOf tb = nm n2) :
    ((if no then [] else [OEv.remLink (.ref n1)]) ++ (if nn then [] else [OEv.addLink (.ref n2)])).map (evMap nm) =
      (if no then [] else [DEv.remLink (nameOf ta)]) ++ (if nn then [] else [DEv.addLink (nameOf tb)]) := by
  cases no <;> cases nn <;> simp [evMap, lnm, h1, h2]

/-- the tail of the link-against-link branch (the old node is not a pass-through node) -/
theorem link_link_rest_sim {m : Nat} (E : Env) (nameOf : T → List UInt8) (nm : Nat → List UInt8)
    {s : PS} {g : Nat} (na : MNode) (n1 n2 : Nat) (os ns : List OItem)
    (memoO memoN : OMemo) (evs : List OEv) (EVS : List DEv) (LDS : List (List UInt8)) (MO MN : Memo)
    {pa pb : Bool} {ta tb : T} {Lot Lnt : List Item}
    (hg : Good s) (hev : evs.map (evMap nm) = EVS)
    (hxa : ∃ fp, repLink s.heap s.store g (.ref n1) = some (pa, ta, fp))
    (hxb : ∃ fp, repLink s.heap s.store g (.ref n2) = some (pb, tb, fp))
    (hro : StackRep s g os Lot) (hrn : StackRep s g ns Lnt) (hao : AllRef os) (han : AllRef ns)
    (hmo : memoMap nm memoO = MO) (hmn : memoMap nm memoN = MN) (hho : MemoRefs memoO) (hhn : MemoRefs memoN)
    (hitA : StackRep s g (oitems na.links na.keys na.vals) (items ta)) (hallA : AllRef (oitems na.links na.keys na.vals))
    (hpassA : isPass ta = none) (hkeyA : na.keys.head? = firstKey ta) (hkA : na.keys ≠ []) :
    Spec (Grow m) (do
      let b ← load E (.ref n2)
      let nb ← read b
      match nb.links with
      | [c] => pure (some (({ old := OItem.link (.ref n1) :: os, new := olinkItem c ++ ns, memoOld := memoO, memoNew := memoN } : ODiff), evs))
      | _ =>
        match na.keys, nb.keys with
        | ka :: _, kb :: _ =>
          if ka < kb then
            pure (some (({ old := oitems na.links na.keys na.vals ++ os, new := OItem.link (.ref n2) :: ns, memoOld := memoO, memoNew := memoN } : ODiff), evs))
          else if kb < ka then
            pure (some (({ old := OItem.link (.ref n1) :: os, new := oitems nb.links nb.keys nb.vals ++ ns, memoOld := memoO, memoNew := memoN } : ODiff), evs))
          else
            pure (some (({ old := oitems na.links na.keys na.vals ++ os,
                           new := oitems nb.links nb.keys nb.vals ++ ns, memoOld := memoO, memoNew := memoN } : ODiff), evs))
        | _, _ => panicE) s
      (fun r s' => SimRes nm g s' r
        (match isPass tb with
          | some (q, c) =>
              some { st := { old := Item.link pa ta :: Lot, new := linkItem q c ++ Lnt, memoOld := MO, memoNew := MN },
                     evs := EVS, loads := LDS ++ ld nameOf pa ta ++ ld nameOf pb tb }
          | none =>
            let lds := LDS ++ ld nameOf pa ta ++ ld nameOf pb tb
            match firstKey ta, firstKey tb with
            | some ka, some kb =>
                if ka < kb then
                  some { st := { old := items ta ++ Lot, new := Item.link pb tb :: Lnt, memoOld := MO, memoNew := MN }, evs := EVS, loads := lds }
                else if kb < ka then
                  some { st := { old := Item.link pa ta :: Lot, new := items tb ++ Lnt, memoOld := MO, memoNew := MN }, evs := EVS, loads := lds }
                else
                  some { st := { old := items ta ++ Lot, new := items tb ++ Lnt, memoOld := MO, memoNew := MN }, evs := EVS, loads := lds }
            | _, _ =>
                some { st := { old := items ta ++ Lot, new := items tb ++ Lnt, memoOld := MO, memoNew := MN }, evs := EVS, loads := lds })) := by
  obtain ⟨fpb, hxb⟩ := hxb
  refine open_ref_bind (m := m) E hg hxb _ _ ?_
  intro nb s1 hgr vb
  have hro1 := hro.grow hgr
  have hrn1 := hrn.grow hgr
  have hitA1 := hitA.grow hgr
  have hxa1 : ∃ fp, repLink s1.heap s1.store g (.ref n1) = some (pa, ta, fp) := by
    obtain ⟨fp, h⟩ := hxa; exact ⟨fp, hgr.rep h⟩
  have hxb1 : ∃ fp, repLink s1.heap s1.store g (.ref n2) = some (pb, tb, fp) := ⟨fpb, hgr.rep hxb⟩
  have hallB := allRef_oitems nb.links nb.keys nb.vals vb.hall
  have relA : StackRep s1 g (OItem.link (.ref n1) :: os) (Item.link pa ta :: Lot) := ⟨by simp, hxa1, hro1⟩
  have relB : StackRep s1 g (OItem.link (.ref n2) :: ns) (Item.link pb tb :: Lnt) := ⟨by simp, hxb1, hrn1⟩
  cases hl : nb.links with
  | nil => have := vb.hlen; rw [hl] at this; simp at this
  | cons c cs =>
    cases cs with
    | nil =>
      simp only []
      obtain ⟨q, crow, fc, rfl, hc⟩ := vb.hpass c hl
      rw [isPass_last]
      have hcnp : isPtr c = false := vb.hall c (by rw [hl]; exact List.mem_cons_self ..)
      refine Spec.pure ⟨⟨relA, StackRep.append (linkItem_rep hc) hrn1, hao.cons_ref, (allRef_olinkItem hcnp).append han, hmo, hmn, hho, hhn⟩, hev⟩
    | cons c2 cs2 =>
      simp only []
      have hns : ∀ c', nb.links ≠ [c'] := by intro c'; rw [hl]; simp
      rw [vb.hnopass hns]
      have hkB := vb.hkeys1 hns
      cases hka : na.keys with
      | nil => exact absurd hka hkA
      | cons ka kas =>
        cases hkb : nb.keys with
        | nil => exact absurd hkb hkB
        | cons kb kbs =>
          have hfa : firstKey ta = some ka := by rw [← hkeyA, hka]; rfl
          have hfb : firstKey tb = some kb := by rw [← vb.hkey, hkb]; rfl
          simp only [hfa, hfb]
          have hitB := vb.hit
          rw [hl] at hitB hallB
          rw [hka] at hitA1 hallA
          rw [hkb] at hitB hallB
          by_cases h1 : ka < kb
          · simp only [h1, if_true]
            exact Spec.pure ⟨⟨StackRep.append hitA1 hro1, relB, hallA.append hao, han.cons_ref, hmo, hmn, hho, hhn⟩, hev⟩
          · by_cases h2 : kb < ka
            · simp only [h1, h2, if_false, if_true]
              exact Spec.pure ⟨⟨relA, StackRep.append hitB hrn1, hao.cons_ref, hallB.append han, hmo, hmn, hho, hhn⟩, hev⟩
            · simp only [h1, h2, if_false]
              exact Spec.pure ⟨⟨StackRep.append hitA1 hro1, StackRep.append hitB hrn1, hallA.append hao, hallB.append han, hmo, hmn, hho, hhn⟩, hev⟩

theorem oStepBody_sim_links {m : Nat} (E : Env) (hnf : NoFail E) (nameOf : T → List UInt8) (nm : Nat → List UInt8)
    (f g : Nat) (s : PS) (n1 n2 : Nat) (os ns : List OItem) (mo mn : OMemo)
    (pa pb : Bool) (ta tb : T) (Lot Lnt : List Item)
    (hg : Good s) (hna : Naming nameOf nm s.store)
    (hxa : ∃ fp, repLink s.heap s.store g (.ref n1) = some (pa, ta, fp))
    (hxb : ∃ fp, repLink s.heap s.store g (.ref n2) = some (pb, tb, fp))
    (hro : StackRep s g os Lot) (hrn : StackRep s g ns Lnt) (hao : AllRef os) (han : AllRef ns)
    (hho : MemoRefs mo) (hhn : MemoRefs mn) :
    Spec (Grow m) (oStepBody E f { old := OItem.link (.ref n1) :: os, new := OItem.link (.ref n2) :: ns, memoOld := mo, memoNew := mn }) s
      (fun r s' => SimRes nm g s' r (step E.layer nameOf
        { old := Item.link pa ta :: Lot, new := Item.link pb tb :: Lnt, memoOld := memoMap nm mo, memoNew := memoMap nm mn })) := by
  obtain ⟨fa, hxa⟩ := hxa
  obtain ⟨fb, hxb⟩ := hxb
  have hpa := ref_flag hxa
  have hpb := ref_flag hxb
  subst hpa; subst hpb
  have hna1 : nameOf ta = nm n1 := hna.agree s.heap g n1 _ hxa
  have hna2 : nameOf tb = nm n2 := hna.agree s.heap g n2 _ hxb
  simp only [oStepBody, step]
  by_cases he : n1 = n2
  · subst he
    rw [hxa] at hxb
    injection hxb with hxb
    have hta : ta = tb := by
      have := congrArg (fun y => y.2.1) hxb
      simpa using this
    subst hta
    simp only [linkEq, Bool.and_self, BEq.rfl, if_true]
    exact Spec.pure ⟨⟨hro, hrn, hao, han, rfl, rfl, hho, hhn⟩, rfl⟩
  · have hne : (HLink.ref n1 = HLink.ref n2) = False := by
      simp only [HLink.ref.injEq]; exact eq_false he
    have hle : linkEq nameOf true ta true tb = false := by
      simp only [linkEq, Bool.and_self, Bool.true_and, beq_eq_false_iff_ne, ne_eq, hna1, hna2]
      exact fun h => he (hna.inj _ _ h)
    simp only [hne, if_false, hle, Bool.false_eq_true]
    refine Spec.bind (onotified_sim (m := m) E hnf nameOf nm f g n1 mo s true ta fa hg hxa hna1 hna.inj hho) ?_
    intro r1 s1 _ hgr1 hq1
    obtain ⟨no, memoO⟩ := r1
    obtain ⟨h1a, h1b, h1c⟩ := hq1
    simp only [] at h1a h1b h1c ⊢
    have hg1 := hgr1.good hg
    refine Spec.bind (onotified_sim (m := m) E hnf nameOf nm f g n2 mn s1 true tb fb hg1 (hgr1.rep hxb) hna2 hna.inj hhn) ?_
    intro r2 s2 _ hgr2 hq2
    obtain ⟨nn, memoN⟩ := r2
    obtain ⟨h2a, h2b, h2c⟩ := hq2
    simp only [] at h2a h2b h2c ⊢
    have hg2 := hgr2.good hg1
    have hgr12 := hgr1.trans hgr2
    have hxa2 := hgr12.rep hxa
    have hxb2 := hgr12.rep hxb
    rcases hN1 : notified E.layer nameOf (memoMap nm mo) true ta with ⟨NO, MO, L1⟩
    rcases hN2 : notified E.layer nameOf (memoMap nm mn) true tb with ⟨NN, MN, L2⟩
    rw [hN1] at h1a h1b
    rw [hN2] at h2a h2b
    simp only [] at h1a h1b h2a h2b
    subst h1a; subst h2a
    have hev := evs_link_link nameOf nm no nn n1 n2 ta tb hna1 hna2
    refine open_ref_bind (m := m) E hg2 hxa2 _ _ ?_
    intro na s3 hgr3 va
    have hg3 := hgr3.good hg2
    have hro3 := (hro.grow hgr12).grow hgr3
    have hrn3 := (hrn.grow hgr12).grow hgr3
    have hxb3 : ∃ fp, repLink s3.heap s3.store g (.ref n2) = some (true, tb, fp) := ⟨fb, hgr3.rep hxb2⟩
    have hxa3 : ∃ fp, repLink s3.heap s3.store g (.ref n1) = some (true, ta, fp) := ⟨fa, hgr3.rep hxa2⟩
    cases hl : na.links with
    | nil => have := va.hlen; rw [hl] at this; simp at this
    | cons c cs =>
      cases cs with
      | nil =>
        simp only []
        obtain ⟨q, crow, fc, rfl, hc⟩ := va.hpass c hl
        rw [isPass_last]
        have hcnp : isPtr c = false := va.hall c (by rw [hl]; exact List.mem_cons_self ..)
        exact Spec.pure ⟨⟨StackRep.append (linkItem_rep hc) hro3, ⟨by simp, hxb3, hrn3⟩,
          (allRef_olinkItem hcnp).append hao, han.cons_ref, h1b, h2b, h1c, h2c⟩, hev⟩
      | cons c2 cs2 =>
        simp only []
        have hns : ∀ c', na.links ≠ [c'] := by intro c'; rw [hl]; simp
        rw [va.hnopass hns]
        simp only []
        have hitA := va.hit
        have hallA := allRef_oitems na.links na.keys na.vals va.hall
        have hrest := link_link_rest_sim (m := m) E nameOf nm na n1 n2 os ns memoO memoN _ _ (L1 ++ L2) MO MN
          hg3 hev hxa3 hxb3 hro3 hrn3 hao han h1b h2b h1c h2c hitA hallA (va.hnopass hns) va.hkey (va.hkeys1 hns)
        rw [hl] at hrest
        exact hrest

/-- **one step**: on stacks of names, without failures, `oStepBody` is `Diff.step` -/
theorem oStepBody_sim {m : Nat} (E : Env) (hnf : NoFail E) (nameOf : T → List UInt8) (nm : Nat → List UInt8)
    (f g : Nat) (st : ODiff) (S : St) (s : PS) (hg : Good s) (hna : Naming nameOf nm s.store) (hr : StRel nm s g st S) :
    Spec (Grow m) (oStepBody E f st) s (fun r s' => SimRes nm g s' r (step E.layer nameOf S)) := by
  by_cases hll : ∃ la os lb ns, st.old = OItem.link la :: os ∧ st.new = OItem.link lb :: ns
  · obtain ⟨la, os, lb, ns, ho, hn⟩ := hll
    obtain ⟨old, new, mo, mn⟩ := st
    obtain ⟨Lo, Ln, Mo, Mn⟩ := S
    obtain ⟨hro, hrn, hao, han, hmo, hmn, hho, hhn⟩ := hr
    simp only at ho hn hro hrn hao han hmo hmn hho hhn
    subst ho; subst hn; subst hmo; subst hmn
    obtain ⟨n1, rfl⟩ := allRef_link hao
    obtain ⟨n2, rfl⟩ := allRef_link han
    match Lo, Ln, hro, hrn with
    | Item.link pa ta :: Lot, Item.link pb tb :: Lnt, hro, hrn =>
      exact oStepBody_sim_links (m := m) E hnf nameOf nm f g s n1 n2 os ns mo mn pa pb ta tb Lot Lnt hg hna
        hro.2.1 hrn.2.1 hro.2.2 hrn.2.2 hao.tail han.tail hho hhn
  · exact oStepBody_sim_simple (m := m) E hnf nameOf nm f g st S s hg hna hr
      (fun la os lb ns h => hll ⟨la, os, lb, ns, h.1, h.2⟩)

/-- **the loop**: the events of the object-level diff loop, link events read with names, are the events
    of the functional loop with the same number of rounds -/
theorem oRun_sim {m : Nat} (E : Env) (hnf : NoFail E) (nameOf : T → List UInt8) (nm : Nat → List UInt8) (f g : Nat) :
    ∀ (n : Nat) (st : ODiff) (S : St) (s : PS), Good s → Naming nameOf nm s.store → StRel nm s g st S →
    Spec (Grow m) (oRun E f n st) s (fun evs _ => evs.map (evMap nm) = (Diff.run E.layer nameOf n S).1) := by
  intro n
  induction n with
  | zero => intro st S s _ _ _; exact Spec.oof
  | succ n ih =>
    intro st S s hg hna hr
    unfold oRun oStep
    refine Spec.bind (Spec.bind (tryE_spec (oStepBody_sim (m := m) E hnf nameOf nm f g st S s hg hna hr))
      (Q := fun r s' => r.2 = false → SimRes nm g s' r.1 (step E.layer nameOf S)) ?_) ?_
    · intro r s1 _ _ hq
      cases r with
      | none => exact Spec.pure (fun h => nomatch h)
      | some x => exact Spec.pure (fun _ => hq)
    · intro r s1 _ hgr hq
      cases hr2 : r.2 with
      | true => simp only [if_true]; exact Spec.fail
      | false =>
        simp only [Bool.false_eq_true, if_false]
        have hsim := hq hr2
        have hna1 : Naming nameOf nm s1.store := by rw [hgr.store]; exact hna
        simp only [Diff.run]
        cases hr1 : r.1 with
        | none =>
          rw [hr1] at hsim
          cases hst : step E.layer nameOf S with
          | none => exact Spec.pure rfl
          | some o => rw [hst] at hsim; exact hsim.elim
        | some x =>
          rw [hr1] at hsim
          cases hst : step E.layer nameOf S with
          | none => rw [hst] at hsim; exact hsim.elim
          | some o =>
            rw [hst] at hsim
            obtain ⟨hrel, hevs⟩ := hsim
            obtain ⟨st', evs⟩ := x
            simp only [] at hrel hevs ⊢
            refine Spec.bind (ih st' o.st s1 (hgr.good hg) hna1 hrel) ?_
            intro rest s2 _ _ hrest
            refine Spec.pure ?_
            rw [List.map_append, hevs, hrest]

end Mast.Ptr
