import Mastverif.Model.Heap
/-! Frame lemma and preservation of `Closed` / `Agree` by guarded foreign actions. -/
namespace Mast.Heap

theorem sequenceO_congr {f g : HLink → Option (List Tok)} {ls : List HLink}
    (h : ∀ l ∈ ls, f l = g l) : sequenceO (ls.map f) = sequenceO (ls.map g) := by
  induction ls with
  | nil => rfl
  | cons l ls ih =>
    have h1 := h l (by simp)
    have h2 := ih (fun l' hl' => h l' (by simp [hl']))
    simp only [List.map_cons, h1]
    cases g l <;> simp [sequenceO, h2]

/-- FRAME: operations that leave v's visible objects alone cannot change what v observes. -/
theorem frame (h h' : Heap) (v : Nat) (hc : Closed h v) (ha : Agree h h' v) :
    ∀ (f : Nat) (l : HLink), Vis h v l → contents h' f l = contents h f l := by
  intro f
  induction f with
  | zero => intro l _; cases l <;> simp [contents]
  | succ f ih =>
    intro l hv
    cases l with
    | nil => simp [contents]
    | ref n => simp [contents]
    | ptr a =>
      obtain ⟨nd, hnd, hso⟩ := hv
      have hnd' := ha a nd hnd hso
      simp only [contents, hnd, hnd']
      have := sequenceO_congr (f := contents h' f) (g := contents h f) (ls := nd.links)
        (fun l hl => ih l (hc a nd hnd hso l hl))
      rw [this]

theorem vis_mono {h h' : Heap} {v : Nat} (ha : Agree h h' v) {l : HLink} (hv : Vis h v l) : Vis h' v l := by
  cases l with
  | nil => trivial
  | ref n => trivial
  | ptr a =>
    obtain ⟨nd, hnd, hso⟩ := hv
    exact ⟨nd, ha a nd hnd hso, hso⟩

theorem getElem?_append_single {h : Heap} {nd : MNode} {a : Nat} {x : MNode}
    (hx : (h ++ [nd])[a]? = some x) : h[a]? = some x ∨ (a = h.length ∧ x = nd) := by
  by_cases hlt : a < h.length
  · left; rw [List.getElem?_append_left hlt] at hx; exact hx
  · right
    have hge : h.length ≤ a := by omega
    rw [List.getElem?_append_right hge] at hx
    have : a - h.length = 0 := by
      cases hk : a - h.length with
      | zero => rfl
      | succ k => rw [hk] at hx; simp at hx
    rw [this] at hx
    simp at hx
    exact ⟨by omega, hx.symm⟩

/-- a guarded action that is foreign to `v` leaves everything `v` can see untouched and keeps
    `v`'s view closed -/
theorem foreign_step {h h' : Heap} {v : Nat} {act : Act}
    (hc : Closed h v) (hf : Foreign v act) (hs : applyAct h act = some h') :
    Agree h h' v ∧ Closed h' v := by
  cases act with
  | alloc nd =>
    simp only [applyAct] at hs
    split at hs
    · next hg =>
      injection hs with hs; subst hs
      have hag : Agree h (h ++ [nd]) v := by
        intro a x hx _
        have hlt : a < h.length := by
          have := List.getElem?_eq_some_iff.mp hx; exact this.1
        rw [List.getElem?_append_left hlt]; exact hx
      refine ⟨hag, ?_⟩
      intro a x hx hso l hl
      rcases getElem?_append_single hx with hx | ⟨_, rfl⟩
      · exact vis_mono hag (hc a x hx hso l hl)
      · -- the new object: visible to v only if shared, and then it has no pointer links
        simp only [Foreign] at hf
        rcases hso with hsh | how
        · have := hg.2 hsh
          have hl' := List.all_eq_true.mp this l hl
          cases l <;> simp_all [isPtr, Vis]
        · exact absurd how hf
    · cases hs
  | write m a nd =>
    simp only [applyAct] at hs
    cases hold : h[a]? with
    | none => simp [hold] at hs
    | some old =>
      simp only [hold] at hs
      split at hs
      · next hg =>
        injection hs with hs; subst hs
        simp only [Foreign] at hf
        obtain ⟨ho, hsh, hno, hnsh, _, _⟩ := hg
        have hne : ∀ b x, h[b]? = some x → (x.shared = true ∨ x.owner = v) → b ≠ a := by
          intro b x hx hso hba
          subst hba
          rw [hold] at hx; injection hx with hx; subst hx
          rcases hso with h1 | h1
          · rw [hsh] at h1; cases h1
          · exact hf (ho ▸ h1)
        have hag : Agree h (h.set a nd) v := by
          intro b x hx hso
          rw [List.getElem?_set_ne (Ne.symm (hne b x hx hso))]; exact hx
        refine ⟨hag, ?_⟩
        intro b x hx hso l hl
        by_cases hba : b = a
        · subst hba
          have hlt : b < h.length := (List.getElem?_eq_some_iff.mp hold).1
          rw [List.getElem?_set_self hlt] at hx
          injection hx with hx; subst hx
          rcases hso with h1 | h1
          · rw [hnsh] at h1; cases h1
          · exact absurd (hno ▸ h1) hf
        · rw [List.getElem?_set_ne (Ne.symm hba)] at hx
          exact vis_mono hag (hc b x hx hso l hl)
      · cases hs
  | publish m a links =>
    simp only [applyAct] at hs
    cases hold : h[a]? with
    | none => simp [hold] at hs
    | some old =>
      simp only [hold] at hs
      split at hs
      · next hg =>
        injection hs with hs; subst hs
        simp only [Foreign] at hf
        obtain ⟨ho, hsh, hlk, _⟩ := hg
        have hne : ∀ b x, h[b]? = some x → (x.shared = true ∨ x.owner = v) → b ≠ a := by
          intro b x hx hso hba
          subst hba
          rw [hold] at hx; injection hx with hx; subst hx
          rcases hso with h1 | h1
          · rw [hsh] at h1; cases h1
          · exact hf (ho ▸ h1)
        have hag : Agree h (h.set a { old with links := links, dirty := false, shared := true }) v := by
          intro b x hx hso
          rw [List.getElem?_set_ne (Ne.symm (hne b x hx hso))]; exact hx
        refine ⟨hag, ?_⟩
        intro b x hx hso l hl
        by_cases hba : b = a
        · subst hba
          have hlt : b < h.length := (List.getElem?_eq_some_iff.mp hold).1
          rw [List.getElem?_set_self hlt] at hx
          injection hx with hx; subst hx
          have hl' := List.all_eq_true.mp hlk l hl
          cases l <;> simp_all [isPtr, Vis]
        · rw [List.getElem?_set_ne (Ne.symm hba)] at hx
          exact vis_mono hag (hc b x hx hso l hl)
      · cases hs

theorem agree_refl (h : Heap) (v : Nat) : Agree h h v := fun _ _ hx _ => hx

theorem agree_trans {h1 h2 h3 : Heap} {v : Nat} (a : Agree h1 h2 v) (b : Agree h2 h3 v) : Agree h1 h3 v :=
  fun x nd hx hso => b x nd (a x nd hx hso) hso

/-- lifted to action sequences -/
theorem foreign_run {v : Nat} : ∀ (acts : List Act) (h h' : Heap),
    Closed h v → (∀ act ∈ acts, Foreign v act) → run h acts = some h' →
    Agree h h' v ∧ Closed h' v := by
  intro acts
  induction acts with
  | nil =>
    intro h h' hc _ hr
    simp only [run] at hr; injection hr with hr; subst hr
    exact ⟨agree_refl h v, hc⟩
  | cons act acts ih =>
    intro h h' hc hf hr
    simp only [run] at hr
    cases hs : applyAct h act with
    | none => simp [hs] at hr
    | some h1 =>
      simp only [hs] at hr
      obtain ⟨ha1, hc1⟩ := foreign_step hc (hf act (by simp)) hs
      obtain ⟨ha2, hc2⟩ := ih h1 h' hc1 (fun a ha => hf a (by simp [ha])) hr
      exact ⟨agree_trans ha1 ha2, hc2⟩

theorem getElem?_append_left' {h ext : Heap} {a : Nat} {nd : MNode} (hx : h[a]? = some nd) :
    (h ++ ext)[a]? = some nd := by
  have hlt : a < h.length := (List.getElem?_eq_some_iff.mp hx).1
  rw [List.getElem?_append_left hlt]; exact hx

theorem contents_append (h ext : Heap) : ∀ (fuel : Nat) (l : HLink) (c : List Tok),
    contents h fuel l = some c → contents (h ++ ext) fuel l = some c := by
  intro fuel
  induction fuel with
  | zero => intro l c hc; cases l <;> simp_all [contents]
  | succ f ih =>
    intro l c hc
    cases l with
    | nil => simpa [contents] using hc
    | ref n => simpa [contents] using hc
    | ptr a =>
      simp only [contents] at hc ⊢
      cases hnd : h[a]? with
      | none => simp [hnd] at hc
      | some nd =>
        simp only [hnd] at hc
        rw [getElem?_append_left' hnd]
        simp only []
        have key : ∀ (ls : List HLink) (cs : List (List Tok)),
            sequenceO (ls.map (contents h f)) = some cs →
            sequenceO (ls.map (contents (h ++ ext) f)) = some cs := by
          intro ls
          induction ls with
          | nil => intro cs h1; simpa [sequenceO] using h1
          | cons x xs ihx =>
            intro cs h1
            simp only [List.map_cons] at h1 ⊢
            cases hx : contents h f x with
            | none => simp [hx, sequenceO] at h1
            | some cx =>
              rw [hx] at h1
              rw [ih x cx hx]
              simp only [sequenceO] at h1 ⊢
              cases hrest : sequenceO (xs.map (contents h f)) with
              | none => simp [hrest] at h1
              | some crest =>
                rw [hrest] at h1
                rw [ihx crest hrest]
                exact h1
        cases hseq : sequenceO (nd.links.map (contents h f)) with
        | none => simp [hseq] at hc
        | some cs =>
          rw [hseq] at hc
          rw [key nd.links cs hseq]
          exact hc


end Mast.Heap
