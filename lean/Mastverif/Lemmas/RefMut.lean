import Mastverif.Lemmas.RefStep
/-! `toMut` and the first loop of `savePathForRoot` (`mutPath`). -/
namespace Mast.Ptr
open Mast.Heap

/-- dirty flags are not reset -/
def DirtyMono (h h' : Heap) : Prop :=
  ∀ (b : Nat) (nd : MNode), h[b]? = some nd → nd.dirty = true → ∃ nd', h'[b]? = some nd' ∧ nd'.dirty = true

theorem DirtyMono.refl (h : Heap) : DirtyMono h h := fun _ nd hnd hd => ⟨nd, hnd, hd⟩
theorem DirtyMono.trans {h1 h2 h3 : Heap} (a : DirtyMono h1 h2) (b : DirtyMono h2 h3) : DirtyMono h1 h3 := by
  intro x nd hnd hd
  obtain ⟨nd2, h2, d2⟩ := a x nd hnd hd
  exact b x nd2 h2 d2
theorem DirtyMono.of_allocOnly {h h' : Heap} (ha : AllocOnly h h') : DirtyMono h h' :=
  fun b nd hnd hd => ⟨nd, ha b nd hnd, hd⟩

/-- the unshared copy `ToMut` makes -/
def mutCopy (m : Nat) (nd : MNode) : MNode := { nd with shared := false, owner := m, source := none }

theorem toMut_spec {m : Nat} (a : Nat) (s : PS) :
    Spec (Grow m) (toMut m a) s (fun a' s' => ∃ nd, s.heap[a]? = some nd ∧
      ((nd.shared = false ∧ a' = a ∧ s' = s) ∨
       (nd.shared = true ∧ a' = s.heap.length ∧ s' = { s with heap := s.heap ++ [mutCopy m nd] }))) := by
  unfold toMut
  refine Spec.bind (read_spec a s) ?_
  rintro nd s1 _ _ ⟨rfl, hnd⟩
  split
  · exact Spec.panic
  · split
    · next hs => exact Spec.pure ⟨nd, hnd, Or.inl ⟨by simpa using hs, rfl, rfl⟩⟩
    · next hs =>
      refine (alloc_spec (m := m) (mutCopy m nd) s (Or.inr rfl) (fun _ => rfl)).conseq ?_
      rintro a' s' _ _ ⟨rfl, rfl⟩
      exact ⟨nd, hnd, Or.inr ⟨by simpa using hs, rfl, rfl⟩⟩

/-- the node object after `mutPath` treated it -/
def OwnDirty (h : Heap) (m a : Nat) : Prop :=
  ∃ nd, h[a]? = some nd ∧ nd.shared = false ∧ nd.owner = m ∧ nd.dirty = true

/-- what the body of `mutPath` does to one node -/
def MutNodeOK (m a : Nat) (nd : MNode) (a' : Nat) (s s' : PS) : Prop :=
  Shape s.heap s'.heap ∧ DirtyMono s.heap s'.heap ∧
  (∃ nd', s'.heap[a']? = some nd' ∧ nd'.keys = nd.keys ∧ nd'.vals = nd.vals ∧ nd'.links = nd.links ∧
    nd'.shared = false ∧ nd'.owner = m ∧ nd'.dirty = true) ∧
  ((nd.shared = false ∧ a' = a ∧ s'.heap.length = s.heap.length) ∨
   (nd.shared = true ∧ a' = s.heap.length ∧ s'.heap.length = s.heap.length + 1))

theorem shape_set {h : Heap} {a : Nat} {old nd : MNode} (ho : h[a]? = some old) (e1 : nd.keys = old.keys)
    (e2 : nd.vals = old.vals) (e3 : nd.links = old.links) (e4 : nd.shared = old.shared) (e5 : nd.owner = old.owner) :
    Shape h (h.set a nd) := by
  intro b x hx
  by_cases hba : b = a
  · subst hba
    rw [ho] at hx; injection hx with hx; subst hx
    exact ⟨nd, List.getElem?_set_self (List.getElem?_eq_some_iff.mp ho).1, e1, e2, e3, e4, e5⟩
  · exact ⟨x, by rw [List.getElem?_set_ne (Ne.symm hba)]; exact hx, rfl, rfl, rfl, rfl, rfl⟩

theorem dirtyMono_set {h : Heap} {a : Nat} {old nd : MNode} (ho : h[a]? = some old)
    (hd : old.dirty = true → nd.dirty = true) : DirtyMono h (h.set a nd) := by
  intro b x hx hxd
  by_cases hba : b = a
  · subst hba
    rw [ho] at hx; injection hx with hx; subst hx
    exact ⟨nd, List.getElem?_set_self (List.getElem?_eq_some_iff.mp ho).1, hd hxd⟩
  · exact ⟨x, by rw [List.getElem?_set_ne (Ne.symm hba)]; exact hx, hxd⟩

theorem mutNode_spec {m : Nat} (a : Nat) (nd : MNode) (s : PS) (hg : Good s) (hnd : s.heap[a]? = some nd)
    (hown : nd.shared = false → nd.owner = m) :
    Spec (Step m) (if nd.dirty then (pure a : M Nat) else do
        let a' ← toMut m a
        let nd' ← read a'
        write m a' { nd' with dirty := true, source := none }
        pure a') s (fun a' s' => MutNodeOK m a nd a' s s') := by
  split
  · next hd =>
    have hs : nd.shared = false := hg.du a nd hnd hd
    exact Spec.pure ⟨Shape.refl _, DirtyMono.refl _, ⟨nd, hnd, rfl, rfl, rfl, hs, hown hs, hd⟩, Or.inl ⟨hs, rfl, rfl⟩⟩
  · next hd =>
    refine Spec.bind (toMut_spec (m := m) a s).toStep ?_
    rintro a' s1 _ hst1 ⟨nd0, hnd0, hcase⟩
    rw [hnd] at hnd0; injection hnd0 with hnd0; subst hnd0
    refine Spec.bind (read_spec a' s1) ?_
    rintro nd' s2 _ _ ⟨rfl, hnd'⟩
    refine Spec.bind (write_spec (m := m) a' _ s1) ?_
    rintro _ s3 _ hst3 ⟨old, hold, ho1, ho2, _, _, _, rfl⟩
    rw [hnd'] at hold; injection hold with hold; subst hold
    refine Spec.pure ?_
    have hlt : a' < s1.heap.length := (List.getElem?_eq_some_iff.mp hnd').1
    have hself : (s1.heap.set a' { nd' with dirty := true, source := none })[a']? =
        some { nd' with dirty := true, source := none } := List.getElem?_set_self hlt
    have hsh2 : Shape s1.heap (s1.heap.set a' { nd' with dirty := true, source := none }) :=
      shape_set hnd' rfl rfl rfl rfl rfl
    have hdm2 : DirtyMono s1.heap (s1.heap.set a' { nd' with dirty := true, source := none }) :=
      dirtyMono_set hnd' (fun _ => rfl)
    rcases hcase with ⟨hs, rfl, rfl⟩ | ⟨hs, rfl, rfl⟩
    · rw [hnd] at hnd'; injection hnd' with hnd'; subst hnd'
      exact ⟨hsh2, hdm2, ⟨_, hself, rfl, rfl, rfl, hs, ho1, rfl⟩, Or.inl ⟨hs, rfl, by simp⟩⟩
    · have hal := allocOnly_append s.heap (mutCopy m nd)
      have : nd' = mutCopy m nd := by
        have h2 : (s.heap ++ [mutCopy m nd])[s.heap.length]? = some (mutCopy m nd) := getElem?_append_self _ _
        rw [h2] at hnd'; injection hnd' with hnd'; exact hnd'.symm
      subst this
      exact ⟨(Shape.of_allocOnly hal).trans hsh2, (DirtyMono.of_allocOnly hal).trans hdm2,
        ⟨_, hself, rfl, rfl, rfl, rfl, rfl, rfl⟩, Or.inr ⟨hs, rfl, by simp⟩⟩

end Mast.Ptr
