import Mastverif.Lemmas.RefFp
import Mastverif.Lemmas.RefRows2
/-!
Contexts: the nodes of a search path with the results of the sibling links.  `plug frs x` is what the top
of the path denotes when the bottom node denotes `x` and every path link is a pointer.
-/
namespace Mast.Ptr
open Mast.Heap

/-- one node of the path: its own footprint part, its entries, the results of the links left and right
    of the path link -/
structure Fr where
  own : List Nat
  ks : List Nat
  vs : List Nat
  L : List (Bool × T × List Nat)
  R : List (Bool × T × List Nat)

def Fr.plug (fr : Fr) (x : Bool × T × List Nat) : Bool × T × List Nat :=
  nodeRep false fr.own fr.ks fr.vs (fr.L ++ (false, x.2.1, x.2.2) :: fr.R)

def plug : List Fr → (Bool × T × List Nat) → (Bool × T × List Nat)
  | [], x => x
  | fr :: frs, x => fr.plug (plug frs x)

def Fr.plugRow (fr : Fr) (r : T) : T := mkRow (fr.L.map pr ++ (false, r) :: fr.R.map pr) fr.ks fr.vs

def plugRow : List Fr → T → T
  | [], r => r
  | fr :: frs, r => fr.plugRow (plugRow frs r)

/-- the part of the footprint before / after the bottom's -/
def plugA : List Fr → List Nat
  | [] => []
  | fr :: frs => fr.own ++ fps fr.L ++ plugA frs

def plugB : List Fr → List Nat
  | [] => []
  | fr :: frs => plugB frs ++ fps fr.R

theorem Fr.plug_row (fr : Fr) (x : Bool × T × List Nat) : (fr.plug x).2.1 = fr.plugRow x.2.1 := by
  simp [Fr.plug, Fr.plugRow, nodeRep_row, pr]

theorem Fr.plug_fp (fr : Fr) (x : Bool × T × List Nat) :
    (fr.plug x).2.2 = fr.own ++ fps fr.L ++ x.2.2 ++ fps fr.R := by
  simp [Fr.plug, nodeRep_fp, List.append_assoc]

theorem Fr.plug_flag (fr : Fr) (x : Bool × T × List Nat) : (fr.plug x).1 = false := rfl

theorem plug_row (frs : List Fr) (x : Bool × T × List Nat) : (plug frs x).2.1 = plugRow frs x.2.1 := by
  induction frs with
  | nil => rfl
  | cons fr frs ih => simp only [plug, plugRow, Fr.plug_row, ih]

theorem plug_fp (frs : List Fr) (x : Bool × T × List Nat) : (plug frs x).2.2 = plugA frs ++ x.2.2 ++ plugB frs := by
  induction frs with
  | nil => simp [plug, plugA, plugB]
  | cons fr frs ih => simp only [plug, plugA, plugB, Fr.plug_fp, ih, List.append_assoc]

/-- the frame fits the key: the path link is at the key's index, the key is not in this node -/
def Fr.OK (key : Nat) (fr : Fr) : Prop :=
  fr.L.length + fr.R.length = fr.ks.length ∧ fr.vs.length = fr.ks.length ∧
    keyIdx fr.ks key = fr.L.length ∧ fr.ks[fr.L.length]? ≠ some key

/-- the path `(a₀,i₀) … (aₙ,iₙ)` in the heap: every node but the last is valid, its links other than `iⱼ`
    denote the frame's sibling results -/
def Ctx (h : Heap) (st : List SNode) : List (Nat × Nat) → List Fr → Prop
  | [_], [] => True
  | (a, i) :: (b, j) :: rest, fr :: frs =>
    (∃ nd g, h[a]? = some nd ∧ ValidN nd ∧ fr.own = ownFp nd a ∧ fr.ks = nd.keys ∧ fr.vs = nd.vals ∧
      i = fr.L.length ∧ i < nd.links.length ∧
      seqO ((nd.links.take i).map (repLink h st g)) = some fr.L ∧
      seqO ((nd.links.drop (i + 1)).map (repLink h st g)) = some fr.R) ∧
    Ctx h st ((b, j) :: rest) frs
  | _, _ => False

theorem Ctx.length {h : Heap} {st : List SNode} : ∀ {p : List (Nat × Nat)} {frs : List Fr},
    Ctx h st p frs → p.length = frs.length + 1 := by
  intro p
  induction p with
  | nil => intro frs hc; cases frs <;> exact hc.elim
  | cons x p ih =>
    intro frs hc
    cases p with
    | nil =>
      cases frs with
      | nil => rfl
      | cons _ _ => exact hc.elim
    | cons y rest =>
      cases frs with
      | nil => exact hc.elim
      | cons fr frs =>
        obtain ⟨a, i⟩ := x
        obtain ⟨b, j⟩ := y
        have := ih hc.2
        simp at this ⊢
        omega

/-- frame lemma for contexts: objects outside `W` are kept, `W` avoids the context's footprint -/
theorem Ctx.frame {h h' : Heap} {st : List SNode} (W : Nat → Prop)
    (hfr : ∀ a nd, h[a]? = some nd → ¬ W a → h'[a]? = some nd)
    (hW : ∀ a nd, h[a]? = some nd → W a → nd.shared = false) :
    ∀ {p : List (Nat × Nat)} {frs : List Fr}, Ctx h st p frs →
      (∀ y ∈ plugA frs ++ plugB frs, ¬ W y) → Ctx h' st p frs := by
  intro p
  induction p with
  | nil => intro frs hc; cases frs <;> exact hc.elim
  | cons x p ih =>
    intro frs hc hd
    cases p with
    | nil =>
      cases frs with
      | nil => trivial
      | cons _ _ => exact hc.elim
    | cons y rest =>
      cases frs with
      | nil => exact hc.elim
      | cons fr frs =>
        obtain ⟨a, i⟩ := x
        obtain ⟨b, j⟩ := y
        obtain ⟨⟨nd, g, hnd, hv, hown, hks, hvs, hi, hilt, hL, hR⟩, hrest⟩ := hc
        have hd' : ∀ y ∈ plugA frs ++ plugB frs, ¬ W y := by
          intro y hy
          apply hd y
          simp only [plugA, plugB, List.mem_append] at hy ⊢
          rcases hy with hy | hy
          · exact Or.inl (Or.inr hy)
          · exact Or.inr (Or.inl hy)
        refine ⟨⟨nd, g, ?_, hv, hown, hks, hvs, hi, hilt, ?_, ?_⟩, ih hrest hd'⟩
        · apply hfr a nd hnd
          intro hw
          have hs := hW a nd hnd hw
          apply hd a _ hw
          simp only [plugA, List.mem_append]
          left; left; left
          rw [hown]; exact mem_ownFp.mpr ⟨hs, rfl⟩
        · refine seqO_map_congr hL (fun l hl c hc => ?_)
          have := repLink_frame (h := h) (h' := h') (st := st) [] W hfr hW g l c hc ?_
          · simpa using this
          · intro y hy
            apply hd y
            obtain ⟨c', hc1, hc2⟩ := seqO_map_mem hL hl
            rw [hc] at hc1; injection hc1 with hc1; subst hc1
            simp only [plugA, List.mem_append]
            left; left; right
            exact mem_fps.mpr ⟨c, hc2, hy⟩
        · refine seqO_map_congr hR (fun l hl c hc => ?_)
          have := repLink_frame (h := h) (h' := h') (st := st) [] W hfr hW g l c hc ?_
          · simpa using this
          · intro y hy
            apply hd y
            obtain ⟨c', hc1, hc2⟩ := seqO_map_mem hR hl
            rw [hc] at hc1; injection hc1 with hc1; subst hc1
            simp only [plugB, List.mem_append]
            right; right
            exact mem_fps.mpr ⟨c, hc2, hy⟩

theorem Ctx.allocOnly {h h' : Heap} {st : List SNode} (ha : AllocOnly h h') {p : List (Nat × Nat)} {frs : List Fr}
    (hc : Ctx h st p frs) : Ctx h' st p frs :=
  Ctx.frame (fun _ => False) (fun a nd hnd _ => ha a nd hnd) (fun _ _ _ hw => hw.elim) hc (fun _ _ hw => hw)

/-- the context's footprint consists of valid addresses -/
theorem Ctx.fp_lt {h : Heap} {st : List SNode} : ∀ {p : List (Nat × Nat)} {frs : List Fr}, Ctx h st p frs →
    ∀ y ∈ plugA frs ++ plugB frs, y < h.length := by
  intro p
  induction p with
  | nil => intro frs hc; cases frs <;> exact hc.elim
  | cons x p ih =>
    intro frs hc
    cases p with
    | nil =>
      cases frs with
      | nil => intro y hy; simp [plugA, plugB] at hy
      | cons _ _ => exact hc.elim
    | cons y rest =>
      cases frs with
      | nil => exact hc.elim
      | cons fr frs =>
        obtain ⟨a, i⟩ := x
        obtain ⟨b, j⟩ := y
        obtain ⟨⟨nd, g, hnd, hv, hown, hks, hvs, hi, hilt, hL, hR⟩, hrest⟩ := hc
        intro y hy
        have ih' := ih hrest y
        simp only [plugA, plugB, List.mem_append] at hy ih'
        rcases hy with ((hy | hy) | hy) | (hy | hy)
        · rw [hown] at hy
          obtain ⟨_, rfl⟩ := mem_ownFp.mp hy
          exact (List.getElem?_eq_some_iff.mp hnd).1
        · obtain ⟨c, hc, hyc⟩ := mem_fps.mp hy
          obtain ⟨k, hk⟩ := List.getElem?_of_mem hc
          have hlen := seqO_map_length hL
          have hlt : k < (nd.links.take i).length := by rw [← hlen]; exact (List.getElem?_eq_some_iff.mp hk).1
          obtain ⟨c', hc1, hc2⟩ := seqO_map_getElem? hL (List.getElem?_eq_getElem hlt)
          rw [hk] at hc2; injection hc2 with hc2; subst hc2
          exact repLink_fp_lt hc1 hyc
        · exact ih' (Or.inl hy)
        · exact ih' (Or.inr hy)
        · obtain ⟨c, hc, hyc⟩ := mem_fps.mp hy
          obtain ⟨k, hk⟩ := List.getElem?_of_mem hc
          have hlen := seqO_map_length hR
          have hlt : k < (nd.links.drop (i + 1)).length := by rw [← hlen]; exact (List.getElem?_eq_some_iff.mp hk).1
          obtain ⟨c', hc1, hc2⟩ := seqO_map_getElem? hR (List.getElem?_eq_getElem hlt)
          rw [hk] at hc2; injection hc2 with hc2; subst hc2
          exact repLink_fp_lt hc1 hyc

/-- a context does not depend on the last node of the path -/
theorem Ctx.setLast {h : Heap} {st : List SNode} : ∀ {p : List (Nat × Nat)} {frs : List Fr} (z : Nat × Nat),
    Ctx h st p frs → Ctx h st (p.dropLast ++ [z]) frs := by
  intro p
  induction p with
  | nil => intro frs z hc; cases frs <;> exact hc.elim
  | cons x p ih =>
    intro frs z hc
    cases p with
    | nil =>
      cases frs with
      | nil => trivial
      | cons _ _ => exact hc.elim
    | cons y rest =>
      cases frs with
      | nil => exact hc.elim
      | cons fr frs =>
        obtain ⟨a, i⟩ := x
        obtain ⟨b, j⟩ := y
        have h2 := ih z hc.2
        have hne : ((b, j) :: rest).dropLast ++ [z] ≠ [] := by simp
        rw [List.dropLast_cons_cons, List.cons_append]
        generalize ((b, j) :: rest).dropLast ++ [z] = q at h2 hne
        match q, hne with
        | (b', j') :: rest', _ => exact ⟨hc.1, h2⟩

end Mast.Ptr
