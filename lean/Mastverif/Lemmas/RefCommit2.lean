import Mastverif.Lemmas.RefCommit
/-! `insertCommit` refines `T.ins`. -/
namespace Mast.Ptr
open Mast.Heap

/-- what `insertCommit` establishes: the new root link denotes the inserted row -/
def CommitOK (key val n0 : Nat) (x : Bool × T × List Nat) (lv : Nat) (root : HLink) (s' : PS) : Prop :=
  ∃ a0 g' y, root = .ptr a0 ∧ repLink s'.heap s'.store g' (.ptr a0) = some y ∧
    T.ins key val lv (T.unmk x.2.1) = some y.2.1 ∧ FpExt n0 x.2.2 y.2.2 ∧ rootDirty s'.heap root = true

/-- after the write: `savePath` finishes the job -/
theorem commitFinish {m : Nat} {s0 s1 s1a : PS} {path : List (Nat × Nat)} {frs : List Fr}
    {node i a' G n2 key val lv : Nat} {nd ndN : MNode} {csb cs' : List (Bool × T × List Nat)}
    {x : Bool × T × List Nat}
    (hst0 : Step m s0 { s1a with heap := s1a.heap.set a' ndN }) (hgb : Good { s1a with heap := s1a.heap.set a' ndN })
    (hstore : s1a.store = s1.store)
    (hown0 : FpOwned s0.heap m x.2.2)
    (hctx : Ctx s1.heap s1.store path frs) (hlast : path.getLast? = some (node, i))
    (hnd : s1.heap[node]? = some nd)
    (hcase : (nd.shared = false ∧ a' = node ∧ s1a.heap = s1.heap) ∨
             (nd.shared = true ∧ a' = s1.heap.length ∧ s1a.heap = s1.heap ++ [mutCopy m nd]))
    (hN1 : ndN.shared = false)
    (hK1 : seqO (ndN.links.map (repLink s1.heap s1.store G)) = some cs') (hK2 : ValidN ndN)
    (hK4 : FpExt n2 (fps csb) (fps cs')) (hK5 : isEmptyN ndN = false)
    (hn02 : s0.heap.length ≤ n2) (hn2 : n2 ≤ s1.heap.length)
    (hlt : ∀ y ∈ (plug frs (bottomRep nd node csb)).2.2, y < n2)
    (hfp0 : FpExt s0.heap.length x.2.2 (plug frs (bottomRep nd node csb)).2.2)
    (hins0 : T.ins key val 0 (bottomRep nd node csb).2.1 = some (mkRow (cs'.map pr) ndN.keys ndN.vals))
    (hins : T.ins key val lv (T.unmk x.2.1) = (T.ins key val 0 (bottomRep nd node csb).2.1).map (plugRow frs)) :
    Spec (Step m) (savePath m (setLastNode path a')) { s1a with heap := s1a.heap.set a' ndN }
      (fun root s' => CommitOK key val s0.heap.length x lv root s') := by
  obtain ⟨hctxb, hlastb, hrepb, hfpb⟩ := afterWrite (m := m) (h1a := s1a.heap) (a' := a') hctx hlast hnd hcase hN1 hK1 hK2
    hK4 hn2 hlt hfp0.1
  have ha'lt : a' < s1a.heap.length := by
    rcases hcase with ⟨_, rfl, h⟩ | ⟨_, rfl, h⟩
    · rw [h]; exact (List.getElem?_eq_some_iff.mp hnd).1
    · rw [h]; simp
  have hfpall : FpExt s0.heap.length x.2.2 (plug frs (nodeRep false [a'] ndN.keys ndN.vals cs')).2.2 :=
    hfp0.trans hfpb hn02
  have hctxb' : Ctx ({ s1a with heap := s1a.heap.set a' ndN } : PS).heap
      ({ s1a with heap := s1a.heap.set a' ndN } : PS).store (setLastNode path a') frs := by
    show Ctx (s1a.heap.set a' ndN) s1a.store _ _
    rw [hstore]; exact hctxb
  have hrepb' : repLink ({ s1a with heap := s1a.heap.set a' ndN } : PS).heap
      ({ s1a with heap := s1a.heap.set a' ndN } : PS).store (G + 1) (.ptr a') =
      some (nodeRep false [a'] ndN.keys ndN.vals cs') := by
    show repLink (s1a.heap.set a' ndN) s1a.store _ _ = _
    rw [hstore]; exact hrepb
  have howned : FpOwned ({ s1a with heap := s1a.heap.set a' ndN } : PS).heap m
      (plug frs (nodeRep false [a'] ndN.keys ndN.vals cs')).2.2 :=
    fpOwned_of_step hst0 hown0 hfpall (plug_fp_unshared hctxb' hrepb')
  refine (savePath_spec (m := m) (setLastNode path a') frs _ _ (G + 1) a' i ndN hgb hctxb' hlastb hrepb'
    (List.getElem?_set_self ha'lt) hK5 hfpall.1 howned).conseq ?_
  rintro root s' _ hst' ⟨a0, g', y, rfl, hy, hyrow, hyfp, hdirty⟩
  refine ⟨a0, g', y, rfl, hy, ?_, hfpall.trans hyfp hst0.len, hdirty⟩
  rw [hins, hins0, hyrow, nodeRep_row]
  rfl

theorem length_insertAt {α : Type} (l : List α) (i : Nat) (x : α) (h : i ≤ l.length) :
    (insertAt l i x).length = l.length + 1 := by
  unfold insertAt
  simp only [List.length_append, List.length_take, List.length_cons, List.length_drop]
  omega

theorem isEmptyN_false_of_length {nd : MNode} (h : 2 ≤ nd.links.length) : isEmptyN nd = false := by
  have : ¬ (isEmptyN nd = true) := by
    rw [isEmptyN_iff]
    intro h0; rw [h0] at h; simp at h
  simpa using this

theorem insertCommit_spec (t : PTree) (p : InsPlan) (key val : Nat) (s0 s1 : PS) (x : Bool × T × List Nat)
    (height target : Nat) (hg1 : Good s1) (hst01 : Step t.id s0 s1) (hown0 : FpOwned s0.heap t.id x.2.2)
    (hplan : PlanOK key val s0.heap.length x height target p s1.heap s1.store) :
    Spec (Step t.id) (insertCommit t p key val) s1
      (fun root s2 => CommitOK key val s0.heap.length x (height - target) root s2) := by
  obtain ⟨frs, gb, csb, nd, n2, hctx, hoks, hlast, hnd, hv, hkids, hidx, hn02, hn2, hlt, hfp0, hget, hins, hpres,
    habs⟩ := hplan
  have hile : p.found.idx ≤ nd.keys.length := by rw [hidx]; exact keyIdx_le _ _
  have hcl : (csb.map pr).length = nd.keys.length + 1 := by
    rw [List.length_map, seqO_map_length hkids]; exact hv.1
  have hnb : (fps csb).Nodup := by
    have h1 := hfp0.1
    rw [plug_fp] at h1
    have h2 : (bottomRep nd p.found.node csb).2.2.Nodup := (List.nodup_append.mp (List.nodup_append.mp h1).1).2.1
    unfold bottomRep at h2
    rw [nodeRep_fp] at h2
    exact (List.nodup_append.mp h2).2.1
  have hltk : ∀ y ∈ fps csb, y < n2 := by
    intro y hy
    apply hlt y
    rw [plug_fp]
    simp only [List.mem_append]
    left; right
    show y ∈ (nodeRep false _ _ _ csb).2.2
    rw [nodeRep_fp]
    exact List.mem_append.mpr (Or.inr hy)
  unfold insertCommit
  refine Spec.bind (toMut_spec (m := t.id) p.found.node s1).toStep ?_
  rintro a' s1a _ hst1a ⟨nd0, hnd0, hcase⟩
  rw [hnd] at hnd0; injection hnd0 with hnd0; subst hnd0
  refine Spec.bind (read_spec a' s1a) ?_
  rintro nd' s _ _ ⟨rfl, hnd'⟩
  have hnd'eq : nd'.keys = nd.keys ∧ nd'.vals = nd.vals ∧ nd'.links = nd.links ∧ nd'.shared = false := by
    rcases hcase with ⟨hs, rfl, rfl⟩ | ⟨hs, rfl, rfl⟩
    · rw [hnd] at hnd'; injection hnd' with h; subst h; exact ⟨rfl, rfl, rfl, hs⟩
    · have h2 : (s1.heap ++ [mutCopy t.id nd])[s1.heap.length]? = some (mutCopy t.id nd) := getElem?_append_self _ _
      rw [h2] at hnd'; injection hnd' with h; subst h; exact ⟨rfl, rfl, rfl, rfl⟩
  obtain ⟨ek, ev, el, es⟩ := hnd'eq
  have hcase' : (nd.shared = false ∧ a' = p.found.node ∧ s1a.heap = s1.heap) ∨
      (nd.shared = true ∧ a' = s1.heap.length ∧ s1a.heap = s1.heap ++ [mutCopy t.id nd]) := by
    rcases hcase with ⟨hs, h1, h2⟩ | ⟨hs, h1, h2⟩
    · exact Or.inl ⟨hs, h1, by rw [h2]⟩
    · exact Or.inr ⟨hs, h1, by rw [h2]⟩
  dsimp only
  by_cases hp : p.present = true
  · simp only [hp, if_true]
    obtain ⟨hkey, _⟩ := hpres hp
    refine Spec.bind (write_spec (m := t.id) a' _ s1a) ?_
    rintro _ s1b _ hst1b ⟨old, hold, ho1, ho2, hn1, hn2', _, rfl⟩
    refine commitFinish (m := t.id) (s0 := s0) (s1 := s1) (s1a := s1a) (csb := csb) (cs' := csb) (G := gb) (n2 := n2)
      (hst01.trans (hst1a.trans hst1b)) (hst1b.good (hst1a.good hg1)) hst1a.store hown0 hctx hlast hnd hcase' es
      ?_ ?_ (FpExt.refl hnb) ?_ hn02 hn2 hlt hfp0 ?_ (hins val)
    · show seqO (nd'.links.map _) = some csb
      rw [el]; exact hkids
    · show nd'.links.length = nd'.keys.length + 1 ∧ (nd'.vals.set p.found.idx val).length = nd'.keys.length
      rw [el, ek, ev, List.length_set]; exact hv
    · apply isEmptyN_false_of_length
      show 2 ≤ nd'.links.length
      rw [el, hv.1]
      have := (List.getElem?_eq_some_iff.mp hkey).1
      omega
    · show T.ins key val 0 (mkRow (csb.map pr) nd.keys nd.vals) =
        some (mkRow (csb.map pr) nd'.keys (nd'.vals.set p.found.idx val))
      rw [ins_mkRow_zero nd.keys (csb.map pr) nd.vals key val hcl hv.2, ← hidx, if_pos hkey, ek, ev]
  · have hp' : p.present = false := by simpa using hp
    simp only [hp', Bool.false_eq_true, if_false]
    obtain ⟨hkey, cl, hcl2, gs, xl, xr, hxl, hxr, hxlf, hxrf, hxlrow, hxrrow, hsfp⟩ := habs hp'
    dsimp only at hxl hxr
    refine Spec.bind (write_spec (m := t.id) a' _ s1a) ?_
    rintro _ s1b _ hst1b ⟨old, hold, ho1, ho2, hn1, hn2', _, rfl⟩
    have hilt : p.found.idx < nd.links.length := by rw [hv.1]; omega
    have hcsb := take_append_getElem_drop hcl2
    refine commitFinish (m := t.id) (s0 := s0) (s1 := s1) (s1a := s1a) (csb := csb)
      (cs' := csb.take p.found.idx ++ xl :: xr :: csb.drop (p.found.idx + 1)) (G := max gb gs) (n2 := n2)
      (hst01.trans (hst1a.trans hst1b)) (hst1b.good (hst1a.good hg1)) hst1a.store hown0 hctx hlast hnd hcase' es
      ?_ ?_ ?_ ?_ hn02 hn2 hlt hfp0 ?_ (hins val)
    · show seqO ((nd'.links.take p.found.idx ++ p.left :: p.right :: nd'.links.drop (p.found.idx + 1)).map _) = some _
      rw [el]
      refine seqO_map_append.mpr ⟨_, _, ?_, ?_, rfl⟩
      · exact seqO_map_congr (seqO_map_take hkids _) (fun l _ c hc => repLink_mono_le hc (Nat.le_max_left _ _))
      · refine seqO_map_cons.mpr ⟨xl, _, repLink_mono_le hxl (Nat.le_max_right _ _), ?_, rfl⟩
        refine seqO_map_cons.mpr ⟨xr, _, repLink_mono_le hxr (Nat.le_max_right _ _), ?_, rfl⟩
        exact seqO_map_congr (seqO_map_drop hkids _) (fun l _ c hc => repLink_mono_le hc (Nat.le_max_left _ _))
    · show (nd'.links.take p.found.idx ++ p.left :: p.right :: nd'.links.drop (p.found.idx + 1)).length =
          (insertAt nd'.keys p.found.idx key).length + 1 ∧
        (insertAt nd'.vals p.found.idx val).length = (insertAt nd'.keys p.found.idx key).length
      rw [el, ek, ev, length_insertAt _ _ _ hile, length_insertAt _ _ _ (by rw [hv.2]; exact hile)]
      simp only [List.length_append, List.length_take, List.length_cons, List.length_drop]
      have := hv.1; have := hv.2
      omega
    · -- footprint of the links
      have h1 : fps csb = fps (csb.take p.found.idx) ++ cl.2.2 ++ fps (csb.drop (p.found.idx + 1)) := by
        conv => lhs; rw [hcsb]
        simp
      have h2 : fps (csb.take p.found.idx ++ xl :: xr :: csb.drop (p.found.idx + 1)) =
          fps (csb.take p.found.idx) ++ (xl.2.2 ++ xr.2.2) ++ fps (csb.drop (p.found.idx + 1)) := by simp
      rw [h1, h2]
      rw [h1] at hnb hltk
      exact FpExt.ctx _ _ hnb
        (fun y hy => hltk y (List.mem_append.mpr (Or.inl (List.mem_append.mpr (Or.inl hy)))))
        (fun y hy => hltk y (List.mem_append.mpr (Or.inr hy))) hsfp
    · apply isEmptyN_false_of_length
      show 2 ≤ (nd'.links.take p.found.idx ++ p.left :: p.right :: nd'.links.drop (p.found.idx + 1)).length
      simp only [List.length_append, List.length_cons]
      omega
    · show T.ins key val 0 (mkRow (csb.map pr) nd.keys nd.vals) =
        some (mkRow ((csb.take p.found.idx ++ xl :: xr :: csb.drop (p.found.idx + 1)).map pr)
          (insertAt nd'.keys p.found.idx key) (insertAt nd'.vals p.found.idx val))
      rw [ins_mkRow_zero nd.keys (csb.map pr) nd.vals key val hcl hv.2, ← hidx, if_neg hkey, ek, ev,
        childAt_map_pr hcl2]
      simp only [List.map_append, List.map_cons, List.map_take, List.map_drop, pr, hxlf, hxrf, hxlrow, hxrrow]

end Mast.Ptr
