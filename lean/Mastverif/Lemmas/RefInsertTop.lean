import Mastverif.Lemmas.RefInsert
import Mastverif.Lemmas.RefGrowAll
/-! `Insert` refines `Tree.insert`. -/
namespace Mast.Ptr
open Mast.Heap

theorem repTree_eq_some {s : PS} {g : Nat} {t : PTree} {A : Tree} :
    repTree s g t = some A ↔ ∃ x, repLink s.heap s.store g t.root = some x ∧ x.2.2.Nodup ∧
      A = treeRec t x (rootDirty s.heap t.root) := by
  unfold repTree
  cases hx : repLink s.heap s.store g t.root with
  | none => simp
  | some x =>
    obtain ⟨p, r, fp⟩ := x
    simp only
    constructor
    · intro h
      split at h
      · next hnd => injection h with h; exact ⟨_, rfl, hnd, h.symm⟩
      · cases h
    · rintro ⟨x', hx', hnd, rfl⟩
      injection hx' with hx'; subst hx'
      rw [if_pos hnd]; rfl

theorem footprint_eq {s : PS} {g : Nat} {t : PTree} {x : Bool × T × List Nat}
    (hx : repLink s.heap s.store g t.root = some x) : footprint s g t = x.2.2 := by
  unfold footprint; rw [hx]

/-- the side condition under which the fuel of the functional grow loop is enough -/
def Healthy (t : PTree) : Prop := 2 ≤ t.bf ∧ 1 ≤ t.growAfter

theorem tree_insert_same {layer : Nat → Nat} {m : Tree} {k v : Nat} (h : m.lookup layer k = some v) :
    Tree.insert layer m k v = .ok m := by
  unfold Tree.insert; rw [h]; simp

theorem tree_insert_replace {layer : Nat → Nat} {m : Tree} {k v v' : Nat} {r : T} (h : m.lookup layer k = some v')
    (hne : v' ≠ v) (hi : T.ins k v (m.levels layer k) m.root = some r) :
    Tree.insert layer m k v = .ok { m with root := r, rootP := false, dirty := true } := by
  unfold Tree.insert; rw [h]; simp [hne, hi]

theorem tree_insert_new {layer : Nat → Nat} {m : Tree} {k v : Nat} {r : T} (h : m.lookup layer k = none)
    (hi : T.ins k v (m.levels layer k) m.root = some r) :
    Tree.insert layer m k v =
      .ok { Tree.growLoop layer (m.size + 1) { m with root := r, rootP := false, dirty := true } with size := m.size + 1 } := by
  unfold Tree.insert; rw [h]; simp [hi]

theorem insert_refines (E : Env) (fuel g : Nat) (s s' : PS) (t t' : PTree) (k v : Nat) (A : Tree)
    (hg : Good s) (hown : FpOwned s.heap t.id (footprint s g t)) (hh : Healthy t)
    (hA : repTree s g t = some A) (h : insert E fuel s t k v = (s', t', .ok)) :
    ∃ g' A', repTree s' g' t' = some A' ∧ Tree.insert E.layer A k v = .ok A' ∧ Good s' ∧
      FpOwned s'.heap t'.id (footprint s' g' t') ∧ Healthy t' ∧ t'.id = t.id ∧ Step t.id s s' := by
  obtain ⟨x, hx, hxnd, hAeq⟩ := repTree_eq_some.mp hA
  rw [footprint_eq hx] at hown
  have hspec := insertPlan_spec E t fuel k v s hg hx hxnd
  have hlook : Tree.lookup E.layer A k = T.get k (t.height - min (E.layer k) t.height) (T.unmk x.2.1) := by
    rw [hAeq]; rfl
  have hlev : Tree.levels E.layer A k = t.height - min (E.layer k) t.height := by rw [hAeq]; rfl
  have hAroot : A.root = T.unmk x.2.1 := by rw [hAeq]; rfl
  unfold insert at h
  cases hpl : insertPlan E t fuel k v s with
  | err s1 => rw [hpl] at h; simp at h
  | panic => rw [hpl] at h; simp at h
  | stuck => rw [hpl] at h; simp at h
  | oof => rw [hpl] at h; simp at h
  | ok p s1 =>
    rw [hpl] at h
    obtain ⟨hgr1, hplan⟩ := hspec.ok hpl
    have hg1 := hgr1.good hg
    obtain ⟨hlk1, hlk2⟩ := planOK_lookup hplan
    simp only at h
    by_cases hps : (p.present && p.same) = true
    · -- the key is present with the same value: nothing changes
      rw [if_pos hps] at h
      simp only [Prod.mk.injEq, and_true] at h
      obtain ⟨rfl, rfl⟩ := h
      simp only [Bool.and_eq_true] at hps
      obtain ⟨v', hv', hsame⟩ := hlk1 hps.1
      have hvv : v' = v := hsame.mp hps.2
      subst hvv
      refine ⟨g, A, hgr1.repTree hA, tree_insert_same (by rw [hlook]; exact hv'), hg1, ?_, hh, rfl, hgr1.toStep⟩
      rw [footprint_eq (hgr1.rep hx)]
      exact fpOwned_of_step hgr1.toStep hown (FpExt.refl hxnd) (repLink_fp_unshared _ _ _ (hgr1.rep hx))
    · rw [if_neg hps] at h
      have hcs := insertCommit_spec t p k v s s1 x t.height (min (E.layer k) t.height) hg1 hgr1.toStep hown hplan
      cases hcm : insertCommit t p k v s1 with
      | err s2 => rw [hcm] at h; simp at h
      | panic => rw [hcm] at h; simp at h
      | stuck => rw [hcm] at h; simp at h
      | oof => rw [hcm] at h; simp at h
      | ok root s2 =>
        rw [hcm] at h
        obtain ⟨hst2, a0, g1, y, rfl, hy, hins, hfp, hdirty⟩ := hcs.ok hcm
        have hst02 : Step t.id s s2 := hgr1.toStep.trans hst2
        have hg2 := hst2.good hg1
        have hyf : y.1 = false := repLink_flag_ptr hy
        have hyrow : T.unmk y.2.1 = y.2.1 := unmk_of_ne_nil (repLink_row_ne_nil hy (by simp))
        have hinsA : T.ins k v (Tree.levels E.layer A k) A.root = some y.2.1 := by rw [hlev, hAroot]; exact hins
        simp only at h
        by_cases hp : p.present = true
        · -- the value is replaced
          rw [if_pos hp] at h
          simp only [Prod.mk.injEq, and_true] at h
          obtain ⟨rfl, rfl⟩ := h
          obtain ⟨v', hv', hsame⟩ := hlk1 hp
          have hne : v' ≠ v := by
            intro hvv
            apply hps
            simp only [Bool.and_eq_true]
            exact ⟨hp, hsame.mpr hvv⟩
          refine ⟨g1, _, repTree_eq_some.mpr ⟨y, hy, hfp.1, rfl⟩, ?_, hg2, ?_, hh, rfl, hst02⟩
          · rw [tree_insert_replace (by rw [hlook]; exact hv') hne hinsA, hAeq]
            simp only [rootDirty] at hdirty
            simp only [treeRec, rootDirty, hdirty, hyrow, hyf]
          · show FpOwned s2.heap t.id (footprint s2 g1 { t with root := .ptr a0 })
            rw [footprint_eq (t := { t with root := .ptr a0 }) hy]
            exact fpOwned_of_step hst02 hown hfp (repLink_fp_unshared _ _ _ hy)
        · -- a new key: the grow loop runs
          have hp' : p.present = false := by simpa using hp
          rw [if_neg hp] at h
          have hga := growAll_refines E fuel { t with root := .ptr a0 } s2 g1 a0 y hg2 rfl hy hfp.1 hdirty
          unfold afterCommit at h
          cases hgr : growAll E fuel { t with root := .ptr a0 } s2 with
          | err s3 => rw [hgr] at h; simp at h
          | panic => rw [hgr] at h; simp at h
          | stuck => rw [hgr] at h; simp at h
          | oof => rw [hgr] at h; simp at h
          | ok t2 s3 =>
            rw [hgr] at h
            simp only [Prod.mk.injEq, and_true] at h
            obtain ⟨rfl, rfl⟩ := h
            obtain ⟨hgr3, a3, g3, y3, hr3, hid3, hbf3, hsz3, hga3, hy3, hfp3, hd3, hrec3, hnc3⟩ := hga.ok hgr
            have hst03 : Step t.id s s3 := hst02.trans hgr3.toStep
            have hfp03 : FpExt s.heap.length x.2.2 y3.2.2 := hfp.trans hfp3 hst02.len
            have hy3' : repLink s3.heap s3.store g3 ({ t2 with size := t2.size + 1 } : PTree).root = some y3 := by
              show repLink s3.heap s3.store g3 t2.root = some y3
              rw [hr3]; exact hy3
            -- the functional side
            have hM : treeRec { t with root := .ptr a0 } y true =
                { A with root := y.2.1, rootP := false, dirty := true } := by
              rw [hAeq]; simp only [treeRec, hyrow, hyf]
            have hfuel := growLoop_fuel E.layer fuel (treeRec { t with root := .ptr a0 } y true) hh.1 hh.2
              (by rw [← hrec3]; exact hnc3)
            refine ⟨g3, _, repTree_eq_some.mpr ⟨y3, hy3', hfp03.1, rfl⟩, ?_, hgr3.good hg2, ?_,
              ⟨by show 2 ≤ t2.bf; rw [hbf3]; exact hh.1, hga3 (by have := hh.1; show 1 ≤ t.bf; omega) hh.2⟩, hid3, hst03⟩
            · rw [tree_insert_new (by rw [hlook]; exact hlk2 hp') hinsA, ← hM]
              have hsz : (treeRec { t with root := .ptr a0 } y true).size = A.size := by rw [hAeq]; rfl
              rw [← hsz, hfuel, ← hrec3]
              have hd3' : rootDirty s3.heap ({ t2 with size := t2.size + 1 } : PTree).root = true := by
                show rootDirty s3.heap t2.root = true
                rw [hr3]; exact hd3
              rw [hd3']
              simp only [treeRec, hsz3]
            · show FpOwned s3.heap t2.id (footprint s3 g3 { t2 with size := t2.size + 1 })
              rw [footprint_eq hy3', hid3]
              exact fpOwned_of_step hst03 hown hfp03 (repLink_fp_unshared _ _ _ hy3')

end Mast.Ptr
