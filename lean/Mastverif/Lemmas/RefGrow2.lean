import Mastverif.Lemmas.RefGrow
/-! The loop of `grow` refines `T.grow`. -/
namespace Mast.Ptr
open Mast.Heap

/-- the part of the node's row from link `start` on -/
def rowFrom (nd : MNode) (cs : List (Bool × T × List Nat)) (start : Nat) : T :=
  mkRow ((cs.map pr).drop start) (nd.keys.drop start) (nd.vals.drop start)

/-- invariant of the loop of `grow` -/
def GrowInv (E : Env) (h : Nat) (nd : MNode) (cs : List (Bool × T × List Nat)) (n0 : Nat) (s : PS)
    (start : Nat) (ks vs : List Nat) (ls : List HLink) : Prop :=
  ∃ lcs G, seqO (ls.map (repLink s.heap s.store G)) = some lcs ∧ (∀ c ∈ lcs, c.1 = false) ∧
    lcs.length = ks.length ∧ vs.length = ks.length ∧
    T.grow E.layer h (mkRow (cs.map pr) nd.keys nd.vals) =
      appendRow (lcs.map pr) ks vs (T.grow E.layer h (rowFrom nd cs start)) ∧
    FpExt n0 (fps (cs.take start)) (fps lcs) ∧ (∀ y ∈ fps lcs, y < s.heap.length)

theorem GrowInv.grow {E : Env} {h : Nat} {nd : MNode} {cs : List (Bool × T × List Nat)} {n0 : Nat} {s s' : PS}
    {start : Nat} {ks vs : List Nat} {ls : List HLink} {m : Nat} (hi : GrowInv E h nd cs n0 s start ks vs ls)
    (hgr : Grow m s s') : GrowInv E h nd cs n0 s' start ks vs ls := by
  obtain ⟨lcs, G, h1, h2, h3, h4, h5, h6, h7⟩ := hi
  refine ⟨lcs, G, seqO_map_congr h1 (fun l _ c hc => hgr.rep hc), h2, h3, h4, h5, h6, ?_⟩
  intro y hy; have := h7 y hy; have := hgr.length; omega

theorem fps_take_succ_split (cs : List (Bool × T × List Nat)) {start i : Nat} (h : start ≤ i + 1) :
    fps (cs.take (i + 1)) = fps (cs.take start) ++ fps ((cs.take (i + 1)).drop start) := by
  rw [← fps_append]
  congr 1
  have := List.take_append_drop start (cs.take (i + 1))
  rw [List.take_take, Nat.min_eq_left h] at this
  exact this.symm

theorem mem_fps_seg {cs : List (Bool × T × List Nat)} {a b y : Nat} (h : y ∈ fps ((cs.take a).drop b)) : y ∈ fps cs := by
  obtain ⟨c, hc, hy⟩ := mem_fps.mp h
  exact mem_fps.mpr ⟨c, List.mem_of_mem_take (List.mem_of_mem_drop hc), hy⟩

theorem flagOK_seg {cs : List (Bool × T)} (hf : FlagOK cs) (a b : Nat) : FlagOK ((cs.take a).drop b) :=
  fun c hc => hf c (List.mem_of_mem_take (List.mem_of_mem_drop hc))

/-- what `extractLink` returned (see `extractLink_spec`) -/
def SegLink (s s' : PS) (g : Nat) (l : HLink) (seg : List (Bool × T × List Nat)) (lowks lowvs : List Nat)
    (x : Bool × T × List Nat) : Prop :=
  repLink s'.heap s'.store (g + 1) l = some x ∧ x.1 = false ∧ x.2.1 = T.mk (mkRow (seg.map pr) lowks lowvs) ∧
  ((l = .nil ∧ s' = s ∧ fps seg = [] ∧ x.2.2 = []) ∨
   (l = .ptr s.heap.length ∧ s'.heap.length = s.heap.length + 1 ∧ x.2.2 = s.heap.length :: fps seg))

/-- one more segment: the footprint bookkeeping -/
theorem growFp_step {cs : List (Bool × T × List Nat)} {n0 start to : Nat} {s s' : PS} {g : Nat} {l : HLink}
    {lowks lowvs : List Nat} {x : Bool × T × List Nat} {lcs : List (Bool × T × List Nat)}
    (hnd : (fps cs).Nodup) (hlt0 : ∀ y ∈ fps cs, y < n0) (hn0s : n0 ≤ s.heap.length) (hst : start ≤ to + 1)
    (h6 : FpExt n0 (fps (cs.take start)) (fps lcs)) (h7 : ∀ y ∈ fps lcs, y < s.heap.length)
    (hx : SegLink s s' g l ((cs.take (to + 1)).drop start) lowks lowvs x) :
    FpExt n0 (fps (cs.take (to + 1))) (fps (lcs ++ [x])) ∧ (∀ y ∈ fps (lcs ++ [x]), y < s'.heap.length) := by
  obtain ⟨hrep, _, _, hcase⟩ := hx
  have hsplit := fps_take_succ_split cs hst
  have hnd1 : (fps (cs.take (to + 1))).Nodup := by
    have : fps cs = fps (cs.take (to + 1)) ++ fps (cs.drop (to + 1)) := by
      rw [← fps_append, List.take_append_drop]
    rw [this] at hnd
    exact (List.nodup_append.mp hnd).1
  have hsegb : ∀ y ∈ fps ((cs.take (to + 1)).drop start), y < n0 := fun y hy => hlt0 y (mem_fps_seg hy)
  have stepA : FpExt n0 (fps (cs.take start) ++ fps ((cs.take (to + 1)).drop start))
      (fps lcs ++ fps ((cs.take (to + 1)).drop start)) := by
    have := FpExt.ctx (n := n0) [] (fps ((cs.take (to + 1)).drop start)) (by rw [List.nil_append, ← hsplit]; exact hnd1)
      (by simp) hsegb h6
    simpa using this
  rw [hsplit]
  simp only [fps_append, fps_cons, fps_nil, List.append_nil]
  rcases hcase with ⟨_, rfl, h3, h4⟩ | ⟨_, h2, h4⟩
  · rw [h4]
    rw [h3] at stepA
    refine ⟨by rw [h3]; exact stepA, ?_⟩
    intro y hy
    simp at hy
    exact h7 y hy
  · rw [h4]
    refine ⟨stepA.insert_mid (by omega) (fun h => by have := h7 _ h; omega) (fun h => by have := hsegb _ h; omega), ?_⟩
    intro y hy
    simp only [List.mem_append, List.mem_cons] at hy
    rcases hy with hy | rfl | hy
    · have := h7 y hy; omega
    · omega
    · have := hsegb y hy; omega

theorem map_pr_snoc (lcs : List (Bool × T × List Nat)) (x : Bool × T × List Nat) (hx : x.1 = false) :
    (lcs ++ [x]).map pr = lcs.map pr ++ [(false, x.2.1)] := by
  simp [pr, hx]

/-- a high key at index `i`: the segment `start … i` becomes a child, the key moves up -/
theorem growInv_step {E : Env} {h : Nat} {nd : MNode} {cs : List (Bool × T × List Nat)} {n0 : Nat} {s s' : PS}
    {start i k v g : Nat} {ks vs : List Nat} {ls : List HLink} {l : HLink} {x : Bool × T × List Nat}
    (hv : ValidN nd) (hcl : cs.length = nd.keys.length + 1) (hflag : FlagOK (cs.map pr))
    (hnd : (fps cs).Nodup) (hlt0 : ∀ y ∈ fps cs, y < n0) (hn0s : n0 ≤ s.heap.length)
    (hinv : GrowInv E h nd cs n0 s start ks vs ls) (hsi : start ≤ i)
    (hki : nd.keys[i]? = some k) (hvi : nd.vals[i]? = some v)
    (hlow : ∀ k0 ∈ (nd.keys.take i).drop start, E.layer k0 ≤ h) (hhigh : h < E.layer k)
    (hstore : s'.store = s.store) (hal : AllocOnly s.heap s'.heap)
    (hx : SegLink s s' g l ((cs.take (i + 1)).drop start) ((nd.keys.take i).drop start) ((nd.vals.take i).drop start) x) :
    GrowInv E h nd cs n0 s' (i + 1) (ks ++ [k]) (vs ++ [v]) (ls ++ [l]) := by
  obtain ⟨lcs, G, h1, h2, h3, h4, h5, h6, h7⟩ := hinv
  have hilt : i < nd.keys.length := (List.getElem?_eq_some_iff.mp hki).1
  obtain ⟨hfp1, hfp2⟩ := growFp_step hnd hlt0 hn0s (by omega) h6 h7 hx
  obtain ⟨hrep, hxf, hxrow, _⟩ := hx
  refine ⟨lcs ++ [x], max G (g + 1), ?_, ?_, by simp [h3], by simp [h4], ?_, hfp1, hfp2⟩
  · refine seqO_map_append.mpr ⟨lcs, [x], ?_, ?_, rfl⟩
    · refine seqO_map_congr h1 (fun l' _ c hc => ?_)
      rw [hstore]
      exact repLink_mono_le (repLink_allocOnly hal hc) (Nat.le_max_left _ _)
    · exact seqO_map_cons.mpr ⟨x, [], repLink_mono_le hrep (Nat.le_max_right _ _), rfl, rfl⟩
  · intro c hc
    rcases List.mem_append.mp hc with hc | hc
    · exact h2 c hc
    · simp at hc; subst hc; exact hxf
  · rw [h5, map_pr_snoc _ _ hxf, appendRow_snoc _ _ _ _ _ _ _ _ (by simp [h3]) h4]
    congr 1
    -- the row from `start`: low keys, then the high key
    have hk1 : nd.keys.drop start = (nd.keys.take i).drop start ++ k :: nd.keys.drop (i + 1) := by
      rw [drop_eq_take_drop_append nd.keys hsi, List.drop_eq_getElem_cons hilt]
      have := List.getElem?_eq_getElem hilt
      rw [hki] at this; injection this with this; rw [← this]
    have hvlt : i < nd.vals.length := (List.getElem?_eq_some_iff.mp hvi).1
    have hv1 : nd.vals.drop start = (nd.vals.take i).drop start ++ v :: nd.vals.drop (i + 1) := by
      rw [drop_eq_take_drop_append nd.vals hsi, List.drop_eq_getElem_cons hvlt]
      have := List.getElem?_eq_getElem hvlt
      rw [hvi] at this; injection this with this; rw [← this]
    have hc1 : (cs.map pr).drop start = ((cs.map pr).take (i + 1)).drop start ++ (cs.map pr).drop (i + 1) :=
      drop_eq_take_drop_append _ (by omega)
    unfold rowFrom
    rw [hk1, hv1, hc1]
    have hv2 := hv.2
    rw [grow_low_high E.layer h k v hhigh ((cs.map pr).drop (i + 1)) (nd.keys.drop (i + 1)) (nd.vals.drop (i + 1))
      (by simp only [List.length_drop, List.length_map]; omega)
      ((nd.keys.take i).drop start) (((cs.map pr).take (i + 1)).drop start) ((nd.vals.take i).drop start)
      (by simp only [List.length_drop, List.length_take, List.length_map]; omega)
      (by simp only [List.length_drop, List.length_take]; omega) hlow (flagOK_seg hflag _ _)]
    rw [hxrow, List.map_drop, List.map_take]

end Mast.Ptr
