import Mastverif.Lemmas.RefTickCommit
/-!
# Store loads of `split`: one spine

`split` calls itself twice per level: on `leftMax`, and on `tooBig` — the right half that the first call
returned.  That right half is a freshly built object whose keys are all above the split key and whose first
link is again such a right half (or nil): a *right spine*, `RSp`.  Splitting a right spine reads only
pointers, so it performs NO store load (at any depth, without any well-formedness of the tree).  Hence the
store loads of `split` are those of the descent along `leftMax`: at most `depth - 1`.
-/
namespace Mast.Ptr
open Mast.Heap

/-- right spine of a split at `key`: built objects, entered through the first link, no key below `key` first -/
inductive RSp (h : Heap) (key : Nat) : HLink → Prop
  | nil : RSp h key .nil
  | ptr {a : Nat} {nd : MNode} : h[a]? = some nd → keyIdx nd.keys key = 0 →
      (∀ l, nd.links[0]? = some l → RSp h key l) → RSp h key (.ptr a)

theorem RSp.allocOnly {h h' : Heap} {key : Nat} (ha : AllocOnly h h') {l : HLink} (hr : RSp h key l) : RSp h' key l := by
  induction hr with
  | nil => exact RSp.nil
  | ptr h1 h2 _ ih => exact RSp.ptr (ha _ _ h1) h2 (fun l hl => ih l hl)

theorem keyIdx_drop (ks : List Nat) (key : Nat) : keyIdx (ks.drop (keyIdx ks key)) key = 0 := by
  induction ks with
  | nil => rfl
  | cons k ks ih =>
    simp only [keyIdx]
    split
    · simpa using ih
    · next h => simp [keyIdx, h]

/-- `linkNew`: nil, or a pointer to the new object -/
theorem linkNew_ts (nd : MNode) (s : PS) :
    TS AExt 0 (linkNew nd) s (fun l s' => l = .nil ∨ ∃ a, l = .ptr a ∧ s'.heap[a]? = some nd) := by
  unfold linkNew
  split
  · exact TS.pure (Or.inl rfl)
  · refine TS.bind (a := 0) (b := 0) (alloc_ts nd s) ?_ (by omega)
    rintro a s1 _ _ ⟨rfl, rfl⟩
    exact TS.pure (Or.inr ⟨_, rfl, getElem?_append_self _ _⟩)

/-- the postcondition: the right result is a right spine -/
def SplitR (key : Nat) (lr : HLink × HLink) (s' : PS) : Prop := RSp s'.heap key lr.2

/-- statement A: splitting a right spine performs no store load -/
def SplitA (E : Env) (m key f : Nat) : Prop :=
  ∀ (a : Nat) (s : PS), RSp s.heap key (.ptr a) → TS AExt 0 (split E m key f a) s (SplitR key)

/-- the recursive call on a right spine -/
theorem subsplitA (E : Env) (m key f : Nat) (hA : SplitA E m key f) (lk : HLink) (s : PS) (hr : RSp s.heap key lk) :
    TS AExt 0 (if lk = .nil then (pure (HLink.nil, HLink.nil) : M (HLink × HLink)) else do
        let c ← load E lk
        split E m key f c) s (SplitR key) := by
  split
  · exact TS.pure RSp.nil
  · next h0 =>
    cases hr with
    | nil => exact absurd rfl h0
    | ptr h1 h2 h3 =>
      refine TS.bind (a := 0) (b := 0) (load_ts_ptr E _ s (fun n hn => by cases hn)) ?_ (by omega)
      rintro c s1 _ _ ⟨hc, rfl⟩
      injection hc with hc; subst hc
      exact hA _ s1 (RSp.ptr h1 h2 h3)

/-- one level of `split`, given the cost `k` of the recursive call on `leftMax` and statement A below -/
theorem split_step (E : Env) (m key f : Nat) (hA : SplitA E m key f) (a : Nat) (s : PS) (nd : MNode) (k : Nat)
    (hnd : s.heap[a]? = some nd)
    (h1 : ∀ leftMax, (nd.links.take (keyIdx nd.keys key + 1)).getLast? = some leftMax →
      TS AExt k (if leftMax = .nil then (pure (HLink.nil, HLink.nil) : M (HLink × HLink)) else do
        let c ← load E leftMax
        split E m key f c) s (SplitR key)) :
    TS AExt k (split E m key (f + 1) a) s (SplitR key) := by
  unfold split
  refine TS.bind (a := 0) (b := k) (read_ts a s) ?_ (by omega)
  rintro nd' s0 _ _ ⟨rfl, hnd'⟩
  rw [hnd] at hnd'; injection hnd' with hnd'; subst hnd'
  split
  · exact TS.panic
  · dsimp only
    split
    · exact TS.panic
    · next leftMax hlm =>
      refine TS.bind (a := k) (b := 0) (h1 leftMax hlm) ?_ (by omega)
      rintro ⟨lm, tooBig⟩ s2 _ hext2 htb
      dsimp only
      refine TS.bind (a := 0) (b := 0) (linkNew_ts _ s2) ?_ (by omega)
      intro leftLink s3 _ hext3 _
      split
      · exact TS.panic
      · next rightRest _ =>
        have htb3 : RSp s3.heap key tooBig := RSp.allocOnly hext3.alloc htb
        refine TS.bind (a := 0) (b := 0) (subsplitA E m key f hA tooBig s3 htb3) ?_ (by omega)
        rintro ⟨tooSmall, rm⟩ s5 _ hext5 hrm
        dsimp only
        split
        · exact TS.panic
        · refine TS.bind (a := 0) (b := 0) (linkNew_ts _ s5) ?_ (by omega)
          intro rightLink s6 _ hext6 hrl
          refine TS.pure ?_
          show RSp s6.heap key rightLink
          rcases hrl with rfl | ⟨b, rfl, hb⟩
          · exact RSp.nil
          · refine RSp.ptr hb (keyIdx_drop nd.keys key) ?_
            intro l hl
            simp only [List.getElem?_cons_zero, Option.some.injEq] at hl
            subst hl
            exact RSp.allocOnly hext6.alloc hrm

/-- **A**: splitting a right spine performs no store load -/
theorem split_rsp (E : Env) (m key : Nat) : ∀ f, SplitA E m key f := by
  intro f
  induction f with
  | zero => intro a s _; exact TS.oof
  | succ f ih =>
    intro a s hr
    cases hr with
    | ptr hnd hk hl =>
      rename_i nd
      refine split_step E m key f ih a s nd 0 hnd ?_
      intro leftMax hlm
      refine subsplitA E m key f ih leftMax s (hl leftMax ?_)
      rw [hk] at hlm
      cases hlk : nd.links with
      | nil => rw [hlk] at hlm; simp at hlm
      | cons l0 rest => rw [hlk] at hlm; simpa using hlm

/-- **B**: `split` of a node that is at most `n` levels deep performs at most `n - 1` store loads -/
theorem split_ts (E : Env) (m key : Nat) : ∀ (f a : Nat) (s : PS) (n : Nat), CacheS s →
    DepthLe s.heap s.store n (.ptr a) → TS AExt (n - 1) (split E m key f a) s (SplitR key) := by
  intro f
  induction f with
  | zero => intro a s n _ _; exact TS.oof
  | succ f ih =>
    intro a s n hc hd
    obtain ⟨n', rfl⟩ : ∃ n', n = n' + 1 := ⟨n - 1, by have := hd.pos (by simp); omega⟩
    obtain ⟨nd, hnd, hl⟩ := depthLe_ptr_succ.mp hd
    refine split_step E m key f (split_rsp E m key f) a s nd (n' + 1 - 1) hnd ?_
    intro leftMax hlm
    have hmem : leftMax ∈ nd.links := List.mem_of_mem_take (List.mem_of_getLast? hlm)
    have hdl := hl leftMax hmem
    split
    · exact TS.pure RSp.nil
    · next h0 =>
      have hpos := hdl.pos h0
      refine TS.bind (a := 1) (b := n' - 1) ((load_depth E leftMax s hc hdl).mono (loadCost_le _)) ?_ (by omega)
      intro c s1 _ hext1 ⟨_, _, hc1⟩
      exact ih c s1 n' (hext1.cache hc) hc1

end Mast.Ptr
