import Mastverif.Model.Json
/-!
# Round trip of the v1marshaler node format

`decJson (encJson n)` gives back the node's keys, values and child names, provided every key and
value body is a *plain* element: non-empty, and scanning it from a clean state ends in a clean
state having only appended its bytes (balanced brackets, closed strings, no comma at depth 0) —
true of every JSON value; names must not contain `"` or `\\` (base64url names never do).
-/
set_option linter.unusedSimpArgs false
namespace Mast
namespace Json
open Codec

/-- scanning a run of bytes that stays inside one element -/
def runBytes : Sc → Bytes → Option Sc
  | s, [] => some s
  | s, b :: rest =>
      match step s b with
      | .more s' => runBytes s' rest
      | _ => none

def Clean (s : Sc) : Prop := s.depth = 0 ∧ s.inStr = false ∧ s.esc = false

/-- an element the scanner passes over unchanged -/
def Plain (e : Bytes) : Prop :=
  e ≠ [] ∧ ∀ s : Sc, Clean s → runBytes s e = some { s with cur := e.reverse ++ s.cur }

theorem scan_runBytes : ∀ (e : Bytes) (s s' : Sc) (rest : Bytes), runBytes s e = some s' →
    scan s (e ++ rest) = scan s' rest := by
  intro e
  induction e with
  | nil => intro s s' rest h; simp only [runBytes, Option.some.injEq] at h; subst h; rfl
  | cons b e ih =>
    intro s s' rest h
    simp only [runBytes] at h
    simp only [List.cons_append, scan]
    cases hs : step s b with
    | more s1 => simp only [hs] at h; exact ih s1 s' rest h
    | done _ => simp [hs] at h
    | bad => simp [hs] at h

theorem scan_plain {e : Bytes} (he : Plain e) (s : Sc) (hs : Clean s) (rest : Bytes) :
    scan s (e ++ rest) = scan { s with cur := e.reverse ++ s.cur } rest :=
  scan_runBytes e s _ rest (he.2 s hs)

theorem scan_comma (s : Sc) (hs : Clean s) (rest : Bytes) :
    scan s (44 :: rest) = scan { s with cur := [], acc := s.cur.reverse :: s.acc } rest := by
  obtain ⟨h1, h2, h3⟩ := hs
  simp [scan, step, h1, h2]

theorem scan_close (s : Sc) (hs : Clean s) (rest : Bytes) : scan s (93 :: rest) = some (finish s, rest) := by
  obtain ⟨h1, h2, h3⟩ := hs
  simp [scan, step, h1, h2]

/-- scanning the comma-joined elements and the closing bracket -/
theorem scan_join : ∀ (xs : List Bytes) (x : Bytes) (acc : List Bytes) (rest : Bytes),
    (∀ y ∈ x :: xs, Plain y) →
    scan { depth := 0, inStr := false, esc := false, cur := [], acc := acc } (joinComma (x :: xs) ++ 93 :: rest) =
      some (acc.reverse ++ x :: xs, rest) := by
  intro xs
  induction xs with
  | nil =>
    intro x acc rest h
    have hx := h x (by simp)
    simp only [joinComma]
    rw [scan_plain hx _ ⟨rfl, rfl, rfl⟩, scan_close _ ⟨rfl, rfl, rfl⟩]
    have hne : x.reverse ≠ [] := by simpa using hx.1
    simp [finish, hne]
  | cons y ys ih =>
    intro x acc rest h
    have hx := h x (by simp)
    simp only [joinComma, List.append_assoc, List.cons_append]
    rw [scan_plain hx _ ⟨rfl, rfl, rfl⟩, scan_comma _ ⟨rfl, rfl, rfl⟩]
    simp only [List.append_nil, List.reverse_reverse]
    have := ih y (x :: acc) rest (fun z hz => h z (by simp at hz ⊢; exact Or.inr hz))
    rw [this]
    simp

/-- **an array of plain elements scans back to its elements** -/
theorem scanArray_jsonArray (l : List Bytes) (rest : Bytes) (h : ∀ y ∈ l, Plain y) :
    scanArray (joinComma l ++ 93 :: rest) = some (l, rest) := by
  unfold scanArray
  cases l with
  | nil => simp [joinComma, scan, step, finish]
  | cons x xs => simpa using scan_join xs x [] rest h

theorem expect_append (lit rest : Bytes) : expect lit (lit ++ rest) = some rest := by
  unfold expect
  have h : lit.isPrefixOf (lit ++ rest) = true := by
    induction lit with
    | nil => simp [List.isPrefixOf]
    | cons b l ih => simp [List.isPrefixOf, ih]
  simp [h]

/-- `null` is a plain element -/
theorem plain_null : Plain litNull := by
  refine ⟨by decide, ?_⟩
  intro s hs
  obtain ⟨h1, h2, h3⟩ := hs
  cases s with
  | mk depth inStr esc cur acc =>
    simp only at h1 h2 h3
    subst h1 h2 h3
    simp [litNull, runBytes, step]

/-- running over the inside of a string that holds no quote and no backslash -/
theorem runBytes_inString : ∀ (nm : Bytes) (s : Sc), s.inStr = true → s.esc = false →
    (∀ b ∈ nm, b ≠ 34 ∧ b ≠ 92) → runBytes s nm = some { s with cur := nm.reverse ++ s.cur } := by
  intro nm
  induction nm with
  | nil => intro s _ _ _; simp [runBytes]
  | cons b nm ih =>
    intro s h1 h2 h
    have hb := h b (by simp)
    simp only [runBytes, step, h1, h2, if_true, Bool.false_eq_true, if_false, hb.1, hb.2]
    rw [ih _ (by simp [h1]) (by simp [h2]) (fun c hc => h c (by simp [hc]))]
    simp

theorem runBytes_append : ∀ (a b : Bytes) (s : Sc), runBytes s (a ++ b) = (runBytes s a).bind fun s' => runBytes s' b := by
  intro a
  induction a with
  | nil => intro b s; simp [runBytes]
  | cons x a ih =>
    intro b s
    simp only [List.cons_append, runBytes]
    cases step s x with
    | more s1 => exact ih b s1
    | done _ => rfl
    | bad => rfl

/-- a quoted name without a quote or a backslash inside is a plain element -/
theorem plain_quote (nm : Bytes) (h : ∀ b ∈ nm, b ≠ 34 ∧ b ≠ 92) : Plain (quote nm) := by
  refine ⟨by simp [quote], ?_⟩
  intro s hs
  obtain ⟨h1, h2, h3⟩ := hs
  cases s with
  | mk depth inStr esc cur acc =>
    simp only at h1 h2 h3
    subst h1 h2 h3
    have e : quote nm = 34 :: (nm ++ [34]) := rfl
    rw [e]
    simp only [runBytes, step, Bool.false_eq_true, if_false, if_true]
    rw [runBytes_append, runBytes_inString nm _ rfl rfl h]
    simp [runBytes, step]

/-- a link element reads back -/
theorem linkElem_quote (nm : Bytes) : linkElem (quote nm) = some (some nm) := by
  have hne : ¬ (34 :: (nm ++ [34]) = litNull) := by simp [litNull]
  have e : quote nm = 34 :: (nm ++ [34]) := rfl
  rw [e]
  simp only [linkElem, hne, if_false]
  simp

theorem linkElem_null : linkElem litNull = some none := by simp [linkElem]

/-- bytes with no structural character (numbers, `true`, `null`, …) -/
def Simple (e : Bytes) : Prop := ∀ b ∈ e, b ≠ 34 ∧ b ≠ 44 ∧ b ≠ 91 ∧ b ≠ 93 ∧ b ≠ 123 ∧ b ≠ 125

theorem runBytes_simple : ∀ (e : Bytes) (s : Sc), Clean s → Simple e →
    runBytes s e = some { s with cur := e.reverse ++ s.cur } := by
  intro e
  induction e with
  | nil => intro s _ _; simp [runBytes]
  | cons b e ih =>
    intro s hs h
    obtain ⟨h1, h2, h3⟩ := hs
    obtain ⟨a1, a2, a3, a4, a5, a6⟩ := h b (by simp)
    simp only [runBytes, step, h2, Bool.false_eq_true, if_false, a1, a2, a3, a4, a5, a6, false_or, or_self, false_and]
    rw [ih { depth := s.depth, inStr := false, esc := s.esc, cur := b :: s.cur, acc := s.acc } ⟨h1, rfl, h3⟩
      (fun c hc => h c (by simp [hc]))]
    simp

theorem plain_simple (e : Bytes) (hne : e ≠ []) (h : Simple e) : Plain e :=
  ⟨hne, fun s hs => runBytes_simple e s hs h⟩

/-- a node whose parts the v1marshaler decoder reads back -/
structure JNodeOK (n : NodeB) : Prop where
  keys : ∀ b ∈ n.keys, Plain b
  vals : ∀ b ∈ n.vals, Plain b
  names : ∀ nm, some nm ∈ n.links → ∀ b ∈ nm, b ≠ 34 ∧ b ≠ 92

theorem mapM_linkElem (ls : List (Option Bytes)) : (ls.map linkText).mapM linkElem = some ls := by
  induction ls with
  | nil => rfl
  | cons l ls ih =>
    simp only [List.map_cons, List.mapM_cons]
    cases l with
    | none => simp [linkText, linkElem_null, ih]
    | some nm => simp [linkText, linkElem_quote, ih]

/-- **round trip of the v1marshaler node format** -/
theorem decJson_encJson (n : NodeB) (h : JNodeOK n) :
    decJson (encJson n) = some (RawNode.mk (n.keys.map some) (n.vals.map some)
      (if n.links.all Option.isNone then [] else n.links)) := by
  have hl : ∀ y ∈ n.links.map linkText, Plain y := by
    intro y hy
    obtain ⟨l, hlm, rfl⟩ := List.mem_map.mp hy
    cases l with
    | none => exact plain_null
    | some nm => exact plain_quote nm (h.names nm hlm)
  unfold decJson encJson jsonArray
  by_cases hall : n.links.all Option.isNone = true
  · simp only [hall, if_true, List.append_nil]
    rw [show litKey ++ (91 :: joinComma n.keys ++ [93]) ++ litValue ++ (91 :: joinComma n.vals ++ [93]) ++ [125]
          = (litKey ++ [91]) ++ (joinComma n.keys ++ 93 :: ((litValue ++ [91]) ++ (joinComma n.vals ++ 93 :: [125]))) by simp]
    rw [expect_append]
    simp only []
    rw [scanArray_jsonArray n.keys _ h.keys]
    simp only []
    rw [expect_append]
    simp only []
    rw [scanArray_jsonArray n.vals _ h.vals]
    simp
  · have hall' : n.links.all Option.isNone = false := by simpa using hall
    simp only [hall', Bool.false_eq_true, if_false]
    rw [show litKey ++ (91 :: joinComma n.keys ++ [93]) ++ litValue ++ (91 :: joinComma n.vals ++ [93]) ++
            (litLink ++ (91 :: joinComma (n.links.map linkText) ++ [93])) ++ [125]
          = (litKey ++ [91]) ++ (joinComma n.keys ++ 93 :: ((litValue ++ [91]) ++ (joinComma n.vals ++ 93 ::
              ((litLink ++ [91]) ++ (joinComma (n.links.map linkText) ++ 93 :: [125]))))) by simp]
    rw [expect_append]
    simp only []
    rw [scanArray_jsonArray n.keys _ h.keys]
    simp only []
    rw [expect_append]
    simp only []
    rw [scanArray_jsonArray n.vals _ h.vals]
    simp only []
    have hne : ¬ ((litLink ++ [91]) ++ (joinComma (n.links.map linkText) ++ 93 :: [125]) = [125]) := by
      simp [litLink]
    rw [if_neg hne, expect_append]
    simp only []
    rw [scanArray_jsonArray _ _ hl]
    simp only [if_true, mapM_linkElem]

end Json
end Mast
