import Mastverif.Lemmas.CursorBwd
/-!
# Every cursor walk is index arithmetic on the sorted entry list

`Pos root p n`: the cursor `p` over the tree `root` stands at index `n` of `toList root`.
`Min`, `Max` and `Ceil` establish it (at `0`, at `length - 1`, at the number of keys smaller than
the probe), `Forward` / `Backward` move it by one and leave the path (for good) when stepping off
either end.  `walk_spec` lifts this to every list of moves, in any order.
-/
namespace Mast
open T
namespace Cursor

inductive Move where
  | fwd | bwd
  deriving Repr, DecidableEq

inductive Place where
  | min | max | ceil (k : Nat)
  deriving Repr, DecidableEq

def stepPath (fuel : Nat) (p : Path) : Move → Path
  | .fwd => forward fuel p
  | .bwd => backward fuel p

def place (fuel : Nat) (root : T) : Place → Path
  | .min => min fuel [(root, 0)]
  | .max => max fuel [(root, 0)]
  | .ceil k => ceil k fuel [(root, 0)]

/-- the specification: a position is an index into the sorted list, or "no entry" (absorbing) -/
def stepIdx (len : Nat) : Option Nat → Move → Option Nat
  | none, _ => none
  | some n, .fwd => if n + 1 < len then some (n + 1) else none
  | some n, .bwd => if 0 < n then some (n - 1) else none

def placeIdx (L : List (Nat × Nat)) : Place → Option Nat
  | .min => if 0 < L.length then some 0 else none
  | .max => if 0 < L.length then some (L.length - 1) else none
  | .ceil k =>
      let m := (L.takeWhile fun e => decide (e.1 < k)).length
      if m < L.length then some m else none

structure Pos (root : T) (p : Path) (n : Nat) : Prop where
  ne : p ≠ []
  good : Good (lvl root) p
  chain : ChainFrom root p
  pre_eq : pre p = (toList root).take n
  lt : n < (toList root).length

def Rel (root : T) (p : Path) : Option Nat → Prop
  | none => p = []
  | some n => Pos root p n

theorem all_of_good {root : T} {p : Path} (hne : p ≠ []) (g : Good (lvl root) p) (hc : ChainFrom root p) :
    pre p ++ out p = toList root := by
  cases p with
  | nil => exact absurd rfl hne
  | cons x rest =>
    obtain ⟨node, i⟩ := x
    exact chain_all root node i rest hc (Nat.le_of_lt g.at_)

theorem pos_out {root : T} {p : Path} {n : Nat} (h : Pos root p n) : out p = (toList root).drop n := by
  have h1 := all_of_good h.ne h.good h.chain
  rw [h.pre_eq] at h1
  have h2 := List.take_append_drop n (toList root)
  exact List.append_cancel_left (h1.trans h2.symm)

theorem pos_of_out {root : T} {p : Path} {n : Nat} (hne : p ≠ []) (g : Good (lvl root) p) (hc : ChainFrom root p)
    (ho : out p = (toList root).drop n) (hlt : n < (toList root).length) : Pos root p n := by
  refine ⟨hne, g, hc, ?_, hlt⟩
  have h1 := all_of_good hne g hc
  rw [ho] at h1
  have h2 := List.take_append_drop n (toList root)
  exact List.append_cancel_right (h1.trans h2.symm)

theorem pos_of_pre {root : T} {p : Path} {n : Nat} (hne : p ≠ []) (g : Good (lvl root) p) (hc : ChainFrom root p)
    (hp : pre p = (toList root).take n) (hlt : n < (toList root).length) : Pos root p n :=
  ⟨hne, g, hc, hp, hlt⟩

theorem get_pos {root : T} {p : Path} {n : Nat} (h : Pos root p n) : get p = (toList root)[n]? := by
  rw [get_eq_head p h.good.at_, pos_out h, List.head?_drop]

theorem get_rel {root : T} {p : Path} {s : Option Nat} (h : Rel root p s) :
    get p = s.bind fun n => (toList root)[n]? := by
  cases s with
  | none => simp only [Rel] at h; subst h; rfl
  | some n => simpa using get_pos h

theorem dropLast_take_pred (l : List (Nat × Nat)) (n : Nat) (h : n < l.length) :
    (l.take n).dropLast = l.take (n - 1) := by
  rw [List.dropLast_eq_take, List.length_take, List.take_take]
  congr 1
  omega

theorem dropWhile_eq_drop (q : Nat × Nat → Bool) : ∀ l : List (Nat × Nat),
    l.dropWhile q = l.drop (l.takeWhile q).length := by
  intro l
  induction l with
  | nil => rfl
  | cons x l ih =>
    by_cases hx : q x = true
    · simp [List.dropWhile, List.takeWhile, hx, ih]
    · simp [List.dropWhile, List.takeWhile, hx]

/-- one move of the cursor is one move of the index -/
theorem step_rel (root : T) (fuel : Nat) (hf : lvl root < fuel) (p : Path) (s : Option Nat) (m : Move)
    (h : Rel root p s) : Rel root (stepPath fuel p m) (stepIdx (toList root).length s m) := by
  cases s with
  | none =>
    simp only [Rel] at h; subst h
    cases m <;> simp [stepPath, stepIdx, Rel, forward, backward]
  | some n =>
    have h : Pos root p n := h
    cases m with
    | fwd =>
      simp only [stepPath, stepIdx]
      obtain ⟨f1, f2⟩ := forward_good (lvl root) fuel hf p h.good
      have f3 := forward_chain root fuel p h.chain
      rw [pos_out h, List.tail_drop] at f1
      by_cases hlt : n + 1 < (toList root).length
      · simp only [hlt, if_true]
        have hne : forward fuel p ≠ [] := by
          intro he
          rw [he] at f1
          simp only [out, List.map_nil, List.flatten_nil] at f1
          have := List.drop_eq_nil_iff.mp f1.symm
          omega
        exact pos_of_out hne f2 f3 f1 hlt
      · simp only [hlt, if_false]
        apply good_off_end f2
        rw [f1]; exact List.drop_eq_nil_iff.mpr (by omega)
    | bwd =>
      simp only [stepPath, stepIdx]
      obtain ⟨b1, b2, b3, b4⟩ := backward_spec root (lvl root) fuel hf p h.good h.chain
      rw [h.pre_eq] at b1 b2
      by_cases hpos : 0 < n
      · simp only [hpos, if_true]
        have hne : backward fuel p ≠ [] := by
          intro he
          have := b2.mp he
          have hl := h.lt
          have : ((toList root).take n).length = 0 := by rw [this]; rfl
          rw [List.length_take] at this
          omega
        rw [dropLast_take_pred _ n h.lt] at b1
        exact pos_of_pre hne b3 b4 b1 (by have := h.lt; omega)
      · have hz : n = 0 := by omega
        subst hz
        simp only [Nat.lt_irrefl, if_false]
        exact b2.mpr (by simp)

theorem walk_rel (root : T) (fuel : Nat) (hf : lvl root < fuel) : ∀ (ms : List Move) (p : Path) (s : Option Nat),
    Rel root p s → Rel root (ms.foldl (stepPath fuel) p) (ms.foldl (stepIdx (toList root).length) s) := by
  intro ms
  induction ms with
  | nil => intro p s h; exact h
  | cons m ms ih =>
    intro p s h
    exact ih _ _ (step_rel root fuel hf p s m h)

/-- placement on a tree that has entries -/
theorem place_rel (root : T) (fuel : Nat) (hs : Solid root) (hsrt : Sorted (toList root)) (hf : lvl root < fuel)
    (hn : root.isNil = false) (hne : isEmptyRow root = false) (pl : Place) :
    Rel root (place fuel root pl) (placeIdx (toList root) pl) := by
  have hnn : toList root ≠ [] := toList_ne_nil_of_solid root hs hne hn
  have hlen : 0 < (toList root).length := List.length_pos_iff.mpr hnn
  cases pl with
  | min =>
    simp only [place, placeIdx, hlen, if_true]
    obtain ⟨m1, m2, m3⟩ := min_spec fuel root hs hf hn hne
    have hl : ∀ x ∈ min fuel [(root, 0)], lvl x.1 ≤ lvl root := by
      simp only [min]
      exact minFrom_lvl (lvl root) fuel root [(root, 0)] (Nat.le_refl _) (by simp)
    have hc : ChainFrom root (min fuel [(root, 0)]) := by
      simp only [min]
      exact minFrom_chain root fuel root 0 [] (by simp [ChainFrom]) rfl
    have hne' : min fuel [(root, 0)] ≠ [] := by
      intro he; rw [he] at m1; simp only [out, List.map_nil, List.flatten_nil] at m1
      exact hnn m1.symm
    exact pos_of_out hne' ⟨m2, m3, hl⟩ hc (by simpa using m1) hlen
  | max =>
    simp only [place, placeIdx, hlen, if_true]
    obtain ⟨p1, p2, p3, p4⟩ := max_spec fuel root hs hf hn hne
    refine pos_of_pre p2 p3 p4 ?_ (by omega)
    rw [p1, List.dropLast_eq_take]
  | ceil k =>
    simp only [place, placeIdx]
    have g := ceil_good k fuel root hs hf
    have hc : ChainFrom root (ceil k fuel [(root, 0)]) := ceil_chain root k fuel root 0 [] (by simp [ChainFrom])
    have ho := out_ceil k fuel root 0 [] hf
    simp only [out, List.map_nil, List.flatten_nil, List.append_nil] at ho
    rw [seekT_spec k root hsrt] at ho
    have hdw := dropWhile_eq_drop (fun e : Nat × Nat => decide (e.1 < k)) (toList root)
    by_cases hlt : ((toList root).takeWhile fun e => decide (e.1 < k)).length < (toList root).length
    · simp only [hlt, if_true]
      have hne' : ceil k fuel [(root, 0)] ≠ [] := by
        intro he
        rw [he, hdw] at ho
        simp only [List.map_nil, List.flatten_nil] at ho
        have := List.drop_eq_nil_iff.mp ho.symm
        omega
      exact pos_of_out hne' g hc (by simp only [out]; rw [ho, hdw]) hlt
    · simp only [hlt, if_false]
      apply good_off_end g
      simp only [out]
      rw [ho, hdw]
      exact List.drop_eq_nil_iff.mpr (by omega)

/-! ## trees without entries -/

/-- both forms of the empty tree: no root node, or an entry-less top node -/
def EmptyRoot (root : T) : Prop := root = nil ∨ ∃ q, root = last q nil

def EPath (root : T) (p : Path) : Prop := p = [] ∨ p = [(root, 0)]

theorem empty_place (root : T) (he : EmptyRoot root) (fuel : Nat) (pl : Place) : EPath root (place (fuel + 1) root pl) := by
  rcases he with rfl | ⟨q, rfl⟩
  · cases pl <;> simp [place, min, max, minFrom, maxFrom, ceil, popCeil, linkAt, isNil, rowLen, lowerBound, entryAt, EPath]
  · cases pl <;> simp [place, min, max, minFrom, maxFrom, ceil, popCeil, linkAt, isNil, rowLen, lowerBound, entryAt, EPath]

theorem empty_step (root : T) (he : EmptyRoot root) (fuel : Nat) (p : Path) (m : Move) (h : EPath root p) :
    EPath root (stepPath fuel p m) := by
  rcases h with rfl | rfl
  · cases m <;> simp [stepPath, forward, backward, EPath]
  · rcases he with rfl | ⟨q, rfl⟩
    · cases m <;> simp [stepPath, forward, backward, popFwd, popBwd, linkAt, isNil, rowLen, EPath]
    · cases m <;> simp [stepPath, forward, backward, popFwd, popBwd, linkAt, isNil, rowLen, EPath]

theorem empty_get (root : T) (he : EmptyRoot root) (p : Path) (h : EPath root p) : get p = none := by
  rcases h with rfl | rfl
  · rfl
  · rcases he with rfl | ⟨q, rfl⟩ <;> rfl

theorem empty_walk (root : T) (he : EmptyRoot root) (fuel : Nat) : ∀ (ms : List Move) (p : Path), EPath root p →
    EPath root (ms.foldl (stepPath fuel) p) := by
  intro ms
  induction ms with
  | nil => intro p h; exact h
  | cons m ms ih => intro p h; exact ih _ (empty_step root he fuel p m h)

theorem stepIdx_none (len : Nat) : ∀ ms : List Move, ms.foldl (stepIdx len) none = none := by
  intro ms
  induction ms with
  | nil => rfl
  | cons m ms ih => simpa [List.foldl, stepIdx] using ih

end Cursor
end Mast
