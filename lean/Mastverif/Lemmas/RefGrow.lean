import Mastverif.Lemmas.RefSplit
import Mastverif.Lemmas.RefRowsGrow
import Mastverif.Lemmas.RefStep
/-! `extractLink`, the loop of `grow`. -/
namespace Mast.Ptr
open Mast.Heap

theorem zip_drop_cons {ks vs : List Nat} {i k v : Nat} {rest : List (Nat × Nat)}
    (h : (ks.zip vs).drop i = (k, v) :: rest) :
    ks[i]? = some k ∧ vs[i]? = some v ∧ rest = (ks.zip vs).drop (i + 1) := by
  have h0 : ((ks.zip vs).drop i)[0]? = some (k, v) := by rw [h]; rfl
  rw [List.getElem?_drop] at h0
  have := List.getElem?_zip_eq_some.mp h0
  refine ⟨this.1, this.2, ?_⟩
  rw [← List.tail_drop, h]; rfl

theorem zip_drop_nil {ks vs : List Nat} {i : Nat} (h : (ks.zip vs).drop i = []) (hl : vs.length = ks.length) :
    ks.length ≤ i := by
  have := List.drop_eq_nil_iff.mp h
  simp [hl] at this
  exact this

theorem drop_eq_take_drop_append {α : Type} (l : List α) {s i : Nat} (h : s ≤ i) :
    l.drop s = (l.take i).drop s ++ l.drop i := by
  conv => lhs; rw [← List.take_append_drop i l]
  rw [List.drop_append]
  have : s - (l.take i).length = 0 ∨ (l.take i).length ≤ s := by
    rw [List.length_take]; omega
  rcases this with h1 | h1
  · rw [h1]; rfl
  · have h2 : (l.take i).length = i ∨ (l.take i).length = l.length := by rw [List.length_take]; omega
    rcases h2 with h2 | h2
    · have : s = i := by omega
      subst this
      rw [h2, Nat.sub_self]; rfl
    · have hdi : l.drop i = [] := by
        rw [List.length_take] at h2
        exact List.drop_eq_nil_iff.mpr (by omega)
      rw [hdi]; simp

/-- a result with the absent row comes from the absent link: its flag is `false` -/
theorem repLink_flagOK {h : Heap} {st : List SNode} {g : Nat} {l : HLink} {c : Bool × T × List Nat}
    (hc : repLink h st g l = some c) (hr : c.2.1 = T.nil) : c.1 = false := by
  by_cases hl : l = .nil
  · subst hl; simp at hc; subst hc; rfl
  · exact absurd hr (repLink_row_ne_nil hc hl)

theorem flagOK_of_seqO {h : Heap} {st : List SNode} {g : Nat} {ls : List HLink} {cs : List (Bool × T × List Nat)}
    (hcs : seqO (ls.map (repLink h st g)) = some cs) : FlagOK (cs.map pr) := by
  intro c hc hr
  obtain ⟨c0, hc0, rfl⟩ := List.mem_map.mp hc
  obtain ⟨i, hi⟩ := List.getElem?_of_mem hc0
  have hlen := seqO_map_length hcs
  have hlt : i < ls.length := by rw [← hlen]; exact (List.getElem?_eq_some_iff.mp hi).1
  obtain ⟨c', hc1, hc2⟩ := seqO_map_getElem? hcs (List.getElem?_eq_getElem hlt)
  rw [hi] at hc2; injection hc2 with hc2; subst hc2
  exact repLink_flagOK hc1 hr

/-- the node `extract` builds from entries `frm … to-1` and links `frm … to` -/
def segNode (m : Nat) (nd : MNode) (frm to : Nat) : MNode :=
  { keys := (nd.keys.take to).drop frm, vals := (nd.vals.take to).drop frm,
    links := (nd.links.take (to + 1)).drop frm, dirty := true, shared := false, owner := m, source := none }

theorem extractLink_spec {m : Nat} (nd : MNode) (frm to : Nat) (s : PS) (g : Nat) (cs : List (Bool × T × List Nat))
    (hv : ValidN nd) (hkids : seqO (nd.links.map (repLink s.heap s.store g)) = some cs)
    (hft : frm ≤ to) (hto : to ≤ nd.keys.length) :
    Spec (Grow m) (extractLink m nd frm to) s (fun l s' => ∃ x, repLink s'.heap s'.store (g + 1) l = some x ∧
      x.1 = false ∧
      x.2.1 = T.mk (mkRow (((cs.take (to + 1)).drop frm).map pr) ((nd.keys.take to).drop frm) ((nd.vals.take to).drop frm)) ∧
      ((l = .nil ∧ s' = s ∧ fps ((cs.take (to + 1)).drop frm) = [] ∧ x.2.2 = []) ∨
       (l = .ptr s.heap.length ∧ s'.heap.length = s.heap.length + 1 ∧
          x.2.2 = s.heap.length :: fps ((cs.take (to + 1)).drop frm)))) := by
  unfold extractLink
  have hvs : ValidN (segNode m nd frm to) := by
    unfold ValidN segNode
    simp only [List.length_drop, List.length_take]
    have := hv.1; have := hv.2
    omega
  exact linkNew_spec (segNode m nd frm to) s g _ rfl rfl hvs (seqO_map_drop (seqO_map_take hkids (to + 1)) frm)

theorem canGrowM_spec {m : Nat} (E : Env) (h : Nat) : ∀ (ks : List Nat) (s : PS),
    Spec (Grow m) (canGrowM E h ks) s (fun b _ => b = ks.any (fun k => decide (h < E.layer k))) := by
  intro ks
  induction ks with
  | nil => intro s; exact Spec.pure rfl
  | cons k ks ih =>
    intro s
    unfold canGrowM
    refine Spec.bind (layerM_spec (m := m) E k s) ?_
    rintro lay s1 _ _ rfl
    split
    · next hk => exact Spec.pure (by simp [hk])
    · next hk =>
      refine (ih s1).conseq ?_
      intro b _ _ _ hb
      rw [hb]; simp [hk]

end Mast.Ptr
