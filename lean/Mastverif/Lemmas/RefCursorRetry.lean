import Mastverif.Lemmas.RefCursor
import Mastverif.Lemmas.CursorRetry
/-!
# What a failing `Min` / `Max` / `Ceil` leaves behind (object level)

`Lemmas/RefCursor.lean` says that a placement that reports an error leaves *some* path.  Here: which
one — the object path denotes a partial descent of the functional placement (`MinPartial`,
`MaxPartial`, `CeilPartial` of `Lemmas/CursorRetry.lean`), so that the same call, made again on the
same cursor, resumes and ends where the uninterrupted call ends.
-/
namespace Mast.Ptr
open Mast.Heap Mast

variable {w : Nat}

/-- with an error, the path denotes a path that satisfies `R` -/
def NavPostR (w g : Nat) (R : Path → Prop) (r : CPath × Bool) (s' : PS) : Prop :=
  r.2 = true → ∃ P'', PathRep w s' g r.1 P'' ∧ R P''

theorem cMinLoop_fail {m : Nat} (E : Env) (g : Nat) : ∀ (f a : Nat) (opath : CPath) (s : PS) (node : T) (j : Nat) (rest : Path),
    Good s → NodeRep w s g a node → PathRep w s g opath ((node, j) :: rest) →
    Spec (Grow m) (cMinLoop E f a opath) s (NavPostR w g (Cursor.MinPartial ((node, j) :: rest))) := by
  intro f
  induction f with
  | zero => intro a opath s node j rest _ _ _; exact Spec.oof
  | succ f ih =>
    intro a opath s node j rest hg hn hp
    obtain ⟨g', nd, cs, rfl, hnd, hval, hseq, hcs, rfl⟩ := hn.view
    unfold cMinLoop
    refine Spec.bind (read_spec a s) ?_
    rintro nd' s1 _ _ ⟨rfl, hnd'⟩
    rw [hnd] at hnd'; injection hnd' with hnd'; subst hnd'
    have hv := view_link hval hseq 0
    cases hl : nd.links[0]? with
    | none => exact Spec.pure (fun h => nomatch h)
    | some l =>
      rw [hl] at hv; simp only [] at hv
      obtain ⟨c, hcm, hc, hla⟩ := hv
      cases l with
      | nil => exact Spec.pure (fun h => nomatch h)
      | ptr b =>
        have hnn : (T.linkAt (mkRow (cs.map fun c => (c.1, c.2.1)) nd.keys nd.vals) 0).isNil = false := by
          rw [hla]; exact repLink_row_isNil (by simp) hc
        refine Spec.bind (load_child_spec (m := m) E hg hc (hcs c hcm).1 (hcs c hcm).2) ?_
        intro r s2 _ hgr hq
        cases r with
        | none => exact Spec.pure (fun _ => ⟨_, hp.grow hgr, .here _⟩)
        | some c2 =>
          simp only [] at hq
          rw [← hla] at hq
          refine Spec.conseq (ih c2 ((c2, 0) :: opath) s2 _ 0 _ (hgr.good hg) hq ⟨rfl, hq, hp.grow hgr⟩) ?_
          intro r s3 _ _ hr herr
          obtain ⟨P'', h1, h2⟩ := hr herr
          exact ⟨P'', h1, .down _ _ _ _ hnn h2⟩
      | ref n =>
        have hnn : (T.linkAt (mkRow (cs.map fun c => (c.1, c.2.1)) nd.keys nd.vals) 0).isNil = false := by
          rw [hla]; exact repLink_row_isNil (by simp) hc
        refine Spec.bind (load_child_spec (m := m) E hg hc (hcs c hcm).1 (hcs c hcm).2) ?_
        intro r s2 _ hgr hq
        cases r with
        | none => exact Spec.pure (fun _ => ⟨_, hp.grow hgr, .here _⟩)
        | some c2 =>
          simp only [] at hq
          rw [← hla] at hq
          refine Spec.conseq (ih c2 ((c2, 0) :: opath) s2 _ 0 _ (hgr.good hg) hq ⟨rfl, hq, hp.grow hgr⟩) ?_
          intro r s3 _ _ hr herr
          obtain ⟨P'', h1, h2⟩ := hr herr
          exact ⟨P'', h1, .down _ _ _ _ hnn h2⟩

theorem cMin_fail {m : Nat} (E : Env) (g f : Nat) (opath : CPath) (s : PS) (P : Path)
    (hg : Good s) (hp : PathRep w s g opath P) :
    Spec (Grow m) (cMin E f opath) s (NavPostR w g (Cursor.MinPartial P)) := by
  match opath, P, hp with
  | [], [], _ => exact Spec.pure (fun h => nomatch h)
  | (a, i) :: o, (row, j) :: p, hp =>
    simp only [cMin]
    exact cMinLoop_fail E g f a _ s row j p hg hp.2.1 hp

/-- for `Max` the failing call leaves `(a, last link index) :: path`: the node it stands in, entered
    through its last link -/
def MaxLeft (node : T) (P : Path) (P'' : Path) : Prop :=
  ∃ node'' P2, P'' = (node'', T.rowLen node'') :: P2 ∧ Cursor.MaxPartial node P node'' P2

theorem cMaxLoop_fail {m : Nat} (E : Env) (g : Nat) : ∀ (f a : Nat) (opath : CPath) (s : PS) (node : T) (P : Path),
    Good s → NodeRep w s g a node → PathRep w s g opath P →
    Spec (Grow m) (cMaxLoop E f a opath) s (NavPostR w g (MaxLeft node P)) := by
  intro f
  induction f with
  | zero => intro a opath s node P _ _ _; exact Spec.oof
  | succ f ih =>
    intro a opath s node P hg hn hp
    have hn0 := hn
    obtain ⟨g', nd, cs, rfl, hnd, hval, hseq, hcs, rfl⟩ := hn.view
    unfold cMaxLoop
    refine Spec.bind (read_spec a s) ?_
    rintro nd' s1 _ _ ⟨rfl, hnd'⟩
    rw [hnd] at hnd'; injection hnd' with hnd'; subst hnd'
    have hrl := view_rowLen hval hseq
    have hv := view_link hval hseq nd.keys.length
    have hne : ¬ nd.links.length = 0 := by rw [hval.1]; omega
    have hidx : nd.links.length - 1 = nd.keys.length := by rw [hval.1]; omega
    simp only [hne, if_false, hidx]
    cases hl : nd.links[nd.keys.length]? with
    | none => exact Spec.pure (fun h => nomatch h)
    | some l =>
      rw [hl] at hv; simp only [] at hv
      obtain ⟨c, hcm, hc, hla⟩ := hv
      cases l with
      | nil => exact Spec.pure (fun h => nomatch h)
      | ptr b =>
        have hnn : (T.linkAt (mkRow (cs.map fun c => (c.1, c.2.1)) nd.keys nd.vals)
            (T.rowLen (mkRow (cs.map fun c => (c.1, c.2.1)) nd.keys nd.vals))).isNil = false := by
          rw [hrl, hla]; exact repLink_row_isNil (by simp) hc
        refine Spec.bind (load_child_spec (m := m) E hg hc (hcs c hcm).1 (hcs c hcm).2) ?_
        intro r s2 _ hgr hq
        cases r with
        | none =>
          exact Spec.pure (fun _ => ⟨(_, nd.keys.length) :: P, ⟨rfl, hn0.grow hgr, hp.grow hgr⟩,
            _, _, by rw [hrl], .here _ _⟩)
        | some c2 =>
          simp only [] at hq
          rw [← hla] at hq
          refine Spec.conseq (ih c2 _ s2 _ _ (hgr.good hg) hq (show PathRep w s2 (g' + 1) _ ((_, nd.keys.length) :: P) from ⟨rfl, hn0.grow hgr, hp.grow hgr⟩)) ?_
          intro r s3 _ _ hr herr
          obtain ⟨P'', h1, n2, P2, h2, h3⟩ := hr herr
          refine ⟨P'', h1, n2, P2, h2, .down _ _ _ _ hnn ?_⟩
          rw [hrl]; exact h3
      | ref n =>
        have hnn : (T.linkAt (mkRow (cs.map fun c => (c.1, c.2.1)) nd.keys nd.vals)
            (T.rowLen (mkRow (cs.map fun c => (c.1, c.2.1)) nd.keys nd.vals))).isNil = false := by
          rw [hrl, hla]; exact repLink_row_isNil (by simp) hc
        refine Spec.bind (load_child_spec (m := m) E hg hc (hcs c hcm).1 (hcs c hcm).2) ?_
        intro r s2 _ hgr hq
        cases r with
        | none =>
          exact Spec.pure (fun _ => ⟨(_, nd.keys.length) :: P, ⟨rfl, hn0.grow hgr, hp.grow hgr⟩,
            _, _, by rw [hrl], .here _ _⟩)
        | some c2 =>
          simp only [] at hq
          rw [← hla] at hq
          refine Spec.conseq (ih c2 _ s2 _ _ (hgr.good hg) hq (show PathRep w s2 (g' + 1) _ ((_, nd.keys.length) :: P) from ⟨rfl, hn0.grow hgr, hp.grow hgr⟩)) ?_
          intro r s3 _ _ hr herr
          obtain ⟨P'', h1, n2, P2, h2, h3⟩ := hr herr
          refine ⟨P'', h1, n2, P2, h2, .down _ _ _ _ hnn ?_⟩
          rw [hrl]; exact h3

theorem cMax_fail {m : Nat} (E : Env) (g f : Nat) (opath : CPath) (s : PS) (row : T) (j : Nat) (p : Path)
    (hg : Good s) (hp : PathRep w s g opath ((row, j) :: p)) :
    Spec (Grow m) (cMax E f opath) s (NavPostR w g (MaxLeft row p)) := by
  match opath, hp with
  | (a, i) :: o, hp =>
    simp only [cMax]
    exact cMaxLoop_fail E g f a _ s row _ hg hp.2.1 hp.2.2

theorem view_ceilDown_none {s : PS} {g' : Nat} {nd : MNode} {cs : List (Bool × T × List Nat)}
    (hval : ValidN nd) (hseq : seqO (nd.links.map (repLink s.heap s.store g')) = some cs) (k : Nat) :
    Cursor.ceilDown k (mkRow (cs.map fun c => (c.1, c.2.1)) nd.keys nd.vals) =
      (if nd.keys[keyIdx nd.keys k]? = some k then none
       else if (T.linkAt (mkRow (cs.map fun c => (c.1, c.2.1)) nd.keys nd.vals) (keyIdx nd.keys k)).isNil = true then none
       else some (T.linkAt (mkRow (cs.map fun c => (c.1, c.2.1)) nd.keys nd.vals) (keyIdx nd.keys k), keyIdx nd.keys k)) := by
  unfold Cursor.ceilDown
  rw [view_lowerBound hval hseq k, view_entryAt hval hseq]
  cases hk : nd.keys[keyIdx nd.keys k]? with
  | none => simp
  | some k' =>
    have hlt : keyIdx nd.keys k < nd.keys.length := (List.getElem?_eq_some_iff.mp hk).1
    have hlt2 : keyIdx nd.keys k < nd.vals.length := by rw [hval.2]; exact hlt
    obtain ⟨v', hvv⟩ : ∃ v', nd.vals[keyIdx nd.keys k]? = some v' := ⟨_, List.getElem?_eq_getElem hlt2⟩
    simp only [Option.bind_some, hvv, Option.map_some, Option.some.injEq]

theorem cCeil_fail {m : Nat} (E : Env) (g k : Nat) : ∀ (f : Nat) (opath : CPath) (s : PS) (P : Path),
    Good s → PathRep w s g opath P →
    Spec (Grow m) (cCeil E k f opath) s (NavPostR w g (Cursor.CeilPartial k P)) := by
  intro f
  induction f with
  | zero => intro opath s P _ _; exact Spec.oof
  | succ f ih =>
    intro opath s P hg hp
    match opath, P, hp with
    | [], [], _ => exact Spec.pure (fun h => nomatch h)
    | (a, i0) :: o, (row, j) :: p, hp =>
      obtain ⟨rfl, hn, hrest⟩ := hp
      have hn0 := hn
      obtain ⟨g', nd, cs, rfl, hnd, hval, hseq, hcs, rfl⟩ := hn.view
      simp only [cCeil]
      refine Spec.bind (read_spec a s) ?_
      rintro nd' s1 _ _ ⟨rfl, hnd'⟩
      rw [hnd] at hnd'; injection hnd' with hnd'; subst hnd'
      have hcd := view_ceilDown_none hval hseq k
      have hv := view_link hval hseq (keyIdx nd.keys k)
      by_cases hkk : nd.keys[keyIdx nd.keys k]? = some k
      · simp only [hkk, if_true]
        exact Spec.pure (fun h => nomatch h)
      · simp only [hkk, if_false] at hcd ⊢
        cases hl : nd.links[keyIdx nd.keys k]? with
        | none => exact Spec.panic
        | some l =>
          rw [hl] at hv; simp only [] at hv
          obtain ⟨c, hcm, hc, hla⟩ := hv
          cases l with
          | nil =>
            refine Spec.bind (cPopCeil_spec (m := m) (g' + 1) _ s _ (show PathRep w s (g' + 1) ((a, keyIdx nd.keys k) :: o) ((_, keyIdx nd.keys k) :: p) from ⟨rfl, hn0, hrest⟩)) ?_
            rintro r s2 _ _ _
            exact Spec.pure (fun h => nomatch h)
          | ptr b =>
            have hnn : (T.linkAt (mkRow (cs.map fun c => (c.1, c.2.1)) nd.keys nd.vals) (keyIdx nd.keys k)).isNil = false := by
              rw [hla]; exact repLink_row_isNil (by simp) hc
            simp only [hnn, Bool.false_eq_true, if_false] at hcd
            refine Spec.bind (load_child_spec (m := m) E hg hc (hcs c hcm).1 (hcs c hcm).2) ?_
            intro r s2 _ hgr hq
            cases r with
            | none =>
              exact Spec.pure (fun _ => ⟨(_, keyIdx nd.keys k) :: p, ⟨rfl, hn0.grow hgr, hrest.grow hgr⟩, .here _ _ _ _⟩)
            | some c2 =>
              simp only [] at hq
              rw [← hla] at hq
              refine Spec.conseq (ih _ s2 _ (hgr.good hg) (show PathRep w s2 (g' + 1) _ ((_, 0) :: (_, keyIdx nd.keys k) :: p) from ⟨rfl, hq, rfl, hn0.grow hgr, hrest.grow hgr⟩)) ?_
              intro r s3 _ _ hr herr
              obtain ⟨P'', h1, h2⟩ := hr herr
              exact ⟨P'', h1, .down _ _ _ _ _ _ hcd h2⟩
          | ref n =>
            have hnn : (T.linkAt (mkRow (cs.map fun c => (c.1, c.2.1)) nd.keys nd.vals) (keyIdx nd.keys k)).isNil = false := by
              rw [hla]; exact repLink_row_isNil (by simp) hc
            simp only [hnn, Bool.false_eq_true, if_false] at hcd
            refine Spec.bind (load_child_spec (m := m) E hg hc (hcs c hcm).1 (hcs c hcm).2) ?_
            intro r s2 _ hgr hq
            cases r with
            | none =>
              exact Spec.pure (fun _ => ⟨(_, keyIdx nd.keys k) :: p, ⟨rfl, hn0.grow hgr, hrest.grow hgr⟩, .here _ _ _ _⟩)
            | some c2 =>
              simp only [] at hq
              rw [← hla] at hq
              refine Spec.conseq (ih _ s2 _ (hgr.good hg) (show PathRep w s2 (g' + 1) _ ((_, 0) :: (_, keyIdx nd.keys k) :: p) from ⟨rfl, hq, rfl, hn0.grow hgr, hrest.grow hgr⟩)) ?_
              intro r s3 _ _ hr herr
              obtain ⟨P'', h1, h2⟩ := hr herr
              exact ⟨P'', h1, .down _ _ _ _ _ _ hcd h2⟩

end Mast.Ptr
