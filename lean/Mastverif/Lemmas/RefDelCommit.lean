import Mastverif.Lemmas.RefDelPlan
import Mastverif.Lemmas.RefDelRelink
import Mastverif.Lemmas.RefCommit2
/-! `deleteCommit` (the in-place write of `deleteEntry`, then `savePathForRoot` with pruning) refines `T.del`. -/
namespace Mast.Ptr
open Mast.Heap

/-- what `deleteCommit` establishes: the new root link denotes the row with the entry removed -/
def DelCommitOK (key n0 : Nat) (x : Bool × T × List Nat) (lv : Nat) (root : HLink) (s' : PS) : Prop :=
  ∃ a0 g' y, root = .ptr a0 ∧ repLink s'.heap s'.store g' (.ptr a0) = some y ∧
    T.del key lv x.2.1 = some y.2.1 ∧ FpExt n0 x.2.2 y.2.2 ∧ rootDirty s'.heap root = true

theorem length_eraseIdx_lt {α : Type} (l : List α) {i : Nat} (h : i < l.length) :
    (l.eraseIdx i).length = l.length - 1 := by
  rw [List.length_eraseIdx, if_pos h]

theorem linkAt_map_pr {cs : List (Bool × T × List Nat)} {i : Nat} {c : Bool × T × List Nat} (h : cs[i]? = some c) :
    linkAt (cs.map pr) i = pr c := by
  simp [linkAt, h]

theorem deleteCommit_spec (t : PTree) (p : DelPlan) (key val : Nat) (s0 s1 : PS) (x : Bool × T × List Nat)
    (height target : Nat) (hg1 : Good s1) (hst01 : Step t.id s0 s1) (hown0 : FpOwned s0.heap t.id x.2.2)
    (hplan : DelPlanRef key val s0.heap.length x height target p s1.heap s1.store) :
    Spec (Step t.id) (deleteCommit t p) s1
      (fun root s2 => DelCommitOK key s0.heap.length x (height - target) root s2) := by
  obtain ⟨frs, gb, csb, nd, n2, cl, cr, hctx, hlast, hnd, hv, hkids, hidx, hkey, hval, hn02, hn2, hlt, hfp0, hget, hdel,
    hcl2, hcr2, gm, xm, hxm, hxmrow, hfm⟩ := hplan
  have hilt : p.found.idx < nd.keys.length := (List.getElem?_eq_some_iff.mp hkey).1
  have hcl : (csb.map pr).length = nd.keys.length + 1 := by
    rw [List.length_map, seqO_map_length hkids]; exact hv.1
  have hcsb := split_two hcl2 hcr2
  have hfpsb : fps csb = fps (csb.take p.found.idx) ++ (cl.2.2 ++ cr.2.2) ++ fps (csb.drop (p.found.idx + 2)) := by
    conv => lhs; rw [hcsb]
    simp [List.append_assoc]
  have hnb : (fps csb).Nodup := by
    have h1 := hfp0.1
    rw [plug_fp] at h1
    have h2 : (bottomRep nd p.found.node csb).2.2.Nodup := (List.nodup_append.mp (List.nodup_append.mp h1).1).2.1
    unfold bottomRep at h2
    rw [nodeRep_fp] at h2
    exact (List.nodup_append.mp h2).2.1
  have hltk : ∀ y ∈ fps csb, y < n2 := by
    intro y hy
    apply hlt y
    rw [plug_fp]
    simp only [List.mem_append]
    left; right
    show y ∈ (nodeRep false _ _ _ csb).2.2
    rw [nodeRep_fp]
    exact List.mem_append.mpr (Or.inr hy)
  unfold deleteCommit
  refine Spec.bind (toMut_spec (m := t.id) p.found.node s1).toStep ?_
  rintro a' s1a _ hst1a ⟨nd0, hnd0, hcase⟩
  rw [hnd] at hnd0; injection hnd0 with hnd0; subst hnd0
  refine Spec.bind (read_spec a' s1a) ?_
  rintro nd' s _ _ ⟨rfl, hnd'⟩
  have hnd'eq : nd'.keys = nd.keys ∧ nd'.vals = nd.vals ∧ nd'.links = nd.links ∧ nd'.shared = false := by
    rcases hcase with ⟨hs, rfl, rfl⟩ | ⟨hs, rfl, rfl⟩
    · rw [hnd] at hnd'; injection hnd' with h; subst h; exact ⟨rfl, rfl, rfl, hs⟩
    · have h2 : (s1.heap ++ [mutCopy t.id nd])[s1.heap.length]? = some (mutCopy t.id nd) := getElem?_append_self _ _
      rw [h2] at hnd'; injection hnd' with h; subst h; exact ⟨rfl, rfl, rfl, rfl⟩
  obtain ⟨ek, ev, el, es⟩ := hnd'eq
  have hcase' : (nd.shared = false ∧ a' = p.found.node ∧ s1a.heap = s1.heap) ∨
      (nd.shared = true ∧ a' = s1.heap.length ∧ s1a.heap = s1.heap ++ [mutCopy t.id nd]) := by
    rcases hcase with ⟨hs, h1, h2⟩ | ⟨hs, h1, h2⟩
    · exact Or.inl ⟨hs, h1, by rw [h2]⟩
    · exact Or.inr ⟨hs, h1, by rw [h2]⟩
  dsimp only
  refine Spec.bind (write_spec (m := t.id) a' _ s1a) ?_
  rintro _ s1b _ hst1b ⟨old, hold, ho1, ho2, hn1, hn2', _, rfl⟩
  -- the new contents of the bottom node
  obtain ⟨ndN, hndN⟩ : ∃ ndN : MNode, ndN =
      { nd' with
        source := none, keys := nd'.keys.eraseIdx p.found.idx, vals := nd'.vals.eraseIdx p.found.idx,
        links := (nd'.links.eraseIdx p.found.idx).set p.found.idx p.merged } :=
    ⟨_, rfl⟩
  rw [← hndN] at hst1b ⊢
  have hNk : ndN.keys = nd.keys.eraseIdx p.found.idx := by rw [hndN, ← ek]
  have hNv : ndN.vals = nd.vals.eraseIdx p.found.idx := by rw [hndN, ← ev]
  have hNl : ndN.links = nd.links.take p.found.idx ++ p.merged :: nd.links.drop (p.found.idx + 2) := by
    rw [hndN]
    show (nd'.links.eraseIdx p.found.idx).set p.found.idx p.merged = _
    rw [el, eraseIdx_set _ _ _ (by rw [hv.1]; omega)]
  have hN1 : ndN.shared = false := by rw [hndN]; exact es
  let cs' := csb.take p.found.idx ++ xm :: csb.drop (p.found.idx + 2)
  have hK1 : seqO (ndN.links.map (repLink s1.heap s1.store (max gb gm))) = some cs' := by
    rw [hNl]
    refine seqO_map_append.mpr ⟨_, _, ?_, ?_, rfl⟩
    · exact seqO_map_congr (seqO_map_take hkids _) (fun l _ c hc => repLink_mono_le hc (Nat.le_max_left _ _))
    · refine seqO_map_cons.mpr ⟨xm, _, repLink_mono_le hxm (Nat.le_max_right _ _), ?_, rfl⟩
      exact seqO_map_congr (seqO_map_drop hkids _) (fun l _ c hc => repLink_mono_le hc (Nat.le_max_left _ _))
  have hK2 : ValidN ndN := by
    unfold ValidN
    rw [hNk, hNv, hNl, length_eraseIdx_lt _ hilt, length_eraseIdx_lt _ (by rw [hv.2]; exact hilt)]
    simp only [List.length_append, List.length_take, List.length_cons, List.length_drop]
    have := hv.1; have := hv.2
    omega
  have hK4 : FpExt n2 (fps csb) (fps cs') := by
    have h2 : fps cs' = fps (csb.take p.found.idx) ++ xm.2.2 ++ fps (csb.drop (p.found.idx + 2)) := by
      simp [cs', List.append_assoc]
    rw [hfpsb, h2]
    rw [hfpsb] at hnb hltk
    exact FpExt.ctx _ _ hnb
      (fun y hy => hltk y (List.mem_append.mpr (Or.inl (List.mem_append.mpr (Or.inl hy)))))
      (fun y hy => hltk y (List.mem_append.mpr (Or.inr hy))) hfm
  obtain ⟨hctxb, hlastb, hrepb, hfpb⟩ := afterWrite (m := t.id) (h1a := s1a.heap) (a' := a') hctx hlast hnd hcase' hN1
    hK1 hK2 hK4 hn2 hlt hfp0.1
  have hstore : s1a.store = s1.store := hst1a.store
  have hst0 : Step t.id s0 { s1a with heap := s1a.heap.set a' ndN } := hst01.trans (hst1a.trans hst1b)
  have hgb : Good { s1a with heap := s1a.heap.set a' ndN } := hst1b.good (hst1a.good hg1)
  have hfpall : FpExt s0.heap.length x.2.2 (plug frs (nodeRep false [a'] ndN.keys ndN.vals cs')).2.2 :=
    hfp0.trans hfpb hn02
  have hctxb' : Ctx ({ s1a with heap := s1a.heap.set a' ndN } : PS).heap
      ({ s1a with heap := s1a.heap.set a' ndN } : PS).store (setLastNode p.found.path a') frs := by
    show Ctx (s1a.heap.set a' ndN) s1a.store _ _
    rw [hstore]; exact hctxb
  have hrepb' : repLink ({ s1a with heap := s1a.heap.set a' ndN } : PS).heap
      ({ s1a with heap := s1a.heap.set a' ndN } : PS).store (max gb gm + 1) (.ptr a') =
      some (nodeRep false [a'] ndN.keys ndN.vals cs') := by
    show repLink (s1a.heap.set a' ndN) s1a.store _ _ = _
    rw [hstore]; exact hrepb
  have howned : FpOwned ({ s1a with heap := s1a.heap.set a' ndN } : PS).heap t.id
      (plug frs (nodeRep false [a'] ndN.keys ndN.vals cs')).2.2 :=
    fpOwned_of_step hst0 hown0 hfpall (plug_fp_unshared hctxb' hrepb')
  refine (savePath_spec' (m := t.id) (setLastNode p.found.path a') frs _ _ (max gb gm + 1) a' p.found.idx hgb hctxb'
    hlastb hrepb' hfpall.1 howned).conseq ?_
  rintro root s' _ hst' ⟨a0, g', y, rfl, hy, hyrow, hyfp, hdirty⟩
  refine ⟨a0, g', y, rfl, hy, ?_, hfpall.trans hyfp hst0.len, hdirty⟩
  rw [hdel, hyrow, nodeRep_row]
  show (T.del key 0 (mkRow (csb.map pr) nd.keys nd.vals)).map (plugDel frs) = _
  rw [del_mkRow_zero nd.keys (csb.map pr) nd.vals key hcl hv.2, ← hidx, if_pos hkey, linkAt_map_pr hcl2,
    linkAt_map_pr hcr2, hNk, hNv]
  have hpx : pr xm = mergeLink (pr cl) (pr cr) := hxmrow
  simp only [cs', Option.map_some, List.map_append, List.map_cons, List.map_take, List.map_drop, hpx]

end Mast.Ptr
