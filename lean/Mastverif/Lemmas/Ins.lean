import Mastverif.Lemmas.Spec
import Mastverif.Lemmas.WF
/-!
# `ins` refines `insL` and preserves the shape

`t` is a node row at level `tgt + s`; the key's target level is `tgt`, i.e. `tgt ≤ layer k`, and
when the descent has levels to go (`s > 0`) the key's layer is exactly the target level
(`layer k ≤ tgt`).  These are the conditions under which `Tree.insert` calls `ins`.
-/
namespace Mast
namespace T
variable (layer : Nat → Nat)

/-- entries below a child link of a well-formed node do not contain a key of layer ≥ d -/
theorem child_not_mem {d : Nat} {c : T} (hc : ChildOK layer d c) {k : Nat} (hk : d ≤ layer k) :
    ∀ e ∈ toList c, e.1 ≠ k := by
  intro e he hek
  have := child_low layer hc e he
  rw [hek] at this
  exact this hk

theorem sorted_cons_parts {c r : T} {k v : Nat} (hs : Sorted (toList c ++ (k, v) :: toList r)) :
    Sorted (toList c) ∧ Sorted (toList r) ∧ (∀ e ∈ toList c, e.1 < k) ∧ (∀ e ∈ toList r, k < e.1) := by
  obtain ⟨h1, h2, h3⟩ := sorted_append hs
  simp only [Sorted, List.pairwise_cons] at h2
  exact ⟨h1, h2.2, fun e he => h3 e he (k, v) (by simp), h2.1⟩

/-- the WF level of a child link, when present -/
theorem childOK_level {d : Nat} {c : T} (hc : ChildOK layer (d + 1) c) (hne : c ≠ nil) :
    isEmptyRow c = false ∧ WF layer d c ∧ ∀ e ∈ toList c, layer e.1 < d + 1 := by
  rcases hc with h | ⟨d', hd, h1, h2, h3⟩
  · exact absurd h hne
  · have : d' = d := by omega
    subst this; exact ⟨h1, h2, h3⟩

theorem ins_isSome (k v : Nat) : ∀ (t : T) (s tgt : Nat),
    WF layer (tgt + s) t → tgt ≤ layer k → (layer k ≤ tgt ∨ s = 0) → (ins k v s t).isSome = true := by
  intro t
  induction t with
  | nil => intro s tgt h; simp [WF] at h
  | last p c ih =>
    intro s tgt h hk hs
    cases s with
    | zero => simp [ins]
    | succ s =>
      simp only [ins, Option.isSome_map]
      by_cases hc : c = nil
      · subst hc; simp [ins]
      · rw [WF_last_iff] at h
        have hkl : layer k ≤ tgt := by rcases hs with hs | hs; exact hs; omega
        obtain ⟨_, hw, _⟩ := childOK_level layer (d := tgt + s) h hc
        exact ih s tgt hw hk (Or.inl hkl)
  | cons p c k' v' r ihc ihr =>
    intro s tgt h hk hs
    rw [WF_cons_iff] at h
    obtain ⟨hk', hr, hc⟩ := h
    cases s with
    | zero =>
      simp only [ins]
      split
      · simp only [Option.isSome_map]; exact ihr 0 tgt hr hk hs
      · split <;> simp
    | succ s =>
      have hkl : layer k ≤ tgt := by rcases hs with hs | hs; exact hs; omega
      simp only [ins]
      split
      · simp only [Option.isSome_map]; exact ihr (s+1) tgt hr hk hs
      · split
        · next _ heq => subst heq; omega
        · simp only [Option.isSome_map]
          by_cases hcn : c = nil
          · subst hcn; simp [ins]
          · obtain ⟨_, hw, _⟩ := childOK_level layer (d := tgt + s) hc hcn
            exact ihc s tgt hw hk (Or.inl hkl)

/-- **`ins` refines `insL`.** -/
theorem toList_ins (k v : Nat) : ∀ (t : T) (s tgt : Nat) (t' : T),
    WF layer (tgt + s) t → Sorted (toList t) → tgt ≤ layer k → (layer k ≤ tgt ∨ s = 0) →
    ins k v s t = some t' → toList t' = insL k v (toList t) := by
  intro t
  induction t with
  | nil => intro s tgt t' h; simp [WF] at h
  | last p c ih =>
    intro s tgt t' h hsrt hk hs hi
    rw [WF_last_iff] at h
    simp only [toList] at hsrt
    cases s with
    | zero =>
      simp only [ins, Option.some.injEq] at hi
      subst hi
      have hnot := child_not_mem layer h (k := k) (by simpa using hk)
      have hsp := toList_split c k hsrt hnot
      simp [toList, hsp.1, hsp.2, insL_split _ hsrt hnot]
    | succ s =>
      have hkl : layer k ≤ tgt := by rcases hs with hs | hs; exact hs; omega
      simp only [ins, Option.map_eq_some_iff] at hi
      obtain ⟨c', hc', rfl⟩ := hi
      simp only [toList]
      by_cases hcn : c = nil
      · subst hcn
        simp only [ins, Option.some.injEq] at hc'
        subst hc'; simp [toList, insL]
      · obtain ⟨_, hw, _⟩ := childOK_level layer (d := tgt + s) h hcn
        exact ih s tgt c' hw hsrt hk (Or.inl hkl) hc'
  | cons p c k' v' r ihc ihr =>
    intro s tgt t' h hsrt hk hs hi
    rw [WF_cons_iff] at h
    obtain ⟨hk', hr, hc⟩ := h
    simp only [toList] at hsrt
    obtain ⟨hsc, hsr, hclt, hrgt⟩ := sorted_cons_parts hsrt
    by_cases hlt : k' < k
    · -- continue to the right in the same node
      have hpre : ∀ e ∈ toList c ++ [(k', v')], e.1 < k := by
        intro e he; simp at he; rcases he with he | rfl
        · exact Nat.lt_trans (hclt e he) hlt
        · exact hlt
      have key : ∀ r', ins k v s r = some r' →
          toList (cons p c k' v' r') = insL k v (toList c ++ (k', v') :: toList r) := by
        intro r' hr'
        have := ihr s tgt r' hr hsr hk hs hr'
        have e : toList c ++ (k', v') :: toList r = (toList c ++ [(k', v')]) ++ toList r := by simp
        simp only [toList, this]
        rw [e, insL_append_lt _ _ hpre]; simp
      cases s with
      | zero =>
        simp only [ins, hlt, if_true, Option.map_eq_some_iff] at hi
        obtain ⟨r', hr', rfl⟩ := hi; exact key r' hr'
      | succ s =>
        simp only [ins, hlt, if_true, Option.map_eq_some_iff] at hi
        obtain ⟨r', hr', rfl⟩ := hi; exact key r' hr'
    · by_cases heq : k' = k
      · subst heq
        cases s with
        | zero =>
          simp only [ins, hlt, if_false, if_true, Option.some.injEq] at hi
          subst hi
          simp only [toList]
          rw [insL_append_lt _ _ hclt]; simp [insL]
        | succ s => simp [ins] at hi
      · have hgt : k < k' := by omega
        have hr_gt : ∀ e ∈ (k', v') :: toList r, k < e.1 := by
          intro e he; simp at he; rcases he with rfl | he
          · exact hgt
          · exact Nat.lt_trans hgt (hrgt e he)
        cases s with
        | zero =>
          simp only [ins, hlt, heq, if_false, Option.some.injEq] at hi
          subst hi
          have hnot := child_not_mem layer hc (k := k) (by simpa using hk)
          have hsp := toList_split c k hsc hnot
          simp only [toList]
          rw [insL_append_gt _ _ hr_gt, insL_split _ hsc hnot]
          simp [hsp.1, hsp.2]
        | succ s =>
          have hkl : layer k ≤ tgt := by rcases hs with hs | hs; exact hs; omega
          simp only [ins, hlt, heq, if_false, Option.map_eq_some_iff] at hi
          obtain ⟨c', hc', rfl⟩ := hi
          simp only [toList]
          rw [insL_append_gt _ _ hr_gt]
          by_cases hcn : c = nil
          · subst hcn
            simp only [ins, Option.some.injEq] at hc'
            subst hc'; simp [toList, insL]
          · obtain ⟨_, hw, _⟩ := childOK_level layer (d := tgt + s) hc hcn
            rw [ihc s tgt c' hw hsc hk (Or.inl hkl) hc']

theorem isEmptyRow_of_toList_ne {t : T} (h : toList t ≠ []) : isEmptyRow t = false := by
  cases t with
  | nil => rfl
  | last p c => cases c <;> simp_all [isEmptyRow, toList]
  | cons p c k v r => rfl

/-- the result of `ins` is never an empty node -/
theorem ins_not_empty (k v : Nat) (t : T) (s tgt : Nat) (t' : T)
    (h : WF layer (tgt + s) t) (hsrt : Sorted (toList t)) (hk : tgt ≤ layer k)
    (hs : layer k ≤ tgt ∨ s = 0) (hi : ins k v s t = some t') : isEmptyRow t' = false := by
  apply isEmptyRow_of_toList_ne
  rw [toList_ins layer k v t s tgt t' h hsrt hk hs hi]
  exact insL_ne_nil k v _

theorem ins_layers (k v : Nat) (t : T) (s tgt : Nat) (t' : T) (bound : Nat)
    (h : WF layer (tgt + s) t) (hsrt : Sorted (toList t)) (hk : tgt ≤ layer k)
    (hs : layer k ≤ tgt ∨ s = 0) (hi : ins k v s t = some t')
    (hb : ∀ e ∈ toList t, layer e.1 < bound) (hkb : layer k < bound) :
    ∀ e ∈ toList t', layer e.1 < bound := by
  intro e he
  rw [toList_ins layer k v t s tgt t' h hsrt hk hs hi] at he
  rcases mem_insL he with rfl | he
  · exact hkb
  · exact hb e he

/-- **`ins` preserves the shape.** -/
theorem ins_WF (k v : Nat) : ∀ (t : T) (s tgt : Nat) (t' : T),
    WF layer (tgt + s) t → Sorted (toList t) → tgt ≤ layer k → (layer k ≤ tgt ∨ s = 0) →
    ins k v s t = some t' → WF layer (tgt + s) t' := by
  intro t
  induction t with
  | nil => intro s tgt t' h; simp [WF] at h
  | last p c ih =>
    intro s tgt t' h hsrt hk hs hi
    have hfull := h
    rw [WF_last_iff] at h
    simp only [toList] at hsrt
    cases s with
    | zero =>
      simp only [ins, Option.some.injEq] at hi
      subst hi
      rw [WF_cons_iff, WF_last_iff]
      rcases h with rfl | ⟨d', hd, hne, hw, hl⟩
      · simp only [split, mk]; exact ⟨hk, Or.inl rfl, Or.inl rfl⟩
      · simp only [Nat.add_zero] at hd ⊢
        subst hd
        obtain ⟨h1, h2⟩ := split_WF layer c d' k hw
        have m := mem_split c k
        exact ⟨hk, childOK_mk layer h2 (fun e he => hl e ((m e).2 he)),
          childOK_mk layer h1 (fun e he => hl e ((m e).1 he))⟩
    | succ s =>
      have hkl : layer k ≤ tgt := by rcases hs with hs | hs; exact hs; omega
      simp only [ins, Option.map_eq_some_iff] at hi
      obtain ⟨c', hc', rfl⟩ := hi
      rw [WF_last_iff]; right
      by_cases hcn : c = nil
      · subst hcn
        simp only [ins, Option.some.injEq] at hc'
        subst hc'
        refine ⟨tgt + s, by omega, isEmptyRow_freshPath s k v, freshPath_WF layer k v s tgt hk (Or.inl hkl), ?_⟩
        intro e he; simp at he; subst he; simp; omega
      · obtain ⟨_, hw, hl⟩ := childOK_level layer (d := tgt + s) h hcn
        refine ⟨tgt + s, by omega, ins_not_empty layer k v c s tgt c' hw hsrt hk (Or.inl hkl) hc',
          ih s tgt c' hw hsrt hk (Or.inl hkl) hc', ?_⟩
        exact ins_layers layer k v c s tgt c' (tgt + (s + 1)) hw hsrt hk (Or.inl hkl) hc'
          (fun e he => by have := hl e he; omega) (by omega)
  | cons p c k' v' r ihc ihr =>
    intro s tgt t' h hsrt hk hs hi
    rw [WF_cons_iff] at h
    obtain ⟨hk', hr, hc⟩ := h
    simp only [toList] at hsrt
    obtain ⟨hsc, hsr, hclt, hrgt⟩ := sorted_cons_parts hsrt
    by_cases hlt : k' < k
    · have key : ∀ r', ins k v s r = some r' → WF layer (tgt + s) (cons p c k' v' r') := by
        intro r' hr'
        rw [WF_cons_iff]
        exact ⟨hk', ihr s tgt r' hr hsr hk hs hr', hc⟩
      cases s with
      | zero =>
        simp only [ins, hlt, if_true, Option.map_eq_some_iff] at hi
        obtain ⟨r', hr', rfl⟩ := hi; exact key r' hr'
      | succ s =>
        simp only [ins, hlt, if_true, Option.map_eq_some_iff] at hi
        obtain ⟨r', hr', rfl⟩ := hi; exact key r' hr'
    · by_cases heq : k' = k
      · subst heq
        cases s with
        | zero =>
          simp only [ins, hlt, if_false, if_true, Option.some.injEq] at hi
          subst hi
          rw [WF_cons_iff]; exact ⟨hk', hr, hc⟩
        | succ s => simp [ins] at hi
      · cases s with
        | zero =>
          simp only [ins, hlt, heq, if_false, Option.some.injEq] at hi
          subst hi
          rw [WF_cons_iff, WF_cons_iff]
          rcases hc with rfl | ⟨d', hd, hne, hw, hl⟩
          · simp only [split, mk]
            exact ⟨hk, ⟨hk', hr, Or.inl rfl⟩, Or.inl rfl⟩
          · simp only [Nat.add_zero] at hd ⊢
            subst hd
            obtain ⟨h1, h2⟩ := split_WF layer c d' k hw
            have m := mem_split c k
            exact ⟨hk, ⟨hk', hr, childOK_mk layer h2 (fun e he => hl e ((m e).2 he))⟩,
              childOK_mk layer h1 (fun e he => hl e ((m e).1 he))⟩
        | succ s =>
          have hkl : layer k ≤ tgt := by rcases hs with hs | hs; exact hs; omega
          simp only [ins, hlt, heq, if_false, Option.map_eq_some_iff] at hi
          obtain ⟨c', hc', rfl⟩ := hi
          rw [WF_cons_iff]
          refine ⟨hk', hr, Or.inr ?_⟩
          by_cases hcn : c = nil
          · subst hcn
            simp only [ins, Option.some.injEq] at hc'
            subst hc'
            refine ⟨tgt + s, by omega, isEmptyRow_freshPath s k v, freshPath_WF layer k v s tgt hk (Or.inl hkl), ?_⟩
            intro e he; simp at he; subst he; simp; omega
          · obtain ⟨_, hw, hl⟩ := childOK_level layer (d := tgt + s) hc hcn
            refine ⟨tgt + s, by omega, ins_not_empty layer k v c s tgt c' hw hsc hk (Or.inl hkl) hc',
              ihc s tgt c' hw hsc hk (Or.inl hkl) hc', ?_⟩
            exact ins_layers layer k v c s tgt c' (tgt + (s + 1)) hw hsc hk (Or.inl hkl) hc'
              (fun e he => by have := hl e he; omega) (by omega)

end T
end Mast
