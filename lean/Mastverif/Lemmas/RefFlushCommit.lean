import Mastverif.Lemmas.RefFlushStore
/-!
The commit closures of `flush` (`commitAll`): every justified commit turns its object into the shared decoding of
the stored node of its name; `Good` (cache invariant included) and `SourceOK` are re-established.
-/
namespace Mast.Ptr
open Mast.Heap

/-- what the commits do to the state: objects of `m` may be published (entries and owner kept), nothing else -/
structure CommitR (m : Nat) (s s' : PS) : Prop where
  store : s'.store = s.store
  useCache : s'.useCache = s.useCache
  len : s'.heap.length = s.heap.length
  keep : ∀ (a : Nat) (nd : MNode), s.heap[a]? = some nd → ∃ nd', s'.heap[a]? = some nd' ∧ nd'.owner = nd.owner ∧
    nd'.keys = nd.keys ∧ nd'.vals = nd.vals ∧ (nd.shared = true → nd' = nd) ∧ (nd.owner ≠ m → nd' = nd)

instance (m : Nat) : PreR (CommitR m) where
  refl := fun s => ⟨rfl, rfl, rfl, fun a nd h => ⟨nd, h, rfl, rfl, rfl, fun _ => rfl, fun _ => rfl⟩⟩
  trans := fun {a b c} x y => ⟨by rw [y.store, x.store], by rw [y.useCache, x.useCache], by rw [y.len, x.len], by
    intro p nd hnd
    obtain ⟨nd2, h2, e1, e2, e3, e4, e5⟩ := x.keep p nd hnd
    obtain ⟨nd3, h3, f1, f2, f3, f4, f5⟩ := y.keep p nd2 h2
    refine ⟨nd3, h3, f1.trans e1, f2.trans e2, f3.trans e3, ?_, ?_⟩
    · intro hs; have := e4 hs; subst this; exact f4 hs
    · intro ho; have := e5 ho; subst this; exact f5 ho⟩

/-- the published object -/
def pubNode (nd : MNode) (links : List HLink) (n : Nat) : MNode :=
  { nd with source := some n, links := links, dirty := false, shared := true }

/-- `write source := n` followed by `publish`: the guards held and the object is replaced by `pubNode` -/
theorem write_publish_spec {m a n : Nat} {nd : MNode} {links : List HLink} {s : PS} (hnd : s.heap[a]? = some nd) :
    Spec (fun s s' => nd.owner = m ∧ nd.shared = false ∧ s' = { s with heap := s.heap.set a (pubNode nd links n) })
      (do write m a { nd with source := some n }; publish m a links) s (fun _ _ => True) := by
  have hlt : a < s.heap.length := (List.getElem?_eq_some_iff.mp hnd).1
  show Spec _ (M.bind (write m a { nd with source := some n }) (fun _ => publish m a links)) s _
  unfold Spec M.bind write
  simp only [applyAct, hnd]
  by_cases hc : nd.owner = m ∧ nd.shared = false ∧ ({ nd with source := some n } : MNode).owner = m ∧
      ({ nd with source := some n } : MNode).shared = false ∧
      ({ nd with source := some n } : MNode).links.all (linkOK s.heap m) = true ∧ m ≠ 0
  · rw [if_pos hc]
    simp only []
    unfold publish
    simp only [applyAct, List.getElem?_set_self hlt]
    by_cases hc2 : nd.owner = m ∧ nd.shared = false ∧ (links.all fun l => !isPtr l) = true ∧ m ≠ 0
    · rw [if_pos hc2]
      simp only []
      refine ⟨⟨hc.1, hc.2.1, ?_⟩, trivial⟩
      simp only [List.set_set, pubNode]
    · rw [if_neg hc2]; trivial
  · rw [if_neg hc]; trivial

theorem cacheAdd_eq (n a : Nat) (s : PS) :
    cacheAdd n a s = .ok () (if s.useCache then { s with cache := (n, a) :: s.cache } else s) := rfl

/-- the state after the cache took the committed object -/
theorem good_cacheAdd {s : PS} {n a : Nat} {nd : MNode} {sn : SNode} (hg : Good s) (hnd : s.heap[a]? = some nd)
    (hs : nd.shared = true) (hsn : storeAt s.store n = some sn) (hk : nd.keys = sn.keys) (hv : nd.vals = sn.vals)
    (hl : nd.links = expandLinks sn) :
    Good (if s.useCache then { s with cache := (n, a) :: s.cache } else s) := by
  split
  · refine ⟨?_, hg.sflat, hg.flat, hg.du⟩
    intro k b hkb
    rcases List.mem_cons.mp hkb with h | h
    · injection h with h1 h2; subst h1; subst h2
      exact ⟨nd, sn, hnd, hs, hsn, hk, hv, hl⟩
    · exact hg.cache k b h
  · exact hg

theorem good_publish {s : PS} {a n : Nat} {nd : MNode} {sn : SNode} {links : List HLink} (hg : Good s) (hsrc : SourceOK s)
    (hnd : s.heap[a]? = some nd) (hs : nd.shared = false) (hsn : storeAt s.store n = some sn)
    (hk : nd.keys = sn.keys) (hv : nd.vals = sn.vals) (hl : links = expandLinks sn) :
    Good { s with heap := s.heap.set a (pubNode nd links n) } ∧
    SourceOK { s with heap := s.heap.set a (pubNode nd links n) } := by
  have hflat : ∀ l ∈ links, isPtr l = false := by
    rw [hl]; exact expandLinks_flat (hg.flat sn (storeAt_mem hsn))
  refine ⟨⟨?_, ?_, hg.flat, ?_⟩, ⟨?_, ?_⟩⟩
  · intro k b hkb
    obtain ⟨x, sx, h1, h2, h3⟩ := hg.cache k b hkb
    have hba : b ≠ a := by
      intro h; subst h; rw [hnd] at h1; injection h1 with h1; subst h1; rw [hs] at h2; cases h2
    exact ⟨x, sx, by show (s.heap.set a _)[b]? = some x; rw [List.getElem?_set_ne (Ne.symm hba)]; exact h1, h2, h3⟩
  · intro b x hx hsx l hlx
    rcases getElem?_set_cases hx with ⟨_, rfl⟩ | ⟨_, hx⟩
    · exact hflat l hlx
    · exact hg.sflat b x hx hsx l hlx
  · exact du_set hg.du (fun h => by simp [pubNode] at h)
  · intro b x hx hsx
    rcases getElem?_set_cases hx with ⟨_, rfl⟩ | ⟨_, hx⟩
    · simp [pubNode] at hsx
    · exact hsrc.unsh b x hx hsx
  · intro b x k hx hsx hso
    rcases getElem?_set_cases hx with ⟨_, rfl⟩ | ⟨_, hx⟩
    · simp only [pubNode, Option.some.injEq] at hso
      subst hso
      exact ⟨sn, hsn, hk, hv, hl⟩
    · exact hsrc.sh b x k hx hsx hso

theorem sharedA_set_pub {h : Heap} {a b n : Nat} {nd : MNode} {links : List HLink} (hnd : h[a]? = some nd)
    (hb : SharedA h b) : SharedA (h.set a (pubNode nd links n)) b :=
  shared_set hnd (fun _ => rfl) hb

theorem commitAll_spec (m : Nat) : ∀ (cms : List (Nat × List HLink × Nat)) (s : PS), Good s → SourceOK s →
    (∀ c ∈ cms, CmOK s.heap s.store c) → CmsDistinct s.heap cms →
    Spec (CommitR m) (commitAll m cms) s (fun _ s' => Good s' ∧ SourceOK s') := by
  intro cms
  induction cms with
  | nil => intro s hg hsrc _ _; unfold commitAll; exact Spec.pure ⟨hg, hsrc⟩
  | cons c rest ih =>
    intro s hg hsrc hcm hdist
    obtain ⟨a, links, n⟩ := c
    obtain ⟨nd0, sn, hnd0, hsn, hk, hv, hl, hshl⟩ := hcm (a, links, n) (by simp)
    dsimp only at hnd0 hsn hl hshl
    unfold CmsDistinct at hdist
    rw [List.pairwise_cons] at hdist
    obtain ⟨hhead, htail⟩ := hdist
    unfold commitAll
    refine Spec.bind (read_spec a s) ?_
    rintro nd s0 _ _ ⟨rfl, hnd⟩
    rw [hnd0] at hnd; injection hnd with hnd; subst hnd
    -- the state after the write / publish
    refine Spec.bind (Q1 := fun _ s1 => Good s1 ∧ SourceOK s1 ∧ (∀ c ∈ rest, CmOK s1.heap s1.store c) ∧
      CmsDistinct s1.heap rest ∧ ∃ nd1, s1.heap[a]? = some nd1 ∧ nd1.shared = true ∧ storeAt s1.store n = some sn ∧
        nd1.keys = sn.keys ∧ nd1.vals = sn.vals ∧ nd1.links = expandLinks sn) ?_ ?_
    · by_cases hsh : nd0.shared = true
      · rw [if_pos hsh]
        exact Spec.pure ⟨hg, hsrc, fun c hc => hcm c (List.mem_cons_of_mem _ hc), htail,
          nd0, hnd0, hsh, hsn, hk, hv, by rw [hshl hsh, hl]⟩
      · rw [if_neg hsh]
        have hsh' : nd0.shared = false := by simpa using hsh
        refine ((write_publish_spec (m := m) (n := n) (links := links) hnd0).conseq
          (Q' := fun _ s1 => nd0.owner = m ∧ s1 = { s with heap := s.heap.set a (pubNode nd0 links n) })
          (fun _ _ _ hr _ => ⟨hr.1, hr.2.2⟩)).mono ?_ |>.conseq ?_
        · rintro s1 ⟨ho, _, rfl⟩
          have hlt : a < s.heap.length := (List.getElem?_eq_some_iff.mp hnd0).1
          refine ⟨rfl, rfl, by simp, ?_⟩
          intro b x hx
          by_cases hba : b = a
          · subst hba
            rw [hnd0] at hx; injection hx with hx; subst hx
            refine ⟨_, List.getElem?_set_self hlt, rfl, rfl, rfl, ?_, ?_⟩
            · intro h; rw [hsh'] at h; cases h
            · intro h; exact absurd ho h
          · exact ⟨x, by show (s.heap.set a _)[b]? = some x; rw [List.getElem?_set_ne (Ne.symm hba)]; exact hx,
              rfl, rfl, rfl, fun _ => rfl, fun _ => rfl⟩
        · rintro _ s1 _ _ ⟨_, rfl⟩
          have hlt : a < s.heap.length := (List.getElem?_eq_some_iff.mp hnd0).1
          obtain ⟨hg1, hs1⟩ := good_publish (links := links) hg hsrc hnd0 hsh' hsn hk hv hl
          refine ⟨hg1, hs1, ?_, ?_, pubNode nd0 links n, List.getElem?_set_self hlt, rfl, hsn, hk, hv, hl⟩
          · intro c hc
            obtain ⟨x, sx, h1, h2⟩ := hcm c (List.mem_cons_of_mem _ hc)
            have hca : c.1 ≠ a := by
              intro h
              obtain ⟨y, hy, hys⟩ := hhead c hc h.symm
              rw [hnd0] at hy; injection hy with hy; subst hy
              rw [hsh'] at hys; cases hys
            exact ⟨x, sx, by show (s.heap.set a _)[c.1]? = some x; rw [List.getElem?_set_ne (Ne.symm hca)]; exact h1, h2⟩
          · exact htail.imp (fun h1 h2 => sharedA_set_pub hnd0 (h1 h2))
    · rintro _ s1 _ _ ⟨hg1, hs1, hcm1, hd1, nd1, hnd1, hsh1, hsn1, hk1, hv1, hl1⟩
      refine Spec.bind (Q1 := fun _ s2 => Good s2 ∧ SourceOK s2 ∧ s2.heap = s1.heap ∧ s2.store = s1.store) ?_ ?_
      · unfold Spec
        rw [cacheAdd_eq]
        refine ⟨⟨by split <;> rfl, by split <;> rfl, by split <;> rfl, fun b x hx =>
          ⟨x, by split <;> exact hx, rfl, rfl, rfl, fun _ => rfl, fun _ => rfl⟩⟩,
          good_cacheAdd hg1 hnd1 hsh1 hsn1 hk1 hv1 hl1, ?_, by split <;> rfl, by split <;> rfl⟩
        split
        · exact sourceOK_of_eq (s := s1) rfl rfl hs1
        · exact hs1
      · rintro _ s2 _ _ ⟨hg2, hs2, hh2, hst2⟩
        exact ih s2 hg2 hs2 (by rw [hh2, hst2]; exact hcm1) (by rw [hh2]; exact hd1)

end Mast.Ptr
