import Mastverif.Model.Backends
/-! Lemmas about the step model of the file store. -/
namespace Mast.FS

theorem load_storeCut_fresh (d : Dir) (name : String) (bytes : Bytes) (cut : Nat)
    (hfresh : KV.load d name = none) :
    KV.load (storeCut d name bytes cut) name = none ∨
    KV.load (storeCut d name bytes cut) name = some bytes := by
  unfold storeCut
  simp only [hfresh, Option.isSome_none, Bool.false_eq_true, if_false]
  split
  · split
    · left
      have hne : (name ++ ".tmp-x" == name) = false := by
        simp only [beq_eq_false_iff_ne, ne_eq]
        intro h
        have := congrArg String.length h
        simp [String.length_append] at this
      simp only [KV.load, List.find?_cons, hne]
      simpa [KV.load] using hfresh
    · left; exact hfresh
  · right
    simp [KV.store, KV.load]

/-- every cut point: the name is absent or complete, never partial -/
theorem atomic_cut (d : Dir) (name : String) (bytes : Bytes) (cut : Nat)
    (hfresh : KV.load d name = none) :
    KV.load (storeCut d name bytes cut) name = none ∨
    KV.load (storeCut d name bytes cut) name = some bytes :=
  load_storeCut_fresh d name bytes cut hfresh

theorem success_complete (d : Dir) (name : String) (bytes : Bytes)
    (hfresh : KV.load d name = none) :
    KV.load (storeCut d name bytes (complete name bytes)) name = some bytes := by
  unfold storeCut complete
  simp only [hfresh, Option.isSome_none, Bool.false_eq_true, if_false]
  have : ¬ (bytes.length + 4 < 1 + 1 + bytes.length + 1 + 1) := by omega
  simp [this, KV.store, KV.load]

theorem storeCut_present (d : Dir) (name : String) (bytes b : Bytes) (cut : Nat)
    (h : KV.load d name = some b) : storeCut d name bytes cut = d := by
  unfold storeCut; simp [h]

/-- after any cut, an uncut second store leaves the complete bytes -/
theorem repair_after_cut (d : Dir) (name : String) (bytes : Bytes) (cut : Nat)
    (hfresh : KV.load d name = none) :
    KV.load (storeCut (storeCut d name bytes cut) name bytes (complete name bytes)) name = some bytes := by
  rcases atomic_cut d name bytes cut hfresh with h | h
  · exact success_complete _ name bytes h
  · rw [storeCut_present _ name bytes bytes _ h]; exact h


end Mast.FS
