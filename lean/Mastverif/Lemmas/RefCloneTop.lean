import Mastverif.Lemmas.RefClone
/-! `Clone` refines "the same functional tree, held by pointer". -/
namespace Mast.Ptr
open Mast.Heap

/-- what `clone` establishes about the new tree -/
def CloneOK (t : PTree) (newId g : Nat) (x : Bool × T × List Nat) (s : PS) (t' : PTree) (s' : PS) : Prop :=
  t' = { t with id := newId, root := t'.root } ∧
  ∃ x', repLink s'.heap s'.store g t'.root = some x' ∧ x'.1 = false ∧ x'.2.1 = x.2.1 ∧ x'.2.2.Nodup ∧
    (∀ b ∈ x'.2.2, s.heap.length ≤ b) ∧ FpOwned s'.heap newId x'.2.2 ∧
    rootDirty s'.heap t'.root = rootDirty s.heap t.root

theorem clone_spec (E : Env) (t : PTree) (newId fuel g : Nat) (s : PS) (x : Bool × T × List Nat) (hg : Good s)
    (hx : repLink s.heap s.store g t.root = some x) :
    Spec (Grow newId) (clone E t newId fuel) s (fun t' s' => CloneOK t newId g x s t' s') := by
  unfold clone
  by_cases hr : t.root = .nil
  · rw [if_pos hr]
    rw [hr] at hx
    simp at hx; subst hx
    refine Spec.pure ⟨rfl, (false, T.nil, []), ?_, rfl, rfl, by simp, by simp, fpOwned_nil _ _, rfl⟩
    show repLink s.heap s.store g t.root = _
    rw [hr]; simp
  · rw [if_neg hr]
    refine Spec.bind (load_spec (m := newId) E t.root s hg) ?_
    rintro a s1 hok hgr1 ⟨_, hptr, hld⟩
    have hxa := hld g x hx
    obtain ⟨_, nd, _, _, hnd, _⟩ := repLink_ptr_some.mp hxa
    -- the dirty flag of the loaded object is the tree's
    have hdirty : nd.dirty = rootDirty s.heap t.root := by
      cases hroot : t.root with
      | nil => exact absurd hroot hr
      | ptr b =>
        obtain ⟨rfl, rfl⟩ := hptr b hroot
        simp [rootDirty, hnd]
      | ref n =>
        simp only [rootDirty]
        -- a loaded name is a shared object, which is never dirty
        have hg1 := hgr1.good hg
        cases hd : nd.dirty with
        | false => rfl
        | true =>
          have hun := hg1.du a nd hnd hd
          rw [hroot] at hok
          obtain ⟨_, ⟨nd', hnd', hs'⟩, _⟩ := (loadRef_spec (m := newId) E n s hg).ok hok
          rw [hnd] at hnd'; injection hnd' with hnd'; subst hnd'
          rw [hun] at hs'; cases hs'
    refine Spec.bind (toShared_spec newId fuel a s1 g _ nd (hgr1.good hg) hxa hnd) ?_
    rintro a' s2 _ hgr2 ⟨x', hx', hrow, hnd', hlo, hown, hd⟩
    refine Spec.pure ⟨rfl, x', hx', repLink_flag_ptr hx', hrow, hnd', ?_, hown, ?_⟩
    · intro b hb; have := hlo b hb; have := hgr1.length; omega
    · show rootDirty s2.heap (.ptr a') = _
      rw [hd, hdirty]

/-- **Clone**: the clone denotes the same functional tree as the source, held by pointer (`rootP = false`; every other
    field of the `Tree` record — root row with its flags, `dirty`, `size`, `height`, thresholds — is equal); the source
    still denotes `A` (the step is allocation-only: `Grow.tree` gives the same for every tree of the system); the
    clone's footprint is fresh (`≥` the old heap length, hence disjoint from every old footprint) and owned by `newId`.
    No freshness hypothesis on `newId` is needed for this (it is needed for the system invariant only). -/
theorem clone_refines (E : Env) (t t' : PTree) (newId fuel g : Nat) (s s' : PS) (A : Tree)
    (hg : Good s) (hA : repTree s g t = some A) (h : clone E t newId fuel s = .ok t' s') :
    Grow newId s s' ∧ Good s' ∧ t' = { t with id := newId, root := t'.root } ∧
    repTree s' g t' = some { A with rootP := false } ∧ repTree s' g t = some A ∧
    FpOwned s'.heap newId (footprint s' g t') ∧ (∀ b ∈ footprint s' g t', s.heap.length ≤ b) ∧
    footprint s' g t = footprint s g t ∧ (∀ b ∈ footprint s' g t, b ∉ footprint s' g t') := by
  obtain ⟨x, hx, hxnd, hAeq⟩ := repTree_eq_some.mp hA
  obtain ⟨hgr, hrec, x', hx', hflag, hrow, hnd', hlo, hown, hd⟩ := (clone_spec E t newId fuel g s x hg hx).ok h
  have hfp' : footprint s' g t' = x'.2.2 := footprint_eq hx'
  have hfp : footprint s' g t = footprint s g t := hgr.fp_eq hx
  refine ⟨hgr, hgr.good hg, hrec, repTree_eq_some.mpr ⟨x', hx', hnd', ?_⟩, hgr.repTree hA, by rw [hfp']; exact hown,
    by rw [hfp']; exact hlo, hfp, ?_⟩
  · rw [hAeq, hd]
    have e1 : t'.size = t.size := by rw [hrec]
    have e2 : t'.height = t.height := by rw [hrec]
    have e3 : t'.bf = t.bf := by rw [hrec]
    have e4 : t'.growAfter = t.growAfter := by rw [hrec]
    have e5 : t'.shrinkBelow = t.shrinkBelow := by rw [hrec]
    simp only [treeRec, hflag, hrow, e1, e2, e3, e4, e5]
  · intro b hb hb'
    rw [hfp, footprint_eq hx] at hb
    have h1 := repLink_fp_lt hx hb
    have h2 := hlo b (by rw [← hfp']; exact hb')
    omega

theorem clone_err (E : Env) (t : PTree) (newId fuel g : Nat) (s s' : PS) (A : Tree)
    (hg : Good s) (hA : repTree s g t = some A) (h : clone E t newId fuel s = .err s') : Grow newId s s' := by
  obtain ⟨x, hx, _, _⟩ := repTree_eq_some.mp hA
  exact (clone_spec E t newId fuel g s x hg hx).err h

theorem clone_healthy {t t' : PTree} {newId : Nat} (hrec : t' = { t with id := newId, root := t'.root })
    (hh : Healthy t) : Healthy t' := by
  unfold Healthy at hh ⊢
  rw [hrec]; exact hh

end Mast.Ptr
