import Mastverif.Lemmas.RefSrc3
import Mastverif.Lemmas.RefSrc2
import Mastverif.Lemmas.RefErr
import Mastverif.Lemmas.RefDelSys
/-!
The system invariant `RSys` for the history-level refinement theorem, the relation `WStep` (what a step of tree `m`
— including a flush, which publishes — does to the objects of other trees), the functional contents `Den` of a system,
and the two generic preservation lemmas (`rsys_grow`: allocation-only step, possibly adding a tree; `rsys_update`: a
step of tree number `i` that replaces its record).
-/
namespace Mast.Ptr
open Mast.Heap

/-- every name of the store denotes a row (children are stored before parents) -/
def StoreDen (st : List SNode) : Prop :=
  ∀ n sn, storeAt st n = some sn → ∃ g x, repLink [] st g (.ref n) = some x

/-- a step performed for tree `m` that may also publish objects of `m` and extend the store -/
structure WStep (m : Nat) (s s' : PS) : Prop where
  len : s.heap.length ≤ s'.heap.length
  store : ∃ ext, s'.store = s.store ++ ext
  fresh : ∀ (a : Nat) (nd : MNode), s.heap.length ≤ a → s'.heap[a]? = some nd → nd.shared = true ∨ nd.owner = m
  keep : ∀ (a : Nat) (nd : MNode), s.heap[a]? = some nd → ∃ nd', s'.heap[a]? = some nd' ∧ nd'.owner = nd.owner ∧
    (nd'.shared = false → nd.shared = false) ∧ ((nd.shared = true ∨ nd.owner ≠ m) → nd' = nd)

theorem Step.toW {m : Nat} {s s' : PS} (h : Step m s s') : WStep m s s' :=
  ⟨h.len, ⟨[], by simp [h.store]⟩, h.fresh, fun a nd hnd => by
    obtain ⟨nd', h1, h2, h3, h4⟩ := h.keep a nd hnd
    exact ⟨nd', h1, h2, fun h5 => by rw [← h3]; exact h5, h4⟩⟩

/-- a tree of another owner denotes what it denoted, and still owns its footprint -/
theorem WStep.repTree_other {m : Nat} {s s' : PS} (hst : WStep m s s') {g : Nat} {t2 : PTree} {B : Tree}
    (hne : t2.id ≠ m) (hB : repTree s g t2 = some B) (hown : FpOwned s.heap t2.id (footprint s g t2)) :
    repTree s' g t2 = some B ∧ FpOwned s'.heap t2.id (footprint s' g t2) := by
  obtain ⟨x, hx, hxnd, rfl⟩ := repTree_eq_some.mp hB
  rw [footprint_eq hx] at hown
  obtain ⟨ext, hext⟩ := hst.store
  have hx' : repLink s'.heap s'.store g t2.root = some x := by
    rw [hext]
    refine repLink_frame (h := s.heap) (h' := s'.heap) (st := s.store) ext
      (fun a => ∃ nd, s.heap[a]? = some nd ∧ nd.shared = false ∧ nd.owner = m) ?_ ?_ g _ x hx ?_
    · intro a nd hnd hnw
      obtain ⟨nd', hnd', _, _, heq⟩ := hst.keep a nd hnd
      have : nd.shared = true ∨ nd.owner ≠ m := by
        cases hs : nd.shared with
        | true => exact Or.inl rfl
        | false => exact Or.inr (fun ho => hnw ⟨nd, hnd, hs, ho⟩)
      rw [heq this] at hnd'; exact hnd'
    · rintro a nd hnd ⟨nd', hnd', hs, _⟩
      rw [hnd] at hnd'; injection hnd' with hnd'; subst hnd'; exact hs
    · rintro y hy ⟨nd, hnd, _, ho⟩
      obtain ⟨nd', hnd', ho'⟩ := hown y hy
      rw [hnd] at hnd'; injection hnd' with hnd'; subst hnd'
      exact hne (ho'.symm.trans ho)
  have hkeep : ∀ y ∈ x.2.2, ∀ nd, s.heap[y]? = some nd → s'.heap[y]? = some nd := by
    intro y hy nd hnd
    obtain ⟨nd0, hnd0, ho⟩ := hown y hy
    rw [hnd] at hnd0; injection hnd0 with hnd0; subst hnd0
    obtain ⟨nd', hnd', _, _, heq⟩ := hst.keep y nd hnd
    rw [heq (Or.inr (by rw [ho]; exact hne))] at hnd'; exact hnd'
  refine ⟨repTree_eq_some.mpr ⟨x, hx', hxnd, ?_⟩, ?_⟩
  · congr 1
    cases hr : t2.root with
    | nil => rfl
    | ref n => rfl
    | ptr a =>
      rw [hr] at hx
      obtain ⟨_, nd, cs, _, hnd, _, _, hxe⟩ := repLink_ptr_some.mp hx
      have hnd' : s'.heap[a]? = some nd := by
        cases hs : nd.shared with
        | true =>
          obtain ⟨nd', h1, _, _, heq⟩ := hst.keep a nd hnd
          rw [heq (Or.inl hs)] at h1; exact h1
        | false =>
          apply hkeep a _ nd hnd
          rw [hxe, nodeRep_fp]
          exact List.mem_append.mpr (Or.inl (mem_ownFp.mpr ⟨hs, rfl⟩))
      simp only [rootDirty, hnd, hnd']
  · rw [footprint_eq hx']
    intro y hy
    obtain ⟨nd, hnd, ho⟩ := hown y hy
    exact ⟨nd, hkeep y hy nd hnd, ho⟩

/-! ## the invariant -/

/-- the tree denotes a functional tree and owns its footprint; its thresholds are consecutive powers of the branch
    factor `≥ 2` (`Thresh`, from the delete refinement; it implies the `Healthy` that `insert_refines` needs and,
    unlike `Healthy`, is kept by the height reduction of `Delete`) -/
structure TreeOK (s : PS) (t : PTree) : Prop where
  den : ∃ g A, repTree s g t = some A ∧ FpOwned s.heap t.id (footprint s g t)
  thresh : Thresh t

structure RSys (σ : Sys) : Prop where
  good : Good σ.ps
  src : SourceOK σ.ps
  sden : StoreDen σ.ps.store
  trees : ∀ t ∈ σ.trees, TreeOK σ.ps t ∧ t.id < σ.nextId
  distinct : (σ.trees.map (·.id)).Nodup
  /-- no unshared object is owned by an id that has not been handed out -/
  owners : ∀ (a : Nat) (nd : MNode), σ.ps.heap[a]? = some nd → nd.shared = false → nd.owner < σ.nextId

/-- an empty system (cache switched on or off, any first id) -/
theorem RSys.init' (uc : Bool) (nid : Nat) : RSys { ps := { useCache := uc }, nextId := nid } := by
  refine ⟨⟨?_, ?_, ?_, ?_⟩, ⟨?_, ?_⟩, ?_, ?_, by simp, ?_⟩
  · intro n a h; simp at h
  · intro a nd h; simp at h
  · intro sn h; simp at h
  · intro a nd h; simp at h
  · intro a nd h; simp at h
  · intro a nd n h; simp at h
  · intro n sn h; simp [storeAt] at h
  · intro t h; simp at h
  · intro a nd h; simp at h

theorem RSys.init : RSys {} := RSys.init' false 1

/-! ## functional contents -/

def Denotes (s : PS) (t : PTree) (A : Tree) : Prop := ∃ g, repTree s g t = some A

theorem repTree_mono_le {s : PS} {g g' : Nat} {t : PTree} {A : Tree} (h : repTree s g t = some A) (hg : g ≤ g') :
    repTree s g' t = some A := by
  obtain ⟨x, hx, hnd, hA⟩ := repTree_eq_some.mp h
  exact repTree_eq_some.mpr ⟨x, repLink_mono_le hx hg, hnd, hA⟩

theorem Denotes.unique {s : PS} {t : PTree} {A B : Tree} (ha : Denotes s t A) (hb : Denotes s t B) : A = B := by
  obtain ⟨g1, h1⟩ := ha
  obtain ⟨g2, h2⟩ := hb
  have e1 := repTree_mono_le h1 (Nat.le_max_left g1 g2)
  have e2 := repTree_mono_le h2 (Nat.le_max_right g1 g2)
  rw [e1] at e2; injection e2

/-- `As` lists what the trees of `σ` denote -/
def Den (σ : Sys) (As : List Tree) : Prop :=
  As.length = σ.trees.length ∧ ∀ (i : Nat) (t : PTree), σ.trees[i]? = some t → ∃ A, As[i]? = some A ∧ Denotes σ.ps t A

theorem den_empty (σ : Sys) (h : σ.trees = []) : Den σ [] :=
  ⟨by simp [h], fun i t hi => by simp [h] at hi⟩

theorem Den.unique {σ : Sys} {As Bs : List Tree} (ha : Den σ As) (hb : Den σ Bs) : As = Bs := by
  apply List.ext_getElem?
  intro i
  by_cases hi : i < σ.trees.length
  · obtain ⟨A, h1, h2⟩ := ha.2 i _ (List.getElem?_eq_getElem hi)
    obtain ⟨B, h3, h4⟩ := hb.2 i _ (List.getElem?_eq_getElem hi)
    rw [h1, h3, h2.unique h4]
  · rw [List.getElem?_eq_none (by rw [ha.1]; omega), List.getElem?_eq_none (by rw [hb.1]; omega)]

theorem RSys.exists_den {σ : Sys} (h : RSys σ) : ∃ As, Den σ As := by
  have : ∀ (l : List PTree), (∀ t ∈ l, ∃ A, Denotes σ.ps t A) →
      ∃ As : List Tree, As.length = l.length ∧ ∀ (i : Nat) (t : PTree), l[i]? = some t → ∃ A, As[i]? = some A ∧ Denotes σ.ps t A := by
    intro l
    induction l with
    | nil => intro _; exact ⟨[], rfl, fun i t h => by simp at h⟩
    | cons t l ih =>
      intro hl
      obtain ⟨A, hA⟩ := hl t (by simp)
      obtain ⟨As, h1, h2⟩ := ih (fun t' ht' => hl t' (List.mem_cons_of_mem _ ht'))
      refine ⟨A :: As, by simp [h1], ?_⟩
      intro i t' hi
      cases i with
      | zero => simp at hi; subst hi; exact ⟨A, rfl, hA⟩
      | succ i => simp at hi; simpa using h2 i t' hi
  exact this σ.trees (fun t ht => by
    obtain ⟨g, A, hA, _⟩ := (h.trees t ht).1.den
    exact ⟨A, g, hA⟩)

/-! ## generic preservation lemmas -/

theorem map_id_set_eq {l : List PTree} {i : Nat} {t t' : PTree} (hi : l[i]? = some t) (hid : t'.id = t.id) :
    (l.set i t').map (·.id) = l.map (·.id) := by
  rw [List.map_set]
  apply List.ext_getElem?
  intro j
  by_cases hji : j = i
  · subst hji
    have hlt : j < (l.map (·.id)).length := by
      have := (List.getElem?_eq_some_iff.mp hi).1; simpa using this
    rw [List.getElem?_set_self hlt, List.getElem?_map, hi]; simp [hid]
  · rw [List.getElem?_set_ne (Ne.symm hji)]

theorem ids_ne_of_nodup {l : List PTree} (hd : (l.map (·.id)).Nodup) {i j : Nat} {t x : PTree}
    (hi : l[i]? = some t) (hj : l[j]? = some x) (hne : j ≠ i) : x.id ≠ t.id := by
  intro heq
  have h1 : (l.map (·.id))[i]? = some t.id := by rw [List.getElem?_map, hi]; rfl
  have h2 : (l.map (·.id))[j]? = some t.id := by rw [List.getElem?_map, hj]; simp [heq]
  have hj' := (List.getElem?_eq_some_iff.mp h2).1
  exact hne ((List.getElem?_inj hj' hd).mp (by rw [h1, h2]))

/-- an allocation-only step performed for `m`, possibly adding one tree with the id `m = σ.nextId` -/
theorem rsys_grow {σ : Sys} {As : List Tree} (hR : RSys σ) (hD : Den σ As) {m nid : Nat} {s' : PS}
    (hgr : Grow m σ.ps s') (hsrc : SourceOK s') (hm : m < nid) (hn : σ.nextId ≤ nid)
    (new : Option (PTree × Tree))
    (hnew : ∀ t' A', new = some (t', A') → TreeOK s' t' ∧ t'.id = σ.nextId ∧ σ.nextId < nid ∧ Denotes s' t' A') :
    RSys { ps := s', nextId := nid, trees := addTree σ.trees (new.map (·.1)) } ∧
    Den { ps := s', nextId := nid, trees := addTree σ.trees (new.map (·.1)) }
      (match new with | some x => As ++ [x.2] | none => As) := by
  have hold : ∀ t ∈ σ.trees, TreeOK s' t ∧ t.id < nid := by
    intro t ht
    obtain ⟨⟨⟨g, A, hA, hown⟩, hh⟩, hid⟩ := hR.trees t ht
    obtain ⟨h1, h2, _⟩ := hgr.tree hA hown
    exact ⟨⟨⟨g, A, h1, h2⟩, hh⟩, by omega⟩
  have holdD : ∀ (i : Nat) (t : PTree), σ.trees[i]? = some t → ∃ A, As[i]? = some A ∧ Denotes s' t A := by
    intro i t hi
    obtain ⟨A, h1, g, h2⟩ := hD.2 i t hi
    exact ⟨A, h1, g, hgr.repTree h2⟩
  have hbase : Good s' ∧ StoreDen s'.store ∧
      ∀ (a : Nat) (nd : MNode), s'.heap[a]? = some nd → nd.shared = false → nd.owner < nid := by
    refine ⟨hgr.good hR.good, by rw [hgr.store]; exact hR.sden, ?_⟩
    intro a nd hnd hs
    by_cases ha : a < σ.ps.heap.length
    · have h0 := hgr.alloc a _ (List.getElem?_eq_getElem ha)
      rw [hnd] at h0; injection h0 with h0
      have := hR.owners a _ (List.getElem?_eq_getElem ha) (by rw [← h0]; exact hs)
      rw [← h0] at this; omega
    · rcases hgr.fresh a nd (by omega) hnd with h1 | h1
      · rw [hs] at h1; cases h1
      · omega
  obtain ⟨hg', hsd', hown'⟩ := hbase
  cases new with
  | none =>
    exact ⟨⟨hg', hsrc, hsd', hold, hR.distinct, hown'⟩, hD.1, holdD⟩
  | some x =>
    obtain ⟨t', A'⟩ := x
    obtain ⟨htok, hid, hlt, hden⟩ := hnew t' A' rfl
    refine ⟨⟨hg', hsrc, hsd', ?_, ?_, hown'⟩, ?_, ?_⟩
    · intro t ht
      rcases List.mem_append.mp ht with h | h
      · exact hold t h
      · simp at h; rw [h]; exact ⟨htok, by show t'.id < nid; omega⟩
    · show (List.map (fun x => x.id) (σ.trees ++ [t'])).Nodup
      rw [List.map_append, List.nodup_append]
      refine ⟨hR.distinct, by simp, ?_⟩
      intro a ha b hb
      simp at hb; subst hb
      obtain ⟨x, hx, rfl⟩ := List.mem_map.mp ha
      have := (hR.trees x hx).2
      omega
    · show (As ++ [A']).length = (σ.trees ++ [t']).length
      simp [hD.1]
    · intro i t hi
      change (σ.trees ++ [t'])[i]? = some t at hi
      by_cases hlt' : i < σ.trees.length
      · rw [List.getElem?_append_left hlt'] at hi
        obtain ⟨A, h1, h2⟩ := holdD i t hi
        exact ⟨A, by show (As ++ [A'])[i]? = some A; rw [List.getElem?_append_left (by rw [hD.1]; exact hlt')]; exact h1, h2⟩
      · rw [List.getElem?_append_right (by omega)] at hi
        have hi0 : i - σ.trees.length = 0 := by
          cases hk : i - σ.trees.length with
          | zero => rfl
          | succ k => rw [hk] at hi; simp at hi
        rw [hi0] at hi; simp at hi; subst hi
        refine ⟨A', ?_, hden⟩
        show (As ++ [A'])[i]? = some A'
        rw [List.getElem?_append_right (by rw [hD.1]; omega), hD.1, hi0]; rfl

/-- a step of tree number `i` that replaces its record by `t'` (same id) -/
theorem rsys_update {σ : Sys} {As : List Tree} (hR : RSys σ) (hD : Den σ As) {i : Nat} {t t' : PTree} {s' : PS}
    {A' : Tree} (hi : σ.trees[i]? = some t) (hw : WStep t.id σ.ps s') (hg : Good s') (hsrc : SourceOK s')
    (hsd : StoreDen s'.store) (hok : TreeOK s' t') (hid : t'.id = t.id) (hden : Denotes s' t' A') :
    RSys { σ with ps := s', trees := σ.trees.set i t' } ∧
    Den { σ with ps := s', trees := σ.trees.set i t' } (As.set i A') := by
  have hilt : i < σ.trees.length := (List.getElem?_eq_some_iff.mp hi).1
  have htm : t ∈ σ.trees := List.mem_of_getElem? hi
  have hother : ∀ j x, σ.trees[j]? = some x → j ≠ i → TreeOK s' x ∧ ∀ A, Denotes σ.ps x A → Denotes s' x A := by
    intro j x hj hji
    have hne : x.id ≠ t.id := ids_ne_of_nodup hR.distinct hi hj hji
    obtain ⟨⟨⟨g, B, hB, hown⟩, hh⟩, _⟩ := hR.trees x (List.mem_of_getElem? hj)
    obtain ⟨h1, h2⟩ := hw.repTree_other hne hB hown
    refine ⟨⟨⟨g, B, h1, h2⟩, hh⟩, ?_⟩
    intro A hA
    have : A = B := hA.unique ⟨g, hB⟩
    subst this; exact ⟨g, h1⟩
  refine ⟨⟨hg, hsrc, hsd, ?_, ?_, ?_⟩, ?_, ?_⟩
  · intro x hx
    obtain ⟨j, hj⟩ := List.getElem?_of_mem hx
    change (σ.trees.set i t')[j]? = some x at hj
    by_cases hji : j = i
    · subst hji
      rw [List.getElem?_set_self hilt] at hj
      injection hj with hj; subst hj
      exact ⟨hok, by rw [hid]; exact (hR.trees t htm).2⟩
    · rw [List.getElem?_set_ne (Ne.symm hji)] at hj
      exact ⟨(hother j x hj hji).1, (hR.trees x (List.mem_of_getElem? hj)).2⟩
  · show (List.map (fun x => x.id) (σ.trees.set i t')).Nodup
    rw [map_id_set_eq hi hid]; exact hR.distinct
  · intro a nd hnd hs
    by_cases ha : a < σ.ps.heap.length
    · obtain ⟨nd', h1, h2, h3, _⟩ := hw.keep a _ (List.getElem?_eq_getElem ha)
      change s'.heap[a]? = some nd at hnd
      rw [hnd] at h1; injection h1 with h1; subst h1
      rw [h2]
      exact hR.owners a _ (List.getElem?_eq_getElem ha) (h3 hs)
    · rcases hw.fresh a nd (by omega) hnd with h1 | h1
      · rw [hs] at h1; cases h1
      · rw [h1]; exact (hR.trees t htm).2
  · show (As.set i A').length = (σ.trees.set i t').length
    simp [hD.1]
  · intro j x hj
    change (σ.trees.set i t')[j]? = some x at hj
    by_cases hji : j = i
    · subst hji
      rw [List.getElem?_set_self hilt] at hj
      injection hj with hj; subst hj
      exact ⟨A', by rw [List.getElem?_set_self (by rw [hD.1]; exact hilt)], hden⟩
    · rw [List.getElem?_set_ne (Ne.symm hji)] at hj
      obtain ⟨A, h1, h2⟩ := hD.2 j x hj
      exact ⟨A, by rw [List.getElem?_set_ne (Ne.symm hji)]; exact h1, (hother j x hj hji).2 A h2⟩

end Mast.Ptr
