import Mastverif.Lemmas.Ins
/-! `get` refines `getL`. -/
namespace Mast
namespace T
variable (layer : Nat → Nat)

theorem get_nil (k s : Nat) : get k s nil = none := by cases s <;> rfl

theorem get_eq_getL (k : Nat) : ∀ (t : T) (s tgt : Nat),
    WF layer (tgt + s) t → Sorted (toList t) → tgt ≤ layer k → (layer k ≤ tgt ∨ s = 0) →
    get k s t = getL k (toList t) := by
  intro t
  induction t with
  | nil => intro s tgt h; simp [WF] at h
  | last p c ih =>
    intro s tgt h hsrt hk hs
    rw [WF_last_iff] at h
    simp only [toList] at hsrt ⊢
    cases s with
    | zero =>
      simp only [get]
      exact (getL_none_of_not_mem _ (child_not_mem layer h (k := k) (by simpa using hk))).symm
    | succ s =>
      have hkl : layer k ≤ tgt := by rcases hs with hs | hs; exact hs; omega
      simp only [get]
      by_cases hcn : c = nil
      · subst hcn; simp [get_nil, toList, getL]
      · obtain ⟨_, hw, _⟩ := childOK_level layer (d := tgt + s) h hcn
        exact ih s tgt hw hsrt hk (Or.inl hkl)
  | cons p c k' v' r ihc ihr =>
    intro s tgt h hsrt hk hs
    rw [WF_cons_iff] at h
    obtain ⟨hk', hr, hc⟩ := h
    simp only [toList] at hsrt ⊢
    obtain ⟨hsc, hsr, hclt, hrgt⟩ := sorted_cons_parts hsrt
    by_cases hlt : k' < k
    · have hpre : ∀ e ∈ toList c ++ [(k', v')], e.1 < k := by
        intro e he; simp at he; rcases he with he | rfl
        · exact Nat.lt_trans (hclt e he) hlt
        · exact hlt
      have e : toList c ++ (k', v') :: toList r = (toList c ++ [(k', v')]) ++ toList r := by simp
      rw [e, getL_append_lt _ _ hpre]
      cases s with
      | zero => simp only [get, hlt, if_true]; exact ihr 0 tgt hr hsr hk hs
      | succ s => simp only [get, hlt, if_true]; exact ihr (s+1) tgt hr hsr hk hs
    · by_cases heq : k' = k
      · subst heq
        cases s with
        | zero =>
          simp only [get, hlt, if_false, if_true]
          rw [getL_append_lt _ _ hclt]; simp [getL]
        | succ s =>
          have hkl : layer k' ≤ tgt := by rcases hs with hs | hs; exact hs; omega
          omega
      · have hgt : k < k' := by omega
        have hr_ne : ∀ e ∈ (k', v') :: toList r, e.1 ≠ k := by
          intro e he; simp at he; rcases he with rfl | he
          · exact heq
          · have := hrgt e he; omega
        rw [getL_append_none _ _ hr_ne]
        cases s with
        | zero =>
          simp only [get, hlt, heq, if_false]
          exact (getL_none_of_not_mem _ (child_not_mem layer hc (k := k) (by simpa using hk))).symm
        | succ s =>
          have hkl : layer k ≤ tgt := by rcases hs with hs | hs; exact hs; omega
          simp only [get, hlt, heq, if_false]
          by_cases hcn : c = nil
          · subst hcn; simp [get_nil, toList, getL]
          · obtain ⟨_, hw, _⟩ := childOK_level layer (d := tgt + s) hc hcn
            exact ihc s tgt hw hsc hk (Or.inl hkl)

end T
end Mast
