import Mastverif.Lemmas.Incr
import Mastverif.Lemmas.Loads
/-!
# Counting what a flush writes

`cntD t` = number of nodes a flush writes below the row `t` (= length of `storesBelow`).
`cntIn m lo hi t` = how many of them have `m` in their closed key range.
* `cover`: under `DR M`, every written node is counted by at least one modified key;
* `cntIn_le`: in a tree with strictly ascending keys a key lies in the range of at most two nodes
  per level (one if it is a separator bound of the row), so `cntIn ≤ 2 · lvl`.
Together: `cntD t ≤ |M| · 2 · lvl t`.
-/
set_option linter.unusedSimpArgs false
namespace Mast
namespace T

def cntD : T → Nat
  | nil => 0
  | last p c => if p || c.isNil then 0 else cntD c + 1
  | cons p c _ _ r => (if p || c.isNil then 0 else cntD c + 1) + cntD r

theorem storesBelow_length (e : Enc) : ∀ t : T, (storesBelow e t).length = cntD t := by
  intro t
  induction t with
  | nil => rfl
  | last p c ih =>
    simp only [storesBelow, cntD]
    split <;> simp [ih]
  | cons p c k v r ihc ihr =>
    simp only [storesBelow, cntD, List.length_append, ihr]
    split <;> simp [ihc]

def inRb (lo hi : Option Nat) (m : Nat) : Bool :=
  (match lo with | none => true | some l => decide (l ≤ m)) &&
  (match hi with | none => true | some h => decide (m ≤ h))

theorem inRb_iff (lo hi : Option Nat) (m : Nat) : inRb lo hi m = true ↔ loLe lo m ∧ leHi m hi := by
  cases lo <;> cases hi <;> simp [inRb]

def cntIn (m : Nat) : Option Nat → Option Nat → T → Nat
  | _, _, nil => 0
  | lo, hi, last p c => if p || c.isNil then 0 else (if inRb lo hi m then 1 else 0) + cntIn m lo hi c
  | lo, hi, cons p c k _ r =>
      (if p || c.isNil then 0 else (if inRb lo (some k) m then 1 else 0) + cntIn m lo (some k) c) +
        cntIn m (some k) hi r

def sumM (M : List Nat) (f : Nat → Nat) : Nat := (M.map f).sum

theorem sumM_add (M : List Nat) (f g : Nat → Nat) : sumM M (fun m => f m + g m) = sumM M f + sumM M g := by
  induction M with
  | nil => rfl
  | cons x M ih => simp only [sumM, List.map_cons, List.sum_cons] at ih ⊢; omega

theorem sumM_zero (M : List Nat) : sumM M (fun _ => 0) = 0 := by
  induction M with
  | nil => rfl
  | cons x M ih => simp only [sumM, List.map_cons, List.sum_cons] at ih ⊢; omega

theorem sumM_ge (M : List Nat) (f : Nat → Nat) (m : Nat) (hm : m ∈ M) : f m ≤ sumM M f := by
  induction M with
  | nil => cases hm
  | cons x M ih =>
    simp only [sumM, List.map_cons, List.sum_cons]
    rcases List.mem_cons.mp hm with rfl | h
    · omega
    · have := ih h; simp only [sumM] at this; omega

theorem sumM_le (M : List Nat) (f : Nat → Nat) (b : Nat) (h : ∀ m ∈ M, f m ≤ b) : sumM M f ≤ M.length * b := by
  induction M with
  | nil => simp [sumM]
  | cons x M ih =>
    simp only [sumM, List.map_cons, List.sum_cons, List.length_cons]
    have h1 := h x (by simp)
    have h2 := ih (fun m hm => h m (by simp [hm]))
    simp only [sumM] at h2
    rw [Nat.add_mul]; omega

/-- **cover**: each node to be written is counted by at least one modified key -/
theorem cover (M : List Nat) : ∀ (t : T) (lo hi : Option Nat), DR M lo hi t →
    cntD t ≤ sumM M (fun m => cntIn m lo hi t) := by
  intro t
  induction t with
  | nil => intro lo hi _; simp [cntD]
  | last p c ih =>
    intro lo hi h
    simp only [cntD, cntIn]
    by_cases hw : (p || c.isNil) = true
    · simp [hw]
    · have hw' : (p || c.isNil) = false := by simpa using hw
      simp only [hw', Bool.false_eq_true, if_false]
      have hp : p = false := by cases p <;> simp_all
      have hc : c.isNil = false := by cases hci : c.isNil <;> simp_all
      rcases h with h | h | ⟨_, ⟨m, hm, hm1, hm2⟩, h3⟩
      · rw [hc] at h; cases h
      · rw [hp] at h; cases h.1
      · rw [sumM_add]
        have h1 : 1 ≤ sumM M (fun m => if inRb lo hi m = true then 1 else 0) := by
          have := sumM_ge M (fun m => if inRb lo hi m = true then 1 else 0) m hm
          simp only [(inRb_iff lo hi m).mpr ⟨hm1, hm2⟩, if_true] at this
          exact this
        have := ih lo hi h3
        omega
  | cons p c k v r ihc ihr =>
    intro lo hi h
    simp only [cntD, cntIn]
    rw [sumM_add]
    have hr := ihr (some k) hi h.2
    by_cases hw : (p || c.isNil) = true
    · simp only [hw, if_true, sumM_zero]; omega
    · have hw' : (p || c.isNil) = false := by simpa using hw
      simp only [hw', Bool.false_eq_true, if_false]
      have hp : p = false := by cases p <;> simp_all
      have hc : c.isNil = false := by cases hci : c.isNil <;> simp_all
      rcases h.1 with h1 | h1 | ⟨_, ⟨m, hm, hm1, hm2⟩, h3⟩
      · rw [hc] at h1; cases h1
      · rw [hp] at h1; cases h1.1
      · rw [sumM_add]
        have h1 : 1 ≤ sumM M (fun m => if inRb lo (some k) m = true then 1 else 0) := by
          have := sumM_ge M (fun m => if inRb lo (some k) m = true then 1 else 0) m hm
          simp only [(inRb_iff lo (some k) m).mpr ⟨hm1, hm2⟩, if_true] at this
          exact this
        have := ihc lo (some k) h3
        omega

/-! ## a key lies in the range of at most two nodes per level -/

def loLt : Option Nat → Nat → Prop
  | none, _ => True
  | some l, m => l < m

def ltHi : Nat → Option Nat → Prop
  | _, none => True
  | m, some h => m < h

@[simp] theorem loLt_none (m : Nat) : loLt none m = True := rfl
@[simp] theorem loLt_some (l m : Nat) : loLt (some l) m = (l < m) := rfl
@[simp] theorem ltHi_none (m : Nat) : ltHi m none = True := rfl
@[simp] theorem ltHi_some (m h : Nat) : ltHi m (some h) = (m < h) := rfl

/-- the keys of the row lie strictly between its separators -/
def Bnd (lo hi : Option Nat) (t : T) : Prop := ∀ e ∈ toList t, loLt lo e.1 ∧ ltHi e.1 hi

structure CntClaims (m : Nat) (lo hi : Option Nat) (t : T) : Prop where
  z1 : ∀ l, lo = some l → m < l → cntIn m lo hi t = 0
  z2 : ∀ h, hi = some h → h < m → cntIn m lo hi t = 0
  e1 : lo = some m → cntIn m lo hi t ≤ lvl t
  e2 : hi = some m → cntIn m lo hi t ≤ lvl t
  s : cntIn m lo hi t ≤ 2 * lvl t

theorem cntIn_claims (m : Nat) : ∀ (t : T) (lo hi : Option Nat), Sorted (toList t) → Bnd lo hi t →
    CntClaims m lo hi t := by
  intro t
  induction t with
  | nil => intro lo hi _ _; constructor <;> simp [cntIn]
  | last p c ih =>
    intro lo hi hs hb
    have ihc := ih lo hi (by simpa [toList] using hs) (by simpa [Bnd, toList] using hb)
    by_cases hw : (p || c.isNil) = true
    · constructor <;> simp [cntIn, hw]
    · have hc : c.isNil = false := by cases hci : c.isNil <;> simp_all
      have hw' : (p || c.isNil) = false := by simpa using hw
      have hl : lvl (last p c) = lvl c + 1 := by simp [lvl, hc]
      have hd : (if inRb lo hi m = true then 1 else 0) ≤ 1 := by split <;> omega
      constructor
      · intro l hl1 hm
        simp only [cntIn, hw', Bool.false_eq_true, if_false]
        have : inRb lo hi m = false := by subst hl1; simp [inRb]; omega
        simp [this, ihc.z1 l hl1 hm]
      · intro h hh1 hm
        simp only [cntIn, hw', Bool.false_eq_true, if_false]
        have : inRb lo hi m = false := by subst hh1; cases lo <;> simp [inRb] <;> omega
        simp [this, ihc.z2 h hh1 hm]
      · intro hlo
        simp only [cntIn, hw', Bool.false_eq_true, if_false]
        have := ihc.e1 hlo
        rw [hl]; omega
      · intro hhi
        simp only [cntIn, hw', Bool.false_eq_true, if_false]
        have := ihc.e2 hhi
        rw [hl]; omega
      · simp only [cntIn, hw', Bool.false_eq_true, if_false]
        have := ihc.s
        rw [hl]; omega
  | cons p c k v r ihc ihr =>
    intro lo hi hs hb
    simp only [toList] at hs
    obtain ⟨sc, sr, hcr⟩ := sorted_append hs
    have sr' := sorted_tail sr
    have hk : loLt lo k ∧ ltHi k hi := hb (k, v) (by simp [toList])
    have bc : Bnd lo (some k) c := by
      intro e he
      have h1 := hb e (by simp [toList, he])
      have h2 := hcr e he (k, v) (by simp)
      exact ⟨h1.1, by simpa using h2⟩
    have br : Bnd (some k) hi r := by
      intro e he
      have h1 := hb e (by simp [toList, he])
      have : Sorted ((k, v) :: toList r) := sr
      simp only [Sorted, List.pairwise_cons] at this
      exact ⟨by simpa using this.1 e he, h1.2⟩
    have cc := ihc lo (some k) sc bc
    have cr := ihr (some k) hi sr' br
    have hlv : lvl (cons p c k v r) = max (if c.isNil then 0 else lvl c + 1) (lvl r) := by simp [lvl]
    have hd : (if inRb lo (some k) m = true then 1 else 0) ≤ 1 := by split <;> omega
    -- the part contributed by the left child
    have cpart : ∀ (b : Nat), (c.isNil = false → (if inRb lo (some k) m = true then 1 else 0) + cntIn m lo (some k) c ≤ b) →
        (if (p || c.isNil) = true then 0 else (if inRb lo (some k) m = true then 1 else 0) + cntIn m lo (some k) c) ≤ b := by
      intro b hbnd
      by_cases hw : (p || c.isNil) = true
      · simp [hw]
      · have hc : c.isNil = false := by cases hci : c.isNil <;> simp_all
        have hw' : (p || c.isNil) = false := by simpa using hw
        simp only [hw', Bool.false_eq_true, if_false]; exact hbnd hc
    constructor
    · intro l hl1 hm
      subst hl1
      have hkl : l < k := by simpa using hk.1
      simp only [cntIn]
      have h1 := cpart 0 (fun _ => by
        have : inRb (some l) (some k) m = false := by simp [inRb]; omega
        simp [this, cc.z1 l rfl hm])
      have h2 := cr.z1 k rfl (by omega)
      omega
    · intro h hh1 hm
      subst hh1
      have hkh : k < h := by simpa using hk.2
      simp only [cntIn]
      have h1 := cpart 0 (fun _ => by
        have : inRb lo (some k) m = false := by cases lo <;> simp [inRb] <;> omega
        simp [this, cc.z2 k rfl (by omega)])
      have h2 := cr.z2 h rfl hm
      omega
    · intro hlo
      subst hlo
      have hmk : m < k := by simpa using hk.1
      simp only [cntIn]
      have h1 := cpart (if c.isNil then 0 else lvl c + 1) (fun hc => by
        have := cc.e1 rfl
        simp only [hc, Bool.false_eq_true, if_false]
        omega)
      have h2 := cr.z1 k rfl hmk
      rw [hlv]; omega
    · intro hhi
      subst hhi
      have hkm : k < m := by simpa using hk.2
      simp only [cntIn]
      have h1 := cpart 0 (fun _ => by
        have : inRb lo (some k) m = false := by cases lo <;> simp [inRb] <;> omega
        simp [this, cc.z2 k rfl hkm])
      have h2 := cr.e2 rfl
      rw [hlv]; omega
    · simp only [cntIn]
      rw [hlv]
      rcases Nat.lt_trichotomy m k with hmk | hmk | hmk
      · have h1 := cpart (2 * (if c.isNil then 0 else lvl c + 1)) (fun hc => by
          have := cc.s
          simp only [hc, Bool.false_eq_true, if_false]
          omega)
        have h2 := cr.z1 k rfl hmk
        omega
      · subst hmk
        have h1 := cpart (if c.isNil then 0 else lvl c + 1) (fun hc => by
          have := cc.e2 rfl
          simp only [hc, Bool.false_eq_true, if_false]
          omega)
        have h2 := cr.e1 rfl
        omega
      · have h1 := cpart 0 (fun _ => by
          have : inRb lo (some k) m = false := by cases lo <;> simp [inRb] <;> omega
          simp [this, cc.z2 k rfl hmk])
        have h2 := cr.s
        omega

/-- **the number of nodes a flush writes below the top node**: at most two per level and
    modified key -/
theorem cntD_le (M : List Nat) (t : T) (h : DR M none none t) (hs : Sorted (toList t)) :
    cntD t ≤ M.length * (2 * lvl t) := by
  have h1 := cover M t none none h
  have h2 := sumM_le M (fun m => cntIn m none none t) (2 * lvl t)
    (fun m _ => (cntIn_claims m t none none hs (by intro e _; simp)).s)
  omega

end T
end Mast
