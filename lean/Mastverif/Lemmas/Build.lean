import Mastverif.Model.Canon
import Mastverif.Lemmas.Height
/-!
# The reference builder yields a well-formed tree with exactly the given entries
-/
namespace Mast
namespace T
variable (layer : Nat → Nat)

theorem toList_leafRow : ∀ es, toList (leafRow es) = es := by
  intro es
  induction es with
  | nil => rfl
  | cons x es ih => obtain ⟨k, v⟩ := x; simp [leafRow, toList, ih]

theorem leafRow_WF : ∀ es, WF layer 0 (leafRow es) := by
  intro es
  induction es with
  | nil => simp [leafRow, WF]
  | cons x es ih => obtain ⟨k, v⟩ := x; simp only [leafRow]; rw [WF_cons_iff]; exact ⟨Nat.zero_le _, ih, Or.inl rfl⟩

theorem toList_rowOf (hi : Nat → Bool) (child : List (Nat × Nat) → T) (hch : ∀ r, toList (child r) = r) :
    ∀ (es run : List (Nat × Nat)), toList (rowOf hi child es run) = run.reverse ++ es := by
  intro es
  induction es with
  | nil => intro run; simp [rowOf, toList, hch]
  | cons x es ih =>
    intro run
    obtain ⟨k, v⟩ := x
    simp only [rowOf]
    split
    · simp [toList, hch, ih]
    · rw [ih]; simp

theorem toList_build : ∀ (d : Nat) (es : List (Nat × Nat)), toList (build layer d es) = es := by
  intro d
  induction d with
  | zero => intro es; simp [build, toList_leafRow]
  | succ d ih =>
    intro es
    simp only [build]
    rw [toList_rowOf]
    · simp
    · intro r
      by_cases hr : r.isEmpty = true
      · simp only [hr, if_true]
        cases r <;> simp_all [toList]
      · simp only [hr]; exact ih r

theorem rowOf_WF (d : Nat) (child : List (Nat × Nat) → T)
    (hch : ∀ r, (∀ e ∈ r, layer e.1 < d + 1) → ChildOK layer (d + 1) (child r)) :
    ∀ (es run : List (Nat × Nat)), (∀ e ∈ run, layer e.1 < d + 1) →
      WF layer (d + 1) (rowOf (fun k => decide (d + 1 ≤ layer k)) child es run) := by
  intro es
  induction es with
  | nil =>
    intro run hrun
    simp only [rowOf]
    rw [WF_last_iff]
    exact hch _ (fun e he => hrun e (by simpa using he))
  | cons x es ih =>
    intro run hrun
    obtain ⟨k, v⟩ := x
    simp only [rowOf]
    split
    · next hhi =>
      rw [WF_cons_iff]
      refine ⟨by simpa using hhi, ih [] (by simp), hch _ (fun e he => hrun e (by simpa using he))⟩
    · next hlo =>
      apply ih
      intro e he
      simp only [List.mem_cons] at he
      rcases he with rfl | he
      · simp at hlo; exact hlo
      · exact hrun e he

/-- **the reference tree is well-formed at every level, for every entry list and layer function** -/
theorem build_WF : ∀ (d : Nat) (es : List (Nat × Nat)), WF layer d (build layer d es) := by
  intro d
  induction d with
  | zero => intro es; exact leafRow_WF layer es
  | succ d ih =>
    intro es
    simp only [build]
    apply rowOf_WF layer d _ _ es [] (by simp)
    intro r hr
    by_cases hre : r.isEmpty = true
    · left; simp [hre]
    · right
      have hre' : r.isEmpty = false := by simpa using hre
      simp only [hre', Bool.false_eq_true, if_false]
      refine ⟨d, rfl, ?_, ih r, ?_⟩
      · apply isEmptyRow_of_toList_ne
        rw [toList_build]
        intro h; subst h; simp at hre
      · intro e he
        rw [toList_build] at he
        exact hr e he

end T
end Mast
