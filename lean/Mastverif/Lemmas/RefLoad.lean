import Mastverif.Lemmas.RefSys
/-!
`LoadMast` refines "the tree the name denotes" (resp. the empty tree), plus general facts used by the
clone / iter / flush / history files: links without pointers have an empty footprint and do not depend on the
heap; allocation-only steps keep footprints and their ownership.
-/
namespace Mast.Ptr
open Mast.Heap

/-- a list of links without pointers -/
def FlatL (ls : List HLink) : Prop := ∀ l ∈ ls, isPtr l = false

theorem storeAt_mem {st : List SNode} {n : Nat} {sn : SNode} (h : storeAt st n = some sn) : sn ∈ st := by
  unfold storeAt at h
  split at h
  · cases h
  · exact List.mem_of_getElem? h

theorem expandLinks_flat {sn : SNode} (h : FlatL sn.links) : FlatL (expandLinks sn) := by
  intro l hl
  unfold expandLinks at hl
  split at hl
  · rw [List.mem_replicate] at hl; rw [hl.2]; rfl
  · exact h l hl

theorem fps_eq_nil {cs : List (Bool × T × List Nat)} (h : ∀ c ∈ cs, c.2.2 = []) : fps cs = [] := by
  induction cs with
  | nil => rfl
  | cons c cs ih =>
    rw [fps_cons, h c (by simp), ih (fun c' hc' => h c' (List.mem_cons_of_mem _ hc'))]; rfl

/-- a link that is not a pointer has an empty footprint (the store holds no pointers) -/
theorem repLink_flat_fp {h : Heap} {st : List SNode} (hf : StoreFlat st) :
    ∀ (f : Nat) (l : HLink) (x : Bool × T × List Nat), isPtr l = false → repLink h st f l = some x → x.2.2 = [] := by
  intro f
  induction f with
  | zero =>
    intro l x hl hx
    cases l with
    | nil => simp at hx; subst hx; rfl
    | ptr a => cases hx
    | ref n => cases hx
  | succ f ih =>
    intro l x hl hx
    cases l with
    | nil => simp at hx; subst hx; rfl
    | ptr a => cases hl
    | ref n =>
      obtain ⟨f', sn, cs, hf', hsn, hv, h1, rfl⟩ := repLink_ref_some.mp hx
      injection hf' with hf'; subst hf'
      rw [nodeRep_fp, List.nil_append]
      apply fps_eq_nil
      intro c hc
      obtain ⟨i, hi⟩ := List.getElem?_of_mem hc
      have hlen := seqO_map_length h1
      have hlt : i < (expandLinks sn).length := by rw [← hlen]; exact (List.getElem?_eq_some_iff.mp hi).1
      obtain ⟨c', hc1, hc2⟩ := seqO_map_getElem? h1 (List.getElem?_eq_getElem hlt)
      rw [hi] at hc2; injection hc2 with hc2; subst hc2
      exact ih _ _ (expandLinks_flat (hf sn (storeAt_mem hsn)) _ (List.getElem_mem hlt)) hc1

/-- … and denotes the same in every heap -/
theorem repLink_flat_heap {h h' : Heap} {st : List SNode} (hf : StoreFlat st) :
    ∀ (f : Nat) (l : HLink) (x : Bool × T × List Nat), isPtr l = false → repLink h st f l = some x →
      repLink h' st f l = some x := by
  intro f
  induction f with
  | zero =>
    intro l x hl hx
    cases l with
    | nil => simpa using hx
    | ptr a => cases hx
    | ref n => cases hx
  | succ f ih =>
    intro l x hl hx
    cases l with
    | nil => simpa using hx
    | ptr a => cases hl
    | ref n =>
      obtain ⟨f', sn, cs, hf', hsn, hv, h1, rfl⟩ := repLink_ref_some.mp hx
      injection hf' with hf'; subst hf'
      refine repLink_ref_some.mpr ⟨f, sn, cs, rfl, hsn, hv, ?_, rfl⟩
      exact seqO_map_congr h1 (fun l hl' c hc => ih l c (expandLinks_flat (hf sn (storeAt_mem hsn)) l hl') hc)

/-- a shared object has an empty footprint -/
theorem repLink_shared_fp {h : Heap} {st : List SNode} (hsf : SharedFlat h) (hf : StoreFlat st) {f a : Nat} {nd : MNode}
    {x : Bool × T × List Nat} (hnd : h[a]? = some nd) (hs : nd.shared = true)
    (hx : repLink h st f (.ptr a) = some x) : x.2.2 = [] := by
  obtain ⟨f', nd', cs, _, hnd', _, h1, rfl⟩ := repLink_ptr_some.mp hx
  rw [hnd] at hnd'; injection hnd' with hnd'; subst hnd'
  rw [nodeRep_fp]
  have : ownFp nd a = [] := by simp [ownFp, hs]
  rw [this, List.nil_append]
  apply fps_eq_nil
  intro c hc
  obtain ⟨i, hi⟩ := List.getElem?_of_mem hc
  have hlen := seqO_map_length h1
  have hlt : i < nd.links.length := by rw [← hlen]; exact (List.getElem?_eq_some_iff.mp hi).1
  obtain ⟨c', hc1, hc2⟩ := seqO_map_getElem? h1 (List.getElem?_eq_getElem hlt)
  rw [hi] at hc2; injection hc2 with hc2; subst hc2
  exact repLink_flat_fp hf _ _ _ (hsf a nd hnd hs _ (List.getElem_mem hlt)) hc1

/-! ## allocation-only steps and footprints -/

theorem Grow.fp_eq {m : Nat} {s s' : PS} (gr : Grow m s s') {g : Nat} {t : PTree} {x : Bool × T × List Nat}
    (hx : repLink s.heap s.store g t.root = some x) : footprint s' g t = footprint s g t := by
  rw [footprint_eq hx, footprint_eq (gr.rep hx)]

theorem FpOwned.allocOnly {h h' : Heap} {m : Nat} {fp : List Nat} (ho : FpOwned h m fp) (ha : AllocOnly h h') :
    FpOwned h' m fp := by
  intro y hy
  obtain ⟨nd, hnd, hown⟩ := ho y hy
  exact ⟨nd, ha y nd hnd, hown⟩

/-- an allocation-only step keeps what a tree denotes, its footprint and the ownership of the footprint -/
theorem Grow.tree {m : Nat} {s s' : PS} (gr : Grow m s s') {g : Nat} {t : PTree} {A : Tree}
    (hA : Ptr.repTree s g t = some A) (hown : FpOwned s.heap t.id (footprint s g t)) :
    Ptr.repTree s' g t = some A ∧ FpOwned s'.heap t.id (footprint s' g t) ∧ footprint s' g t = footprint s g t := by
  obtain ⟨x, hx, _, _⟩ := repTree_eq_some.mp hA
  refine ⟨gr.repTree hA, ?_, gr.fp_eq hx⟩
  rw [gr.fp_eq hx]; exact hown.allocOnly gr.alloc

/-! ## LoadMast -/

/-- the record `LoadMast` builds around a root row -/
def loadedTree (p : Bool) (r : T) (size height bf : Nat) : Tree :=
  { root := r, rootP := p, dirty := false, size := size, height := height, bf := bf,
    growAfter := bf ^ height * bf, shrinkBelow := bf ^ height }

theorem loadedTree_empty (bf : Nat) : loadedTree false (T.last false T.nil) 0 0 bf = Tree.empty bf := by
  simp [loadedTree, Tree.empty]

/-- a successful `loadRef` found the name in the store -/
theorem loadRef_ok_store {E : Env} {n a : Nat} {s s' : PS} (hg : Good s) (h : loadRef E n s = .ok a s') :
    ∃ sn, storeAt s.store n = some sn := by
  unfold loadRef at h
  dsimp only at h
  split at h
  · next a' hc =>
    have hmem : (n, a') ∈ s.cache := by
      split at hc
      · exact lookupCache_mem hc
      · cases hc
    obtain ⟨nd, sn, _, _, h3, _⟩ := hg.cache n a' hmem
    exact ⟨sn, h3⟩
  · split at h
    · cases h
    · split at h
      · cases h
      · next sn hsn => exact ⟨sn, hsn⟩

def LoadMastOK (id link size height bf : Nat) (s : PS) (t : PTree) (s' : PS) : Prop :=
  t.id = id ∧ t.size = size ∧ t.height = height ∧ t.bf = bf ∧ t.growAfter = bf ^ height * bf ∧
  t.shrinkBelow = bf ^ height ∧
  (link = 0 → t.root = .ptr s.heap.length ∧ s' = { s with heap := s.heap ++ [emptyNode id] }) ∧
  (link ≠ 0 → t.root = .ref link ∧ ∃ sn, storeAt s.store link = some sn)

theorem loadMast_spec (E : Env) (id link size height bf : Nat) (s : PS) (hg : Good s) :
    Spec (Grow id) (loadMast E id link size height bf) s (fun t s' => LoadMastOK id link size height bf s t s') := by
  unfold loadMast
  by_cases hl : link = 0
  · rw [if_pos hl]
    refine Spec.bind (Q1 := fun r s' => r = .ptr s.heap.length ∧ s' = { s with heap := s.heap ++ [emptyNode id] }) ?_ ?_
    · refine Spec.bind (alloc_spec (m := id) (emptyNode id) s (Or.inr rfl) (fun h => by simp [emptyNode] at h)) ?_
      rintro a s1 _ _ ⟨rfl, rfl⟩
      exact Spec.pure ⟨rfl, rfl⟩
    · rintro r s1 _ _ ⟨rfl, rfl⟩
      exact Spec.pure ⟨rfl, rfl, rfl, rfl, rfl, rfl, fun _ => ⟨rfl, rfl⟩, fun h => absurd hl h⟩
  · rw [if_neg hl]
    refine Spec.bind (Q1 := fun r _ => r = .ref link ∧ ∃ sn, storeAt s.store link = some sn) ?_ ?_
    · refine Spec.bind ((loadRef_spec (m := id) E link s hg).conseq (Q' := fun _ _ => ∃ sn, storeAt s.store link = some sn)
        (fun a s' hok _ _ => loadRef_ok_store hg hok)) ?_
      rintro a s1 _ _ hsn
      exact Spec.pure ⟨rfl, hsn⟩
    · rintro r s1 _ _ ⟨rfl, hsn⟩
      exact Spec.pure ⟨rfl, rfl, rfl, rfl, rfl, rfl, fun h => absurd h hl, fun _ => ⟨rfl, hsn⟩⟩

theorem healthy_loaded {t : PTree} {bf height : Nat} (hbf : t.bf = bf) (hga : t.growAfter = bf ^ height * bf)
    (h2 : 2 ≤ bf) : Healthy t := by
  refine ⟨by omega, ?_⟩
  rw [hga]
  have : 0 < bf ^ height := Nat.pow_pos (by omega)
  exact Nat.mul_pos this (by omega)

/-- **LoadMast**: the new tree denotes the empty tree (`link = 0`) resp. the row the name denotes (flag "name",
    nothing in memory); the step is allocation-only, so every other tree denotes what it denoted (`Grow.tree`) -/
theorem loadMast_refines (E : Env) (id link size height bf : Nat) (s s' : PS) (t : PTree) (hg : Good s)
    (h : loadMast E id link size height bf s = .ok t s') :
    Grow id s s' ∧ Good s' ∧ t.id = id ∧ (2 ≤ bf → Healthy t) ∧
    (t.bf = bf ∧ t.shrinkBelow = bf ^ height ∧ t.growAfter = bf ^ height * bf) ∧
    (link = 0 → repTree s' 1 t = some (loadedTree false (T.last false T.nil) size height bf) ∧
        footprint s' 1 t = [s.heap.length] ∧ FpOwned s'.heap id (footprint s' 1 t)) ∧
    (link ≠ 0 → (∃ sn, storeAt s.store link = some sn) ∧
        ∀ g x, repLink s.heap s.store g (.ref link) = some x →
          repTree s' g t = some (loadedTree true x.2.1 size height bf) ∧ footprint s' g t = []) := by
  obtain ⟨hgr, hid, hsz, hht, hbf, hga, hsb, h0, h1⟩ := (loadMast_spec E id link size height bf s hg).ok h
  refine ⟨hgr, hgr.good hg, hid, fun h2 => healthy_loaded hbf hga h2, ⟨hbf, hsb, hga⟩, ?_, ?_⟩
  · intro hl
    obtain ⟨hroot, rfl⟩ := h0 hl
    have hself : (s.heap ++ [emptyNode id])[s.heap.length]? = some (emptyNode id) := getElem?_append_self _ _
    have hx : repLink (s.heap ++ [emptyNode id]) s.store 1 t.root =
        some (false, T.last false T.nil, [s.heap.length]) := by
      rw [hroot]
      refine repLink_ptr_some.mpr ⟨0, emptyNode id, [(false, T.nil, [])], rfl, hself, ⟨rfl, rfl⟩, ?_, rfl⟩
      simp [emptyNode, seqO]
    have hfp : footprint { s with heap := s.heap ++ [emptyNode id] } 1 t = [s.heap.length] :=
      footprint_eq (s := { s with heap := s.heap ++ [emptyNode id] }) hx
    refine ⟨repTree_eq_some.mpr ⟨_, hx, by simp, ?_⟩, hfp, ?_⟩
    · have hd : rootDirty (s.heap ++ [emptyNode id]) t.root = false := by
        rw [hroot]; simp only [rootDirty, hself]; rfl
      simp only [treeRec, loadedTree, T.unmk, hd, hsz, hht, hbf, hga, hsb]
    · rw [hfp]
      intro y hy
      simp at hy; subst hy
      exact ⟨_, hself, rfl⟩
  · intro hl
    obtain ⟨hroot, hsn⟩ := h1 hl
    refine ⟨hsn, ?_⟩
    intro g x hx
    have hx' : repLink s'.heap s'.store g t.root = some x := by rw [hroot]; exact hgr.rep hx
    have hfp0 : x.2.2 = [] := repLink_flat_fp hg.flat _ _ _ rfl hx
    refine ⟨repTree_eq_some.mpr ⟨x, hx', by rw [hfp0]; simp, ?_⟩, by rw [footprint_eq hx', hfp0]⟩
    obtain ⟨_, sn, cs, _, _, _, _, hxe⟩ := repLink_ref_some.mp hx
    have hflag : x.1 = true := by rw [hxe]; rfl
    simp only [treeRec, loadedTree, hroot, rootDirty, hsz, hht, hbf, hga, hsb, hflag,
      unmk_of_ne_nil (repLink_row_ne_nil hx (by simp))]

theorem loadMast_err (E : Env) (id link size height bf : Nat) (s s' : PS) (hg : Good s)
    (h : loadMast E id link size height bf s = .err s') : Grow id s s' :=
  (loadMast_spec E id link size height bf s hg).err h

end Mast.Ptr
