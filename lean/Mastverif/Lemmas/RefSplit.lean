import Mastverif.Lemmas.RefFp
import Mastverif.Lemmas.RefRows2
/-! `linkNew` and `split` refine `T.mk` and `T.split`. -/
namespace Mast.Ptr
open Mast.Heap

theorem seqO_map_single {α β : Type} {F : α → Option β} {l : α} {cs : List β}
    (h : seqO ([l].map F) = some cs) : ∃ c, F l = some c ∧ cs = [c] := by
  obtain ⟨c, cs', h1, h2, rfl⟩ := seqO_map_cons.mp h
  simp [seqO] at h2
  subst h2
  exact ⟨c, h1, rfl⟩

/-- `linkNew` of a valid node whose links denote `cs`: the link denotes `mk` of the node's row -/
theorem linkNew_spec {m : Nat} (nd : MNode) (s : PS) (g : Nat) (cs : List (Bool × T × List Nat))
    (ho : nd.owner = m) (hs : nd.shared = false) (hv : ValidN nd)
    (h1 : seqO (nd.links.map (repLink s.heap s.store g)) = some cs) :
    Spec (Grow m) (linkNew nd) s (fun l s' => ∃ x, repLink s'.heap s'.store (g + 1) l = some x ∧ x.1 = false ∧
      x.2.1 = T.mk (mkRow (cs.map pr) nd.keys nd.vals) ∧
      ((l = .nil ∧ s' = s ∧ fps cs = [] ∧ x.2.2 = []) ∨
       (l = .ptr s.heap.length ∧ s'.heap.length = s.heap.length + 1 ∧ x.2.2 = s.heap.length :: fps cs))) := by
  unfold linkNew
  have hcl : (cs.map pr).length = nd.keys.length + 1 := by
    rw [List.length_map, seqO_map_length h1]; exact hv.1
  split
  · next he =>
    have hl := (isEmptyN_iff nd).mp he
    rw [hl] at h1
    obtain ⟨c, hc, rfl⟩ := seqO_map_single h1
    simp at hc; subst hc
    have hk : nd.keys = [] := by
      have := hv.1; rw [hl] at this
      simp at this
      exact this
    refine Spec.pure ⟨(false, T.nil, []), by simp, rfl, ?_, Or.inl ⟨rfl, rfl, by simp, rfl⟩⟩
    simp [pr, mkRow_single, T.mk]
  · next he =>
    refine Spec.bind (alloc_spec (m := m) nd s (Or.inr ho) (fun _ => hs)) ?_
    rintro a s1 _ hgr ⟨rfl, rfl⟩
    refine Spec.pure ⟨nodeRep false [s.heap.length] nd.keys nd.vals cs, ?_, rfl, ?_, Or.inr ⟨rfl, by simp, rfl⟩⟩
    · refine repLink_ptr_some.mpr ⟨g, nd, cs, rfl, getElem?_append_self _ _, hv, ?_, by simp [ownFp, hs]⟩
      exact seqO_map_congr h1 (fun l _ c hc => repLink_allocOnly (allocOnly_append _ _) hc)
    · rw [nodeRep_row]
      by_cases hk : nd.keys = []
      · -- a single link, not nil
        have hlen : nd.links.length = 1 := by rw [hv.1, hk]; rfl
        match hl : nd.links, hlen with
        | [l], _ =>
          rw [hl] at h1
          obtain ⟨c, hc, rfl⟩ := seqO_map_single h1
          have hne : l ≠ .nil := by
            intro h0; subst h0
            exact he ((isEmptyN_iff nd).mpr hl)
          have := repLink_row_ne_nil hc hne
          simp only [List.map_cons, List.map_nil, pr, mkRow_single]
          exact (mk_last_of_ne _ this).symm
      · exact (mk_mkRow_entries hcl hv.2 hk).symm

/-- the postcondition of `split` -/
def SplitOK (n : Nat) (h : Heap) (st : List SNode) (x : Bool × T × List Nat) (key : Nat) (lr : HLink × HLink) : Prop :=
  ∃ g xl xr, repLink h st g lr.1 = some xl ∧ repLink h st g lr.2 = some xr ∧ xl.1 = false ∧ xr.1 = false ∧
    xl.2.1 = T.mk (T.split x.2.1 key).1 ∧ xr.2.1 = T.mk (T.split x.2.1 key).2 ∧ FpExt n x.2.2 (xl.2.2 ++ xr.2.2)

/-- the statement proved by induction on the fuel -/
def SplitSpec (E : Env) (m key f : Nat) : Prop :=
  ∀ (a : Nat) (s : PS) (g : Nat) (x : Bool × T × List Nat), Good s →
    repLink s.heap s.store g (.ptr a) = some x → x.2.2.Nodup →
    Spec (Grow m) (split E m key f a) s (fun lr s' => SplitOK s.heap.length s'.heap s'.store x key lr)

/-- the recursive call as `split` makes it: nothing below an absent link, else load and split -/
theorem subsplit_spec {m : Nat} (E : Env) (key f : Nat) (ih : SplitSpec E m key f) (lk : HLink) (s : PS) (g : Nat)
    (x : Bool × T × List Nat) (hg : Good s) (hx : repLink s.heap s.store g lk = some x) (hnd : x.2.2.Nodup) :
    Spec (Grow m) (if lk = .nil then (pure (HLink.nil, HLink.nil) : M (HLink × HLink)) else do
        let c ← load E lk
        split E m key f c) s (fun lr s' => SplitOK s.heap.length s'.heap s'.store x key lr) := by
  split
  · next h0 =>
    subst h0
    simp at hx; subst hx
    refine Spec.pure ⟨0, (false, T.nil, []), (false, T.nil, []), by simp, by simp, rfl, rfl, ?_, ?_, ?_⟩
    · simp [T.split, T.mk]
    · simp [T.split, T.mk]
    · exact FpExt.refl (by simp)
  · next h0 =>
    refine Spec.bind (load_spec (m := m) E lk s hg) ?_
    rintro c s1 _ hgr ⟨_, _, hld⟩
    have hc := hld g x hx
    refine (ih c s1 g _ (hgr.good hg) hc hnd).conseq ?_
    rintro lr s2 _ _ ⟨g2, xl, xr, h1, h2, h3, h4, h5, h6, h7⟩
    exact ⟨g2, xl, xr, h1, h2, h3, h4, h5, h6, h7.n_mono hgr.length⟩

end Mast.Ptr
